/-
  C06, the composition: ONE value domain `CanonAll` for all type constructors of the codec model, closed
  under plain structures, fixed arrays, StructTag members and a tail-position unbounded array, and the
  round trip `decode (encode v) = v` for it — so that a StructTag, a STRINGI, a STRINGN or an array of bit
  strings may sit inside a `Struct`, inside an array, or inside another StructTag, at any depth.

  Definitions (no proofs): PycommProofs/RTAll1.lean — `CanonAll` (with the list of excluded real values in
  its docstring), `SelfDelim`, `decodedAs`, `NoStringI`.
  Helper lemmas: RTAll2.lean (facts about `decode` for every type), RTAll3.lean (the mutual induction
  `rta_full`), RTAll4.lean (`Canon → CanonAll`, introduction rules, STRINGI never returns its input).
-/
import PycommProofs.RTAll4
import PycommModel.Sexp
namespace Pycomm
open Pycomm.RT

/-- a structure of three named members -/
@[reducible] def struct3 (n1 : Name) (t1 : Ty) (n2 : Name) (t2 : Ty) (n3 : Name) (t3 : Ty) : Ty :=
  .struct (.cons (some n1) t1 (.cons (some n2) t2 (.cons (some n3) t3 .nil)))

/-- pairwise distinct non-empty member names -/
def Names3 (n1 n2 n3 : Name) : Prop := n1 ≠ [] ∧ n2 ≠ [] ∧ n3 ≠ [] ∧ n1 ≠ n2 ∧ n1 ≠ n3 ∧ n2 ≠ n3

theorem rta_ne_nil (t : Ty) (v : PyVal) (h : CanonAll t v) (hw : PosWidth t) (bs : Bytes)
    (he : encode t v = .ok bs) : bs ≠ [] := by
  obtain ⟨a, h1, h2⟩ := rta_full t v h
  rw [he] at h1; cases h1
  have hp := decode_progress t hw bs _ [] h2
  intro e; subst e; simp at hp

theorem rta_struct3_selfDelim (n1 n2 n3 : Name) (t1 t2 t3 : Ty) (h1 : SelfDelim t1) (h2 : SelfDelim t2)
    (h3 : SelfDelim t3) : SelfDelim (struct3 n1 t1 n2 t2 n3 t3) := by
  simp only [SelfDelim, SelfDelimMembers]
  exact ⟨h1, h2, h3, trivial⟩

/-- compiled check used by the `#guard`s: `v` encodes and `decode t (encode t v ++ rest) = (out, rest)` -/
def rtaCheck (t : Ty) (v out : PyVal) (rest : Bytes) : Bool :=
  match encode t v with
  | .ok bs =>
      match decode t (bs ++ rest) with
      | .ok (x, r) => x.toSexp.render == out.toSexp.render && r == rest
      | .error _ => false
  | .error _ => false

/-- compiled check: `v` encodes, and decoding the encoding followed by `rest` fails -/
def rtaFails (t : Ty) (v : PyVal) (rest : Bytes) : Bool :=
  match encode t v with
  | .ok bs =>
      match decode t (bs ++ rest) with
      | .ok _ => false
      | .error _ => true
  | .error _ => false

-- PROPERTY THEOREMS

/-- `CanonAll` is a genuine extension of `Canon`: every canonical value of the tail-safe fragment is in it. -/
theorem canonAll_of_canon (t : Ty) (v : PyVal) (h : Canon t v) : CanonAll t v :=
  rta_canon_all.1 t v h

/-- `CanonAll` contains the StructTag values nested to any depth (`TagCanonN n`, for every `n`). -/
theorem canonAll_of_tagCanon (n : Nat) (t : Ty) (v : PyVal) (h : TagCanonN n t v) : CanonAll t v :=
  rta_tagCanon n t v h

/-- A StructTag value enters `CanonAll` exactly through the layout conditions of `structTag_roundtrip`, with
    member values that are themselves in `CanonAll`. -/
theorem canonAll_structTag (ms : TMembers) (bits : List (Name × Nat × Nat)) (priv : List Name) (size : Nat)
    (hl : TagLayout ms bits priv size) (kvs : List (Name × PyVal)) (hk : TagDict CanonAll ms bits priv kvs) :
    CanonAll (.structTag ms bits priv size) (.dict kvs) :=
  rta_intro_structTag ms bits priv size hl kvs hk

-- STATEMENT CHANGED: the requested conclusion `decode t (bs ++ rest) = .ok (v, rest)` is false as soon as a
-- STRINGI occurs in `t`: `STRINGI.encode` takes the list of items `(string, type code, language, char set)`
-- and `STRINGI.decode` returns the triple of lists `(strings, languages, char sets)` — no value at all is
-- returned unchanged (`stringI_never_identity` below).  The conclusion therefore returns `decodedAs t v`:
-- `v` with every STRINGI item list replaced by its triple of lists (RTAll1.lean); it IS `v` when `t` contains
-- no STRINGI (`decode_encode_all_same`).  The Python library behaves the same at top level
-- (`STRINGI.decode(STRINGI.encode(('Hi', STRING, 'eng', 4)))` is `(['Hi'], ['eng'], [4])`).
-- Counterexample to the requested statement (the value is in `CanonAll`, the decoded value differs):
#guard rtaCheck .stringI (.list [.tuple [.str [72, 105], .int 0xD0, .str [101, 110, 103], .int 4]])
  (.tuple [.list [.str [72, 105]], .list [.str [101, 110, 103]], .list [.int 4]]) [9]
#guard !rtaCheck .stringI (.list [.tuple [.str [72, 105], .int 0xD0, .str [101, 110, 103], .int 4]])
  (.list [.tuple [.str [72, 105], .int 0xD0, .str [101, 110, 103], .int 4]]) [9]
-- STATEMENT CHANGED: hypothesis `SelfDelim t` (the "fixed or self-delimiting width" of the task, made
-- precise): an unbounded array or `n_bytes(-1)` in a decoded position swallows `rest`:
#guard !rtaCheck (.arr .all (.int .usint)) (.list [.int 1]) (.list [.int 1]) [7]
#guard rtaFails (.struct (.cons (some [97]) (.arr .all (.int .usint)) (.cons (some [98]) (.int .usint) .nil)))
  (.dict [([97], .list [.int 1, .int 2]), ([98], .int 3)]) []
/-- Every value of `CanonAll` of a self-delimiting type encodes, and decoding the encoding followed by ANY
    further bytes returns the value (in the shape `decode` gives it: `decodedAs`, the identity outside
    STRINGI) and leaves exactly those further bytes.  This is `decode_encode` for all type constructors:
    StructTag, STRINGI, STRINGN and arrays of bit strings inside structures, arrays and StructTags. -/
theorem decode_encode_all (t : Ty) (v : PyVal) (h : CanonAll t v) (hs : SelfDelim t) :
    ∃ bs, encode t v = .ok bs ∧ ∀ rest, decode t (bs ++ rest) = .ok (decodedAs t v, rest) :=
  (rta_full t v h).stable hs

/-- The requested statement verbatim, for types without a STRINGI inside: decoding returns `v` itself. -/
theorem decode_encode_all_same (t : Ty) (v : PyVal) (h : CanonAll t v) (hs : SelfDelim t) (hn : NoStringI t) :
    ∃ bs, encode t v = .ok bs ∧ ∀ rest, decode t (bs ++ rest) = .ok (v, rest) := by
  have := decode_encode_all t v h hs
  rwa [rta_noStringI_id t hn v] at this

/-- The unbounded-tail variant, for EVERY value of `CanonAll` (an unbounded array or `n_bytes(-1)` at the very
    end of the value allowed): decoding exactly the encoding returns the value and consumes everything. -/
theorem decode_encode_all_unbounded (t : Ty) (v : PyVal) (h : CanonAll t v) :
    ∃ bs, encode t v = .ok bs ∧ decode t bs = .ok (decodedAs t v, []) :=
  rta_full t v h

/-- `decode_encode_unbounded` with elements from `CanonAll`, in its exact shape (elements in element position:
    `CanonArg t x` is `CanonAll t x` for every `t` but STRINGI, where `x` is ONE item).  The hypothesis `h0` of that
    theorem (BufferEmptyError on the empty buffer when the list is empty) is no longer needed: it follows
    from `SelfDelim t` and `PosWidth t` (`decode_nil_all`). -/
theorem decode_encode_all_unbounded_array (t : Ty) (vs : List PyVal) (hb : t.isBits = none)
    (hw : PosWidth t) (hs : SelfDelim t) (h : ∀ x ∈ vs, CanonArg t x) :
    ∃ bs, encode (.arr .all t) (.list vs) = .ok bs ∧
      decode (.arr .all t) bs = .ok (.list (vs.map fun x => decodedArg t x), []) := by
  have := rta_full (.arr .all t) (.list vs) (rta_intro_unbounded t vs hb hw hs h)
  rwa [RTA, rta_decodedAs_arr] at this

/-- a self-delimiting type whose values take at least one byte raises BufferEmptyError on the empty buffer
    (no canonical value needed, unlike `decode_nil_of_canon`) -/
theorem decode_nil_all (t : Ty) (hs : SelfDelim t) (hw : PosWidth t) : decode t [] = .error .bufferEmpty :=
  rta_decode_nil t hs hw

-- STATEMENT CHANGED: `CanonAll` is NOT closed under length-prefixed arrays, and cannot be: `T[K].encode`
-- writes the elements only, `T[K].decode` first reads the count as a `K`.  So the bytes of such an array
-- inside a structure are read back with the first element bytes taken for the count (same in the Python
-- library: `Struct(UINT('x'), Array(UINT, USINT)('arr')).encode({'x': 1, 'arr': [5, 6]})` is
-- `b'\x01\x00\x05\x06'` and decoding that raises BufferEmptyError).  What holds is the closure of the
-- ELEMENTS: `decode_encode_prefixed` with elements from `CanonAll` — the count written by the caller.
#guard rtaFails (.struct (.cons (some [120]) (.int .uint) (.cons (some [97]) (.arr (.pref .uint) (.int .usint)) .nil)))
  (.dict [([120], .int 1), ([97], .list [.int 5, .int 6])]) []
#guard rtaFails (.arr (.pref .uint) (.int .usint)) (.list [.int 5, .int 6]) []
/-- Length-prefixed arrays: the elements may be any values of `CanonAll` of a self-delimiting type that
    consumes bytes; the encoding preceded by the count (which `encode` does not write) decodes to the list. -/
theorem decode_encode_all_prefixed (k : IntK) (t : Ty) (vs : List PyVal) (hb : t.isBits = none)
    (hw : PosWidth t) (hs : SelfDelim t) (hk : k.signed = false) (hn : (vs.length : Int) ≤ k.hi)
    (h : ∀ x ∈ vs, CanonArg t x) :
    ∃ bs, encode (.arr (.pref k) t) (.list vs) = .ok bs ∧
      ∀ rest, decode (.arr (.pref k) t) (leBytes k.size vs.length ++ bs ++ rest) =
        .ok (.list (vs.map fun x => decodedArg t x), rest) := by
  obtain ⟨bs, he, hd⟩ := rta_list_rt (fun x => encode t (argOf t x)) (decode t)
    (fun x => decodedAs t (argOf t x)) vs
    (fun x hx => (rta_full t (argOf t x) (h x hx)).stable hs)
  have hlen : vs.length ≤ bs.length := encodeList_len (fun x => encode t (argOf t x)) vs
    (fun x hx a ha => rta_ne_nil t (argOf t x) (h x hx) hw a ha) bs he
  obtain ⟨_, hlt⟩ := packInt_nat k vs.length hk hn
  refine ⟨bs, ?_, ?_⟩
  · simp [encode, PyVal.len?, PyVal.seq?, hb, he]
  · intro rest
    have hnot : ¬ (vs.length > (bs ++ rest).length + 65536) := by simp; omega
    simp only [decode, List.append_assoc, decodeIntNat_append k vs.length (bs ++ rest) hlt, hnot,
      if_false, hd rest, hb]
    simp

/-- `canon_fixed_roundtrip` for `CanonAll`: a value of a fixed-width type encodes to exactly that many bytes
    and comes back unchanged (a fixed-width type contains no STRINGI). -/
theorem decode_encode_all_fixed (t : Ty) (v : PyVal) (w : Nat) (h : CanonAll t v) (hw : fixedWidth t = some w) :
    ∃ enc, encode t v = .ok enc ∧ enc.length = w ∧ ∀ rest, decode t (enc ++ rest) = .ok (v, rest) := by
  obtain ⟨enc, he, hd⟩ := decode_encode_all t v h (rta_fixed_selfDelim t w hw)
  rw [rta_fixed_id t w hw] at hd
  obtain ⟨h1, h2⟩ := fixed_width_needs_width t w hw (enc ++ []) v [] (hd [])
  rw [List.append_nil] at h1 h2
  have : enc.length ≤ w := List.drop_eq_nil_iff.1 h2.symm
  exact ⟨enc, he, by omega, hd⟩

/-- a value of a type that consumes bytes never encodes to nothing -/
theorem encode_all_ne_nil (t : Ty) (v : PyVal) (h : CanonAll t v) (hw : PosWidth t) (bs : Bytes)
    (he : encode t v = .ok bs) : bs ≠ [] :=
  rta_ne_nil t v h hw bs he

/-- Whatever value STRINGI accepts (not only those of `CanonAll`), decoding its encoding never returns that
    value: the reason for `decodedAs`. -/
theorem stringI_never_identity (v : PyVal) (bs r : Bytes) (he : encode .stringI v = .ok bs) :
    decode .stringI bs ≠ .ok (v, r) :=
  rta_stringI_never_id v bs r he

/-! ### the compositions that were missing -/

/-- A StructTag as a member of a plain structure, between a self-delimiting member and any last member
    (which may even be an unbounded array): the structure round-trips; the StructTag's dict comes back
    unchanged.  If the last member is self-delimiting too, any bytes may follow.
    (`CanonArg t v`: `v` is canonical in member position — `CanonAll t v` for every `t` but STRINGI, where `v`
    is ONE item; `decodedArg t v` is what comes back — `decodedAs t v` for every `t` but STRINGI.) -/
theorem struct_with_structTag_member_roundtrip (n1 n2 n3 : Name) (t1 t3 : Ty) (v1 v3 : PyVal)
    (ms : TMembers) (bits : List (Name × Nat × Nat)) (priv : List Name) (size : Nat) (kvs : List (Name × PyVal))
    (hn : Names3 n1 n2 n3) (h1 : CanonArg t1 v1) (hs1 : SelfDelim t1) (h3 : CanonArg t3 v3)
    (hl : TagLayout ms bits priv size) (hk : TagDict CanonAll ms bits priv kvs) :
    ∃ bs, encode (struct3 n1 t1 n2 (.structTag ms bits priv size) n3 t3)
        (.dict [(n1, v1), (n2, .dict kvs), (n3, v3)]) = .ok bs ∧
      decode (struct3 n1 t1 n2 (.structTag ms bits priv size) n3 t3) bs =
        .ok (.dict [(n1, decodedArg t1 v1), (n2, .dict kvs), (n3, decodedArg t3 v3)], []) ∧
      (SelfDelim t3 → ∀ rest, decode (struct3 n1 t1 n2 (.structTag ms bits priv size) n3 t3) (bs ++ rest) =
        .ok (.dict [(n1, decodedArg t1 v1), (n2, .dict kvs), (n3, decodedArg t3 v3)], rest)) := by
  have hc := rta_intro_struct3 n1 n2 n3 t1 (.structTag ms bits priv size) t3 v1 (.dict kvs) v3 hn h1
    (canonAll_structTag ms bits priv size hl kvs hk) h3 hs1 (by simp only [SelfDelim])
  obtain ⟨bs, he, hd⟩ := rta_full _ _ hc
  rw [rta_decodedAs_struct3, rta_decodedArg_eq (.structTag ms bits priv size) _ (by simp), rta_decodedAs_tag] at hd
  refine ⟨bs, he, hd, fun hs3 rest => ?_⟩
  have := rta_stable _ (rta_struct3_selfDelim n1 n2 n3 t1 _ t3 hs1 (by simp only [SelfDelim]) hs3) bs _ [] hd rest
  simpa using this

/-- An array of StructTags (a Logix UDT array), fixed length: `n` dicts, each under the layout conditions,
    encode to exactly `n·size` bytes and decode back to the same dicts, whatever follows. -/
theorem array_of_structTag_roundtrip (n : Nat) (ms : TMembers) (bits : List (Name × Nat × Nat))
    (priv : List Name) (size : Nat) (dicts : List (List (Name × PyVal))) (hlen : dicts.length = n)
    (hl : TagLayout ms bits priv size) (hk : ∀ kvs ∈ dicts, TagDict CanonAll ms bits priv kvs) :
    ∃ bs, encode (.arr (.fixed n) (.structTag ms bits priv size)) (.list (dicts.map PyVal.dict)) = .ok bs ∧
      bs.length = size * n ∧
      ∀ rest, decode (.arr (.fixed n) (.structTag ms bits priv size)) (bs ++ rest) =
        .ok (.list (dicts.map PyVal.dict), rest) := by
  refine decode_encode_all_fixed _ _ _ (rta_intro_array n _ _ rfl (by simpa using hlen) (by simp only [SelfDelim])
    ?_) (by simp [fixedWidth, hl.size_pos])
  intro x hx
  obtain ⟨kvs, hkv, rfl⟩ := List.mem_map.1 hx
  exact canonAll_structTag ms bits priv size hl kvs (hk kvs hkv)

/-- An unbounded array of StructTags: any number of dicts, on the exact buffer. -/
theorem unbounded_array_of_structTag_roundtrip (ms : TMembers) (bits : List (Name × Nat × Nat))
    (priv : List Name) (size : Nat) (dicts : List (List (Name × PyVal)))
    (hl : TagLayout ms bits priv size) (hk : ∀ kvs ∈ dicts, TagDict CanonAll ms bits priv kvs) :
    ∃ bs, encode (.arr .all (.structTag ms bits priv size)) (.list (dicts.map PyVal.dict)) = .ok bs ∧
      decode (.arr .all (.structTag ms bits priv size)) bs = .ok (.list (dicts.map PyVal.dict), []) := by
  have := decode_encode_all_unbounded_array (.structTag ms bits priv size) (dicts.map PyVal.dict) rfl
    (by simp only [PosWidth]; exact hl.size_pos) (by simp only [SelfDelim]) (by
      intro x hx
      obtain ⟨kvs, hkv, rfl⟩ := List.mem_map.1 hx
      exact canonAll_structTag ms bits priv size hl kvs (hk kvs hkv))
  rwa [rta_map_id _ _ (fun x => (rfl : decodedArg (.structTag ms bits priv size) x = x))] at this

-- STATEMENT CHANGED (as for `decode_encode_all`): the STRINGI member comes back as the triple of lists, not
-- as the value that was encoded.
-- STATEMENT CHANGED (model corrected after the finding of the first round): for a STRINGI *member* (or array
-- element) the Python library calls `STRINGI.encode(value)` with the member value as the ONE star-argument of
-- `encode(*strings)`, so the member value is a single item `(string, type, language, char set)` and the count
-- written is 1 (`Struct(INT('a'), STRINGI('s')).encode({'a': 1, 's': ('Hi', STRING, 'eng', 4)})` decodes to
-- `{'a': 1, 's': (['Hi'], ['eng'], [4])}`).  The former statement, with a LIST of items as the member value,
-- is false of the model now (and of the library): the list is rejected with DataError.
#guard (match encode (.struct (.cons (some [97]) (.int .int) (.cons (some [115]) .stringI .nil)))
    (.dict [([97], .int 1), ([115], .list [.tuple [.str [72, 105], .int 0xD0, .str [101, 110, 103], .int 4]])]) with
  | .error .data => true | _ => false)
#guard rtaCheck (.struct (.cons (some [97]) (.int .int) (.cons (some [115]) .stringI .nil)))
  (.dict [([97], .int 1), ([115], .tuple [.str [72, 105], .int 0xD0, .str [101, 110, 103], .int 4])])
  (.dict [([97], .int 1), ([115], .tuple [.list [.str [72, 105]], .list [.str [101, 110, 103]], .list [.int 4]])]) [9]
#guard rtaCheck (.arr (.fixed 2) .stringI)
  (.list [.tuple [.str [72, 105], .int 0xD0, .str [101, 110, 103], .int 4],
          .tuple [.str [89, 111], .int 0xD0, .str [102, 114, 97], .int 5]])
  (.list [.tuple [.list [.str [72, 105]], .list [.str [101, 110, 103]], .list [.int 4]],
          .tuple [.list [.str [89, 111]], .list [.str [102, 114, 97]], .list [.int 5]]]) []
/-- A STRINGI as a member of a plain structure, between a self-delimiting member and any last member: the
    member value is ONE item `(string, type code, language, char set)`; the structure round-trips, the STRINGI
    member coming back as `([string], [language], [char set])`. -/
theorem struct_with_stringI_member_roundtrip (n1 n2 n3 : Name) (t1 t3 : Ty) (v1 v3 : PyVal)
    (i : SIItem) (hn : Names3 n1 n2 n3) (h1 : CanonArg t1 v1) (hs1 : SelfDelim t1)
    (h3 : CanonArg t3 v3) (hok : i.Ok) :
    ∃ bs, encode (struct3 n1 t1 n2 .stringI n3 t3) (.dict [(n1, v1), (n2, i.val), (n3, v3)]) = .ok bs ∧
      decode (struct3 n1 t1 n2 .stringI n3 t3) bs =
        .ok (.dict [(n1, decodedArg t1 v1),
          (n2, .tuple [.list [.str i.s], .list [.str i.lang], .list [.int i.cset]]), (n3, decodedArg t3 v3)], []) ∧
      (SelfDelim t3 → ∀ rest, decode (struct3 n1 t1 n2 .stringI n3 t3) (bs ++ rest) =
        .ok (.dict [(n1, decodedArg t1 v1),
          (n2, .tuple [.list [.str i.s], .list [.str i.lang], .list [.int i.cset]]), (n3, decodedArg t3 v3)], rest)) := by
  have hc := rta_intro_struct3 n1 n2 n3 t1 .stringI t3 v1 i.val v3 hn h1
    (rta_intro_stringI_item i hok) h3 hs1 (by simp only [SelfDelim])
  obtain ⟨bs, he, hd⟩ := rta_full _ _ hc
  rw [rta_decodedAs_struct3, rta_decodedArg_stringI] at hd
  refine ⟨bs, he, hd, fun hs3 rest => ?_⟩
  have := rta_stable _ (rta_struct3_selfDelim n1 n2 n3 t1 _ t3 hs1 (by simp only [SelfDelim]) hs3) bs _ [] hd rest
  simpa using this

/-- An array of STRINGIs: each element is ONE item and comes back as its triple of one-element lists. -/
theorem array_of_stringI_roundtrip (n : Nat) (items : List SIItem) (hlen : items.length = n)
    (hok : ∀ i ∈ items, i.Ok) :
    ∃ bs, encode (.arr (.fixed n) .stringI) (.list (items.map SIItem.val)) = .ok bs ∧
      ∀ rest, decode (.arr (.fixed n) .stringI) (bs ++ rest) =
        .ok (.list (items.map fun i => .tuple [.list [.str i.s], .list [.str i.lang], .list [.int i.cset]]),
          rest) := by
  have hc : CanonAll (.arr (.fixed n) .stringI) (.list (items.map SIItem.val)) :=
    rta_intro_array n .stringI _ rfl (by simpa using hlen) (by simp only [SelfDelim]) (by
      intro x hx
      obtain ⟨i, hi, rfl⟩ := List.mem_map.1 hx
      exact rta_intro_stringI_item i (hok i hi))
  have := decode_encode_all _ _ hc (by cases n <;> simp only [SelfDelim])
  rw [rta_decodedAs_arr, List.map_map] at this
  have he : ((fun x => decodedArg .stringI x) ∘ SIItem.val) =
      fun i : SIItem => PyVal.tuple [.list [.str i.s], .list [.str i.lang], .list [.int i.cset]] := by
    funext i; exact rta_decodedArg_stringI i
  rwa [he] at this

-- STATEMENT NOTE (recorded findings, excluded by the hypothesis `hr`): `T[n].encode` for a bit-string `T`
-- compares the number of BOOLS with `n` and never truncates, so a flat list whose length is not exactly
-- `n·8·size` is not rejected but encodes to another number of elements:
#guard (encode (.arr (.fixed 2) (.bits .usint)) (.list (List.replicate 8 (.bool true)))).toOption == some [255]
#guard (encode (.arr (.fixed 2) (.bits .usint)) (.list (List.replicate 24 (.bool true)))).toOption == some [255, 255, 255]
#guard (encode (.arr (.fixed 2) (.bits .usint)) (.list (List.replicate 2 (.bool true)))).toOption == some []
-- An array OF arrays of bit strings does not flatten at the outer level (only an array whose element type is
-- itself a bit string is flat), so the value is the list of the flat rows; Python agrees
-- (`Array(2, Array(1, BYTE))` round-trips `[[True]*8, [False]*8]`).
/-- An array of arrays of bit strings: `m` rows, each the flat list of exactly `n·8·size` `bool`s, encode to
    `size·n·m` bytes and decode back to the same list of rows, whatever follows. -/
theorem array_of_bitarray_roundtrip (m n : Nat) (k : IntK) (rows : List (List Bool)) (hm : rows.length = m)
    (hr : ∀ r ∈ rows, r.length = n * (8 * k.size)) :
    ∃ bs, encode (.arr (.fixed m) (.arr (.fixed n) (.bits k)))
        (.list (rows.map fun r => .list (r.map PyVal.bool))) = .ok bs ∧
      bs.length = k.size * n * m ∧
      ∀ rest, decode (.arr (.fixed m) (.arr (.fixed n) (.bits k))) (bs ++ rest) =
        .ok (.list (rows.map fun r => .list (r.map PyVal.bool)), rest) := by
  refine decode_encode_all_fixed _ _ _ (rta_intro_array m _ _ rfl (by simpa using hm) ?_ ?_)
    (by simp [fixedWidth])
  · cases n <;> simp only [SelfDelim]
  · intro x hx
    obtain ⟨r, hrm, rfl⟩ := List.mem_map.1 hx
    exact rta_intro_bitarray n k r (hr r hrm)

/-- An array of bit strings as a member of a plain structure (flat list of exactly `n·8·size` `bool`s). -/
theorem struct_with_bitarray_member_roundtrip (n1 n2 n3 : Name) (t1 t3 : Ty) (v1 v3 : PyVal)
    (n : Nat) (k : IntK) (bools : List Bool) (hn : Names3 n1 n2 n3) (h1 : CanonArg t1 v1) (hs1 : SelfDelim t1)
    (h3 : CanonArg t3 v3) (hb : bools.length = n * (8 * k.size)) :
    ∃ bs, encode (struct3 n1 t1 n2 (.arr (.fixed n) (.bits k)) n3 t3)
        (.dict [(n1, v1), (n2, .list (bools.map PyVal.bool)), (n3, v3)]) = .ok bs ∧
      decode (struct3 n1 t1 n2 (.arr (.fixed n) (.bits k)) n3 t3) bs =
        .ok (.dict [(n1, decodedArg t1 v1), (n2, .list (bools.map PyVal.bool)), (n3, decodedArg t3 v3)], []) ∧
      (SelfDelim t3 → ∀ rest, decode (struct3 n1 t1 n2 (.arr (.fixed n) (.bits k)) n3 t3) (bs ++ rest) =
        .ok (.dict [(n1, decodedArg t1 v1), (n2, .list (bools.map PyVal.bool)), (n3, decodedArg t3 v3)], rest)) := by
  have hsb : SelfDelim (.arr (.fixed n) (.bits k)) := by cases n <;> simp only [SelfDelim]
  have hc := rta_intro_struct3 n1 n2 n3 t1 (.arr (.fixed n) (.bits k)) t3 v1 (.list (bools.map PyVal.bool)) v3
    hn h1 (rta_intro_bitarray n k bools hb) h3 hs1 hsb
  obtain ⟨bs, he, hd⟩ := rta_full _ _ hc
  rw [rta_decodedAs_struct3, rta_decodedArg_eq (.arr (.fixed n) (.bits k)) _ (by simp), rta_bitarr_id] at hd
  refine ⟨bs, he, hd, fun hs3 rest => ?_⟩
  have := rta_stable _ (rta_struct3_selfDelim n1 n2 n3 t1 _ t3 hs1 hsb hs3) bs _ [] hd rest
  simpa using this

/-! ### non-vacuity -/

namespace RTAllEx

/-- the UDT of CodecRoundTripExt.lean: hidden SINT host with two BOOL aliases, a DINT and an INT -/
def inner : Ty := .structTag exTagMembers exTagBits [[90, 90]] 12

/-- an outer UDT: the UDT above at byte 0, a hidden USINT host at byte 12 carrying the alias `f` (bit 1),
    a USINT at byte 13 -/
def outerMembers : TMembers :=
  .cons [117] inner 0 (.cons [104] (.int .usint) 12 (.cons [122] (.int .usint) 13 .nil))
def outerBits : List (Name × Nat × Nat) := [([102], 12, 1)]
def outer : Ty := .structTag outerMembers outerBits [[104]] 16
def outerDict : List (Name × PyVal) := [([117], .dict exTagDict), ([122], .int 7), ([102], .bool true)]

def items : List SIItem :=
  [{ s := [72, 105], kind := .string, lang := [101, 110, 103], cset := 4 },
   { s := [0x20AC], kind := .string2, lang := [102, 114, 97], cset := 1000 }]

/-- the one item of a STRINGI member -/
def item1 : SIItem := { s := [0x20AC, 33], kind := .string2, lang := [102, 114, 97], cset := 1000 }

/-- `Struct(INT('a'), <outer UDT>('u'), STRINGI('s'))`; the STRINGI member's value is ONE item -/
def rec3 : Ty := struct3 [97] (.int .int) [117] outer [115] .stringI
def recVal (i : Int) : PyVal :=
  .dict [([97], .int i), ([117], .dict outerDict), ([115], item1.val)]
def recOut (i : Int) : PyVal :=
  .dict [([97], .int i), ([117], .dict outerDict),
    ([115], .tuple [.list [.str [0x20AC, 33]], .list [.str [102, 114, 97]], .list [.int 1000]])]

private theorem innerLayout : TagLayout exTagMembers exTagBits [[90, 90]] 12 where
  size_pos := by omega
  members := by
    simp [exTagMembers, TagMembersOk, fixedWidth, IntK.size, TMembers.names, TMembers.toList]
  hidden_total := by
    intro m hm hp w hw
    simp only [exTagMembers, TMembers.toList, List.mem_cons, List.not_mem_nil, or_false] at hm
    rcases hm with rfl | rfl | rfl
    · simp only [fixedWidth, Option.some.injEq] at hw; subst hw; exact rtx_total_int .sint
    · simp at hp
    · simp at hp
  priv_members := by simp [exTagMembers, TMembers.names, TMembers.toList]
  bit_names_nodup := by simp [exTagBits]
  bit_names_fresh := by simp [exTagBits, exTagMembers, TMembers.names, TMembers.toList]
  bit_range := by simp [exTagBits]
  bit_pos_nodup := by simp [exTagBits]
  bit_hidden := by
    intro b hb m hm hp w hw
    simp only [exTagMembers, TMembers.toList, List.mem_cons, List.not_mem_nil, or_false] at hm
    simp only [exTagBits, List.mem_cons, List.not_mem_nil, or_false] at hb
    rcases hm with rfl | rfl | rfl
    · simp at hp
    · rcases hb with rfl | rfl <;> simp
    · rcases hb with rfl | rfl <;> simp

private theorem canonInt (k : IntK) (i : Int) (h : k.lo ≤ i ∧ i ≤ k.hi) : CanonAll (.int k) (.int i) :=
  canonAll_of_canon _ _ ⟨i, rfl, h.1, h.2⟩

private theorem innerDict : TagDict CanonAll exTagMembers exTagBits [[90, 90]] exTagDict := by
  refine ⟨by simp [TMembers.visible, exTagMembers, exTagBits, exTagDict, TMembers.toList], ?_, ?_⟩
  · intro m hm hp
    simp only [exTagMembers, TMembers.toList, List.mem_cons, List.not_mem_nil, or_false] at hm
    rcases hm with rfl | rfl | rfl
    · simp at hp
    · exact ⟨.int (-5), by simp [dictGet, exTagDict],
        canonInt _ _ (by simp [IntK.lo, IntK.hi, IntK.signed, IntK.size])⟩
    · exact ⟨.int 300, by simp [dictGet, exTagDict],
        canonInt _ _ (by simp [IntK.lo, IntK.hi, IntK.signed, IntK.size])⟩
  · intro b hb
    simp only [exTagBits, List.mem_cons, List.not_mem_nil, or_false] at hb
    rcases hb with rfl | rfl
    · exact ⟨true, by simp [dictGet, exTagDict]⟩
    · exact ⟨false, by simp [dictGet, exTagDict]⟩

private theorem innerCanon : CanonAll inner (.dict exTagDict) :=
  canonAll_structTag _ _ _ _ innerLayout _ innerDict

private theorem outerLayout : TagLayout outerMembers outerBits [[104]] 16 where
  size_pos := by omega
  members := by
    simp [outerMembers, inner, TagMembersOk, fixedWidth, IntK.size, TMembers.names, TMembers.toList]
  hidden_total := by
    intro m hm hp w hw
    simp only [outerMembers, TMembers.toList, List.mem_cons, List.not_mem_nil, or_false] at hm
    rcases hm with rfl | rfl | rfl
    · simp at hp
    · simp only [fixedWidth, Option.some.injEq] at hw; subst hw; exact rtx_total_int .usint
    · simp at hp
  priv_members := by simp [outerMembers, TMembers.names, TMembers.toList]
  bit_names_nodup := by simp [outerBits]
  bit_names_fresh := by simp [outerBits, outerMembers, TMembers.names, TMembers.toList]
  bit_range := by simp [outerBits]
  bit_pos_nodup := by simp [outerBits]
  bit_hidden := by
    intro b hb m hm hp w hw
    simp only [outerMembers, TMembers.toList, List.mem_cons, List.not_mem_nil, or_false] at hm
    simp only [outerBits, List.mem_singleton] at hb
    subst hb
    rcases hm with rfl | rfl | rfl
    · simp [inner, fixedWidth] at hw; subst hw; simp
    · simp at hp
    · simp [fixedWidth, IntK.size] at hw; subst hw; simp

private theorem outerDictOk : TagDict CanonAll outerMembers outerBits [[104]] outerDict := by
  refine ⟨by simp [TMembers.visible, outerMembers, outerBits, outerDict, TMembers.toList], ?_, ?_⟩
  · intro m hm hp
    simp only [outerMembers, TMembers.toList, List.mem_cons, List.not_mem_nil, or_false] at hm
    rcases hm with rfl | rfl | rfl
    · exact ⟨.dict exTagDict, by simp [dictGet, outerDict], innerCanon⟩
    · simp at hp
    · exact ⟨.int 7, by simp [dictGet, outerDict],
        canonInt _ _ (by simp [IntK.lo, IntK.hi, IntK.signed, IntK.size])⟩
  · intro b hb
    simp only [outerBits, List.mem_singleton] at hb
    subst hb
    exact ⟨true, by simp [dictGet, outerDict]⟩

private theorem itemsOk : ∀ i ∈ items, i.Ok := by simp [items, SIItem.Ok, StrKind.Dom, TextOk]

private theorem item1Ok : item1.Ok := by simp [item1, SIItem.Ok, StrKind.Dom, TextOk]

private theorem names : Names3 [97] [117] [115] := by simp [Names3]

private theorem int16 (i : Int) (h : -32768 ≤ i ∧ i ≤ 32767) : CanonAll (.int .int) (.int i) :=
  canonInt _ _ (by simpa [IntK.lo, IntK.hi, IntK.signed, IntK.size] using h)

/-- the structure with an INT, a StructTag member (with a bit alias and a nested StructTag) and a STRINGI is
    in `CanonAll` -/
private theorem recCanon (i : Int) (h : -32768 ≤ i ∧ i ≤ 32767) : CanonAll rec3 (recVal i) :=
  rta_intro_struct3 _ _ _ _ _ _ _ _ _ names (int16 i h)
    (canonAll_structTag _ _ _ _ outerLayout _ outerDictOk) (rta_intro_stringI_item item1 item1Ok)
    (by simp only [SelfDelim]) (by simp only [outer, SelfDelim])

private theorem recSelfDelim : SelfDelim rec3 :=
  rta_struct3_selfDelim _ _ _ _ _ _ (by simp only [SelfDelim]) (by simp only [outer, SelfDelim])
    (by simp only [SelfDelim])

private theorem recOutEq (i : Int) : decodedArg rec3 (recVal i) = recOut i := by
  show decodedAs rec3 (recVal i) = recOut i
  simp only [rec3, recVal, rta_decodedAs_struct3]
  rfl

/-- `Array(2)` of that structure -/
private theorem arrCanon : CanonAll (.arr (.fixed 2) rec3) (.list [recVal 5, recVal (-6)]) :=
  rta_intro_array 2 rec3 _ rfl rfl recSelfDelim (by
    intro x hx
    simp only [List.mem_cons, List.not_mem_nil, or_false] at hx
    rcases hx with rfl | rfl
    · exact recCanon 5 (by omega)
    · exact recCanon (-6) (by omega))

/-- the same elements in an unbounded array as the LAST member of a structure, after the UDT and a STRINGN -/
def tailT : Ty := struct3 [117] outer [110] (.stringN 2) [116] (.arr .all rec3)
def tailVal : PyVal :=
  .dict [([117], .dict outerDict), ([110], .str [72, 0x20AC]), ([116], .list [recVal 5, recVal (-6)])]

private theorem tailCanon : CanonAll tailT tailVal :=
  rta_intro_struct3 _ _ _ _ _ _ _ _ _ (by simp)
    (canonAll_structTag _ _ _ _ outerLayout _ outerDictOk)
    (canonAll_of_canon _ _ ⟨.utf16, [72, 0x20AC], rfl, rfl, by simp [TextOk], by simp⟩)
    (rta_intro_unbounded rec3 _ rfl (by simp [rec3, PosWidth, PosWidthMembers]) recSelfDelim (by
      intro x hx
      simp only [List.mem_cons, List.not_mem_nil, or_false] at hx
      rcases hx with rfl | rfl
      · exact recCanon 5 (by omega)
      · exact recCanon (-6) (by omega)))
    (by simp only [outer, SelfDelim]) (by simp only [SelfDelim])

-- every theorem instantiated
example : CanonAll (.int .int) (.int 5) := canonAll_of_canon _ _ ⟨5, rfl, by decide, by decide⟩
example : CanonAll inner (.dict exTagDict) :=
  canonAll_of_tagCanon 1 _ _ (Or.inr ⟨_, _, _, _, _, rfl, rfl, innerLayout,
    ⟨innerDict.1, fun m hm hp => by
      simp only [exTagMembers, TMembers.toList, List.mem_cons, List.not_mem_nil, or_false] at hm
      rcases hm with rfl | rfl | rfl
      · simp at hp
      · exact ⟨.int (-5), by simp [dictGet, exTagDict], -5, rfl, by simp [IntK.lo, IntK.hi, IntK.signed, IntK.size]⟩
      · exact ⟨.int 300, by simp [dictGet, exTagDict], 300, rfl, by simp [IntK.lo, IntK.hi, IntK.signed, IntK.size]⟩,
      innerDict.2.2⟩⟩)
example : ∃ bs, encode rec3 (recVal 5) = .ok bs ∧ ∀ rest, decode rec3 (bs ++ rest) = .ok (recOut 5, rest) := by
  have := decode_encode_all rec3 (recVal 5) (recCanon 5 (by omega)) recSelfDelim
  have e : decodedAs rec3 (recVal 5) = recOut 5 := recOutEq 5
  rwa [e] at this
example : ∃ bs, encode (.arr (.fixed 2) rec3) (.list [recVal 5, recVal (-6)]) = .ok bs ∧
    ∀ rest, decode (.arr (.fixed 2) rec3) (bs ++ rest) = .ok (.list [recOut 5, recOut (-6)], rest) := by
  have := decode_encode_all _ _ arrCanon (by simp only [SelfDelim]; exact recSelfDelim)
  simpa only [rta_decodedAs_arr, List.map_cons, List.map_nil, recOutEq] using this
example : ∃ bs, encode outer (.dict outerDict) = .ok bs ∧
    ∀ rest, decode outer (bs ++ rest) = .ok (.dict outerDict, rest) :=
  decode_encode_all_same outer _ (canonAll_structTag _ _ _ _ outerLayout _ outerDictOk)
    (by simp only [outer, SelfDelim]) (by simp only [outer, NoStringI])
example : ∃ bs, encode tailT tailVal = .ok bs ∧ decode tailT bs = .ok (decodedAs tailT tailVal, []) :=
  decode_encode_all_unbounded tailT tailVal tailCanon
example : ∃ bs, encode (.arr .all rec3) (.list [recVal 5, recVal (-6)]) = .ok bs ∧
    decode (.arr .all rec3) bs = .ok (.list ([recVal 5, recVal (-6)].map fun x => decodedAs rec3 x), []) :=
  decode_encode_all_unbounded_array rec3 _ rfl (by simp [rec3, PosWidth, PosWidthMembers]) recSelfDelim (by
    intro x hx
    simp only [List.mem_cons, List.not_mem_nil, or_false] at hx
    rcases hx with rfl | rfl
    · exact recCanon 5 (by omega)
    · exact recCanon (-6) (by omega))
example : decode rec3 [] = .error .bufferEmpty :=
  decode_nil_all rec3 recSelfDelim (by simp [rec3, PosWidth, PosWidthMembers])
example : ∃ bs, encode (.arr (.pref .usint) rec3) (.list [recVal 5]) = .ok bs ∧
    ∀ rest, decode (.arr (.pref .usint) rec3) (leBytes IntK.usint.size [recVal 5].length ++ bs ++ rest) =
      .ok (.list ([recVal 5].map fun x => decodedAs rec3 x), rest) :=
  decode_encode_all_prefixed .usint rec3 _ rfl (by simp [rec3, PosWidth, PosWidthMembers]) recSelfDelim rfl
    (by simp [IntK.hi, IntK.signed, IntK.size]) (by
      intro x hx
      simp only [List.mem_singleton] at hx
      subst hx
      exact recCanon 5 (by omega))
example : ∃ enc, encode outer (.dict outerDict) = .ok enc ∧ enc.length = 16 ∧
    ∀ rest, decode outer (enc ++ rest) = .ok (.dict outerDict, rest) :=
  decode_encode_all_fixed outer _ 16 (canonAll_structTag _ _ _ _ outerLayout _ outerDictOk)
    (by simp [outer, fixedWidth])
example : ∃ bs, encode rec3 (recVal 5) = .ok bs ∧ bs ≠ [] := by
  obtain ⟨bs, he, _⟩ := decode_encode_all_unbounded rec3 (recVal 5) (recCanon 5 (by omega))
  exact ⟨bs, he, encode_all_ne_nil rec3 _ (recCanon 5 (by omega)) (by simp [rec3, PosWidth, PosWidthMembers]) bs he⟩
example : ∃ bs, encode .stringI (.list (items.map SIItem.val)) = .ok bs ∧
    ∀ r, decode .stringI bs ≠ .ok (.list (items.map SIItem.val), r) := by
  obtain ⟨bs, he, _⟩ := stringI_roundtrip items itemsOk (by simp [items])
  exact ⟨bs, he, fun r => stringI_never_identity _ bs r he⟩
example := struct_with_structTag_member_roundtrip [97] [117] [115] (.int .int) (.arr .all rec3) (.int 5)
  (.list [recVal 5]) outerMembers outerBits [[104]] 16 outerDict names (int16 5 (by omega))
  (by simp only [SelfDelim])
  (rta_intro_unbounded rec3 _ rfl (by simp [rec3, PosWidth, PosWidthMembers]) recSelfDelim (by
    intro x hx
    simp only [List.mem_singleton] at hx
    subst hx
    exact recCanon 5 (by omega)))
  outerLayout outerDictOk
example := array_of_structTag_roundtrip 2 outerMembers outerBits [[104]] 16 [outerDict, outerDict] rfl outerLayout
  (by simp [outerDictOk])
example := unbounded_array_of_structTag_roundtrip outerMembers outerBits [[104]] 16 [outerDict, outerDict]
  outerLayout (by simp [outerDictOk])
example := struct_with_stringI_member_roundtrip [97] [117] [115] (.int .int) outer (.int 5) (.dict outerDict)
  item1 names (int16 5 (by omega)) (by simp only [SelfDelim])
  (canonAll_structTag _ _ _ _ outerLayout _ outerDictOk) item1Ok
example := array_of_stringI_roundtrip 2 items rfl itemsOk
example := array_of_bitarray_roundtrip 2 1 .usint
  [[true, false, false, true, false, false, true, false], [false, true, false, false, true, false, false, true]]
  rfl (by simp [IntK.size])
example := struct_with_bitarray_member_roundtrip [97] [117] [115] (.int .int) .stringI (.int 5)
  item1.val 1 .usint [true, false, false, true, false, false, true, false]
  names (int16 5 (by omega)) (by simp only [SelfDelim]) (rta_intro_stringI_item item1 item1Ok)
  (by simp [IntK.size])

/-- the tail clauses of `CanonAll` are inhabited: `n_bytes(-1)`, and the only element of a `T[1]` -/
example : ∃ bs, encode (.nbytes (-1)) (.bytes [1, 2]) = .ok bs ∧
    decode (.nbytes (-1)) bs = .ok (.bytes [1, 2], []) := by
  have := decode_encode_all_unbounded (.nbytes (-1)) (.bytes [1, 2]) (by simp [CanonAll])
  simpa only [decodedAs] using this
example : CanonAll (.arr (.fixed 1) (.arr .all (.int .usint))) (.list [.list [.int 1, .int 2]]) := by
  simp only [CanonAll]
  refine Or.inr ⟨rfl, Or.inl (by omega), _, rfl, rfl, ?_⟩
  intro x hx
  simp only [List.mem_singleton] at hx
  subst hx
  refine Or.inr ⟨rfl, by simp [PosWidth], by simp [SelfDelim], _, rfl, ?_⟩
  intro x hx
  simp only [List.mem_cons, List.not_mem_nil, or_false] at hx
  rcases hx with rfl | rfl
  · exact ⟨1, rfl, by decide, by decide⟩
  · exact ⟨2, rfl, by decide, by decide⟩
#guard rtaCheck (.arr (.fixed 1) (.arr .all (.int .usint))) (.list [.list [.int 1, .int 2]])
  (.list [.list [.int 1, .int 2]]) []

-- the model, run on the same values; a LIST of items as the STRINGI member's value is rejected with DataError
#guard (match encode rec3 (.dict [([97], .int 5), ([117], .dict outerDict), ([115], .list (items.map SIItem.val))]) with
  | .error .data => true | _ => false)
#guard (match encode rec3 (.dict [([97], .int 5), ([117], .dict outerDict), ([115], .list [item1.val])]) with
  | .error .data => true | _ => false)
-- at top level the item list is the value, as before
#guard rtaCheck .stringI (.list (items.map SIItem.val))
  (.tuple [.list [.str [72, 105], .str [0x20AC]], .list [.str [101, 110, 103], .str [102, 114, 97]],
    .list [.int 4, .int 1000]]) [3]
#guard rtaCheck (.arr (.fixed 2) .stringI) (.list (items.map SIItem.val))
  (.list [.tuple [.list [.str [72, 105]], .list [.str [101, 110, 103]], .list [.int 4]],
          .tuple [.list [.str [0x20AC]], .list [.str [102, 114, 97]], .list [.int 1000]]]) [3]
#guard rtaCheck rec3 (recVal 5) (recOut 5) [1, 2, 3]
#guard rtaCheck (.arr (.fixed 2) rec3) (.list [recVal 5, recVal (-6)]) (.list [recOut 5, recOut (-6)]) [9]
#guard rtaCheck (.arr .all rec3) (.list [recVal 5, recVal (-6)]) (.list [recOut 5, recOut (-6)]) []
#guard rtaCheck outer (.dict outerDict) (.dict outerDict) [7, 7]
#guard rtaCheck (.arr (.fixed 2) outer) (.list [.dict outerDict, .dict outerDict])
  (.list [.dict outerDict, .dict outerDict]) [7]
#guard rtaCheck tailT tailVal
  (.dict [([117], .dict outerDict), ([110], .str [72, 0x20AC]), ([116], .list [recOut 5, recOut (-6)])]) []
#guard rtaCheck (.arr (.fixed 2) (.arr (.fixed 1) (.bits .usint)))
  (.list [.list (List.replicate 8 (.bool true)), .list (List.replicate 8 (.bool false))])
  (.list [.list (List.replicate 8 (.bool true)), .list (List.replicate 8 (.bool false))]) [5]
-- the values excluded by `CanonAll` that are named in its docstring do fail:
#guard rtaFails (.nbytes (-1)) (.bytes []) []
#guard !rtaCheck (.arr (.fixed 2) (.bits .usint)) (.list (List.replicate 8 (.bool true)))
  (.list (List.replicate 8 (.bool true))) []

end RTAllEx

end Pycomm
