/-
  Proofs for the Logix request-planning kernels (C03, C04, C05): grouping into multi-service packets,
  fragment tiling, symbol-list pagination.
-/
import PycommModel.Logix.Kernels
namespace Pycomm.Lgx.K

def sumSizes (items : List Item) (ids : List Nat) : Nat :=
  (ids.map fun i => ((items.find? (·.id == i)).map (·.size)).getD 0).foldl (· + ·) 0

/-- ids are unique (request ids are positions) -/
def UniqueIds (items : List Item) : Prop := (items.map (·.id)).Nodup

-- PROPERTY THEOREMS

/-- the generated overhead constant is what the size arithmetic below needs -/
theorem overhead_value : 8 ≤ OVERHEAD := by
  sorry

/-- every request without an error is placed in exactly one packet, in request order:
    the multi-service groups followed by the fragmented ones are a permutation-free partition of the live ids -/
theorem plan_partition (C : Nat) (items : List Item) :
    (plan C items).groups.flatten = ((items.filter (!·.error)).filter (fun i => !(i.size + OVERHEAD > C))).map (·.id) ∧
    (plan C items).fragmented = ((items.filter (!·.error)).filter (fun i => i.size + OVERHEAD > C)).map (·.id) := by
  sorry

/-- no empty multi-service packet is ever produced -/
theorem plan_no_empty_group (C : Nat) (items : List Item) : ∀ g ∈ (plan C items).groups, g ≠ [] := by
  sorry

/-- every multi-service packet respects the connection size by the loop's own accounting:
    overhead + the sizes of its members ≤ C -/
theorem plan_groups_fit (C : Nat) (items : List Item) (hu : UniqueIds items) :
    ∀ g ∈ (plan C items).groups, OVERHEAD + sumSizes items g ≤ C := by
  sorry

/-- reads: the real reply of a group (service header 4 + count 2 + per member: offset 2, header 4, type ≤ 4, data)
    is within the accounted size when every request message is at least 10 bytes (sequence 2 + service 1 +
    path size 1 + path ≥ 4 + count 2), which the accounting adds per member -/
theorem read_reply_fits (datas msgLens : List Nat) (hl : datas.length = msgLens.length) (hm : ∀ m ∈ msgLens, 10 ≤ m) :
    6 + ((datas.map (· + 10)).foldl (· + ·) 0) ≤
      OVERHEAD + (((datas.zip msgLens).map fun p => p.1 + p.2 + 2).foldl (· + ·) 0) := by
  sorry

/-- writes: the real multi-service request (service 1 + path 5 + count 2 + per member: offset 2 and the message
    without its 2-byte sequence count) is within the accounted size -/
theorem write_request_fits (lens : List Nat) (hm : ∀ m ∈ lens, 2 ≤ m) :
    8 + ((lens.map fun l => 2 + (l - 2)).foldl (· + ·) 0) ≤ OVERHEAD + (lens.foldl (· + ·) 0) := by
  sorry

/-- fragmented write: offsets start at 0, are contiguous and non-overlapping, every fragment is non-empty and at
    most the segment size, and together they are exactly the value -/
theorem write_fragments_tile (segSize : Nat) (hs : 0 < segSize) (value : Bytes) :
    ((writeFragments segSize value).map (·.2)).flatten = value ∧
    (∀ p ∈ writeFragments segSize value, p.2 ≠ [] ∧ p.2.length ≤ segSize) ∧
    (∀ i (hi : i < (writeFragments segSize value).length),
        ((writeFragments segSize value)[i]).1 = (((writeFragments segSize value).take i).map (·.2.length)).foldl (· + ·) 0) := by
  sorry

/-- fragmented read: whatever fragment lengths the controller chooses, each follow-up asks for the offset equal
    to the number of bytes already received, the first for offset 0, and the reassembly is exactly the value -/
theorem read_fragments_tile (value : Bytes) (hv : value ≠ []) (sched : List Nat) :
    (readFragments value sched (value.length + 1) 0).2 = value ∧
    (readFragments value sched (value.length + 1) 0).1.head? = some 0 ∧
    (readFragments value sched (value.length + 1) 0).1.Pairwise (· < ·) := by
  sorry

/-- symbol-list upload: for ANY pagination chosen by the controller (each page at least one symbol) the uploaded
    list is exactly the controller's list, in order, nothing missing or duplicated -/
theorem upload_complete (insts : List Nat) (hs : insts.Pairwise (· < ·)) (sched : List Nat) :
    upload insts sched (insts.length + 1) 0 = insts := by
  sorry

end Pycomm.Lgx.K
