/-
  Proofs for the Logix request-planning kernels (C03, C04, C05): grouping into multi-service packets,
  fragment tiling, symbol-list pagination.
-/
import PycommModel.Logix.Kernels
namespace Pycomm.Lgx.K

def sumSizes (items : List Item) (ids : List Nat) : Nat :=
  (ids.map fun i => ((items.find? (·.id == i)).map (·.size)).getD 0).foldl (· + ·) 0

/-- ids are unique (request ids are positions) -/
def UniqueIds (items : List Item) : Prop := (items.map (·.id)).Nodup

theorem fsum_eq (l : List Nat) : l.foldl (· + ·) 0 = l.sum := List.sum_eq_foldl.symm

theorem overhead_eq : OVERHEAD = 10 := rfl

/-- lookup of the accounted size by id -/
def sizeOf (items : List Item) (i : Nat) : Nat := ((items.find? (·.id == i)).map (·.size)).getD 0

theorem sumSizes_eq (items : List Item) (ids : List Nat) : sumSizes items ids = (ids.map (sizeOf items)).sum := by
  unfold sumSizes; rw [fsum_eq]; rfl

theorem sizeOf_of_mem (items : List Item) (hu : UniqueIds items) (it : Item) (h : it ∈ items) :
    sizeOf items it.id = it.size := by
  unfold UniqueIds at hu
  induction items with
  | nil => cases h
  | cons a t ih =>
    simp only [List.map_cons, List.nodup_cons] at hu
    unfold sizeOf
    rcases List.mem_cons.1 h with rfl | h'
    · simp
    · have hne : a.id ≠ it.id := by
        intro e; apply hu.1; rw [e]; exact List.mem_map_of_mem h'
      have : (a.id == it.id) = false := by simpa using hne
      simp only [List.find?_cons, this]
      exact ih hu.2 h'

theorem foldl_inv {σ α : Type} (P : σ → Prop) (step : σ → α → σ) (l : List α) :
    ∀ st, P st → (∀ st x, x ∈ l → P st → P (step st x)) → P (l.foldl step st) := by
  induction l with
  | nil => intro st h _; exact h
  | cons a t ih =>
    intro st h hs
    simp only [List.foldl_cons]
    exact ih _ (hs st a (List.mem_cons_self) h) (fun st x hx hp => hs st x (List.mem_cons_of_mem _ hx) hp)

/-- the closed groups followed by the current one, in request order -/
def flat (st : List (List Nat) × List Nat × Nat) : List Nat := st.1.reverse.flatten ++ st.2.1.reverse

theorem flat_step (C : Nat) (st : List (List Nat) × List Nat × Nat) (x : Nat × Nat) :
    flat (groupStep C st x) = flat st ++ [x.1] := by
  obtain ⟨done, cur, sz⟩ := st
  unfold groupStep flat
  simp only []
  split <;> simp

theorem flat_foldl (C : Nat) (l : List (Nat × Nat)) : ∀ st, flat (l.foldl (groupStep C) st) = flat st ++ l.map (·.1) := by
  induction l with
  | nil => intro st; simp
  | cons a t ih => intro st; simp [ih, flat_step]

/-- accounting invariant of the grouping loop -/
def GInv (C : Nat) (f : Nat → Nat) (st : List (List Nat) × List Nat × Nat) : Prop :=
  st.2.2 = OVERHEAD + (st.2.1.map f).sum ∧ (st.2.1 = [] ∨ st.2.2 ≤ C) ∧
  ∀ g ∈ st.1, g = [] ∨ OVERHEAD + (g.map f).sum ≤ C

theorem ginv_step (C : Nat) (f : Nat → Nat) (st : List (List Nat) × List Nat × Nat) (x : Nat × Nat)
    (hx : x.2 = f x.1) (hfit : OVERHEAD + x.2 ≤ C) (h : GInv C f st) : GInv C f (groupStep C st x) := by
  obtain ⟨done, cur, sz⟩ := st
  obtain ⟨h1, h2, h3⟩ := h
  simp only at h1 h2 h3
  unfold groupStep GInv
  simp only []
  split
  · refine ⟨by simp [hx], Or.inr hfit, ?_⟩
    intro g hg
    rcases List.mem_cons.1 hg with rfl | hg
    · rcases h2 with h2 | h2
      · left; simp [h2]
      · right; rw [List.map_reverse, List.sum_reverse]; omega
    · exact h3 g hg
  · refine ⟨by simp [hx]; omega, Or.inr (by show sz + x.2 ≤ C; omega), h3⟩

theorem plan_eq (C : Nat) (items : List Item) :
    plan C items =
      (let st := (((items.filter (!·.error)).filter (fun i => !(i.size + OVERHEAD > C))).map fun i => (i.id, i.size)).foldl
          (groupStep C) ([], [], OVERHEAD)
       { groups := ((st.2.1.reverse :: st.1).reverse).filter (· ≠ []),
         fragmented := ((items.filter (!·.error)).filter (fun i => i.size + OVERHEAD > C)).map (·.id) }) := rfl

theorem take_drop_glue {α : Type} (v : List α) (off k : Nat) :
    (v.drop off).take k ++ v.drop (off + ((v.drop off).take k).length) = v.drop off := by
  rw [← List.drop_drop]
  generalize v.drop off = w
  by_cases h : k ≤ w.length
  · rw [List.length_take, Nat.min_eq_left h, List.take_append_drop]
  · rw [List.take_of_length_le (by omega)]; simp

theorem writeSegments_tile (segSize : Nat) (hs : 0 < segSize) (value : Bytes) :
    ∀ fuel off, off ≤ value.length → value.length - off < fuel →
      ((writeSegments segSize value fuel off).map (·.2)).flatten = value.drop off ∧
      (∀ p ∈ writeSegments segSize value fuel off, p.2 ≠ [] ∧ p.2.length ≤ segSize) ∧
      (∀ i (hi : i < (writeSegments segSize value fuel off).length),
        ((writeSegments segSize value fuel off)[i]).1 =
          off + (((writeSegments segSize value fuel off).take i).map (·.2.length)).sum) := by
  intro fuel
  induction fuel with
  | zero => intro off _ h; omega
  | succ fuel ih =>
    intro off hle hf
    unfold writeSegments
    by_cases hge : off ≥ value.length
    · have : off = value.length := by omega
      simp [this]
    · simp only [hge, if_false]
      have hlen : ((value.drop off).take segSize).length = min segSize (value.length - off) := by
        simp [List.length_take, List.length_drop]
      have hpos : 1 ≤ ((value.drop off).take segSize).length := by rw [hlen]; omega
      obtain ⟨ih1, ih2, ih3⟩ := ih (off + ((value.drop off).take segSize).length) (by rw [hlen]; omega) (by omega)
      refine ⟨?_, ?_, ?_⟩
      · simp only [List.map_cons, List.flatten_cons, ih1]
        exact take_drop_glue value off segSize
      · intro p hp
        rcases List.mem_cons.1 hp with rfl | hp
        · refine ⟨?_, ?_⟩
          · intro h; simp only [] at h; rw [h] at hpos; simp at hpos
          · simp only []; rw [hlen]; omega
        · exact ih2 p hp
      · intro i hi
        cases i with
        | zero => simp
        | succ i =>
          simp only [List.length_cons, Nat.add_lt_add_iff_right] at hi
          have := ih3 i hi
          simp only [List.getElem_cons_succ, List.take_succ_cons, List.map_cons, List.sum_cons]
          omega

theorem readFragments_tile (value : Bytes) :
    ∀ fuel sched off, off < value.length → value.length - off < fuel →
      (readFragments value sched fuel off).2 = value.drop off ∧
      (readFragments value sched fuel off).1.head? = some off ∧
      (∀ o ∈ (readFragments value sched fuel off).1, off ≤ o) ∧
      (readFragments value sched fuel off).1.Pairwise (· < ·) := by
  intro fuel
  induction fuel with
  | zero => intro _ off _ h; omega
  | succ fuel ih =>
    intro sched off hlt hf
    unfold readFragments
    simp only []
    generalize hk : max 1 (sched.headD (value.length - off)) = k
    have hk1 : 1 ≤ k := by omega
    have hlen : ((value.drop off).take k).length = min k (value.length - off) := by
      simp [List.length_take, List.length_drop]
    have hpos : 1 ≤ ((value.drop off).take k).length := by rw [hlen]; omega
    split
    · rename_i hge
      refine ⟨?_, by simp, by simp, by simp⟩
      simp only []
      apply List.take_of_length_le
      rw [hlen] at hge
      simp only [List.length_drop]; omega
    · rename_i hge
      obtain ⟨ih1, ih2, ih3, ih4⟩ := ih (sched.drop 1) (off + ((value.drop off).take k).length) (by omega) (by omega)
      refine ⟨?_, by simp, ?_, ?_⟩
      · simp only [ih1]
        exact take_drop_glue value off k
      · intro o ho
        rcases List.mem_cons.1 ho with rfl | ho
        · omega
        · have := ih3 o ho; omega
      · simp only [List.pairwise_cons]
        refine ⟨?_, ih4⟩
        intro o ho
        have := ih3 o ho; omega

theorem filter_ge_split (p q : List Nat) (a : Nat) (hs : (p ++ q).Pairwise (· < ·)) (hl : p.getLast? = some a) :
    (p ++ q).filter (· ≥ a + 1) = q := by
  obtain ⟨ys, rfl⟩ := List.getLast?_eq_some_iff.1 hl
  obtain ⟨h1, h2, h3⟩ := List.pairwise_append.1 hs
  obtain ⟨_, _, h4⟩ := List.pairwise_append.1 h1
  rw [List.filter_append]
  have e1 : (ys ++ [a]).filter (· ≥ a + 1) = [] := by
    rw [List.filter_eq_nil_iff]
    intro x hx
    rcases List.mem_append.1 hx with hx | hx
    · have := h4 x hx a (by simp); simp; omega
    · simp at hx; simp [hx]
  have e2 : q.filter (· ≥ a + 1) = q := by
    rw [List.filter_eq_self]
    intro x hx
    have := h3 a (by simp) x hx
    simp; omega
  rw [e1, e2]; rfl

theorem upload_gen (insts : List Nat) (hs : insts.Pairwise (· < ·)) :
    ∀ fuel sched start, (insts.filter (· ≥ start)).length < fuel →
      upload insts sched fuel start = insts.filter (· ≥ start) := by
  intro fuel
  induction fuel with
  | zero => intro _ _ h; omega
  | succ fuel ih =>
    intro sched start hf
    unfold upload
    simp only []
    generalize htodo : insts.filter (· ≥ start) = todo at hf
    generalize hk : max 1 (sched.headD todo.length) = k
    have hk1 : 1 ≤ k := by omega
    split
    · rename_i hnone
      rw [List.getLast?_eq_none_iff] at hnone
      cases todo with
      | nil => rfl
      | cons a t =>
        have : ((a :: t).take k).length = 0 := by rw [hnone]; rfl
        simp [List.length_take] at this; omega
    · rename_i last hlast
      split
      · rename_i hge
        apply List.take_of_length_le
        simp only [List.length_take] at hge; omega
      · rename_i hge
        simp only [List.length_take] at hge
        have hlastmem : last ∈ todo := List.mem_of_mem_take (List.mem_of_getLast? hlast)
        have hstart : start ≤ last := by
          rw [← htodo] at hlastmem
          have := (List.mem_filter.1 hlastmem).2
          simpa using this
        have hsorted : (todo.take k ++ todo.drop k).Pairwise (· < ·) := by
          rw [List.take_append_drop, ← htodo]; exact hs.filter _
        have hsplit := filter_ge_split _ _ _ hsorted hlast
        rw [List.take_append_drop, ← htodo, List.filter_filter] at hsplit
        rw [htodo] at hsplit
        have hcongr : insts.filter (fun a => decide (a ≥ last + 1) && decide (a ≥ start)) = insts.filter (· ≥ last + 1) := by
          apply List.filter_congr
          intro x _
          by_cases hx : x ≥ last + 1
          · have : x ≥ start := by omega
            simp [hx, this]
          · simp [hx]
        rw [hcongr] at hsplit
        rw [ih (sched.drop 1) (last + 1) (by rw [hsplit]; simp only [List.length_drop]; omega), hsplit,
          List.take_append_drop]

-- PROPERTY THEOREMS

/-- the generated overhead constant is what the size arithmetic below needs -/
theorem overhead_value : 8 ≤ OVERHEAD := by
  decide

/-- every request without an error is placed in exactly one packet, in request order:
    the multi-service groups followed by the fragmented ones are a permutation-free partition of the live ids -/
theorem plan_partition (C : Nat) (items : List Item) :
    (plan C items).groups.flatten = ((items.filter (!·.error)).filter (fun i => !(i.size + OVERHEAD > C))).map (·.id) ∧
    (plan C items).fragmented = ((items.filter (!·.error)).filter (fun i => i.size + OVERHEAD > C)).map (·.id) := by
  rw [plan_eq]
  refine ⟨?_, rfl⟩
  simp only []
  rw [List.flatten_filter_ne_nil]
  have := flat_foldl C ((((items.filter (!·.error)).filter (fun i => !(i.size + OVERHEAD > C))).map fun i => (i.id, i.size))) ([], [], OVERHEAD)
  simp only [flat] at this
  simp only [List.reverse_cons, List.flatten_append, List.flatten_cons, List.flatten_nil, List.append_nil]
  rw [this]
  simp [Function.comp_def]

/-- no empty multi-service packet is ever produced -/
theorem plan_no_empty_group (C : Nat) (items : List Item) : ∀ g ∈ (plan C items).groups, g ≠ [] := by
  intro g hg
  rw [plan_eq] at hg
  simp only [] at hg
  have := (List.mem_filter.1 hg).2
  simpa using this

/-- every multi-service packet respects the connection size by the loop's own accounting:
    overhead + the sizes of its members ≤ C -/
theorem plan_groups_fit (C : Nat) (items : List Item) (hu : UniqueIds items) :
    ∀ g ∈ (plan C items).groups, OVERHEAD + sumSizes items g ≤ C := by
  intro g hg
  rw [plan_eq] at hg
  simp only [] at hg
  have hinv := foldl_inv (GInv C (sizeOf items)) (groupStep C)
    ((((items.filter (!·.error)).filter (fun i => !(i.size + OVERHEAD > C))).map fun i => (i.id, i.size)))
    ([], [], OVERHEAD) (by simp [GInv]) (by
      intro st x hx hst
      obtain ⟨it, hit, rfl⟩ := List.mem_map.1 hx
      have h1 := List.mem_filter.1 hit
      have h2 := List.mem_filter.1 h1.1
      apply ginv_step C _ st _ _ _ hst
      · exact (sizeOf_of_mem items hu it h2.1).symm
      · have := h1.2; simp at this; simp only []; omega)
  generalize List.foldl (groupStep C) ([], [], OVERHEAD) _ = st at hg hinv
  obtain ⟨done, cur, sz⟩ := st
  simp only [] at hg
  obtain ⟨hmem, hne⟩ := List.mem_filter.1 hg
  have hne : g ≠ [] := by simpa using hne
  obtain ⟨h1, h2, h3⟩ := hinv
  simp only at h1 h2 h3
  rw [sumSizes_eq]
  rw [List.mem_reverse] at hmem
  rcases List.mem_cons.1 hmem with rfl | hmem
  · rcases h2 with h2 | h2
    · simp [h2] at hne
    · rw [List.map_reverse, List.sum_reverse]; omega
  · rcases h3 g hmem with h | h
    · exact absurd h hne
    · exact h

/-- reads: the real reply of a group (service header 4 + count 2 + per member: offset 2, header 4, type ≤ 4, data)
    is within the accounted size when every request message is at least 10 bytes (sequence 2 + service 1 +
    path size 1 + path ≥ 4 + count 2), which the accounting adds per member -/
theorem read_reply_fits (datas msgLens : List Nat) (hl : datas.length = msgLens.length) (hm : ∀ m ∈ msgLens, 10 ≤ m) :
    6 + ((datas.map (· + 10)).foldl (· + ·) 0) ≤
      OVERHEAD + (((datas.zip msgLens).map fun p => p.1 + p.2 + 2).foldl (· + ·) 0) := by
  rw [fsum_eq, fsum_eq, overhead_eq]
  suffices h : ((datas.map (· + 10))).sum ≤ (((datas.zip msgLens).map fun p => p.1 + p.2 + 2)).sum by omega
  induction datas generalizing msgLens with
  | nil => simp
  | cons d ds ih =>
    cases msgLens with
    | nil => simp at hl
    | cons m ms =>
      simp only [List.length_cons, Nat.add_right_cancel_iff] at hl
      have := ih ms hl (fun x hx => hm x (List.mem_cons_of_mem _ hx))
      have := hm m List.mem_cons_self
      simp only [List.map_cons, List.zip_cons_cons, List.sum_cons]
      omega

/-- writes: the real multi-service request (service 1 + path 5 + count 2 + per member: offset 2 and the message
    without its 2-byte sequence count) is within the accounted size -/
theorem write_request_fits (lens : List Nat) (hm : ∀ m ∈ lens, 2 ≤ m) :
    8 + ((lens.map fun l => 2 + (l - 2)).foldl (· + ·) 0) ≤ OVERHEAD + (lens.foldl (· + ·) 0) := by
  rw [fsum_eq, fsum_eq, overhead_eq]
  suffices h : (lens.map fun l => 2 + (l - 2)).sum ≤ lens.sum by omega
  induction lens with
  | nil => simp
  | cons m ms ih =>
    have := ih (fun x hx => hm x (List.mem_cons_of_mem _ hx))
    have := hm m List.mem_cons_self
    simp only [List.map_cons, List.sum_cons]
    omega

/-- fragmented write: offsets start at 0, are contiguous and non-overlapping, every fragment is non-empty and at
    most the segment size, and together they are exactly the value -/
theorem write_fragments_tile (segSize : Nat) (hs : 0 < segSize) (value : Bytes) :
    ((writeFragments segSize value).map (·.2)).flatten = value ∧
    (∀ p ∈ writeFragments segSize value, p.2 ≠ [] ∧ p.2.length ≤ segSize) ∧
    (∀ i (hi : i < (writeFragments segSize value).length),
        ((writeFragments segSize value)[i]).1 = (((writeFragments segSize value).take i).map (·.2.length)).foldl (· + ·) 0) := by
  have hne : segSize ≠ 0 := by omega
  have hw : writeFragments segSize value = writeSegments segSize value (value.length + 1) 0 := by
    unfold writeFragments; rw [if_neg hne]
  rw [hw]
  obtain ⟨h1, h2, h3⟩ := writeSegments_tile segSize hs value (value.length + 1) 0 (Nat.zero_le _) (by omega)
  refine ⟨by simpa using h1, h2, ?_⟩
  intro i hi
  rw [fsum_eq, h3 i hi, Nat.zero_add]

/-- fragmented read: whatever fragment lengths the controller chooses, each follow-up asks for the offset equal
    to the number of bytes already received, the first for offset 0, and the reassembly is exactly the value -/
theorem read_fragments_tile (value : Bytes) (hv : value ≠ []) (sched : List Nat) :
    (readFragments value sched (value.length + 1) 0).2 = value ∧
    (readFragments value sched (value.length + 1) 0).1.head? = some 0 ∧
    (readFragments value sched (value.length + 1) 0).1.Pairwise (· < ·) := by
  have hpos : 0 < value.length := List.length_pos_iff.2 hv
  obtain ⟨h1, h2, _, h4⟩ := readFragments_tile value (value.length + 1) sched 0 hpos (by omega)
  exact ⟨by simpa using h1, h2, h4⟩

/-- symbol-list upload: for ANY pagination chosen by the controller (each page at least one symbol) the uploaded
    list is exactly the controller's list, in order, nothing missing or duplicated -/
theorem upload_complete (insts : List Nat) (hs : insts.Pairwise (· < ·)) (sched : List Nat) :
    upload insts sched (insts.length + 1) 0 = insts := by
  rw [upload_gen insts hs (insts.length + 1) sched 0
    (Nat.lt_succ_of_le (List.length_filter_le _ _))]
  rw [List.filter_eq_self]
  intro a _
  simp

end Pycomm.Lgx.K
