/-
  C10 (connection lifecycle is safe under any call history and failure point) and C17 (connected messages carry fresh
  sequence counts) over histories of the SLCDriver: open / close / generic_message AND `SLCDriver.read` /
  `SLCDriver.write` (model of read / write: PycommModel/SlcDriver.lean; helper lemmas: LCSlc1.lean, LCSlc2.lean,
  LCSlc3.lean; the pattern is that of LifecycleLogix.lean).

  `SLCDriver.__init__` passes `large_packets=False` to `CIPDriver.__init__`, which swallows it in `**kwargs`: an
  SLCDriver starts like every CIPDriver with the extended Forward Open and a connection size of 4000 — `Fresh`
  (LifecycleProofs.lean) describes it as well.

  Everything that depends on the call alphabet comes after the marker (the alphabet is part of the statements); the
  helper theorems there are `private`.
-/
import PycommProofs.LifecycleProofs
import PycommProofs.SeqClientProofs
import PycommProofs.LifecycleLogix
import PycommProofs.SlcDriverProofs
import PycommProofs.LCSlc2
import PycommProofs.LCSlc3
namespace Pycomm.Cli
open Pycomm.Tgt Pycomm.Encap Pycomm.Path

-- PROPERTY THEOREMS

/-- the public calls of the connection lifecycle, with the reads and writes of the SLCDriver -/
inductive SCall where
  | open (rnd : Bytes)
  | close
  | generic (a : GenArgs)
  | slcRead (addresses : List Name)
  | slcWrite (avs : List (Name × PyVal))

/-- one call against the world -/
def scallStep {σ} (hook : ObjHook σ) (w : World σ) : SCall → World σ × Outcome
  | .open rnd => match openDrv hook w rnd with
      | (w', .ok _) => (w', .ok)
      | (w', .error e) => (w', .raised e)
  | .close => match closeDrv hook w with
      | (w', .ok _) => (w', .ok)
      | (w', .error e) => (w', .raised e)
  | .generic a => match genericMessage hook FUEL w a with
      | (w', .ok _) => (w', .ok)
      | (w', .error e) => (w', .raised e)
  | .slcRead addresses => match Slc.Drv.slcRead hook w addresses with
      | (w', .ok _) => (w', .ok)
      | (w', .error e) => (w', .raised e)
  | .slcWrite avs => match Slc.Drv.slcWrite hook w avs with
      | (w', .ok _) => (w', .ok)
      | (w', .error e) => (w', .raised e)

/-- a history of calls, each against the world the one before left.  `scallStep` and `srun` are total functions:
    every call of every history returns or raises after finitely many steps (termination by construction).  The only
    bound the model imposes itself is the fuel of the mutually recursive generic_message / Forward Open functions of
    Client.lean, and its marker `.hang` never escapes a call — `slc_calls_never_hang`; the list comprehensions over
    the addresses are structural recursions without fuel. -/
def srun {σ} (hook : ObjHook σ) (w : World σ) : List SCall → World σ
  | [] => w
  | c :: cs => srun hook (scallStep hook w c).1 cs

/-- the old alphabet inside the new one -/
def SCall.ofCall : Call → SCall
  | .open rnd => .open rnd
  | .close => .close
  | .generic a => .generic a

private theorem lcsl_scallStep_ofCall {σ} (hook : ObjHook σ) (w : World σ) (c : Call) :
    scallStep hook w (SCall.ofCall c) = call hook w c := by
  cases c <;> rfl

private theorem lcsl_srun_ofCall {σ} (hook : ObjHook σ) (calls : List Call) :
    ∀ w : World σ, srun hook w (calls.map SCall.ofCall) = run hook w calls := by
  induction calls with
  | nil => intro w; rfl
  | cons c cs ih => intro w; simp only [List.map_cons, srun, run, lcsl_scallStep_ofCall]; exact ih _

private theorem lcsl_srun_append {σ} (hook : ObjHook σ) (a b : List SCall) :
    ∀ w : World σ, srun hook w (a ++ b) = srun hook (srun hook w a) b := by
  induction a with
  | nil => intro w; rfl
  | cons c cs ih => intro w; simp only [List.cons_append, srun]; exact ih _

/-- evaluable checks on a history: every generic_message call avoids the Connection Manager / every open() gets
    8 random bytes -/
def shistAvoidsCM : List SCall → Bool
  | [] => true
  | .generic a :: cs => AvoidsCM a && shistAvoidsCM cs
  | _ :: cs => shistAvoidsCM cs

def shistRnd8 : List SCall → Bool
  | [] => true
  | .open rnd :: cs => decide (rnd.length = 8) && shistRnd8 cs
  | _ :: cs => shistRnd8 cs

private theorem lcsl_shistAvoidsCM_spec (calls : List SCall) (h : shistAvoidsCM calls = true) :
    ∀ a, SCall.generic a ∈ calls → AvoidsCM a = true := by
  induction calls with
  | nil => intro a ha; cases ha
  | cons c cs ih =>
    intro a ha
    cases c with
    | generic b =>
      simp only [shistAvoidsCM, Bool.and_eq_true] at h
      rcases List.mem_cons.1 ha with e | ha
      · cases e; exact h.1
      · exact ih h.2 a ha
    | «open» _ | close | slcRead _ | slcWrite _ =>
      rcases List.mem_cons.1 ha with e | ha
      · cases e
      · exact ih h a ha

private theorem lcsl_shistRnd8_spec (calls : List SCall) (h : shistRnd8 calls = true) :
    ∀ rnd, SCall.open rnd ∈ calls → rnd.length = 8 := by
  induction calls with
  | nil => intro a ha; cases ha
  | cons c cs ih =>
    intro a ha
    cases c with
    | «open» b =>
      simp only [shistRnd8, Bool.and_eq_true, decide_eq_true_eq] at h
      rcases List.mem_cons.1 ha with e | ha
      · cases e; exact h.1
      · exact ih h.2 a ha
    | generic _ | close | slcRead _ | slcWrite _ =>
      rcases List.mem_cons.1 ha with e | ha
      · cases e
      · exact ih h a ha

/-- the invariant of LCInv.lean is preserved by every call of the SLC alphabet -/
private theorem lcsl_call_inv {σ} (hook : ObjHook σ) (hh : HookOk hook) (S : Prop) (w : World σ) (c : SCall)
    (ho : ∀ rnd, c = .open rnd → S → rnd.length = 8) (hg : ∀ a, c = .generic a → AvoidsCM a = true)
    (hi : lci_Inv S w) (hc : lci_Conn w) : lci_Inv S (scallStep hook w c).1 ∧ lci_Conn (scallStep hook w c).1 := by
  cases c with
  | «open» rnd => exact lci_call_inv hook hh S w (.open rnd) (fun r e => ho r (by cases e; rfl)) (fun a e => by cases e) hi hc
  | close => exact lci_call_inv hook hh S w .close (fun r e => by cases e) (fun a e => by cases e) hi hc
  | generic a => exact lci_call_inv hook hh S w (.generic a) (fun r e => by cases e) (fun b e => hg b (by cases e; rfl)) hi hc
  | slcRead ts =>
    have := Slc.Drv.lcsl_slcRead_inv hook hh S w ts hi hc
    simp only [scallStep]
    generalize Slc.Drv.slcRead hook w ts = r at this ⊢
    obtain ⟨w', o⟩ := r
    cases o <;> exact this
  | slcWrite avs =>
    have := Slc.Drv.lcsl_slcWrite_inv hook hh S w avs hi hc
    simp only [scallStep]
    generalize Slc.Drv.slcWrite hook w avs = r at this ⊢
    obtain ⟨w', o⟩ := r
    cases o <;> exact this

private theorem lcsl_run_inv {σ} (hook : ObjHook σ) (hh : HookOk hook) (S : Prop) (calls : List SCall) :
    ∀ (w : World σ), (∀ rnd, SCall.open rnd ∈ calls → S → rnd.length = 8) →
      (∀ a, SCall.generic a ∈ calls → AvoidsCM a = true) → lci_Inv S w → lci_Conn w →
      lci_Inv S (srun hook w calls) ∧ lci_Conn (srun hook w calls) := by
  induction calls with
  | nil => intro w _ _ hi hc; exact ⟨hi, hc⟩
  | cons c cs ih =>
    intro w ho hg hi hc
    obtain ⟨h1, h2⟩ := lcsl_call_inv hook hh S w c
      (fun rnd e => ho rnd (e ▸ List.mem_cons_self)) (fun a e => hg a (e ▸ List.mem_cons_self)) hi hc
    exact ih _ (fun rnd h => ho rnd (List.mem_cons_of_mem _ h)) (fun a h => hg a (List.mem_cons_of_mem _ h)) h1 h2

/-- every call keeps the idle invariant of LCIdle.lean -/
private theorem lcsl_call_net {σ} (hook : ObjHook σ) (hh : HookOk hook) (F : List Fault) (P : Policy) (w : World σ)
    (c : SCall) (hi : lci_Inv False w) (hn : lci_Net F P w) : lci_Net F P (scallStep hook w c).1 := by
  cases c with
  | «open» rnd =>
    have := lci_Net_open hook hh w rnd hn
    simp only [scallStep]
    generalize openDrv hook w rnd = r at this ⊢
    obtain ⟨w', o⟩ := r
    cases o <;> exact this
  | close =>
    have := lci_Net_close hook w hi.ctx8 hn
    simp only [scallStep]
    generalize closeDrv hook w = r at this ⊢
    obtain ⟨w', o⟩ := r
    cases o <;> exact this
  | generic a =>
    have := lci_Net_step hn ((lci_NStep_mutual hook hh FUEL).2.2 w a)
    simp only [scallStep]
    generalize genericMessage hook FUEL w a = r at this ⊢
    obtain ⟨w', o⟩ := r
    cases o <;> exact this
  | slcRead ts =>
    have := lci_Net_step hn (Slc.Drv.lcsl_slcRead_nstep hook hh w ts)
    simp only [scallStep]
    generalize Slc.Drv.slcRead hook w ts = r at this ⊢
    obtain ⟨w', o⟩ := r
    cases o <;> exact this
  | slcWrite avs =>
    have := lci_Net_step hn (Slc.Drv.lcsl_slcWrite_nstep hook hh w avs)
    simp only [scallStep]
    generalize Slc.Drv.slcWrite hook w avs = r at this ⊢
    obtain ⟨w', o⟩ := r
    cases o <;> exact this

private theorem lcsl_run_net {σ} (hook : ObjHook σ) (hh : HookOk hook) (F : List Fault) (P : Policy)
    (calls : List SCall) :
    ∀ (w : World σ), (∀ a, SCall.generic a ∈ calls → AvoidsCM a = true) →
      lci_Inv False w → lci_Conn w → lci_Net F P w →
      lci_Inv False (srun hook w calls) ∧ lci_Net F P (srun hook w calls) := by
  induction calls with
  | nil => intro w _ hi _ hn; exact ⟨hi, hn⟩
  | cons c cs ih =>
    intro w hg hi hc hn
    obtain ⟨h1, h2⟩ := lcsl_call_inv hook hh False w c (fun _ _ h => h.elim)
      (fun a e => hg a (e ▸ List.mem_cons_self)) hi hc
    exact ih _ (fun a h => hg a (List.mem_cons_of_mem _ h)) h1 h2 (lcsl_call_net hook hh F P w c hi hn)

/-! ### C10 -/

/-- `SLCDriver.read` preserves the lifecycle invariant of LCInv.lean — whatever the addresses, the fault plan, the
    target policy, and whether the call returns or raises.  (Every frame it sends goes through the
    `@with_forward_open` decorator first and then through `CIPDriver.send` of a connected request on the open
    connection; between the sends only the sequence counter of the driver changes.) -/
theorem slcRead_preserves_inv {σ} (hook : ObjHook σ) (hh : HookOk hook) (S : Prop) (w : World σ)
    (addresses : List Name) (hi : lci_Inv S w) (hc : lci_Conn w) :
    lci_Inv S (Slc.Drv.slcRead hook w addresses).1 ∧ lci_Conn (Slc.Drv.slcRead hook w addresses).1 :=
  Slc.Drv.lcsl_slcRead_inv hook hh S w addresses hi hc

/-- `SLCDriver.write` preserves the lifecycle invariant, likewise -/
theorem slcWrite_preserves_inv {σ} (hook : ObjHook σ) (hh : HookOk hook) (S : Prop) (w : World σ)
    (avs : List (Name × PyVal)) (hi : lci_Inv S w) (hc : lci_Conn w) :
    lci_Inv S (Slc.Drv.slcWrite hook w avs).1 ∧ lci_Conn (Slc.Drv.slcWrite hook w avs).1 :=
  Slc.Drv.lcsl_slcWrite_inv hook hh S w avs hi hc

/-- for EVERY history of open / close / generic_message / SLC read / SLC write calls, every fault plan and every
    target policy, starting from a fresh driver: nothing is ever sent on a connection before a session is registered
    and a Forward Open has succeeded — the target never has to reject a connected (unit-data) frame for lack of a
    session or of an open connection.  (Hypothesis `hg` as in `no_unit_data_before_open`; reads and writes need
    none: addresses and values are arbitrary.) -/
theorem no_unit_data_before_open_slc {σ} (hook : ObjHook σ) (hh : HookOk hook) (w : World σ) (hf : Fresh w)
    (calls : List SCall) (hg : ∀ a, SCall.generic a ∈ calls → AvoidsCM a = true) :
    NoEarlyUnitData (srun hook w calls).net.target.base.log := by
  obtain ⟨hi, hc⟩ := lci_fresh_inv False w hf (fun h => h.elim)
  exact (lcsl_run_inv hook hh False calls w (fun _ _ h => h.elim) hg hi hc).1.t.noV

/-- for EVERY such history: the extended Forward Open is tried first with the configured size, the standard one
    only after the target refused the extended one, and then with the 500-byte size
    (hypotheses `hp`, `ho`, `hg` as in `fo_order`) -/
theorem fo_order_slc {σ} (hook : ObjHook σ) (hh : HookOk hook) (w : World σ) (hf : Fresh w) (calls : List SCall)
    (hp : PathOk w.drv.cipPath) (ho : ∀ rnd, SCall.open rnd ∈ calls → rnd.length = 8)
    (hg : ∀ a, SCall.generic a ∈ calls → AvoidsCM a = true) :
    FoDiscipline (srun hook w calls).net.target.base.events := by
  obtain ⟨hi, hc⟩ := lci_fresh_inv True w hf (fun _ => hp)
  have h := (lcsl_run_inv hook hh True calls w (fun rnd h _ => ho rnd h) hg hi hc).1.t.fo trivial
  exact lci_FoOK_events _ h

/-- in every state reachable from a fresh world by such a history, a driver without socket (or a closed TCP
    connection) means that the target holds no session -/
theorem reachable_idle_slc {σ} (hook : ObjHook σ) (hh : HookOk hook) (w : World σ) (hf : Fresh w)
    (calls : List SCall) (hg : ∀ a, SCall.generic a ∈ calls → AvoidsCM a = true) :
    let w' := srun hook w calls
    (w'.drv.hasSock = false ∨ w'.net.tcpOpen = false) → w'.net.target.base.sessions = [] := by
  intro w' h
  obtain ⟨hi, hc⟩ := lci_fresh_inv False w hf (fun h => h.elim)
  have hn := (lcsl_run_net hook hh _ _ calls w hg hi hc (lci_fresh_net w hf)).2
  apply hn.idle
  rcases h with h | h
  · rw [← hn.sock]; exact h
  · exact h

/-- after ANY such history from a fresh world, on a target that accepts sessions and with an empty fault plan:
    close() followed by open() registers a fresh session -/
theorem reopen_after_any_history_slc {σ} (hook : ObjHook σ) (hh : HookOk hook) (w : World σ) (hf : Fresh w)
    (calls : List SCall) (hg : ∀ a, SCall.generic a ∈ calls → AvoidsCM a = true) (rnd : Bytes)
    (hpol : w.net.target.base.policy.sessionOk = true) (hfault : w.net.faults = []) :
    let w' := srun hook w calls
    let w1 := (closeDrv hook w').1
    let r := openDrv hook w1 rnd
    r.2 = .ok true ∧ r.1.drv.session = some w1.net.target.base.nextSession ∧
    r.1.net.target.base.sessions = [w1.net.target.base.nextSession] ∧ r.1.drv.connectionOpened = true := by
  intro w'
  obtain ⟨hi, hc⟩ := lci_fresh_inv False w hf (fun h => h.elim)
  obtain ⟨hi', hn⟩ := lcsl_run_net hook hh _ _ calls w hg hi hc (lci_fresh_net w hf)
  exact reopen_works hook w' rnd (by rw [hn.pol]; exact hpol) (by rw [hn.faults]; exact hfault) hi'.ctx8 hi'.opt0
    ⟨hi'.t.ns, hn.ns0⟩ (reachable_idle_slc hook hh w hf calls hg)

/-- after a history that ends with close(): the driver reports not connected, has no session, no socket, and the
    connection flag is off — whatever reads and writes happened before, from whatever world -/
theorem after_close_driver_slc {σ} (hook : ObjHook σ) (w : World σ) (calls : List SCall) :
    let w' := srun hook w (calls ++ [.close])
    w'.drv.connectionOpened = false ∧ w'.drv.session = some 0 ∧ w'.drv.hasSock = false ∧
    w'.drv.targetIsConnected = false := by
  intro w'
  have e : w' = (closeDrv hook (srun hook w calls)).1 := by
    show srun hook w (calls ++ [.close]) = _
    rw [lcsl_srun_append]
    simp only [srun, scallStep]
    generalize closeDrv hook (srun hook w calls) = r
    obtain ⟨w1, o⟩ := r
    cases o <;> rfl
  rw [e]
  exact after_close_driver hook _

private theorem lcsl_efo_unopened_fuel {σ} (hook : ObjHook σ) (fuel : Nat) (w : World σ)
    (hcon : w.drv.targetIsConnected = false) (hs : w.drv.session = some 0) :
    ensureForwardOpen hook (fuel + 2) w = (w, .error .comm) := by
  rw [ensureForwardOpen]
  simp only [hcon, Bool.false_eq_true, if_false]
  rw [forwardOpen]
  simp only [hcon, hs, Bool.false_eq_true, if_false, beq_self_eq_true, if_true]

private theorem lcsl_efo_unopened {σ} (hook : ObjHook σ) (w : World σ) (hcon : w.drv.targetIsConnected = false)
    (hs : w.drv.session = some 0) : ensureForwardOpen hook FUEL w = (w, .error .comm) :=
  lcsl_efo_unopened_fuel hook 6 w hcon hs

/-- an SLC read / write on a driver that was never opened (or was closed): exactly as for the LogixDriver, the
    `@with_forward_open` decorator calls `_forward_open`, which raises CommError ("A session must be registered before
    a Forward Open") because the session handle is 0 — nothing is drawn, nothing is sent, the world is untouched,
    whatever the addresses (also for an address `parse_tag` would reject, and for no address at all) -/
theorem slc_unopened_raises_comm {σ} (hook : ObjHook σ) (w : World σ) (addresses : List Name)
    (avs : List (Name × PyVal)) (hcon : w.drv.targetIsConnected = false) (hs : w.drv.session = some 0) :
    Slc.Drv.slcRead hook w addresses = (w, .error .comm) ∧ Slc.Drv.slcWrite hook w avs = (w, .error .comm) := by
  unfold Slc.Drv.slcRead Slc.Drv.slcWrite
  rw [lcsl_efo_unopened hook w hcon hs]
  exact ⟨rfl, rfl⟩

/-- what `SLCDriver.write` can raise besides the library's exceptions: `writeable_value` runs `len(value)` and
    `value[:n]` outside its `try` for an address with an element count `{n}`, n > 1 — for one of the (address,
    value) pairs of the call, with `a` what `parse_tag` makes of the address,
    * KeyError: the value is a dict with more than n entries;
    * TypeError: the value has no `len()` (None, a bool, an int, a float), the address is not a bit address and its
      file type has an element codec. -/
def SlcWriteCorner (avs : List (Name × PyVal)) (e : Exn) : Prop :=
  ∃ t v a, (t, v) ∈ avs ∧ Slc.parseTag t = some a ∧ 1 < a.count ∧
    ((e = .foreign "KeyError" ∧ ∃ kvs, v = .dict kvs ∧ a.count < kvs.length) ∨
     (e = .foreign "TypeError" ∧ v.len? = none ∧ a.addressField ≠ 3 ∧ (Slc.elemTy a.fileType).isSome = true))

/-- whatever the history, fault plan and target policy: every exception that escapes a call is one of the library's
    exception classes (CommError, ResponseError, DataError, RequestError, BufferEmptyError) — except for the corner
    case of `write` (`SlcWriteCorner`: TypeError / KeyError from `writeable_value`), which is listed in full: nothing
    else escapes.  In particular `read` raises library exceptions only (no IndexError for a call without addresses:
    the empty list is returned), no call hangs, and no status the controller answers with raises. -/
theorem failures_are_library_slc {σ} (hook : ObjHook σ) (w : World σ) (c : SCall) (e : Exn)
    (h : (scallStep hook w c).2 = .raised e) :
    LcLib e ∨ (∃ avs, c = .slcWrite avs ∧ SlcWriteCorner avs e) := by
  cases c with
  | «open» rnd =>
    simp only [scallStep] at h
    split at h
    · cases h
    · next w' e' he => cases h; exact .inl (.inl (lc_openDrv_err hook w rnd e (by rw [he])))
  | close =>
    simp only [scallStep] at h
    split at h
    · cases h
    · next w' e' he => cases h; exact .inl (.inl (lc_closeDrv_err hook w e (by rw [he])))
  | generic a =>
    simp only [scallStep] at h
    split at h
    · cases h
    · next w' e' he =>
      cases h
      exact .inl (lc_gm_lib hook 4 w a e (by show (genericMessage hook FUEL w a).2 = _; rw [he]))
  | slcRead ts =>
    simp only [scallStep] at h
    split at h
    · cases h
    · next w' e' he =>
      cases h
      exact .inl (Slc.Drv.lcsl_slcRead_err hook w ts e (by rw [he]))
  | slcWrite avs =>
    simp only [scallStep] at h
    split at h
    · cases h
    · next w' e' he =>
      cases h
      rcases Slc.Drv.lcsl_slcWrite_err hook w avs e (by rw [he]) with h1 | ⟨t, v, a, hm, ha, hcnt, hc⟩
      · exact .inl h1
      · exact .inr ⟨avs, rfl, t, v, a, hm, ha, hcnt, hc⟩

/-- the exception classes of a read: library exceptions only -/
theorem slcRead_failures_are_library {σ} (hook : ObjHook σ) (w : World σ) (addresses : List Name) (e : Exn)
    (h : (scallStep hook w (.slcRead addresses)).2 = .raised e) : LcLib e := by
  rcases failures_are_library_slc hook w _ e h with h1 | ⟨_, hc, _⟩
  · exact h1
  · cases hc

/-- the exception classes of a write: library exceptions, TypeError or KeyError -/
theorem slcWrite_failures_are_library {σ} (hook : ObjHook σ) (w : World σ) (avs : List (Name × PyVal)) (e : Exn)
    (h : (scallStep hook w (.slcWrite avs)).2 = .raised e) :
    LcLib e ∨ e = .foreign "TypeError" ∨ e = .foreign "KeyError" := by
  rcases failures_are_library_slc hook w _ e h with h1 | ⟨_, _, _, _, _, _, _, _, ⟨h2, _⟩ | ⟨h2, _⟩⟩
  · exact .inl h1
  · exact .inr (.inr h2)
  · exact .inr (.inl h2)

/-- termination: `scallStep` / `srun` are total functions, so every call returns or raises; the fuel marker of the
    model (`.hang`: "the call would not return") never escapes a call of the SLC alphabet -/
theorem slc_calls_never_hang {σ} (hook : ObjHook σ) (w : World σ) (c : SCall) :
    (scallStep hook w c).2 ≠ .raised .hang := by
  intro h
  rcases failures_are_library_slc hook w c .hang h with h1 | ⟨_, _, _, _, _, _, _, _, ⟨h2, _⟩ | ⟨h2, _⟩⟩
  · rcases h1 with h1 | h1 | h1 | h1 | h1 <;> cases h1
  · cases h2
  · cases h2

/-! ### C17 over the SLC alphabet: budgets -/

/-- the sequence numbers a call may draw without the target seeing them: a `read` / `write` with at least one
    address ends with the first `_read_tag` / `_write_tag` that raises, and that one has drawn at most two numbers
    (the PCCC transaction id and the sequence count of the packet, both from `self._sequence`) — whatever the number
    of addresses.  Every `_read_tag` / `_write_tag` before it has returned a Tag: its packet was answered. -/
def SCall.budget : SCall → Nat
  | .slcRead (_ :: _) => 2
  | .slcWrite (_ :: _) => 2
  | _ => 0

/-- the largest budget spent between two close() calls; `cur` = spent since the last close() -/
def sbudget : Nat → List SCall → Nat
  | cur, [] => cur
  | cur, .close :: cs => max cur (sbudget 0 cs)
  | cur, c :: cs => sbudget (cur + c.budget) cs

/-- a read / write with at least one address that returned (did not raise): the controller has answered its last
    packet -/
def sgood {σ} (hook : ObjHook σ) (w : World σ) : SCall → Bool
  | .slcRead ts =>
      !ts.isEmpty && (match (Slc.Drv.slcRead hook w ts).2 with | .ok _ => true | .error _ => false)
  | .slcWrite avs =>
      !avs.isEmpty && (match (Slc.Drv.slcWrite hook w avs).2 with | .ok _ => true | .error _ => false)
  | _ => false

/-- the budget along the run: a close() and a read / write that returned (`sgood`) start a new segment at 0;
    `cur` = spent in the current segment -/
def sbudgetR {σ} (hook : ObjHook σ) : Nat → World σ → List SCall → Nat
  | cur, _, [] => cur
  | cur, w, .close :: cs => max cur (sbudgetR hook 0 (scallStep hook w .close).1 cs)
  | cur, w, c :: cs =>
      if sgood hook w c then max (cur + c.budget) (sbudgetR hook 0 (scallStep hook w c).1 cs)
      else sbudgetR hook (cur + c.budget) (scallStep hook w c).1 cs

private theorem lcsl_sbudget_ge (calls : List SCall) : ∀ cur, cur ≤ sbudget cur calls := by
  induction calls with
  | nil => intro cur; exact Nat.le_refl _
  | cons c cs ih =>
    intro cur
    cases c with
    | close => simp only [sbudget]; omega
    | «open» _ => simp only [sbudget]; exact Nat.le_trans (Nat.le_add_right _ _) (ih _)
    | generic _ => simp only [sbudget]; exact Nat.le_trans (Nat.le_add_right _ _) (ih _)
    | slcRead _ => simp only [sbudget]; exact Nat.le_trans (Nat.le_add_right _ _) (ih _)
    | slcWrite _ => simp only [sbudget]; exact Nat.le_trans (Nat.le_add_right _ _) (ih _)

private theorem lcsl_sbudget_mono (calls : List SCall) :
    ∀ cur cur', cur ≤ cur' → sbudget cur calls ≤ sbudget cur' calls := by
  induction calls with
  | nil => intro cur cur' h; exact h
  | cons c cs ih =>
    intro cur cur' h
    cases c with
    | close => simp only [sbudget]; omega
    | «open» _ => simp only [sbudget]; exact ih _ _ (by omega)
    | generic _ => simp only [sbudget]; exact ih _ _ (by omega)
    | slcRead _ => simp only [sbudget]; exact ih _ _ (by omega)
    | slcWrite _ => simp only [sbudget]; exact ih _ _ (by omega)

private theorem lcsl_sbudgetR_step {σ} (hook : ObjHook σ) (cur : Nat) (w : World σ) (c : SCall) (cs : List SCall)
    (hc : c ≠ .close) :
    sbudgetR hook cur w (c :: cs) =
      if sgood hook w c then max (cur + c.budget) (sbudgetR hook 0 (scallStep hook w c).1 cs)
      else sbudgetR hook (cur + c.budget) (scallStep hook w c).1 cs := by
  cases c with
  | close => exact absurd rfl hc
  | «open» _ | generic _ | slcRead _ | slcWrite _ => rfl

/-- the budget along the run never exceeds the static budget -/
private theorem lcsl_sbudgetR_le {σ} (hook : ObjHook σ) (calls : List SCall) :
    ∀ (cur : Nat) (w : World σ), sbudgetR hook cur w calls ≤ sbudget cur calls := by
  induction calls with
  | nil => intro cur w; exact Nat.le_refl _
  | cons c cs ih =>
    intro cur w
    by_cases hc : c = .close
    · subst hc
      simp only [sbudgetR, sbudget]
      have := ih 0 (scallStep hook w .close).1
      omega
    · rw [lcsl_sbudgetR_step hook cur w c cs hc]
      have hl : sbudget cur (c :: cs) = sbudget (cur + c.budget) cs := by
        cases c with
        | close => exact absurd rfl hc
        | «open» _ | generic _ | slcRead _ | slcWrite _ => rfl
      rw [hl]
      split
      · have h1 := ih 0 (scallStep hook w c).1
        have h2 := lcsl_sbudget_mono cs 0 (cur + c.budget) (by omega)
        have h3 := lcsl_sbudget_ge cs (cur + c.budget)
        omega
      · exact ih _ _

private theorem lcsl_sbudgetR_ge {σ} (hook : ObjHook σ) (calls : List SCall) :
    ∀ (cur : Nat) (w : World σ), cur ≤ sbudgetR hook cur w calls := by
  induction calls with
  | nil => intro cur w; exact Nat.le_refl _
  | cons c cs ih =>
    intro cur w
    by_cases hc : c = .close
    · subst hc
      simp only [sbudgetR]
      omega
    · rw [lcsl_sbudgetR_step hook cur w c cs hc]
      split
      · omega
      · exact Nat.le_trans (Nat.le_add_right _ _) (ih _ _)

/-- lifecycle, idle and sequence invariants along every history of the SLC alphabet -/
private theorem lcsl_run_seq {σ} (hook : ObjHook σ) (hh : HookOk hook) (hn : HookQuietSeq hook) (F : List Fault)
    (P : Policy) (calls : List SCall) :
    ∀ (w : World σ) (B : Nat), (∀ a, SCall.generic a ∈ calls → AvoidsCM a = true) →
      (∀ a, SCall.generic a ∈ calls → a.connected = true → SizeOk a = true) →
      lci_Inv False w → lci_Conn w → lci_Net F P w → lcl_SeqB B w →
      F.length + sbudgetR hook B w calls < 65534 → ∃ B', lcl_SeqB B' (srun hook w calls) := by
  induction calls with
  | nil => intro w B _ _ _ _ _ hq _; exact ⟨B, hq⟩
  | cons c cs ih =>
    intro w B hg hs hi hc hnet hq hb
    obtain ⟨h1, h2⟩ := lcsl_call_inv hook hh False w c (fun _ _ h => h.elim)
      (fun a e => hg a (e ▸ List.mem_cons_self)) hi hc
    have h3 := lcsl_call_net hook hh F P w c hi hnet
    have hF : w.net.faults = F := hnet.faults
    have next : ∀ B1, lcl_SeqB B1 (scallStep hook w c).1 →
        F.length + sbudgetR hook B1 (scallStep hook w c).1 cs < 65534 →
        ∃ B', lcl_SeqB B' (srun hook w (c :: cs)) := by
      intro B1 hq1 hb1
      exact ih _ B1 (fun a h => hg a (List.mem_cons_of_mem _ h)) (fun a h => hs a (List.mem_cons_of_mem _ h))
        h1 h2 h3 hq1 hb1
    cases c with
    | «open» rnd =>
      refine next B ?_ (by simpa [sbudgetR, sgood, SCall.budget] using hb)
      have := lcl_openDrv_seq hook hh hn B w rnd hq
      simp only [scallStep]
      generalize openDrv hook w rnd = r at this ⊢
      obtain ⟨w', o⟩ := r
      cases o <;> exact this
    | close =>
      have hb' : F.length + sbudgetR hook 0 (scallStep hook w .close).1 cs < 65534 := by
        simp only [sbudgetR] at hb
        omega
      refine next 0 ?_ hb'
      have := lcl_closeDrv_seq hook hh hn F P B 0 w hnet hq (by rw [hF]; omega)
      simp only [scallStep]
      generalize closeDrv hook w = r at this ⊢
      obtain ⟨w', o⟩ := r
      cases o <;> exact this
    | generic a =>
      refine next B ?_ (by simpa [sbudgetR, sgood, SCall.budget] using hb)
      have := lcl_generic_seq hook hh hn False B FUEL w a
        (fun hcn => lcs_size_of_check a (hs a List.mem_cons_self hcn)) hi hc hq
      simp only [scallStep]
      generalize genericMessage hook FUEL w a = r at this ⊢
      obtain ⟨w', o⟩ := r
      cases o <;> exact this
    | slcRead ts =>
      rw [lcsl_sbudgetR_step hook B w _ cs (by intro h; cases h)] at hb
      have hw' : (scallStep hook w (.slcRead ts)).1 = (Slc.Drv.slcRead hook w ts).1 := by
        simp only [scallStep]
        generalize Slc.Drv.slcRead hook w ts = r
        obtain ⟨w', o⟩ := r
        cases o <;> rfl
      cases ts with
      | nil =>
        have hg0 : sgood hook w (.slcRead []) = false := rfl
        rw [hg0] at hb
        refine next B ?_ (by simpa [SCall.budget] using hb)
        rw [hw']
        exact Slc.Drv.lcsl_slcRead_nil_seq hook hh hn B w hq
      | cons t rest =>
        have hfl : w.net.faults.length + (B + 2) < 65534 := by
          rw [hF]
          by_cases hgd : sgood hook w (.slcRead (t :: rest)) = true
          · rw [if_pos hgd] at hb
            simp only [SCall.budget] at hb
            omega
          · rw [if_neg hgd] at hb
            have := lcsl_sbudgetR_ge hook cs (B + (SCall.slcRead (t :: rest)).budget)
              (scallStep hook w (.slcRead (t :: rest))).1
            simp only [SCall.budget] at this hb
            omega
        obtain ⟨k1, k2⟩ := Slc.Drv.lcsl_slcRead_seq hook hh hn False B w (t :: rest) hi hc hq hfl
        by_cases hgd : sgood hook w (.slcRead (t :: rest)) = true
        · rw [if_pos hgd] at hb
          refine next 0 ?_ (by omega)
          rw [hw']
          simp only [sgood, List.isEmpty_cons, Bool.not_false, Bool.true_and] at hgd
          cases hres : (Slc.Drv.slcRead hook w (t :: rest)).2 with
          | error e => rw [hres] at hgd; cases hgd
          | ok res => exact k2 res hres (List.cons_ne_nil _ _)
        · rw [if_neg hgd] at hb
          refine next (B + 2) ?_ (by simpa [SCall.budget] using hb)
          rw [hw']
          exact k1
    | slcWrite avs =>
      rw [lcsl_sbudgetR_step hook B w _ cs (by intro h; cases h)] at hb
      have hw' : (scallStep hook w (.slcWrite avs)).1 = (Slc.Drv.slcWrite hook w avs).1 := by
        simp only [scallStep]
        generalize Slc.Drv.slcWrite hook w avs = r
        obtain ⟨w', o⟩ := r
        cases o <;> rfl
      cases avs with
      | nil =>
        have hg0 : sgood hook w (.slcWrite []) = false := rfl
        rw [hg0] at hb
        refine next B ?_ (by simpa [SCall.budget] using hb)
        rw [hw']
        exact Slc.Drv.lcsl_slcWrite_nil_seq hook hh hn B w hq
      | cons p rest =>
        have hfl : w.net.faults.length + (B + 2) < 65534 := by
          rw [hF]
          by_cases hgd : sgood hook w (.slcWrite (p :: rest)) = true
          · rw [if_pos hgd] at hb
            simp only [SCall.budget] at hb
            omega
          · rw [if_neg hgd] at hb
            have := lcsl_sbudgetR_ge hook cs (B + (SCall.slcWrite (p :: rest)).budget)
              (scallStep hook w (.slcWrite (p :: rest))).1
            simp only [SCall.budget] at this hb
            omega
        obtain ⟨k1, k2⟩ := Slc.Drv.lcsl_slcWrite_seq hook hh hn False B w (p :: rest) hi hc hq hfl
        by_cases hgd : sgood hook w (.slcWrite (p :: rest)) = true
        · rw [if_pos hgd] at hb
          refine next 0 ?_ (by omega)
          rw [hw']
          simp only [sgood, List.isEmpty_cons, Bool.not_false, Bool.true_and] at hgd
          cases hres : (Slc.Drv.slcWrite hook w (p :: rest)).2 with
          | error e => rw [hres] at hgd; cases hgd
          | ok res => exact k2 res hres (List.cons_ne_nil _ _)
        · rw [if_neg hgd] at hb
          refine next (B + 2) ?_ (by simpa [SCall.budget] using hb)
          rw [hw']
          exact k1

/-- C17 over the SLC alphabet.  For EVERY history of open / close / generic_message / SLC read / SLC write calls from a
    fresh world, every target policy and every fault plan: the sequence count of a connected frame that reaches the
    target never equals the one the target saw last on that connection — provided
    * `hg`, `hs`, `hn`: as in `seq_never_repeats` (generic_message leaves the Connection Manager alone, its connected
      requests can be framed, the object hook logs no duplicate-count violation of its own);
    * `hb`: the fault plan and the reads / writes that RAISE stay within the budget of the 16-bit counter:
      (number of faults) + 2 · (number of reads / writes with at least one address that raised since the last close()
      or the last read / write with at least one address that returned, whichever came later) < 65534
      (`sbudgetR`, which follows the run; `seq_never_repeats_slc_static` states the bound on the history alone).
      Reads / writes that return, the number of addresses per call and generic_message calls are not bounded in
      number; no hypothesis on the addresses, the values or their sizes. -/
-- STATEMENT CHANGED: a budget "each slcRead / slcWrite of n addresses draws at most n counts" is not what the model
-- does, in two ways.  (1) Every `_read_tag` / `_write_tag` draws TWO numbers from `self._sequence` (the PCCC
-- transaction id, then the sequence count of the packet), and only the second one is sent as the sequence count.
-- (2) What matters is not the number of draws but the draws the target does not see: a step that returns a Tag was
-- answered, so only the step that raises counts — at most 2 per call, whatever n.  Without any budget the statement is
-- false (counterexample `SEx.ce`, kept as `#guard`s below: hook = hookAll, default policy, no faults):
--   [open 0102030405060708, generic {service 0x01, cls 1, inst 1} (connected; carries count 1),
--    65534 × slcRead ["N7:0{200}"], generic {service 0x01, cls 1, inst 1} (connected)]
-- every such read passes `parse_tag`, draws the transaction id and then fails to encode the byte size 400 into the
-- USINT of the message (DataError) — nothing is sent, no fault is consumed; the last request carries count 1 again:
-- the log contains violation "sequence count 1 repeated on consecutive connected messages"; with 65533 such reads
-- there is no violation.  The Python library does the same: in `_read_tag` the list literal evaluates
-- `UINT.encode(next(self._sequence))` before `USINT.encode(PCCC_DATA_SIZE[...] * element_count)` raises.
theorem seq_never_repeats_slc {σ} (hook : ObjHook σ) (hh : HookOk hook) (hn : HookQuietSeq hook) (w : World σ)
    (hf : Fresh w) (calls : List SCall)
    (hg : ∀ a, SCall.generic a ∈ calls → AvoidsCM a = true)
    (hs : ∀ a, SCall.generic a ∈ calls → a.connected = true → SizeOk a = true)
    (hb : w.net.faults.length + sbudgetR hook 0 w calls < 65534) :
    NoSeqRepeat (srun hook w calls).net.target.base.log := by
  obtain ⟨hi, hc⟩ := lci_fresh_inv False w hf (fun h => h.elim)
  have hge := lcsl_sbudgetR_ge hook calls 0 w
  have hq := lcl_SeqB_of_seq (lcs_fresh w hf (by omega))
  obtain ⟨B', h⟩ := lcsl_run_seq hook hh hn _ _ calls w 0 hg hs hi hc (lci_fresh_net w hf) hq hb
  exact h.log

/-- the same with the budget computed from the history alone (`sbudget`: only close() starts a new segment; every
    read / write with at least one address counts 2, whether it raises or not):
    `sbudgetR hook cur w calls ≤ sbudget cur calls` -/
theorem seq_never_repeats_slc_static {σ} (hook : ObjHook σ) (hh : HookOk hook) (hn : HookQuietSeq hook) (w : World σ)
    (hf : Fresh w) (calls : List SCall)
    (hg : ∀ a, SCall.generic a ∈ calls → AvoidsCM a = true)
    (hs : ∀ a, SCall.generic a ∈ calls → a.connected = true → SizeOk a = true)
    (hb : w.net.faults.length + sbudget 0 calls < 65534) :
    NoSeqRepeat (srun hook w calls).net.target.base.log :=
  seq_never_repeats_slc hook hh hn w hf calls hg hs (by have := lcsl_sbudgetR_le hook calls 0 w; omega)

/-! ### non-vacuity: a concrete history with SLC reads and writes satisfies every hypothesis

  The world is the fresh driver in front of the fresh reference target holding the example data table of SlcExt.lean
  (`Slc.Drv.Ex.world0`, PycommProofs/SlcDriverProofs.lean: N7 = [0x1234, -1, 8], T4, S2, I1, F8, L9), the hook the full
  target's `hookAll`.  The hypotheses are checked on the history itself (`decide` / `rfl`), the outcomes by evaluating
  the model (`#guard`). -/

namespace SEx
open Slc.Drv

def world0 : World Ext := Slc.Drv.Ex.world0

def idn : GenArgs := { service := 0x01, cls := .bytes [0x01], inst := .bytes [0x01] }

def hist : List SCall :=
  [.open [1, 2, 3, 4, 5, 6, 7, 8],
   .slcWrite [(nm "N7:1", .int 5), (nm "N7:2/2", .bool true)],
   .slcRead [nm "N7:1", nm "N7:2/2", nm "T4:1.ACC"],
   .close,
   .open [8, 7, 6, 5, 4, 3, 2, 1],
   .slcRead [nm "N7:1"],
   .generic idn,
   .slcRead [nm "N7:0{200}"],
   .slcWrite [(nm "N7:0{2}", .int 1)],
   .slcRead [],
   .slcWrite [(nm "F8:0", .float 0x4004000000000000)]]

private theorem fresh0 : Fresh world0 :=
  ⟨rfl, rfl, rfl, rfl, rfl, rfl, rfl, rfl, rfl, rfl, rfl, rfl, rfl, rfl, rfl, rfl, rfl, rfl, rfl, rfl,
   by decide, by decide, by decide⟩

private theorem path0 : PathOk world0.drv.cipPath := by
  intro route h
  have e : encEpath true (world0.drv.cipPath ++ msgRouterPath) true false = .ok [2, 0x20, 2, 0x24, 1] := by rfl
  rw [e] at h
  cases h
  exact ⟨2, [0x20, 2, 0x24, 1], rfl, by decide, by decide⟩

private theorem histCM : ∀ a, SCall.generic a ∈ hist → AvoidsCM a = true := lcsl_shistAvoidsCM_spec hist (by decide)
private theorem histRnd : ∀ rnd, SCall.open rnd ∈ hist → rnd.length = 8 := lcsl_shistRnd8_spec hist (by decide)
private theorem histSize : ∀ a, SCall.generic a ∈ hist → a.connected = true → SizeOk a = true := by
  intro a ha _
  have : a = idn := by
    simp only [hist, List.mem_cons, List.not_mem_nil, or_false, reduceCtorEq, false_or, SCall.generic.injEq] at ha
    exact ha
  subst this
  decide

example : NoEarlyUnitData (srun hookAll world0 hist).net.target.base.log :=
  no_unit_data_before_open_slc hookAll hookAll_ok world0 fresh0 hist histCM

example : FoDiscipline (srun hookAll world0 hist).net.target.base.events :=
  fo_order_slc hookAll hookAll_ok world0 fresh0 hist path0 histRnd histCM

example : let w' := srun hookAll world0 hist
    (w'.drv.hasSock = false ∨ w'.net.tcpOpen = false) → w'.net.target.base.sessions = [] :=
  reachable_idle_slc hookAll hookAll_ok world0 fresh0 hist histCM

example : (openDrv hookAll (closeDrv hookAll (srun hookAll world0 hist)).1 [1, 1, 2, 2, 3, 3, 4, 4]).2 = .ok true :=
  (reopen_after_any_history_slc hookAll hookAll_ok world0 fresh0 hist histCM [1, 1, 2, 2, 3, 3, 4, 4] rfl rfl).1

example : (srun hookAll world0 (hist.take 3 ++ [.close])).drv.session = some 0 :=
  (after_close_driver_slc hookAll world0 (hist.take 3)).2.1

/-- the outcome of the i-th call of a history -/
def outcome (h : List SCall) (i : Nat) : Outcome := (scallStep hookAll (srun hookAll world0 (h.take i)) (h.getD i .close)).2

def isOk : Outcome → Bool
  | .ok => true
  | _ => false

def raisedE (e : Exn) : Outcome → Bool
  | .raised e' => e == e'
  | _ => false

-- the outcomes of the calls of `hist` (evaluation of the model): open, write, read, close, re-open and read return;
-- the read of 200 words raises DataError (byte size 400), the write of an int to two words TypeError (`len(1)`)
#guard ((List.range 11).map fun i => isOk (outcome hist i)) ==
  [true, true, true, true, true, true, true, false, false, true, true]
#guard raisedE .data (outcome hist 7) && raisedE (.foreign "TypeError") (outcome hist 8)
-- after open + write the driver is connected; the read that follows returns what was written (5, True) and T4:1.ACC
#guard (srun hookAll world0 (hist.take 2)).drv.targetIsConnected
#guard (match (slcRead hookAll (srun hookAll world0 (hist.take 2)) [nm "N7:1", nm "N7:2/2", nm "T4:1.ACC"]).2 with
        | .ok [a, b, c] => a.error.isNone && b.error.isNone && c.error.isNone &&
            (match a.value, b.value, c.value with | .int 5, .bool true, .int 300 => true | _, _, _ => false)
        | _ => false)
-- close() ends session and connection at the target, the re-open registers the next session, the read after it opens
-- a new connection and sees the value written before the close()
#guard (srun hookAll world0 (hist.take 4)).net.target.base.sessions == [] &&
       (srun hookAll world0 (hist.take 4)).net.target.base.conns.isEmpty
#guard (srun hookAll world0 (hist.take 5)).drv.session == some 4370 &&
       (srun hookAll world0 (hist.take 6)).drv.targetIsConnected
#guard (match (slcRead hookAll (srun hookAll world0 (hist.take 5)) [nm "N7:1"]).2 with
        | .ok [a] => (match a.value with | .int 5 => true | _ => false)
        | _ => false)
-- connected frames did reach the target (7 Execute-PCCC requests and the identity read), none was rejected
#guard ((srun hookAll world0 hist).net.target.base.events.filter fun e =>
          match e with | .mr true _ _ _ => true | _ => false).length == 8
#guard (srun hookAll world0 hist).net.target.base.log.all fun e =>
  e != .violation "SendUnitData without a registered session" && e != .violation "SendUnitData on a connection that is not open"

-- an SLC read / write of the unopened driver: CommError, nothing sent, the world untouched
example : slcRead hookAll world0 [nm "N7:1"] = (world0, .error .comm) :=
  (slc_unopened_raises_comm hookAll world0 [nm "N7:1"] [] rfl rfl).1
#guard raisedE .comm (scallStep hookAll world0 (.slcRead [nm "N7:1"])).2 &&
       raisedE .comm (scallStep hookAll world0 (.slcWrite [(nm "N7:1", .int 1)])).2 &&
       (scallStep hookAll world0 (.slcRead [nm "N7:1"])).1.net.sent.isEmpty

-- the corner cases of `failures_are_library_slc` are real (on the opened driver): TypeError for a value without
-- len(), KeyError for a dict with too many entries, on an address with an element count
#guard raisedE (.foreign "TypeError") (scallStep hookAll (srun hookAll world0 (hist.take 1)) (.slcWrite [(nm "N7:0{2}", .int 1)])).2
#guard raisedE (.foreign "KeyError") (scallStep hookAll (srun hookAll world0 (hist.take 1))
  (.slcWrite [(nm "N7:0{2}", .dict [(nm "a", .int 1), (nm "b", .int 2), (nm "c", .int 3)])])).2
example : SlcWriteCorner [(nm "N7:0{2}", .int 1)] (.foreign "TypeError") :=
  ⟨nm "N7:0{2}", .int 1,
   { fileType := nm "N", fileNumber := 7, element := 0, subElement := 0, addressField := 2, count := 2, tag := nm "N7:0" },
   List.mem_cons_self, by decide +kernel, by decide, .inr ⟨rfl, rfl, by decide, by decide⟩⟩

/-- C17: `hist` has two reads / writes in a row that raise, and then a write that returns: the budget along the run
    reaches 4 + 2 -/
example : sbudget 0 hist = 8 := by decide
#guard sbudgetR hookAll 0 world0 hist == 6

example : NoSeqRepeat (srun hookAll world0 hist).net.target.base.log :=
  seq_never_repeats_slc_static hookAll hookAll_ok hookAll_quietSeq world0 fresh0 hist histCM histSize (by decide)

-- the budget of 2 per raising call is attained: a write of 65536 `bytes` passes `writeable_value`, draws the
-- transaction id and the sequence count, and fails when the frame is built (DataError): two numbers drawn, nothing sent
#guard (let w := srun hookAll world0 (hist.take 2)
        let r := scallStep hookAll w (.slcWrite [(nm "N7:0", .bytes (List.replicate 65536 0))])
        raisedE .data r.2 && r.1.drv.seqVal == w.drv.seqVal + 2 && r.1.net.sent.length == w.net.sent.length)

/-- the counterexample to the statement without a budget: `n` reads that burn one number each between two connected
    identity reads -/
def ce (n : Nat) : List SCall :=
  [.open [1, 2, 3, 4, 5, 6, 7, 8], .generic idn] ++ List.replicate n (.slcRead [nm "N7:0{200}"]) ++ [.generic idn]

#guard (srun hookAll world0 (ce 65534)).net.target.base.log.contains
  (.violation "sequence count 1 repeated on consecutive connected messages")
#guard (srun hookAll world0 (ce 65533)).net.target.base.log.all fun e =>
  match e with | .violation _ => false | _ => true
-- every hypothesis of `seq_never_repeats_slc` but the budget holds for `ce n`
example : shistAvoidsCM (ce 3) = true := by decide

end SEx

end Pycomm.Cli
