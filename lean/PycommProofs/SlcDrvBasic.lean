/-
  SLCDriver.read / write at the driver level, helper layer 1: the message the driver builds as the reference target
  sees it (message router -> PCCC object -> data table), and the reply frame as `request_status` /
  `_parse_read_reply` see it.
-/
import PycommModel.SlcDriver
import PycommModel.OpsTarget
import PycommProofs.SlcProofsExt
import PycommProofs.RTLemmas
namespace Pycomm.Slc.Drv
open Pycomm Pycomm.Tgt Pycomm.Path Pycomm.Encap Pycomm.Slc

/-! ### the request on its way in -/

/-- the message-router header `_msg_start` begins with: service 0x4B, 2 path words, class 0x67, instance 1 -/
def sdr_mrHeader : Bytes := [0x4B, 0x02, 0x20, 0x67, 0x24, 0x01]

/-- the requestor id of `_msg_start`: length 7, vendor id, serial number -/
def sdr_rid (d : Cli.Drv) : Bytes := [0x07] ++ d.vid ++ d.vsn

theorem sdr_msgStart (d : Cli.Drv) : msgStart d = sdr_mrHeader ++ sdr_rid d := by
  have : Gen.PCCC_PATH.map UInt8.ofNat = [0x67, 0x24, 0x01] := by decide
  simp [msgStart, sdr_mrHeader, sdr_rid, this]

/-- the request the message router parses out of an Execute PCCC message -/
def sdr_req (data : Bytes) : MRReq := { service := 0x4B, path := [.logical 0 0x67, .logical 4 1], data := data }

theorem sdr_parseMR (data : Bytes) : parseMR (sdr_mrHeader ++ data) = some (sdr_req data) := by
  have hp : parsePadded 5 [0x20, 0x67, 0x24, 0x01] = some [.logical 0 0x67, .logical 4 1] := by decide
  have h2 : (0x02 : UInt8).toNat = 2 := by decide
  have h4 : (0x4B : UInt8).toNat = 0x4B := by decide
  simp only [sdr_mrHeader, List.cons_append, List.nil_append, parseMR, parseRequestPath, h2, List.length_cons]
  rw [if_neg (by omega)]
  simp only [List.take_succ_cons, List.take_zero, List.drop_succ_cons, List.drop_zero, hp, Option.map_some, h4, sdr_req]

/-- (routing) a connected Execute PCCC message reaches the PCCC object of the harness hook when the target holds a data
    table; the table is replaced by the one the service leaves -/
theorem sdr_execMR (t : Target Ext) (tbl : Table) (htbl : t.ext.slc = some tbl) (sess : Nat) (cs : Option Nat)
    (data : Bytes) :
    execMR hookAll t sess cs true false [] (sdr_mrHeader ++ data) =
      ({ base := t.base.event (.mr true false (sdr_req data) []),
         ext := { t.ext with slc := some (pcccService tbl data).1 } },
       encMRReply 0x4B (pcccService tbl data).2) := by
  unfold execMR
  rw [sdr_parseMR]
  simp only [sdr_req, classInst, baseObject, hookAll, htbl]

/-- status byte and data of the PCCC reply for an outcome of the data table -/
def sdr_sts {α} : Except Nat α → Nat
  | .ok _ => 0
  | .error e => e

def sdr_data : Except Nat Bytes → Bytes
  | .ok d => d
  | .error _ => []

def sdr_tbl (tbl : Table) : Except Nat Table → Table
  | .ok t' => t'
  | .error _ => tbl

/-- the PCCC reply: requestor id echoed, command + 0x40, STS, transaction id, data -/
def sdr_pcccReply (rid tns : Bytes) (sts : Nat) (data : Bytes) : MRReply :=
  { data := rid ++ [UInt8.ofNat (0x0F + 0x40), UInt8.ofNat sts] ++ tns ++ data }

theorem sdr_u8at_append_right (a b : Bytes) (i : Nat) (h : a.length ≤ i) : u8at (a ++ b) i = u8at b (i - a.length) := by
  unfold u8at
  rw [List.getD_eq_getElem?_getD, List.getD_eq_getElem?_getD, List.getElem?_append_right h]

theorem sdr_len7 (l : Bytes) (h : l.length = 7) : ∃ a b c d e f g, l = [a, b, c, d, e, f, g] := by
  match l, h with
  | [a, b, c, d, e, f, g], _ => exact ⟨a, b, c, d, e, f, g, rfl⟩

theorem sdr_len2 (l : Bytes) (h : l.length = 2) : ∃ a b, l = [a, b] := by
  match l, h with
  | [a, b], _ => exact ⟨a, b, rfl⟩

/-- the pieces `pcccService` cuts out of a request `rid ++ [CMD, STS] ++ tns ++ [FNC] ++ rest` -/
theorem sdr_pccc_parts (rid tns : Bytes) (fnc : UInt8) (rest : Bytes) (hr : rid.length = 7) (ht : tns.length = 2)
    (h0 : rid.head? = some 0x07) :
    12 ≤ (rid ++ [0x0F, 0x00] ++ tns ++ [fnc] ++ rest).length ∧
      u8at (rid ++ [0x0F, 0x00] ++ tns ++ [fnc] ++ rest) 0 = 7 ∧
      (rid ++ [0x0F, 0x00] ++ tns ++ [fnc] ++ rest).take 7 = rid ∧
      u8at (rid ++ [0x0F, 0x00] ++ tns ++ [fnc] ++ rest) 7 = 0x0F ∧
      u8at (rid ++ [0x0F, 0x00] ++ tns ++ [fnc] ++ rest) 8 = 0 ∧
      ((rid ++ [0x0F, 0x00] ++ tns ++ [fnc] ++ rest).drop 9).take 2 = tns ∧
      u8at (rid ++ [0x0F, 0x00] ++ tns ++ [fnc] ++ rest) 11 = fnc.toNat ∧
      (rid ++ [0x0F, 0x00] ++ tns ++ [fnc] ++ rest).drop 12 = rest := by
  obtain ⟨r0, r1, r2, r3, r4, r5, r6, rfl⟩ := sdr_len7 rid hr
  obtain ⟨t0, t1, rfl⟩ := sdr_len2 tns ht
  simp only [List.head?_cons, Option.some.injEq] at h0
  subst h0
  refine ⟨by simp, by simp [u8at], by simp, by simp [u8at], by simp [u8at], by simp, by simp [u8at], by simp⟩

/-- (service, read) the PCCC object serves a typed-read request by looking the address fields up in the data table:
    exactly `targetRead` of SlcExt; the table is unchanged -/
theorem sdr_pccc_read (tbl : Table) (rid tns fields : Bytes) (hr : rid.length = 7) (ht : tns.length = 2)
    (h0 : rid.head? = some 0x07) :
    pcccService tbl (rid ++ [0x0F, 0x00] ++ tns ++ [0xA2] ++ fields) =
      (tbl, sdr_pcccReply rid tns (sdr_sts (targetRead tbl fields)) (sdr_data (targetRead tbl fields))) := by
  obtain ⟨h1, h2, h3, h4, h5, h6, h7, h8⟩ := sdr_pccc_parts rid tns 0xA2 fields hr ht h0
  have hA2 : (0xA2 : UInt8).toNat = 0xA2 := by decide
  unfold pcccService
  rw [if_neg (by omega), if_neg (by rw [h2]; decide)]
  simp only [h3, h4, h5, h6, h7, h8, hA2]
  rw [if_neg (by decide)]
  unfold targetRead sdr_pcccReply
  cases hd : decodeAddress fields with
  | none => simp [sdr_sts, sdr_data]
  | some r =>
    obtain ⟨size, fnum, ftype, elem, sub, rest⟩ := r
    simp only [if_true]
    by_cases hrest : rest = []
    · subst hrest
      simp only [ne_eq, not_true_eq_false, if_false]
      cases typedRead tbl size fnum ftype elem sub <;> simp [sdr_sts, sdr_data]
    · simp [hrest, sdr_sts, sdr_data]

/-- (service, write) … and a masked-write request by `targetWrite` of SlcExt -/
theorem sdr_pccc_write (tbl : Table) (rid tns req : Bytes) (hr : rid.length = 7) (ht : tns.length = 2)
    (h0 : rid.head? = some 0x07) :
    pcccService tbl (rid ++ [0x0F, 0x00] ++ tns ++ [0xAB] ++ req) =
      (sdr_tbl tbl (targetWrite tbl req), sdr_pcccReply rid tns (sdr_sts (targetWrite tbl req)) []) := by
  obtain ⟨h1, h2, h3, h4, h5, h6, h7, h8⟩ := sdr_pccc_parts rid tns 0xAB req hr ht h0
  have hAB : (0xAB : UInt8).toNat = 0xAB := by decide
  unfold pcccService
  rw [if_neg (by omega), if_neg (by rw [h2]; decide)]
  simp only [h3, h4, h5, h6, h7, h8, hAB]
  rw [if_neg (by decide)]
  unfold targetWrite sdr_pcccReply
  cases hd : decodeAddress req with
  | none => simp [sdr_sts, sdr_tbl]
  | some r =>
    obtain ⟨size, fnum, ftype, elem, sub, rest⟩ := r
    simp only
    rw [if_neg (by decide), if_pos (by decide)]
    by_cases hrest : rest.length < 2
    · simp [hrest, sdr_sts, sdr_tbl]
    · simp only [hrest, if_false]
      cases maskedWrite tbl size fnum ftype elem sub (leVal (rest.take 2)) (rest.drop 2) <;> simp [sdr_sts, sdr_tbl]

/-! ### the reply on its way back -/

/-- the raw reply frame of a connected Execute PCCC exchange -/
def sdr_rawReply (sess : Nat) (ctx : Bytes) (toId seq : Nat) (r : MRReply) : Bytes :=
  frame CMD_SEND_UNIT sess 0 ctx (cpfReplyConnected toId seq (encMRReply 0x4B r))

/-- byte 58 of the raw reply is the PCCC STS byte, the data start at byte 61 (`SLC_REPLY_START`) -/
theorem sdr_reply_layout (sess : Nat) (ctx : Bytes) (toId seq : Nat) (rid tns : Bytes) (sts : Nat) (data : Bytes)
    (hc : ctx.length = 8) (hr : rid.length = 7) (ht : tns.length = 2) :
    (sdr_rawReply sess ctx toId seq (sdr_pcccReply rid tns sts data))[58]? = some (UInt8.ofNat sts) ∧
    (sdr_rawReply sess ctx toId seq (sdr_pcccReply rid tns sts data)).drop Gen.SLC_REPLY_START = data := by
  have hS : Gen.SLC_REPLY_START = 61 := rfl
  -- everything in front of the STS byte
  let P : Bytes := encHeader CMD_SEND_UNIT (cpfReplyConnected toId seq (encMRReply 0x4B (sdr_pcccReply rid tns sts data))).length
      sess 0 ctx ++ (le 4 0 ++ le 2 0 ++ le 2 2 ++ le 2 ITEM_CONNECTION ++ le 2 4 ++ le 4 toId ++ le 2 ITEM_CONNECTED_DATA ++
      le 2 ((encMRReply 0x4B (sdr_pcccReply rid tns sts data)).length + 2) ++ le 2 seq) ++
      [UInt8.ofNat (0x4B % 128 + 128), 0, UInt8.ofNat 0, UInt8.ofNat 0] ++ rid ++ [UInt8.ofNat (0x0F + 0x40)]
  have hP : P.length = 58 := by
    simp only [P, encHeader, le, List.length_append, RT.leBytes_length, hc, hr, List.length_cons, List.length_nil]
  have e : sdr_rawReply sess ctx toId seq (sdr_pcccReply rid tns sts data) = P ++ (UInt8.ofNat sts :: (tns ++ data)) := by
    simp only [P, sdr_rawReply, frame, cpfReplyConnected, encMRReply, sdr_pcccReply, List.map_nil, List.flatten_nil,
      List.length_nil, List.append_assoc, List.cons_append, List.nil_append, List.append_nil]
  rw [e, hS]
  constructor
  · rw [List.getElem?_append_right (by omega), hP]
    rfl
  · rw [List.drop_append, List.drop_of_length_le (by omega), hP, List.nil_append]
    show List.drop 2 (tns ++ data) = data
    rw [List.drop_append, List.drop_of_length_le (by omega), ht, List.nil_append]
    rfl

/-- `request_status` of a reply whose STS byte is 0: no error -/
theorem sdr_requestStatus_ok (raw : Bytes) (h : raw[58]? = some (UInt8.ofNat 0)) : requestStatus raw = none := by
  unfold requestStatus
  rw [h]
  rfl

/-- `request_status` of a reply whose STS byte is 0x10 / 0x50 (what the data table answers for an unknown file, a wrong
    file type, a bad size / an address beyond the file): the text of `PCCC_ERROR_CODE` -/
theorem sdr_requestStatus_err (raw : Bytes) (e : Nat) (he : e = 0x10 ∨ e = 0x50) (h : raw[58]? = some (UInt8.ofNat e)) :
    requestStatus raw = some ((Status.lookupNat e Gen.pcccErrorCode).getD unknownStatus) ∧
      (Status.lookupNat e Gen.pcccErrorCode).isSome = true := by
  unfold requestStatus
  rw [h]
  rcases he with rfl | rfl
  · exact ⟨rfl, by decide⟩
  · exact ⟨rfl, by decide⟩

end Pycomm.Slc.Drv
