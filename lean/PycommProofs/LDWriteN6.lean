/-
  LogixDriver.write of ANY number of scalar tags: what the project after the sequence of whole-symbol writes
  (`ldwn_writtenAll`) is — every written symbol holds the bytes of the LAST value requested for it, every other symbol
  is untouched, one write-log entry per request in request order.
-/
import PycommProofs.LDWriteN5
namespace Pycomm.Lgx.Drv
open Pycomm Pycomm.Tgt Pycomm.Path Pycomm.Reply Pycomm.Encap Pycomm.Lgx Pycomm.Lgx.E2E

/-- the project after the scalar writes, applied in order -/
def ldwn_writtenAll (p : Project) : List ldwn_Scalar → Project
  | [] => p
  | x :: rest => ldwn_writtenAll (written p (ldr_loc x.s x.c) 0 x.bytes) rest

/-- the scalar writes among the requests, in order -/
def ldwn_goods : List ldwn_Req → List ldwn_Scalar
  | [] => []
  | .scalar x :: rest => x :: ldwn_goods rest
  | .oob _ :: rest => ldwn_goods rest

theorem ldwn_apply_goods (reqs : List ldwn_Req) : ∀ p, ldwn_apply p (reqs.map (·.beh)) = ldwn_writtenAll p (ldwn_goods reqs) := by
  induction reqs with
  | nil => intro p; rfl
  | cons r rest ih =>
    intro p
    cases r with
    | scalar x => exact ih _
    | oob x => exact ih _

theorem ldwn_goods_scalars (xs : List ldwn_Scalar) : ldwn_goods (xs.map .scalar) = xs := by
  induction xs with
  | nil => rfl
  | cons x rest ih => simp [ldwn_goods, ih]

/-- the last request for the symbol with instance id `inst` -/
def ldwn_lastFor (xs : List ldwn_Scalar) (inst : Nat) : Option ldwn_Scalar := xs.reverse.find? (·.s.inst == inst)

/-- what the requests make of a symbol: the memory replaced by the bytes of the last request for it -/
def ldwn_symAfter (xs : List ldwn_Scalar) (y : Symbol) : Symbol :=
  match ldwn_lastFor xs y.inst with
  | some x => { y with mem := x.bytes }
  | none => y

/-- one write step on one symbol -/
def ldwn_stepSym (y : Symbol) (x : ldwn_Scalar) : Symbol :=
  if y.inst == x.s.inst then { y with mem := splice y.mem 0 x.bytes } else y

theorem ldwn_written_step (p : Project) (x : ldwn_Scalar) :
    written p (ldr_loc x.s x.c) 0 x.bytes =
      { p with controller := p.controller.map fun y => ldwn_stepSym y x,
               writeLog := p.writeLog ++ [(x.s.inst, 0, x.bytes.length)] } := rfl

theorem ldwn_writtenAll_fold (xs : List ldwn_Scalar) : ∀ p : Project,
    ldwn_writtenAll p xs =
      { p with controller := p.controller.map fun y => xs.foldl ldwn_stepSym y,
               writeLog := p.writeLog ++ xs.map fun x => (x.s.inst, 0, x.bytes.length) } := by
  induction xs with
  | nil => intro p; simp [ldwn_writtenAll]
  | cons x rest ih =>
    intro p
    rw [ldwn_writtenAll, ih, ldwn_written_step]
    simp [List.map_map, Function.comp_def, List.append_assoc]

theorem ldwn_fold_sym (xs : List ldwn_Scalar) : ∀ y : Symbol,
    (∀ x ∈ xs, x.s.inst = y.inst → x.bytes.length = y.mem.length) → xs.foldl ldwn_stepSym y = ldwn_symAfter xs y := by
  induction xs with
  | nil => intro y _; rfl
  | cons x rest ih =>
    intro y h
    rw [List.foldl_cons]
    have hx := h x List.mem_cons_self
    by_cases hi : (y.inst == x.s.inst) = true
    · have hie : x.s.inst = y.inst := by simpa using (beq_iff_eq.1 hi).symm
      have hstep : ldwn_stepSym y x = { y with mem := x.bytes } := by
        unfold ldwn_stepSym
        rw [if_pos hi, ldw_splice_whole _ _ (hx hie)]
      rw [hstep, ih { y with mem := x.bytes } (by
        intro x' hx' he
        show x'.bytes.length = x.bytes.length
        rw [h x' (List.mem_cons_of_mem _ hx') he, hx hie])]
      unfold ldwn_symAfter ldwn_lastFor
      rw [List.reverse_cons, List.find?_append]
      have hxi : (x.s.inst == y.inst) = true := by simpa using hie
      cases hf : List.find? (fun z : ldwn_Scalar => z.s.inst == y.inst) rest.reverse with
      | none => simp [hxi]
      | some z => simp
    · have hstep : ldwn_stepSym y x = y := by
        unfold ldwn_stepSym; rw [if_neg hi]
      rw [hstep, ih y (fun x' hx' => h x' (List.mem_cons_of_mem _ hx'))]
      unfold ldwn_symAfter ldwn_lastFor
      rw [List.reverse_cons, List.find?_append]
      have hxi : (x.s.inst == y.inst) = false := by
        cases hb : (x.s.inst == y.inst) with
        | false => rfl
        | true => exact absurd (by simpa using (beq_iff_eq.1 hb).symm) hi
      cases hf : List.find? (fun z : ldwn_Scalar => z.s.inst == y.inst) rest.reverse with
      | none => simp [hxi]
      | some z => simp

/-- the project after the writes, symbol by symbol -/
theorem ldwn_writtenAll_eq (p : Project) (xs : List ldwn_Scalar)
    (huniqI : ∀ x ∈ xs, ∀ s' ∈ p.controller, s'.inst = x.s.inst → s' = x.s)
    (hlen : ∀ x ∈ xs, x.bytes.length = x.s.mem.length) :
    ldwn_writtenAll p xs =
      { p with controller := p.controller.map (ldwn_symAfter xs),
               writeLog := p.writeLog ++ xs.map fun x => (x.s.inst, 0, x.bytes.length) } := by
  rw [ldwn_writtenAll_fold]
  congr 1
  apply List.map_congr_left
  intro y hy
  apply ldwn_fold_sym
  intro x hx he
  rw [huniqI x hx y hy he.symm]
  exact hlen x hx

/-- with pairwise distinct symbols the last request for a symbol is THE request for it -/
theorem ldwn_lastFor_nodup (xs : List ldwn_Scalar) (hnd : (xs.map (·.s.inst)).Nodup) (x : ldwn_Scalar) (hx : x ∈ xs) :
    ldwn_lastFor xs x.s.inst = some x := by
  unfold ldwn_lastFor
  induction xs with
  | nil => cases hx
  | cons a rest ih =>
    simp only [List.map_cons, List.nodup_cons] at hnd
    rw [List.reverse_cons, List.find?_append]
    rcases List.mem_cons.1 hx with rfl | hx'
    · have : List.find? (fun z : ldwn_Scalar => z.s.inst == x.s.inst) rest.reverse = none := by
        rw [List.find?_eq_none]
        intro z hz hzi
        apply hnd.1
        have : z.s.inst = x.s.inst := by simpa using hzi
        rw [← this]
        exact List.mem_map_of_mem (f := fun z : ldwn_Scalar => z.s.inst) (List.mem_reverse.1 hz)
      rw [this]; simp
    · rw [ih hnd.2 hx']; rfl

theorem ldwn_lastFor_none (xs : List ldwn_Scalar) (inst : Nat) (h : ∀ x ∈ xs, x.s.inst ≠ inst) : ldwn_lastFor xs inst = none := by
  unfold ldwn_lastFor
  rw [List.find?_eq_none]
  intro z hz hzi
  exact h z (List.mem_reverse.1 hz) (by simpa using hzi)

theorem ldwn_lastFor_some (xs : List ldwn_Scalar) (inst : Nat) (x : ldwn_Scalar) (h : ldwn_lastFor xs inst = some x) :
    x ∈ xs ∧ x.s.inst = inst := by
  unfold ldwn_lastFor at h
  exact ⟨List.mem_reverse.1 (List.mem_of_find?_eq_some h), by simpa using List.find?_some h⟩

/-! ### the number of packets, in terms of the grouping kernel and the accounted sizes -/

/-- the items of the driver's grouping loop for requests of the given accounted sizes, request ids `k, k + 1, …` -/
def ldwn_planItems (k : Nat) : List Nat → List K.Item
  | [] => []
  | sz :: rest => { id := k, error := false, size := sz } :: ldwn_planItems (k + 1) rest

theorem ldwn_reqs_planItems (its : List ldwn_Item) : ∀ d k,
    (ldwn_reqs d k its).map ldwn_planItem = ldwn_planItems k (its.map fun it => ldx_wlen it.info it.path it.value) := by
  induction its with
  | nil => intro d k; rfl
  | cons it rest ih => intro d k; simp only [ldwn_reqs, List.map_cons, ldwn_planItems, ih]; rfl

theorem ldwn_reqs_groupSize (its : List ldwn_Item) : ∀ d k,
    ldwn_groupSize (ldwn_reqs d k its) = (its.map fun it => ldx_wlen it.info it.path it.value).sum := by
  induction its with
  | nil => intro d k; rfl
  | cons it rest ih =>
    intro d k
    have := ih d.nextSeq.2 (k + 1)
    unfold ldwn_groupSize at this ⊢
    simp only [ldwn_reqs, List.map_cons, List.sum_cons, this]
    rfl

/-- the number of packets is the number of groups the grouping kernel `K.plan` forms from the accounted sizes -/
theorem ldwn_packets_eq (cfg : Cfg) (d : Cli.Drv) (reqs : List ldwn_Req) :
    ldwn_packets cfg d reqs = (K.plan d.connectionSize (ldwn_planItems 0 (reqs.map (·.acct cfg)))).groups.length := by
  unfold ldwn_packets ldwn_groups
  rw [List.length_map, ldwn_reqs_planItems, List.map_map]
  rfl

/-- everything fits one packet by the driver's accounting: one group holding all requests -/
theorem ldwn_groups_all (cfg : Cfg) (d : Cli.Drv) (reqs : List ldwn_Req) (hne : reqs ≠ [])
    (hfit : K.OVERHEAD + (reqs.map (·.acct cfg)).sum ≤ d.connectionSize) :
    ldwn_groups d.connectionSize (ldwn_reqs d 0 (reqs.map (·.item cfg))) = [ldwn_reqs d 0 (reqs.map (·.item cfg))] := by
  apply ldwn_groups_one
  · intro h
    have := congrArg List.length h
    rw [ldwn_reqs_length, List.length_map] at this
    exact hne (List.length_eq_zero_iff.1 this)
  · exact ldwn_reqs_nodup _ _ _
  · rw [ldwn_reqs_groupSize, List.map_map]
    exact hfit

theorem ldwn_acct_le_sum (cfg : Cfg) (reqs : List ldwn_Req) (r : ldwn_Req) (hr : r ∈ reqs) :
    r.acct cfg ≤ (reqs.map (·.acct cfg)).sum :=
  ldwn_le_sum _ _ (List.mem_map_of_mem hr)

end Pycomm.Lgx.Drv
