/-
  LogixDriver.open(), nested structure definitions, part 3: `_create_tag` / `_isolate_user_tags` for a scope
  (controller or program) whose user tags are elementary or of structure types of any nesting depth, with the
  template uploads and the two caches threaded through: the definitions are those of `Drv.userTags`.
-/
import PycommProofs.LOpenN2
namespace Pycomm.Lgx.Opn
open Pycomm Pycomm.Tgt Pycomm.Path Pycomm.Reply Pycomm.Encap Pycomm.Lgx Pycomm.EP Pycomm.Lgx.E2E Pycomm.Lgx.Drv

/-- a structure type the upload handles: its data type is defined within the nesting depth the client follows
    (`DT_FUEL` = 64 levels), and its template and all templates it contains are well-formed (`lon_WfT`) -/
def lon_NestedTemplate (p : Project) (tid : Nat) : Prop :=
  (dataTypeOf p DT_FUEL tid).isSome = true ∧ lon_WfNested p DT_FUEL tid

/-- `_create_tag` of a structure symbol: the data type comes from the cache or is uploaded with everything it
    contains (and cached); the definition is the one `Drv.createTag` computes -/
theorem lon_createTag_struct (st : LState) (sess : Nat) (cidb : Bytes) (size : Nat) (S : St Ext) (s : Symbol) (wa : Bool)
    (i : TagInfo) (hg : lon_Good st sess cidb size S) (hsize : 26 ≤ size)
    (hs : s.symbolType / 32768 % 2 = 1) (hn : lon_NestedTemplate st.proj (s.symbolType % 4096))
    (hc : Drv.createTag st.proj s = some i) :
    ∃ S', createTag hookAll S (Up.recOfSymbol wa s) = (S', .ok (i, lo_metaAll wa s)) ∧
      lon_Good st sess cidb size S' ∧ lon_Step st DT_FUEL S S' ∧ S'.l.info = S.l.info := by
  have h1 : (K.decodeTypeWord s.symbolType).isStruct = true := by simp [K.decodeTypeWord, hs]
  have h2 : (K.decodeTypeWord (Up.recOfSymbol wa s).symbolType).isStruct = true := h1
  -- what `Drv.createTag` did
  obtain ⟨dt, hdt, hi⟩ : ∃ dt : DT, dataTypeOf st.proj (st.proj.templates.length + 1) (s.symbolType % 4096) = some dt ∧
      i = .mk { tagType := .struct, dataTypeName := dt.1.name,
                ty := (if s.symbolType / 8192 % 4 ≠ 0 then
                  .arr (.fixed ((((s.dims ++ [0, 0, 0]).take 3).take (s.symbolType / 8192 % 4)).foldl (· * ·) 1)) dt.2.1
                  else dt.2.1),
                dim := s.symbolType / 8192 % 4, dimensions := (s.dims ++ [0, 0, 0]).take 3,
                instanceId := some s.inst, struct := some dt.1 } dt.2.2 := by
    unfold Drv.createTag at hc
    simp only [h1, if_true] at hc
    simp only [K.decodeTypeWord] at hc
    cases hd : dataTypeOf st.proj (st.proj.templates.length + 1) (s.symbolType % 4096) with
    | none => rw [hd] at hc; cases hc
    | some dt =>
      rw [hd] at hc
      obtain ⟨si, t, ms⟩ := dt
      simp only [Option.some.injEq] at hc
      exact ⟨(si, t, ms), rfl, hc.symm⟩
  -- the same data type at the client's depth
  obtain ⟨hsome, hwn⟩ := hn
  have hdt64 : dataTypeOf st.proj DT_FUEL (s.symbolType % 4096) = some dt := by
    cases hd : dataTypeOf st.proj DT_FUEL (s.symbolType % 4096) with
    | none => rw [hd] at hsome; cases hsome
    | some d => rw [lon_dataTypeOf_unique _ _ _ _ _ _ hd hdt]
  have hmeta : lo_metaAll wa s = { lo_metaOf wa s with templateInstanceId := some (s.symbolType % 4096), bitPosition := none } := by
    unfold lo_metaAll; rw [if_pos hs]
  obtain ⟨S', hgd, _, hinv', hstep, hinfo⟩ := lon_getDataType st sess cidb size hsize DT_FUEL DT_FUEL (Nat.le_refl _) S
    (s.symbolType % 4096) s.symbolType dt (hg.inv _) hdt64 hwn (by omega) (by omega)
  refine ⟨S', ?_, hg.of_step hstep hinv'.healthy, hstep, hinfo⟩
  unfold createTag
  simp only [h2, if_true]
  simp only [Up.recOfSymbol, lo_dims3, K.decodeTypeWord]
  rw [hgd]
  obtain ⟨si, t, ms⟩ := dt
  dsimp only
  rw [hi, hmeta]
  rfl

/-- the name `_isolate_user_tags` gives a tag of the scope -/
def lon_scopePfx (program : Option Name) : Name :=
  match program with
  | some p => Opn.nm "Program:" ++ p ++ [46]
  | none => []

/-- `_isolate_user_tags` for a scope (`program`: the name as `get_tag_list` passes it) on the uploaded records of symbols
    whose user tags are elementary or of nested structure types, when `Drv.userTags` succeeds: the tag definitions are
    exactly those of `Drv.userTags` with the scope's prefix, each with its `lo_metaAll`; the invariant of the state is
    kept; `_info` went through the bookkeeping of every record -/
theorem lon_isolate (st : LState) (sess : Nat) (cidb : Bytes) (size : Nat) (hsize : 26 ≤ size) (wa : Bool)
    (program : Option Name) :
    ∀ (syms : List Symbol) (S : St Ext) (ys : List (Name × TagInfo)),
    lon_Good st sess cidb size S →
    (∀ s ∈ syms, K.keepSymbol s.name s.symbolType = true → s.symbolType / 32768 % 2 = 1 →
      lon_NestedTemplate st.proj (s.symbolType % 4096)) →
    Drv.userTags st.proj (lon_scopePfx program) syms = some ys →
    ∃ S' xs, isolateUserTags hookAll program S (syms.map (Up.recOfSymbol wa)) = (S', .ok xs) ∧
      xs.map (fun x => (x.1, x.2.1)) = ys ∧
      xs.map (fun x => (x.1, x.2.2)) =
        (syms.filter fun s => K.keepSymbol s.name s.symbolType).map (fun s => (lon_scopePfx program ++ s.name, lo_metaAll wa s)) ∧
      lon_Good st sess cidb size S' ∧ lon_Step st DT_FUEL S S' ∧
      S'.l.info = syms.foldl (fun info s => noteSymbol program info (Up.recOfSymbol wa s)) S.l.info := by
  intro syms
  induction syms with
  | nil =>
    intro S ys hg _ hy
    simp only [Drv.userTags, List.filter_nil, List.mapM_nil, Option.pure_def, Option.some.injEq] at hy
    subst hy
    exact ⟨S, [], rfl, rfl, rfl, hg, lon_Step.refl st _ S hg.logix, rfl⟩
  | cons s syms ih =>
    intro S ys hg hfl hy
    have hfl' : ∀ s' ∈ syms, K.keepSymbol s'.name s'.symbolType = true → s'.symbolType / 32768 % 2 = 1 →
        lon_NestedTemplate st.proj (s'.symbolType % 4096) := fun s' hs' => hfl s' (List.mem_cons_of_mem _ hs')
    rw [List.map_cons]
    unfold isolateUserTags
    have hrn : (Up.recOfSymbol wa s).name = s.name := rfl
    have hrt : (Up.recOfSymbol wa s).symbolType = s.symbolType := rfl
    rw [hrn, hrt]
    -- the `_info` bookkeeping does not touch what the invariant talks about
    have hg0 : lon_Good st sess cidb size { S with l := { S.l with info := noteSymbol program S.l.info (Up.recOfSymbol wa s) } } :=
      ⟨hg.healthy, hg.logix, hg.cacheU, hg.cacheS⟩
    have hs0 : lon_Step st DT_FUEL S { S with l := { S.l with info := noteSymbol program S.l.info (Up.recOfSymbol wa s) } } :=
      ⟨⟨lo_SameDrv.refl _, ⟨[], by simp⟩, rfl, rfl, rfl, rfl, rfl⟩, fun _ => Or.inl ⟨rfl, rfl⟩, lon_Count.refl st S hg.logix⟩
    cases hk : K.keepSymbol s.name s.symbolType with
    | false =>
      have hy' : Drv.userTags st.proj (lon_scopePfx program) syms = some ys := by
        unfold Drv.userTags at hy ⊢
        rw [List.filter_cons, hk] at hy
        exact hy
      simp only [Bool.not_false, if_true]
      obtain ⟨S', xs, h1, h2, h3, hg', hs', hi'⟩ := ih _ ys hg0 hfl' hy'
      refine ⟨S', xs, h1, h2, ?_, hg', lon_Step.trans hs0 hs', ?_⟩
      · rw [h3, List.filter_cons, hk]
        rfl
      · rw [hi', List.foldl_cons]
    | true =>
      simp only [Bool.not_true, Bool.false_eq_true, if_false]
      unfold Drv.userTags at hy
      rw [List.filter_cons, hk] at hy
      simp only [if_true] at hy
      rw [List.mapM_cons] at hy
      cases hc : Drv.createTag st.proj s with
      | none => rw [hc] at hy; cases hy
      | some i =>
        cases hr : (syms.filter fun s => K.keepSymbol s.name s.symbolType).mapM
            (fun s => (Drv.createTag st.proj s).map fun i => (lon_scopePfx program ++ s.name, i)) with
        | none => rw [hc, hr] at hy; cases hy
        | some bs =>
          rw [hc, hr] at hy
          simp only [Option.map_some, Option.bind_eq_bind, Option.bind_some, Option.pure_def,
            Option.some.injEq] at hy
          subst hy
          -- `_create_tag`
          obtain ⟨S1, hct, hg1, hs1, hi1⟩ : ∃ S1, createTag hookAll
              { S with l := { S.l with info := noteSymbol program S.l.info (Up.recOfSymbol wa s) } } (Up.recOfSymbol wa s) =
                (S1, .ok (i, lo_metaAll wa s)) ∧ lon_Good st sess cidb size S1 ∧
              lon_Step st DT_FUEL { S with l := { S.l with info := noteSymbol program S.l.info (Up.recOfSymbol wa s) } } S1 ∧
              S1.l.info = noteSymbol program S.l.info (Up.recOfSymbol wa s) := by
            by_cases hst : s.symbolType / 32768 % 2 = 1
            · exact lon_createTag_struct st sess cidb size _ s wa i hg0 hsize hst (hfl s List.mem_cons_self hk hst) hc
            · have hns : s.symbolType / 32768 % 2 = 0 := by omega
              refine ⟨_, ?_, hg0, lon_Step.refl st _ _ hg0.logix, rfl⟩
              rw [lo_createTag_atomic hookAll _ st.proj s wa hns, hc]
              unfold lo_metaAll
              rw [if_neg hst]
          rw [hct]
          dsimp only
          obtain ⟨S', xs, h1, h2, h3, hg', hs', hi'⟩ := ih S1 bs hg1 hfl' hr
          rw [h1]
          refine ⟨S', (lon_scopePfx program ++ s.name, i, lo_metaAll wa s) :: xs, ?_, ?_, ?_, hg',
            lon_Step.trans hs0 (lon_Step.trans hs1 hs'), ?_⟩
          · cases program <;> rfl
          · rw [List.map_cons, h2]
          · rw [List.map_cons, h3, List.filter_cons, hk]
            rfl
          · rw [hi', hi1, List.foldl_cons]

end Pycomm.Lgx.Opn
