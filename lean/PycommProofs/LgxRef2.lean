/-
  Refinement of histories of `LogixDriver.read` / `LogixDriver.write`: the one-step lemmas in refinement form
  (`lgrf_read_step`, `lgrf_write_step`: re-packagings of `read_mixed_e2e` / `write_mixed_e2e` whose post-condition is the
  pre-condition of the next step) and the induction over the history (`lgrf_run_refines`).
-/
import PycommProofs.LgxRef6
namespace Pycomm.Lgx.Drv
open Pycomm Pycomm.Tgt Pycomm.Path Pycomm.Reply Pycomm.Encap Pycomm.Lgx Pycomm.Lgx.E2E

/-- the writes of a call keep the symbols' names -/
theorem lgrf_names_applyAll (p : Project) (ws : List ldwx_Wr)
    (h : ∀ s' ∈ p.controller, ∀ ch ∈ s'.name, ch < 256) :
    ∀ s' ∈ (ldwx_applyAll p ws).controller, ∀ ch ∈ s'.name, ch < 256 := by
  rw [ldwx_applyAll_eq]
  intro s' hs'
  obtain ⟨y, hy, rfl⟩ := List.mem_map.1 hs'
  rw [(ldwx_symAfter_shape ws y).2.1]
  exact h y hy

theorem lgrf_adv_one (d : Cli.Drv) : d.nextSeq.2.connectionSize = d.connectionSize :=
  ldrn_adv_connectionSize 1 d

/-- one `read` call: from a world in the invariant with memory `p`, under `lgrf_OpOk`, the driver returns exactly the
    Tags of `lgrf_specRead p` and leaves a world in the invariant with the SAME memory; of the controller's Logix state
    only the schedule counter moves -/
theorem lgrf_read_step (cfg : Cfg) (sess : Nat) (cidb : Bytes) (C : Nat) (w : Cli.World Ext) (p : Project)
    (its : List ldmx_Item) (hmicro : cfg.micro800 = false)
    (hinv : lgrf_Inv sess cidb C w p) (hok : lgrf_OpOk cfg C p (.read its)) :
    ∃ w', read hookAll cfg w (its.map (·.request)) = (w', .ok (lgrf_specRead p its)) ∧
      lgrf_Inv sess cidb C w' p ∧
      (∀ st, w.net.target.ext.logix = some st →
        w'.net.target.ext = { w.net.target.ext with logix := some { st with ctr := st.ctr + (its.map (·.served)).sum } }) := by
  obtain ⟨⟨conn, hw, hCT⟩, ⟨st, hst, hp⟩, hsize, hmax, hnames⟩ := hinv
  subst hp
  obtain ⟨hoks, hcase⟩ := hok
  have hok' : ∀ it ∈ its.map (lgrf_atR st.proj), it.Ok cfg st := by
    intro it hit
    obtain ⟨it0, h0, rfl⟩ := List.mem_map.1 hit
    exact lgrf_ok_congr cfg { proj := st.proj } st rfl _ (hoks it0 h0)
  have hreq : (its.map (lgrf_atR st.proj)).map (·.request) = its.map (·.request) := by
    rw [List.map_map]; apply List.map_congr_left; intro it _; exact lgrf_atR_request st.proj it
  have hout : (its.map (lgrf_atR st.proj)).map (·.out) = lgrf_specRead st.proj its := by
    unfold lgrf_specRead; rw [List.map_map]; rfl
  have hsv : (its.map (lgrf_atR st.proj)).map (·.served) = its.map (·.served) := by
    rw [List.map_map]; apply List.map_congr_left; intro it _; exact lgrf_atR_served st.proj it
  rcases hcase with ⟨hn, hfit⟩ | ⟨it, rfl, h1⟩
  · have hfit' : ∀ it ∈ its.map (lgrf_atR st.proj), it.estimate cfg + K.OVERHEAD ≤ w.drv.connectionSize := by
      intro it hit
      obtain ⟨it0, h0, rfl⟩ := List.mem_map.1 hit
      rw [lgrf_atR_estimate, hsize]
      exact hfit it0 h0
    obtain ⟨w', frms, hread, _, _, hd, _, _, hext, hh⟩ := read_mixed_e2e cfg w sess cidb conn st (its.map (lgrf_atR st.proj)) hw
      hst hmicro hnames (by rw [List.length_map]; exact hn) hok' hfit' (by rw [hsize]; exact hCT) (by rw [hsize]; exact hmax)
    rw [hreq, hout] at hread
    rw [hsv] at hext
    refine ⟨w', hread, ⟨⟨_, hh, hCT⟩, ⟨{ st with ctr := st.ctr + (its.map (·.served)).sum }, by rw [hext], rfl⟩, ?_, hmax,
      hnames⟩, ?_⟩
    · rw [hd, ldrn_adv_connectionSize]; exact hsize
    · intro st2 hst2
      rw [hst] at hst2
      cases hst2
      exact hext
  · have h1' : lgrf_single1R w.drv.connectionSize (lgrf_atR st.proj it) := by
      rw [lgrf_atR_single1R, hsize]; exact h1
    obtain ⟨w', hread, hd, hext, hh⟩ := lgrf_read_single cfg w sess cidb conn st (lgrf_atR st.proj it) hw hst hnames
      (hok' _ (List.mem_map_of_mem List.mem_cons_self)) h1' (by rw [hsize]; exact hCT)
    have hs1 : it.served = 1 := by
      cases it <;> first | rfl | exact absurd h1 id
    rw [lgrf_atR_request] at hread
    refine ⟨w', hread, ⟨⟨_, hh, hCT⟩, ⟨{ st with ctr := st.ctr + 1 }, by rw [hext], rfl⟩, ?_, hmax, hnames⟩, ?_⟩
    · rw [hd, lgrf_adv_one]; exact hsize
    · intro st2 hst2
      rw [hst] at hst2
      cases hst2
      rw [hext]
      simp [hs1]

/-- one `write` call: from a world in the invariant with memory `p`, under `lgrf_OpOk`, the driver returns exactly the
    Tags of `lgrf_specWrite p` and leaves a world in the invariant with the memory of `lgrf_specWrite p` -/
theorem lgrf_write_step (cfg : Cfg) (sess : Nat) (cidb : Bytes) (C : Nat) (w : Cli.World Ext) (p : Project)
    (its : List ldwx_Item) (hmicro : cfg.micro800 = false)
    (hinv : lgrf_Inv sess cidb C w p) (hok : lgrf_OpOk cfg C p (.write its)) :
    ∃ w', write hookAll cfg w (its.map (·.request cfg)) = (w', .ok (lgrf_specWrite p its).2) ∧
      lgrf_Inv sess cidb C w' (lgrf_specWrite p its).1 ∧
      (∀ st, w.net.target.ext.logix = some st →
        w'.net.target.ext = { w.net.target.ext with logix := some { st with proj := (lgrf_specWrite p its).1 } }) := by
  obtain ⟨⟨conn, hw, hCT⟩, ⟨st, hst, hp⟩, hsize, hmax, hnames⟩ := hinv
  subst hp
  obtain ⟨hoks, hcase⟩ := hok
  have hok' : ∀ x ∈ its.map (lgrf_atW st.proj), ldwx_ItemOk cfg st.proj x := by
    intro x hx
    obtain ⟨x0, h0, rfl⟩ := List.mem_map.1 hx
    exact hoks x0 h0
  have hreq : (its.map (lgrf_atW st.proj)).map (·.request cfg) = its.map (·.request cfg) := by
    rw [List.map_map]; apply List.map_congr_left; intro x _; exact lgrf_atW_request cfg st.proj x
  have hout : (its.map (lgrf_atW st.proj)).map (·.out) = its.map (·.out) := by
    rw [List.map_map]; apply List.map_congr_left; intro x _; exact lgrf_atW_out st.proj x
  rcases hcase with ⟨hn, hfit⟩ | ⟨x, rfl, h1⟩
  · have hfit' : ∀ x ∈ its.map (lgrf_atW st.proj), x.acct cfg + K.OVERHEAD ≤ w.drv.connectionSize := by
      intro x hx
      obtain ⟨x0, h0, rfl⟩ := List.mem_map.1 hx
      rw [lgrf_atW_acct, hsize]
      exact hfit x0 h0
    obtain ⟨w', frms, ls, hwrite, _, _, _, hd, _, hext, hh⟩ := write_mixed_e2e cfg w sess cidb conn st
      (its.map (lgrf_atW st.proj)) hw hst hmicro (by rw [List.length_map]; exact hn) hnames hok' hfit'
      (by rw [hsize]; exact hCT) (by rw [hsize]; exact hmax)
    rw [hreq, hout] at hwrite
    rw [lgrf_atW_targets] at hext
    refine ⟨w', hwrite, ⟨⟨_, hh, hCT⟩, ⟨{ st with proj := ldwx_applyAll st.proj (ldwx_targets its) }, by rw [hext], rfl⟩, ?_,
      hmax, ?_⟩, ?_⟩
    · rw [hd, ldwn_seqN_connectionSize]; exact hsize
    · exact lgrf_names_applyAll st.proj _ hnames
    · intro st2 hst2
      rw [hst] at hst2
      cases hst2
      exact hext
  · have h1' : lgrf_single1W w.drv.connectionSize (lgrf_atW st.proj x) := by
      rw [lgrf_atW_single1W, hsize]; exact h1
    obtain ⟨w', hwrite, hd, hext, hh⟩ := lgrf_write_single cfg w sess cidb conn st (lgrf_atW st.proj x) hw hst hnames
      (hok' _ (List.mem_map_of_mem List.mem_cons_self)) h1' (by rw [hsize]; exact hCT)
    rw [lgrf_atW_request, lgrf_atW_out] at hwrite
    have ht : ldwx_targets [lgrf_atW st.proj x] = ldwx_targets [x] := lgrf_atW_targets st.proj [x]
    rw [ht] at hext
    refine ⟨w', hwrite, ⟨⟨_, hh, hCT⟩, ⟨{ st with proj := ldwx_applyAll st.proj (ldwx_targets [x]) }, by rw [hext], rfl⟩, ?_,
      hmax, ?_⟩, ?_⟩
    · rw [hd, lgrf_adv_one]; exact hsize
    · exact lgrf_names_applyAll st.proj _ hnames
    · intro st2 hst2
      rw [hst] at hst2
      cases hst2
      exact hext

/-- one call of either kind -/
theorem lgrf_step (cfg : Cfg) (sess : Nat) (cidb : Bytes) (C : Nat) (w : Cli.World Ext) (p : Project) (op : lgrf_Op)
    (hmicro : cfg.micro800 = false) (hinv : lgrf_Inv sess cidb C w p) (hok : lgrf_OpOk cfg C p op) :
    ∃ w', lgrf_call cfg w op = (w', .ok (lgrf_specStep p op).2) ∧ lgrf_Inv sess cidb C w' (lgrf_specStep p op).1 := by
  cases op with
  | read its =>
    obtain ⟨w', h1, h2, _⟩ := lgrf_read_step cfg sess cidb C w p its hmicro hinv hok
    exact ⟨w', h1, h2⟩
  | write its =>
    obtain ⟨w', h1, h2, _⟩ := lgrf_write_step cfg sess cidb C w p its hmicro hinv hok
    exact ⟨w', h1, h2⟩

/-- the induction over the history: no bound on its length -/
theorem lgrf_run_refines (cfg : Cfg) (sess : Nat) (cidb : Bytes) (C : Nat) (hmicro : cfg.micro800 = false)
    (ops : List lgrf_Op) : ∀ (w : Cli.World Ext) (p : Project), lgrf_Inv sess cidb C w p → lgrf_OpsOk cfg C p ops →
    ∃ w', lgrf_driverRun cfg w ops = (w', (lgrf_specRun p ops).2.map .ok) ∧ lgrf_Inv sess cidb C w' (lgrf_specRun p ops).1 := by
  induction ops with
  | nil => intro w p hinv _; exact ⟨w, rfl, hinv⟩
  | cons op ops ih =>
    intro w p hinv hok
    obtain ⟨w1, h1, hinv1⟩ := lgrf_step cfg sess cidb C w p op hmicro hinv hok.1
    obtain ⟨w2, h2, hinv2⟩ := ih w1 (lgrf_specStep p op).1 hinv1 hok.2
    refine ⟨w2, ?_, hinv2⟩
    show ((lgrf_driverRun cfg (lgrf_call cfg w op).1 ops).1,
      (lgrf_call cfg w op).2 :: (lgrf_driverRun cfg (lgrf_call cfg w op).1 ops).2) = _
    rw [h1, h2]
    rfl

end Pycomm.Lgx.Drv
