/-
  SLCDriver.read / write at the driver level, second topic file, helper layer A (table level): full-mask writes of any
  even size to the reference data table (float, long, `{n}` writes), the requests `writeable_value` builds for them and
  the replies `_parse_read_reply` decodes.
-/
import PycommProofs.SlcDrvCall
namespace Pycomm.Slc.Drv
open Pycomm Pycomm.Tgt Pycomm.Slc

/-! ### a full-mask write of `size` bytes to an existing location -/

/-- a masked write with mask 0xFFFF of `size` (even) bytes to an existing location of the table: the new table, the
    bytes now at the location, what a typed read of the same location returns, and the frame -/
theorem sd2_full_write_core (tbl : Table) (f : SlcFile) (fnum ftype elem sub size : Nat) (data : Bytes)
    (hfind : tbl.find? (fun g => g.num == fnum) = some f) (hty : f.ftype = ftype)
    (hu : (tbl.filter (fun g => g.num == fnum)).length ≤ 1)
    (hsz : 0 < size) (hev : size % 2 = 0) (hdl : data.length = size)
    (hin : byteOffset ftype elem sub + size ≤ f.data.length) :
    ∃ tbl' f', maskedWrite tbl size fnum ftype elem sub 65535 data = .ok tbl' ∧
      tbl'.find? (fun g => g.num == fnum) = some f' ∧ f'.ftype = ftype ∧ f'.data.length = f.data.length ∧
      (f'.data.drop (byteOffset ftype elem sub)).take size = data ∧
      typedRead tbl' size fnum ftype elem sub = .ok data ∧
      (tbl'.filter (fun g => g.num == fnum)).length ≤ 1 ∧
      tbl'.length = tbl.length ∧
      ∀ (i : Nat) (g0 : SlcFile), tbl[i]? = some g0 → ∃ g, tbl'[i]? = some g ∧ g.num = g0.num ∧ g.ftype = g0.ftype ∧
        (g0.num ≠ fnum → g = g0) ∧
        (g0.num = fnum → g = f' ∧ g.data.length = g0.data.length ∧
          ∀ j, (j < byteOffset ftype elem sub ∨ byteOffset ftype elem sub + size ≤ j) → g.data[j]? = g0.data[j]?) := by
  generalize hoff : byteOffset ftype elem sub = off at hin ⊢
  have hfn : f.num = fnum := by
    have := List.find?_some hfind
    simpa using this
  have hlt : (List.take off f.data).length = off := by simp only [List.length_take]; omega
  have hold : (List.take size (List.drop off f.data)).length = data.length := by
    simp only [List.length_take, List.length_drop]; omega
  have hmw : maskWords 65535 (List.take size (List.drop off f.data)) data = data :=
    maskWords_full (size / 2) _ _ (by omega) hold
  have hW : maskedWrite tbl size fnum ftype elem sub 65535 data = .ok (tbl.map fun g =>
      if g.num == fnum then { g with data := f.data.take off ++ data ++ f.data.drop (off + size) } else g) := by
    unfold maskedWrite
    simp only [hfind, hty, ne_eq, not_true_eq_false, if_false, hoff]
    rw [if_neg (by omega), if_neg (by omega)]
    simp only [hmw]
  have hrd := (write_then_read tbl size fnum ftype elem sub data _ hu hW).1
  obtain ⟨hlenT, hfr⟩ := write_frame tbl size fnum ftype elem sub 65535 data _ hW
  rw [hoff] at hfr
  refine ⟨_, { f with data := f.data.take off ++ data ++ f.data.drop (off + size) }, hW, ?_, hty, ?_, ?_, ?_, ?_,
    hlenT, ?_⟩
  · rw [find_map_num tbl fnum _ (by intro g; split <;> rfl), hfind]
    simp [hfn]
  · simp only [List.length_append, hlt, List.length_drop]; omega
  · simp only
    rw [List.append_assoc, List.drop_left' hlt, ← hdl, List.take_left]
  · exact hrd
  · -- uniqueness of the file number is kept by the map
    have : (List.map (fun g : SlcFile => if g.num == fnum then
        ({ g with data := f.data.take off ++ data ++ f.data.drop (off + size) } : SlcFile) else g) tbl).filter
        (fun g => g.num == fnum) = (tbl.filter (fun g => g.num == fnum)).map (fun g : SlcFile => if g.num == fnum then
        ({ g with data := f.data.take off ++ data ++ f.data.drop (off + size) } : SlcFile) else g) := by
      rw [List.filter_map]
      congr 1
      apply List.filter_congr
      intro g _
      simp only [Function.comp]
      split <;> simp_all
    rw [this, List.length_map]
    exact hu
  · intro i g0 hi
    obtain ⟨g, hg, hnum, hft', hne, hsame⟩ := hfr i g0 hi
    refine ⟨g, hg, hnum, hft', hne, ?_⟩
    intro hn
    have hg0 : g0 = f := slx_unique tbl fnum f g0 i hu hfind hi hn
    subst hg0
    obtain ⟨hl1, hl2⟩ := hsame hfind
    refine ⟨?_, hl1, hl2⟩
    simp only [List.getElem?_map, hi, Option.map_some] at hg
    injection hg with hg
    rw [← hg]
    simp [hn]

/-! ### the requests -/

/-- a write request whose value is the full mask followed by `bs`, at an address whose write sub-element is the I/O
    position (everything but PRE / ACC of timers and counters), as served by the target -/
theorem sd2_writeAddr_full (tbl : Table) (a : Addr) (v : PyVal) (bs : Bytes) (sz : Nat)
    (hwv : writeableValue a v = .ok ([0xFF, 0xFF] ++ bs, sz))
    (hnw : ¬ ((a.fileType = [84] ∨ a.fileType = [67]) ∧ (a.subElement = 1 ∨ a.subElement = 2)))
    (hs : sz * a.count ≤ 255) (hf : a.fileNumber ≤ 255) (he : a.element ≤ 255) (hp : a.posNumber < 65536) :
    writeAddr tbl a v =
      maskedWrite tbl (sz * a.count) a.fileNumber (typeCode a.fileType) a.element a.posNumber 65535 bs := by
  have hws := slx_writeSub_pos a hnw
  unfold writeAddr
  rw [hwv]
  simp only []
  rw [slx_writeAddressFields a _ hs (by omega) (by omega) (by rw [hws]; omega), hws]
  simp only []
  rw [slx_targetWrite tbl _ _ _ _ _ _ hs (slx_typeCode_le a.fileType) (by omega) (by omega) (by omega)
    (by simp)]
  have h2 : ([0xFF, 0xFF] : Bytes).length = 2 := rfl
  rw [List.take_left' h2, List.drop_left' h2]
  have : leVal ([0xFF, 0xFF] : Bytes) = 65535 := by decide
  rw [this]

/-- the 32-bit two's complement representative of an integer -/
def sd2_dword32 (i : Int) : Nat := (i % 4294967296).toNat

theorem sd2_dword32_lt (i : Int) : sd2_dword32 i < 4294967296 := by unfold sd2_dword32; omega

theorem sd2_int32_dword32 (i : Int) (h : -2147483648 ≤ i ∧ i ≤ 2147483647) : int32 (sd2_dword32 i) = i := by
  unfold int32 sd2_dword32; split <;> omega

/-- `writeable_value` of an integer for a long-file element -/
theorem sd2_writeable_long (a : Addr) (x : Int) (hx : -2147483648 ≤ x ∧ x ≤ 2147483647) (hft : a.fileType = [76])
    (haf : a.addressField = 2) (hc : a.count = 1) :
    writeableValue a (.int x) = .ok ([0xFF, 0xFF] ++ leBytes 4 (sd2_dword32 x), 4) := by
  have hty : elemTy a.fileType = some (.int .dint) := by rw [hft]; rfl
  have hsz : dataSize a.fileType = 4 := by rw [hft]; decide
  have henc : encode (.int .dint) (.int x) = .ok (leBytes 4 (sd2_dword32 x)) := by
    have := encode_int_wire .dint x (by simp [IntK.lo, IntK.signed, IntK.size]; omega)
      (by simp [IntK.hi, IntK.signed, IntK.size]; omega)
    rw [this]
    simp only [IntK.size, sd2_dword32]
    rfl
  unfold writeableValue
  simp only [hty, hsz, hc, haf, henc]
  rw [if_neg (by decide), if_neg (by decide)]

/-- `writeable_value` of a float for a float-file element: the binary32 bits `struct.pack('<f')` rounds it to -/
theorem sd2_writeable_float (a : Addr) (b b32 : Nat) (hnar : Flt.narrow b = some b32) (hft : a.fileType = [70])
    (haf : a.addressField = 2) (hc : a.count = 1) :
    writeableValue a (.float b) = .ok ([0xFF, 0xFF] ++ leBytes 4 b32, 4) := by
  have hty : elemTy a.fileType = some .real := by rw [hft]; rfl
  have hsz : dataSize a.fileType = 4 := by rw [hft]; decide
  unfold writeableValue
  simp only [hty, hsz, hc, haf, encode_real_wire b b32 hnar]
  rw [if_neg (by decide), if_neg (by decide)]

/-- the bytes of a list of 16-bit integers, low byte first -/
def sd2_wordBytes (xs : List Int) : Bytes := xs.flatMap fun x => leBytes 2 (word16 x)

theorem sd2_wordBytes_length (xs : List Int) : (sd2_wordBytes xs).length = 2 * xs.length := by
  induction xs with
  | nil => rfl
  | cons x xs ih =>
    simp only [sd2_wordBytes, List.flatMap_cons, List.length_append, List.length_cons] at ih ⊢
    rw [ih]
    simp [leBytes]
    omega

theorem sd2_words_wordBytes (xs : List Int) : words (sd2_wordBytes xs) = xs.map word16 := by
  induction xs with
  | nil => rfl
  | cons x xs ih =>
    have h := slx_le2_val (word16 x) (slx_word16_lt x)
    simp only [sd2_wordBytes, List.flatMap_cons, slx_le2, List.cons_append, List.nil_append, words, List.map_cons] at ih ⊢
    rw [ih, h]

theorem sd2_encodeList_words (xs : List Int) (hx : ∀ x ∈ xs, -32768 ≤ x ∧ x ≤ 32767) :
    encodeList (encode (.int .int)) (xs.map PyVal.int) = .ok (sd2_wordBytes xs) := by
  induction xs with
  | nil => rfl
  | cons x xs ih =>
    have hx0 := hx x List.mem_cons_self
    have henc : encode (.int .int) (.int x) = .ok (leBytes 2 (word16 x)) := by
      have := encode_int_wire .int x (by simp [IntK.lo, IntK.signed, IntK.size]; omega)
        (by simp [IntK.hi, IntK.signed, IntK.size]; omega)
      rw [this]
      simp only [IntK.size, word16]
      rfl
    simp only [List.map_cons, encodeList, henc, ih (fun y hy => hx y (List.mem_cons_of_mem _ hy)), bind, Except.bind,
      sd2_wordBytes, List.flatMap_cons]

/-- `writeable_value` of a list / tuple of integers for `{n}` elements (n ≥ 2) of a word file: the first n values,
    whatever follows them -/
theorem sd2_writeable_count (a : Addr) (v : PyVal) (xs : List Int)
    (hv : v = .list (xs.map PyVal.int) ∨ v = .tuple (xs.map PyVal.int))
    (hty : elemTy a.fileType = some (.int .int)) (hsz : dataSize a.fileType = 2)
    (haf : a.addressField = 2) (hc : 2 ≤ a.count) (hlen : a.count ≤ xs.length)
    (hx : ∀ x ∈ xs.take a.count, -32768 ≤ x ∧ x ≤ 32767) :
    writeableValue a v = .ok ([0xFF, 0xFF] ++ sd2_wordBytes (xs.take a.count), 2) := by
  have hl : v.len? = some xs.length := by rcases hv with rfl | rfl <;> simp [PyVal.len?]
  have hs : v.seq? = some (xs.map PyVal.int) := by rcases hv with rfl | rfl <;> rfl
  have henc := sd2_encodeList_words (xs.take a.count) hx
  rw [List.map_take] at henc
  unfold writeableValue
  simp only [hty, hsz, haf, hl, hs]
  rw [if_pos (by omega), if_neg (by decide), if_neg (by omega)]
  simp only [henc]

/-! ### the length of what `writeable_value` builds -/

theorem sd2_packInt_len (k : IntK) (v : PyVal) (bs : Bytes) (h : packInt k v = .ok bs) : bs.length = k.size := by
  unfold packInt at h
  split at h
  · split at h
    · injection h with h; rw [← h]; exact RT.leBytes_length _ _
    · cases h
  · cases h

theorem sd2_packReal_len (v : PyVal) (bs : Bytes) (h : packReal v = .ok bs) : bs.length = 4 := by
  unfold packReal at h
  extract_lets f64 at h
  generalize f64 = o at h
  cases o with
  | none => cases h
  | some b =>
    simp only at h
    cases hn : Flt.narrow b with
    | none => rw [hn] at h; cases h
    | some b32 =>
      rw [hn] at h
      injection h with h
      rw [← h]
      exact RT.leBytes_length _ _

/-- element codec and element size of the seven files whose addresses take a count -/
theorem sd2_elem_codec (ft : Name) (h : ft ∈ [[78], [66], [70], [76], [83], [73], [79], [84], [67]]) :
    ∃ ty s, elemTy ft = some ty ∧ (∀ v bs, encode ty v = .ok bs → bs.length = s) ∧ s ≤ 4 ∧
      (ft ≠ [84] → ft ≠ [67] → dataSize ft = s) := by
  have hi : ∀ v bs, encode (.int .int) v = .ok bs → bs.length = 2 := fun v bs h => by
    simp only [encode] at h; exact sd2_packInt_len .int v bs h
  have hd : ∀ v bs, encode (.int .dint) v = .ok bs → bs.length = 4 := fun v bs h => by
    simp only [encode] at h; exact sd2_packInt_len .dint v bs h
  have hf : ∀ v bs, encode .real v = .ok bs → bs.length = 4 := fun v bs h => by
    simp only [encode] at h; exact sd2_packReal_len v bs h
  simp only [List.mem_cons, List.not_mem_nil, or_false] at h
  rcases h with rfl | rfl | rfl | rfl | rfl | rfl | rfl | rfl | rfl
  · exact ⟨_, 2, rfl, hi, by decide, fun _ _ => by decide⟩
  · exact ⟨_, 2, rfl, hi, by decide, fun _ _ => by decide⟩
  · exact ⟨_, 4, rfl, hf, by decide, fun _ _ => by decide⟩
  · exact ⟨_, 4, rfl, hd, by decide, fun _ _ => by decide⟩
  · exact ⟨_, 2, rfl, hi, by decide, fun _ _ => by decide⟩
  · exact ⟨_, 2, rfl, hi, by decide, fun _ _ => by decide⟩
  · exact ⟨_, 2, rfl, hi, by decide, fun _ _ => by decide⟩
  · exact ⟨_, 2, rfl, hi, by decide, fun h => absurd rfl h⟩
  · exact ⟨_, 2, rfl, hi, by decide, fun _ h => absurd rfl h⟩

theorem sd2_encodeList_len (f : PyVal → R Bytes) (s : Nat) (hf : ∀ v bs, f v = .ok bs → bs.length = s) :
    ∀ (l : List PyVal) (out : Bytes), encodeList f l = .ok out → out.length = s * l.length
  | [], out, h => by
      simp only [encodeList] at h
      injection h with h
      subst h
      rfl
  | x :: xs, out, h => by
      simp only [encodeList, bind, Except.bind] at h
      cases h1 : f x with
      | error e => rw [h1] at h; cases h
      | ok a =>
        rw [h1] at h
        simp only at h
        cases h2 : encodeList f xs with
        | error e => rw [h2] at h; cases h
        | ok r =>
          rw [h2] at h
          simp only at h
          injection h with h
          subst h
          rw [List.length_append, hf x a h1, sd2_encodeList_len f s hf xs r h2, List.length_cons]
          rw [Nat.mul_succ]; omega

/-- for an address `parse_tag` accepts, the mask and data `writeable_value` builds are at most 2 bytes longer than the
    byte size the request announces -/
theorem sd2_writeable_len (a : Addr) (v : PyVal) (val : Bytes) (sz : Nat) (hr : InRange a)
    (h : writeableValue a v = .ok (val, sz)) (hs : sz * a.count ≤ 255) : val.length ≤ 257 := by
  obtain ⟨ty, s, hty, hlen, hs4, hds⟩ := sd2_elem_codec a.fileType hr.ftype
  unfold writeableValue at h
  simp only [hty] at h
  split at h
  · -- `{n}`, n ≥ 2
    rename_i hc
    split at h
    · cases h
    · split at h
      · rename_i n xs hn hxs
        split at h
        · cases h
        · rename_i hnc
          split at h
          · rename_i bs hbs
            injection h with h
            injection h with h1 h2
            subst h1
            have hnotct : a.fileType ≠ [84] ∧ a.fileType ≠ [67] := by
              constructor
              · intro hh; have := (hr.ct (.inl hh)).2.1; omega
              · intro hh; have := (hr.ct (.inr hh)).2.1; omega
            have hsz : sz = s := by rw [← h2]; exact hds hnotct.1 hnotct.2
            have hl := sd2_encodeList_len (encode ty) s hlen _ bs hbs
            have htk : (xs.take a.count).length ≤ a.count := by simp only [List.length_take]; omega
            simp only [List.length_append, List.length_cons, List.length_nil, hl]
            have : s * (xs.take a.count).length ≤ s * a.count := Nat.mul_le_mul_left _ htk
            rw [hsz] at hs
            omega
          · cases h
      · cases h
  · split at h
    · split at h
      · split at h
        · rename_i bs hbs
          injection h with h
          injection h with h1 _
          subst h1
          have := hlen v bs hbs
          simp only [List.length_append, List.length_cons, List.length_nil]
          omega
        · cases h
      · split at h
        · rename_i m hm
          injection h with h
          injection h with h1 _
          subst h1
          have := sd2_packInt_len .uint _ m hm
          simp only [IntK.size] at this
          simp only [List.length_append, this]
          split <;> simp <;> omega
        · cases h
    · split at h
      · rename_i bs hbs
        injection h with h
        injection h with h1 _
        subst h1
        have := hlen v bs hbs
        simp only [List.length_append, List.length_cons, List.length_nil]
        omega
      · cases h

end Pycomm.Slc.Drv
