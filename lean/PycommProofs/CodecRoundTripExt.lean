/-
  C06 extension: round trips for the types outside the original `Canon` fragment:
  STRINGN, IPAddress (now inside `Canon`, so they compose in structures and arrays through
  `decode_encode`), arrays of bit strings, STRINGI, StructTag (Logix UDT templates).
  Helper lemmas: PycommProofs/RTExt.lean.
-/
import PycommProofs.CodecRoundTrip
import PycommProofs.CodecErrors
import PycommProofs.RTExt
namespace Pycomm
open Pycomm.RT

-- PROPERTY THEOREMS

/-- STRINGN: character size 1, 2 or 4; text one code unit per character in the size's codec
    (size 1 = UTF-8, hence ASCII only: see the STATEMENT NOTE), fewer than 65536 characters. -/
-- STATEMENT NOTE: for character size 1 the domain is ASCII, not Latin-1: the encoder writes UTF-8 but
-- the count field is `len(value)` in characters and the decoder reads `count * 1` bytes, so
-- `encode (.stringN 1) (.str [65, 200]) = .ok [1,0,2,0,65,195,136]` and decoding that (++ [7]) is
-- `.error .data`.  Likewise size 2 (UTF-16) excludes astral characters (`[65, 0x1F600]` → `.error .data`).
-- Sizes other than 1, 2, 4 are rejected by the encoder (`encode (.stringN 3) (.str [65]) = .error .data`).
theorem stringN_roundtrip (c : Nat) (enc : Enc) (cs : Name) (he : stringNEnc c = some enc)
    (htxt : TextOk enc cs) (hlen : cs.length < 65536) :
    ∃ bs, encode (.stringN c) (.str cs) = .ok bs ∧
      ∀ rest, decode (.stringN c) (bs ++ rest) = .ok (.str cs, rest) :=
  decode_encode (.stringN c) (.str cs) ⟨enc, cs, he, rfl, htxt, hlen⟩

/-- IPAddress: every 4 bytes decode to a dotted quad that encodes back to the same 4 bytes, and
    decoding those bytes followed by anything returns the dotted quad and the rest. -/
theorem ip_roundtrip (bs : Bytes) (h : bs.length = 4) :
    encode .ipAddr (.str (renderIPv4 bs)) = .ok bs ∧
      ∀ rest, decode .ipAddr (bs ++ rest) = .ok (.str (renderIPv4 bs), rest) := by
  obtain ⟨enc, h1, h2, _, _⟩ := rtx_leaf_ip (.str (renderIPv4 bs)) ⟨bs, h, rfl⟩
  have : encode .ipAddr (.str (renderIPv4 bs)) = .ok bs := by
    simp only [encode, encodeIp, rtx_parse_render bs h, rtx_ofNat_toNat]
  rw [this] at h1; cases h1
  exact ⟨this, h2⟩

/-- the dotted-quad parser inverts the renderer -/
theorem parseIPv4_renderIPv4 (bs : Bytes) (h : bs.length = 4) :
    parseIPv4 (renderIPv4 bs) = some (bs.map (·.toNat)) := rtx_parse_render bs h

/-- Array of bit strings, fixed length `n`: the value is the FLAT list of `n * 8 * size` booleans. -/
-- STATEMENT NOTE: stated for every host type `k` (the codec ignores signedness).  The length must be
-- exactly `n * (8 * k.size)`: the encoder's "too few" test compares the number of booleans with `n`
-- (known defect), so e.g. `encode (.arr (.fixed 2) (.bits .usint))` of 8 booleans is `.ok [73]` (one
-- element, silently short), of 2 booleans is `.ok []`, and only of fewer than 2 booleans `.error .data`;
-- 24 booleans give 3 bytes.  None of these round-trip; for well-sized input the test never fires
-- (`n * width ≥ n`).
theorem bitarray_roundtrip (n : Nat) (k : IntK) (bools : List Bool) (h : bools.length = n * (8 * k.size)) :
    ∃ enc, encode (.arr (.fixed n) (.bits k)) (.list (bools.map PyVal.bool)) = .ok enc ∧
      enc.length = n * k.size ∧
      ∀ rest, decode (.arr (.fixed n) (.bits k)) (enc ++ rest) = .ok (.list (bools.map PyVal.bool), rest) := by
  have hw : 0 < 8 * k.size := by have := IntK.size_pos k; omega
  obtain ⟨cs, hc1, hc2, hc3, hc4⟩ := rtx_chunks (8 * k.size) hw n bools (bools.length + 1) h (by
    rw [h]; have := Nat.le_mul_of_pos_right n hw; omega)
  obtain ⟨enc, he, hl, hd, _⟩ := rtx_bitchunks k cs hc2
  have hdiv : bools.length / (8 * k.size) = n := by rw [h]; exact Nat.mul_div_cancel _ hw
  have hnot : ¬ bools.length < n := by
    rw [h]; have := Nat.le_mul_of_pos_right n hw; omega
  refine ⟨enc, ?_, by rw [hl, hc1], ?_⟩
  · simp only [encode, PyVal.len?, PyVal.seq?, List.length_map, Ty.isBits, hnot, decide_false,
      Bool.false_eq_true, if_false, hc4, hdiv]
    rw [← hc1, ← List.length_map (as := cs) (fun c => c.map PyVal.bool), List.take_length, List.map_map]
    have : (PyVal.list ∘ fun c => List.map PyVal.bool c) = fun c : List Bool => PyVal.list (c.map PyVal.bool) := rfl
    have hE : (fun x => encodeBits k x) = encode (.bits k) := by funext x; simp only [encode]
    rw [this, hE, he]
  · intro rest
    have := hd rest
    rw [hc1] at this
    have hD : (fun x => decodeBits k x) = decode (.bits k) := by funext x; simp only [decode]
    simp only [decode, Ty.isBits, Option.isSome_some, if_true]
    rw [hD, this]
    simp only [rtx_flattenBits, hc3]

/-- Array of bit strings, unbounded: any whole number of bit strings, on the exact buffer. -/
theorem bitarray_roundtrip_unbounded (n : Nat) (k : IntK) (bools : List Bool)
    (h : bools.length = n * (8 * k.size)) :
    ∃ enc, encode (.arr .all (.bits k)) (.list (bools.map PyVal.bool)) = .ok enc ∧
      enc.length = n * k.size ∧
      decode (.arr .all (.bits k)) enc = .ok (.list (bools.map PyVal.bool), []) := by
  have hw : 0 < 8 * k.size := by have := IntK.size_pos k; omega
  obtain ⟨cs, hc1, hc2, hc3, hc4⟩ := rtx_chunks (8 * k.size) hw n bools (bools.length + 1) h (by
    rw [h]; have := Nat.le_mul_of_pos_right n hw; omega)
  obtain ⟨enc, he, hl, _, hd⟩ := rtx_bitchunks k cs hc2
  have hdiv : bools.length / (8 * k.size) = n := by rw [h]; exact Nat.mul_div_cancel _ hw
  refine ⟨enc, ?_, by rw [hl, hc1], ?_⟩
  · simp only [encode, PyVal.len?, PyVal.seq?, List.length_map, Ty.isBits,
      Bool.false_eq_true, if_false, hc4, hdiv]
    rw [← hc1, ← List.length_map (as := cs) (fun c => c.map PyVal.bool), List.take_length, List.map_map]
    have : (PyVal.list ∘ fun c => List.map PyVal.bool c) = fun c : List Bool => PyVal.list (c.map PyVal.bool) := rfl
    have hE : (fun x => encodeBits k x) = encode (.bits k) := by funext x; simp only [encode]
    rw [this, hE, he]
  · have := hd (enc.length + 1) (Nat.lt_succ_self _)
    have hD : (fun x => decodeBits k x) = decode (.bits k) := by funext x; simp only [decode]
    simp only [decode, Ty.isBits, Option.isSome_some, if_true]
    rw [hD, this]
    simp only [rtx_flattenBits, hc3]

/-- STRINGI: `encode` takes a list (or tuple) of items `(string, type code, language, char set)`;
    `decode` returns the triple of lists `(strings, languages, char sets)`.  For items whose string is in
    the domain of its string class (STRING, STRING2, STRINGN with character size 1, SHORT_STRING), whose
    language is 3 ASCII characters and whose char set fits 16 bits, at most 255 items: decoding the
    encoding followed by anything returns the three projections of the item list, and the rest. -/
-- STATEMENT NOTE: the language must be exactly 3 characters: a 2-character language
-- (`(.str [72,105], 0xD0, .str [101,110], 4)`) encodes, but decoding fails with `.error .data` (the decoder
-- always reads 3 bytes); a non-ASCII language is rejected by the encoder.  The result is not the input
-- shape (list of 4-tuples in, triple of lists out; the type codes are not returned).
theorem stringI_roundtrip (items : List SIItem) (hok : ∀ i ∈ items, i.Ok) (hn : items.length ≤ 255) :
    ∃ enc, encode .stringI (.list (items.map SIItem.val)) = .ok enc ∧
      ∀ rest, decode .stringI (enc ++ rest) =
        .ok (.tuple [.list (items.map fun i => .str i.s), .list (items.map fun i => .str i.lang),
                     .list (items.map fun i => .int i.cset)], rest) := by
  obtain ⟨d, hd, hdec⟩ := rtx_stringI_items items hok
  obtain ⟨hp, hlt⟩ := packInt_nat .usint items.length rfl (by
    simp only [IntK.hi, IntK.signed, IntK.size]; simp; omega)
  refine ⟨leBytes IntK.usint.size items.length ++ d, ?_, ?_⟩
  · simp only [encode, encodeStringI, List.length_map, hp, hd, bind, Except.bind]
  · intro rest
    simp only [decode, decodeStringI, List.append_assoc, decodeIntNat_append .usint items.length (d ++ rest) hlt,
      bind, Except.bind, hdec, List.reverse_nil, List.nil_append]

/-- a tuple of items is accepted like a list -/
theorem stringI_tuple_eq_list (vs : List PyVal) : encode .stringI (.tuple vs) = encode .stringI (.list vs) := by
  simp only [encode, encodeStringI]

/-- a canonical value of a fixed-width type encodes to exactly that many bytes -/
theorem canon_fixed_roundtrip (t : Ty) (v : PyVal) (w : Nat) (h : Canon t v) (hw : fixedWidth t = some w) :
    ∃ enc, encode t v = .ok enc ∧ enc.length = w ∧ ∀ rest, decode t (enc ++ rest) = .ok (v, rest) := by
  obtain ⟨enc, he, hd⟩ := decode_encode t v h
  obtain ⟨h1, h2⟩ := fixed_width_needs_width t w hw (enc ++ []) v [] (hd [])
  rw [List.append_nil] at h1 h2
  have : enc.length ≤ w := List.drop_eq_nil_iff.1 h2.symm
  exact ⟨enc, he, by omega, hd⟩

/-- StructTag (a Logix UDT as uploaded from the controller).  For a well-formed layout
    (`TagLayout`: `0 < size`; members at non-decreasing offsets, no overlap, each of fixed width and inside
    `size`, distinct names; hidden members — those named in `priv`, which are members — always decode; bit
    aliases with distinct names not used by members, `off < size`, `bit < 8`, pairwise distinct
    `(off, bit)`, not inside a visible member's bytes) and a dict with exactly the visible members' names
    in member order followed by the alias names in order, every visible member's value canonical and every
    alias value a `bool` (`TagDict Canon`): `encode` gives exactly `size` bytes, and decoding them followed
    by anything returns the same dict and the rest. -/
-- STATEMENT NOTE: `0 < size` is required: `decode (.structTag .nil [] [] 0) [1,2] = .error .bufferEmpty`
-- although `encode (.structTag .nil [] [] 0) (.dict []) = .ok []` (a zero-byte read is "buffer empty").
-- STATEMENT NOTE: hidden members are decoded too (and dropped afterwards), so their types must decode
-- whatever the bytes: `TagLayout.hidden_total` (`DecTotal`), proved for BOOL, all integer and bit-string
-- hosts, n_bytes and fixed arrays of those (`rtx_total_*`).  Member names need not be non-empty.
theorem structTag_roundtrip (ms : TMembers) (bits : List (Name × Nat × Nat)) (priv : List Name) (size : Nat)
    (hl : TagLayout ms bits priv size) (kvs : List (Name × PyVal)) (hk : TagDict Canon ms bits priv kvs) :
    ∃ enc, encode (.structTag ms bits priv size) (.dict kvs) = .ok enc ∧ enc.length = size ∧
      ∀ rest, decode (.structTag ms bits priv size) (enc ++ rest) = .ok (.dict kvs, rest) :=
  rtx_structTag Canon canon_fixed_roundtrip ms bits priv size hl kvs hk

/-- The same for any class `P` of member values that round-trip at their fixed width (the conclusion is
    again of that form, with width `size`). -/
theorem structTag_roundtrip_gen (P : Ty → PyVal → Prop)
    (hP : ∀ t v w, P t v → fixedWidth t = some w →
      ∃ enc, encode t v = .ok enc ∧ enc.length = w ∧ ∀ rest, decode t (enc ++ rest) = .ok (v, rest))
    (ms : TMembers) (bits : List (Name × Nat × Nat)) (priv : List Name) (size : Nat)
    (hl : TagLayout ms bits priv size) (kvs : List (Name × PyVal)) (hk : TagDict P ms bits priv kvs) :
    ∃ enc, encode (.structTag ms bits priv size) (.dict kvs) = .ok enc ∧ enc.length = size ∧
      ∀ rest, decode (.structTag ms bits priv size) (enc ++ rest) = .ok (.dict kvs, rest) :=
  rtx_structTag P hP ms bits priv size hl kvs hk

/-- values of UDTs nested to depth at most `n`: canonical values, or template dicts whose visible members
    are of depth at most `n - 1` -/
def TagCanonN : Nat → Ty → PyVal → Prop
  | 0, t, v => Canon t v
  | n + 1, t, v => Canon t v ∨ ∃ ms bits priv size kvs, t = .structTag ms bits priv size ∧ v = .dict kvs ∧
      TagLayout ms bits priv size ∧ TagDict (TagCanonN n) ms bits priv kvs

private theorem structTag_nested_aux : ∀ (n : Nat) (t : Ty) (v : PyVal) (w : Nat), TagCanonN n t v →
    fixedWidth t = some w →
    ∃ enc, encode t v = .ok enc ∧ enc.length = w ∧ ∀ rest, decode t (enc ++ rest) = .ok (v, rest)
  | 0, t, v, w, h, hw => canon_fixed_roundtrip t v w h hw
  | n + 1, t, v, w, h, hw => by
    rcases h with h | ⟨ms, bits, priv, size, kvs, rfl, rfl, hl, hk⟩
    · exact canon_fixed_roundtrip t v w h hw
    · simp only [fixedWidth, hl.size_pos, if_true, Option.some.injEq] at hw
      subst hw
      exact rtx_structTag (TagCanonN n) (structTag_nested_aux n) ms bits priv size hl kvs hk

/-- UDTs whose members are UDTs, to any depth -/
theorem structTag_roundtrip_nested (n : Nat) (t : Ty) (v : PyVal) (w : Nat) (h : TagCanonN n t v)
    (hw : fixedWidth t = some w) :
    ∃ enc, encode t v = .ok enc ∧ enc.length = w ∧ ∀ rest, decode t (enc ++ rest) = .ok (v, rest) :=
  structTag_nested_aux n t v w h hw

/-- the bit-alias law on the raw bytes: writing the aliases sets exactly their bits (what `decode` reads
    back), leaves every other alias-addressable bit and every byte that hosts no alias unchanged -/
theorem tagBits_law (kvs : List (Name × PyVal)) (bits : List (Name × Nat × Nat)) (value : Bytes)
    (hr : ∀ b ∈ bits, b.2.1 < value.length ∧ b.2.2 < 8)
    (hv : ∀ b ∈ bits, ∃ x, dictGet kvs b.1 = some (.bool x)) (hn : (bits.map (·.2)).Nodup) :
    ∃ value', encodeTagBits kvs bits value = .ok value' ∧ value'.length = value.length ∧
      (∀ j, (∀ b ∈ bits, b.2.1 ≠ j) → value'[j]? = value[j]?) ∧
      (∀ o b, b < 8 → (∀ x ∈ bits, x.2 ≠ (o, b)) → tagBit value' o b = tagBit value o b) ∧
      (∀ b ∈ bits, dictGet kvs b.1 = some (.bool (tagBit value' b.2.1 b.2.2))) :=
  rtx_encBits kvs bits value hr hv hn

/-! ### non-vacuity: each theorem instantiated on a concrete value -/

example : ∃ bs, encode (.stringN 2) (.str [72, 0x20AC]) = .ok bs ∧
    ∀ rest, decode (.stringN 2) (bs ++ rest) = .ok (.str [72, 0x20AC], rest) :=
  stringN_roundtrip 2 .utf16 [72, 0x20AC] rfl (by simp [TextOk]) (by simp)

example : ∃ bs, encode (.stringN 1) (.str []) = .ok bs ∧
    ∀ rest, decode (.stringN 1) (bs ++ rest) = .ok (.str [], rest) :=
  stringN_roundtrip 1 .utf8 [] rfl (by simp [TextOk]) (by simp)

example : encode .ipAddr (.str (renderIPv4 [192, 168, 0, 1])) = .ok [192, 168, 0, 1] ∧
    ∀ rest, decode .ipAddr ([192, 168, 0, 1] ++ rest) = .ok (.str (renderIPv4 [192, 168, 0, 1]), rest) :=
  ip_roundtrip [192, 168, 0, 1] rfl

/-- the new `Canon` cases compose: an array of structures holding an address and a STRINGN -/
example : Canon (.arr (.fixed 1) (.struct (.cons (some [97]) .ipAddr (.cons (some [98]) (.stringN 1) .nil))))
    (.list [.dict [([97], .str (renderIPv4 [10, 0, 0, 7])), ([98], .str [104, 105])]]) := by
  simp only [Canon]
  refine ⟨_, rfl, rfl, rfl, ?_⟩
  intro x hx
  simp only [List.mem_singleton] at hx
  subst hx
  exact ⟨_, rfl, rfl, by simp, by simp [Members.names], ⟨[10, 0, 0, 7], rfl, rfl⟩, rfl, by simp,
    by simp [Members.names], ⟨.utf8, [104, 105], rfl, rfl, by simp [TextOk], by simp⟩, rfl⟩

example : ∃ enc, encode (.arr (.fixed 2) (.bits .usint))
      (.list ([true, false, false, true, false, false, true, false,
               false, true, false, false, true, false, false, true].map PyVal.bool)) = .ok enc ∧
    enc.length = 2 * IntK.usint.size ∧
    ∀ rest, decode (.arr (.fixed 2) (.bits .usint)) (enc ++ rest) =
      .ok (.list ([true, false, false, true, false, false, true, false,
               false, true, false, false, true, false, false, true].map PyVal.bool), rest) :=
  bitarray_roundtrip 2 .usint _ rfl

example : ∃ enc, encode (.arr .all (.bits .usint))
      (.list ([true, false, false, true, false, false, true, false].map PyVal.bool)) = .ok enc ∧
    enc.length = 1 * IntK.usint.size ∧
    decode (.arr .all (.bits .usint)) enc =
      .ok (.list ([true, false, false, true, false, false, true, false].map PyVal.bool), []) :=
  bitarray_roundtrip_unbounded 1 .usint _ rfl

example : ∀ i ∈ [({ s := [72, 105], kind := .string, lang := [101, 110, 103], cset := 4 } : SIItem),
      { s := [0x20AC], kind := .string2, lang := [102, 114, 97], cset := 1000 },
      { s := [65, 66], kind := .stringN, lang := [100, 101, 117], cset := 65535 },
      { s := [], kind := .shortString, lang := [101, 115, 112], cset := 0 }], i.Ok := by
  simp [SIItem.Ok, StrKind.Dom, TextOk]

example : ∃ enc, encode .stringI (.list ([({ s := [72, 105], kind := .string, lang := [101, 110, 103], cset := 4 } : SIItem),
      { s := [0x20AC], kind := .string2, lang := [102, 114, 97], cset := 1000 }].map SIItem.val)) = .ok enc ∧
    ∀ rest, decode .stringI (enc ++ rest) =
      .ok (.tuple [.list [.str [72, 105], .str [0x20AC]], .list [.str [101, 110, 103], .str [102, 114, 97]],
        .list [.int 4, .int 1000]], rest) :=
  stringI_roundtrip _ (by simp [SIItem.Ok, StrKind.Dom, TextOk]) (by simp)

/-- a UDT with a hidden SINT host at byte 0 carrying two BOOL aliases, a DINT at 4 and an INT at 8 -/
def exTagMembers : TMembers :=
  .cons [90, 90] (.int .sint) 0 (.cons [120] (.int .dint) 4 (.cons [121] (.int .int) 8 .nil))
def exTagBits : List (Name × Nat × Nat) := [([98, 48], 0, 0), ([98, 49], 0, 3)]

private theorem exTagLayout : TagLayout exTagMembers exTagBits [[90, 90]] 12 where
  size_pos := by omega
  members := by
    simp [exTagMembers, TagMembersOk, fixedWidth, IntK.size, TMembers.names, TMembers.toList]
  hidden_total := by
    intro m hm hp w hw
    simp only [exTagMembers, TMembers.toList, List.mem_cons, List.not_mem_nil, or_false] at hm
    rcases hm with rfl | rfl | rfl
    · simp only [fixedWidth, Option.some.injEq] at hw; subst hw; exact rtx_total_int .sint
    · simp at hp
    · simp at hp
  priv_members := by simp [exTagMembers, TMembers.names, TMembers.toList]
  bit_names_nodup := by simp [exTagBits]
  bit_names_fresh := by simp [exTagBits, exTagMembers, TMembers.names, TMembers.toList]
  bit_range := by simp [exTagBits]
  bit_pos_nodup := by simp [exTagBits]
  bit_hidden := by
    intro b hb m hm hp w hw
    simp only [exTagMembers, TMembers.toList, List.mem_cons, List.not_mem_nil, or_false] at hm
    simp only [exTagBits, List.mem_cons, List.not_mem_nil, or_false] at hb
    rcases hm with rfl | rfl | rfl
    · simp at hp
    · rcases hb with rfl | rfl <;> simp
    · rcases hb with rfl | rfl <;> simp

def exTagDict : List (Name × PyVal) :=
  [([120], .int (-5)), ([121], .int 300), ([98, 48], .bool true), ([98, 49], .bool false)]

private theorem exTagDictOk : TagDict Canon exTagMembers exTagBits [[90, 90]] exTagDict := by
  refine ⟨by simp [TMembers.visible, exTagMembers, exTagBits, exTagDict, TMembers.toList], ?_, ?_⟩
  · intro m hm hp
    simp only [exTagMembers, TMembers.toList, List.mem_cons, List.not_mem_nil, or_false] at hm
    rcases hm with rfl | rfl | rfl
    · simp at hp
    · exact ⟨.int (-5), by simp [dictGet, exTagDict], -5, rfl, by simp [IntK.lo, IntK.hi, IntK.signed, IntK.size]⟩
    · exact ⟨.int 300, by simp [dictGet, exTagDict], 300, rfl, by simp [IntK.lo, IntK.hi, IntK.signed, IntK.size]⟩
  · intro b hb
    simp only [exTagBits, List.mem_cons, List.not_mem_nil, or_false] at hb
    rcases hb with rfl | rfl
    · exact ⟨true, by simp [dictGet, exTagDict]⟩
    · exact ⟨false, by simp [dictGet, exTagDict]⟩

example : ∃ enc, encode (.structTag exTagMembers exTagBits [[90, 90]] 12) (.dict exTagDict) = .ok enc ∧
    enc.length = 12 ∧
    ∀ rest, decode (.structTag exTagMembers exTagBits [[90, 90]] 12) (enc ++ rest) = .ok (.dict exTagDict, rest) :=
  structTag_roundtrip _ _ _ _ exTagLayout _ exTagDictOk

example : ∃ enc, encode (.structTag exTagMembers exTagBits [[90, 90]] 12) (.dict exTagDict) = .ok enc ∧
    enc.length = 12 ∧
    ∀ rest, decode (.structTag exTagMembers exTagBits [[90, 90]] 12) (enc ++ rest) = .ok (.dict exTagDict, rest) :=
  structTag_roundtrip_gen Canon canon_fixed_roundtrip _ _ _ _ exTagLayout _ exTagDictOk

/-- an outer UDT holding the UDT above at byte 0 and a USINT at byte 12 -/
def exOuterMembers : TMembers :=
  .cons [117] (.structTag exTagMembers exTagBits [[90, 90]] 12) 0 (.cons [122] (.int .usint) 12 .nil)

example : ∃ enc, encode (.structTag exOuterMembers [] [] 16) (.dict [([117], .dict exTagDict), ([122], .int 7)]) = .ok enc ∧
    enc.length = 16 ∧
    ∀ rest, decode (.structTag exOuterMembers [] [] 16) (enc ++ rest) =
      .ok (.dict [([117], .dict exTagDict), ([122], .int 7)], rest) := by
  refine structTag_roundtrip_nested 2 _ _ 16 (Or.inr ⟨_, _, _, _, _, rfl, rfl, ?_, ?_⟩) (by simp [fixedWidth])
  · exact {
      size_pos := by omega
      members := by simp [exOuterMembers, TagMembersOk, fixedWidth, IntK.size, TMembers.names, TMembers.toList]
      hidden_total := by intro m _ hp; simp at hp
      priv_members := by simp
      bit_names_nodup := by simp
      bit_names_fresh := by simp
      bit_range := by simp
      bit_pos_nodup := by simp
      bit_hidden := by simp }
  · refine ⟨by simp [TMembers.visible, exOuterMembers, TMembers.toList], ?_, by simp⟩
    intro m hm _
    simp only [exOuterMembers, TMembers.toList, List.mem_cons, List.not_mem_nil, or_false] at hm
    rcases hm with rfl | rfl
    · exact ⟨.dict exTagDict, by simp [dictGet], Or.inr ⟨_, _, _, _, _, rfl, rfl, exTagLayout, exTagDictOk⟩⟩
    · exact ⟨.int 7, by simp [dictGet], Or.inl ⟨7, rfl, by simp [IntK.lo, IntK.hi, IntK.signed, IntK.size]⟩⟩

example : ∃ value', encodeTagBits exTagDict exTagBits (zeros 12) = .ok value' ∧ value'.length = (zeros 12).length ∧
    (∀ j, (∀ b ∈ exTagBits, b.2.1 ≠ j) → value'[j]? = (zeros 12)[j]?) ∧
    (∀ o b, b < 8 → (∀ x ∈ exTagBits, x.2 ≠ (o, b)) → tagBit value' o b = tagBit (zeros 12) o b) ∧
    (∀ b ∈ exTagBits, dictGet exTagDict b.1 = some (.bool (tagBit value' b.2.1 b.2.2))) :=
  tagBits_law exTagDict exTagBits (zeros 12) (by simp [exTagBits, zeros]) (by
    intro b hb
    simp only [exTagBits, List.mem_cons, List.not_mem_nil, or_false] at hb
    rcases hb with rfl | rfl
    · exact ⟨true, by simp [dictGet, exTagDict]⟩
    · exact ⟨false, by simp [dictGet, exTagDict]⟩) (by simp [exTagBits])

end Pycomm
