/-
  Specification-side definitions for the codec properties (C06–C08): value domains, widths.
  No proofs here.
-/
import PycommModel.Codec
namespace Pycomm

/-- characters a text codec can carry such that `len(value)` equals the number of code units -/
def TextOk : Enc → Name → Prop
  | .latin1, cs => ∀ c ∈ cs, c < 256
  | .utf8, cs => ∀ c ∈ cs, c < 128
  | .utf16, cs => ∀ c ∈ cs, c < 0x10000 ∧ ¬ (0xD800 ≤ c ∧ c ≤ 0xDFFF)
  | .utf32, cs => ∀ c ∈ cs, c ≤ 0x10FFFF ∧ ¬ (0xD800 ≤ c ∧ c ≤ 0xDFFF)

def Members.names : Members → List (Option Name)
  | .nil => []
  | .cons n _ rest => n :: rest.names

/- `Canon t v`: v is an in-domain value of t in the canonical form `decode` returns.
    Covers the tail-safe fragment (no unbounded array, no n_bytes(-1)); arrays of bit strings,
    length-prefixed arrays, STRINGI and StructTag have their own statements (CodecRoundTripExt.lean).
    STRINGN: the character size given at encode time must be 1, 2 or 4 and the text must be one code
    unit per character in that size's codec (size 1 is UTF-8, so ASCII only).  IPAddress: the canonical
    value is the dotted quad `decode` renders. -/
mutual
def Canon : Ty → PyVal → Prop
  | .bool, v => ∃ b, v = .bool b
  | .int k, v => ∃ i, v = .int i ∧ k.lo ≤ i ∧ i ≤ k.hi
  | .real, v => ∃ b b32, v = .float b ∧ b32 < 2 ^ 32 ∧ Flt.narrow b = some b32 ∧ Flt.widen b32 = b
  | .lreal, v => ∃ b, v = .float b ∧ b < 2 ^ 64
  | .dateAndTime, v => ∃ t d : Int, v = .tuple [.int t, .int d] ∧ 0 ≤ t ∧ t < 2 ^ 32 ∧ 0 ≤ d ∧ d < 2 ^ 16
  | .str lenK enc, v => ∃ cs, v = .str cs ∧ lenK.signed = false ∧ TextOk enc cs ∧ (cs.length : Int) ≤ lenK.hi
  | .stringN c, v => ∃ enc cs, stringNEnc c = some enc ∧ v = .str cs ∧ TextOk enc cs ∧ cs.length < 65536
  | .stringI, _ => False
  | .bits k, v => ∃ bs : List Bool, v = .list (bs.map PyVal.bool) ∧ bs.length = 8 * k.size ∧ k.signed = false
  | .nbytes n, v => ∃ bs, v = .bytes bs ∧ 0 < n ∧ (bs.length : Int) = n
  | .arr (.fixed n) t, v => ∃ vs, v = .list vs ∧ vs.length = n ∧ t.isBits = none ∧ ∀ x ∈ vs, Canon t x
  | .arr _ _, _ => False
  | .struct ms, v => ∃ kvs, v = .dict kvs ∧ CanonMembers ms kvs
  | .fixedStr size lenK, v => ∃ cs, v = .str cs ∧ lenK.signed = false ∧ (∀ c ∈ cs, c < 256) ∧
        cs.length ≤ size ∧ 0 < size ∧ (cs.length : Int) ≤ lenK.hi
  | .structTag _ _ _ _, _ => False
  | .ipAddr, v => ∃ bs : Bytes, bs.length = 4 ∧ v = .str (renderIPv4 bs)
/-- canonical dict of an all-named struct: exactly the members, in member order, distinct non-empty names -/
def CanonMembers : Members → List (Name × PyVal) → Prop
  | .nil, kvs => kvs = []
  | .cons (some nm) t rest, (k, v) :: kvs =>
      k = nm ∧ nm ≠ [] ∧ some nm ∉ rest.names ∧ Canon t v ∧ CanonMembers rest kvs
  | _, _ => False
end

/- encoded width when it does not depend on the value -/
mutual
def fixedWidth : Ty → Option Nat
  | .bool => some 1
  | .int k => some k.size
  | .real => some 4
  | .lreal => some 8
  | .dateAndTime => some 6
  | .bits k => some k.size
  | .nbytes n => if 0 < n then some n.toNat else none
  | .arr (.fixed n) t => (fixedWidth t).map (· * n)
  | .struct ms => fixedWidthMembers ms
  | .fixedStr size lenK => if 0 < size then some (lenK.size + size) else none
  | .structTag _ _ _ size => if 0 < size then some size else none
  | .ipAddr => some 4
  | _ => none
def fixedWidthMembers : Members → Option Nat
  | .nil => some 0
  | .cons _ t rest => do
      let a ← fixedWidth t
      let b ← fixedWidthMembers rest
      pure (a + b)
end

/- every successful decode of `t` consumes at least one byte (what `Array(None, t)` needs to terminate) -/
mutual
def PosWidth : Ty → Prop
  | .bool | .int _ | .real | .lreal | .dateAndTime | .str _ _ | .stringN _ | .stringI | .bits _ | .ipAddr => True
  | .nbytes n => n ≠ 0
  | .arr (.fixed n) t => 0 < n ∧ PosWidth t
  | .arr (.pref _) _ => True
  | .arr .all _ => False     -- succeeds on an empty buffer without consuming anything
  | .struct ms => PosWidthMembers ms
  | .fixedStr _ _ => True
  | .structTag _ _ _ size => 0 < size
def PosWidthMembers : Members → Prop
  | .nil => False
  | .cons _ t rest => PosWidth t ∨ PosWidthMembers rest
end

/-- leaf types whose value starts with a non-empty fixed-width read -/
def IsLeaf : Ty → Prop
  | .bool | .int _ | .real | .lreal | .bits _ | .ipAddr => True
  | _ => False

end Pycomm
