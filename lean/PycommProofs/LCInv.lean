/-
  Helper lemmas for C10 (connection lifecycle): an invariant of driver ‖ reference target that is preserved
  by open / close / generic_message under every fault plan and target policy, and that implies the two log
  properties `no_unit_data_before_open` and `fo_order` of LifecycleProofs.lean.
-/
import PycommModel.Client
import PycommProofs.EncapProofs
import PycommProofs.GenericProofs
import PycommProofs.ReplyProofs
namespace Pycomm.Cli
open Pycomm.Tgt Pycomm.Encap Pycomm.Path Pycomm.Reply Pycomm.EN

/-! ### vocabulary -/

/-- an event that is neither a Forward Open record nor one of the two "early unit data" violations -/
def lci_Quiet (e : Event) : Prop :=
  (∀ l s o, e ≠ .fo l s o) ∧ e ≠ .violation "SendUnitData without a registered session" ∧
    e ≠ .violation "SendUnitData on a connection that is not open"

/-- same text as `HookOk` in LifecycleProofs.lean -/
def lci_HookOk {σ} (hook : ObjHook σ) : Prop :=
  ∀ t cs req t' r, hook t cs req = some (t', r) →
    t'.base.sessions = t.base.sessions ∧ t'.base.conns = t.base.conns ∧ t'.base.policy = t.base.policy ∧
    t'.base.nextSession = t.base.nextSession ∧ t'.base.nextCid = t.base.nextCid ∧
    ∃ extra, t'.base.log = extra ++ t.base.log ∧
      ∀ e ∈ extra, (∀ l s o, e ≠ .fo l s o) ∧ e ≠ .violation "SendUnitData without a registered session" ∧
                   e ≠ .violation "SendUnitData on a connection that is not open"

/-- the log `l'` extends `l` (newest first) by events satisfying `P` -/
def lci_Ext (P : Event → Prop) (l l' : List Event) : Prop := ∃ extra, l' = extra ++ l ∧ ∀ e ∈ extra, P e

theorem lci_Ext_refl (P : Event → Prop) (l : List Event) : lci_Ext P l l := ⟨[], rfl, by simp⟩

theorem lci_Ext_cons {P : Event → Prop} {l l' : List Event} (e : Event) (h : lci_Ext P l l') (he : P e) :
    lci_Ext P l (e :: l') := by
  obtain ⟨x, rfl, hx⟩ := h
  exact ⟨e :: x, rfl, by simpa [he] using hx⟩

theorem lci_Ext_trans {P : Event → Prop} {a b c : List Event} (h1 : lci_Ext P a b) (h2 : lci_Ext P b c) :
    lci_Ext P a c := by
  obtain ⟨x, rfl, hx⟩ := h1
  obtain ⟨y, rfl, hy⟩ := h2
  refine ⟨y ++ x, by simp, ?_⟩
  intro e he
  rcases List.mem_append.1 he with h | h
  · exact hy e h
  · exact hx e h

theorem lci_Ext_mono {P Q : Event → Prop} {a b : List Event} (h : lci_Ext P a b) (hpq : ∀ e, P e → Q e) :
    lci_Ext Q a b := by
  obtain ⟨x, rfl, hx⟩ := h
  exact ⟨x, rfl, fun e he => hpq e (hx e he)⟩

theorem lci_Ext_mem {P : Event → Prop} {a b : List Event} (h : lci_Ext P a b) (e : Event) (he : e ∈ a) : e ∈ b := by
  obtain ⟨x, rfl, _⟩ := h
  exact List.mem_append_right _ he

theorem lci_Ext_one {P : Event → Prop} (l : List Event) (e : Event) (he : P e) : lci_Ext P l (e :: l) :=
  lci_Ext_cons e (lci_Ext_refl P l) he

/-! ### string facts: the interpolated violation texts are not the two texts of interest -/

theorem lci_str_head (a b c : String) (x y : Char) (ha : a.toList.head? = some x) (hc : c.toList.head? = some y)
    (hxy : x ≠ y) : a ++ b ≠ c := by
  intro h
  have h2 := congrArg (fun s => s.toList.head?) h
  simp only [String.toList_append] at h2
  cases hl : a.toList with
  | nil => simp [hl] at ha
  | cons p q =>
    simp [hl] at ha h2
    rw [hc] at h2
    simp at h2
    exact hxy (ha ▸ h2)

theorem lci_quiet_of_head (s t : String) (x : Char) (hs : s.toList.head? = some x) (hx : x ≠ 'S') :
    lci_Quiet (.violation (s ++ t)) := by
  refine ⟨(fun _ _ _ h => nomatch h), ?_, ?_⟩
  · intro h
    injection h with h
    exact lci_str_head s t _ x 'S' hs (by decide) hx h
  · intro h
    injection h with h
    exact lci_str_head s t _ x 'S' hs (by decide) hx h

theorem lci_quiet_viol (s : String) (h1 : s ≠ "SendUnitData without a registered session")
    (h2 : s ≠ "SendUnitData on a connection that is not open") : lci_Quiet (.violation s) :=
  ⟨(fun _ _ _ h => nomatch h), fun h => h1 (Event.violation.inj h), fun h => h2 (Event.violation.inj h)⟩

theorem lci_quiet_encap (c s : Nat) (ok : Bool) : lci_Quiet (.encap c s ok) :=
  ⟨(fun _ _ _ h => nomatch h), (fun h => nomatch h), (fun h => nomatch h)⟩

theorem lci_quiet_mr (c u : Bool) (r : MRReq) (rt : Bytes) : lci_Quiet (.mr c u r rt) :=
  ⟨(fun _ _ _ h => nomatch h), (fun h => nomatch h), (fun h => nomatch h)⟩

theorem lci_quiet_fc (ok : Bool) : lci_Quiet (.fc ok) :=
  ⟨(fun _ _ _ h => nomatch h), (fun h => nomatch h), (fun h => nomatch h)⟩

/-! ### target invariant -/

/-- Forward-Open discipline on the newest-first log -/
def lci_FoOK : List Event → Prop
  | [] => True
  | e :: rest => lci_FoOK rest ∧ ∀ l sz ok, e = .fo l sz ok →
      (l = true → sz = 4000) ∧ (l = false → sz = 500 ∧ ∃ z, Event.fo true z false ∈ rest)

/-- what is kept about the target alone; `S` switches the Forward-Open discipline part on -/
structure lci_TInv (S : Prop) (b : Base) : Prop where
  noV : ∀ e ∈ b.log, e ≠ .violation "SendUnitData without a registered session" ∧
                     e ≠ .violation "SendUnitData on a connection that is not open"
  fo : S → lci_FoOK b.log
  ns : b.nextSession < 2 ^ 32
  nc : b.nextCid < 2 ^ 32

theorem lci_FoOK_ext (l extra : List Event) (h : lci_FoOK l) (hq : ∀ e ∈ extra, lci_Quiet e) : lci_FoOK (extra ++ l) := by
  induction extra with
  | nil => exact h
  | cons e x ih =>
    refine ⟨ih (fun e he => hq e (List.mem_cons_of_mem _ he)), ?_⟩
    intro l sz ok he
    exact absurd he ((hq e (by simp)).1 l sz ok)

theorem lci_TInv_ext {S : Prop} {b b' : Base} (h : lci_TInv S b) (hl : lci_Ext lci_Quiet b.log b'.log)
    (hns : b'.nextSession < 2 ^ 32) (hnc : b'.nextCid < 2 ^ 32) : lci_TInv S b' := by
  obtain ⟨x, hx, hq⟩ := hl
  refine ⟨?_, ?_, hns, hnc⟩
  · intro e he
    rw [hx] at he
    rcases List.mem_append.1 he with h1 | h1
    · exact (hq e h1).2
    · exact h.noV e h1
  · intro hs
    rw [hx]
    exact lci_FoOK_ext _ _ (h.fo hs) hq

/-- a step of the target that keeps sessions, connection identities and counters and logs only quiet events -/
structure lci_QStep (b b' : Base) : Prop where
  sess : b'.sessions = b.sessions
  conns : ∀ c ∈ b.conns, ∃ c' ∈ b'.conns, c'.cid = c.cid ∧ c'.session = c.session
  log : lci_Ext lci_Quiet b.log b'.log
  ns : b'.nextSession = b.nextSession
  nc : b'.nextCid = b.nextCid

theorem lci_QStep_refl (b : Base) : lci_QStep b b :=
  ⟨rfl, fun c hc => ⟨c, hc, rfl, rfl⟩, lci_Ext_refl _ _, rfl, rfl⟩

theorem lci_QStep_trans {a b c : Base} (h1 : lci_QStep a b) (h2 : lci_QStep b c) : lci_QStep a c := by
  refine ⟨h2.sess.trans h1.sess, ?_, lci_Ext_trans h1.log h2.log, h2.ns.trans h1.ns, h2.nc.trans h1.nc⟩
  intro x hx
  obtain ⟨y, hy, e1, e2⟩ := h1.conns x hx
  obtain ⟨z, hz, f1, f2⟩ := h2.conns y hy
  exact ⟨z, hz, f1.trans e1, f2.trans e2⟩

theorem lci_QStep_event (b : Base) (e : Event) (he : lci_Quiet e) : lci_QStep b (b.event e) :=
  ⟨rfl, fun c hc => ⟨c, hc, rfl, rfl⟩, lci_Ext_one _ _ he, rfl, rfl⟩

theorem lci_QStep_TInv {S : Prop} {b b' : Base} (h : lci_QStep b b') (hi : lci_TInv S b) : lci_TInv S b' :=
  lci_TInv_ext hi h.log (h.ns ▸ hi.ns) (h.nc ▸ hi.nc)

/-! ### the message router -/

theorem lci_baseObject (b b' : Base) (req : MRReq) (r : MRReply) (h : baseObject b req = some (b', r)) :
    b'.sessions = b.sessions ∧ b'.conns = b.conns ∧ b'.log = b.log ∧ b'.nextSession = b.nextSession ∧
    b'.nextCid = b.nextCid := by
  unfold baseObject at h
  split at h
  · split at h <;> (cases h; simp)
  · split at h <;> (cases h; simp)
  · split at h
    · cases h; simp
    · split at h
      · simp only [Option.some.injEq] at h
        unfold wallClockSet at h
        split at h <;> (cases h; simp)
      · cases h; simp
  · cases h

/-- requests that are not executed by the connection manager as an unconnected request leave sessions,
    connections and counters alone and log only quiet events -/
theorem lci_execMR_quiet {σ} (hook : ObjHook σ) (hh : lci_HookOk hook) (t : Target σ) (s : Nat) (cs : Option Nat)
    (conn ucs : Bool) (route msg : Bytes)
    (h : conn = true ∨ ∀ req, parseMR msg = some req → classInst req.path ≠ some (0x06, 1, [])) :
    lci_QStep t.base (execMR hook t s cs conn ucs route msg).1.base := by
  unfold execMR
  split
  · exact lci_QStep_event _ _ (lci_quiet_viol _ (by decide) (by decide))
  · rename_i req hreq
    have h0 : lci_QStep t.base (t.base.event (.mr conn ucs req route)) := lci_QStep_event _ _ (lci_quiet_mr _ _ _ _)
    dsimp only
    split
    · rename_i hci
      rcases h with h | h
      · subst h
        simpa using h0
      · exact absurd hci (h req hreq)
    · split
      · rename_i b r hb
        obtain ⟨e1, e2, e3, e4, e5⟩ := lci_baseObject _ _ _ _ hb
        refine lci_QStep_trans h0 ⟨e1, ?_, ?_, e4, e5⟩
        · intro c hc; exact ⟨c, by simpa [e2] using hc, rfl, rfl⟩
        · show lci_Ext lci_Quiet _ b.log
          rw [e3]; exact lci_Ext_refl _ _
      · split
        · rename_i t' r ht
          obtain ⟨e1, e2, _, e4, e5, x, hx, hq⟩ := hh _ _ _ _ _ ht
          refine lci_QStep_trans h0 ⟨e1, ?_, ⟨x, hx, hq⟩, e4, e5⟩
          intro c hc; exact ⟨c, by simpa [e2] using hc, rfl, rfl⟩
        · exact h0

theorem lci_forwardClose (b : Base) (d : Bytes) :
    (Tgt.forwardClose b d).1.sessions = b.sessions ∧ (∀ c ∈ (Tgt.forwardClose b d).1.conns, c ∈ b.conns) ∧
    lci_Ext lci_Quiet b.log (Tgt.forwardClose b d).1.log ∧ (Tgt.forwardClose b d).1.nextSession = b.nextSession ∧
    (Tgt.forwardClose b d).1.nextCid = b.nextCid := by
  unfold Tgt.forwardClose
  split
  · exact ⟨rfl, fun c hc => hc, lci_Ext_one _ _ (lci_quiet_viol _ (by decide) (by decide)), rfl, rfl⟩
  · dsimp only
    split
    · exact ⟨rfl, fun c hc => hc, lci_Ext_one _ _ (lci_quiet_viol _ (by decide) (by decide)), rfl, rfl⟩
    · split
      · refine ⟨rfl, ?_, lci_Ext_one _ _ (lci_quiet_fc _), rfl, rfl⟩
        intro c hc
        exact (List.mem_filter.1 hc).1
      · exact ⟨rfl, fun c hc => hc, lci_Ext_one _ _ (lci_quiet_fc _), rfl, rfl⟩

/-- what the connection manager does with a Forward Open -/
theorem lci_forwardOpen (b : Base) (s : Nat) (large : Bool) (d : Bytes) (br : Base × MRReply)
    (hbr : Tgt.forwardOpen b s large d = br) :
    br.1.sessions = b.sessions ∧ br.1.nextSession = b.nextSession ∧
    ((parseFo large d = none ∧ br.1.log = .violation "malformed forward open" :: b.log ∧ br.1.conns = b.conns ∧
        br.1.nextCid = b.nextCid ∧ br.2.status = 0x01) ∨
     (∃ r, parseFo large d = some r ∧
       ((br.1.log = .fo large r.size false :: b.log ∧ br.1.conns = b.conns ∧ br.1.nextCid = b.nextCid ∧
          (br.2.status = 0x01 ∨ br.2.status = 0x08)) ∨
        (foPathOk r.path = false ∧ br.1.log = .violation "forward open: bad connection path" :: b.log ∧
          br.1.conns = b.conns ∧ br.1.nextCid = b.nextCid ∧ br.2.status = 0x01) ∨
        (br.1.log = .fo large r.size true :: b.log ∧ br.1.nextCid = (b.nextCid + 0x10001) % 2 ^ 32 ∧
          br.2.status = 0 ∧ br.2.ext = [] ∧
          ∃ c rest, br.1.conns = b.conns ++ [c] ∧ c.cid = b.nextCid ∧ c.session = s ∧
            br.2.data = leBytes 4 b.nextCid ++ rest)))) := by
  unfold Tgt.forwardOpen at hbr
  split at hbr
  · rename_i hp
    subst hbr
    exact ⟨rfl, rfl, Or.inl ⟨hp, rfl, rfl, rfl, rfl⟩⟩
  · rename_i r hp
    dsimp only at hbr
    generalize (if large = true then b.policy.largeFoOk else b.policy.stdFoOk) = allowed at hbr
    split at hbr
    · subst hbr
      refine ⟨rfl, rfl, Or.inr ⟨r, hp, Or.inl ⟨rfl, rfl, rfl, ?_⟩⟩⟩
      cases large <;> simp
    · split at hbr
      · rename_i hpath
        subst hbr
        exact ⟨rfl, rfl, Or.inr ⟨r, hp, Or.inr (Or.inl ⟨by simpa using hpath, rfl, rfl, rfl, rfl⟩)⟩⟩
      · split at hbr
        · subst hbr
          exact ⟨rfl, rfl, Or.inr ⟨r, hp, Or.inl ⟨rfl, rfl, rfl, Or.inl rfl⟩⟩⟩
        · subst hbr
          refine ⟨rfl, rfl, Or.inr ⟨r, hp, Or.inr (Or.inr ⟨rfl, rfl, rfl, rfl, _,
            (leBytes 4 r.toId ++ (leBytes 2 r.serial ++ (leBytes 2 r.vendor ++ (leBytes 4 r.origSerial ++
              (leBytes 4 0x00204001 ++ (leBytes 4 0x00204001 ++ [0, 0])))))), rfl, rfl, rfl, ?_⟩)⟩⟩
          simp only [le, List.append_assoc]

/-- a request that is not a Forward Open leaves sessions and counters alone and logs only quiet events
    (it may remove connections: Forward Close) -/
theorem lci_execMR_nofo {σ} (hook : ObjHook σ) (hh : lci_HookOk hook) (t : Target σ) (s : Nat) (cs : Option Nat)
    (conn ucs : Bool) (route msg : Bytes)
    (h : ∀ req, parseMR msg = some req → req.service ≠ 0x54 ∧ req.service ≠ 0x5B) :
    (execMR hook t s cs conn ucs route msg).1.base.sessions = t.base.sessions ∧
    lci_Ext lci_Quiet t.base.log (execMR hook t s cs conn ucs route msg).1.base.log ∧
    (execMR hook t s cs conn ucs route msg).1.base.nextSession = t.base.nextSession ∧
    (execMR hook t s cs conn ucs route msg).1.base.nextCid = t.base.nextCid := by
  by_cases hq : conn = true ∨ ∀ req, parseMR msg = some req → classInst req.path ≠ some (0x06, 1, [])
  · have := lci_execMR_quiet hook hh t s cs conn ucs route msg hq
    exact ⟨this.sess, this.log, this.ns, this.nc⟩
  · have hc : conn = false := by
      cases conn
      · rfl
      · exact absurd (Or.inl rfl) hq
    have hex : ∃ req, parseMR msg = some req ∧ classInst req.path = some (0x06, 1, []) := by
      apply Classical.byContradiction
      intro hn
      apply hq
      right
      intro req hr hci
      exact hn ⟨req, hr, hci⟩
    obtain ⟨req, hr, hci⟩ := hex
    obtain ⟨h1, h2⟩ := h req hr
    subst hc
    unfold execMR
    simp only [hr, hci, Bool.false_eq_true, if_false]
    rw [if_neg (by intro h; rcases h with h | h; exact h1 h; exact h2 h)]
    split
    · obtain ⟨e1, _, e3, e4, e5⟩ := lci_forwardClose (t.base.event (.mr false ucs req route)) req.data
      refine ⟨e1, ?_, e4, e5⟩
      exact lci_Ext_trans (lci_Ext_one _ _ (lci_quiet_mr _ _ _ _)) e3
    · exact ⟨rfl, lci_Ext_one _ _ (lci_quiet_mr _ _ _ _), rfl, rfl⟩

/-- an unconnected Forward Open request reaches the connection manager -/
theorem lci_execMR_fo {σ} (hook : ObjHook σ) (t : Target σ) (s : Nat) (cs : Option Nat)
    (ucs : Bool) (route msg : Bytes) (req : MRReq) (hr : parseMR msg = some req)
    (hci : classInst req.path = some (0x06, 1, [])) (hsv : req.service = 0x54 ∨ req.service = 0x5B) :
    execMR hook t s cs false ucs route msg =
      ({ t with base := (Tgt.forwardOpen (t.base.event (.mr false ucs req route)) s (req.service = 0x5B) req.data).1 },
       encMRReply req.service (Tgt.forwardOpen (t.base.event (.mr false ucs req route)) s (req.service = 0x5B) req.data).2) := by
  unfold execMR
  simp only [hr, hci, Bool.false_eq_true, if_false]
  rw [if_pos hsv]

/-! ### `handle`, command by command -/

/-- what the target does with the message of a SendRRData frame of a registered session -/
def lci_rrStep {σ} (hook : ObjHook σ) (t : Target σ) (s : Nat) (msg : Bytes) : Target σ × Bytes :=
  let t0 : Target σ := { t with base := t.base.event (.encap CMD_SEND_RR s true) }
  match isUcs msg with
  | some u =>
      match unwrapUcs u with
      | none => ({ t0 with base := t0.base.event (.violation "malformed unconnected send") },
                 encMRReply 0x52 { status := 0x13 })
      | some (inner, route) => execMR hook t0 s none false true route inner
  | none => execMR hook t0 s none false false [] msg

theorem lci_handle_rr {σ} (hook : ObjHook σ) (t : Target σ) (raw : Bytes) (f : Frame) (msg : Bytes)
    (hp : parseFrame raw = some f) (hst : f.status = 0) (hopt : f.options = 0) (hc : f.command = CMD_SEND_RR)
    (hs : f.session ∈ t.base.sessions) (hcpf : parseCpf f.body = some (.unconnected msg)) :
    handle hook t raw = ((lci_rrStep hook t f.session msg).1,
      some (frame CMD_SEND_RR f.session 0 f.context (cpfReplyUnconnected (lci_rrStep hook t f.session msg).2))) := by
  have c1 : ¬ (CMD_SEND_RR = CMD_REGISTER) := by decide
  have c2 : ¬ (CMD_SEND_RR = CMD_LIST_IDENTITY) := by decide
  have c3 : ¬ (CMD_SEND_RR = CMD_UNREGISTER) := by decide
  have hcon : t.base.sessions.contains f.session = true := by simpa using hs
  unfold handle
  simp only [hp]
  rw [if_neg (by simp [hst, hopt])]
  simp only [hc, c1, c2, c3, if_false, if_true, hcon, Bool.not_true, Bool.false_eq_true, hcpf]
  unfold lci_rrStep
  cases h1 : isUcs msg with
  | none => simp only []
  | some u =>
    simp only []
    cases h2 : unwrapUcs u with
    | none => simp only []
    | some p => obtain ⟨inner, route⟩ := p; simp only []

theorem lci_handle_rr0 {σ} (hook : ObjHook σ) (t : Target σ) (raw : Bytes) (f : Frame)
    (hp : parseFrame raw = some f) (hst : f.status = 0) (hopt : f.options = 0) (hc : f.command = CMD_SEND_RR)
    (hs : f.session ∉ t.base.sessions) :
    handle hook t raw = ({ t with base := t.base.event (.violation "SendRRData without a registered session") },
      some (frame CMD_SEND_RR f.session 0x64 f.context [])) := by
  have c1 : ¬ (CMD_SEND_RR = CMD_REGISTER) := by decide
  have c2 : ¬ (CMD_SEND_RR = CMD_LIST_IDENTITY) := by decide
  have c3 : ¬ (CMD_SEND_RR = CMD_UNREGISTER) := by decide
  have hcon : t.base.sessions.contains f.session = false := by simpa using hs
  unfold handle
  simp only [hp]
  rw [if_neg (by simp [hst, hopt])]
  simp only [hc, c1, c2, c3, if_false, if_true, hcon, Bool.not_false]

/-! ### replies as the client reads them -/

theorem lci_frame_slices (cmd sess st : Nat) (ctx body : Bytes) :
    slice (frame cmd sess st ctx body) 4 8 = leBytes 4 sess ∧ slice (frame cmd sess st ctx body) 8 12 = leBytes 4 st := by
  obtain ⟨a0, a1, ha⟩ := len2 _ (leBytes_length 2 cmd)
  obtain ⟨b0, b1, hb⟩ := len2 _ (leBytes_length 2 body.length)
  obtain ⟨c0, c1, c2, c3, hc⟩ := len4 _ (leBytes_length 4 sess)
  obtain ⟨d0, d1, d2, d3, hd⟩ := len4 _ (leBytes_length 4 st)
  simp only [frame, encHeader, le, ha, hb, hc, hd, slice]
  simp

theorem lci_parseRegister_valid (raw : Bytes) (h : (parseRegister (some raw)).valid = true) :
    leVal (slice raw 8 12) = 0 ∧ (parseRegister (some raw)).session = some (leVal (slice raw 4 8)) := by
  obtain ⟨hl, h0⟩ := (register_valid_iff raw).1 h
  refine ⟨h0, ?_⟩
  have h48 : IntK.udint.size ≤ (slice raw 4 8).length := by rw [RP.slice_length]; simp [IntK.size]; omega
  have ht : (slice raw 4 8).take IntK.udint.size = slice raw 4 8 := by
    apply List.take_of_length_le
    rw [RP.slice_length]; simp [IntK.size]; omega
  simp only [parseRegister, RP.decodeIntNat_ok _ _ h48, ht]

theorem lci_handle_reg {σ} (hook : ObjHook σ) (t : Target σ) (raw : Bytes) (f : Frame) (S : Prop)
    (hp : parseFrame raw = some f) (hst : f.status = 0) (hopt : f.options = 0) (hc : f.command = CMD_REGISTER)
    (hs : f.session = 0) (hb : f.body = [1, 0, 0, 0]) (hi : lci_TInv S t.base) :
    lci_TInv S (handle hook t raw).1.base ∧ lci_Ext lci_Quiet t.base.log (handle hook t raw).1.base.log ∧
    (handle hook t raw).1.base.conns = t.base.conns ∧
    (∀ x ∈ t.base.sessions, x ∈ (handle hook t raw).1.base.sessions) ∧
    ∀ rep, (handle hook t raw).2 = some rep → (parseRegister (some rep)).valid = true →
      ∃ s', (parseRegister (some rep)).session = some s' ∧ s' ∈ (handle hook t raw).1.base.sessions := by
  unfold handle
  simp only [hp]
  rw [if_neg (by simp [hst, hopt])]
  simp only [hc, if_true, hb, hs, ne_eq, not_true_eq_false, if_false]
  split
  · refine ⟨lci_TInv_ext hi (lci_Ext_one _ _ (lci_quiet_encap _ _ _)) hi.ns hi.nc,
      lci_Ext_one _ _ (lci_quiet_encap _ _ _), rfl, fun x hx => hx, ?_⟩
    intro rep hrep hv
    simp only [Option.some.injEq] at hrep
    subst hrep
    obtain ⟨h0, _⟩ := lci_parseRegister_valid _ hv
    rw [(lci_frame_slices _ _ _ _ _).2] at h0
    exact absurd h0 (by decide)
  · refine ⟨lci_TInv_ext hi (lci_Ext_one _ _ (lci_quiet_encap _ _ _)) ?_ hi.nc,
      lci_Ext_one _ _ (lci_quiet_encap _ _ _), rfl, ?_, ?_⟩
    · show nextHandle t.base.nextSession < 2 ^ 32
      unfold nextHandle
      split
      · decide
      · exact Nat.mod_lt _ (by decide)
    · intro x hx
      show x ∈ t.base.sessions ++ [t.base.nextSession]
      exact List.mem_append_left _ hx
    · intro rep hrep hv
      simp only [Option.some.injEq] at hrep
      subst hrep
      obtain ⟨_, h1⟩ := lci_parseRegister_valid _ hv
      rw [(lci_frame_slices _ _ _ _ _).1, leVal_leBytes 4 _ (by have := hi.ns; omega)] at h1
      exact ⟨_, h1, by show t.base.nextSession ∈ t.base.sessions ++ [t.base.nextSession]; simp⟩

theorem lci_handle_unreg {σ} (hook : ObjHook σ) (t : Target σ) (raw : Bytes) (f : Frame) (S : Prop)
    (hp : parseFrame raw = some f) (hst : f.status = 0) (hopt : f.options = 0) (hc : f.command = CMD_UNREGISTER)
    (hi : lci_TInv S t.base) :
    lci_TInv S (handle hook t raw).1.base ∧ lci_Ext lci_Quiet t.base.log (handle hook t raw).1.base.log := by
  have c1 : ¬ (CMD_UNREGISTER = CMD_REGISTER) := by decide
  have c2 : ¬ (CMD_UNREGISTER = CMD_LIST_IDENTITY) := by decide
  unfold handle
  simp only [hp]
  rw [if_neg (by simp [hst, hopt])]
  simp only [hc, c1, c2, if_false, if_true]
  split
  · exact ⟨lci_TInv_ext hi (lci_Ext_one _ _ (lci_quiet_viol _ (by decide) (by decide))) hi.ns hi.nc,
      lci_Ext_one _ _ (lci_quiet_viol _ (by decide) (by decide))⟩
  · split
    · exact ⟨lci_TInv_ext hi (lci_Ext_one _ _ (lci_quiet_viol _ (by decide) (by decide))) hi.ns hi.nc,
        lci_Ext_one _ _ (lci_quiet_viol _ (by decide) (by decide))⟩
    · exact ⟨lci_TInv_ext hi (lci_Ext_one _ _ (lci_quiet_encap _ _ _)) hi.ns hi.nc,
        lci_Ext_one _ _ (lci_quiet_encap _ _ _)⟩

theorem lci_handle_unit {σ} (hook : ObjHook σ) (hh : lci_HookOk hook) (t : Target σ) (raw : Bytes) (f : Frame)
    (cid seq : Nat) (msg : Bytes)
    (hp : parseFrame raw = some f) (hst : f.status = 0) (hopt : f.options = 0) (hc : f.command = CMD_SEND_UNIT)
    (hs : f.session ∈ t.base.sessions) (hcpf : parseCpf f.body = some (.connected cid seq msg))
    (hconn : ∃ c ∈ t.base.conns, c.cid = cid ∧ c.session = f.session) :
    lci_QStep t.base (handle hook t raw).1.base := by
  have c1 : ¬ (CMD_SEND_UNIT = CMD_REGISTER) := by decide
  have c2 : ¬ (CMD_SEND_UNIT = CMD_LIST_IDENTITY) := by decide
  have c3 : ¬ (CMD_SEND_UNIT = CMD_UNREGISTER) := by decide
  have c4 : ¬ (CMD_SEND_UNIT = CMD_SEND_RR) := by decide
  have hcon : t.base.sessions.contains f.session = true := by simpa using hs
  unfold handle
  simp only [hp]
  rw [if_neg (by simp [hst, hopt])]
  simp only [hc, c1, c2, c3, c4, if_false, if_true, hcon, Bool.not_true, Bool.false_eq_true, hcpf]
  cases hf : t.base.conns.find? (fun c => c.cid == cid && c.session == f.session) with
  | none =>
    exfalso
    obtain ⟨c, hc1, hc2, hc3⟩ := hconn
    have := List.find?_eq_none.1 hf c hc1
    simp [hc2, hc3] at this
  | some c =>
    simp only []
    -- the bookkeeping before the request is executed
    have q1 : lci_QStep t.base (t.base.event (.encap CMD_SEND_UNIT f.session true)) :=
      lci_QStep_event _ _ (lci_quiet_encap _ _ _)
    have q2 : ∀ b : Base, lci_QStep b
        (b.event (.violation s!"connected request of {msg.length + 2} bytes on a {c.size}-byte connection")) := by
      intro b
      refine lci_QStep_event _ _ ?_
      simp only [String.append_assoc]
      exact lci_quiet_of_head _ _ 'c' (by decide) (by decide)
    have q3 : ∀ b : Base, lci_QStep b
        (b.event (.violation s!"sequence count {seq} repeated on consecutive connected messages")) := by
      intro b
      refine lci_QStep_event _ _ ?_
      simp only [String.append_assoc]
      exact lci_quiet_of_head _ _ 's' (by decide) (by decide)
    have q4 : ∀ b : Base, lci_QStep b
        { b with conns := b.conns.map fun c' => if c'.cid == cid then { c' with lastSeq := some seq } else c' } := by
      intro b
      refine ⟨rfl, ?_, lci_Ext_refl _ _, rfl, rfl⟩
      intro x hx
      refine ⟨_, List.mem_map_of_mem hx, ?_, ?_⟩ <;> (split <;> rfl)
    have q7 : ∀ (t1 : Target σ) (n : Nat), lci_QStep t1.base
        (if n + 2 > c.size then
          { t1 with base := t1.base.event (.violation s!"connected reply of {n + 2} bytes on a {c.size}-byte connection") }
         else t1).base := by
      intro t1 n
      split
      · refine lci_QStep_event _ _ ?_
        simp only [String.append_assoc]
        exact lci_quiet_of_head _ _ 'c' (by decide) (by decide)
      · exact lci_QStep_refl _
    by_cases hlen : msg.length + 2 > c.size
    · by_cases hseq : (c.lastSeq == some seq) = true
      · simp only [hlen, hseq, if_true]
        exact lci_QStep_trans (lci_QStep_trans (lci_QStep_trans q1 (q2 _)) (q3 _)) (q4 _)
      · simp only [hlen, hseq, if_true]
        exact lci_QStep_trans (lci_QStep_trans q1 (q2 _)) (q4 _)
    · by_cases hseq : (c.lastSeq == some seq) = true
      · simp only [hlen, hseq, if_true, if_false]
        refine lci_QStep_trans (lci_QStep_trans (lci_QStep_trans q1 (q3 _)) (q4 _)) ?_
        exact lci_QStep_trans (lci_execMR_quiet hook hh ⟨_, t.ext⟩ f.session (some (c.size - 2)) true false [] msg (Or.inl rfl)) (q7 _ _)
      · simp only [hlen, hseq, if_false]
        refine lci_QStep_trans (lci_QStep_trans q1 (q4 _)) ?_
        exact lci_QStep_trans (lci_execMR_quiet hook hh ⟨_, t.ext⟩ f.session (some (c.size - 2)) true false [] msg (Or.inl rfl)) (q7 _ _)

/-! ### the transport: a reply that is read is the reply to the request just sent -/

theorem lci_sendReq {σ} (hook : ObjHook σ) (w : World σ) (r : Req) (noResp : Bool)
    (hpend : w.drv.hasSock = true → w.net.pending = [])
    (res : World σ × Except Exn (Option Bytes)) (hres : sendReq hook w r noResp = res) :
    res.1.drv = w.drv ∧
    (noResp = false → w.drv.hasSock = true → res.1.net.pending = []) ∧
    ((res.1.net.target = w.net.target ∧ ((noResp = true ∧ res.2 = .ok none) ∨ ∃ e, res.2 = .error e)) ∨
     (∃ frame, buildRequest r w.drv.ctx = .ok frame ∧ w.drv.hasSock = true ∧
        res.1.net.target = (handle hook w.net.target frame).1 ∧
        ((∃ e, res.2 = .error e) ∨ (noResp = true ∧ res.2 = .ok none) ∨
         ∃ rep, res.2 = .ok (some rep) ∧ (handle hook w.net.target frame).2 = some rep))) := by
  unfold sendReq at hres
  cases hb : buildRequest r w.drv.ctx with
  | error e =>
    simp only [hb] at hres
    subst hres
    exact ⟨rfl, fun _ => hpend, Or.inl ⟨rfl, Or.inr ⟨e, rfl⟩⟩⟩
  | ok frame =>
    simp only [hb] at hres
    by_cases hsock : w.drv.hasSock = false
    · simp only [hsock, Bool.not_false, if_true] at hres
      subst hres
      exact ⟨rfl, fun _ => hpend, Or.inl ⟨rfl, Or.inr ⟨_, rfl⟩⟩⟩
    have hsock : w.drv.hasSock = true := by simpa using hsock
    have hpend := hpend hsock
    simp only [hsock, Bool.not_true, Bool.false_eq_true, if_false] at hres
    unfold Net.sockSend at hres
    simp only [] at hres
    by_cases h1 : w.net.faults.contains (.sendRaise w.net.nSend) = true
    · simp only [h1, if_true] at hres
      subst hres
      exact ⟨rfl, fun _ _ => hpend, Or.inl ⟨rfl, Or.inr ⟨_, rfl⟩⟩⟩
    simp only [h1, if_false, Bool.false_eq_true] at hres
    by_cases h2 : w.net.faults.contains (.sendDrop w.net.nSend) = true
    · simp only [h2, if_true, hpend, List.nil_append] at hres
      cases noResp
      · simp only [Bool.false_eq_true, if_false] at hres
        unfold Net.sockReceive at hres
        simp only [] at hres
        by_cases h3 : w.net.faults.contains (.recvRaise w.net.nRecv) = true
        · simp only [h3, if_true] at hres
          subst hres
          exact ⟨rfl, fun _ _ => rfl, Or.inl ⟨rfl, Or.inr ⟨_, rfl⟩⟩⟩
        · simp only [h3, if_false, Bool.false_eq_true, dropNones] at hres
          subst hres
          exact ⟨rfl, fun _ _ => rfl, Or.inl ⟨rfl, Or.inr ⟨_, rfl⟩⟩⟩
      · simp only [if_true] at hres
        subst hres
        exact ⟨rfl, (fun h => by cases h), Or.inl ⟨rfl, Or.inl ⟨rfl, rfl⟩⟩⟩
    · simp only [h2, if_false, Bool.false_eq_true, hpend, List.nil_append] at hres
      cases noResp
      · simp only [Bool.false_eq_true, if_false] at hres
        unfold Net.sockReceive at hres
        simp only [] at hres
        by_cases h3 : w.net.faults.contains (.recvRaise w.net.nRecv) = true
        · simp only [h3, if_true] at hres
          subst hres
          exact ⟨rfl, fun _ _ => rfl, Or.inr ⟨frame, rfl, hsock, rfl, Or.inl ⟨_, rfl⟩⟩⟩
        · cases hr : (handle hook w.net.target frame).2 with
          | none =>
            simp only [h3, if_false, Bool.false_eq_true, hr, dropNones] at hres
            subst hres
            exact ⟨rfl, fun _ _ => rfl, Or.inr ⟨frame, rfl, hsock, rfl, Or.inl ⟨_, rfl⟩⟩⟩
          | some rep =>
            simp only [h3, if_false, Bool.false_eq_true, hr, dropNones] at hres
            subst hres
            exact ⟨rfl, fun _ _ => rfl, Or.inr ⟨frame, rfl, hsock, rfl, Or.inr (Or.inr ⟨rep, rfl, hr⟩)⟩⟩
      · simp only [if_true] at hres
        subst hres
        exact ⟨rfl, (fun h => by cases h), Or.inr ⟨frame, rfl, hsock, rfl, Or.inr (Or.inl ⟨rfl, rfl⟩)⟩⟩

/-! ### the invariant of driver ‖ target -/

/-- if the configured route (followed by the message router) can be encoded at all, the result is a
    connection path the target accepts: word count, then port segments and the message router -/
def lci_PathOk (cip : List Seg) : Prop :=
  ∀ route, encEpath true (cip ++ msgRouterPath) true false = .ok route →
    ∃ n path, route = n :: path ∧ path.length = 2 * n.toNat ∧ foPathOk path = true

/-- the Forward-Open related configuration of the driver (only tracked when `S` holds) -/
structure lci_Cfg {σ} (w : World σ) : Prop where
  path : lci_PathOk w.drv.cipPath
  cid4 : w.drv.cid.length = 4
  csn2 : w.drv.csn.length = 2
  vid2 : w.drv.vid.length = 2
  vsn4 : w.drv.vsn.length = 4
  mode : (w.drv.extendedFo = true ∧ w.drv.connectionSize = 4000) ∨
         (w.drv.extendedFo = false ∧ w.drv.connectionSize = 500 ∧
           ∃ sz, Event.fo true sz false ∈ w.net.target.base.log)

structure lci_Inv (S : Prop) {σ} (w : World σ) : Prop where
  t : lci_TInv S w.net.target.base
  ctx8 : w.drv.context.length = 8
  opt0 : w.drv.option = 0
  pend : w.drv.hasSock = true → w.net.pending = []
  sess : ∃ s, w.drv.session = some s ∧ (s ≠ 0 → s ∈ w.net.target.base.sessions)
  cfg : S → lci_Cfg w

/-- the driver believes it is connected only if the target holds that connection for the driver's session -/
def lci_Conn {σ} (w : World σ) : Prop :=
  w.drv.targetIsConnected = true →
    ∃ s cidb c, w.drv.session = some s ∧ s ≠ 0 ∧ w.drv.targetCid = some cidb ∧ cidb.length = 4 ∧
      c ∈ w.net.target.base.conns ∧ c.cid = leVal cidb ∧ c.session = s

/-- transfer along a step that leaves the driver alone and is quiet on the target -/
theorem lci_Inv_qstep {S : Prop} {σ} {w w' : World σ} (hi : lci_Inv S w) (hc : lci_Conn w)
    (hd : w'.drv = w.drv) (hq : lci_QStep w.net.target.base w'.net.target.base)
    (hp : w.drv.hasSock = true → w'.net.pending = []) : lci_Inv S w' ∧ lci_Conn w' := by
  constructor
  · refine ⟨lci_QStep_TInv hq hi.t, hd ▸ hi.ctx8, hd ▸ hi.opt0, ?_, ?_, ?_⟩
    · rw [hd]; exact hp
    · obtain ⟨s, h1, h2⟩ := hi.sess
      exact ⟨s, hd ▸ h1, fun h => hq.sess ▸ h2 h⟩
    · intro hs
      have c := hi.cfg hs
      refine ⟨hd ▸ c.path, hd ▸ c.cid4, hd ▸ c.csn2, hd ▸ c.vid2, hd ▸ c.vsn4, ?_⟩
      rw [hd]
      rcases c.mode with h | ⟨h1, h2, sz, h3⟩
      · exact Or.inl h
      · exact Or.inr ⟨h1, h2, sz, lci_Ext_mem hq.log _ h3⟩
  · intro hcon
    rw [hd] at hcon
    obtain ⟨s, cidb, c, h1, h2, h3, h4, h5, h6, h7⟩ := hc hcon
    obtain ⟨c', g1, g2, g3⟩ := hq.conns c h5
    exact ⟨s, cidb, c', hd ▸ h1, h2, hd ▸ h3, h4, g1, g2.trans h6, g3.trans h7⟩

/-- the frame of a request built by the driver, as the target parses it -/
theorem lci_built {σ} {S : Prop} (w : World σ) (hi : lci_Inv S w) (r : Req) (frame : Bytes)
    (hb : buildRequest r w.drv.ctx = .ok frame) :
    ∃ s f, w.drv.session = some s ∧ parseFrame frame = some f ∧ f.command = r.command ∧ f.session = s ∧
      f.status = 0 ∧ f.options = 0 ∧ f.context = w.drv.context ∧ commonOf r w.drv.ctx f.body := by
  obtain ⟨s, common, h1, h2, _, h4⟩ := parse_built r w.drv.ctx frame hi.ctx8 hb
  exact ⟨s, _, h1, h4, rfl, rfl, rfl, hi.opt0, rfl, h2⟩

/-! ### open -/

theorem lci_registerSession {σ} (hook : ObjHook σ) (S : Prop) (w : World σ) (hi : lci_Inv S w) (hc : lci_Conn w) :
    lci_Inv S (registerSession hook w).1 ∧ lci_Conn (registerSession hook w).1 := by
  obtain ⟨s, hs, hmem⟩ := hi.sess
  unfold registerSession
  simp only [hs]
  by_cases h0 : s ≠ 0
  · rw [if_pos h0]; exact ⟨hi, hc⟩
  have h0 : s = 0 := by simpa using h0
  subst h0
  rw [if_neg (by simp)]
  have hconF : w.drv.targetIsConnected = false := by
    cases h : w.drv.targetIsConnected
    · rfl
    · obtain ⟨s', _, _, h1, h2, _⟩ := hc h
      rw [hs] at h1; cases h1; exact absurd rfl h2
  generalize hres : sendReq hook w (.registerSession [1, 0] [0, 0]) false = res
  obtain ⟨hd, hp, hcases⟩ := lci_sendReq hook w _ false hi.pend res hres
  obtain ⟨w1, r⟩ := res
  simp only [] at hd hp hcases ⊢
  rcases hcases with ⟨ht, hr⟩ | ⟨frame, hb, hsock, ht, hr⟩
  · rcases hr with ⟨h, _⟩ | ⟨e, he⟩
    · cases h
    · subst he
      simp only []
      exact lci_Inv_qstep hi hc hd (by rw [ht]; exact lci_QStep_refl _) (hp trivial)
  · obtain ⟨s', f, g1, g2, g3, g4, g5, g6, g7, g8⟩ := lci_built w hi _ frame hb
    rw [hs] at g1; cases g1
    obtain ⟨k1, k2, k3, k4, k5⟩ := lci_handle_reg hook w.net.target frame f S g2 g5 g6 g3 g4 g8 hi.t
    rw [← ht] at k1 k2 k3 k4 k5
    have hi1 : lci_Inv S w1 := by
      refine ⟨k1, hd ▸ hi.ctx8, hd ▸ hi.opt0, ?_, ⟨0, hd ▸ hs, fun h => absurd rfl h⟩, ?_⟩
      · rw [hd]; exact hp trivial
      · intro hS
        have c := hi.cfg hS
        refine ⟨hd ▸ c.path, hd ▸ c.cid4, hd ▸ c.csn2, hd ▸ c.vid2, hd ▸ c.vsn4, ?_⟩
        rw [hd]
        rcases c.mode with h | ⟨h1, h2, sz, h3⟩
        · exact Or.inl h
        · exact Or.inr ⟨h1, h2, sz, lci_Ext_mem k2 _ h3⟩
    have hc1 : lci_Conn w1 := by
      intro h; rw [hd, hconF] at h; cases h
    rcases hr with ⟨e, he⟩ | ⟨h, _⟩ | ⟨rep, hrep, hh⟩
    · subst he; exact ⟨hi1, hc1⟩
    · cases h
    · subst hrep
      simp only []
      split
      · rename_i hv
        obtain ⟨s2, m1, m2⟩ := k5 rep hh hv
        constructor
        · refine ⟨hi1.t, hi1.ctx8, hi1.opt0, hi1.pend, ⟨s2, m1, fun _ => m2⟩, ?_⟩
          intro hS
          have c := hi1.cfg hS
          exact ⟨c.path, c.cid4, c.csn2, c.vid2, c.vsn4, c.mode⟩
        · intro h
          have : w1.drv.targetIsConnected = true := h
          rw [hd, hconF] at this; cases this
      · exact ⟨hi1, hc1⟩

theorem lci_openDrv {σ} (hook : ObjHook σ) (S : Prop) (w : World σ) (rnd : Bytes) (hr : S → rnd.length = 8)
    (hi : lci_Inv S w) (hc : lci_Conn w) :
    lci_Inv S (openDrv hook w rnd).1 ∧ lci_Conn (openDrv hook w rnd).1 := by
  unfold openDrv
  split
  · exact ⟨hi, hc⟩
  · simp only []
    have hi1 : lci_Inv S ({ drv := { w.drv with hasSock := true, connectionOpened := true, cid := rnd.take 4, vsn := (rnd.drop 4).take 4 }, net := { w.net with tcpOpen := true, pending := if w.drv.hasSock then w.net.pending else [] } } : World σ) := by
      refine ⟨hi.t, hi.ctx8, hi.opt0, ?_, hi.sess, ?_⟩
      · intro _
        show (if w.drv.hasSock then w.net.pending else []) = []
        split
        · rename_i h; exact hi.pend h
        · rfl
      · intro hS
        have c := hi.cfg hS
        have hl := hr hS
        refine ⟨c.path, ?_, c.csn2, c.vid2, ?_, c.mode⟩
        · show (rnd.take 4).length = 4
          simp [hl]
        · show ((rnd.drop 4).take 4).length = 4
          simp [hl]
    have hc1 : lci_Conn ({ drv := { w.drv with hasSock := true, connectionOpened := true, cid := rnd.take 4, vsn := (rnd.drop 4).take 4 }, net := { w.net with tcpOpen := true, pending := if w.drv.hasSock then w.net.pending else [] } } : World σ) := hc
    have := lci_registerSession hook S _ hi1 hc1
    generalize registerSession hook _ = res at this ⊢
    obtain ⟨w2, r⟩ := res
    cases r with
    | error e => exact this
    | ok o => cases o <;> exact this

/-! ### generic_message, unconnected -/

def lci_route {σ} (w : World σ) (a : GenArgs) : R Bytes :=
  match a.route with
  | .useCfg => encEpath true w.drv.cipPath true true
  | .off => .ok []
  | .bytes b => .ok b
  | .str s =>
      match parseCipRouteStr s false with
      | .ok segs => encEpath true segs true true
      | .error e => .error e
  | .segs s => if s.isEmpty then .ok [] else encEpath true s true true

/-- the two shapes of the message-router request of an unconnected generic_message -/
def lci_MsgOf (a : GenArgs) (reqPath rp m : Bytes) : Prop :=
  (a.unconnectedSend = false ∧ m = [UInt8.ofNat a.service] ++ reqPath ++ a.data ++ rp) ∨
  (a.unconnectedSend = true ∧ ∃ l, u16 ([UInt8.ofNat a.service] ++ reqPath ++ a.data).length = .ok l ∧
    m = [0x52, 0x02, 0x20, 0x06, 0x24, 0x01] ++ ([0x0a, 0x05] ++ l ++ ([UInt8.ofNat a.service] ++ reqPath ++ a.data) ++
        (if ([UInt8.ofNat a.service] ++ reqPath ++ a.data).length % 2 == 1 then [0] else []) ++ rp))

/-- an unconnected generic_message is one SendRRData exchange -/
theorem lci_gm_unconn {σ} (hook : ObjHook σ) (fuel : Nat) (w : World σ) (a : GenArgs) (hc : a.connected = false)
    (g : World σ × Except Exn Tag) (hg : genericMessage hook (fuel + 1) w a = g) :
    (g.1 = w ∧ ∃ e, g.2 = .error e) ∨
    ∃ reqPath rp m, requestPath a.cls a.inst a.attr = .ok reqPath ∧ lci_route w a = .ok rp ∧
      lci_MsgOf a reqPath rp m ∧ g.1 = (sendReq hook w (.sendRR m) false).1 ∧
      ∀ tag, g.2 = .ok tag → ∃ reply, (sendReq hook w (.sendRR m) false).2 = .ok reply ∧
        errorCip reply .unconnected (parseGeneric reply .unconnected a.dataType).2.1
          (parseGeneric reply .unconnected a.dataType).2.2 = .ok tag.error ∧
        tag.value = (parseGeneric reply .unconnected a.dataType).1 := by
  unfold genericMessage at hg
  simp only [hc, Bool.false_eq_true, if_false] at hg
  split at hg
  · subst hg; exact Or.inl ⟨rfl, _, rfl⟩
  rename_i reqPath h1
  split at hg
  · subst hg; exact Or.inl ⟨rfl, _, rfl⟩
  rename_i rp h2
  split at hg
  · subst hg; exact Or.inl ⟨rfl, _, rfl⟩
  rename_i m h3
  have hm : lci_MsgOf a reqPath rp m := by
    by_cases hu : a.unconnectedSend = true
    · simp only [hu, if_true, ucs_path] at h3
      cases hl : u16 ([UInt8.ofNat a.service] ++ reqPath ++ a.data).length with
      | error e => simp only [hl] at h3; cases h3
      | ok l =>
        rw [hl] at h3
        have h3' := Except.ok.inj h3
        refine Or.inr ⟨hu, l, hl, ?_⟩
        rw [← h3']
        simp only [List.cons_append, List.nil_append, List.append_assoc]
    · have hu : a.unconnectedSend = false := by simpa using hu
      simp only [hu, Bool.false_eq_true, if_false, Except.ok.injEq] at h3
      exact Or.inl ⟨hu, h3.symm⟩
  refine Or.inr ⟨reqPath, rp, m, h1, h2, hm, ?_⟩
  split at hg
  · subst hg; exact ⟨rfl, fun tag h => by cases h⟩
  rename_i reply h4
  split at hg
  · subst hg; exact ⟨rfl, fun tag h => by cases h⟩
  rename_i err h5
  subst hg
  refine ⟨rfl, ?_⟩
  intro tag h
  simp only [Except.ok.injEq] at h
  subst h
  exact ⟨reply, h4, h5, rfl⟩

/-- one SendRRData exchange, as seen from both sides -/
theorem lci_sendRR {σ} (hook : ObjHook σ) (S : Prop) (w : World σ) (hi : lci_Inv S w) (m : Bytes)
    (res : World σ × Except Exn (Option Bytes)) (hres : sendReq hook w (.sendRR m) false = res) :
    res.1.drv = w.drv ∧ (w.drv.hasSock = true → res.1.net.pending = []) ∧
    ((res.1.net.target = w.net.target ∧ ∃ e, res.2 = .error e) ∨
     (∃ s, w.drv.session = some s ∧ s ∉ w.net.target.base.sessions ∧
        lci_QStep w.net.target.base res.1.net.target.base) ∨
     (∃ s, w.drv.session = some s ∧ s ∈ w.net.target.base.sessions ∧
        res.1.net.target = (lci_rrStep hook w.net.target s m).1 ∧
        ((∃ e, res.2 = .error e) ∨
         res.2 = .ok (some (frame CMD_SEND_RR s 0 w.drv.context
                   (cpfReplyUnconnected (lci_rrStep hook w.net.target s m).2)))))) := by
  obtain ⟨hd, hp, hcases⟩ := lci_sendReq hook w _ false hi.pend res hres
  refine ⟨hd, hp rfl, ?_⟩
  rcases hcases with ⟨ht, hr⟩ | ⟨frame, hb, hsock, ht, hr⟩
  · rcases hr with ⟨h, _⟩ | he
    · cases h
    · exact Or.inl ⟨ht, he⟩
  · obtain ⟨s, f, g1, g2, g3, g4, g5, g6, g7, g8⟩ := lci_built w hi _ frame hb
    obtain ⟨hm, g8⟩ := g8
    have hcpf : parseCpf f.body = some (.unconnected m) := by rw [g8]; exact parseCpf_unconnected m hm
    by_cases hs : s ∈ w.net.target.base.sessions
    · have hh := lci_handle_rr hook w.net.target frame f m g2 g5 g6 g3 (g4 ▸ hs) hcpf
      rw [g4, g7] at hh
      refine Or.inr (Or.inr ⟨s, g1, hs, by rw [ht, hh], ?_⟩)
      rcases hr with he | ⟨h, _⟩ | ⟨rep, hrep, hrr⟩
      · exact Or.inl he
      · cases h
      · rw [hh] at hrr
        simp only [Option.some.injEq] at hrr
        rw [hrep, ← hrr]
        exact Or.inr rfl
    · have hh := lci_handle_rr0 hook w.net.target frame f g2 g5 g6 g3 (g4 ▸ hs)
      refine Or.inr (Or.inl ⟨s, g1, hs, ?_⟩)
      rw [ht, hh]
      exact lci_QStep_event _ _ (lci_quiet_viol _ (by decide) (by decide))

/-- messages that do not reach the connection manager (directly or inside an Unconnected Send) -/
def lci_QuietMsg (m : Bytes) : Prop :=
  match isUcs m with
  | some d => ∀ inner route, unwrapUcs d = some (inner, route) →
      ∀ req, parseMR inner = some req → classInst req.path ≠ some (0x06, 1, [])
  | none => ∀ req, parseMR m = some req → classInst req.path ≠ some (0x06, 1, [])

theorem lci_rrStep_quiet {σ} (hook : ObjHook σ) (hh : lci_HookOk hook) (t : Target σ) (s : Nat) (m : Bytes)
    (hq : lci_QuietMsg m) : lci_QStep t.base (lci_rrStep hook t s m).1.base := by
  have h0 : lci_QStep t.base (t.base.event (.encap CMD_SEND_RR s true)) := lci_QStep_event _ _ (lci_quiet_encap _ _ _)
  unfold lci_QuietMsg at hq
  unfold lci_rrStep
  cases h1 : isUcs m with
  | none =>
    rw [h1] at hq
    exact lci_QStep_trans h0 (lci_execMR_quiet hook hh ⟨_, t.ext⟩ s none false false [] m (Or.inr hq))
  | some d =>
    rw [h1] at hq
    simp only [] at hq ⊢
    cases h2 : unwrapUcs d with
    | none => exact lci_QStep_trans h0 (lci_QStep_event _ _ (lci_quiet_viol _ (by decide) (by decide)))
    | some p =>
      obtain ⟨inner, route⟩ := p
      exact lci_QStep_trans h0 (lci_execMR_quiet hook hh ⟨_, t.ext⟩ s none false true route inner (Or.inr (hq inner route h2)))

/-- a SendRRData exchange with a quiet message preserves the invariant -/
theorem lci_sendRR_quiet {σ} (hook : ObjHook σ) (hh : lci_HookOk hook) (S : Prop) (w : World σ) (hi : lci_Inv S w)
    (hc : lci_Conn w) (m : Bytes) (hq : lci_QuietMsg m) :
    lci_Inv S (sendReq hook w (.sendRR m) false).1 ∧ lci_Conn (sendReq hook w (.sendRR m) false).1 := by
  obtain ⟨hd, hp, hcases⟩ := lci_sendRR hook S w hi m _ rfl
  refine lci_Inv_qstep hi hc hd ?_ hp
  rcases hcases with ⟨ht, _⟩ | ⟨s, _, _, hq'⟩ | ⟨s, _, _, ht, _⟩
  · rw [ht]; exact lci_QStep_refl _
  · exact hq'
  · rw [ht]; exact lci_rrStep_quiet hook hh _ s m hq

/-- the request does not address the Connection Manager (class 6, instance 1), as the target parses it -/
def lci_AvoidsCM (a : GenArgs) : Prop :=
  ∀ rp tail req, requestPath a.cls a.inst a.attr = .ok rp →
    parseMR (UInt8.ofNat a.service :: (rp ++ tail)) = some req → classInst req.path ≠ some (0x06, 1, [])

theorem lci_unwrapUcs_inner (d inner route : Bytes) (h : unwrapUcs d = some (inner, route)) :
    inner = (d.drop 4).take (leAt d 2 2) := by
  unfold unwrapUcs at h
  split at h
  · cases h
  · dsimp only at h
    split at h
    · cases h
    · split at h
      · cases h
      · split at h
        · cases h
        · split at h
          · cases h
          · split at h
            · cases h
            · simp only [Option.some.injEq, Prod.mk.injEq] at h
              exact h.1.symm

theorem lci_quiet_of_avoids (a : GenArgs) (ha : lci_AvoidsCM a) (reqPath rp m : Bytes)
    (h1 : requestPath a.cls a.inst a.attr = .ok reqPath) (hm : lci_MsgOf a reqPath rp m) : lci_QuietMsg m := by
  rcases hm with ⟨_, rfl⟩ | ⟨_, l, hl, rfl⟩
  · have e : [UInt8.ofNat a.service] ++ reqPath ++ a.data ++ rp = UInt8.ofNat a.service :: (reqPath ++ (a.data ++ rp)) := by
      simp
    rw [e]
    unfold lci_QuietMsg
    cases hu : isUcs (UInt8.ofNat a.service :: (reqPath ++ (a.data ++ rp))) with
    | none => exact fun req hr => ha reqPath _ req h1 hr
    | some d =>
      exfalso
      unfold isUcs at hu
      split at hu
      · rename_i req hr
        split at hu
        · rename_i hc
          exact ha reqPath _ req h1 hr hc.2
        · cases hu
      · cases hu
  · obtain ⟨rfl, hlen⟩ := u16_ok _ _ hl
    unfold lci_QuietMsg
    rw [isUcs_wrap]
    intro inner route hun req hr
    have hi := lci_unwrapUcs_inner _ _ _ hun
    generalize hI : [UInt8.ofNat a.service] ++ reqPath ++ a.data = I at hi hlen hun
    have hlv : leAt ([0x0a, 0x05] ++ leBytes 2 I.length ++ I ++ (if I.length % 2 == 1 then [0] else []) ++ rp) 2 2 = I.length := by
      obtain ⟨x, y, hxy⟩ := len2 _ (leBytes_length 2 I.length)
      have := leVal_leBytes 2 I.length (by simpa using hlen)
      rw [hxy] at this ⊢
      simpa [leAt] using this
    rw [hlv] at hi
    have : ([0x0a, 0x05] ++ leBytes 2 I.length ++ I ++ (if I.length % 2 == 1 then [0] else []) ++ rp).drop 4 =
        I ++ ((if I.length % 2 == 1 then [0] else []) ++ rp) := by
      obtain ⟨x, y, hxy⟩ := len2 _ (leBytes_length 2 I.length)
      rw [hxy]; simp
    rw [this, List.take_left'] at hi
    · subst hi
      rw [← hI] at hr
      exact ha reqPath a.data req h1 (by simpa using hr)
    · rfl

/-! ### Forward Open: the driver's request as the target parses it, the target's reply as the driver reads it -/

theorem lci_parseFo_large (cid csn vid vsn : Bytes) (h1 : cid.length = 4) (h2 : csn.length = 2) (h3 : vid.length = 2)
    (h4 : vsn.length = 4) (n : UInt8) (path : Bytes) (hp : path.length = 2 * n.toNat) :
    ∃ r, parseFo true ([0x0a, 0x05] ++ [0, 0, 0, 0] ++ cid ++ csn ++ vid ++ vsn ++ [0x07] ++ [0, 0, 0] ++
        [0x01, 0x40, 0x20, 0x00] ++ [0xA0, 0x0F, 0x00, 0x42] ++ [0x01, 0x40, 0x20, 0x00] ++ [0xA0, 0x0F, 0x00, 0x42] ++
        [0xa3] ++ (n :: path)) = some r ∧ r.size = 4000 ∧ r.path = path := by
  obtain ⟨c0, c1, c2, c3, rfl⟩ := len4 _ h1
  obtain ⟨s0, s1, rfl⟩ := len2 _ h2
  obtain ⟨v0, v1, rfl⟩ := len2 _ h3
  obtain ⟨x0, x1, x2, x3, rfl⟩ := len4 _ h4
  have e1 : leVal [0xA0, 0x0F, 0x00, 0x42] % 65536 = 4000 := by decide
  unfold parseFo
  simp only [List.cons_append, List.nil_append, if_true, leAt, u8at, List.length_cons, List.drop_succ_cons, List.drop_zero,
    List.take_succ_cons, List.take_zero, List.getD_cons_succ, List.getD_cons_zero, e1]
  rw [if_neg (by omega)]
  simp [hp]

theorem lci_parseFo_std (cid csn vid vsn : Bytes) (h1 : cid.length = 4) (h2 : csn.length = 2) (h3 : vid.length = 2)
    (h4 : vsn.length = 4) (n : UInt8) (path : Bytes) (hp : path.length = 2 * n.toNat) :
    ∃ r, parseFo false ([0x0a, 0x05] ++ [0, 0, 0, 0] ++ cid ++ csn ++ vid ++ vsn ++ [0x07] ++ [0, 0, 0] ++
        [0x01, 0x40, 0x20, 0x00] ++ [0xF4, 0x43] ++ [0x01, 0x40, 0x20, 0x00] ++ [0xF4, 0x43] ++
        [0xa3] ++ (n :: path)) = some r ∧ r.size = 500 ∧ r.path = path := by
  obtain ⟨c0, c1, c2, c3, rfl⟩ := len4 _ h1
  obtain ⟨s0, s1, rfl⟩ := len2 _ h2
  obtain ⟨v0, v1, rfl⟩ := len2 _ h3
  obtain ⟨x0, x1, x2, x3, rfl⟩ := len4 _ h4
  have e1 : leVal [0xF4, 0x43] % 512 = 500 := by decide
  unfold parseFo
  simp only [List.cons_append, List.nil_append, Bool.false_eq_true, if_false, leAt, u8at, List.length_cons, List.drop_succ_cons, List.drop_zero,
    List.take_succ_cons, List.take_zero, List.getD_cons_succ, List.getD_cons_zero, e1]
  rw [if_neg (by omega)]
  simp [hp]


/-- the target's SendRRData reply, split at the message-router reply -/
theorem lci_rr_reply_split (s svc : Nat) (ctx : Bytes) (mrr : MRReply) (hc : ctx.length = 8) :
    ∃ H : Bytes, H.length = 40 ∧
      frame CMD_SEND_RR s 0 ctx (cpfReplyUnconnected (encMRReply svc mrr)) =
        H ++ ([UInt8.ofNat (svc % 128 + 128), 0, UInt8.ofNat mrr.status, UInt8.ofNat mrr.ext.length] ++
          ((mrr.ext.map (le 2)).flatten ++ mrr.data)) := by
  refine ⟨encHeader CMD_SEND_RR (cpfReplyUnconnected (encMRReply svc mrr)).length s 0 ctx ++
    (le 4 0 ++ le 2 0 ++ le 2 2 ++ le 2 0 ++ le 2 0 ++ le 2 ITEM_UNCONNECTED_DATA ++ le 2 (encMRReply svc mrr).length), ?_, ?_⟩
  · simp [encHeader, le, leBytes_length, hc]
  · simp only [frame, cpfReplyUnconnected, encMRReply, List.append_assoc]

theorem lci_rr_reply (s svc : Nat) (ctx : Bytes) (mrr : MRReply) (hc : ctx.length = 8) (hst : mrr.status < 256)
    (raw : Bytes) (hraw : raw = frame CMD_SEND_RR s 0 ctx (cpfReplyUnconnected (encMRReply svc mrr))) :
    (mrr.status ≠ 0 → ∀ err, errorCip (some raw) .unconnected (parseGeneric (some raw) .unconnected none).2.1
        (parseGeneric (some raw) .unconnected none).2.2 = .ok err → err ≠ none) ∧
    (mrr.status = 0 → (parseGeneric (some raw) .unconnected none).1 = .bytes ((mrr.ext.map (le 2)).flatten ++ mrr.data) ∧
      errorCip (some raw) .unconnected (parseGeneric (some raw) .unconnected none).2.1
        (parseGeneric (some raw) .unconnected none).2.2 = .ok none) := by
  obtain ⟨H, hH, hsplit⟩ := lci_rr_reply_split s svc ctx mrr hc
  rw [← hraw] at hsplit
  have hlen : 44 ≤ raw.length := by rw [hsplit]; simp [hH]; omega
  have h812 : leVal (slice raw 8 12) = 0 := by
    rw [hraw, (lci_frame_slices _ _ _ _ _).2]; decide
  have b40 : byteAt raw 40 = svc % 128 + 128 := by
    rw [hsplit, byteAt, List.getD_eq_getElem?_getD, List.getElem?_append_right (by omega)]
    simp [hH]; omega
  have b42 : byteAt raw 42 = mrr.status := by
    rw [hsplit, byteAt, List.getD_eq_getElem?_getD, List.getElem?_append_right (by omega)]
    simp [hH]; omega
  have hdrop : raw.drop 44 = (mrr.ext.map (le 2)).flatten ++ mrr.data := by
    rw [hsplit, List.drop_append]
    simp [hH]
  have hpg : parseGeneric (some raw) .unconnected none =
      ((match (parseCip (some raw) .unconnected).data with | some d => PyVal.bytes d | none => PyVal.none),
       parseCip (some raw) .unconnected, validCip .unconnected (parseCip (some raw) .unconnected)) := rfl
  constructor
  · intro h0 err herr
    have hnv : validCip .unconnected (parseCip (some raw) .unconnected) = false := by
      cases hv : validCip .unconnected (parseCip (some raw) .unconnected)
      · rfl
      · exfalso
        obtain ⟨_, _, _, h4⟩ := (valid_iff .unconnected raw).1 hv
        rcases h4 with h4 | ⟨_, h5, _⟩
        · simp only [Transport.off] at h4; rw [b42] at h4; exact h0 h4
        · cases h5
    rw [hpg] at herr
    simp only [hnv] at herr
    rcases invalid_has_error .unconnected (some raw) false hnv.symm rfl with ⟨e, he⟩ | he | he
    · rw [he] at herr; cases herr; simp
    · rw [he] at herr; cases herr
    · rw [he] at herr; cases herr
  · intro h0
    have hw : StatusWordsOk .unconnected raw := by
      refine ⟨by simp only [Transport.off]; omega, h812, ?_, Or.inl ?_⟩
      · simp only [Transport.off]; rw [b40]; omega
      · simp only [Transport.off]; rw [b42]; exact h0
    have := untyped_value_is_data .unconnected raw hw
    rw [this]
    simp only [Transport.off, hdrop]
    exact ⟨trivial, by simp [errorCip]⟩

theorem lci_parseMR_cm (svcb : UInt8) (d : Bytes) :
    parseMR (svcb :: ([0x02, 0x20, 0x06, 0x24, 0x01] ++ d)) =
      some { service := svcb.toNat, path := [PSeg.logical 0 6, PSeg.logical 4 1], data := d } := by
  have h0 : parseRequestPath [0x02, 0x20, 0x06, 0x24, 0x01] = some ([PSeg.logical 0 6, PSeg.logical 4 1], []) := by
    decide
  have h1 := parseRequestPath_append _ d _ h0
  rw [parseMR, h1]

/-- a Forward Open request from a registered session reaches the connection manager -/
theorem lci_rrStep_fo {σ} (hook : ObjHook σ) (t : Target σ) (s : Nat) (svcb : UInt8) (d : Bytes)
    (hsv : svcb.toNat = 0x54 ∨ svcb.toNat = 0x5B) :
    lci_rrStep hook t s (svcb :: ([0x02, 0x20, 0x06, 0x24, 0x01] ++ d)) =
      ({ t with base := (Tgt.forwardOpen ((t.base.event (.encap CMD_SEND_RR s true)).event
            (.mr false false { service := svcb.toNat, path := [PSeg.logical 0 6, PSeg.logical 4 1], data := d } []))
            s (svcb.toNat = 0x5B) d).1 },
       encMRReply svcb.toNat (Tgt.forwardOpen ((t.base.event (.encap CMD_SEND_RR s true)).event
            (.mr false false { service := svcb.toNat, path := [PSeg.logical 0 6, PSeg.logical 4 1], data := d } []))
            s (svcb.toNat = 0x5B) d).2) := by
  have hp := lci_parseMR_cm svcb d
  have hu : isUcs (svcb :: ([0x02, 0x20, 0x06, 0x24, 0x01] ++ d)) = none := by
    unfold isUcs
    rw [hp]
    simp only []
    rw [if_neg]
    rintro ⟨h, _⟩
    rcases hsv with h' | h' <;> omega
  unfold lci_rrStep
  rw [hu]
  simp only []
  rw [lci_execMR_fo hook _ s none false [] _ _ hp rfl hsv]

/-- transfer of the invariant along a target step that logs one (possibly Forward Open) event on top of quiet ones -/
theorem lci_Inv_fo_step {S : Prop} {σ} {w w' : World σ} (hi : lci_Inv S w) (hd : w'.drv = w.drv)
    (hp : w.drv.hasSock = true → w'.net.pending = [])
    (hsess : w'.net.target.base.sessions = w.net.target.base.sessions)
    (hns : w'.net.target.base.nextSession = w.net.target.base.nextSession)
    (hnc : w'.net.target.base.nextCid < 2 ^ 32) (e : Event) (x : List Event)
    (hlog : w'.net.target.base.log = e :: (x ++ w.net.target.base.log)) (hx : ∀ y ∈ x, lci_Quiet y)
    (he1 : e ≠ .violation "SendUnitData without a registered session" ∧
           e ≠ .violation "SendUnitData on a connection that is not open")
    (he2 : S → ∀ l sz ok, e = .fo l sz ok →
      (l = true → sz = 4000) ∧ (l = false → sz = 500 ∧ ∃ z, Event.fo true z false ∈ w.net.target.base.log)) :
    lci_Inv S w' := by
  refine ⟨⟨?_, ?_, hns ▸ hi.t.ns, hnc⟩, hd ▸ hi.ctx8, hd ▸ hi.opt0, ?_, ?_, ?_⟩
  · intro y hy
    rw [hlog] at hy
    rcases List.mem_cons.1 hy with rfl | hy
    · exact he1
    · rcases List.mem_append.1 hy with h | h
      · exact (hx y h).2
      · exact hi.t.noV y h
  · intro hS
    rw [hlog]
    refine ⟨lci_FoOK_ext _ _ (hi.t.fo hS) hx, ?_⟩
    intro l sz ok he
    obtain ⟨h1, h2⟩ := he2 hS l sz ok he
    refine ⟨h1, fun hl => ?_⟩
    obtain ⟨h3, z, h4⟩ := h2 hl
    exact ⟨h3, z, List.mem_append_right _ h4⟩
  · rw [hd]; exact hp
  · obtain ⟨s, h1, h2⟩ := hi.sess
    exact ⟨s, hd ▸ h1, fun h => hsess ▸ h2 h⟩
  · intro hS
    have c := hi.cfg hS
    refine ⟨hd ▸ c.path, hd ▸ c.cid4, hd ▸ c.csn2, hd ▸ c.vid2, hd ▸ c.vsn4, ?_⟩
    rw [hd]
    rcases c.mode with h | ⟨h1, h2, sz, h3⟩
    · exact Or.inl h
    · refine Or.inr ⟨h1, h2, sz, ?_⟩
      rw [hlog]
      exact List.mem_cons_of_mem _ (List.mem_append_right _ h3)

/-- the Forward Open exchange -/
theorem lci_fo_exchange {σ} (hook : ObjHook σ) (S : Prop) (w : World σ) (hi : lci_Inv S w) (hc : lci_Conn w)
    (s : Nat) (hs : w.drv.session = some s) (hs0 : s ≠ 0) (svcb : UInt8)
    (hsv : svcb.toNat = 0x54 ∨ svcb.toNat = 0x5B) (d : Bytes)
    (hS : S → ∃ r, parseFo (svcb.toNat = 0x5B) d = some r ∧ foPathOk r.path = true ∧
       ((svcb.toNat = 0x5B ∧ r.size = 4000) ∨
        (svcb.toNat = 0x54 ∧ r.size = 500 ∧ ∃ sz, Event.fo true sz false ∈ w.net.target.base.log)))
    (res : World σ × Except Exn (Option Bytes))
    (hres : sendReq hook w (.sendRR (svcb :: ([0x02, 0x20, 0x06, 0x24, 0x01] ++ d))) false = res) :
    lci_Inv S res.1 ∧ res.1.drv = w.drv ∧
    ((∃ e, res.2 = .error e) ∨
     ∃ raw, res.2 = .ok (some raw) ∧
       (((∀ err, errorCip (some raw) .unconnected (parseGeneric (some raw) .unconnected none).2.1
              (parseGeneric (some raw) .unconnected none).2.2 = .ok err → err ≠ none) ∧
         (S → svcb.toNat = 0x5B → ∃ sz, Event.fo true sz false ∈ res.1.net.target.base.log)) ∨
        (errorCip (some raw) .unconnected (parseGeneric (some raw) .unconnected none).2.1
              (parseGeneric (some raw) .unconnected none).2.2 = .ok none ∧
         ∃ cidb rest c, (parseGeneric (some raw) .unconnected none).1 = .bytes (cidb ++ rest) ∧ cidb.length = 4 ∧
           c ∈ res.1.net.target.base.conns ∧ c.cid = leVal cidb ∧ c.session = s))) := by
  obtain ⟨hd, hp, hcases⟩ := lci_sendRR hook S w hi _ res hres
  obtain ⟨s', hs', hmem⟩ := hi.sess
  rw [hs] at hs'; cases hs'
  have hsm := hmem hs0
  rcases hcases with ⟨ht, he⟩ | ⟨s', h1, h2, _⟩ | ⟨s', h1, _, ht, hr⟩
  · exact ⟨(lci_Inv_qstep hi hc hd (by rw [ht]; exact lci_QStep_refl _) hp).1, hd, Or.inl he⟩
  · rw [hs] at h1; cases h1; exact absurd hsm h2
  · rw [hs] at h1; cases h1
    rw [lci_rrStep_fo hook _ s svcb d hsv] at ht hr
    generalize hbr : Tgt.forwardOpen ((w.net.target.base.event (.encap CMD_SEND_RR s true)).event
            (.mr false false { service := svcb.toNat, path := [PSeg.logical 0 6, PSeg.logical 4 1], data := d } []))
            s (svcb.toNat = 0x5B) d = br at ht hr
    obtain ⟨k1, k2, k3⟩ := lci_forwardOpen _ _ _ _ br hbr
    simp only [] at ht hr
    have hb' : res.1.net.target.base = br.1 := by rw [ht]
    -- the discipline of the event, when `S` holds
    have hdisc : S → ∀ r, parseFo (svcb.toNat = 0x5B) d = some r → ∀ ok0 l sz ok,
        Event.fo (decide (svcb.toNat = 0x5B)) r.size ok0 = .fo l sz ok →
        (l = true → sz = 4000) ∧ (l = false → sz = 500 ∧ ∃ z, Event.fo true z false ∈ w.net.target.base.log) := by
      intro hS' r hr' ok0 l sz ok he
      obtain ⟨r0, g1, _, g3⟩ := hS hS'
      rw [g1] at hr'; cases hr'
      injection he with e1 e2 e3
      subst e1 e2
      rcases g3 with ⟨a1, a2⟩ | ⟨a1, a2, a3⟩
      · exact ⟨fun _ => a2, fun h => by simp [a1] at h⟩
      · exact ⟨fun h => by simp [a1] at h, fun _ => ⟨a2, a3⟩⟩
    have hq2 : ∀ y ∈ [Event.mr false false { service := svcb.toNat, path := [PSeg.logical 0 6, PSeg.logical 4 1], data := d } [],
        Event.encap CMD_SEND_RR s true], lci_Quiet y := by
      intro y hy
      simp only [List.mem_cons, List.not_mem_nil, or_false] at hy
      rcases hy with rfl | rfl
      · exact lci_quiet_mr _ _ _ _
      · exact lci_quiet_encap _ _ _
    have hst : br.2.status < 256 ∧ (br.2.status ≠ 0 ∨ True) := by
      rcases k3 with ⟨_, _, _, _, h⟩ | ⟨r, _, ⟨_, _, _, h⟩ | ⟨_, _, _, _, h⟩ | ⟨_, _, h, _⟩⟩
      · exact ⟨by omega, Or.inr trivial⟩
      · exact ⟨by rcases h with h | h <;> omega, Or.inr trivial⟩
      · exact ⟨by omega, Or.inr trivial⟩
      · exact ⟨by omega, Or.inr trivial⟩
    rcases k3 with ⟨p1, p2, p3, p4, p5⟩ | ⟨r, p0, ⟨p2, p3, p4, p5⟩ | ⟨pp, p2, p3, p4, p5⟩ | ⟨p2, p4, p5, p6, c, rest, p7, p8, p9, p10⟩⟩
    · -- malformed
      have hinv : lci_Inv S res.1 := by
        refine lci_Inv_fo_step hi hd hp (by rw [hb', k1]; rfl) (by rw [hb', k2]; rfl)
          (by rw [hb', p4]; exact hi.t.nc) (.violation "malformed forward open") [Event.mr false false { service := svcb.toNat, path := [PSeg.logical 0 6, PSeg.logical 4 1], data := d } [], Event.encap CMD_SEND_RR s true] (by rw [hb', p2]; rfl) hq2
          (lci_quiet_viol _ (by decide) (by decide)).2 ?_
        intro _ l sz ok he; cases he
      refine ⟨hinv, hd, ?_⟩
      rcases hr with he | hr
      · exact Or.inl he
      · refine Or.inr ⟨_, hr, Or.inl ⟨?_, ?_⟩⟩
        · exact (lci_rr_reply s svcb.toNat w.drv.context br.2 hi.ctx8 hst.1 _ rfl).1 (by omega)
        · intro hS' _
          obtain ⟨r0, g1, _⟩ := hS hS'
          rw [p1] at g1; cases g1
    · -- refused
      have hinv : lci_Inv S res.1 := by
        refine lci_Inv_fo_step hi hd hp (by rw [hb', k1]; rfl) (by rw [hb', k2]; rfl)
          (by rw [hb', p4]; exact hi.t.nc) (.fo (svcb.toNat = 0x5B) r.size false) [Event.mr false false { service := svcb.toNat, path := [PSeg.logical 0 6, PSeg.logical 4 1], data := d } [], Event.encap CMD_SEND_RR s true] (by rw [hb', p2]; rfl) hq2
          ⟨(fun h => nomatch h), (fun h => nomatch h)⟩ ?_
        intro hS' l sz ok he
        exact hdisc hS' r p0 _ l sz ok he
      refine ⟨hinv, hd, ?_⟩
      rcases hr with he | hr
      · exact Or.inl he
      · refine Or.inr ⟨_, hr, Or.inl ⟨?_, ?_⟩⟩
        · exact (lci_rr_reply s svcb.toNat w.drv.context br.2 hi.ctx8 hst.1 _ rfl).1 (by rcases p5 with h | h <;> omega)
        · intro hS' h5b
          obtain ⟨r0, g1, _, g3⟩ := hS hS'
          rw [p0] at g1; cases g1
          refine ⟨r.size, ?_⟩
          rw [hb', p2]
          simp [h5b]
    · -- bad path
      have hinv : lci_Inv S res.1 := by
        refine lci_Inv_fo_step hi hd hp (by rw [hb', k1]; rfl) (by rw [hb', k2]; rfl)
          (by rw [hb', p4]; exact hi.t.nc) (.violation "forward open: bad connection path") [Event.mr false false { service := svcb.toNat, path := [PSeg.logical 0 6, PSeg.logical 4 1], data := d } [], Event.encap CMD_SEND_RR s true] (by rw [hb', p2]; rfl) hq2
          (lci_quiet_viol _ (by decide) (by decide)).2 ?_
        intro _ l sz ok he; cases he
      refine ⟨hinv, hd, ?_⟩
      rcases hr with he | hr
      · exact Or.inl he
      · refine Or.inr ⟨_, hr, Or.inl ⟨?_, ?_⟩⟩
        · exact (lci_rr_reply s svcb.toNat w.drv.context br.2 hi.ctx8 hst.1 _ rfl).1 (by omega)
        · intro hS' _
          obtain ⟨r0, g1, g2, _⟩ := hS hS'
          rw [p0] at g1; cases g1
          rw [pp] at g2; cases g2
    · -- accepted
      have hinv : lci_Inv S res.1 := by
        refine lci_Inv_fo_step hi hd hp (by rw [hb', k1]; rfl) (by rw [hb', k2]; rfl)
          (by rw [hb', p4]; exact Nat.mod_lt _ (by decide)) (.fo (svcb.toNat = 0x5B) r.size true) [Event.mr false false { service := svcb.toNat, path := [PSeg.logical 0 6, PSeg.logical 4 1], data := d } [], Event.encap CMD_SEND_RR s true] (by rw [hb', p2]; rfl) hq2
          ⟨(fun h => nomatch h), (fun h => nomatch h)⟩ ?_
        intro hS' l sz ok he
        exact hdisc hS' r p0 _ l sz ok he
      refine ⟨hinv, hd, ?_⟩
      rcases hr with he | hr
      · exact Or.inl he
      · refine Or.inr ⟨_, hr, Or.inr ?_⟩
        obtain ⟨q1, q2⟩ := (lci_rr_reply s svcb.toNat w.drv.context br.2 hi.ctx8 hst.1 _ rfl).2 p5
        refine ⟨q2, leBytes 4 w.net.target.base.nextCid, rest, c, ?_, leBytes_length _ _, ?_, ?_, p9⟩
        · rw [q1, p6, p10]; rfl
        · rw [hb', p7]; simp
        · rw [p8, leVal_leBytes 4 _ (by have := hi.t.nc; omega)]; rfl

/-! ### the driver's Forward Open, the decorator, and connected generic messages -/

theorem lci_cli_forwardOpen {σ} (hook : ObjHook σ) (S : Prop) (fuel : Nat) (w : World σ) (hi : lci_Inv S w)
    (hc : lci_Conn w) (r : World σ × Except Exn Bool) (hf : forwardOpen hook fuel w = r) :
    lci_Inv S r.1 ∧ lci_Conn r.1 ∧ r.1.drv.extendedFo = w.drv.extendedFo ∧
    r.1.drv.connectionSize = w.drv.connectionSize ∧
    (r.2 = .ok true → r.1.drv.targetIsConnected = true) ∧
    (S → r.2 = .ok false → w.drv.extendedFo = true →
        ∃ sz, Event.fo true sz false ∈ r.1.net.target.base.log) := by
  have triv : ∀ e, lci_Inv S (w, (Except.error e : Except Exn Bool)).1 ∧ lci_Conn (w, (Except.error e : Except Exn Bool)).1 ∧
      (w, (Except.error e : Except Exn Bool)).1.drv.extendedFo = w.drv.extendedFo ∧
      (w, (Except.error e : Except Exn Bool)).1.drv.connectionSize = w.drv.connectionSize ∧
      ((w, (Except.error e : Except Exn Bool)).2 = .ok true → (w, (Except.error e : Except Exn Bool)).1.drv.targetIsConnected = true) ∧
      (S → (w, (Except.error e : Except Exn Bool)).2 = .ok false → w.drv.extendedFo = true →
        ∃ sz, Event.fo true sz false ∈ (w, (Except.error e : Except Exn Bool)).1.net.target.base.log) :=
    fun e => ⟨hi, hc, rfl, rfl, (fun h => nomatch h), (fun _ h => nomatch h)⟩
  cases fuel with
  | zero =>
    unfold forwardOpen at hf
    subst hf; exact triv _
  | succ fuel =>
    unfold forwardOpen at hf
    by_cases hcon : w.drv.targetIsConnected = true
    · simp only [hcon, if_true] at hf
      subst hf
      exact ⟨hi, hc, rfl, rfl, fun _ => hcon, fun _ h => nomatch h⟩
    simp only [hcon, if_false, Bool.false_eq_true] at hf
    by_cases hs0 : (w.drv.session == some 0) = true
    · simp only [hs0, if_true] at hf
      subst hf; exact triv _
    simp only [hs0, if_false, Bool.false_eq_true] at hf
    split at hf
    case h_2 => subst hf; exact triv _
    rename_i np route hnp hroute
    generalize hg : genericMessage hook fuel w _ = g at hf
    obtain ⟨s, hs, hmem⟩ := hi.sess
    have hsne : s ≠ 0 := by
      intro h; subst h; rw [hs] at hs0; exact hs0 (by simp)
    cases fuel with
    | zero =>
      unfold genericMessage at hg
      subst hg
      simp only [] at hf
      subst hf; exact triv _
    | succ fuel =>
      rcases lci_gm_unconn hook fuel w _ rfl g hg with ⟨g1, e, g2⟩ | ⟨reqPath, rp, m, h1, h2, hm, g1, g2⟩
      · obtain ⟨gw, gr⟩ := g
        simp only [] at g1 g2 hf
        subst g1 g2
        simp only [] at hf
        subst hf; exact triv _
      · dsimp only at h1 h2 g2
        have e1 : reqPath = [0x02, 0x20, 0x06, 0x24, 0x01] := (Except.ok.inj (ucs_path.symm.trans h1)).symm
        have e2 : rp = route := (Except.ok.inj h2).symm
        rcases hm with ⟨_, hm⟩ | ⟨hu, _⟩
        case inr => exact (Bool.false_ne_true hu).elim
        dsimp only at hm
        subst e1 e2
        generalize hD : [10, 5] ++ [0, 0, 0, 0] ++ w.drv.cid ++ w.drv.csn ++ w.drv.vid ++ w.drv.vsn ++ [7] ++ [0, 0, 0] ++
            [1, 64, 32, 0] ++ np ++ [1, 64, 32, 0] ++ np ++ [163] = D at hm
        generalize hsvcb : UInt8.ofNat (if w.drv.extendedFo = true then 91 else 84) = svcb at hm
        have hm' : m = svcb :: ([0x02, 0x20, 0x06, 0x24, 0x01] ++ (D ++ rp)) := by rw [hm]; simp
        subst hm'
        have hsv : svcb.toNat = 0x54 ∨ svcb.toNat = 0x5B := by
          rw [← hsvcb]; cases w.drv.extendedFo
          · left; decide
          · right; decide
        have hSx : S → ∃ r, parseFo (svcb.toNat = 0x5B) (D ++ rp) = some r ∧ foPathOk r.path = true ∧
            ((svcb.toNat = 0x5B ∧ r.size = 4000) ∨
             (svcb.toNat = 0x54 ∧ r.size = 500 ∧ ∃ sz, Event.fo true sz false ∈ w.net.target.base.log)) := by
          intro hS'
          have c := hi.cfg hS'
          obtain ⟨n, path, rfl, hpl, hpo⟩ := c.path rp hroute
          rcases c.mode with ⟨m1, m2⟩ | ⟨m1, m2, m3⟩
          · rw [m1, m2] at hnp
            simp only [if_true] at hnp
            obtain ⟨rfl, _⟩ := u32_ok _ _ hnp
            have hb : leBytes 4 (4000 % 65536 + 16896 * 65536) = [0xA0, 0x0F, 0x00, 0x42] := by decide
            have hsb : svcb.toNat = 0x5B := by rw [← hsvcb, m1]; decide
            obtain ⟨r, q1, q2, q3⟩ := lci_parseFo_large w.drv.cid w.drv.csn w.drv.vid w.drv.vsn c.cid4 c.csn2 c.vid2 c.vsn4 n path hpl
            refine ⟨r, ?_, q3 ▸ hpo, Or.inl ⟨hsb, q2⟩⟩
            rw [← hD, hb]
            simpa [hsb] using q1
          · rw [m1, m2] at hnp
            simp only [Bool.false_eq_true, if_false] at hnp
            obtain ⟨rfl, _⟩ := u16_ok _ _ hnp
            have hb : leBytes 2 (500 % 512 ||| 16896) = [0xF4, 0x43] := by decide
            have hsb : svcb.toNat = 0x54 := by rw [← hsvcb, m1]; decide
            obtain ⟨r, q1, q2, q3⟩ := lci_parseFo_std w.drv.cid w.drv.csn w.drv.vid w.drv.vsn c.cid4 c.csn2 c.vid2 c.vsn4 n path hpl
            refine ⟨r, ?_, q3 ▸ hpo, Or.inr ⟨hsb, q2, m3⟩⟩
            rw [← hD, hb]
            simpa [hsb] using q1
        have X := lci_fo_exchange hook S w hi hc s hs hsne svcb hsv (D ++ rp) hSx
        have X2 := X (sendReq hook w (.sendRR (svcb :: ([0x02, 0x20, 0x06, 0x24, 0x01] ++ (D ++ rp)))) false) rfl
        have x1 := X2.1
        have x2 := X2.2.1
        have x3 := And.right (And.right X2)
        clear X X2 hg hm h1 hnp hSx
        have hcf : (sendReq hook w (.sendRR (svcb :: ([0x02, 0x20, 0x06, 0x24, 0x01] ++ (D ++ rp)))) false).1.drv.targetIsConnected = false := by
          rw [x2]; simpa using hcon
        have hcn1 : lci_Conn (sendReq hook w (.sendRR (svcb :: ([0x02, 0x20, 0x06, 0x24, 0x01] ++ (D ++ rp)))) false).1 := by
          intro h; rw [hcf] at h; cases h
        rw [← g1] at x1 x2 x3 hcf hcn1
        clear g1
        cases hgr : g.2 with
        | error e =>
          simp only [hgr] at hf
          subst hf
          exact ⟨x1, hcn1, by rw [x2], by rw [x2], (fun h => nomatch h), (fun _ h => nomatch h)⟩
        | ok tag =>
          simp only [hgr] at hf
          obtain ⟨reply, y1, y2, y3⟩ := g2 tag hgr
          rcases x3 with ⟨e, he⟩ | ⟨raw, hraw, hcase⟩
          · rw [he] at y1; cases y1
          · rw [hraw] at y1
            cases y1
            by_cases htr : tag.truthy = true
            · simp only [htr, if_true] at hf
              subst hf
              have hte : tag.error = none := by
                unfold Tag.truthy at htr
                cases h : tag.error with
                | none => rfl
                | some e => rw [h] at htr; simp at htr
              rcases hcase with ⟨z1, _⟩ | ⟨z1, cidb, rest, c, z2, z3, z4, z5, z6⟩
              · exact absurd hte (z1 _ y2)
              · have hv : tag.value = .bytes (cidb ++ rest) := y3.trans z2
                refine ⟨⟨x1.t, x1.ctx8, x1.opt0, x1.pend, x1.sess, ?_⟩, ?_, by rw [← x2], by rw [← x2], fun _ => rfl, fun _ h => nomatch h⟩
                · intro hS'
                  have c := x1.cfg hS'
                  exact ⟨c.path, c.cid4, c.csn2, c.vid2, c.vsn4, c.mode⟩
                · intro _
                  refine ⟨s, cidb, c, by rw [← hs, ← x2], hsne, ?_, z3, z4, z5, z6⟩
                  show some (match tag.value with | PyVal.bytes b => List.take 4 b | _ => []) = some cidb
                  rw [hv]
                  simp [← z3]
            · simp only [htr, Bool.false_eq_true, if_false] at hf
              subst hf
              refine ⟨x1, hcn1, by rw [x2], by rw [x2], (fun h => nomatch h), ?_⟩
              intro hS' _ hext
              rcases hcase with ⟨_, z2⟩ | ⟨z1, cidb, rest, c, z2, _⟩
              · exact z2 hS' (by rw [← hsvcb, hext]; decide)
              · exfalso
                apply htr
                have hv : tag.value = .bytes (cidb ++ rest) := y3.trans z2
                have hte : tag.error = none := by
                  rw [z1] at y2; exact (Except.ok.inj y2).symm
                simp [Tag.truthy, hv, hte]


theorem lci_cli_ensureFO {σ} (hook : ObjHook σ) (S : Prop) (fuel : Nat) (w : World σ) (hi : lci_Inv S w)
    (hc : lci_Conn w) (r : World σ × Except Exn Unit) (hf : ensureForwardOpen hook fuel w = r) :
    lci_Inv S r.1 ∧ lci_Conn r.1 ∧ (r.2 = .ok () → r.1.drv.targetIsConnected = true) := by
  cases fuel with
  | zero =>
    unfold ensureForwardOpen at hf
    subst hf; exact ⟨hi, hc, fun h => nomatch h⟩
  | succ fuel =>
    unfold ensureForwardOpen at hf
    by_cases hcon : w.drv.targetIsConnected = true
    · simp only [hcon, if_true] at hf
      subst hf; exact ⟨hi, hc, fun _ => hcon⟩
    simp only [hcon, if_false, Bool.false_eq_true] at hf
    obtain ⟨a1, a2, a3, a4, a5, a6⟩ := lci_cli_forwardOpen hook S fuel w hi hc _ rfl
    generalize forwardOpen hook fuel w = r1 at hf a1 a2 a3 a4 a5 a6
    obtain ⟨w1, o1⟩ := r1
    simp only [] at hf a1 a2 a3 a4 a5 a6
    cases o1 with
    | error e => simp only [] at hf; subst hf; exact ⟨a1, a2, fun h => nomatch h⟩
    | ok b =>
      cases b with
      | true => simp only [] at hf; subst hf; exact ⟨a1, a2, fun _ => a5 rfl⟩
      | false =>
        simp only [] at hf
        by_cases hext : w1.drv.extendedFo = true
        · simp only [hext, if_true] at hf
          have hi2 : lci_Inv S ({ w1 with drv := { w1.drv with extendedFo := false, connectionSize := 500 } } : World σ) := by
            refine ⟨a1.t, a1.ctx8, a1.opt0, a1.pend, a1.sess, ?_⟩
            intro hS
            have c := a1.cfg hS
            exact ⟨c.path, c.cid4, c.csn2, c.vid2, c.vsn4, Or.inr ⟨rfl, rfl, a6 hS rfl (a3 ▸ hext)⟩⟩
          have hc2 : lci_Conn ({ w1 with drv := { w1.drv with extendedFo := false, connectionSize := 500 } } : World σ) := a2
          obtain ⟨b1, b2, b3, b4, b5, b6⟩ := lci_cli_forwardOpen hook S fuel _ hi2 hc2 _ rfl
          generalize forwardOpen hook fuel _ = r2 at hf b1 b2 b3 b4 b5 b6
          obtain ⟨w3, o3⟩ := r2
          simp only [] at hf b1 b2 b5
          cases o3 with
          | error e => simp only [] at hf; subst hf; exact ⟨b1, b2, fun h => nomatch h⟩
          | ok b =>
            cases b with
            | true => simp only [] at hf; subst hf; exact ⟨b1, b2, fun _ => b5 rfl⟩
            | false => simp only [] at hf; subst hf; exact ⟨b1, b2, fun h => nomatch h⟩
        · simp only [hext, if_false, Bool.false_eq_true] at hf
          subst hf; exact ⟨a1, a2, fun h => nomatch h⟩

/-- a connected request on an open connection is quiet -/
theorem lci_sendUnit {σ} (hook : ObjHook σ) (hh : lci_HookOk hook) (S : Prop) (w : World σ) (hi : lci_Inv S w)
    (hc : lci_Conn w) (hcon : w.drv.targetIsConnected = true) (seq : Nat) (m : Bytes) :
    lci_Inv S (sendReq hook w (.sendUnit seq m) false).1 ∧ lci_Conn (sendReq hook w (.sendUnit seq m) false).1 := by
  obtain ⟨hd, hp, hcases⟩ := lci_sendReq hook w _ false hi.pend _ rfl
  refine lci_Inv_qstep hi hc hd ?_ (hp rfl)
  rcases hcases with ⟨ht, _⟩ | ⟨frame, hb, hsock, ht, _⟩
  · rw [ht]; exact lci_QStep_refl _
  · obtain ⟨s, f, g1, g2, g3, g4, g5, g6, g7, g8⟩ := lci_built w hi _ frame hb
    obtain ⟨s', cidb, c, k1, k2, k3, k4, k5, k6, k7⟩ := hc hcon
    rw [g1] at k1; cases k1
    obtain ⟨hseq, hm, _, g8⟩ := g8
    have hcpf : parseCpf f.body = some (.connected (leVal cidb) seq m) := by
      rw [g8]
      have : w.drv.ctx.targetCid = some cidb := k3
      rw [this]
      exact parseCpf_connected cidb m seq k4 hseq hm
    obtain ⟨s2, hs2, hmem⟩ := hi.sess
    rw [g1] at hs2; cases hs2
    rw [ht]
    exact lci_handle_unit hook hh w.net.target frame f (leVal cidb) seq m g2 g5 g6 g3 (g4 ▸ hmem k2) hcpf
      ⟨c, k5, k6, k7.trans g4.symm⟩

theorem lci_cli_generic {σ} (hook : ObjHook σ) (hh : lci_HookOk hook) (S : Prop) (fuel : Nat) (w : World σ)
    (a : GenArgs) (ha : lci_AvoidsCM a) (hi : lci_Inv S w) (hc : lci_Conn w) :
    lci_Inv S (genericMessage hook fuel w a).1 ∧ lci_Conn (genericMessage hook fuel w a).1 := by
  cases fuel with
  | zero => unfold genericMessage; exact ⟨hi, hc⟩
  | succ fuel =>
    by_cases hcn : a.connected = true
    · generalize hg : genericMessage hook (fuel + 1) w a = g
      unfold genericMessage at hg
      simp only [hcn, if_true] at hg
      obtain ⟨b1, b2, b3⟩ := lci_cli_ensureFO hook S fuel w hi hc _ rfl
      generalize ensureForwardOpen hook fuel w = r0 at hg b1 b2 b3
      obtain ⟨w0, o0⟩ := r0
      simp only [] at hg b1 b2 b3
      cases o0 with
      | error e => simp only [] at hg; subst hg; exact ⟨b1, b2⟩
      | ok u =>
        simp only [] at hg
        split at hg
        · subst hg; exact ⟨b1, b2⟩
        · rename_i reqPath hrp
          have hi1 : lci_Inv S ({ w0 with drv := w0.drv.nextSeq.2 } : World σ) := by
            refine ⟨b1.t, b1.ctx8, b1.opt0, b1.pend, b1.sess, ?_⟩
            intro hS
            have c := b1.cfg hS
            exact ⟨c.path, c.cid4, c.csn2, c.vid2, c.vsn4, c.mode⟩
          have hc1 : lci_Conn ({ w0 with drv := w0.drv.nextSeq.2 } : World σ) := b2
          have hcon1 : ({ w0 with drv := w0.drv.nextSeq.2 } : World σ).drv.targetIsConnected = true := b3 rfl
          have := lci_sendUnit hook hh S _ hi1 hc1 hcon1 w0.drv.nextSeq.1 ([UInt8.ofNat a.service] ++ reqPath ++ a.data)
          split at hg
          · subst hg; exact this
          · split at hg
            · subst hg; exact this
            · subst hg; exact this
    · have hcn : a.connected = false := by simpa using hcn
      generalize hg : genericMessage hook (fuel + 1) w a = g
      rcases lci_gm_unconn hook fuel w a hcn g hg with ⟨g1, _⟩ | ⟨reqPath, rp, m, h1, h2, hm, g1, _⟩
      · rw [g1]; exact ⟨hi, hc⟩
      · rw [g1]
        exact lci_sendRR_quiet hook hh S w hi hc m (lci_quiet_of_avoids a ha reqPath rp m h1 hm)

/-! ### close -/

/-- what holds of the intermediate worlds of `close()` relative to the world `w` it started from -/
structure lci_Mid (S : Prop) {σ} (w w1 : World σ) : Prop where
  t : lci_TInv S w1.net.target.base
  log : ∀ e ∈ w.net.target.base.log, e ∈ w1.net.target.base.log
  drv : ∃ tc ss, w1.drv = { w.drv with targetIsConnected := tc, session := ss }

theorem lci_Mid_refl {S : Prop} {σ} (w : World σ) (hi : lci_Inv S w) : lci_Mid S w w :=
  ⟨hi.t, fun _ h => h, ⟨w.drv.targetIsConnected, w.drv.session, rfl⟩⟩

theorem lci_rrStep_nofo {σ} (hook : ObjHook σ) (hh : lci_HookOk hook) (t : Target σ) (s : Nat) (svcb : UInt8) (d : Bytes)
    (hsv : svcb.toNat = 0x4E) :
    lci_Ext lci_Quiet t.base.log (lci_rrStep hook t s (svcb :: ([0x02, 0x20, 0x06, 0x24, 0x01] ++ d))).1.base.log ∧
    (lci_rrStep hook t s (svcb :: ([0x02, 0x20, 0x06, 0x24, 0x01] ++ d))).1.base.nextSession = t.base.nextSession ∧
    (lci_rrStep hook t s (svcb :: ([0x02, 0x20, 0x06, 0x24, 0x01] ++ d))).1.base.nextCid = t.base.nextCid := by
  have hp := lci_parseMR_cm svcb d
  have hu : isUcs (svcb :: ([0x02, 0x20, 0x06, 0x24, 0x01] ++ d)) = none := by
    unfold isUcs
    rw [hp]
    simp only []
    rw [if_neg]
    rintro ⟨h, _⟩
    omega
  unfold lci_rrStep
  rw [hu]
  simp only []
  obtain ⟨_, e2, e3, e4⟩ := lci_execMR_nofo hook hh
    ⟨t.base.event (.encap CMD_SEND_RR s true), t.ext⟩ s none false false [] (svcb :: ([0x02, 0x20, 0x06, 0x24, 0x01] ++ d))
    (by intro req hr; rw [hp] at hr; cases hr; simp only []; omega)
  exact ⟨lci_Ext_trans (lci_Ext_one _ _ (lci_quiet_encap _ _ _)) e2, e3, e4⟩

/-- `forwardClose` with the fuel of its inner generic_message as a parameter -/
def lci_forwardCloseF {σ} (hook : ObjHook σ) (fuel : Nat) (w : World σ) : World σ × Except Exn Bool :=
  if w.drv.session == some 0 then (w, .error .comm) else
  let d := w.drv
  match encEpath true (d.cipPath ++ msgRouterPath) true true with
  | .error e => (w, .error e)
  | .ok route =>
    let (w1, r) := genericMessage hook fuel w
      { service := 0x4E, cls := .bytes [0x06], inst := .bytes [0x01], connected := false, route := .bytes route,
        data := [0x0a, 0x05] ++ d.csn ++ d.vid ++ d.vsn, name := nm "forward_close" }
    match r with
    | .error e => (w1, .error e)
    | .ok tag =>
        if tag.truthy then ({ w1 with drv := { w1.drv with targetIsConnected := false } }, .ok true)
        else (w1, .ok false)

theorem lci_cli_forwardCloseF {σ} (hook : ObjHook σ) (hh : lci_HookOk hook) (S : Prop) (fuel : Nat) (w : World σ)
    (hi : lci_Inv S w) (r : World σ × Except Exn Bool) (hf : lci_forwardCloseF hook fuel w = r) :
    lci_Mid S w r.1 ∧ (r.1.drv.hasSock = true → r.1.net.pending = []) := by
  unfold lci_forwardCloseF at hf
  by_cases hs0 : (w.drv.session == some 0) = true
  · simp only [hs0, if_true] at hf
    subst hf; exact ⟨lci_Mid_refl w hi, hi.pend⟩
  simp only [hs0, if_false, Bool.false_eq_true] at hf
  split at hf
  · subst hf; exact ⟨lci_Mid_refl w hi, hi.pend⟩
  rename_i route hroute
  generalize hg : genericMessage hook fuel w _ = g at hf
  have key : lci_Mid S w g.1 ∧ (g.1.drv.hasSock = true → g.1.net.pending = []) ∧ g.1.drv = w.drv := by
    cases fuel with
    | zero =>
      unfold genericMessage at hg
      subst hg
      exact ⟨lci_Mid_refl w hi, hi.pend, rfl⟩
    | succ fuel =>
    rcases lci_gm_unconn hook fuel w _ rfl g hg with ⟨g1, _⟩ | ⟨reqPath, rp, m, h1, h2, hm, g1, _⟩
    · rw [g1]; exact ⟨lci_Mid_refl w hi, hi.pend, rfl⟩
    · dsimp only at h1 h2
      have e1 : reqPath = [0x02, 0x20, 0x06, 0x24, 0x01] := (Except.ok.inj (ucs_path.symm.trans h1)).symm
      have e2 : rp = route := (Except.ok.inj h2).symm
      rcases hm with ⟨_, hm⟩ | ⟨hu, _⟩
      case inr => exact (Bool.false_ne_true hu).elim
      dsimp only at hm
      subst e1 e2
      generalize hD : [10, 5] ++ w.drv.csn ++ w.drv.vid ++ w.drv.vsn = D at hm
      have hm' : m = UInt8.ofNat 0x4E :: ([0x02, 0x20, 0x06, 0x24, 0x01] ++ (D ++ rp)) := by rw [hm]; simp
      subst hm'
      obtain ⟨hd, hp, hcases⟩ := lci_sendRR hook S w hi _ _ rfl
      rw [g1]
      refine ⟨⟨?_, ?_, ⟨w.drv.targetIsConnected, w.drv.session, by rw [hd]⟩⟩, by rw [hd]; exact hp, hd⟩
      · rcases hcases with ⟨ht, _⟩ | ⟨s, _, _, hq⟩ | ⟨s, _, _, ht, _⟩
        · rw [ht]; exact hi.t
        · exact lci_QStep_TInv hq hi.t
        · rw [ht]
          obtain ⟨k1, k2, k3⟩ := lci_rrStep_nofo hook hh w.net.target s (UInt8.ofNat 0x4E) (D ++ rp) (by decide)
          exact lci_TInv_ext hi.t k1 (k2 ▸ hi.t.ns) (k3 ▸ hi.t.nc)
      · rcases hcases with ⟨ht, _⟩ | ⟨s, _, _, hq⟩ | ⟨s, _, _, ht, _⟩
        · rw [ht]; exact fun _ h => h
        · exact fun e he => lci_Ext_mem hq.log e he
        · rw [ht]
          obtain ⟨k1, _, _⟩ := lci_rrStep_nofo hook hh w.net.target s (UInt8.ofNat 0x4E) (D ++ rp) (by decide)
          exact fun e he => lci_Ext_mem k1 e he
  obtain ⟨k1, k2, k3⟩ := key
  cases hgr : g.2 with
  | error e => simp only [hgr] at hf; subst hf; exact ⟨k1, k2⟩
  | ok tag =>
    simp only [hgr] at hf
    by_cases htr : tag.truthy = true
    · simp only [htr, if_true] at hf
      subst hf
      refine ⟨⟨k1.t, k1.log, ?_⟩, k2⟩
      obtain ⟨tc, ss, h⟩ := k1.drv
      exact ⟨false, ss, by simp only [h]⟩
    · simp only [htr, Bool.false_eq_true, if_false] at hf
      subst hf; exact ⟨k1, k2⟩

theorem lci_cli_forwardClose {σ} (hook : ObjHook σ) (hh : lci_HookOk hook) (S : Prop) (w : World σ) (hi : lci_Inv S w) :
    lci_Mid S w (forwardClose hook w).1 ∧
    ((forwardClose hook w).1.drv.hasSock = true → (forwardClose hook w).1.net.pending = []) := by
  have key : ∀ fuel, FUEL = fuel → forwardClose hook w = lci_forwardCloseF hook fuel w := by
    intro fuel hfu
    unfold forwardClose lci_forwardCloseF
    rw [hfu]
    rfl
  rw [key FUEL rfl]
  exact lci_cli_forwardCloseF hook hh S FUEL w hi _ rfl

/-- the UnRegisterSession step of close() -/
theorem lci_unreg_step {σ} (hook : ObjHook σ) (S : Prop) (w wa : World σ) (hm : lci_Mid S w wa)
    (hctx : w.drv.context.length = 8) (hopt : w.drv.option = 0)
    (hp : wa.drv.hasSock = true → wa.net.pending = []) :
    lci_Mid S w (sendReq hook wa .unregisterSession true).1 := by
  obtain ⟨hd, _, hcases⟩ := lci_sendReq hook wa .unregisterSession true hp _ rfl
  obtain ⟨tc, ss, hdrv⟩ := hm.drv
  refine ⟨?_, ?_, ⟨tc, ss, by rw [hd, hdrv]⟩⟩
  · rcases hcases with ⟨ht, _⟩ | ⟨frame, hb, _, ht, _⟩
    · rw [ht]; exact hm.t
    · have hc8 : wa.drv.ctx.context.length = 8 := by show wa.drv.context.length = 8; rw [hdrv]; exact hctx
      obtain ⟨s, common, h1, h2, _, h4⟩ := parse_built _ wa.drv.ctx frame hc8 hb
      rw [ht]
      refine (lci_handle_unreg hook wa.net.target frame _ S h4 rfl ?_ rfl hm.t).1
      show wa.drv.option = 0
      rw [hdrv]; exact hopt
  · intro e he
    have he' := hm.log e he
    rcases hcases with ⟨ht, _⟩ | ⟨frame, hb, _, ht, _⟩
    · rw [ht]; exact he'
    · have hc8 : wa.drv.ctx.context.length = 8 := by show wa.drv.context.length = 8; rw [hdrv]; exact hctx
      obtain ⟨s, common, h1, h2, _, h4⟩ := parse_built _ wa.drv.ctx frame hc8 hb
      rw [ht]
      refine lci_Ext_mem (lci_handle_unreg hook wa.net.target frame _ S h4 rfl ?_ rfl hm.t).2 e he'
      show wa.drv.option = 0
      rw [hdrv]; exact hopt

/-- the last step of close(): socket closed, driver state reset -/
theorem lci_close_final {σ} (S : Prop) (w w1 : World σ) (hi : lci_Inv S w) (hm : lci_Mid S w w1) :
    lci_Inv S ({ drv := { w1.drv with hasSock := false, targetIsConnected := false, session := some 0, connectionOpened := false }, net := if w1.drv.hasSock then w1.net.sockClose else w1.net } : World σ) ∧
    lci_Conn ({ drv := { w1.drv with hasSock := false, targetIsConnected := false, session := some 0, connectionOpened := false }, net := if w1.drv.hasSock then w1.net.sockClose else w1.net } : World σ) := by
  obtain ⟨tc, ss, hdrv⟩ := hm.drv
  have hbase : ((if w1.drv.hasSock then w1.net.sockClose else w1.net).target.base.log = w1.net.target.base.log) ∧
      ((if w1.drv.hasSock then w1.net.sockClose else w1.net).target.base.nextSession = w1.net.target.base.nextSession) ∧
      ((if w1.drv.hasSock then w1.net.sockClose else w1.net).target.base.nextCid = w1.net.target.base.nextCid) := by
    split
    · unfold Net.sockClose
      split
      · exact ⟨rfl, rfl, rfl⟩
      · exact ⟨rfl, rfl, rfl⟩
    · exact ⟨rfl, rfl, rfl⟩
  obtain ⟨hl, hns, hnc⟩ := hbase
  constructor
  · refine ⟨⟨?_, ?_, ?_, ?_⟩, ?_, ?_, (fun h => nomatch h), ⟨0, rfl, fun h => absurd rfl h⟩, ?_⟩
    · show ∀ e ∈ (if w1.drv.hasSock then w1.net.sockClose else w1.net).target.base.log, _
      rw [hl]; exact hm.t.noV
    · intro hS
      show lci_FoOK (if w1.drv.hasSock then w1.net.sockClose else w1.net).target.base.log
      rw [hl]; exact hm.t.fo hS
    · show (if w1.drv.hasSock then w1.net.sockClose else w1.net).target.base.nextSession < _
      rw [hns]; exact hm.t.ns
    · show (if w1.drv.hasSock then w1.net.sockClose else w1.net).target.base.nextCid < _
      rw [hnc]; exact hm.t.nc
    · show w1.drv.context.length = 8
      rw [hdrv]; exact hi.ctx8
    · show w1.drv.option = 0
      rw [hdrv]; exact hi.opt0
    · intro hS
      have c := hi.cfg hS
      refine ⟨?_, ?_, ?_, ?_, ?_, ?_⟩
      · show lci_PathOk w1.drv.cipPath
        rw [hdrv]; exact c.path
      · show w1.drv.cid.length = 4
        rw [hdrv]; exact c.cid4
      · show w1.drv.csn.length = 2
        rw [hdrv]; exact c.csn2
      · show w1.drv.vid.length = 2
        rw [hdrv]; exact c.vid2
      · show w1.drv.vsn.length = 4
        rw [hdrv]; exact c.vsn4
      · show (w1.drv.extendedFo = true ∧ w1.drv.connectionSize = 4000) ∨
          (w1.drv.extendedFo = false ∧ w1.drv.connectionSize = 500 ∧
            ∃ sz, Event.fo true sz false ∈ (if w1.drv.hasSock then w1.net.sockClose else w1.net).target.base.log)
        rw [hl, hdrv]
        rcases c.mode with h | ⟨h1, h2, sz, h3⟩
        · exact Or.inl h
        · exact Or.inr ⟨h1, h2, sz, hm.log _ h3⟩
  · intro h; cases h

theorem lci_closeDrv {σ} (hook : ObjHook σ) (hh : lci_HookOk hook) (S : Prop) (w : World σ) (hi : lci_Inv S w) :
    lci_Inv S (closeDrv hook w).1 ∧ lci_Conn (closeDrv hook w).1 := by
  -- first try block, part one: forward close
  have hA : ∃ wa, lci_Mid S w wa ∧ (wa.drv.hasSock = true → wa.net.pending = []) ∧
      ((closeDrv hook w).1 = ({ drv := { wa.drv with hasSock := false, targetIsConnected := false, session := some 0, connectionOpened := false }, net := if wa.drv.hasSock then wa.net.sockClose else wa.net } : World σ) ∨
       (closeDrv hook w).1 = ({ drv := { (sendReq hook wa .unregisterSession true).1.drv with hasSock := false, targetIsConnected := false, session := some 0, connectionOpened := false }, net := if (sendReq hook wa .unregisterSession true).1.drv.hasSock then (sendReq hook wa .unregisterSession true).1.net.sockClose else (sendReq hook wa .unregisterSession true).1.net } : World σ)) := by
    generalize hf : closeDrv hook w = r
    unfold closeDrv at hf
    by_cases hcon : w.drv.targetIsConnected = true
    · obtain ⟨m1, m2⟩ := lci_cli_forwardClose hook hh S w hi
      simp only [hcon, if_true] at hf
      generalize forwardClose hook w = fc at hf m1 m2
      obtain ⟨wf, rf⟩ := fc
      cases rf with
      | error e =>
        simp only [] at hf
        subst hf
        exact ⟨wf, m1, m2, Or.inl rfl⟩
      | ok b =>
        simp only [] at hf
        refine ⟨wf, m1, m2, ?_⟩
        by_cases hs : (wf.drv.session != some 0) = true
        · simp only [hs, if_true] at hf
          generalize hsr : sendReq hook wf .unregisterSession true = sr at hf
          obtain ⟨wb, rb⟩ := sr
          cases rb <;> (simp only [] at hf; subst hf; exact Or.inr rfl)
        · simp only [hs, if_false, Bool.false_eq_true] at hf
          subst hf
          exact Or.inl rfl
    · simp only [hcon, if_false, Bool.false_eq_true] at hf
      refine ⟨w, lci_Mid_refl w hi, hi.pend, ?_⟩
      by_cases hs : (w.drv.session != some 0) = true
      · simp only [hs, if_true] at hf
        generalize hsr : sendReq hook w .unregisterSession true = sr at hf
        obtain ⟨wb, rb⟩ := sr
        cases rb <;> (simp only [] at hf; subst hf; exact Or.inr rfl)
      · simp only [hs, if_false, Bool.false_eq_true] at hf
        subst hf
        exact Or.inl rfl
  obtain ⟨wa, m1, m2, hcase⟩ := hA
  rcases hcase with h | h
  · rw [h]; exact lci_close_final S w wa hi m1
  · rw [h]
    exact lci_close_final S w _ hi (lci_unreg_step hook S w wa m1 hi.ctx8 hi.opt0 m2)

/-! ### checkable form of the hypothesis on generic_message arguments, log discipline in event order -/

/-- Boolean check: the request path built from the arguments does not address the Connection Manager
    (class 6, instance 1) as the target parses it. `true` when the path cannot be encoded at all (nothing is sent). -/
def lci_avoidsCM (a : GenArgs) : Bool :=
  match requestPath a.cls a.inst a.attr with
  | .error _ => true
  | .ok rp =>
    match parseRequestPath rp with
    | some (segs, []) => classInst segs != some (0x06, 1, [])
    | _ => false

theorem lci_avoids_of_check (a : GenArgs) (h : lci_avoidsCM a = true) : lci_AvoidsCM a := by
  intro rp tail req h1 hp hci
  unfold lci_avoidsCM at h
  rw [h1] at h
  simp only [] at h
  split at h
  · rename_i segs hseg
    have h3 := parseRequestPath_append rp tail segs hseg
    simp only [parseMR, h3, Option.some.injEq] at hp
    subst hp
    simp only [] at hci
    rw [hci] at h
    simp at h
  · cases h

/-- integer class ids other than 6 never address the Connection Manager -/
theorem lci_avoids_int (a : GenArgs) (cls inst attr : Nat) (hc : cls < 2 ^ 32) (hi : inst < 2 ^ 32) (ha : attr < 2 ^ 32)
    (h6 : cls ≠ 6) (h1 : a.cls = .int cls) (h2 : a.inst = .int inst) (h3 : a.attr = .int attr) :
    lci_avoidsCM a = true := by
  obtain ⟨bs, e1, e2⟩ := request_path_denotes cls inst attr hc hi ha
  unfold lci_avoidsCM
  rw [h1, h2, h3, e1]
  simp only [e2]
  by_cases h0 : attr = 0
  · simp [h0, classInst, h6]
  · simp [h0, classInst, h6]

theorem lci_FoOK_suffix (a b : List Event) (h : lci_FoOK (a ++ b)) : lci_FoOK b := by
  induction a with
  | nil => exact h
  | cons e a ih => exact ih h.1

/-- the discipline on the newest-first log, read in event order -/
theorem lci_FoOK_events (log : List Event) (h : lci_FoOK log) :
    ∀ pre large size ok post, log.reverse = pre ++ Event.fo large size ok :: post →
      (large = true → size = 4000) ∧
      (large = false → size = 500 ∧ ∃ sz, Event.fo true sz false ∈ pre) := by
  intro pre large size ok post he
  have hl : log = post.reverse ++ (Event.fo large size ok :: pre.reverse) := by
    have := congrArg List.reverse he
    simpa using this
  rw [hl] at h
  have h2 := (lci_FoOK_suffix _ _ h).2 large size ok rfl
  refine ⟨h2.1, fun hf => ?_⟩
  obtain ⟨h3, sz, h4⟩ := h2.2 hf
  exact ⟨h3, sz, by simpa using h4⟩

end Pycomm.Cli
