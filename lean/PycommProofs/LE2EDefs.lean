/-
  Shared definitions for the end-to-end laws of the Logix tag services (LogixE2ERead / LogixE2EWrite).
-/
import PycommModel.Logix.Client
namespace Pycomm.Lgx.E2E
open Pycomm Pycomm.Tgt Pycomm.Path Pycomm.Lgx Pycomm.Lgx.Cl

/-- the request-path bytes (word count + padded EPATH) denote `segs` for the controller's strict parser;
    C09 `tag_path_denotes` / `tag_path_instance` establish this for every rendered tag string -/
def Denotes (path : Bytes) (segs : List PSeg) : Prop := parseRequestPath path = some (segs, [])

/-- effect of one write-type service on the project -/
def written (p : Project) (loc : Loc) (off : Nat) (d : Bytes) : Project :=
  logWrite (p.updateSymbol loc fun s => { s with mem := splice s.mem off d }) loc off d.length

/-- type codes travel in two bytes and an elementary code is never the structure marker -/
def TyOk (ty : ElTy) : Prop := ∀ c, ty = .atomic c → c < 256

end Pycomm.Lgx.E2E
