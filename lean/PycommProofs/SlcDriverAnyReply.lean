/-
  C13 / C18 at the driver level for ARBITRARY reply bytes: `SLCDriver.read(*addresses)` / `SLCDriver.write(*pairs)`
  when the next reply the driver reads is ANY byte string `raw` — well-formed, carrying an error status, truncated
  anywhere, or garbage.

  How an arbitrary reply enters the model (no change to it): as in LogixDriverAnyReply — the transport's queue
  `w.net.pending` holds `some raw` at its head, so `_receive` returns `raw` for the next request (the target's own
  answer is queued behind it).  No hypothesis on the target, the hook, the session or the rest of the queue.

  Helpers (lemma prefix `sda_`):
    SlcAny1  transport with the queue advancing (`sda_sendReq_step`, `sda_sendPccc_step`, `sda_sendPccc_exact`), the
             request builders raise DataError only, `request_status` and `_parse_read_reply` over arbitrary bytes
    SlcAny2  `sda_ReplyOk` (the PCCC-level checks), `sda_replyRefused_cases` (the status words), the outcome of one
             `_read_tag` / `_write_tag` as a function of (address, reply) (`sda_readOutcome`, `sda_writeOutcome`) and its
             judged Tag (`sda_readOutcome_cases`, `sda_writeOutcome_cases`), `sda_readTag_step`, `sda_writeTag_step`,
             `…_exact`, the list comprehensions (`sda_readTags_any`, `sda_writeTags_any`)
    SlcAny3  `sda_ReplyOk` in plain terms for the 16-bit files (`sda_ReplyOk_word_iff`, `sda_ReplyOk_bit_iff`)

  HISTORY OF A FINDING (found here → confirmed on the real driver → repaired).  While proving the first version of
  these theorems the requested statement "`tag.truthy` ⇒ encapsulation status 0 ∧ CIP general status 0 ∧ PCCC STS 0 ∧ the
  data decode" turned out FALSE of the model and of the library (pycomm3 1.2.14, scripted socket): `_read_tag` /
  `_write_tag` judged a reply by byte 58 (`request_status(response.raw)`) and by `_parse_read_reply(response.raw[61:])`
  alone and never consulted `response` itself, so
    * `read("N7:1")` over the healthy reply with encapsulation status 0x65 (`with65 rawGood`), with general status 8
      (`withGs8 rawGood`), or over 63 zero bytes (`zeros 63`) returned a TRUTHY Tag (-1 / -1 / 0, error None);
    * `write(("N7:1", 5))` over 59 zero bytes, or over a reply with encapsulation status 0x65 whose byte 58 is 0, returned
      a truthy Tag echoing 5.
  The library was repaired: both methods now begin with `if not response: return Tag(tag, None, file_type,
  response.error)` (model: `replyRefused`, `refusedTag`).  The theorems below are stated for the repaired behaviour,
  which is what was originally asked; the old counterexample replies are kept as `#guard`s and now give FALSY Tags with
  the error text of the status word; `slc_bad_status_words_never_truthy` replaces the former blindness theorem.

  Remaining observations (not defects of the status handling):
    * a reply cut INSIDE its extended status (e.g. 49 bytes, general status 5) makes `response.error` raise
      BufferEmptyError / DataError out of `read` / `write` — library exceptions, as for the Logix driver;
    * `Reply.StatusWordsOk .connected` is the response class's own rule: general status 6 counts as OK when the reply
      service byte is that of a service that legitimately continues (kept as a `#guard`);
    * the number of elements a reply holds is not compared with the `{n}` asked for: `read("N7:0{3}")` over a reply holding
      two words returns a truthy list of two (`slc_read_truthy_iff_plain`);
    * `write((bit address, None))` echoes None: a falsy Tag WITHOUT error even over a healthy reply (`sda_WriteJudged`).
-/
import PycommProofs.SlcAny3
import PycommProofs.SlcDriverProofs
namespace Pycomm.Slc.Drv
open Pycomm Pycomm.Tgt Pycomm.Slc Pycomm.Encap Pycomm.Lgx.Drv Pycomm.Reply

/-- the exceptions `read` / `write` can raise over an arbitrary reply once the address is accepted (and the value
    encodable): CommError (no socket, sending or receiving failed), DataError (the request cannot be encoded: byte size
    above 255, an address field above 65535, session handle / connection id / sequence count out of range; or
    `response.error` raised while rendering the extended status of a reply cut inside it), BufferEmptyError (the same
    rendering) -/
def sda_Exn (e : Exn) : Prop := e = .comm ∨ e = .data ∨ e = .bufferEmpty

theorem sda_Exn_library (e : Exn) (h : sda_Exn e) : e.isLibrary = true := by
  rcases h with rfl | rfl | rfl <;> rfl

theorem sda_slcRead_connected {σ} (hook : ObjHook σ) (w : Cli.World σ) (ts : List Name)
    (hconn : w.drv.targetIsConnected = true) : slcRead hook w ts = readTags hook w ts := by
  unfold slcRead
  rw [sdr_FUEL, sdr_ensureFO_connected hook 7 w hconn]

theorem sda_slcWrite_connected {σ} (hook : ObjHook σ) (w : Cli.World σ) (avs : List (Name × PyVal))
    (hconn : w.drv.targetIsConnected = true) : slcWrite hook w avs = writeTags hook w avs := by
  unfold slcWrite
  rw [sdr_FUEL, sdr_ensureFO_connected hook 7 w hconn]

theorem sda_readTags_single {σ} (hook : ObjHook σ) (w : Cli.World σ) (t : Name) :
    readTags hook w [t] = (match readTag hook w t with
      | (w1, .error e) => (w1, .error e)
      | (w1, .ok tg) => (w1, .ok [tg])) := by
  simp only [readTags]
  rcases readTag hook w t with ⟨w1, r⟩
  cases r <;> rfl

theorem sda_writeTags_single {σ} (hook : ObjHook σ) (w : Cli.World σ) (t : Name) (v : PyVal) :
    writeTags hook w [(t, v)] = (match writeTag hook w t v with
      | (w1, .error e) => (w1, .error e)
      | (w1, .ok tg) => (w1, .ok [tg])) := by
  simp only [writeTags]
  rcases writeTag hook w t v with ⟨w1, r⟩
  cases r <;> rfl

/-- `StatusWordsOk .connected` as a computation (for `#guard`; `valid_iff`) -/
def sda_statusOk (raw : Bytes) : Bool := validCip .connected (parseCip (some raw) .connected)

theorem sda_statusOk_iff (raw : Bytes) : sda_statusOk raw = true ↔ StatusWordsOk .connected raw :=
  valid_iff .connected raw

/-! ### evaluation checks for the non-vacuity section -/

/-- the read request of `a` encodes with the driver's next counter value and its frame builds with the one after -/
def sda_readBuilds (d : Cli.Drv) (a : Addr) : Bool :=
  match slcReadMsg a d.nextSeq.1 with
  | .ok pccc =>
      (match buildRequest (.sendUnit d.nextSeq.2.nextSeq.1 (msgStart d ++ pccc)) d.ctx with
       | .ok _ => true | .error _ => false)
  | .error _ => false

theorem sda_of_readBuilds (d : Cli.Drv) (a : Addr) (h : sda_readBuilds d a = true) :
    ∃ pccc frm, slcReadMsg a d.nextSeq.1 = .ok pccc ∧
      buildRequest (.sendUnit d.nextSeq.2.nextSeq.1 (msgStart d ++ pccc)) d.ctx = .ok frm := by
  unfold sda_readBuilds at h
  split at h
  · next pccc hm =>
    split at h
    · next frm hf => exact ⟨pccc, frm, hm, hf⟩
    · cases h
  · cases h

def sda_writeBuilds (d : Cli.Drv) (a : Addr) (v : PyVal) : Bool :=
  match writeMsg a d.nextSeq.1 v with
  | .ok pccc =>
      (match buildRequest (.sendUnit d.nextSeq.2.nextSeq.1 (msgStart d ++ pccc)) d.ctx with
       | .ok _ => true | .error _ => false)
  | .error _ => false

theorem sda_of_writeBuilds (d : Cli.Drv) (a : Addr) (v : PyVal) (h : sda_writeBuilds d a v = true) :
    ∃ pccc frm, writeMsg a d.nextSeq.1 v = .ok pccc ∧
      buildRequest (.sendUnit d.nextSeq.2.nextSeq.1 (msgStart d ++ pccc)) d.ctx = .ok frm := by
  unfold sda_writeBuilds at h
  split at h
  · next pccc hm =>
    split at h
    · next frm hf => exact ⟨pccc, frm, hm, hf⟩
    · cases h
  · cases h

def sda_valueOk (a : Addr) (v : PyVal) : Bool := match writeValue a v with | .ok _ => true | .error _ => false

theorem sda_of_valueOk (a : Addr) (v : PyVal) (h : sda_valueOk a v = true) : ∃ x, writeValue a v = .ok x := by
  unfold sda_valueOk at h
  split at h
  · next x hx => exact ⟨x, hx⟩
  · cases h

-- PROPERTY THEOREMS

-- STATEMENT HISTORY (see the file header): the first version of this file carried a STATEMENT CHANGED note — the
-- requested "truthy ⇒ encapsulation status 0 ∧ general status 0 ∧ …" was false of the library, the counterexamples
-- `with65 rawGood`, `withGs8 rawGood`, `zeros 63` gave truthy Tags.  After the repair of the library (`if not response`)
-- the statement holds as requested and is proved below at full strength; the counterexamples are `#guard`s for falsy Tags.

/-- C13 / C18, driver level, ANY reply to a single read: `read(t)` of an address `parse_tag` accepts, on a driver that
    believes it is connected, when the next reply the driver receives is the ARBITRARY byte string `raw` (`hpend`: it
    waits at the head of the transport's queue) — whatever `raw` is:
    (i)   the call returns exactly one Tag, or raises CommError / DataError / BufferEmptyError (library exceptions: the
          transport failed, the request could not be encoded, or `response.error` raised while rendering the extended
          status of a reply cut inside it) — never a foreign exception, never a hang;
    (ii)  the Tag (`sda_ReadJudged`) carries the address text and the file type letter; it is truthy EXACTLY WHEN `raw` is
          a well-formed successful reply: its status words are OK (`Reply.StatusWordsOk .connected raw`, the predicate of
          `valid_iff`: at least 49 bytes, encapsulation status 0, a reply service byte, general status 0 of the
          Execute-PCCC reply) AND it passes the PCCC-level checks (`sda_ReplyOk a raw`: byte 58 — the PCCC STS byte —
          exists and is 0, and the bytes from offset 61 on decode for the address; at least 62 bytes); then it is
          error-free with the decoded value;
    (iii) otherwise — bad encapsulation or general status, STS byte not 0, a reply too short, data that does not
          decode — its value is None and its error a non-empty text.
    The outcome is `sda_readOutcome a raw`, a function of the address and the reply alone. -/
theorem slc_read_any_reply {σ} (hook : ObjHook σ) (w w' : Cli.World σ) (raw : Bytes) (rest : List (Option Bytes))
    (t : Name) (a : Addr) (r : Except Exn (List STag))
    (hconn : w.drv.targetIsConnected = true) (hpend : w.net.pending = some raw :: rest)
    (hparse : parseTag t = some a) (h : slcRead hook w [t] = (w', r)) :
    (∃ tg, r = .ok [tg] ∧ sda_readOutcome a raw = .ok tg ∧ sda_ReadJudged a raw tg) ∨
    (∃ e, r = .error e ∧ sda_Exn e ∧ e.isLibrary = true) := by
  rw [sda_slcRead_connected hook w _ hconn, sda_readTags_single] at h
  rcases sda_readTag_step hook w t a raw rest hparse hpend with ⟨w1, x, heq, _, _⟩ | he | he
  · rw [heq] at h
    rcases sda_readOutcome_cases a raw with ⟨tg, hout, hj⟩ | ⟨_, hout | hout⟩
    · rw [hout] at h
      exact .inl ⟨tg, (Prod.mk.inj h).2.symm, hout, hj⟩
    · rw [hout] at h
      exact .inr ⟨_, (Prod.mk.inj h).2.symm, .inr (.inr rfl), rfl⟩
    · rw [hout] at h
      exact .inr ⟨_, (Prod.mk.inj h).2.symm, .inr (.inl rfl), rfl⟩
  · rcases hrt : readTag hook w t with ⟨w1, r1⟩
    rw [hrt] at he h
    dsimp only at he
    subst he
    exact .inr ⟨_, (Prod.mk.inj h).2.symm, .inl rfl, rfl⟩
  · rcases hrt : readTag hook w t with ⟨w1, r1⟩
    rw [hrt] at he h
    dsimp only at he
    subst he
    exact .inr ⟨_, (Prod.mk.inj h).2.symm, .inr (.inl rfl), rfl⟩

/-- the opposite of the former finding: a reply whose status words are NOT OK — encapsulation status other than 0,
    general status other than 0, no reply service byte, fewer than 49 bytes — is NEVER reported as success by `read`:
    whatever byte 58 and the bytes from 61 on are, the call returns one falsy Tag with value None and a non-empty error
    text (the text of the status word), or raises a library exception. -/
theorem slc_bad_status_words_never_truthy {σ} (hook : ObjHook σ) (w w' : Cli.World σ) (raw : Bytes)
    (rest : List (Option Bytes)) (t : Name) (a : Addr) (r : Except Exn (List STag))
    (hconn : w.drv.targetIsConnected = true) (hpend : w.net.pending = some raw :: rest)
    (hparse : parseTag t = some a) (hbad : ¬ StatusWordsOk .connected raw) (h : slcRead hook w [t] = (w', r)) :
    (∃ tg, r = .ok [tg] ∧ tg.truthy = false ∧ tg.value = .none ∧ ∃ e, tg.error = some e ∧ e ≠ []) ∨
    (∃ e, r = .error e ∧ sda_Exn e ∧ e.isLibrary = true) := by
  rcases slc_read_any_reply hook w w' raw rest t a r hconn hpend hparse h with ⟨tg, hr, _, _, _, htr, _, hno⟩ | he
  · have hnot : ¬ (StatusWordsOk .connected raw ∧ sda_ReplyOk a raw) := fun hh => hbad hh.1
    refine .inl ⟨tg, hr, ?_, (hno hnot).1, (hno hnot).2⟩
    cases htv : tg.truthy with
    | false => rfl
    | true => exact absurd (htr.1 htv) hnot
  · exact .inr he

/-- … and by `write`: one Tag with value None and a non-empty error text, or a library exception. -/
theorem slc_bad_status_words_never_truthy_write {σ} (hook : ObjHook σ) (w w' : Cli.World σ) (raw : Bytes)
    (rest : List (Option Bytes)) (t : Name) (a : Addr) (v : PyVal) (x : Bytes × Nat) (r : Except Exn (List STag))
    (hconn : w.drv.targetIsConnected = true) (hpend : w.net.pending = some raw :: rest)
    (hparse : parseTag t = some a) (hval : writeValue a v = .ok x) (hbad : ¬ StatusWordsOk .connected raw)
    (h : slcWrite hook w [(t, v)] = (w', r)) :
    (∃ tg, r = .ok [tg] ∧ tg.truthy = false ∧ tg.value = .none ∧ ∃ e, tg.error = some e ∧ e ≠ []) ∨
    (∃ e, r = .error e ∧ sda_Exn e ∧ e.isLibrary = true) := by
  rw [sda_slcWrite_connected hook w _ hconn, sda_writeTags_single] at h
  have key : ∀ tg, sda_WriteJudged a v raw tg →
      tg.truthy = false ∧ tg.value = .none ∧ ∃ e, tg.error = some e ∧ e ≠ [] := by
    intro tg hj
    obtain ⟨_, _, _, htr, _, hno⟩ := hj
    have hnot : ¬ (StatusWordsOk .connected raw ∧ raw[58]? = some 0) := fun hh => hbad hh.1
    refine ⟨?_, (hno hnot).1, (hno hnot).2⟩
    cases htv : tg.truthy with
    | false => rfl
    | true => exact absurd (htr.1 htv).1 hbad
  rcases sda_writeTag_step hook w t a v x raw rest hparse hval hpend with ⟨w1, y, heq, _, _⟩ | he | he
  · rw [heq] at h
    rcases sda_writeOutcome_cases a v raw with ⟨tg, hout, hj⟩ | ⟨_, hout | hout⟩
    · rw [hout] at h
      exact .inl ⟨tg, (Prod.mk.inj h).2.symm, key tg hj⟩
    · rw [hout] at h
      exact .inr ⟨_, (Prod.mk.inj h).2.symm, .inr (.inr rfl), rfl⟩
    · rw [hout] at h
      exact .inr ⟨_, (Prod.mk.inj h).2.symm, .inr (.inl rfl), rfl⟩
  · rcases hrt : writeTag hook w t v with ⟨w1, r1⟩
    rw [hrt] at he h
    dsimp only at he
    subst he
    exact .inr ⟨_, (Prod.mk.inj h).2.symm, .inl rfl, rfl⟩
  · rcases hrt : writeTag hook w t v with ⟨w1, r1⟩
    rw [hrt] at he h
    dsimp only at he
    subst he
    exact .inr ⟨_, (Prod.mk.inj h).2.symm, .inr (.inl rfl), rfl⟩

/-- "the Tag of a read is truthy" in plain terms for the 16-bit files N, B, S, O, I: the status words of the reply are OK,
    byte 58 exists and is 0, and for a bit address at least the two bytes of one word follow offset 61 (63 bytes), for
    a word address (`N7:1`, `N7:0{3}` …) at least one data byte follows offset 61 and the number of data bytes is even.
    Not part of it: the number of words asked for — a reply cut (or extended) at a word boundary passes, and the Tag
    carries as many values as the reply holds. -/
theorem slc_read_truthy_iff_plain (a : Addr) (raw : Bytes) (tg : STag) (hft : a.fileType ∈ wordFiles)
    (h : sda_readOutcome a raw = .ok tg) :
    tg.truthy = true ↔
      (StatusWordsOk .connected raw ∧ raw[58]? = some 0 ∧
        (if a.addressField = 3 then 63 ≤ raw.length else (62 ≤ raw.length ∧ (raw.length - 61) % 2 = 0))) := by
  have htr : tg.truthy = true ↔ (StatusWordsOk .connected raw ∧ sda_ReplyOk a raw) := by
    rcases sda_readOutcome_cases a raw with ⟨tg', hout, hj⟩ | ⟨_, hout | hout⟩
    · rw [hout] at h
      cases h
      exact hj.2.2.1
    · rw [hout] at h; cases h
    · rw [hout] at h; cases h
  rw [htr]
  by_cases haf : a.addressField = 3
  · rw [if_pos haf, sda_ReplyOk_bit_iff a hft haf raw]
  · rw [if_neg haf, sda_ReplyOk_word_iff a hft haf raw]

/-- C13 / C18, driver level, ANY reply to a single write: `write((t, v))` of an accepted address and a value
    `writeable_value` accepts (`hval`), on a driver that believes it is connected, when the next reply the driver
    receives is the ARBITRARY byte string `raw`:
    (i)   the call returns exactly one Tag, or raises CommError / DataError / BufferEmptyError — never a foreign
          exception, never a hang;
    (ii)  the Tag (`sda_WriteJudged`) is error-free EXACTLY WHEN the status words of `raw` are OK
          (`Reply.StatusWordsOk .connected raw`) AND byte 58 of `raw` (the PCCC STS byte) exists and is 0, and then echoes
          the caller's value — so it is truthy exactly when, in addition, `v` is not None (`Tag.__bool__` asks `value is
          not None`);
    (iii) otherwise — bad encapsulation or general status, STS byte not 0, a reply too short — its value is None and its
          error a non-empty text. -/
theorem slc_write_any_reply {σ} (hook : ObjHook σ) (w w' : Cli.World σ) (raw : Bytes) (rest : List (Option Bytes))
    (t : Name) (a : Addr) (v : PyVal) (x : Bytes × Nat) (r : Except Exn (List STag))
    (hconn : w.drv.targetIsConnected = true) (hpend : w.net.pending = some raw :: rest)
    (hparse : parseTag t = some a) (hval : writeValue a v = .ok x) (h : slcWrite hook w [(t, v)] = (w', r)) :
    (∃ tg, r = .ok [tg] ∧ sda_writeOutcome a v raw = .ok tg ∧ sda_WriteJudged a v raw tg) ∨
    (∃ e, r = .error e ∧ sda_Exn e ∧ e.isLibrary = true) := by
  rw [sda_slcWrite_connected hook w _ hconn, sda_writeTags_single] at h
  rcases sda_writeTag_step hook w t a v x raw rest hparse hval hpend with ⟨w1, y, heq, _, _⟩ | he | he
  · rw [heq] at h
    rcases sda_writeOutcome_cases a v raw with ⟨tg, hout, hj⟩ | ⟨_, hout | hout⟩
    · rw [hout] at h
      exact .inl ⟨tg, (Prod.mk.inj h).2.symm, hout, hj⟩
    · rw [hout] at h
      exact .inr ⟨_, (Prod.mk.inj h).2.symm, .inr (.inr rfl), rfl⟩
    · rw [hout] at h
      exact .inr ⟨_, (Prod.mk.inj h).2.symm, .inr (.inl rfl), rfl⟩
  · rcases hrt : writeTag hook w t v with ⟨w1, r1⟩
    rw [hrt] at he h
    dsimp only at he
    subst he
    exact .inr ⟨_, (Prod.mk.inj h).2.symm, .inl rfl, rfl⟩
  · rcases hrt : writeTag hook w t v with ⟨w1, r1⟩
    rw [hrt] at he h
    dsimp only at he
    subst he
    exact .inr ⟨_, (Prod.mk.inj h).2.symm, .inr (.inl rfl), rfl⟩

/-- C13 / C18, driver level, a LIST of addresses over a queue of ARBITRARY replies: `read(*ts)` on a driver that
    believes it is connected, when the next replies the driver receives are the byte strings `raws`, one per address
    (`hpend`: they wait, in order, at the head of the transport's queue) — whatever they are, and whatever the
    addresses are (accepted by `parse_tag` or not):
    (i)   either every address is served: one Tag per address, in call order, the i-th being the outcome of the i-th
          address and the i-th reply ALONE (`sda_readOutcome`) — judged by its own reply (`sda_ReadJudged`: truthy exactly
          when that reply has OK status words and passes the PCCC-level checks, otherwise value None and a non-empty
          error text); a bad reply for one address does not disturb the others;
    (ii)  or the call raises: then there is a FIRST address whose `_read_tag` raised (`sda_FirstFailure`), all addresses
          in front of it were accepted, and the exception is RequestError exactly when that address is rejected by
          `parse_tag`, CommError / DataError / BufferEmptyError otherwise — library exceptions; never a foreign
          exception, never a hang. -/
theorem slc_read_many_any_reply {σ} (hook : ObjHook σ) (w w' : Cli.World σ) (ts : List Name) (raws : List Bytes)
    (rest : List (Option Bytes)) (r : Except Exn (List STag))
    (hconn : w.drv.targetIsConnected = true) (hlen : raws.length = ts.length)
    (hpend : w.net.pending = raws.map some ++ rest) (h : slcRead hook w ts = (w', r)) :
    (∃ tags, r = .ok tags ∧ tags.length = ts.length ∧
      ∀ (i : Nat) (t : Name), ts[i]? = some t →
        ∃ a raw tg, parseTag t = some a ∧ raws[i]? = some raw ∧ tags[i]? = some tg ∧
          sda_readOutcome a raw = .ok tg ∧ sda_ReadJudged a raw tg) ∨
    (∃ e, r = .error e ∧ sda_FirstFailure ts e ∧ (e = .request ∨ e = .comm ∨ e = .data ∨ e = .bufferEmpty) ∧
      e.isLibrary = true) := by
  rw [sda_slcRead_connected hook w _ hconn] at h
  rcases sda_readTags_any hook ts raws w rest hlen hpend with ⟨w1, tags, heq, hl, hserved⟩ | ⟨e, he, hff⟩
  · rw [heq] at h
    left
    refine ⟨tags, (Prod.mk.inj h).2.symm, hl, ?_⟩
    intro i t hget
    obtain ⟨a, raw, tg, hp, hr, hout, htg⟩ := hserved i t hget
    refine ⟨a, raw, tg, hp, hr, htg, hout, ?_⟩
    rcases sda_readOutcome_cases a raw with ⟨tg', hout', hj⟩ | ⟨_, hout' | hout'⟩
    · rw [hout] at hout'
      cases hout'
      exact hj
    · rw [hout] at hout'; cases hout'
    · rw [hout] at hout'; cases hout'
  · rw [h] at he
    dsimp only at he
    right
    refine ⟨e, he, hff, ?_⟩
    obtain ⟨k, t, _, _, hcase⟩ := hff
    rcases hcase with ⟨_, rfl⟩ | ⟨_, rfl | rfl | rfl⟩
    · exact ⟨.inl rfl, rfl⟩
    · exact ⟨.inr (.inl rfl), rfl⟩
    · exact ⟨.inr (.inr (.inl rfl)), rfl⟩
    · exact ⟨.inr (.inr (.inr rfl)), rfl⟩

/-- C13 / C18, driver level, a LIST of writes over a queue of ARBITRARY replies: `write(*avs)` of pairs whose addresses
    `parse_tag` accepts and whose values `writeable_value` accepts (`hall`), on a driver that believes it is connected,
    when the next replies the driver receives are the byte strings `raws`, one per pair:
    (i)   either every pair is served: one Tag per pair, in call order, the i-th being the outcome of the i-th address,
          value and reply alone (`sda_writeOutcome`), judged by its own reply (`sda_WriteJudged`: error-free exactly when
          that reply has OK status words and its byte 58 exists and is 0);
    (ii)  or the call raises CommError / DataError / BufferEmptyError — never a foreign exception, never a hang. -/
theorem slc_write_many_any_reply {σ} (hook : ObjHook σ) (w w' : Cli.World σ) (avs : List (Name × PyVal))
    (raws : List Bytes) (rest : List (Option Bytes)) (r : Except Exn (List STag))
    (hconn : w.drv.targetIsConnected = true) (hlen : raws.length = avs.length)
    (hpend : w.net.pending = raws.map some ++ rest)
    (hall : ∀ p ∈ avs, ∃ a x, parseTag p.1 = some a ∧ writeValue a p.2 = .ok x)
    (h : slcWrite hook w avs = (w', r)) :
    (∃ tags, r = .ok tags ∧ tags.length = avs.length ∧
      ∀ (i : Nat) (p : Name × PyVal), avs[i]? = some p →
        ∃ a raw tg, parseTag p.1 = some a ∧ raws[i]? = some raw ∧ tags[i]? = some tg ∧
          sda_writeOutcome a p.2 raw = .ok tg ∧ sda_WriteJudged a p.2 raw tg) ∨
    (∃ e, r = .error e ∧ sda_Exn e ∧ e.isLibrary = true) := by
  rw [sda_slcWrite_connected hook w _ hconn] at h
  rcases sda_writeTags_any hook avs raws w rest hlen hpend hall with ⟨w1, tags, heq, hl, hserved⟩ | he | he | he
  · rw [heq] at h
    left
    refine ⟨tags, (Prod.mk.inj h).2.symm, hl, ?_⟩
    intro i p hget
    obtain ⟨a, raw, tg, hp, hr, hout, htg⟩ := hserved i p hget
    refine ⟨a, raw, tg, hp, hr, htg, hout, ?_⟩
    rcases sda_writeOutcome_cases a p.2 raw with ⟨tg', hout', hj⟩ | ⟨_, hout' | hout'⟩
    · rw [hout] at hout'
      cases hout'
      exact hj
    · rw [hout] at hout'; cases hout'
    · rw [hout] at hout'; cases hout'
  · rw [h] at he
    exact .inr ⟨_, he, .inl rfl, rfl⟩
  · rw [h] at he
    exact .inr ⟨_, he, .inr (.inl rfl), rfl⟩
  · rw [h] at he
    exact .inr ⟨_, he, .inr (.inr rfl), rfl⟩

/-- … and the reply really is what decides: on a driver with a socket, without scheduled transport faults, whose
    request encodes (`hmsg`: transaction id, byte size ≤ 255 — this excludes e.g. `N7:0{200}` — and address fields) and
    whose frame builds (`hfrm`: session handle, connection id, sequence count and size in range), the result of
    `read(t)` is a FUNCTION of the address and `raw` alone — `sda_readOutcome a raw` (the status words, then `readTagOf`),
    as a one-element list; the transport contributes nothing (no CommError) and the target's own answer is not looked
    at. -/
theorem slc_reply_exact {σ} (hook : ObjHook σ) (w : Cli.World σ) (raw pccc frm : Bytes) (rest : List (Option Bytes))
    (t : Name) (a : Addr)
    (hconn : w.drv.targetIsConnected = true) (hpend : w.net.pending = some raw :: rest)
    (hsock : w.drv.hasSock = true) (hfaults : w.net.faults = []) (hparse : parseTag t = some a)
    (hmsg : slcReadMsg a w.drv.nextSeq.1 = .ok pccc)
    (hfrm : buildRequest (.sendUnit w.drv.nextSeq.2.nextSeq.1 (msgStart w.drv ++ pccc)) w.drv.ctx = .ok frm) :
    (slcRead hook w [t]).2 = (sda_readOutcome a raw).map fun tg => [tg] := by
  rw [sda_slcRead_connected hook w _ hconn, sda_readTags_single]
  have hx := sda_readTag_exact hook w t a raw pccc frm rest hparse hpend hsock hfaults hmsg hfrm
  rcases hrt : readTag hook w t with ⟨w1, r1⟩
  rw [hrt] at hx
  dsimp only at hx
  subst hx
  cases sda_readOutcome a raw <;> rfl

/-- … likewise for `write((t, v))` of an encodable value: the result is `sda_writeOutcome a v raw` as a one-element
    list. -/
theorem slc_write_reply_exact {σ} (hook : ObjHook σ) (w : Cli.World σ) (raw pccc frm : Bytes)
    (rest : List (Option Bytes)) (t : Name) (a : Addr) (v : PyVal) (x : Bytes × Nat)
    (hconn : w.drv.targetIsConnected = true) (hpend : w.net.pending = some raw :: rest)
    (hsock : w.drv.hasSock = true) (hfaults : w.net.faults = []) (hparse : parseTag t = some a)
    (hval : writeValue a v = .ok x) (hmsg : writeMsg a w.drv.nextSeq.1 v = .ok pccc)
    (hfrm : buildRequest (.sendUnit w.drv.nextSeq.2.nextSeq.1 (msgStart w.drv ++ pccc)) w.drv.ctx = .ok frm) :
    (slcWrite hook w [(t, v)]).2 = (sda_writeOutcome a v raw).map fun tg => [tg] := by
  rw [sda_slcWrite_connected hook w _ hconn, sda_writeTags_single]
  have hx := sda_writeTag_exact hook w t a v x raw pccc frm rest hparse hval hpend hsock hfaults hmsg hfrm
  rcases hrt : writeTag hook w t v with ⟨w1, r1⟩
  rw [hrt] at hx
  dsimp only at hx
  subst hx
  cases sda_writeOutcome a v raw <;> rfl

/-! ### non-vacuity: the connected world `Ex.world` of SlcDriverProofs (data table N7 = [0x1234, -1, 8], T4, …; obtained by
    RUNNING the model: open, register session, Forward Open) with arbitrary replies waiting in the transport's queue.
    Every hypothesis of every theorem is discharged — for EVERY `raw` — and the model is run on (a) the healthy reply,
    (b) STS byte 0x10, (c) encapsulation status 0x65, (d) general status 8, (e) cut to 47 / 58 / 59 bytes, (f) garbage,
    (g) every prefix of the healthy reply, (h) cut inside the extended status. -/

namespace SdaEx

def w0 : Cli.World Ext := Ex.world
/-- the connected world with `raw` as the next reply the driver will read -/
def withReply (raw : Bytes) : Cli.World Ext := { w0 with net := { w0.net with pending := [some raw] } }
def withReplies (raws : List Bytes) : Cli.World Ext := { w0 with net := { w0.net with pending := raws.map some } }

def n71 : Name := nm "N7:1"
def aN71 : Addr := Ex.aN71

/-- the reply the reference controller itself gives to `read("N7:1")` (obtained by running the model's `sendPccc`) -/
def rawGood : Bytes :=
  match slcReadMsg aN71 w0.drv.nextSeq.1 with
  | .ok pccc =>
      (match (sendPccc hookAll { w0 with drv := w0.drv.nextSeq.2 } (msgStart w0.drv ++ pccc)).2 with
       | .ok b => b | .error _ => [])
  | .error _ => []
/-- the same frame with encapsulation status 0x65 -/
def with65 (raw : Bytes) : Bytes := raw.take 8 ++ [0x65, 0, 0, 0] ++ raw.drop 12
/-- the same frame with CIP general status 8 (service not supported) in the Execute-PCCC reply header -/
def withGs8 (raw : Bytes) : Bytes := raw.take 48 ++ [8] ++ raw.drop 49
/-- the same frame with PCCC STS byte 0x10 -/
def withSts10 (raw : Bytes) : Bytes := raw.take 58 ++ [0x10] ++ raw.drop 59
def garbage : Bytes := (List.range 70).map fun i => UInt8.ofNat (i * 37 + 11)
def zeros (n : Nat) : Bytes := List.replicate n 0
/-- general status 5 and nothing behind it: `response.error` raises while rendering the extended status -/
def rawErrCut : Bytes := rawGood.take 48 ++ [5]
/-- general status 6 under the reply service byte of a Multiple Service Packet: OK by the response class's own rule -/
def rawGs6Multi : Bytes := rawGood.take 46 ++ [0x8A, 0, 6] ++ rawGood.drop 49

#guard rawGood == [112, 0, 39, 0, 1, 16, 0, 0, 0, 0, 0, 0, 95, 112, 121, 99, 111, 109, 109, 95, 0, 0, 0, 0, 0, 0, 0, 0, 0, 0,
  2, 0, 161, 0, 4, 0, 1, 2, 3, 4, 177, 0, 19, 0, 2, 0, 203, 0, 0, 0, 7, 9, 16, 5, 6, 7, 8, 79, 0, 1, 0, 255, 255]
#guard rawGood.length == 63

def okVal (r : Except Exn (List STag)) (chk : List PyVal → Bool) : Bool :=
  match r with
  | .ok ts => ts.all (fun t => t.truthy && t.error.isNone) && chk (ts.map (·.value))
  | .error _ => false
/-- every Tag falsy, without value, with a non-empty error text -/
def allFailed (r : Except Exn (List STag)) (n : Nat) : Bool :=
  match r with
  | .ok ts => ts.length == n && ts.all (fun t => !t.truthy && (match t.error with | some e => !e.isEmpty | none => false) &&
      (match t.value with | .none => true | _ => false))
  | .error _ => false
def errIs (r : Except Exn (List STag)) (s : String) : Bool :=
  match r with | .ok [t] => t.error == some (nm s) | _ => false
def raises (r : Except Exn (List STag)) (e : Exn) : Bool :=
  match r with | .error e' => e' == e | .ok _ => false
def isInt (v : PyVal) (i : Int) : Bool := match v with | .int x => x == i | _ => false

-- the two judgments of the replies: status words (`StatusWordsOk .connected`), PCCC level (`sda_ReplyOk`)
#guard sda_statusOk rawGood && sda_replyOk aN71 rawGood
#guard sda_statusOk (withSts10 rawGood) && !sda_replyOk aN71 (withSts10 rawGood)
#guard !sda_statusOk (rawGood.take 47) && !sda_statusOk garbage && !sda_statusOk [] && !sda_statusOk rawErrCut
#guard sda_statusOk (rawGood.take 58) && !sda_replyOk aN71 (rawGood.take 58) &&
       sda_statusOk (rawGood.take 59) && !sda_replyOk aN71 (rawGood.take 59)
-- the former counterexamples: the PCCC-level checks pass, the status words do not
#guard sda_replyOk aN71 (with65 rawGood) && sda_replyOk aN71 (withGs8 rawGood) && sda_replyOk aN71 (zeros 63)
#guard !sda_statusOk (with65 rawGood) && !sda_statusOk (withGs8 rawGood) && !sda_statusOk (zeros 63)

-- read("N7:1"): (a) -1; (b) STS 0x10: the PCCC error text; (e) cut to 47: "Failed to parse reply" (no status words), cut
-- to 58: "Unknown Status" (no STS byte), cut to 59 (STS there, no data): "Failed parsing tag read reply"; (f) garbage;
-- the empty reply; (h) BufferEmptyError
#guard okVal (slcRead hookAll (withReply rawGood) [n71]).2 (fun vs => match vs with | [v] => isInt v (-1) | _ => false)
#guard allFailed (slcRead hookAll (withReply (withSts10 rawGood)) [n71]).2 1
#guard allFailed (slcRead hookAll (withReply (rawGood.take 47)) [n71]).2 1 &&
       errIs (slcRead hookAll (withReply (rawGood.take 47)) [n71]).2 "Failed to parse reply"
#guard allFailed (slcRead hookAll (withReply (rawGood.take 58)) [n71]).2 1 &&
       errIs (slcRead hookAll (withReply (rawGood.take 58)) [n71]).2 "Unknown Status"
#guard allFailed (slcRead hookAll (withReply (rawGood.take 59)) [n71]).2 1 &&
       errIs (slcRead hookAll (withReply (rawGood.take 59)) [n71]).2 "Failed parsing tag read reply"
#guard allFailed (slcRead hookAll (withReply garbage) [n71]).2 1
#guard allFailed (slcRead hookAll (withReply []) [n71]).2 1
#guard raises (slcRead hookAll (withReply rawErrCut) [n71]).2 .bufferEmpty

-- THE FORMER FINDING, repaired: (c) encapsulation status 0x65, (d) general status 8, 63 zero bytes — FALSY Tags now,
-- with the text of the status word
#guard allFailed (slcRead hookAll (withReply (with65 rawGood)) [n71]).2 1 &&
       errIs (slcRead hookAll (withReply (with65 rawGood)) [n71]).2 "Unknown Error (65)"
#guard allFailed (slcRead hookAll (withReply (withGs8 rawGood)) [n71]).2 1 &&
       errIs (slcRead hookAll (withReply (withGs8 rawGood)) [n71]).2 "Service not supported"
#guard allFailed (slcRead hookAll (withReply (zeros 63)) [n71]).2 1 &&
       errIs (slcRead hookAll (withReply (zeros 63)) [n71]).2 "Failed to parse reply"
-- … and for writes: 59 zero bytes, the read reply with encapsulation status 0x65
#guard allFailed (slcWrite hookAll (withReply (zeros 59)) [(n71, .int 5)]).2 1
#guard allFailed (slcWrite hookAll (withReply (with65 rawGood)) [(n71, .int 5)]).2 1 &&
       errIs (slcWrite hookAll (withReply (with65 rawGood)) [(n71, .int 5)]).2 "Unknown Error (65)"
#guard raises (slcWrite hookAll (withReply rawErrCut) [(n71, .int 5)]).2 .bufferEmpty
-- the response class's own rule: general status 6 under a Multiple-Service-Packet reply byte counts as OK
#guard sda_statusOk rawGs6Multi &&
       okVal (slcRead hookAll (withReply rawGs6Multi) [n71]).2 (fun vs => match vs with | [v] => isInt v (-1) | _ => false)
#guard !sda_statusOk (rawGood.take 48 ++ [6] ++ rawGood.drop 49)

-- (g) every prefix of the healthy reply: never an exception, truthy exactly when both judgments pass (here: only the
-- full reply — 61 bytes carry no data, 62 bytes half a word), a falsy Tag has a non-empty error
#guard (List.range (rawGood.length + 1)).all fun n =>
  match (slcRead hookAll (withReply (rawGood.take n)) [n71]).2 with
  | .ok [t] => (t.truthy == (n == 63)) &&
      (t.truthy == (sda_statusOk (rawGood.take n) && sda_replyOk aN71 (rawGood.take n))) &&
      (t.truthy || (match t.error with | some e => !e.isEmpty | none => false))
  | _ => false
-- … and of the healthy reply with a second word appended (the driver returns whatever the reply holds: a list)
#guard (match (slcRead hookAll (withReply (rawGood ++ [7, 0])) [n71]).2 with
        | .ok [t] => t.truthy && (match t.value with | .list [a, b] => isInt a (-1) && isInt b 7 | _ => false) | _ => false)
-- … the result is the function of (address, raw) that `slc_reply_exact` states
#guard (List.range (rawGood.length + 1)).all fun n =>
  match (slcRead hookAll (withReply (rawGood.take n)) [n71]).2, sda_readOutcome aN71 (rawGood.take n) with
  | .ok [t], .ok u => t.tag == u.tag && t.type == u.type && t.error == u.error && t.truthy == u.truthy
  | _, _ => false

-- write(("N7:1", 5)): status words, then byte 58; a bit write of None: falsy WITHOUT error over a healthy reply
#guard okVal (slcWrite hookAll (withReply rawGood) [(n71, .int 5)]).2 (fun vs => match vs with | [v] => isInt v 5 | _ => false)
#guard allFailed (slcWrite hookAll (withReply (withSts10 rawGood)) [(n71, .int 5)]).2 1
#guard allFailed (slcWrite hookAll (withReply (rawGood.take 58)) [(n71, .int 5)]).2 1
#guard allFailed (slcWrite hookAll (withReply garbage) [(n71, .int 5)]).2 1
#guard (List.range (rawGood.length + 1)).all fun n =>
  match (slcWrite hookAll (withReply (rawGood.take n)) [(n71, .int 5)]).2 with
  | .ok [t] => (t.truthy == (n ≥ 59)) && (t.truthy || (match t.error with | some e => !e.isEmpty | none => false))
  | _ => false
#guard (match (slcWrite hookAll (withReply rawGood) [(nm "N7:1/2", .none)]).2 with
        | .ok [t] => !t.truthy && t.error.isNone | _ => false)

-- read("N7:1", "N7:2", "T4:1.ACC") over three replies: each Tag judged by its own reply
#guard (match (slcRead hookAll (withReplies [rawGood, with65 rawGood, rawGood.take 61 ++ zeros 6]) [n71, nm "N7:2", nm "T4:1.ACC"]).2 with
        | .ok [a, b, c] => a.truthy && isInt a.value (-1) && !b.truthy && b.error == some (nm "Unknown Error (65)") &&
            c.truthy && isInt c.value 0
        | _ => false)
-- a rejected address in second place: RequestError, after the first address was served
#guard (match (slcRead hookAll (withReplies [rawGood, rawGood]) [n71, nm "N7:300"]).2 with | .error .request => true | _ => false)
-- a request that cannot be encoded (400 bytes): DataError; a reply cut inside its extended status in second place
#guard (match (slcRead hookAll (withReplies [rawGood]) [nm "N7:0{200}"]).2 with | .error .data => true | _ => false)
#guard raises (slcRead hookAll (withReplies [rawGood, rawErrCut]) [n71, nm "N7:2"]).2 .bufferEmpty
-- write(("N7:1", 5), ("N7:2/2", True)) over two replies: each Tag judged by its own reply
#guard (match (slcWrite hookAll (withReplies [rawGood.take 58, rawGood]) [(n71, .int 5), (nm "N7:2/2", .bool true)]).2 with
        | .ok [a, b] => !a.truthy && a.error == some unknownStatus && b.truthy | _ => false)
-- a reply cut at an element boundary passes: read("N7:0{3}") over a reply holding two words returns a truthy list of two
#guard (match (slcRead hookAll (withReply (rawGood ++ [7, 0])) [nm "N7:0{3}"]).2 with
        | .ok [t] => t.truthy && (match t.value with | .list [a, b] => isInt a (-1) && isInt b 7 | _ => false) | _ => false)

/-! the hypotheses, discharged for EVERY `raw` -/

private theorem hconn (raw : Bytes) : (withReply raw).drv.targetIsConnected = true := by
  show Ex.world.drv.targetIsConnected = true
  decide +kernel
private theorem hsock (raw : Bytes) : (withReply raw).drv.hasSock = true := by
  show Ex.world.drv.hasSock = true
  decide +kernel
private theorem hfaults (raw : Bytes) : (withReply raw).net.faults = [] := by
  show Ex.world.net.faults = []
  decide +kernel

/-- `slc_read_any_reply` applies to `read("N7:1")` over ANY reply -/
example (raw : Bytes) (w' : Cli.World Ext) (r : Except Exn (List STag))
    (h : slcRead hookAll (withReply raw) [n71] = (w', r)) :
    (∃ tg, r = .ok [tg] ∧ sda_readOutcome aN71 raw = .ok tg ∧ sda_ReadJudged aN71 raw tg) ∨
    (∃ e, r = .error e ∧ sda_Exn e ∧ e.isLibrary = true) :=
  slc_read_any_reply hookAll (withReply raw) w' raw [] n71 aN71 r (hconn raw) rfl (by decide) h

/-- `slc_reply_exact` applies as well (socket, no faults, the request encodes, the frame builds): for EVERY `raw` the
    result is the outcome function of (address, raw) -/
example (raw : Bytes) : (slcRead hookAll (withReply raw) [n71]).2 = (sda_readOutcome aN71 raw).map fun tg => [tg] := by
  obtain ⟨pccc, frm, hm, hf⟩ := sda_of_readBuilds Ex.world.drv aN71 (by decide +kernel)
  exact slc_reply_exact hookAll (withReply raw) raw pccc frm [] n71 aN71 (hconn raw) rfl (hsock raw) (hfaults raw)
    (by decide) hm hf

/-- a reply that is too short is never a success: the concrete consequence for every reply of at most 61 bytes -/
example (raw : Bytes) (hn : raw.length ≤ 61) (w' : Cli.World Ext) (r : Except Exn (List STag))
    (h : slcRead hookAll (withReply raw) [n71] = (w', r)) :
    (∃ tg, r = .ok [tg] ∧ tg.truthy = false ∧ tg.value = .none ∧ ∃ e, tg.error = some e ∧ e ≠ []) ∨
    (∃ e, r = .error e ∧ sda_Exn e ∧ e.isLibrary = true) := by
  have hno : ¬ (StatusWordsOk .connected raw ∧ sda_ReplyOk aN71 raw) := by
    rintro ⟨_, hok⟩
    have h1 := sda_ReplyOk_length _ _ hok
    omega
  rcases slc_read_any_reply hookAll (withReply raw) w' raw [] n71 aN71 r (hconn raw) rfl (by decide) h with
    ⟨tg, hr, _, _, _, htr, _, hbad⟩ | he
  · refine .inl ⟨tg, hr, ?_, (hbad hno).1, (hbad hno).2⟩
    cases htv : tg.truthy with
    | false => rfl
    | true => exact absurd (htr.1 htv) hno
  · exact .inr he

/-- `slc_bad_status_words_never_truthy` applies to the former counterexample: encapsulation status 0x65 -/
example (w' : Cli.World Ext) (r : Except Exn (List STag))
    (h : slcRead hookAll (withReply (with65 rawGood)) [n71] = (w', r)) :
    (∃ tg, r = .ok [tg] ∧ tg.truthy = false ∧ tg.value = .none ∧ ∃ e, tg.error = some e ∧ e ≠ []) ∨
    (∃ e, r = .error e ∧ sda_Exn e ∧ e.isLibrary = true) :=
  slc_bad_status_words_never_truthy hookAll (withReply (with65 rawGood)) w' (with65 rawGood) [] n71 aN71 r (hconn _) rfl
    (by decide) (fun hok => absurd ((sda_statusOk_iff _).2 hok) (by decide +kernel)) h

/-- … and `slc_bad_status_words_never_truthy_write` to `write(("N7:1", 5))` over 59 zero bytes -/
example (w' : Cli.World Ext) (r : Except Exn (List STag))
    (h : slcWrite hookAll (withReply (zeros 59)) [(n71, .int 5)] = (w', r)) :
    (∃ tg, r = .ok [tg] ∧ tg.truthy = false ∧ tg.value = .none ∧ ∃ e, tg.error = some e ∧ e ≠ []) ∨
    (∃ e, r = .error e ∧ sda_Exn e ∧ e.isLibrary = true) := by
  obtain ⟨x, hx⟩ := sda_of_valueOk aN71 (.int 5) (by decide +kernel)
  exact slc_bad_status_words_never_truthy_write hookAll (withReply (zeros 59)) w' (zeros 59) [] n71 aN71 (.int 5) x r
    (hconn _) rfl (by decide) hx (fun hok => absurd ((sda_statusOk_iff _).2 hok) (by decide +kernel)) h

/-- `slc_write_any_reply` applies to `write(("N7:1", 5))` over ANY reply -/
example (raw : Bytes) (w' : Cli.World Ext) (r : Except Exn (List STag))
    (h : slcWrite hookAll (withReply raw) [(n71, .int 5)] = (w', r)) :
    (∃ tg, r = .ok [tg] ∧ sda_writeOutcome aN71 (.int 5) raw = .ok tg ∧ sda_WriteJudged aN71 (.int 5) raw tg) ∨
    (∃ e, r = .error e ∧ sda_Exn e ∧ e.isLibrary = true) := by
  obtain ⟨x, hx⟩ := sda_of_valueOk aN71 (.int 5) (by decide +kernel)
  exact slc_write_any_reply hookAll (withReply raw) w' raw [] n71 aN71 (.int 5) x r (hconn raw) rfl (by decide) hx h

/-- `slc_write_reply_exact` applies as well -/
example (raw : Bytes) :
    (slcWrite hookAll (withReply raw) [(n71, .int 5)]).2 = (sda_writeOutcome aN71 (.int 5) raw).map fun tg => [tg] := by
  obtain ⟨x, hx⟩ := sda_of_valueOk aN71 (.int 5) (by decide +kernel)
  obtain ⟨pccc, frm, hm, hf⟩ := sda_of_writeBuilds Ex.world.drv aN71 (.int 5) (by decide +kernel)
  exact slc_write_reply_exact hookAll (withReply raw) raw pccc frm [] n71 aN71 (.int 5) x (hconn raw) rfl (hsock raw)
    (hfaults raw) (by decide) hx hm hf

/-- `slc_read_many_any_reply` applies to `read("N7:1", "N7:2", "T4:1.ACC")` over ANY three replies -/
example (r1 r2 r3 : Bytes) (w' : Cli.World Ext) (r : Except Exn (List STag))
    (h : slcRead hookAll (withReplies [r1, r2, r3]) [n71, nm "N7:2", nm "T4:1.ACC"] = (w', r)) :
    (∃ tags, r = .ok tags ∧ tags.length = 3 ∧
      ∀ (i : Nat) (t : Name), [n71, nm "N7:2", nm "T4:1.ACC"][i]? = some t →
        ∃ a raw tg, parseTag t = some a ∧ [r1, r2, r3][i]? = some raw ∧ tags[i]? = some tg ∧
          sda_readOutcome a raw = .ok tg ∧ sda_ReadJudged a raw tg) ∨
    (∃ e, r = .error e ∧ sda_FirstFailure [n71, nm "N7:2", nm "T4:1.ACC"] e ∧
      (e = .request ∨ e = .comm ∨ e = .data ∨ e = .bufferEmpty) ∧ e.isLibrary = true) :=
  slc_read_many_any_reply hookAll (withReplies [r1, r2, r3]) w' _ [r1, r2, r3] [] r
    (by show Ex.world.drv.targetIsConnected = true; decide +kernel) rfl (by simp [withReplies]) h

/-- `slc_write_many_any_reply` applies to `write(("N7:1", 5), ("N7:2/2", True))` over ANY two replies -/
example (r1 r2 : Bytes) (w' : Cli.World Ext) (r : Except Exn (List STag))
    (h : slcWrite hookAll (withReplies [r1, r2]) [(n71, .int 5), (nm "N7:2/2", .bool true)] = (w', r)) :
    (∃ tags, r = .ok tags ∧ tags.length = 2 ∧
      ∀ (i : Nat) (p : Name × PyVal), [(n71, PyVal.int 5), (nm "N7:2/2", PyVal.bool true)][i]? = some p →
        ∃ a raw tg, parseTag p.1 = some a ∧ [r1, r2][i]? = some raw ∧ tags[i]? = some tg ∧
          sda_writeOutcome a p.2 raw = .ok tg ∧ sda_WriteJudged a p.2 raw tg) ∨
    (∃ e, r = .error e ∧ sda_Exn e ∧ e.isLibrary = true) := by
  refine slc_write_many_any_reply hookAll (withReplies [r1, r2]) w' _ [r1, r2] [] r
    (by show Ex.world.drv.targetIsConnected = true; decide +kernel) rfl (by simp [withReplies]) ?_ h
  intro p hp
  simp only [List.mem_cons, List.not_mem_nil, or_false] at hp
  rcases hp with rfl | rfl
  · obtain ⟨x, hx⟩ := sda_of_valueOk aN71 (.int 5) (by decide +kernel)
    exact ⟨aN71, x, by decide, hx⟩
  · obtain ⟨x, hx⟩ := sda_of_valueOk Ex.aN722 (.bool true) (by decide +kernel)
    exact ⟨Ex.aN722, x, by decide, hx⟩

/-- `slc_read_truthy_iff_plain` applies to `N7:1` (word) and `N7:2/2` (bit) over ANY reply whose outcome is a Tag -/
example (raw : Bytes) (tg : STag) (h : sda_readOutcome aN71 raw = .ok tg) : tg.truthy = true ↔
    (StatusWordsOk .connected raw ∧ raw[58]? = some 0 ∧ 62 ≤ raw.length ∧ (raw.length - 61) % 2 = 0) := by
  have h' := slc_read_truthy_iff_plain aN71 raw tg (by decide) h
  rw [if_neg (by decide)] at h'
  exact h'
example (raw : Bytes) (tg : STag) (h : sda_readOutcome Ex.aN722 raw = .ok tg) : tg.truthy = true ↔
    (StatusWordsOk .connected raw ∧ raw[58]? = some 0 ∧ 63 ≤ raw.length) := by
  have h' := slc_read_truthy_iff_plain Ex.aN722 raw tg (by decide) h
  rw [if_pos (by decide)] at h'
  exact h'

end SdaEx

end Pycomm.Slc.Drv
