/-
  Failure isolation inside a Multiple Service Packet, `LogixDriver.write((good, v), (bad, v'))`:
  the multi-service write path (`_write_build_multi_requests`, `MultiServiceRequestPacket`, the reference
  controller's Multiple Service Packet, `MultiServiceResponsePacket`) for two one-element Write Tag requests.
-/
import PycommProofs.LDFailWrite
import PycommProofs.LDFailMulti
namespace Pycomm.Lgx.Drv
open Pycomm Pycomm.Tgt Pycomm.Path Pycomm.Reply Pycomm.Encap Pycomm.Lgx Pycomm.Lgx.E2E

/-- `len(request.message)` of a one-element Write Tag request -/
def ldx_wlen (info : TagInfo) (path value : Bytes) : Nat := 2 + (Cl.writeMsg path (packedTypeOf info) 1 value).length

/-- the Write Tag request built for a one-element request -/
def ldx_wreq (seq rid : Nat) (tag : Name) (info : TagInfo) (path value : Bytes) : WriteReq :=
  { seq := seq, tag := tag, elements := 1, info := info, rid := rid, path := path, typeBytes := packedTypeOf info,
    value := value }

/-- (b) `_write_build_multi_requests` for two error-free one-element requests (no bit numbers) whose values encode
    and whose messages fit one multi-service packet: three sequence numbers are drawn (one per write packet, one for
    the multi-service packet), the result is one multi-service request embedding the two writes in order; the
    parsed requests are unchanged -/
theorem ldx_wbuild_two (cfg : Cfg) (d : Cli.Drv) (a b : Name) (ia ib : TagInfo) (va vb : PyVal) (pa pb ba bb : Bytes)
    (hmicro : cfg.micro800 = false)
    (henca : encodeValue (ldx_wparsed 0 a ia va) ia = (ldx_wparsed 0 a ia va, some ba))
    (hencb : encodeValue (ldx_wparsed 1 b ib vb) ib = (ldx_wparsed 1 b ib vb, some bb))
    (hpa : requestPathOf cfg a ia = .ok pa) (hpb : requestPathOf cfg b ib = .ok pb)
    (hsize : K.OVERHEAD + ldx_wlen ia pa ba + ldx_wlen ib pb bb ≤ d.connectionSize) :
    writeBuildRequests cfg d [ldx_wparsed 0 a ia va, ldx_wparsed 1 b ib vb] =
      (d.nextSeq.2.nextSeq.2.nextSeq.2,
       .ok ([ldx_wparsed 0 a ia va, ldx_wparsed 1 b ib vb],
            [Request.multiWrite d.nextSeq.2.nextSeq.2.nextSeq.1
              [ldx_wreq d.nextSeq.1 0 a ia pa ba, ldx_wreq d.nextSeq.2.nextSeq.1 1 b ib pb bb]])) := by
  have hel : elementsNat 1 = .ok 1 := rfl
  have hcs1 : d.nextSeq.2.connectionSize = d.connectionSize := by rw [(Cli.lcs_nextSeq d).2]
  have hoh : K.OVERHEAD = 10 := rfl
  unfold ldx_wlen at hsize
  have hna : ¬ (2 + (Cl.writeMsg pa (packedTypeOf ia) 1 ba).length + K.OVERHEAD > d.connectionSize) := by omega
  have hnb : ¬ (2 + (Cl.writeMsg pb (packedTypeOf ib) 1 bb).length + K.OVERHEAD > d.connectionSize) := by omega
  have hg1 : ¬ (K.OVERHEAD + (2 + (Cl.writeMsg pa (packedTypeOf ia) 1 ba).length) > d.connectionSize) := by omega
  have hg2 : ¬ (K.OVERHEAD + (2 + (Cl.writeMsg pa (packedTypeOf ia) 1 ba).length) +
      (2 + (Cl.writeMsg pb (packedTypeOf ib) 1 bb).length) > d.connectionSize) := by omega
  have hbwa : (ldx_wparsed 0 a ia va).isBitWrite = false := rfl
  have hbwb : (ldx_wparsed 1 b ib vb).isBitWrite = false := rfl
  have herra : (ldx_wparsed 0 a ia va).error = none := rfl
  have herrb : (ldx_wparsed 1 b ib vb).error = none := rfl
  have hinfa : (ldx_wparsed 0 a ia va).info = some ia := rfl
  have hinfb : (ldx_wparsed 1 b ib vb).info = some ib := rfl
  have hrep1 : replaceParsed [ldx_wparsed 0 a ia va, ldx_wparsed 1 b ib vb] (ldx_wparsed 0 a ia va) =
      [ldx_wparsed 0 a ia va, ldx_wparsed 1 b ib vb] := rfl
  have hrep2 : replaceParsed [ldx_wparsed 0 a ia va, ldx_wparsed 1 b ib vb] (ldx_wparsed 1 b ib vb) =
      [ldx_wparsed 0 a ia va, ldx_wparsed 1 b ib vb] := rfl
  have hpa' : requestPathOf cfg (ldx_wparsed 0 a ia va).plcTag ia = .ok pa := hpa
  have hpb' : requestPathOf cfg (ldx_wparsed 1 b ib vb).plcTag ib = .ok pb := hpb
  have hela : elementsNat (ldx_wparsed 0 a ia va).elements = .ok 1 := rfl
  have helb : elementsNat (ldx_wparsed 1 b ib vb).elements = .ok 1 := rfl
  unfold writeBuildRequests
  simp only [List.length_cons, List.length_nil, Nat.zero_add, Nat.reduceAdd, ne_eq, Nat.succ_ne_self,
    not_false_eq_true, hmicro, Bool.not_false, and_self, if_true,
    writeBuildLive, herra, herrb, hinfa, hinfb, hbwa, hbwb, Bool.false_eq_true, if_false, henca, hencb, hrep1, hrep2,
    mkWriteReq, hpa', hpb', hela, helb, WriteReq.messageLen, hna, hnb, decide_false, List.nil_append, List.cons_append]
  simp only [K.plan, List.filter_cons, List.filter_nil, Bool.not_false, if_true, hna, hnb, decide_false, Bool.false_eq_true,
    if_false, List.map_cons, List.map_nil, List.foldl_cons, List.foldl_nil, K.groupStep, hg1, hg2, List.reverse_cons,
    List.reverse_nil, List.nil_append, List.cons_append, ne_eq, not_false_eq_true, decide_true,
    reduceCtorEq, List.filterMap_cons, List.filterMap_nil, List.find?_cons, beq_self_eq_true, drawSeqs,
    List.append_nil]
  rfl

/-! ### (c)+(d)+(e) the multi-service packet with two embedded Write Tag requests -/

theorem ldx_sendRequest_mwrite (w w2 : Cli.World Ext) (rs : Results) (seq : Nat) (reqs : List WriteReq) (raw : Option Bytes)
    (h : sendUnit hookAll w seq (Cl.multiMsg (reqs.map fun q => Cl.writeMsg q.path q.typeBytes q.elements q.value)) =
      (w2, .ok raw))
    (hcs : (tagResp raw).p.commandStatus = some 0) :
    sendRequest hookAll w rs (.multiWrite seq reqs) =
      (w2, multiWriteResults rs (reqs.zip (embeddedReplies (tagResp raw).p.data))) := by
  unfold sendRequest
  simp only [h, multiPacketError, hcs, if_true]

theorem ldx_writeMsg_eq (path ty : Bytes) (n : Nat) (value : Bytes) :
    Cl.writeMsg path ty n value = [0x4D] ++ path ++ (ty ++ le 2 n ++ value) := by
  simp only [Cl.writeMsg, List.append_assoc]

theorem ldx_writeMsg_length (path ty : Bytes) (n : Nat) (value : Bytes) :
    (Cl.writeMsg path ty n value).length = path.length + ty.length + value.length + 3 := by
  simp only [Cl.writeMsg, List.length_append, List.length_cons, List.length_nil, le_length]; omega

/-- the multi-service packet with two embedded Write Tag requests over the healthy connection: one frame is written;
    `_send_requests` pairs the two requests with the two embedded replies — the answers the controller gives to the
    two requests one after the other — each behind the 46 zero bytes; whatever the outer status -/
theorem ldx_sendRequest_mwrite_two (w : Cli.World Ext) (sess : Nat) (cidb : Bytes) (conn : Conn) (st st1 st2 : LState)
    (rs : Results) (seq : Nat) (qa qb : WriteReq) (segsa segsb : List PSeg) (ra rb : MRReply)
    (hw : ldr_Healthy w sess cidb conn) (hlogix : w.net.target.ext.logix = some st)
    (hdena : Denotes qa.path segsa) (hdenb : Denotes qb.path segsb)
    (hexa : Cl.exchange st (conn.size - 2) (Cl.writeMsg qa.path qa.typeBytes qa.elements qa.value) = (st1, ra))
    (hexb : Cl.exchange st1 (conn.size - 2) (Cl.writeMsg qb.path qb.typeBytes qb.elements qb.value) = (st2, rb))
    (hseq : seq < 65536)
    (hfit : (Cl.writeMsg qa.path qa.typeBytes qa.elements qa.value).length +
        (Cl.writeMsg qb.path qb.typeBytes qb.elements qb.value).length + 14 ≤ conn.size)
    (hpl : (Cl.writeMsg qa.path qa.typeBytes qa.elements qa.value).length +
        (Cl.writeMsg qb.path qb.typeBytes qb.elements qb.value).length ≤ 60000)
    (hrl : ra.ext.length + rb.ext.length + ra.data.length + rb.data.length ≤ 30000) :
    ∃ w' frm, sendRequest hookAll w rs (.multiWrite seq [qa, qb]) =
        (w', multiWriteResults rs [(qa, some (List.replicate 46 0 ++ encMRReply 0x4D ra)),
                                    (qb, some (List.replicate 46 0 ++ encMRReply 0x4D rb))]) ∧
      w'.drv = w.drv ∧ w'.net.sent = w.net.sent ++ [frm] ∧
      w'.net.target.ext = { w.net.target.ext with logix := some st2 } ∧
      ldr_Healthy w' sess cidb { conn with lastSeq := some seq } := by
  generalize hma : Cl.writeMsg qa.path qa.typeBytes qa.elements qa.value = ma at hexa hfit hpl
  generalize hmb : Cl.writeMsg qb.path qb.typeBytes qb.elements qb.value = mb at hexb hfit hpl
  have hqa : parseMR ma = some { service := 0x4D, path := segsa, data := qa.typeBytes ++ le 2 qa.elements ++ qa.value } := by
    rw [← hma, ldx_writeMsg_eq]
    exact parseMR_msg 0x4D qa.path _ segsa hdena
  have hqb : parseMR mb = some { service := 0x4D, path := segsb, data := qb.typeBytes ++ le 2 qb.elements ++ qb.value } := by
    rw [← hmb, ldx_writeMsg_eq]
    exact parseMR_msg 0x4D qb.path _ segsb hdenb
  have hls := ldr2_multi_two st (conn.size - 2) ma mb _ _ hqa hqb (by simp) (by simp) (by omega)
  rw [hexa] at hls
  simp only at hls
  rw [hexb] at hls
  simp only at hls
  have hml : (Cl.multiMsg [ma, mb]).length = 12 + ma.length + mb.length := by
    unfold Cl.multiMsg
    rw [List.length_append, ldr2_packMulti_two_length]
    simp; omega
  obtain ⟨w2, frm, hsend, hd2, hsent2, hext2, hh2⟩ := ldr2_sendUnit_logix w sess cidb conn st seq
    (Cl.multiMsg [ma, mb])
    { service := 0x0A, path := [.logical 0 2, .logical 4 1], data := K.packMulti [ma, mb] } _
    hw hlogix (parseMR_multi _)
    (Or.inr ⟨2, 1, [], rfl, by decide, by decide, by decide, by decide, by decide⟩) hls
    hseq (by rw [hml]; omega) (by rw [hml]; omega)
  have hdata := ldx_multi_data sess conn.toId seq w.drv.context
    (K.packMulti [encMRReply 0x4D ra, encMRReply 0x4D rb])
    ([encMRReply 0x4D ra, encMRReply 0x4D rb].any (fun r => r.getD 2 0 != 0)) hw.ctx8
  have hemb : embeddedReplies (some (K.packMulti [encMRReply 0x4D ra, encMRReply 0x4D rb])) =
      [some (List.replicate 46 0 ++ encMRReply 0x4D ra), some (List.replicate 46 0 ++ encMRReply 0x4D rb)] := by
    unfold embeddedReplies
    simp only
    rw [if_neg (by rw [ldr2_packMulti_two_length]; omega),
      K.client_unpacks_packed _ (by simp) (by simp only [List.length_cons, List.length_nil, List.map_cons, List.map_nil,
        List.foldl_cons, List.foldl_nil, ldx_encMRReply_length]; omega)]
    rfl
  refine ⟨w2, frm, ?_, hd2, hsent2, hext2, hh2⟩
  have hmap : ([qa, qb] : List WriteReq).map (fun q => Cl.writeMsg q.path q.typeBytes q.elements q.value) = [ma, mb] := by
    rw [← hma, ← hmb]; rfl
  rw [← hmap] at hsend
  rw [ldx_sendRequest_mwrite w w2 rs seq _ _ hsend (ldr_tagResp_commandStatus _ _ _ _), hdata, hemb]
  rfl

/-- `write((a, va), (b, vb))` of two one-element requests with plain parses on a healthy connected driver that is not
    a Micro800, whose messages fit one multi-service packet, for ANY answers `ra`, `rb` of the controller to the two
    embedded Write Tag requests (executed in order): ONE frame is written, three sequence numbers are drawn, and the
    result holds, in request order, what the result loop makes of the two embedded replies. -/
theorem ldx_write_two_general (cfg : Cfg) (w : Cli.World Ext) (sess : Nat) (cidb : Bytes) (conn : Conn)
    (st st1 st2 : LState) (a b : Name) (ia ib : TagInfo) (va vb : PyVal) (pa pb ba bb : Bytes)
    (segsa segsb : List PSeg) (ra rb : MRReply) (rs : Results)
    (hw : ldr_Healthy w sess cidb conn) (hlogix : w.net.target.ext.logix = some st) (hmicro : cfg.micro800 = false)
    (hparsea : parseTagRequest cfg.tags true 0 a = ldr2_parsedAt 0 a ia)
    (hparseb : parseTagRequest cfg.tags true 1 b = ldr2_parsedAt 1 b ib)
    (henca : encodeValue (ldx_wparsed 0 a ia va) ia = (ldx_wparsed 0 a ia va, some ba))
    (hencb : encodeValue (ldx_wparsed 1 b ib vb) ib = (ldx_wparsed 1 b ib vb, some bb))
    (hpa : requestPathOf cfg a ia = .ok pa) (hpb : requestPathOf cfg b ib = .ok pb)
    (hdena : Denotes pa segsa) (hdenb : Denotes pb segsb)
    (hexa : Cl.exchange st (conn.size - 2) (Cl.writeMsg pa (packedTypeOf ia) 1 ba) = (st1, ra))
    (hexb : Cl.exchange st1 (conn.size - 2) (Cl.writeMsg pb (packedTypeOf ib) 1 bb) = (st2, rb))
    (hmw : multiWriteResults []
      [(ldx_wreq w.drv.nextSeq.1 0 a ia pa ba, some (List.replicate 46 0 ++ encMRReply 0x4D ra)),
       (ldx_wreq w.drv.nextSeq.2.nextSeq.1 1 b ib pb bb, some (List.replicate 46 0 ++ encMRReply 0x4D rb))] = .ok rs)
    (hsize : K.OVERHEAD + ldx_wlen ia pa ba + ldx_wlen ib pb bb ≤ w.drv.connectionSize)
    (hfit : ldx_wlen ia pa ba + ldx_wlen ib pb bb + 10 ≤ conn.size) (hpl : ldx_wlen ia pa ba + ldx_wlen ib pb bb ≤ 60000)
    (hrl : ra.ext.length + rb.ext.length + ra.data.length + rb.data.length ≤ 30000) :
    ∃ w' frm, write hookAll cfg w [(a, va), (b, vb)] =
        (w', .ok [writeResult (ldx_wparsed 0 a ia va) rs, writeResult (ldx_wparsed 1 b ib vb) rs]) ∧
      w'.drv = w.drv.nextSeq.2.nextSeq.2.nextSeq.2 ∧ w'.net.sent = w.net.sent ++ [frm] ∧
      w'.net.target.ext = { w.net.target.ext with logix := some st2 } ∧
      ldr_Healthy w' sess cidb { conn with lastSeq := some w.drv.nextSeq.2.nextSeq.2.nextSeq.1 } := by
  have hparsed : ((parseRequestedTags cfg.tags true ([(a, va), (b, vb)].map (·.1))).zip ([(a, va), (b, vb)].map (·.2))).map
      (fun x => ({ x.1 with value := x.2 } : Drv.Parsed)) = [ldx_wparsed 0 a ia va, ldx_wparsed 1 b ib vb] := by
    show ([parseTagRequest cfg.tags true 0 a, parseTagRequest cfg.tags true 1 b].zip [va, vb]).map _ = _
    rw [hparsea, hparseb]; rfl
  have hbuild := ldx_wbuild_two cfg w.drv a b ia ib va vb pa pb ba bb hmicro henca hencb hpa hpb hsize
  have hw1 : ldr_Healthy ({ w with drv := w.drv.nextSeq.2.nextSeq.2.nextSeq.2 } : Cli.World Ext) sess cidb conn :=
    ldr_Healthy_seq hw _ rfl
  unfold ldx_wlen at hfit hpl
  obtain ⟨w2, frm, hsend, hd2, hsent2, hext2, hh2⟩ := ldx_sendRequest_mwrite_two
    ({ w with drv := w.drv.nextSeq.2.nextSeq.2.nextSeq.2 } : Cli.World Ext) sess cidb conn st st1 st2 []
    w.drv.nextSeq.2.nextSeq.2.nextSeq.1
    (ldx_wreq w.drv.nextSeq.1 0 a ia pa ba) (ldx_wreq w.drv.nextSeq.2.nextSeq.1 1 b ib pb bb)
    segsa segsb ra rb hw1 hlogix hdena hdenb hexa hexb (ldr_nextSeq_lt _)
    (by simp only [ldx_wreq]; omega) (by simp only [ldx_wreq]; omega) hrl
  have hfo : Cli.ensureForwardOpen hookAll Cli.FUEL w = (w, .ok ()) := ldr_ensureFO_connected hookAll 7 w hw.connected
  refine ⟨w2, frm, ?_, hd2, hsent2, hext2, hh2⟩
  unfold write
  rw [hfo]
  dsimp only
  rw [hparsed, hbuild]
  dsimp only
  unfold sendRequests
  rw [hsend, hmw]
  dsimp only
  unfold sendRequests
  dsimp only [fanOutRmw, List.isEmpty_cons, Bool.false_eq_true, if_false, List.map_cons, List.map_nil]
  simp only [Bool.false_eq_true, if_false, List.map_cons, List.map_nil]

/-! ### `write((good, v), (bad, v'))` -/

/-- a symbol other than the written one is the same symbol in the project after the write, with the same
    uniqueness facts -/
theorem ldx_other_after_write (l : List Symbol) (sa sb : Symbol) (bytes : Bytes) (hsb : sb ∈ l) (hne : sa.inst ≠ sb.inst)
    (huniqNb : ∀ s' ∈ l, s'.name = sb.name → s' = sb) (huniqIb : ∀ s' ∈ l, s'.inst = sb.inst → s' = sb) :
    sb ∈ ldw_ctl l sa.inst bytes ∧
    (∀ s' ∈ ldw_ctl l sa.inst bytes, s'.name = sb.name → s' = sb) ∧
    (∀ s' ∈ ldw_ctl l sa.inst bytes, s'.inst = sb.inst → s' = sb) := by
  have hb : (sb.inst == sa.inst) = false := by simpa using (fun h => hne h.symm)
  refine ⟨?_, ?_, ?_⟩
  · unfold ldw_ctl
    exact List.mem_map.2 ⟨sb, hsb, by simp [hb]⟩
  · intro y hy hn
    obtain ⟨x, hx, he, hn', _⟩ := ldw_ctl_inv l sa.inst bytes y hy
    have : x = sb := huniqNb x hx (by rw [← hn', hn])
    subst this
    rw [he]; simp [hb]
  · intro y hy hn
    obtain ⟨x, hx, he, _, hi'⟩ := ldw_ctl_inv l sa.inst bytes y hy
    have : x = sb := huniqIb x hx (by rw [← hi', hn])
    subst this
    rw [he]; simp [hb]

/-- `write((good, va), (bad, vb))`: `good` an elementary scalar tag written with a canonical value, `bad` an element
    beyond a one-dimensional array of another symbol -/
theorem ldx_write_good_bad (cfg : Cfg) (w : Cli.World Ext) (sess : Nat) (cidb : Bytes) (conn : Conn) (st : LState)
    (sa sb : Symbol) (ia ib : TagInfo) (ca cb sza szb dim i : Nat) (na nb : Name) (ta tb : Ty) (va vb : PyVal)
    (ba bb : Bytes)
    (hw : ldr_Healthy w sess cidb conn) (hlogix : w.net.target.ext.logix = some st) (hmicro : cfg.micro800 = false)
    (hbytes : ∀ s' ∈ st.proj.controller, ∀ ch ∈ s'.name, ch < 256)
    (hsa : sa ∈ st.proj.controller) (hsb : sb ∈ st.proj.controller) (hne : sa.inst ≠ sb.inst)
    (huniqNa : ∀ s' ∈ st.proj.controller, s'.name = sa.name → s' = sa)
    (huniqNb : ∀ s' ∈ st.proj.controller, s'.name = sb.name → s' = sb)
    (huniqIa : ∀ s' ∈ st.proj.controller, s'.inst = sa.inst → s' = sa)
    (huniqIb : ∀ s' ∈ st.proj.controller, s'.inst = sb.inst → s' = sb)
    (hida : PlainIdent sa.name) (hidb : PlainIdent sb.name) (hinsta : sa.inst < 2 ^ 32) (hinstb : sb.inst < 2 ^ 32)
    (htya : elTyOfWord sa.symbolType = .atomic ca) (htyb : elTyOfWord sb.symbolType = .atomic cb)
    (hata : atomicOfCode ca = some (na, ta)) (hatb : atomicOfCode cb = some (nb, tb))
    (hba : ta.isBits = none) (hbb : tb.isBits = none)
    (hsza : atomicSize ca = some sza) (hszb : atomicSize cb = some szb)
    (hlena : sa.mem.length = sza)
    (hdimsb : sb.dims.filter (· != 0) = [dim]) (hlenb : sb.mem.length = dim * szb)
    (hgeta : cfg.tags.get? sa.name = some ia) (hgetb : cfg.tags.get? sb.name = some ib)
    (hinfoa : ldr_InfoOf ia na ta sa.inst) (hinfob : ldr_InfoOf ib nb (.arr (.fixed dim) tb) sb.inst)
    (hcanona : Canon ta va) (henca : encode ta va = .ok ba)
    (hcanonb : Canon tb vb) (hencb : encode tb vb = .ok bb)
    (hi : dim ≤ i) (hi32 : i < 2 ^ 32)
    (hC : sa.name.length + sb.name.length + sza + szb + 56 ≤ w.drv.connectionSize)
    (hT : sa.name.length + sb.name.length + sza + szb + 56 ≤ conn.size) :
    ∃ w' frm, write hookAll cfg w [(sa.name, va), (renderLevel ⟨sb.name, [i]⟩, vb)] =
        (w', .ok [{ tag := sa.name, value := va, type := some na, error := none },
                  { tag := renderLevel ⟨sb.name, [i]⟩, value := vb, type := some nb,
                    error := some (.reply (.text (ldx_errText { status := 0xFF, ext := [0x2105] }))) }]) ∧
      w'.drv = w.drv.nextSeq.2.nextSeq.2.nextSeq.2 ∧ w'.net.sent = w.net.sent ++ [frm] ∧
      w'.net.target.ext =
        { w.net.target.ext with logix := some { st with proj := written st.proj (ldr_loc sa ca) 0 ba } } ∧
      ldr_Healthy w' sess cidb { conn with lastSeq := some w.drv.nextSeq.2.nextSeq.2.nextSeq.1 } := by
  obtain ⟨hatya, hentrya, hndwa, hposa, hle8a⟩ := ldr_atomic_table ca sza na ta hata hba hsza
  obtain ⟨hatyb, hentryb, hndwb, hposb, hle8b⟩ := ldr_atomic_table cb szb nb tb hatb hbb hszb
  have hshapea := ldr_atomicTy_shape ca ta hatya hba
  have hshapeb := ldr_atomicTy_shape cb tb hatyb hbb
  have hbla : ba.length = sza := ldw_encode_length ca sza ta va ba hatya hba hsza hcanona henca
  have hblb : bb.length = szb := ldw_encode_length cb szb tb vb bb hatyb hbb hszb hcanonb hencb
  -- (a) parsing
  have hnda : isDword ia = false := by
    have : (na == nm "DWORD") = false := by simpa using hndwa
    simp [isDword, hinfoa.typeName, this]
  have hparsea : parseTagRequest cfg.tags true 0 sa.name = ldr2_parsedAt 0 sa.name ia := by
    rw [ldr_parse_plain cfg.tags true 0 sa.name ia hida hgeta hnda]; rfl
  obtain ⟨hl, hparseb⟩ := ldx_parse_elem cfg true 1 sb.name i ib nb _ sb.inst hidb hi32 hgetb hinfob hndwb
  -- (b) values, paths
  have hencva : encodeValue (ldx_wparsed 0 sa.name ia va) ia = (ldx_wparsed 0 sa.name ia va, some ba) :=
    ldw_encodeValue (ldx_wparsed 0 sa.name ia va) ia ta ba (ldw_canon_not_bytes ta va hshapea hcanona)
      (by rw [hinfoa.typeName]; exact hndwa) hinfoa.ty hshapea henca
  obtain ⟨hnbb, hseqb⟩ := ldx_canon_scalar tb vb hshapeb hcanonb
  have hencvb : encodeValue (ldx_wparsed 1 (renderLevel ⟨sb.name, [i]⟩) ib vb) ib =
      (ldx_wparsed 1 (renderLevel ⟨sb.name, [i]⟩) ib vb, some bb) :=
    ldx_encodeValue_elem (ldx_wparsed 1 (renderLevel ⟨sb.name, [i]⟩) ib vb) ib dim tb bb hnbb hseqb
      (by rw [hinfob.typeName]; exact hndwb) hinfob.ty hbb rfl rfl
      (by show encode tb (argOf tb vb) = _; rw [RT.argOf_of_canon tb vb hcanonb]; exact hencb)
  obtain ⟨pa, hpa, hpla, hdena⟩ := ldr_requestPath cfg sa.name ia sa.inst hida hinfoa.instanceId hinsta
  obtain ⟨pb, hpb, hplb, hdenb⟩ := ldr2_requestPath cfg ⟨sb.name, [i]⟩ ib sb.inst hl hinfob.instanceId hinstb
  have hplb' : pb.length ≤ sb.name.length + 19 := by
    have : pb.length ≤ sb.name.length + 13 + 6 * 1 := hplb
    omega
  have hpta : packedTypeOf ia = le 2 ca := ldw_packedType ia na ca sza hinfoa.struct hinfoa.typeName hentrya
  have hptb : packedTypeOf ib = le 2 cb := ldw_packedType ib nb cb szb hinfob.struct hinfob.typeName hentryb
  have hwla : ldx_wlen ia pa ba = pa.length + sza + 7 := by
    unfold ldx_wlen; rw [ldx_writeMsg_length, hpta, le_length, hbla]; omega
  have hwlb : ldx_wlen ib pb bb = pb.length + szb + 7 := by
    unfold ldx_wlen; rw [ldx_writeMsg_length, hptb, le_length, hblb]; omega
  have hoh : K.OVERHEAD = 10 := rfl
  -- (d) the good write
  have hra := ldr_resolve st.proj sa ca sza cfg.useInstanceIds hida hsa hbytes huniqNa huniqIa htya hsza
    (by intro h; rw [h, List.length_nil] at hlena; omega)
  have hsym : st.proj.symbolOf (ldr_loc sa ca) = some sa := ldr_find_inst st.proj sa hsa huniqIa
  have hav := ldr_dimsProduct_pos sa.dims
  have hexa := write_e2e st (conn.size - 2) pa _ (ldr_loc sa ca) 1 sza ba sa hdena hra (by intro b; simp [ldr_loc])
    ⟨Nat.le_refl 1, hav, by omega⟩ hsym hsza (by omega) (by simp only [ldr_loc]; omega)
  have htb : typeBytes st.proj (ldr_loc sa ca).ty = le 2 ca := rfl
  rw [htb, ← hpta] at hexa
  have hoff : (ldr_loc sa ca).offset = 0 := rfl
  rw [hoff] at hexa
  -- (d) the refused write, on the project the good write left
  have hweq := ldw_written_eq st.proj sa ca ba hsa huniqIa (by omega)
  obtain ⟨hsb', huniqNb', huniqIb'⟩ := ldx_other_after_write st.proj.controller sa sb ba hsb hne huniqNb huniqIb
  have hmemb : sb.mem ≠ [] := by
    intro h
    rw [h, List.length_nil] at hlenb
    have hdim : dim ≠ 0 := by
      intro h0
      have : dim ∈ sb.dims.filter (· != 0) := by rw [hdimsb]; simp
      have := (List.mem_filter.1 this).2
      simp [h0] at this
    have : 0 < dim * szb := Nat.mul_pos (by omega) hposb
    omega
  have hrb : resolve (written st.proj (ldr_loc sa ca) 0 ba)
      (ldr_segs sb.name sb.inst cfg.useInstanceIds ++ [PSeg.logical 8 i]) = .error 0xFF := by
    rw [hweq]
    exact ldx_resolve_oob (ldw_proj st.proj sa ba) sb cb szb cfg.useInstanceIds i dim hidb hsb'
      (ldw_ctl_bytes st.proj.controller sa.inst ba hbytes) huniqNb' huniqIb' htyb hszb hmemb hdimsb hi
  have hexb : Cl.exchange { st with proj := written st.proj (ldr_loc sa ca) 0 ba } (conn.size - 2)
      (Cl.writeMsg pb (packedTypeOf ib) 1 bb) =
      ({ st with proj := written st.proj (ldr_loc sa ca) 0 ba }, ldx_refusal 0xFF) := by
    rw [ldx_writeMsg_eq]
    exact ldx_exchange_refused { st with proj := written st.proj (ldr_loc sa ca) 0 ba } (conn.size - 2) 0x4D pb _ _ 0xFF
      hdenb hrb (Or.inr (Or.inr (Or.inl rfl))) (ldx_tagPath_segs sb.name sb.inst cfg.useInstanceIds [PSeg.logical 8 i])
  -- (e) the two embedded replies
  have hva := ldr2_tagResp_padded 0x4D []
  have hvb := ldx_tagResp_refused_padded 0x4D (ldx_refusal 0xFF) (by decide) (by decide) (by decide)
    (Or.inr (Or.inr (Or.inl rfl)))
  have hmw : multiWriteResults []
      [(ldx_wreq w.drv.nextSeq.1 0 sa.name ia pa ba, some (List.replicate 46 0 ++ encMRReply 0x4D {})),
       (ldx_wreq w.drv.nextSeq.2.nextSeq.1 1 (renderLevel ⟨sb.name, [i]⟩) ib pb bb,
          some (List.replicate 46 0 ++ encMRReply 0x4D (ldx_refusal 0xFF)))] =
      .ok [((0 : Nat), { tag := sa.name, value := .bytes ba, type := some ia.core.dataTypeName, error := none }),
           ((1 : Nat), { tag := renderLevel ⟨sb.name, [i]⟩, value := .none, type := none,
                         error := some (.reply (.text (ldx_errText (ldx_refusal 0xFF)))) })] := by
    have hva1 : (tagResp (some (List.replicate 46 0 ++ encMRReply 0x4D {}))).valid = true := hva.1
    simp only [multiWriteResults, hva1, hvb.1, hvb.2, if_true, Bool.false_eq_true, if_false]
    rfl
  obtain ⟨w', frm, hwrite, hrest⟩ := ldx_write_two_general cfg w sess cidb conn st
    { st with proj := written st.proj (ldr_loc sa ca) 0 ba } { st with proj := written st.proj (ldr_loc sa ca) 0 ba }
    sa.name (renderLevel ⟨sb.name, [i]⟩) ia ib va vb pa pb ba bb _ _ _ _ _ hw hlogix hmicro hparsea hparseb hencva hencvb
    hpa hpb hdena hdenb hexa hexb hmw
    (by rw [hwla, hwlb, hoh]; omega) (by rw [hwla, hwlb]; omega)
    (by rw [hwla, hwlb]; have := hida.2.1; have := hidb.2.1; omega)
    (by simp [ldx_refusal])
  refine ⟨w', frm, ?_, hrest⟩
  rw [hwrite]
  have hresa := ldx_writeResult_get (ldx_wparsed 0 sa.name ia va) ia
    { tag := sa.name, value := .bytes ba, type := some ia.core.dataTypeName, error := none }
    [((0 : Nat), { tag := sa.name, value := .bytes ba, type := some ia.core.dataTypeName, error := none }),
     ((1 : Nat), { tag := renderLevel ⟨sb.name, [i]⟩, value := .none, type := none,
                   error := some (.reply (.text (ldx_errText (ldx_refusal 0xFF)))) })]
    rfl rfl rfl rfl rfl rfl
  have hresb := ldx_writeResult_get (ldx_wparsed 1 (renderLevel ⟨sb.name, [i]⟩) ib vb) ib
    { tag := renderLevel ⟨sb.name, [i]⟩, value := .none, type := none,
      error := some (.reply (.text (ldx_errText (ldx_refusal 0xFF)))) }
    [((0 : Nat), { tag := sa.name, value := .bytes ba, type := some ia.core.dataTypeName, error := none }),
     ((1 : Nat), { tag := renderLevel ⟨sb.name, [i]⟩, value := .none, type := none,
                   error := some (.reply (.text (ldx_errText (ldx_refusal 0xFF)))) })]
    rfl rfl rfl rfl rfl rfl
  rw [hresa, hresb, hinfoa.typeName, hinfob.typeName]
  rfl

end Pycomm.Lgx.Drv
