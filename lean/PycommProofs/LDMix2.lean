/-
  LogixDriver.read of any number of requests of mixed shapes, composed (generalises LDReadN4): what the layers need
  to know about one request (`ldmx_EntOk`), the results table `_send_requests` builds, the result loop, and `read` of
  n ≥ 2 such requests on a healthy connected driver (`ldmx_read_general`).
-/
import PycommProofs.LDMix1
namespace Pycomm.Lgx.Drv
open Pycomm Pycomm.Tgt Pycomm.Path Pycomm.Reply Pycomm.Encap Pycomm.Lgx Pycomm.Lgx.E2E

/-- what the layers need to know about one request of the call (`st`: the controller's state when the call starts,
    `cap`: the size of the connection as the controller knows it, minus the sequence count) -/
structure ldmx_EntOk (cfg : Cfg) (st : LState) (cap : Nat) (e : ldmx_Ent) : Prop where
  /-- (a) the request string parses, at any position, to the request on the entry -/
  parse : ∀ rid, parseTagRequest cfg.tags false rid e.tag = ldmx_parsedAt rid e
  /-- (b) the element count fits the 16-bit field -/
  els16 : e.els ≤ 65535
  /-- (b) the request path of the `plc_tag` -/
  path : requestPathOf cfg e.plc e.info = .ok e.path
  /-- (d) which the controller's strict parser reads as `segs` -/
  den : Denotes e.path e.segs
  /-- (d) the controller's answer, whatever the schedule counter -/
  ex : ∀ k, Cl.exchange { st with ctr := st.ctr + k } cap (Cl.readMsg e.path e.els) =
    ({ st with ctr := st.ctr + k + e.adv }, e.reply)
  /-- the answer (with its slot in the offset table) is within the driver's estimate -/
  rlen : (encMRReply 0x4C e.reply).length + 2 ≤ ldmx_estE e
  /-- (e) what `_send_requests` records for the embedded reply -/
  mr : ∀ (rs : Results) (q : ReadReq) (rest : List (ReadReq × Option Bytes)),
    q.tag = e.plc → q.info = e.info → q.elements = e.els →
    multiReadResults rs ((q, some (List.replicate 46 0 ++ encMRReply 0x4C e.reply)) :: rest) =
      multiReadResults (rs.set q.rid e.rcd) rest
  /-- (f) what the result loop of `read` makes of the recorded Tag -/
  res : ∀ (rid : Nat) (rs : Results), rs.get? rid = some e.rcd → readResult (ldmx_parsedAt rid e) rs = e.res

/-- the built request of an entry: its answer, its step, stability -/
theorem ldmx_ent_facts (cfg : Cfg) (st : LState) (cap : Nat) (e : ldmx_Ent) (hok : ldmx_EntOk cfg st cap e)
    (q : ReadReq) (hp : q.path = e.path) (hel : q.elements = e.els) :
    ldrn_rep st cap q = e.reply ∧ ldrn_step st cap q = e.adv ∧ ldrn_Stable st cap q := by
  have hm : ldrn_msg q = Cl.readMsg e.path e.els := by unfold ldrn_msg; rw [hp, hel]
  have h0 : Cl.exchange st cap (Cl.readMsg e.path e.els) = ({ st with ctr := st.ctr + 0 + e.adv }, e.reply) := hok.ex 0
  have h1 : ldrn_rep st cap q = e.reply := by unfold ldrn_rep; rw [hm, h0]
  have h2 : ldrn_step st cap q = e.adv := by
    unfold ldrn_step; rw [hm, h0]; simp only; omega
  refine ⟨h1, h2, ?_⟩
  intro k
  rw [h1, h2, hm]
  exact hok.ex k

theorem ldmx_reqs_mem (d : Cli.Drv) (k : Nat) (es : List ldmx_Ent) (q : ReadReq) (hq : q ∈ ldmx_reqs d k es) :
    ∃ e ∈ es, q.tag = e.plc ∧ q.info = e.info ∧ q.path = e.path ∧ q.elements = e.els := by
  induction es generalizing d k with
  | nil => cases hq
  | cons e es ih =>
    rw [ldmx_reqs] at hq
    rcases List.mem_cons.1 hq with rfl | h
    · exact ⟨e, List.mem_cons_self, rfl, rfl, rfl, rfl⟩
    · obtain ⟨e', he', h'⟩ := ih _ _ h
      exact ⟨e', List.mem_cons_of_mem _ he', h'⟩

theorem ldmx_reqs_steps (cfg : Cfg) (st : LState) (cap : Nat) (d : Cli.Drv) (k : Nat) (es : List ldmx_Ent)
    (hok : ∀ e ∈ es, ldmx_EntOk cfg st cap e) :
    (ldmx_reqs d k es).map (ldrn_step st cap) = es.map (·.adv) := by
  induction es generalizing d k with
  | nil => rfl
  | cons e es ih =>
    rw [ldmx_reqs, List.map_cons, List.map_cons, ih _ _ (fun e' h' => hok e' (List.mem_cons_of_mem _ h')),
      (ldmx_ent_facts cfg st cap e (hok e List.mem_cons_self) _ rfl rfl).2.1]

/-! ### (e) the results table -/

/-- the table after the entries were recorded under request ids `k`, `k + 1`, … -/
def ldmx_table : Results → Nat → List ldmx_Ent → Results
  | rs, _, [] => rs
  | rs, k, e :: es => ldmx_table (rs.set ((k : Nat) : Int) e.rcd) (k + 1) es

theorem ldmx_mrr_table (cfg : Cfg) (st : LState) (cap : Nat) (es : List ldmx_Ent) (d : Cli.Drv) (k : Nat) (rs : Results)
    (hok : ∀ e ∈ es, ldmx_EntOk cfg st cap e) :
    multiReadResults rs ((ldmx_reqs d k es).map fun q =>
      (q, some (List.replicate 46 0 ++ encMRReply 0x4C (ldrn_rep st cap q)))) = .ok (ldmx_table rs k es) := by
  induction es generalizing d k rs with
  | nil => rfl
  | cons e es ih =>
    have hoe := hok e List.mem_cons_self
    rw [ldmx_reqs, List.map_cons, (ldmx_ent_facts cfg st cap e hoe _ rfl rfl).1, hoe.mr _ _ _ rfl rfl rfl,
      ih _ _ _ (fun e' h' => hok e' (List.mem_cons_of_mem _ h'))]
    rfl

theorem ldmx_table_get_lt (es : List ldmx_Ent) (k : Nat) (rs : Results) (j : Nat) (hj : j < k) :
    (ldmx_table rs k es).get? ((j : Nat) : Int) = rs.get? ((j : Nat) : Int) := by
  induction es generalizing k rs with
  | nil => rfl
  | cons e es ih =>
    rw [ldmx_table, ih (k + 1) _ (by omega), lme_get_set_ne _ _ _ _ (by omega)]

theorem ldmx_table_get (es : List ldmx_Ent) (k : Nat) (rs : Results) (i : Nat) (hi : i < es.length) :
    (ldmx_table rs k es).get? ((k + i : Nat) : Int) = some es[i].rcd := by
  induction es generalizing k rs i with
  | nil => simp at hi
  | cons e es ih =>
    rw [ldmx_table]
    cases i with
    | zero =>
      show (ldmx_table (rs.set ((k : Nat) : Int) e.rcd) (k + 1) es).get? ((k : Nat) : Int) = some e.rcd
      rw [ldmx_table_get_lt es (k + 1) _ k (by omega), lme_get_set_self]
    | succ i =>
      have := ih (k + 1) (rs.set ((k : Nat) : Int) e.rcd) i (by simpa using hi)
      rw [show k + 1 + i = k + (i + 1) by omega] at this
      rw [this]
      rfl

/-! ### (f) the result loop -/

theorem ldmx_results (cfg : Cfg) (st : LState) (cap : Nat) (es : List ldmx_Ent) (k : Nat) (rsf : Results)
    (hok : ∀ e ∈ es, ldmx_EntOk cfg st cap e)
    (hget : ∀ i (hi : i < es.length), rsf.get? ((k + i : Nat) : Int) = some es[i].rcd) :
    (ldmx_parsed k es).map (fun p => readResult p rsf) = es.map (·.res) := by
  induction es generalizing k with
  | nil => rfl
  | cons e es ih =>
    rw [ldmx_parsed, List.map_cons, List.map_cons]
    have h0 := hget 0 (by simp)
    rw [(hok e List.mem_cons_self).res k rsf h0]
    rw [ih (k + 1) (fun e' h' => hok e' (List.mem_cons_of_mem _ h'))]
    intro i hi
    have := hget (i + 1) (by simpa using hi)
    rw [show k + (i + 1) = k + 1 + i by omega] at this
    rw [this]
    rfl

/-! ### sums -/

theorem ldmx_est_ge (q : ReadReq) : q.path.length + 7 ≤ q.returnSize := by
  unfold ReadReq.returnSize ReadReq.messageLen
  have : (Cl.readMsg q.path q.elements).length = q.path.length + 3 := by simp [Cl.readMsg, le, RT.leBytes_length]
  omega

theorem ldmx_mlen_le (g : List ReadReq) : ldrn_mlen g + 2 * g.length ≤ (g.map (·.returnSize)).sum := by
  unfold ldrn_mlen
  exact ldrn_sum_le (fun q => q.path.length + 5) (·.returnSize) g 2 (fun q _ => by have := ldmx_est_ge q; omega)

/-! ### `read` of n ≥ 2 requests -/

/-- `read` of n ≥ 2 requests of any of the shapes an entry can describe, on a healthy connected driver that is not a
    Micro800, none of which needs the fragmented service, for any answers of the controller that do not depend on
    the schedule counter: the requests travel in the multi-service packets `ldmx_groups` forms (one frame each); one
    sequence number per request and one per packet is drawn; the result holds, in request order, the Tag of each
    request -/
theorem ldmx_read_general (cfg : Cfg) (w : Cli.World Ext) (sess : Nat) (cidb : Bytes) (conn : Conn) (st : LState)
    (es : List ldmx_Ent)
    (hw : ldr_Healthy w sess cidb conn) (hlogix : w.net.target.ext.logix = some st) (hmicro : cfg.micro800 = false)
    (hlen : 2 ≤ es.length)
    (hok : ∀ e ∈ es, ldmx_EntOk cfg st (conn.size - 2) e)
    (hf : ∀ e ∈ es, ldmx_estE e + K.OVERHEAD ≤ w.drv.connectionSize)
    (M : Nat)
    (hgM : ∀ g ∈ ldmx_groups w.drv.connectionSize (ldmx_reqs w.drv 0 es), K.OVERHEAD + (g.map (·.returnSize)).sum ≤ M)
    (hMT : M ≤ conn.size) (hM64 : M ≤ 65400) :
    ∃ w' frms, read hookAll cfg w (es.map (·.tag)) = (w', .ok (es.map (·.res))) ∧
      w'.drv = ldrn_adv (es.length + (ldmx_groups w.drv.connectionSize (ldmx_reqs w.drv 0 es)).length) w.drv ∧
      w'.net.sent = w.net.sent ++ frms ∧
      frms.length = (ldmx_groups w.drv.connectionSize (ldmx_reqs w.drv 0 es)).length ∧
      ldrn_FramesOf w.drv.ctx (ldrn_adv es.length w.drv) (ldmx_groups w.drv.connectionSize (ldmx_reqs w.drv 0 es)) frms ∧
      w'.net.target.ext = { w.net.target.ext with logix := some { st with ctr := st.ctr + (es.map (·.adv)).sum } } ∧
      ldr_Healthy w' sess cidb { conn with
        lastSeq := (ldrn_lastSeq (ldrn_adv es.length w.drv) (ldmx_groups w.drv.connectionSize (ldmx_reqs w.drv 0 es))
          conn.lastSeq) } := by
  have hoh : K.OVERHEAD = 10 := rfl
  have hparsed := ldmx_parse cfg.tags es (fun e he => (hok e he).parse)
  have hbuild := ldmx_build cfg w.drv es hmicro (by omega) (fun e he => (hok e he).path) (fun e he => (hok e he).els16) hf
  rw [← ldrn_adv_add] at hbuild
  generalize hgs : ldmx_groups w.drv.connectionSize (ldmx_reqs w.drv 0 es) = gs at hbuild hgM ⊢
  have hnd := ldmx_reqs_nodup w.drv 0 es
  have hfq : ∀ q ∈ ldmx_reqs w.drv 0 es, q.returnSize + K.OVERHEAD ≤ w.drv.connectionSize := by
    intro q hq
    have hmem : q.returnSize ∈ (ldmx_reqs w.drv 0 es).map (·.returnSize) := List.mem_map.2 ⟨q, hq, rfl⟩
    rw [ldmx_reqs_est] at hmem
    obtain ⟨e, he, hee⟩ := List.mem_map.1 hmem
    have := hf e he
    omega
  have hflat : gs.flatten = ldmx_reqs w.drv 0 es := by
    rw [← hgs]; exact ldmx_groups_flatten _ _ hnd hfq
  have hne : ∀ g ∈ gs, g ≠ [] := by
    rw [← hgs]; exact ldmx_groups_nonempty _ _ hfq
  have hgfit : ∀ g ∈ gs, K.OVERHEAD + (g.map (·.returnSize)).sum ≤ M := hgM
  have hmemq : ∀ g ∈ gs, ∀ q ∈ g, q ∈ ldmx_reqs w.drv 0 es := by
    intro g hg q hq
    rw [← hflat]
    exact List.mem_flatten.2 ⟨g, hg, hq⟩
  have hw1 : ldr_Healthy ({ w with drv := ldrn_adv (es.length + gs.length) w.drv } : Cli.World Ext) sess cidb conn :=
    ldr_Healthy_seq hw _ (ldrn_adv_eq _ _)
  have hmr : multiReadResults [] (gs.flatten.map fun q =>
      (q, some (List.replicate 46 0 ++ encMRReply 0x4C (ldrn_rep st (conn.size - 2) q)))) =
      .ok (ldmx_table [] 0 es) := by
    rw [hflat]; exact ldmx_mrr_table cfg st (conn.size - 2) es w.drv 0 [] hok
  obtain ⟨w2, frms, hsend, hd2, hsent2, hlen2, hfrms2, hext2, hh2⟩ := ldrn_send_groups sess cidb st (conn.size - 2) gs
    ({ w with drv := ldrn_adv (es.length + gs.length) w.drv } : Cli.World Ext) conn 0 [] (ldmx_table [] 0 es)
    (ldrn_adv es.length w.drv) hw1 rfl hlogix hne
    (by
      intro g hg q hq
      obtain ⟨e, he, _, _, hp, hel⟩ := ldmx_reqs_mem _ _ _ q (hmemq g hg q hq)
      refine ⟨⟨e.segs, ?_⟩, (ldmx_ent_facts cfg st _ e (hok e he) q hp hel).2.2⟩
      rw [hp]; exact (hok e he).den)
    (by
      intro g hg
      have h1 := hgfit g hg
      have h2 := ldmx_mlen_le g
      refine ⟨?_, ?_⟩ <;> omega)
    (by
      intro g hg
      have h1 := hgfit g hg
      have h2 := ldrn_sum_le (fun q => (encMRReply 0x4C (ldrn_rep st (conn.size - 2) q)).length) (·.returnSize) g 2 (by
        intro q hq
        obtain ⟨e, he, _, hi, hp, hel⟩ := ldmx_reqs_mem _ _ _ q (hmemq g hg q hq)
        have := (hok e he).rlen
        simp only [(ldmx_ent_facts cfg st _ e (hok e he) q hp hel).1]
        unfold ReadReq.returnSize ReadReq.messageLen
        rw [hi, hp, hel]
        exact this)
      omega)
    hmr
  have hfo : Cli.ensureForwardOpen hookAll Cli.FUEL w = (w, .ok ()) := ldr_ensureFO_connected hookAll 7 w hw.connected
  have hempty : (es.map (·.tag)).isEmpty = false := by
    cases es with
    | nil => simp at hlen
    | cons _ _ => rfl
  have hctx : (ldrn_adv (es.length + gs.length) w.drv).ctx = w.drv.ctx := by rw [ldrn_adv_eq]; rfl
  rw [show ({ w with drv := ldrn_adv (es.length + gs.length) w.drv } : Cli.World Ext).drv.ctx = w.drv.ctx from hctx] at hfrms2
  refine ⟨w2, frms, ?_, hd2, hsent2, hlen2, hfrms2, ?_, hh2⟩
  · unfold read
    rw [hfo]
    dsimp only
    rw [hparsed, hbuild]
    dsimp only
    rw [hsend]
    dsimp only
    rw [hempty]
    simp only [Bool.false_eq_true, if_false]
    rw [ldmx_results cfg st (conn.size - 2) es 0 _ hok (fun i hi => ldmx_table_get es 0 [] i hi)]
  · rw [hext2, hflat, ldmx_reqs_steps cfg st (conn.size - 2) w.drv 0 es hok]
    simp only [Nat.add_zero]

end Pycomm.Lgx.Drv
