/-
  LogixDriver.read of a slice of a one-dimensional controller-scope array of an elementary type whose data does
  not fit one reply: `name[i]{n}`, `name{n}` through Read Tag Fragmented — the layers composed.
-/
import PycommProofs.LDRead3Frag
import PycommProofs.LDRead2Array
namespace Pycomm.Lgx.Drv
open Pycomm Pycomm.Tgt Pycomm.Path Pycomm.Reply Pycomm.Encap Pycomm.Lgx Pycomm.Lgx.E2E

/-- `read` of `n ≥ 1` elements from element `i` of a one-dimensional array tag of an elementary type, requested as
    `name[i]{n}` (`idx = [i]`) or `name{n}` (`idx = []`, `i = 0`), when the driver chooses Read Tag Fragmented -/
theorem ldr3_read_array_frag (cfg : Cfg) (w : Cli.World Ext) (sess : Nat) (cidb : Bytes) (conn : Conn)
    (st : LState) (s : Symbol) (info : TagInfo) (c sz dim : Nat) (name : Name) (t : Ty)
    (idx : List Nat) (i : Nat) (cnt : Option Nat) (vs : List PyVal)
    (hidx : idx = [i] ∨ (idx = [] ∧ i = 0))
    (hw : ldr_Healthy w sess cidb conn) (hlogix : w.net.target.ext.logix = some st)
    (hs : s ∈ st.proj.controller)
    (hbytes : ∀ s' ∈ st.proj.controller, ∀ ch ∈ s'.name, ch < 256)
    (huniqN : ∀ s' ∈ st.proj.controller, s'.name = s.name → s' = s)
    (huniqI : ∀ s' ∈ st.proj.controller, s'.inst = s.inst → s' = s)
    (hid : PlainIdent s.name) (hinst : s.inst < 2 ^ 32)
    (hty : elTyOfWord s.symbolType = .atomic c) (hat : atomicOfCode c = some (name, t)) (hb : t.isBits = none)
    (hsz : atomicSize c = some sz)
    (hdims : s.dims.filter (· != 0) = [dim]) (hlen : s.mem.length = dim * sz)
    (hget : cfg.tags.get? s.name = some info) (hinfo : ldr_InfoOf info name (.arr (.fixed dim) t) s.inst)
    (hi32 : i < 2 ^ 32) (hn : 1 ≤ cnt.getD 1) (hn16 : cnt.getD 1 ≤ 65535) (hin : i + cnt.getD 1 ≤ dim)
    (hvs : vs.length = cnt.getD 1)
    (hdec : ∀ k (h : k < vs.length), ∃ rest, decode t (s.mem.drop ((i + k) * sz)) = .ok (vs[k], rest))
    (hfuel : cnt.getD 1 * sz ≤ FRAG_FUEL)
    (hfrag : ∀ path, requestPathOf cfg (renderLevel ⟨s.name, idx⟩) info = .ok path →
      w.drv.connectionSize < cnt.getD 1 * sz + path.length + 7)
    (hT : s.name.length + 28 ≤ conn.size) :
    ∃ w' fs ls', read hookAll cfg w [ldr2_tagStr ⟨s.name, idx⟩ none cnt] =
        (w', .ok [{ tag := renderLevel ⟨s.name, idx⟩, value := ldr2_value vs,
                    type := some (ldr2_typeStr name (cnt.getD 1)), error := none }]) ∧
      w'.drv = ldr3_seqs (fs.length + 1) w.drv ∧ w'.net.sent = w.net.sent ++ fs ∧
      fs.length = (ldr3_fragSizes st.proj.readSchedule (conn.size - 8) (cnt.getD 1 * sz) FRAG_FUEL st.ctr 0).length ∧
      w'.net.target.ext = { w.net.target.ext with logix := some { st with ctr := st.ctr + fs.length } } ∧
      ldr_Healthy w' sess cidb { conn with lastSeq := ls' } := by
  obtain ⟨haty, hentry, hndw, hpos, hle8⟩ := ldr_atomic_table c sz name t hat hb hsz
  have hl : ldr2_Level ⟨s.name, idx⟩ := by
    refine ⟨hid, ?_, ?_⟩
    · rcases hidx with h | ⟨h, _⟩ <;> rw [h] <;> simp
    · rcases hidx with h | ⟨h, _⟩ <;> rw [h] <;> simp [hi32]
  have hil : idx.length ≤ 1 := by rcases hidx with h | ⟨h, _⟩ <;> rw [h] <;> simp
  -- (a) parsing
  have hnd : isDword info = false := by
    have : (name == nm "DWORD") = false := by simpa using hndw
    simp [isDword, hinfo.typeName, this]
  have hparse := ldr2_parse_unfold cfg.tags false 0 ⟨s.name, idx⟩ none cnt hl
    (by intro n hc; rw [hc] at hn16; simpa using hn16)
  rw [Option.map_none, ldr2_tail_plain cfg.tags false 0 _ _ _ _ ⟨s.name, idx⟩ none info hl hget hnd rfl] at hparse
  -- (b) the path
  obtain ⟨path, hpath, hpl, hden⟩ := ldr2_requestPath cfg ⟨s.name, idx⟩ info s.inst hl hinfo.instanceId hinst
  have hpl' : path.length ≤ s.name.length + 19 := by
    have : path.length ≤ s.name.length + 13 + 6 * idx.length := hpl
    omega
  have hrs : tagReturnSize info (cnt.getD 1) = sz * cnt.getD 1 := by
    simp [tagReturnSize, hinfo.struct, hinfo.typeName, hentry]
  -- (d) the address
  have hmem : s.mem ≠ [] := by
    intro h
    rw [h, List.length_nil] at hlen
    have : 0 < dim * sz := Nat.mul_pos (by omega) hpos
    omega
  have hr : resolve st.proj (ldr_segs s.name s.inst cfg.useInstanceIds ++ idx.map (PSeg.logical 8)) =
      .ok (ldr2_locAt s c sz i dim) := by
    rcases hidx with h | ⟨h, h0⟩
    · rw [h]
      exact ldr2_resolve_elem st.proj s c sz cfg.useInstanceIds i dim hid hs hbytes huniqN huniqI hty hsz hmem hdims (by omega)
    · rw [h, h0, List.map_nil, List.append_nil, ← ldr2_loc_zero s c sz dim hdims]
      exact ldr_resolve st.proj s c sz cfg.useInstanceIds hid hs hbytes huniqN huniqI hty hsz hmem
  have hbts := ldr2_readBytes_elem st.proj s c sz i dim (cnt.getD 1) hs huniqI hsz hlen hin
  -- (e) the reply
  have hreply := ldr2_parseReadReply_arr info c sz dim t name s.mem (i * sz) (cnt.getD 1) vs hinfo.ty hinfo.typeName hndw
    haty hb hsz hn hvs (by
      intro k hk
      obtain ⟨r, hr⟩ := hdec k hk
      refine ⟨r, ?_⟩
      rw [← Nat.add_mul]; exact hr)
  have hbl : ((s.mem.drop (i * sz)).take (cnt.getD 1 * sz)).length = cnt.getD 1 * sz := by
    rw [List.length_take, List.length_drop, hlen]
    have : i * sz + cnt.getD 1 * sz ≤ dim * sz := by rw [← Nat.add_mul]; exact Nat.mul_le_mul_right sz hin
    omega
  have hbpos : 0 < cnt.getD 1 * sz := Nat.mul_pos (by omega) hpos
  have htyok : TyOk (ldr2_locAt s c sz i dim).ty := by
    intro c' e
    simp only [ldr2_locAt, ElTy.atomic.injEq] at e
    subst e
    exact atomicTy_lt c t haty
  have htb : (typeBytes st.proj (ldr2_locAt s c sz i dim).ty).length = 2 := by
    simp [ldr2_locAt, typeBytes, le, RT.leBytes_length]
  have hC := hfrag path hpath
  obtain ⟨w', fs, ls', hread, h1, h2, h3, h4, h5⟩ := ldr3_read_single_frag cfg w sess cidb conn st
    (ldr2_tagStr ⟨s.name, idx⟩ none cnt) _ info path _ (ldr2_locAt s c sz i dim) (cnt.getD 1) _ _ _ hw hlogix hparse
    rfl rfl rfl rfl hpath hden (by have := hid.2.1; omega) hr htyok
    ⟨hn, by simp only [ldr2_locAt]; omega, by omega⟩ hbts
    (by intro h; rw [h, List.length_nil] at hbl; omega) (by rw [hbl]; exact hfuel) hreply
    (by rw [hrs, Nat.mul_comm]; omega) (by omega) (by rw [htb]; omega)
  rw [hbl, htb] at h3
  have e8 : conn.size - 2 - 4 - 2 = conn.size - 8 := by omega
  rw [e8] at h3
  refine ⟨w', fs, ls', ?_, h1, h2, h3, h4, h5⟩
  rw [hread]
  have hresult := ldr_readResult
    { requestId := 0, requestTag := ldr2_tagStr ⟨s.name, idx⟩ none cnt, userTag := ldr2_tagStr ⟨s.name, idx⟩ none none,
      plcTag := renderLevel ⟨s.name, idx⟩, bit := none, elements := ((cnt.getD 1 : Nat) : Int), info := some info,
      boolElements := none } info
    { tag := renderLevel ⟨s.name, idx⟩, value := ldr2_value vs, type := some (ldr2_typeStr name (cnt.getD 1)), error := none }
    rfl rfl rfl (by rw [hinfo.typeName]; exact hndw)
    (ldr2_value_not_none c t haty hb vs (fun k hk => by obtain ⟨r, hr⟩ := hdec k hk; exact ⟨_, r, hr⟩)) rfl
  dsimp only at hresult ⊢
  rw [hresult]

end Pycomm.Lgx.Drv
