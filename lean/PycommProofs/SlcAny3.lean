/-
  C13 / C18 for the SLC driver over ARBITRARY reply bytes, part 3: `sda_ReplyOk` in plain terms for the 16-bit files
  (N, B, S, O, I).

    * `sda_ReplyOk_word_iff`: a word address (`N7:1`, `N7:0{3}`, `S:4`, `I:1.0` …): byte 58 is 0, there is at least one
      data byte behind offset 61 and the number of data bytes is even — NOT: as many words as were asked for;
    * `sda_ReplyOk_bit_iff`: a bit address (`N7:1/3`, `B3/17`, `S:1/15` …): byte 58 is 0 and at least the two bytes of
      one word follow offset 61.
-/
import PycommProofs.SlcAny2
namespace Pycomm.Slc.Drv
open Pycomm Pycomm.Tgt Pycomm.Slc Pycomm.Encap Pycomm.Lgx.Drv

theorem sda_dec16_one (b : UInt8) :
    (match decode (.int .int) [b] with
      | .ok (v, _) => (Except.ok v : Except Exn PyVal) | .error _ => .error .response) = .error .response := by
  rfl

/-- the element loop over an odd number of bytes fails: the last, single byte is not a word -/
theorem sda_go_odd (dec : Bytes → Except Exn PyVal)
    (hdec2 : ∀ b0 b1, ∃ v, dec [b0, b1] = .ok v) (hdec1 : ∀ b, ∃ e, dec [b] = .error e) :
    ∀ (n : Nat) (bs : Bytes) (fuel : Nat), bs.length = 2 * n + 1 → n < fuel →
      ∃ e, parseReadReply.go 2 dec fuel bs = .error e
  | 0, [b], fuel, _, hf => by
      cases fuel with
      | zero => omega
      | succ fuel =>
        obtain ⟨e, he⟩ := hdec1 b
        exact ⟨e, by simp [parseReadReply.go, he]⟩
  | 0, [], _, h, _ => by simp at h
  | 0, _ :: _ :: _, _, h, _ => by simp at h
  | n + 1, b0 :: b1 :: rest, fuel, h, hf => by
      simp only [List.length_cons] at h
      cases fuel with
      | zero => omega
      | succ fuel =>
        obtain ⟨e, he⟩ := sda_go_odd dec hdec2 hdec1 n rest fuel (by omega) (by omega)
        obtain ⟨v, hv⟩ := hdec2 b0 b1
        exact ⟨e, by simp [parseReadReply.go, hv, he, Except.map]⟩
  | n + 1, [], _, h, _ => by simp at h
  | n + 1, [_], _, h, _ => by simp at h

/-- `_parse_read_reply` for a word address of a 16-bit file succeeds exactly on a non-empty, even number of bytes -/
theorem sda_parse_word_iff (a : Addr) (hft : a.fileType ∈ wordFiles) (haf : a.addressField ≠ 3) (data : Bytes) :
    (∃ v, parseReadReply a data = .ok v) ↔ (1 ≤ data.length ∧ data.length % 2 = 0) := by
  obtain ⟨hty, hsz, _, _, _⟩ := slx_wordFiles hft
  unfold parseReadReply
  simp only [hty, hsz]
  rw [if_neg haf, if_neg (by decide)]
  rcases Nat.mod_two_eq_zero_or_one data.length with hpar | hpar
  · obtain ⟨n, hn⟩ : ∃ n, data.length = 2 * n := ⟨data.length / 2, by omega⟩
    rw [slx_go_words _ slx_hdec16 n data _ hn (by omega)]
    have hl := slx_words_length n data hn
    match hw : words data, hl with
    | [], hl =>
      simp only [List.length_nil] at hl
      constructor
      · rintro ⟨v, hv⟩
        cases hv
      · rintro ⟨h1, _⟩
        omega
    | [w0], hl =>
      simp only [List.length_cons, List.length_nil] at hl
      exact ⟨fun _ => ⟨by omega, hpar⟩, fun _ => ⟨_, rfl⟩⟩
    | w0 :: w1 :: ws, hl =>
      simp only [List.length_cons] at hl
      exact ⟨fun _ => ⟨by omega, hpar⟩, fun _ => ⟨_, rfl⟩⟩
  · obtain ⟨n, hn⟩ : ∃ n, data.length = 2 * n + 1 := ⟨data.length / 2, by omega⟩
    obtain ⟨e, he⟩ := sda_go_odd (sda_dec (.int .int)) (fun b0 b1 => ⟨_, slx_hdec16 b0 b1⟩)
      (fun b => ⟨_, sda_dec16_one b⟩) n data (data.length + 1) hn (by omega)
    generalize hgo : parseReadReply.go 2 _ (data.length + 1) data = g
    have hg : g = .error e := hgo.symm.trans he
    subst hg
    constructor
    · rintro ⟨v, hv⟩
      cases hv
    · rintro ⟨_, h2⟩
      omega

/-- … for a bit address of a 16-bit file: exactly when the two bytes of the first word are there -/
theorem sda_parse_bit_iff (a : Addr) (hft : a.fileType ∈ wordFiles) (haf : a.addressField = 3) (data : Bytes) :
    (∃ v, parseReadReply a data = .ok v) ↔ 2 ≤ data.length := by
  obtain ⟨hty, hsz, _, h84, h67⟩ := slx_wordFiles hft
  constructor
  · rintro ⟨v, hv⟩
    match data, hv with
    | [], hv =>
      obtain ⟨e, he⟩ := sda_parseReadReply_nil a
      rw [he] at hv
      cases hv
    | [b], hv =>
      have h70 : a.fileType ≠ [70] := by
        intro h
        have hr : elemTy [70] = some .real := rfl
        rw [h, hr] at hty
        cases hty
      unfold parseReadReply at hv
      simp only [hty, hsz, haf, h84, h67, h70, or_self, false_and, if_false, if_true, List.take_succ_cons,
        List.take_nil] at hv
      have hv' : (Except.error Exn.response : Except Exn PyVal) = .ok v := hv
      cases hv'
    | _ :: _ :: _, _ => simp
  · intro h
    match data, h with
    | b0 :: b1 :: rest, _ => exact ⟨_, slx_reply_bit a hty haf ⟨h84, h67⟩ hsz b0 b1 rest⟩

/-- `sda_ReplyOk` in plain terms, word address of a 16-bit file (N, B, S, O, I): byte 58 is 0, at least one data byte
    follows offset 61 and the number of data bytes is even.  The number of words the address asked for (`{n}`) plays no
    part: a reply holding fewer (or more) words passes, the Tag carries what the reply holds. -/
theorem sda_ReplyOk_word_iff (a : Addr) (hft : a.fileType ∈ wordFiles) (haf : a.addressField ≠ 3) (raw : Bytes) :
    sda_ReplyOk a raw ↔ (raw[58]? = some 0 ∧ 62 ≤ raw.length ∧ (raw.length - 61) % 2 = 0) := by
  unfold sda_ReplyOk
  rw [sda_parse_word_iff a hft haf, List.length_drop]
  constructor
  · rintro ⟨h1, h2, h3⟩
    exact ⟨h1, by omega, h3⟩
  · rintro ⟨h1, h2, h3⟩
    exact ⟨h1, by omega, h3⟩

/-- … bit address of a 16-bit file: byte 58 is 0 and the frame has at least 63 bytes. -/
theorem sda_ReplyOk_bit_iff (a : Addr) (hft : a.fileType ∈ wordFiles) (haf : a.addressField = 3) (raw : Bytes) :
    sda_ReplyOk a raw ↔ (raw[58]? = some 0 ∧ 63 ≤ raw.length) := by
  unfold sda_ReplyOk
  rw [sda_parse_bit_iff a hft haf, List.length_drop]
  constructor
  · rintro ⟨h1, h2⟩
    exact ⟨h1, by omega⟩
  · rintro ⟨h1, h2⟩
    exact ⟨h1, by omega⟩

end Pycomm.Slc.Drv
