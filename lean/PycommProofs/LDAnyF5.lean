/-
  C13 at the driver level for ARBITRARY reply bytes, part 5 of the second round: what `_write_build_requests` hands back
  for ONE request that goes out fragmented, and the world after `_send_requests` of one packet.
-/
import PycommProofs.LDAnyF4
namespace Pycomm.Lgx.Drv
open Pycomm Pycomm.Tgt Pycomm.Path Pycomm.Reply Pycomm.Encap Pycomm.RP

theorem ldaf_sendRequests_single_world {σ} (hook : ObjHook σ) (w : Cli.World σ) (rs : Results) (q : Request) :
    (sendRequests hook w rs [q]).1 = (sendRequest hook w rs q).1 := by
  unfold sendRequests
  rcases sendRequest hook w rs q with ⟨w1, r⟩
  cases r with
  | error e => rfl
  | ok rs1 => rfl

theorem ldaf_replaceParsed_single (p p1 : Drv.Parsed) (h : p1.requestId = p.requestId) : replaceParsed [p] p1 = [p1] := by
  unfold replaceParsed
  simp [h]

/-- a single write request that is built as ONE Write Tag Fragmented packet: the parsed request handed back has no
    error, the request id of the packet, the caller's value and a tag definition -/
theorem ldaf_writeBuild_frag_parsed (cfg : Cfg) (d d1 : Cli.Drv) (p : Drv.Parsed) (ps' : List Drv.Parsed) (req : WriteReq)
    (h : writeBuildRequests cfg d [p] = (d1, .ok (ps', [.writeFrag req]))) :
    ∃ p' info, ps' = [p'] ∧ p'.error = none ∧ p'.requestId = p.requestId ∧ req.rid = p.requestId ∧
      p'.value = p.value ∧ p'.info = some info := by
  unfold writeBuildRequests at h
  simp only [List.length_singleton, ne_eq, not_true_eq_false, false_and, if_false] at h
  rw [writeBuildSingles] at h
  split at h
  · next info he hi =>
    split at h
    · -- a bit write: a Read-Modify-Write packet
      rcases hm : mkRmwReq cfg d p info (-(1 + (p.requestId : Int))) with ⟨d2, r⟩
      rw [hm] at h
      dsimp only at h
      cases r with
      | error e => cases h
      | ok r =>
        dsimp only at h
        rw [writeBuildSingles] at h
        simp only [Except.map, Prod.mk.injEq, Except.ok.injEq, List.cons.injEq, reduceCtorEq, false_and, and_false] at h
    · obtain ⟨hst, hne⟩ := lds_Stable_encode p info he
      rcases hev : encodeValue p info with ⟨p1, enc⟩
      rw [hev] at h hst hne
      dsimp only at h hst hne
      cases enc with
      | none =>
        dsimp only at h
        rw [writeBuildSingles] at h
        simp only [Prod.mk.injEq, Except.ok.injEq, List.nil_eq, reduceCtorEq, and_false] at h
      | some value =>
        dsimp only at h
        rcases hm : mkWriteReq cfg d p1 info value with ⟨d2, r⟩
        rw [hm] at h
        dsimp only at h
        cases r with
        | error e => cases h
        | ok rq =>
          dsimp only at h
          obtain ⟨hrid, _⟩ := lds_mkWriteReq_ok cfg d d2 p1 info value rq hm
          have hrp := ldaf_replaceParsed_single p p1 hst.rid
          rw [hrp] at h
          by_cases hf : decide (value.length + rq.messageLen > d.connectionSize) = true
          · rw [if_pos hf, if_pos hf] at h
            rw [writeBuildSingles] at h
            simp only [Except.map, Prod.mk.injEq, Except.ok.injEq, List.cons.injEq, Request.writeFrag.injEq, and_true] at h
            obtain ⟨_, rfl, rfl⟩ := h
            exact ⟨p1, info, rfl, hne, hst.rid, by show rq.rid = _; rw [hrid, hst.rid], hst.value, by rw [hst.info, hi]⟩
          · rw [if_neg hf, if_neg hf] at h
            rw [writeBuildSingles] at h
            simp only [Except.map, Prod.mk.injEq, Except.ok.injEq, List.cons.injEq, reduceCtorEq, false_and, and_false] at h
  · rw [writeBuildSingles] at h
    simp only [Prod.mk.injEq, Except.ok.injEq, List.nil_eq, reduceCtorEq, and_false] at h

end Pycomm.Lgx.Drv
