/-
  LogixDriver.write of an elementary member of a structure tag (`udt.member`) and of a whole structure tag (`udt`:
  a string type or a `StructTag`): the layers composed.
    `ldw3_write_member`     an elementary (non-BOOL) scalar member: exactly the member's bytes change
    `ldw3_write_structTag`  the whole tag, for whatever bytes the codec makes of the value (`structure_size` many)
    effect: `ldw3_splice_whole`, `ldw3_proj_whole`
-/
import PycommProofs.LDWrite3A
namespace Pycomm.Lgx.Drv
open Pycomm Pycomm.Tgt Pycomm.Path Pycomm.Reply Pycomm.Encap Pycomm.Lgx Pycomm.Lgx.E2E

/-- `write` of `udt.member`: an elementary (non-BOOL, non-bit-string) scalar member of a controller-scope structure,
    with a canonical value of its type -/
theorem ldw3_write_member (cfg : Cfg) (w : Cli.World Ext) (sess : Nat) (cidb : Bytes) (conn : Conn)
    (st : LState) (s : Symbol) (tid : Nat) (tm : Template) (m : MemberDef) (info minfo : TagInfo)
    (c sz : Nat) (name : Name) (t : Ty) (v : PyVal) (bytes : Bytes)
    (hw : ldr_Healthy w sess cidb conn) (hlogix : w.net.target.ext.logix = some st)
    (hs : s ∈ st.proj.controller)
    (hbytes : ∀ s' ∈ st.proj.controller, ∀ ch ∈ s'.name, ch < 256)
    (huniqN : ∀ s' ∈ st.proj.controller, s'.name = s.name → s' = s)
    (huniqI : ∀ s' ∈ st.proj.controller, s'.inst = s.inst → s' = s)
    (hid : PlainIdent s.name)
    (hty : elTyOfWord s.symbolType = .struct tid) (htm : st.proj.template? tid = some tm)
    (hm : m ∈ tm.members) (hmbytes : ∀ m' ∈ tm.members, ∀ ch ∈ m'.name, ch < 256)
    (hmuniq : ∀ m' ∈ tm.members, m'.name = m.name → m' = m)
    (hmid : PlainIdent m.name) (hnum : PyStr.isDigit m.name = false) (hnl : s.name.length + m.name.length ≤ 500)
    (hmty : elTyOfWord m.typeWord = .atomic c) (hnb : c ≠ 0xC1) (hscalar : m.info = 0)
    (hat : atomicOfCode c = some (name, t)) (hb : t.isBits = none) (hsz : atomicSize c = some sz)
    (hin : m.offset + sz ≤ s.mem.length)
    (hget : cfg.tags.get? s.name = some info) (hk : info.core.tagType = .struct)
    (hmget : info.members.get? m.name = some minfo) (hminfo : ldr3_MemberOf minfo name t)
    (hcanon : Canon t v) (henc : encode t v = .ok bytes)
    (hC : s.name.length + m.name.length + 2 * sz + 14 ≤ w.drv.connectionSize)
    (hT : s.name.length + m.name.length + sz + 14 ≤ conn.size) :
    ∃ w' frm, write hookAll cfg w [(ldr3_memberStr s.name m.name, v)] =
        (w', .ok [{ tag := ldr3_memberStr s.name m.name, value := v, type := some name, error := none }]) ∧
      w'.drv = w.drv.nextSeq.2 ∧ w'.net.sent = w.net.sent ++ [frm] ∧
      w'.net.target.ext =
        { w.net.target.ext with
          logix := some { st with proj := written st.proj (ldr3_locMember s m c) m.offset bytes } } ∧
      bytes.length = sz ∧
      ldr_Healthy w' sess cidb { conn with lastSeq := some w.drv.nextSeq.1 } := by
  obtain ⟨haty, hentry, hndw, hpos, hle8⟩ := ldr_atomic_table c sz name t hat hb hsz
  have hshape := ldr_atomicTy_shape c t haty hb
  have hbl : bytes.length = sz := ldw_encode_length c sz t v bytes haty hb hsz hcanon henc
  have hnd : isDword minfo = false := by
    have : (name == nm "DWORD") = false := by simpa using hndw
    simp [isDword, hminfo.typeName, this]
  have hmem : s.mem ≠ [] := by
    intro h; rw [h, List.length_nil] at hin; omega
  have hl1 := hid.2.1
  have hl2 := hmid.2.1
  -- (a)
  have hparse := ldr3_parse_member cfg.tags true 0 s.name m.name info minfo hid hmid hnum hget hk hmget hnd
  -- (b)
  obtain ⟨path, hpath, hpl, hden⟩ := ldr3_requestPath_member cfg s.name m.name minfo hid hmid (by omega) hminfo.instanceId
  have hpt : packedTypeOf minfo = le 2 c := ldw_packedType minfo name c sz hminfo.struct hminfo.typeName hentry
  have hencv := ldw_encodeValue
    ({ requestId := 0, requestTag := ldr3_memberStr s.name m.name, userTag := ldr3_memberStr s.name m.name,
       plcTag := ldr3_memberStr s.name m.name, bit := none, elements := 1, info := some minfo, boolElements := none,
       value := v } : Drv.Parsed) minfo t bytes (ldw_canon_not_bytes t v hshape hcanon)
    (by rw [hminfo.typeName]; exact hndw) hminfo.ty hshape henc
  -- (d)
  have hr := ldr3_resolve_member st.proj s tid tm m c sz hid hs hbytes huniqN hty htm hmem hm hmbytes hmuniq hmty hnb hsz
    hscalar
  have hsym := ldw3_symbolOf_member st.proj s m c hs huniqI
  have hex := write_e2e st (conn.size - 2) path _ (ldr3_locMember s m c) 1 sz bytes s hden hr
    (by intro b; simp [ldr3_locMember]) ⟨Nat.le_refl 1, Nat.le_refl 1, by omega⟩ hsym hsz (by omega)
    (by simp only [ldr3_locMember]; omega)
  have htb : typeBytes st.proj (ldr3_locMember s m c).ty = le 2 c := rfl
  rw [htb, ← hpt] at hex
  obtain ⟨w', frm, hwr, h2, h3, h4, h5⟩ := ldw3_write_single cfg w sess cidb conn st _ (ldr3_memberStr s.name m.name) v _ _
    minfo path _ (ldr3_locMember s m c) 1 bytes hw hlogix hparse rfl rfl rfl hencv rfl rfl rfl (by omega) hpath hden
    (by omega) hr hex (by rw [hpt, le_length]; omega) (by omega) (by rw [hpt, le_length]; omega)
    (by rw [hpt, le_length]; omega)
  refine ⟨w', frm, ?_, h2, h3, h4, hbl, h5⟩
  rw [hwr]
  have hresult := ldw_writeResult
    ({ requestId := 0, requestTag := ldr3_memberStr s.name m.name, userTag := ldr3_memberStr s.name m.name,
       plcTag := ldr3_memberStr s.name m.name, bit := none, elements := 1, info := some minfo, boolElements := none,
       value := v } : Drv.Parsed) minfo
    { tag := ldr3_memberStr s.name m.name, value := .bytes bytes, type := some minfo.core.dataTypeName, error := none }
    rfl rfl rfl rfl rfl rfl
  dsimp only at hresult ⊢
  rw [hresult, hminfo.typeName]

/-- `write` of a whole controller-scope structure tag by its plain name with a value the `type_class` of the tag
    encodes to `structure_size` bytes: one plain Write Tag carrying the structure marker `A0 02` + handle and those
    bytes; the controller replaces the tag's memory by them -/
theorem ldw3_write_structTag (cfg : Cfg) (w : Cli.World Ext) (sess : Nat) (cidb : Bytes) (conn : Conn)
    (st : LState) (s : Symbol) (tid : Nat) (tm : Template) (info : TagInfo) (si : StructInfo) (ty : Ty)
    (v : PyVal) (bytes : Bytes)
    (hw : ldr_Healthy w sess cidb conn) (hlogix : w.net.target.ext.logix = some st)
    (hs : s ∈ st.proj.controller)
    (hbytes : ∀ s' ∈ st.proj.controller, ∀ ch ∈ s'.name, ch < 256)
    (huniqN : ∀ s' ∈ st.proj.controller, s'.name = s.name → s' = s)
    (huniqI : ∀ s' ∈ st.proj.controller, s'.inst = s.inst → s' = s)
    (hid : PlainIdent s.name) (hinst : s.inst < 2 ^ 32)
    (hty : elTyOfWord s.symbolType = .struct tid) (htm : st.proj.template? tid = some tm)
    (hlen : s.mem.length = tm.size) (hpos : 0 < tm.size) (h64 : tm.size ≤ 64000)
    (hget : cfg.tags.get? s.name = some info) (hinfo : ldr3_StructOf info si ty s.inst) (hnd : si.name ≠ nm "DWORD")
    (hh : si.handle = tm.handle)
    (hnb : ∀ b, v ≠ .bytes b) (hna : ∀ n t', ty ≠ .arr (.fixed n) t')
    (henc : encode ty v = .ok bytes) (hbl : bytes.length = tm.size)
    (hC : 2 * tm.size + s.name.length + 22 ≤ w.drv.connectionSize) (hT : tm.size + s.name.length + 22 ≤ conn.size) :
    ∃ w' frm, write hookAll cfg w [(s.name, v)] =
        (w', .ok [{ tag := s.name, value := v, type := some si.name, error := none }]) ∧
      w'.drv = w.drv.nextSeq.2 ∧ w'.net.sent = w.net.sent ++ [frm] ∧
      w'.net.target.ext =
        { w.net.target.ext with
          logix := some { st with proj := written st.proj (ldr3_locStruct s tid) 0 bytes } } ∧
      ldr_Healthy w' sess cidb { conn with lastSeq := some w.drv.nextSeq.1 } := by
  have hnd' : isDword info = false := by simp [isDword, hinfo.kind]
  have hmem : s.mem ≠ [] := by
    intro h; rw [h, List.length_nil] at hlen; omega
  have hl1 := hid.2.1
  -- (a)
  have hparse := ldr_parse_plain cfg.tags true 0 s.name info hid hget hnd'
  -- (b)
  obtain ⟨path, hpath, hpl, hden⟩ := ldr_requestPath cfg s.name info s.inst hid hinfo.instanceId hinst
  have hpt : packedTypeOf info = [0xA0, 0x02] ++ le 2 tm.handle := by
    rw [ldw3_packedType_struct info si hinfo.struct, hh]
  have hptl : (packedTypeOf info).length = 4 := by rw [hpt]; simp [le_length]
  have hencv := ldw3_encodeValue
    ({ requestId := 0, requestTag := s.name, userTag := s.name, plcTag := s.name, bit := none, elements := 1,
       info := some info, boolElements := none, value := v } : Drv.Parsed) info ty bytes hnb
    (by rw [hinfo.typeName]; exact hnd) hinfo.ty hna henc
  -- (d)
  have hr := ldr3_resolve_struct st.proj s tid tm cfg.useInstanceIds hid hs hbytes huniqN huniqI hty htm hmem
  have hsym := ldw3_symbolOf_struct st.proj s tid hs huniqI
  have hav := ldr_dimsProduct_pos s.dims
  have hel : st.proj.elSize (ldr3_locStruct s tid).ty = some tm.size := by simp [ldr3_locStruct, Project.elSize, htm]
  have hex := write_e2e st (conn.size - 2) path _ (ldr3_locStruct s tid) 1 tm.size bytes s hden hr
    (by intro b; simp [ldr3_locStruct]) ⟨Nat.le_refl 1, hav, by omega⟩ hsym hel (by omega)
    (by simp only [ldr3_locStruct]; omega)
  have htb : typeBytes st.proj (ldr3_locStruct s tid).ty = packedTypeOf info := by
    rw [hpt]; exact ldw3_typeBytes_struct st.proj tid tm htm
  rw [htb] at hex
  obtain ⟨w', frm, hwr, h2, h3, h4, h5⟩ := ldw3_write_single cfg w sess cidb conn st _ s.name v _ _
    info path _ (ldr3_locStruct s tid) 1 bytes hw hlogix hparse rfl rfl rfl hencv rfl rfl rfl (by omega) hpath hden
    (by omega) hr hex (by omega) (by omega) (by omega) (by omega)
  refine ⟨w', frm, ?_, h2, h3, h4, h5⟩
  rw [hwr]
  have hresult := ldw_writeResult
    ({ requestId := 0, requestTag := s.name, userTag := s.name, plcTag := s.name, bit := none, elements := 1,
       info := some info, boolElements := none, value := v } : Drv.Parsed) info
    { tag := s.name, value := .bytes bytes, type := some info.core.dataTypeName, error := none }
    rfl rfl rfl rfl rfl rfl
  dsimp only at hresult ⊢
  rw [hresult, hinfo.typeName]

/-! ### the effect of a whole-tag write -/

/-- a write of the whole memory of the symbol `s` replaces it: `ldw2_proj p s 0 bytes` is `ldw_proj p s bytes` -/
theorem ldw3_proj_whole (p : Project) (s : Symbol) (bytes : Bytes)
    (huniqI : ∀ s' ∈ p.controller, s'.inst = s.inst → s' = s) (hl : bytes.length = s.mem.length) :
    ldw2_proj p s 0 bytes = ldw_proj p s bytes := by
  have hmap : ldw2_ctl p.controller s.inst 0 bytes = ldw_ctl p.controller s.inst bytes := by
    unfold ldw2_ctl ldw_ctl
    apply List.map_congr_left
    intro x hx
    by_cases hi : (x.inst == s.inst) = true
    · have : x = s := huniqI x hx (by simpa using hi)
      subst this
      simp only [hi, if_true, ldw_sym, ldw2_sym, ldw_splice_whole _ _ hl]
    · simp only [hi]
      rfl
  unfold ldw2_proj ldw_proj
  rw [hmap]

end Pycomm.Lgx.Drv
