/-
  LogixDriver.open(), program scopes: the keys of `_info["programs"]` after the controller scope are the program names
  of the reference interpretation (`Drv.programNames`), `_get_tag_list(scope)` for the controller scope and for a
  program scope, and the loop over the programs (`for prog in self._info["programs"]`).
-/
import PycommProofs.LOpenN3
import PycommProofs.LOpenProgram
namespace Pycomm.Lgx.Opn
open Pycomm Pycomm.Tgt Pycomm.Path Pycomm.Reply Pycomm.Encap Pycomm.Lgx Pycomm.EP Pycomm.Lgx.E2E Pycomm.Lgx.Drv

/-! ### `name.replace("Program:", "")` -/

theorem lon_pat8 : (Opn.nm "Program:").length = 8 := by decide

theorem lon_startsWith_false (s : Name) (h : (58 : Nat) ∉ s) : PyStr.startsWith (Opn.nm "Program:") s = false := by
  cases hs : PyStr.startsWith (Opn.nm "Program:") s with
  | false => rfl
  | true =>
    unfold PyStr.startsWith at hs
    have ht := eq_of_beq hs
    exfalso
    apply h
    apply List.mem_of_mem_take (i := (Opn.nm "Program:").length)
    rw [ht]
    decide

theorem lon_removeAll_id : ∀ (fuel : Nat) (s : Name), (58 : Nat) ∉ s → removeAll (Opn.nm "Program:") fuel s = s := by
  intro fuel
  induction fuel with
  | zero => intro s _; cases s <;> rfl
  | succ fuel ih =>
    intro s h
    cases s with
    | nil => rfl
    | cons c cs =>
      have hsw : ((c :: cs).take (Opn.nm "Program:").length == Opn.nm "Program:") = false := lon_startsWith_false (c :: cs) h
      rw [removeAll]
      simp only [hsw, Bool.and_false, Bool.false_eq_true, if_false]
      rw [ih cs (fun hm => h (List.mem_cons_of_mem _ hm))]

/-- a `Program:X` symbol whose `X` has no colon: `replace` removes exactly the prefix -/
theorem lon_pyRemove_program (name : Name) (hs : PyStr.startsWith (Opn.nm "Program:") name = true)
    (hc : (58 : Nat) ∉ name.drop 8) : pyRemove (Opn.nm "Program:") name = name.drop 8 := by
  cases name with
  | nil => revert hs; decide
  | cons c cs =>
    unfold pyRemove
    have hsw : ((c :: cs).take (Opn.nm "Program:").length == Opn.nm "Program:") = true := hs
    have hne : (Opn.nm "Program:").isEmpty = false := by decide
    rw [List.length_cons, removeAll]
    simp only [hsw, hne, Bool.not_false, Bool.and_self, if_true]
    rw [lon_pat8]
    exact lon_removeAll_id _ _ hc

/-! ### the keys of `_info["programs"]` -/

def lon_keys (info : Info) : List Name := (info.programs.getD []).map (·.1)

/-- dict key insertion: a new key goes to the end -/
def lon_ins (ks : List Name) (k : Name) : List Name := if ks.any (· == k) then ks else ks ++ [k]

theorem lon_assocSet_keys {α} (xs : List (Name × α)) (k : Name) (v : α) :
    (assocSet xs k v).map (·.1) = lon_ins (xs.map (·.1)) k := by
  unfold assocSet lon_ins
  have hany : (xs.map (·.1)).any (· == k) = xs.any (·.1 == k) := by
    rw [List.any_map]; rfl
  rw [hany]
  cases h : xs.any (·.1 == k) with
  | true =>
    simp only [if_true]
    rw [List.map_map]
    apply List.map_congr_left
    intro x _
    show (if x.1 == k then (k, v) else x).1 = x.1
    by_cases hx : (x.1 == k) = true
    · rw [if_pos hx]; exact (eq_of_beq hx).symm
    · rw [if_neg hx]
  | false =>
    simp only [Bool.false_eq_true, if_false, List.map_append, List.map_cons, List.map_nil]

theorem lon_assocGet_any {α} (xs : List (Name × α)) (k : Name) (v : α) (h : assocGet xs k = some v) :
    (xs.map (·.1)).any (· == k) = true := by
  unfold assocGet at h
  cases hf : xs.find? (·.1 == k) with
  | none => rw [hf] at h; cases h
  | some x =>
    rw [List.any_map, List.any_eq_true]
    exact ⟨x, List.mem_of_find?_eq_some hf, List.find?_some hf⟩

theorem lon_keys_noteSymbol_program (program : Option Name) (info : Info) (r : Up.Rec)
    (h : PyStr.startsWith (Opn.nm "Program:") r.name = true) :
    lon_keys (noteSymbol program info r) = lon_ins (lon_keys info) (pyRemove (Opn.nm "Program:") r.name) := by
  unfold noteSymbol
  dsimp only
  rw [if_pos h]
  unfold lon_keys
  exact lon_assocSet_keys _ _ _

/-- only a `Program:` symbol adds a key -/
theorem lon_keys_noteSymbol_other (program : Option Name) (info : Info) (r : Up.Rec)
    (h : PyStr.startsWith (Opn.nm "Program:") r.name = false) :
    lon_keys (noteSymbol program info r) = lon_keys info := by
  unfold noteSymbol
  dsimp only
  rw [if_neg (by rw [h]; exact Bool.false_ne_true)]
  split
  · -- a routine: the program's entry is replaced
    split
    · rfl
    · rename_i pi hpi
      cases program with
      | none => cases hpi
      | some p =>
        have hget : assocGet (info.programs.getD []) p = some pi := hpi
        unfold lon_keys
        show (assocSet (info.programs.getD []) p _).map (·.1) = _
        rw [lon_assocSet_keys]
        unfold lon_ins
        rw [lon_assocGet_any _ _ _ hget]
        rfl
  · split
    · rfl
    · split
      · rfl
      · split <;> rfl

theorem lon_plc_noteSymbol (program : Option Name) (info : Info) (r : Up.Rec) :
    (noteSymbol program info r).plc = info.plc := by
  unfold noteSymbol
  dsimp only
  split
  · rfl
  · split
    · split <;> rfl
    · split
      · rfl
      · split
        · rfl
        · split <;> rfl

theorem lon_revision_noteSymbol (program : Option Name) (info : Info) (r : Up.Rec) :
    revisionMajor (noteSymbol program info r) = revisionMajor info := by
  unfold revisionMajor
  rw [lon_plc_noteSymbol]

theorem lon_revision_fold (program : Option Name) (wa : Bool) (syms : List Symbol) : ∀ info,
    revisionMajor (syms.foldl (fun info s => noteSymbol program info (Up.recOfSymbol wa s)) info) = revisionMajor info := by
  induction syms with
  | nil => intro _; rfl
  | cons s syms ih => intro info; rw [List.foldl_cons, ih, lon_revision_noteSymbol]

/-- a scope without `Program:` symbols leaves the keys alone -/
theorem lon_keys_fold_other (program : Option Name) (wa : Bool) (syms : List Symbol)
    (h : ∀ s ∈ syms, PyStr.startsWith (Opn.nm "Program:") s.name = false) : ∀ info,
    lon_keys (syms.foldl (fun info s => noteSymbol program info (Up.recOfSymbol wa s)) info) = lon_keys info := by
  induction syms with
  | nil => intro _; rfl
  | cons s syms ih =>
    intro info
    rw [List.foldl_cons, ih (fun x hx => h x (List.mem_cons_of_mem _ hx)),
      lon_keys_noteSymbol_other program info _ (h s List.mem_cons_self)]

/-- the controller scope: one key per `Program:` symbol, in order, repeated names once -/
theorem lon_keys_fold_controller (program : Option Name) (wa : Bool) (syms : List Symbol) : ∀ info,
    lon_keys (syms.foldl (fun info s => noteSymbol program info (Up.recOfSymbol wa s)) info) =
      ((syms.filter fun s => PyStr.startsWith (Opn.nm "Program:") s.name).map
        fun s => pyRemove (Opn.nm "Program:") s.name).foldl lon_ins (lon_keys info) := by
  induction syms with
  | nil => intro _; rfl
  | cons s syms ih =>
    intro info
    rw [List.foldl_cons, ih, List.filter_cons]
    cases h : PyStr.startsWith (Opn.nm "Program:") s.name with
    | true =>
      simp only [if_true, List.map_cons, List.foldl_cons]
      rw [lon_keys_noteSymbol_program program info _ h]
      rfl
    | false =>
      simp only [Bool.false_eq_true, if_false]
      rw [lon_keys_noteSymbol_other program info _ h]

theorem lon_ins_foldl : ∀ (xs acc : List Name),
    xs.foldl lon_ins acc = acc ++ (xs.filter fun x => !acc.any (· == x)).eraseDups := by
  intro xs
  induction xs with
  | nil => intro acc; simp
  | cons x xs ih =>
    intro acc
    rw [List.foldl_cons, ih, List.filter_cons]
    unfold lon_ins
    cases h : acc.any (· == x) with
    | true => simp only [if_true, Bool.not_true, Bool.false_eq_true, if_false]
    | false =>
      simp only [Bool.false_eq_true, if_false, Bool.not_false, if_true]
      have hfil : List.filter (fun y => !(acc ++ [x]).any (· == y)) xs =
          List.filter (fun a => (!a == x) && !acc.any (· == a)) xs := by
        apply List.filter_congr
        intro y _
        rw [List.any_append]
        simp only [List.any_cons, List.any_nil, Bool.or_false, Bool.not_or]
        have hc : (x == y) = (y == x) := by
          by_cases e : x = y
          · subst e; rfl
          · have e' : ¬ y = x := fun h => e h.symm
            rw [beq_eq_false_iff_ne.2 e, beq_eq_false_iff_ne.2 e']
        rw [hc, Bool.and_comm]
      rw [List.eraseDups_cons, List.filter_filter, hfil, List.append_assoc]
      rfl

theorem lon_ins_foldl_nil (xs : List Name) : xs.foldl lon_ins [] = xs.eraseDups := by
  rw [lon_ins_foldl]
  have : xs.filter (fun x => !([] : List Name).any (· == x)) = xs := by
    induction xs with
    | nil => rfl
    | cons a as ih => rw [List.filter_cons]; simp only [List.any_nil, Bool.not_false, if_true]; congr 1
  rw [this, List.nil_append]

/-! ### `_get_tag_list(scope)` -/

/-- the `metas` entries of a scope -/
def lon_metasOfScope (wa : Bool) (program : Option Name) (syms : List Symbol) : List (Name × TagMeta) :=
  (syms.filter fun s => K.keepSymbol s.name s.symbolType).map fun s => (lon_scopePfx program ++ s.name, lo_metaAll wa s)

/-- the symbols the controller holds for program `pn` (the name without the `Program:` prefix) -/
def lon_progSyms (p : Project) (pn : Name) : List Symbol :=
  ((p.programs.find? (·.1 == Opn.nm "Program:" ++ pn)).map (·.2)).getD []

/-- `_get_tag_list(None)`: the controller scope -/
theorem lon_scope_controller (st : LState) (sess : Nat) (cidb : Bytes) (size : Nat) (hsize : 32 ≤ size) (S : St Ext)
    (ys : List (Name × TagInfo)) (hg : lon_Good st sess cidb size S)
    (hrev : revisionMajor S.l.info ≥ Gen.MIN_VER_EXTERNAL_ACCESS → 18 ≤ st.rev)
    (hwf : ∀ s ∈ st.proj.controller, Up.WfSymbol s)
    (hsorted : st.proj.controller.Pairwise (fun a b => a.inst < b.inst))
    (hfuel : st.proj.controller.length < PAGE_FUEL)
    (hnest : ∀ s ∈ st.proj.controller, K.keepSymbol s.name s.symbolType = true → s.symbolType / 32768 % 2 = 1 →
      lon_NestedTemplate st.proj (s.symbolType % 4096))
    (hy : Drv.userTags st.proj [] st.proj.controller = some ys) :
    ∃ S' xs, getTagListScope hookAll S none = (S', .ok xs) ∧
      xs.map (fun x => (x.1, x.2.1)) = ys ∧
      xs.map (fun x => (x.1, x.2.2)) =
        lon_metasOfScope (decide (revisionMajor S.l.info ≥ Gen.MIN_VER_EXTERNAL_ACCESS)) none st.proj.controller ∧
      lon_Good st sess cidb size S' ∧ lo_Step S S' ∧
      S'.l.info = st.proj.controller.foldl (fun info s => noteSymbol none info
        (Up.recOfSymbol (decide (revisionMajor S.l.info ≥ Gen.MIN_VER_EXTERNAL_ACCESS)) s)) S.l.info := by
  generalize hwa : decide (revisionMajor S.l.info ≥ Gen.MIN_VER_EXTERNAL_ACCESS) = wa
  have hrev' : wa = true → 18 ≤ st.rev := by
    intro h; rw [← hwa] at h; exact hrev (of_decide_eq_true h)
  obtain ⟨conn, hw, hcs⟩ := hg.healthy
  obtain ⟨c, hlogix⟩ := hg.logix
  have hup := lo_upload_from sess cidb wa PAGE_FUEL S.w conn { st with ctr := c } 0 [] hw hlogix hrev' hwf hsorted
    (by omega) (by omega) (by rw [lo_from_zero]; exact hfuel)
  rw [lo_from_zero, List.nil_append] at hup
  obtain ⟨w1, conn1, k, hup, hh1, hcs1, hsd1, hsent1, hext1⟩ := hup
  have hg1 : lon_Good st sess cidb size ({ S with w := w1 } : St Ext) :=
    ⟨⟨conn1, hh1, by rw [hcs1]; exact hcs⟩, ⟨c + k, by rw [hext1]⟩, hg.cacheU, hg.cacheS⟩
  obtain ⟨S', xs, hiso, hx1, hx2, hg', hs', hi'⟩ := lon_isolate st sess cidb size (by omega) wa none st.proj.controller _ ys hg1 hnest hy
  refine ⟨S', xs, ?_, hx1, hx2, hg', lo_Step.trans (⟨hsd1, hsent1, rfl, rfl, rfl, rfl, rfl⟩ : lo_Step S ({ S with w := w1 } : St Ext)) hs'.step, hi'⟩
  unfold getTagListScope
  dsimp only
  rw [hwa, hup]
  exact hiso

/-- what the upload needs to know about a program name (without the `Program:` prefix): not empty (the empty name asks
    for the controller scope), no colon, and `Program:<name>` fits a symbolic segment and the connection -/
structure lon_ProgName (size : Nat) (pn : Name) : Prop where
  ne : pn ≠ []
  colon : (58 : Nat) ∉ pn
  len : pn.length + 8 ≤ 255
  ascii : ∀ c ∈ pn, c < 128
  size : pn.length + 43 ≤ size

theorem lon_programName_of (size : Nat) (pn : Name) (h : lon_ProgName size pn) :
    lo_programName pn = Opn.nm "Program:" ++ pn := by
  unfold lo_programName
  rw [if_neg (by rw [lon_startsWith_false pn h.colon]; exact Bool.false_ne_true)]

/-- what the upload needs to know about the symbols of a program scope -/
structure lon_ProgSyms (p : Project) (syms : List Symbol) : Prop where
  wf : ∀ s ∈ syms, Up.WfSymbol s
  sorted : syms.Pairwise (fun a b => a.inst < b.inst)
  fuel : syms.length < PAGE_FUEL
  noprog : ∀ s ∈ syms, PyStr.startsWith (Opn.nm "Program:") s.name = false
  nest : ∀ s ∈ syms, K.keepSymbol s.name s.symbolType = true → s.symbolType / 32768 % 2 = 1 →
    lon_NestedTemplate p (s.symbolType % 4096)

/-- `_get_tag_list(pn)`: a program scope -/
theorem lon_scope_program (st : LState) (sess : Nat) (cidb : Bytes) (size : Nat) (S : St Ext) (pn : Name)
    (syms : List Symbol) (ys : List (Name × TagInfo)) (hg : lon_Good st sess cidb size S)
    (hrev : revisionMajor S.l.info ≥ Gen.MIN_VER_EXTERNAL_ACCESS → 18 ≤ st.rev)
    (hpn : lon_ProgName size pn)
    (hprog : (st.proj.programs.find? (·.1 == Opn.nm "Program:" ++ pn)).map (·.2) = some syms)
    (hsyms : lon_ProgSyms st.proj syms)
    (hy : Drv.userTags st.proj (lon_scopePfx (some pn)) syms = some ys) :
    ∃ S' xs, getTagListScope hookAll S (some pn) = (S', .ok xs) ∧
      xs.map (fun x => (x.1, x.2.1)) = ys ∧
      xs.map (fun x => (x.1, x.2.2)) =
        lon_metasOfScope (decide (revisionMajor S.l.info ≥ Gen.MIN_VER_EXTERNAL_ACCESS)) (some pn) syms ∧
      lon_Good st sess cidb size S' ∧ lo_Step S S' ∧
      S'.l.info = syms.foldl (fun info s => noteSymbol (some pn) info
        (Up.recOfSymbol (decide (revisionMajor S.l.info ≥ Gen.MIN_VER_EXTERNAL_ACCESS)) s)) S.l.info := by
  generalize hwa : decide (revisionMajor S.l.info ≥ Gen.MIN_VER_EXTERNAL_ACCESS) = wa
  have hrev' : wa = true → 18 ≤ st.rev := by
    intro h; rw [← hwa] at h; exact hrev (of_decide_eq_true h)
  obtain ⟨conn, hw, hcs⟩ := hg.healthy
  obtain ⟨c, hlogix⟩ := hg.logix
  have hname := lon_programName_of size pn hpn
  have hl8 : (lo_programName pn).length = pn.length + 8 := by
    rw [hname, List.length_append, lon_pat8]; omega
  have hlen : (lo_programName pn).length ≤ 255 := by rw [hl8]; exact hpn.len
  have hascii : ∀ c ∈ lo_programName pn, c < 128 := by
    rw [hname]
    intro c hc
    rcases List.mem_append.1 hc with h | h
    · have h8 : ∀ c ∈ Opn.nm "Program:", c < 128 := by decide
      exact h8 c h
    · exact hpn.ascii c h
  have hprog' : lo_scopeSyms ({ st with ctr := c } : LState).proj (some (lo_programName pn)) = some syms := by
    unfold lo_scopeSyms
    rw [hname]
    exact hprog
  have hsz := hpn.size
  have hup := lo_upload_fromS (some pn) (some (lo_programName pn)) _ _ (lo_scopePath_program pn hpn.ne hlen hascii) (by omega)
    sess cidb wa syms PAGE_FUEL S.w conn { st with ctr := c } 0 [] hw hlogix hprog' hrev' hsyms.wf hsyms.sorted (by omega)
    (by omega) (by rw [lo_from_zero]; exact hsyms.fuel)
  rw [lo_from_zero, List.nil_append] at hup
  obtain ⟨w1, conn1, k, hup, hh1, hcs1, hsd1, hsent1, hext1⟩ := hup
  have hg1 : lon_Good st sess cidb size ({ S with w := w1 } : St Ext) :=
    ⟨⟨conn1, hh1, by rw [hcs1]; exact hcs⟩, ⟨c + k, by rw [hext1]⟩, hg.cacheU, hg.cacheS⟩
  obtain ⟨S', xs, hiso, hx1, hx2, hg', hs', hi'⟩ := lon_isolate st sess cidb size (by omega) wa (some pn) syms _ ys hg1 hsyms.nest hy
  refine ⟨S', xs, ?_, hx1, hx2, hg', lo_Step.trans (⟨hsd1, hsent1, rfl, rfl, rfl, rfl, rfl⟩ : lo_Step S ({ S with w := w1 } : St Ext)) hs'.step, hi'⟩
  unfold getTagListScope
  dsimp only
  rw [hwa, hup]
  exact hiso

/-! ### `for prog in self._info["programs"]` -/

theorem lon_programScopes (st : LState) (sess : Nat) (cidb : Bytes) (size : Nat) (wa : Bool) (n : Nat) :
    ∀ (pns : List Name) (S : St Ext) (progs : List (List (Name × TagInfo))),
    lon_Good st sess cidb size S → (lon_keys S.l.info).length = n →
    decide (revisionMajor S.l.info ≥ Gen.MIN_VER_EXTERNAL_ACCESS) = wa → (wa = true → 18 ≤ st.rev) →
    (∀ pn ∈ pns, lon_ProgName size pn) →
    (∀ pr ∈ st.proj.programs, lon_ProgSyms st.proj pr.2) →
    pns.mapM (fun pn =>
      match st.proj.programs.find? (·.1 == Drv.nm "Program:" ++ pn) with
      | none => none
      | some pr => Drv.userTags st.proj (Drv.nm "Program:" ++ pn ++ [46]) pr.2) = some progs →
    ∃ S' xs, programScopes hookAll n S pns = (S', .ok xs) ∧
      xs.map (fun x => (x.1, x.2.1)) = progs.flatten ∧
      xs.map (fun x => (x.1, x.2.2)) = (pns.map fun pn => lon_metasOfScope wa (some pn) (lon_progSyms st.proj pn)).flatten ∧
      lon_Good st sess cidb size S' ∧ lo_Step S S' ∧ lon_keys S'.l.info = lon_keys S.l.info := by
  intro pns
  induction pns with
  | nil =>
    intro S progs hg hn _ _ _ _ hm
    simp only [List.mapM_nil, Option.pure_def, Option.some.injEq] at hm
    subst hm
    refine ⟨S, [], ?_, rfl, rfl, hg, lo_Step.refl S, rfl⟩
    unfold programScopes
    have hn' : (S.l.info.programs.getD []).length = n := by
      have := hn; unfold lon_keys at this; rw [List.length_map] at this; exact this
    rw [if_neg (fun h => h hn')]
  | cons pn pns ih =>
    intro S progs hg hn hwa hrev hpn hps hm
    rw [List.mapM_cons] at hm
    cases hf : st.proj.programs.find? (·.1 == Drv.nm "Program:" ++ pn) with
    | none => rw [hf] at hm; cases hm
    | some pr =>
      rw [hf] at hm
      dsimp only at hm
      cases hy : Drv.userTags st.proj (Drv.nm "Program:" ++ pn ++ [46]) pr.2 with
      | none => rw [hy] at hm; cases hm
      | some ys =>
        cases hr : pns.mapM (fun pn =>
            match st.proj.programs.find? (·.1 == Drv.nm "Program:" ++ pn) with
            | none => none
            | some pr => Drv.userTags st.proj (Drv.nm "Program:" ++ pn ++ [46]) pr.2) with
        | none => rw [hy, hr] at hm; cases hm
        | some rest =>
          rw [hy, hr] at hm
          simp only [Option.bind_eq_bind, Option.bind_some, Option.pure_def, Option.some.injEq] at hm
          subst hm
          have hprog : (st.proj.programs.find? (·.1 == Opn.nm "Program:" ++ pn)).map (·.2) = some pr.2 := by
            have : st.proj.programs.find? (·.1 == Opn.nm "Program:" ++ pn) = some pr := hf
            rw [this]; rfl
          have hsyms := hps pr (List.mem_of_find?_eq_some hf)
          obtain ⟨S1, xs1, hsc, hx1, hx2, hg1, hs1, hi1⟩ := lon_scope_program st sess cidb size S pn pr.2 ys hg
            (by intro h; exact hrev (by rw [← hwa]; exact decide_eq_true h)) (hpn pn List.mem_cons_self) hprog hsyms hy
          rw [hwa] at hx2 hi1
          have hk1 : lon_keys S1.l.info = lon_keys S.l.info := by
            rw [hi1]; exact lon_keys_fold_other (some pn) wa pr.2 hsyms.noprog _
          have hr1 : revisionMajor S1.l.info = revisionMajor S.l.info := by
            rw [hi1]; exact lon_revision_fold (some pn) wa pr.2 _
          obtain ⟨S', xs, hps', hy1, hy2, hg', hs', hk'⟩ := ih S1 rest hg1 (by rw [hk1]; exact hn) (by rw [hr1]; exact hwa) hrev
            (fun x hx => hpn x (List.mem_cons_of_mem _ hx)) hps hr
          refine ⟨S', xs1 ++ xs, ?_, ?_, ?_, hg', lo_Step.trans hs1 hs', hk'.trans hk1⟩
          · unfold programScopes
            have hn' : (S.l.info.programs.getD []).length = n := by
              have := hn; unfold lon_keys at this; rw [List.length_map] at this; exact this
            rw [if_neg (fun h => h hn')]
            dsimp only
            rw [hsc]
            dsimp only
            rw [hps']
            rfl
          · rw [List.map_append, hx1, hy1, List.flatten_cons]
          · rw [List.map_append, hx2, hy2, List.map_cons, List.flatten_cons]
            congr 2
            unfold lon_progSyms
            rw [hprog]
            rfl

end Pycomm.Lgx.Opn
