/-
  Helper lemmas for the fragmented-read end-to-end law (LogixE2ERead): Read Tag Fragmented on the controller,
  the invariant of the client's reassembly loop.
-/
import PycommProofs.LE2RRead
namespace Pycomm.Lgx.E2E
open Pycomm Pycomm.Tgt Pycomm.Path Pycomm.Lgx Pycomm.Lgx.Cl

theorem cyc_pos (s : List Nat) (i : Nat) : 1 ≤ cyc s i 1000000 := by
  unfold cyc
  split
  · omega
  · omega

/-- the fragment size the controller chooses at offset `off` -/
def fragK (st : LState) (loc : Loc) (cap total off : Nat) : Nat :=
  min (total - off) (min (cap - 4 - (typeBytes st.proj loc.ty).length) (cyc st.proj.readSchedule st.ctr 1000000))

/-- Read Tag Fragmented at an offset inside the value -/
theorem readTag_frag (st : LState) (loc : Loc) (n cap off : Nat) (bs : Bytes)
    (hn : 1 ≤ n ∧ n ≤ loc.avail ∧ n < 65536)
    (hb : readBytes st.proj loc n = some bs) (hoff : off < bs.length) (hlen : bs.length < 2 ^ 32) :
    readTag st loc (le 2 n ++ le 4 off) cap true =
      ({ st with ctr := st.ctr + 1 },
       { status := if fragK st loc cap bs.length off < bs.length - off then 6 else 0,
         data := typeBytes st.proj loc.ty ++ (bs.drop off).take (fragK st loc cap bs.length off) }) := by
  have hl : (le 2 n ++ le 4 off).length = 6 := by
    rw [List.length_append]; simp only [le, RT.leBytes_length]
  have hv : leAt (le 2 n ++ le 4 off) 0 2 = n := leAt_head 2 n _ (by omega)
  have ho : leAt (le 2 n ++ le 4 off) 2 4 = off := by
    have := leAt_second 2 n 4 off [] (by omega)
    simpa using this
  unfold readTag
  simp only [hl, hv, ho, hb, if_true, ne_eq, not_true_eq_false, if_false]
  rw [if_neg (by omega), if_neg (by omega), if_neg (by omega)]
  rfl

theorem readFragMsg_eq (path : Bytes) (n off : Nat) :
    readFragMsg path n off = [0x52] ++ path ++ (le 2 n ++ le 4 off) := by
  simp [readFragMsg]

theorem readFragLoop_succ (path : Bytes) (n cap fuel : Nat) (st : LState) (off : Nat) (acc : Bytes) :
    readFragLoop path n cap (fuel + 1) st off acc =
      let x := exchange st cap (readFragMsg path n off)
      let s := splitTyped x.2.data
      if x.2.status = 6 then readFragLoop path n cap fuel x.1 (off + s.2.length) (acc ++ s.2)
      else if x.2.status = 0 then (x.1, .ok (s.1, acc ++ s.2))
      else (x.1, .error x.2.status) := by
  rw [readFragLoop]

theorem frag_inv (p : Project) (cap : Nat) (path : Bytes) (segs : List PSeg) (loc : Loc) (n : Nat) (bs : Bytes)
    (hp : Denotes path segs) (hr : resolve p segs = .ok loc) (hty : TyOk loc.ty)
    (hn : 1 ≤ n ∧ n ≤ loc.avail ∧ n < 65536)
    (hb : readBytes p loc n = some bs) (hlen : bs.length < 2 ^ 32)
    (hroom : 4 + (typeBytes p loc.ty).length + 1 ≤ cap) :
    ∀ (fuel : Nat) (st : LState) (off : Nat), st.proj = p → off < bs.length → bs.length - off ≤ fuel →
      ∃ st', readFragLoop path n cap fuel st off (bs.take off) = (st', .ok (typeBytes p loc.ty, bs)) ∧ st'.proj = p := by
  intro fuel
  induction fuel with
  | zero => intro st off _ h1 h2; omega
  | succ fuel ih =>
    intro st off hst hoff hfuel
    subst hst
    have hx : exchange st cap (readFragMsg path n off) =
        ({ st with ctr := st.ctr + 1 },
         { status := if fragK st loc cap bs.length off < bs.length - off then 6 else 0,
           data := typeBytes st.proj loc.ty ++ (bs.drop off).take (fragK st loc cap bs.length off) }) := by
      rw [readFragMsg_eq, exchange_tag st cap 0x52 path _ segs loc hp hr (by decide)]
      exact readTag_frag st loc n cap off bs hn hb hoff hlen
    have hk1 : 1 ≤ fragK st loc cap bs.length off := by
      have := cyc_pos st.proj.readSchedule st.ctr
      unfold fragK; omega
    have hk2 : fragK st loc cap bs.length off ≤ bs.length - off := by unfold fragK; omega
    generalize fragK st loc cap bs.length off = k at hx hk1 hk2
    rw [readFragLoop_succ, hx]
    simp only [splitTyped_typeBytes st.proj loc.ty hty]
    have hvl : ((bs.drop off).take k).length = k := by
      rw [List.length_take, List.length_drop]; omega
    have hacc : bs.take off ++ (bs.drop off).take k = bs.take (off + k) := by
      rw [List.take_add]
    by_cases hlt : k < bs.length - off
    · rw [if_pos hlt, if_pos rfl, hvl, hacc]
      exact ih _ (off + k) rfl (by omega) (by omega)
    · rw [if_neg hlt, if_neg (by decide), if_pos rfl]
      refine ⟨{ st with ctr := st.ctr + 1 }, ?_, rfl⟩
      have : k = bs.length - off := by omega
      rw [hacc, List.take_of_length_le (by omega)]

end Pycomm.Lgx.E2E
