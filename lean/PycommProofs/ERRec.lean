/-
  The recursive part of `decode` (arrays, structs, StructTag) over an abstract element decoder,
  and an induction principle for `Ty` with all non-recursive constructors merged.
-/
import PycommProofs.ERLeaf
namespace Pycomm.ER

/-- induction over `Ty` / `Members` / `TMembers`; the non-recursive constructors are one case -/
theorem Ty.induct3 {P : Ty → Prop} {PM : Members → Prop} {PT : TMembers → Prop}
    (leaf : ∀ t, NonRec t → P t)
    (arr : ∀ len t, P t → P (.arr len t))
    (struct : ∀ ms, PM ms → P (.struct ms))
    (tag : ∀ ms bits priv size, PT ms → P (.structTag ms bits priv size))
    (mnil : PM .nil)
    (mcons : ∀ name t rest, P t → PM rest → PM (.cons name t rest))
    (tnil : PT .nil)
    (tcons : ∀ name t off rest, P t → PT rest → PT (.cons name t off rest)) :
    (∀ t, P t) ∧ (∀ ms, PM ms) ∧ (∀ ms, PT ms) :=
  ⟨@Ty.rec P PM PT (leaf _ trivial) (fun _ => leaf _ trivial) (leaf _ trivial) (leaf _ trivial) (leaf _ trivial)
    (fun _ _ => leaf _ trivial) (fun _ => leaf _ trivial) (leaf _ trivial) (fun _ => leaf _ trivial)
    (fun _ => leaf _ trivial) arr struct (fun _ _ => leaf _ trivial) tag (leaf _ trivial)
    mnil mcons tnil tcons,
   @Members.rec P PM PT (leaf _ trivial) (fun _ => leaf _ trivial) (leaf _ trivial) (leaf _ trivial) (leaf _ trivial)
    (fun _ _ => leaf _ trivial) (fun _ => leaf _ trivial) (leaf _ trivial) (fun _ => leaf _ trivial)
    (fun _ => leaf _ trivial) arr struct (fun _ _ => leaf _ trivial) tag (leaf _ trivial)
    mnil mcons tnil tcons,
   @TMembers.rec P PM PT (leaf _ trivial) (fun _ => leaf _ trivial) (leaf _ trivial) (leaf _ trivial) (leaf _ trivial)
    (fun _ _ => leaf _ trivial) (fun _ => leaf _ trivial) (leaf _ trivial) (fun _ => leaf _ trivial)
    (fun _ => leaf _ trivial) arr struct (fun _ _ => leaf _ trivial) tag (leaf _ trivial)
    mnil mcons tnil tcons⟩

/-! ### a result that does not touch the stream -/

def lift {α} (x : R α) : D α := fun r =>
  match x with
  | .ok a => .ok (a, r)
  | .error e => .error e

theorem lift_errIn {α} {Q : Exn → Prop} {x : R α} (h : ∀ e, x = .error e → Q e) : ErrIn Q (lift x) := by
  intro bs e he
  cases x with
  | ok a => simp [lift] at he
  | error e' => simp [lift] at he; exact h _ (by rw [he])

theorem lift_fixed {α} (x : R α) : Fixed (lift x) 0 := by
  intro bs v r h
  cases x with
  | ok a => simp [lift] at h; simp [h]
  | error e' => simp [lift] at h

theorem lift_suf {α} (x : R α) : Suf (lift x) := (lift_fixed x).suf

theorem lift_stab {α} (x : R α) : Stab (lift x) := by
  intro p v r h ext
  cases x with
  | ok a => simp [lift] at h ⊢; simp [h]
  | error e' => simp [lift] at h

/-! ### decodeN -/

section
variable (f : D PyVal)

theorem decodeN_succ (n : Nat) :
    decodeN f (n + 1) = bindD f (fun v => bindD (decodeN f n) (fun vs => ret (v :: vs))) := by
  funext bs; rw [decodeN]; rfl

theorem decodeN_zero : decodeN f 0 = ret [] := by
  funext bs; rw [decodeN]; rfl

variable {f}

theorem decodeN_errIn {Q : Exn → Prop} (hf : ErrIn Q f) : ∀ n, ErrIn Q (decodeN f n)
  | 0 => by rw [decodeN_zero]; exact ErrIn.ret
  | n + 1 => by
      rw [decodeN_succ]; exact hf.bind fun _ => (decodeN_errIn hf n).bind fun _ => ErrIn.ret

theorem decodeN_suf (hf : Suf f) : ∀ n, Suf (decodeN f n)
  | 0 => by rw [decodeN_zero]; exact Suf.ret
  | n + 1 => by
      rw [decodeN_succ]; exact hf.bind fun _ => (decodeN_suf hf n).bind fun _ => Suf.ret

theorem decodeN_stab (hf : Stab f) : ∀ n, Stab (decodeN f n)
  | 0 => by rw [decodeN_zero]; exact Stab.ret
  | n + 1 => by
      rw [decodeN_succ]; exact hf.bind fun _ => (decodeN_stab hf n).bind fun _ => Stab.ret

theorem decodeN_fixed {w : Nat} (hf : Fixed f w) : ∀ n, Fixed (decodeN f n) (w * n)
  | 0 => by rw [decodeN_zero]; exact Fixed.ret
  | n + 1 => by
      rw [decodeN_succ]
      rw [show w * (n + 1) = w + (w * n + 0) by rw [Nat.mul_succ]; omega]
      exact hf.bind fun _ => (decodeN_fixed hf n).bind fun _ => Fixed.ret

/-- `n` elements that each consume a byte need `n` bytes -/
theorem decodeN_count (hs : Suf f) (hp : Prog f) :
    ∀ n bs vs r, decodeN f n bs = .ok (vs, r) → r.length + n ≤ bs.length
  | 0, bs, vs, r, h => by
      rw [decodeN_zero] at h; simp [ER.ret] at h; simp [h]
  | n + 1, bs, vs, r, h => by
      rw [decodeN_succ] at h
      obtain ⟨v, r1, h1, h2⟩ := (bindD_ok ..).1 h
      obtain ⟨vs', r2, h3, h4⟩ := (bindD_ok ..).1 h2
      simp [ER.ret] at h4
      have := decodeN_count hs hp n _ _ _ h3
      have := hp _ _ _ h1
      rw [← h4.2]; omega

theorem decodeN_prog (hs : Suf f) (hp : Prog f) (n : Nat) (hn : 0 < n) : Prog (decodeN f n) := by
  intro bs vs r h
  have := decodeN_count hs hp n _ _ _ h
  omega

end

/-! ### decodeAll -/

section
variable {f : D PyVal}

theorem decodeAll_errIn {Q : Exn → Prop} (hf : ErrIn Q f) (hd : Q .data) (hh : Q .hang) :
    ∀ fuel, ErrIn Q (decodeAll f fuel)
  | 0 => by intro bs e h; rw [decodeAll] at h; cases h; exact hh
  | fuel + 1 => by
      intro bs e h
      rw [decodeAll] at h
      split at h
      · cases h
      · rename_i e' _ h'; cases h; exact hf _ _ h'
      · rename_i v r h'
        split at h
        · cases h; exact hd
        · rcases (bind_err_iff ..).1 h with h | ⟨a, h, h2⟩
          · exact decodeAll_errIn hf hd hh fuel _ _ h
          · cases h2

theorem decodeAll_suf (hf : Suf f) : ∀ fuel, Suf (decodeAll f fuel)
  | 0 => by intro bs v r h; rw [decodeAll] at h; cases h
  | fuel + 1 => by
      intro bs vs r h
      rw [decodeAll] at h
      split at h
      · cases h; exact List.suffix_refl _
      · cases h
      · rename_i v r1 h'
        split at h
        · cases h
        · obtain ⟨a, h1, h2⟩ := (bind_ok_iff ..).1 h
          obtain ⟨vs', r'⟩ := a
          cases h2
          exact (decodeAll_suf hf fuel _ _ _ h1).trans (hf _ _ _ h')

/-- enough fuel: whatever the element decoder, the errors of the loop are those of the element decoder
    or DataError — the fuel marker is never produced, because a round that continues has shortened the
    buffer (an element that consumed nothing ends the loop with DataError) -/
theorem decodeAll_errIn_fuel {Q : Exn → Prop} (hle : ∀ bs v r, f bs = .ok (v, r) → r.length ≤ bs.length)
    (hf : ErrIn Q f) (hd : Q .data) :
    ∀ fuel bs e, bs.length < fuel → decodeAll f fuel bs = .error e → Q e
  | 0, bs, e, h, _ => by omega
  | fuel + 1, bs, e, hl, h => by
      rw [decodeAll] at h
      split at h
      · cases h
      · rename_i e' _ h'; cases h; exact hf _ _ h'
      · rename_i v r1 h'
        split at h
        · cases h; exact hd
        · rename_i hne
          rcases (bind_err_iff ..).1 h with h | ⟨a, h, h2⟩
          · have := hle _ _ _ h'
            exact decodeAll_errIn_fuel hle hf hd fuel r1 e (by omega) h
          · cases h2

/-- enough fuel + an element decoder that never returns more than it was given: the loop ends by itself -/
theorem decodeAll_noHang (hle : ∀ bs v r, f bs = .ok (v, r) → r.length ≤ bs.length)
    (hf : ErrIn (· ≠ .hang) f) :
    ∀ fuel bs, bs.length < fuel → decodeAll f fuel bs ≠ .error .hang :=
  fun fuel bs hl h => decodeAll_errIn_fuel (Q := (· ≠ .hang)) hle hf (by simp) fuel bs _ hl h rfl

theorem Suf.le (hs : Suf f) : ∀ bs v r, f bs = .ok (v, r) → r.length ≤ bs.length :=
  fun bs v r h => (hs bs v r h).length_le

end


/-! ### arrays -/

def post (t : Ty) (vs : List PyVal) : PyVal := .list (if t.isBits.isSome then flattenBits vs else vs)

def prefK (f : D PyVal) (pst : List PyVal → PyVal) (n : Nat) : D PyVal := fun r0 =>
  if n > r0.length + 65536 then
    match decodeN f (r0.length + 1) r0 with
    | .ok _ => .error .hang
    | .error e => .error e
  else bindD (decodeN f n) (fun vs => ret (pst vs)) r0

def arrDec (f : D PyVal) (pst : List PyVal → PyVal) : ArrLen → D PyVal
  | .all => fun bs => bindD (decodeAll f (bs.length + 1)) (fun vs => ret (pst vs)) bs
  | .fixed n => bindD (decodeN f n) (fun vs => ret (pst vs))
  | .pref k => bindD (decodeIntNat k) (prefK f pst)

theorem decode_arr_eq (len : ArrLen) (t : Ty) : decode (.arr len t) = arrDec (decode t) (post t) len := by
  funext bs
  cases len with
  | all =>
    rw [decode]
    show _ = (decodeAll (decode t) (bs.length + 1) bs >>= _)
    cases decodeAll (decode t) (bs.length + 1) bs with
    | error e => rfl
    | ok p => obtain ⟨vs, r⟩ := p; rfl
  | fixed n =>
    rw [decode]
    show _ = (decodeN (decode t) n bs >>= _)
    cases decodeN (decode t) n bs with
    | error e => rfl
    | ok p => obtain ⟨vs, r⟩ := p; rfl
  | pref k =>
    rw [decode]
    simp only [arrDec, bindD, prefK, bind, Except.bind]
    split
    · rename_i heq; rw [heq]
    · rename_i n r0 heq
      rw [heq]
      dsimp only
      split
      · split <;> rename_i h2 <;> rw [h2]
      · split <;> rename_i h2 <;> rw [h2] <;> rfl

section
variable {f : D PyVal} {pst : List PyVal → PyVal}

theorem prefK_errIn {Q : Exn → Prop} (hf : ErrIn Q f) (hh : Q .hang) (n : Nat) : ErrIn Q (prefK f pst n) := by
  intro r0 e h
  unfold prefK at h
  split at h
  · split at h
    · cases h; exact hh
    · rename_i h'; cases h; exact decodeN_errIn hf _ _ _ h'
  · exact ((decodeN_errIn hf n).bind fun _ => ErrIn.ret) _ _ h

theorem prefK_suf (hf : Suf f) (n : Nat) : Suf (prefK f pst n) := by
  intro r0 v r h
  unfold prefK at h
  split at h
  · split at h <;> cases h
  · exact ((decodeN_suf hf n).bind fun _ => Suf.ret) _ _ _ h

theorem prefK_stab (hf : Stab f) (n : Nat) : Stab (prefK f pst n) := by
  intro r0 v r h ext
  unfold prefK at h ⊢
  split at h
  · split at h <;> cases h
  · rename_i hn
    have : ¬ n > (r0 ++ ext).length + 65536 := by simp; omega
    simp only [this, if_false]
    exact ((decodeN_stab hf n).bind fun _ => Stab.ret) _ _ _ h ext

theorem arr_errIn {Q : Exn → Prop} (hf : ErrIn Q f) (h2 : ∀ e, C2 e → Q e) (hh : Q .hang) (len : ArrLen) :
    ErrIn Q (arrDec f pst len) := by
  cases len with
  | all =>
    intro bs e h
    exact ((decodeAll_errIn hf (h2 _ (Or.inl rfl)) hh (bs.length + 1)).bind fun _ => ErrIn.ret) bs e h
  | fixed n => exact (decodeN_errIn hf n).bind fun _ => ErrIn.ret
  | pref k => exact ((intNat_good k).err.mono h2).bind (prefK_errIn hf hh)

theorem arr_suf (hf : Suf f) (len : ArrLen) : Suf (arrDec f pst len) := by
  cases len with
  | all =>
    intro bs v r h
    exact ((decodeAll_suf hf (bs.length + 1)).bind fun _ => Suf.ret) bs v r h
  | fixed n => exact (decodeN_suf hf n).bind fun _ => Suf.ret
  | pref k => exact (intNat_good k).suf.bind (prefK_suf hf)

theorem arr_prog_fixed (hs : Suf f) (hp : Prog f) (n : Nat) (hn : 0 < n) : Prog (arrDec f pst (.fixed n)) :=
  (decodeN_prog hs hp n hn).bind_left fun _ => Suf.ret

theorem arr_prog_pref (hs : Suf f) (k : IntK) : Prog (arrDec f pst (.pref k)) :=
  (intNat_prog k).bind_left (prefK_suf hs)

theorem c2_ne_hang (e : Exn) (h : C2 e) : e ≠ .hang := by
  rcases h with rfl | rfl <;> simp

/-- where the fuel marker of a counted loop comes from: the element decoder, or a count that exceeds the
    remaining bytes by more than 65536 while `remaining + 1` elements decode -/
theorem prefK_err_cases {Q : Exn → Prop} (hf : ErrIn Q f) (n : Nat) (r0 : Bytes) (e : Exn)
    (h : prefK f pst n r0 = .error e) :
    Q e ∨ (e = .hang ∧ r0.length + 65536 < n ∧ ∃ x, decodeN f (r0.length + 1) r0 = .ok x) := by
  unfold prefK at h
  split at h
  · rename_i hn
    split at h
    · rename_i x h'; cases h; exact Or.inr ⟨rfl, hn, x, h'⟩
    · rename_i h'; cases h; exact Or.inl (decodeN_errIn hf _ _ _ h')
  · exact Or.inl (((decodeN_errIn hf n).bind fun _ => ErrIn.ret) _ _ h)

/-- the count read from `bs` exceeds what is left by more than 65536 and `left + 1` elements decode -/
def Huge (k : IntK) (f : D PyVal) (bs : Bytes) : Prop :=
  ∃ n r0, decodeIntNat k bs = .ok (n, r0) ∧ r0.length + 65536 < n ∧ ∃ x, decodeN f (r0.length + 1) r0 = .ok x

theorem huge_hang (k : IntK) (bs : Bytes) (h : Huge k f bs) : arrDec f pst (.pref k) bs = .error .hang := by
  obtain ⟨n, r0, h1, h2, x, h3⟩ := h
  refine (bindD_err ..).2 (Or.inr ⟨n, r0, h1, ?_⟩)
  unfold prefK
  have : n > r0.length + 65536 := h2
  simp only [this, if_true, h3]

/-- errors of an array decoder: those of the element decoder, DataError/BufferEmptyError, and the fuel
    marker for a huge count — the unbounded loop contributes none of its own -/
theorem arr_err_cases {Q : Exn → Prop} (hs : Suf f) (hf : ErrIn Q f) (h2 : ∀ e, C2 e → Q e) (len : ArrLen)
    (bs : Bytes) (e : Exn) (h : arrDec f pst len bs = .error e) :
    Q e ∨ (e = .hang ∧ ∃ k, len = .pref k ∧ Huge k f bs) := by
  cases len with
  | all =>
    have h : bindD (decodeAll f (bs.length + 1)) (fun vs => ret (pst vs)) bs = .error e := h
    rcases (bindD_err ..).1 h with h | ⟨a, r1, _, h⟩
    · exact Or.inl (decodeAll_errIn_fuel hs.le hf (h2 _ (Or.inl rfl)) _ bs e (by omega) h)
    · simp [ER.ret] at h
  | fixed n => exact Or.inl (((decodeN_errIn hf n).bind fun _ => ErrIn.ret) _ _ h)
  | pref k =>
    have h : bindD (decodeIntNat k) (prefK f pst) bs = .error e := h
    rcases (bindD_err ..).1 h with h | ⟨n, r0, h1, h⟩
    · exact Or.inl (h2 _ ((intNat_good k).err _ _ h))
    · rcases prefK_err_cases hf n r0 e h with h | ⟨he, hn, x, hx⟩
      · exact Or.inl h
      · exact Or.inr ⟨he, k, rfl, n, r0, h1, hn, x, hx⟩

theorem arr_errIn_zero {Q : Exn → Prop} : ErrIn Q (arrDec f pst (.fixed 0)) := by
  show ErrIn Q (bindD (decodeN f 0) fun vs => ret (pst vs))
  rw [decodeN_zero]; exact ErrIn.ret.bind fun _ => ErrIn.ret

theorem arr_fixed {w : Nat} (hf : Fixed f w) (n : Nat) : Fixed (arrDec f pst (.fixed n)) (w * n) := by
  have := (decodeN_fixed hf n).bind (g := fun vs => ret (pst vs)) (w2 := 0) fun _ => Fixed.ret
  exact this

theorem arr_stab_zero : Stab (arrDec f pst (.fixed 0)) := by
  show Stab (bindD (decodeN f 0) fun vs => ret (pst vs))
  rw [decodeN_zero]; exact Stab.ret.bind fun _ => Stab.ret

theorem arr_stab_fixed (hf : Stab f) (n : Nat) : Stab (arrDec f pst (.fixed n)) :=
  (decodeN_stab hf n).bind fun _ => Stab.ret

theorem arr_stab_pref (hf : Stab f) (k : IntK) : Stab (arrDec f pst (.pref k)) :=
  (intNat_good k).stab.bind (prefK_stab hf)

end

/-! ### StructTag -/

theorem tagBits_err (raw : Bytes) : ∀ (bits : List (Name × Nat × Nat)) (kvs : List (Name × PyVal)) (e : Exn),
    decodeTagBits raw bits kvs = .error e → e = .data
  | [], kvs, e, h => by rw [decodeTagBits] at h; cases h
  | (nm, off, bit) :: more, kvs, e, h => by
      rw [decodeTagBits] at h
      split at h
      · exact tagBits_err raw more _ e h
      · cases h; rfl

def tagK (g : Bytes → R (List (Name × PyVal))) (bits : List (Name × Nat × Nat)) (priv : List Name)
    (raw : Bytes) : D PyVal :=
  lift (match g raw with
    | .error e => .error e
    | .ok kvs =>
      match decodeTagBits raw bits kvs with
      | .error e => .error e
      | .ok kvs' => .ok (.dict (kvs'.filter fun kv => !priv.contains kv.1)))

def tagDec (g : Bytes → R (List (Name × PyVal))) (bits : List (Name × Nat × Nat)) (priv : List Name)
    (size : Nat) : D PyVal :=
  bindD (rd size) (tagK g bits priv)

theorem decode_tag_eq (ms : TMembers) (bits : List (Name × Nat × Nat)) (priv : List Name) (size : Nat) :
    decode (.structTag ms bits priv size) = tagDec (fun raw => decodeTMembers ms raw 0 []) bits priv size := by
  funext bs; rw [decode]
  refine Eq.trans ?_ (read_chk size bs (fun raw rest => tagK (fun raw => decodeTMembers ms raw 0 []) bits priv raw rest))
  cases streamRead (size : Int) bs with
  | error e => rfl
  | ok p =>
    obtain ⟨raw, rest⟩ := p
    show (if raw.length < size then _ else _) = (if raw.length < size then _ else _)
    by_cases h : raw.length < size
    · simp only [h, if_true]
    · simp only [h, if_false]
      unfold tagK lift
      dsimp only
      cases decodeTMembers ms raw 0 [] with
      | error e => rfl
      | ok kvs =>
        dsimp only
        cases decodeTagBits raw bits kvs with
        | error e => rfl
        | ok kvs' => rfl

section
variable {g : Bytes → R (List (Name × PyVal))} {bits : List (Name × Nat × Nat)} {priv : List Name}

theorem tag_errIn {Q : Exn → Prop} (hg : ∀ raw e, g raw = .error e → Q e) (h2 : ∀ e, C2 e → Q e) (size : Nat) :
    ErrIn Q (tagDec g bits priv size) := by
  refine (rd_errIn size h2).bind fun raw => lift_errIn ?_
  intro e h
  split at h
  · rename_i e' h'; cases h; exact hg _ _ h'
  · split at h
    · rename_i e' h'; cases h; exact h2 _ (Or.inl (tagBits_err _ _ _ _ h'))
    · cases h

theorem tag_fixed (size : Nat) : Fixed (tagDec g bits priv size) size :=
  (rd_fixed size).bind (w2 := 0) fun _ => lift_fixed _

theorem tag_prog (size : Nat) : Prog (tagDec g bits priv size) :=
  (rd_prog size).bind_left fun _ => lift_suf _

theorem tag_stab (size : Nat) : Stab (tagDec g bits priv size) :=
  (rd_stab size).bind fun _ => lift_stab _

end

/-! ### struct members -/

def accK (name : Option Name) (acc : List (Name × PyVal)) (v : PyVal) : List (Name × PyVal) :=
  match name with
  | none => acc
  | some nm => if nm.isEmpty then acc else dictSet acc nm v

theorem members_nil (acc : List (Name × PyVal)) : (fun bs => decodeMembers .nil bs acc) = ret acc := by
  funext bs; rw [decodeMembers]; rfl

theorem members_cons (name : Option Name) (t : Ty) (rest : Members) (acc : List (Name × PyVal)) :
    (fun bs => decodeMembers (.cons name t rest) bs acc)
      = bindD (decode t) (fun v r => decodeMembers rest r (accK name acc v)) := by
  funext bs; rw [decodeMembers]
  show (decode t bs >>= _) = (decode t bs >>= _)
  congr 1; funext p
  obtain ⟨v, r⟩ := p
  unfold accK
  cases name with
  | none => rfl
  | some nm =>
    by_cases h : nm.isEmpty
    · simp only [h, if_true]
    · simp only [h]; rfl

theorem decode_struct_eq (ms : Members) :
    decode (.struct ms) = bindD (fun bs => decodeMembers ms bs []) (fun kvs => ret (.dict kvs)) := by
  funext bs; rw [decode]
  show _ = (decodeMembers ms bs [] >>= _)
  cases decodeMembers ms bs [] with
  | error e => rfl
  | ok p => obtain ⟨vs, r⟩ := p; rfl

theorem tmembers_cons_err (name : Name) (t : Ty) (off : Nat) (rest : TMembers) (raw : Bytes) (pos : Nat)
    (acc : List (Name × PyVal)) (e : Exn) (h : decodeTMembers (.cons name t off rest) raw pos acc = .error e) :
    (∃ bs, decode t bs = .error e) ∨ ∃ pos' acc', decodeTMembers rest raw pos' acc' = .error e := by
  rw [decodeTMembers] at h
  split at h
  · rename_i e' h'; cases h; exact Or.inl ⟨_, h'⟩
  · exact Or.inr ⟨_, _, h⟩

end Pycomm.ER
