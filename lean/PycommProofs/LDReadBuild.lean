/-
  LogixDriver.read, layer (b): the request path of a plain identifier and `_read_build_requests` for one
  parsed request.
-/
import PycommProofs.LDReadParse
import PycommProofs.LE2EDefs
namespace Pycomm.Lgx.Drv
open Pycomm Pycomm.Tgt Pycomm.Path Pycomm.Reply Pycomm.EP Pycomm.Lgx.E2E

/-- the length-prefixed request path of an encodable segment list is one byte longer than the bound on the segments -/
theorem ldr_encEpath_len {segs : List Seg} {ps : List PSeg} {n : Nat} {bs : Bytes} (h : EncAll segs ps n)
    (hb : encEpath true segs true false = .ok bs) : bs.length ≤ n + 1 := by
  obtain ⟨path, e, _, l, _, _⟩ := h
  unfold encEpath at hb
  rw [e] at hb
  simp only [if_true] at hb
  split at hb
  · rename_i lb hl
    obtain ⟨_, _, rfl⟩ := usint_ok_inv _ _ hl
    cases hb
    simp
    omega
  · cases hb

/-- the segments `tag_request_path` starts with -/
def ldr_first (n : Name) (inst : Nat) (useIds : Bool) : List Seg :=
  if useIds && (inst != 0) then
    [Seg.logical (.bytes [0x6b]) (Path.nm "class_id"), Seg.logical (.int inst) (Path.nm "instance_id")]
  else [Seg.dataStr n]

/-- what the request path of a plain identifier must denote for the controller: the symbol instance when the
    driver uses instance ids and knows one, else the symbol name -/
def ldr_segs (n : Name) (inst : Nat) (useIds : Bool) : List PSeg :=
  if useIds && (inst != 0) then [PSeg.logical 0 0x6B, PSeg.logical 4 inst] else [PSeg.symbol (n.map UInt8.ofNat)]

theorem ldr_tagRequestPath_plain (n : Name) (hid : PlainIdent n) (inst : Nat) (useIds : Bool) :
    tagRequestPath n (some inst) useIds =
      match encEpath true (ldr_first n inst useIds) true false with
      | .ok bs => .ok (some bs)
      | .error e => .error e := by
  have hfind : findTagIndex n = (n, []) := by
    unfold findTagIndex
    rw [find_none 91 n (ldr_plain_not_mem n hid 91 (by omega))]
  have hprog : PyStr.startsWith (Path.nm "Program:") n = false := ldr_not_program n hid
  unfold tagRequestPath
  rw [ldr_split_dot n hid]
  simp only [hfind, indexSegs, attrSegs, hprog, Bool.not_false, Bool.and_true, Option.getD_some,
    List.append_nil, ldr_first]
  generalize encEpath true _ true false = r
  cases r <;> rfl

theorem ldr_encAll_first (n : Name) (hid : PlainIdent n) (inst : Nat) (hi : inst < 2 ^ 32) (useIds : Bool) :
    EncAll (ldr_first n inst useIds) (ldr_segs n inst useIds) (n.length + 12) := by
  unfold ldr_first ldr_segs
  split
  · have hc0 : lookupName (Path.nm "class_id") Gen.logicalTypes = some 0 := by decide
    have hi4 : lookupName (Path.nm "instance_id") Gen.logicalTypes = some 4 := by decide
    have h := EncAll.cons (enc1_logical_byte _ _ hc0 0x6b) (EncAll.cons (enc1_logical _ _ hi4 inst hi) EncAll.nil)
    have e : (0x6b : UInt8).toNat = 0x6B := by decide
    rw [e] at h
    exact h.mono (by omega)
  · have h := EncAll.cons (enc1_symbol n hid.2.1 (fun c hc => (ldr_ident_facts c (hid.2.2 c hc)).2.2.2.2.2.2.1)) EncAll.nil
    exact h.mono (by omega)

/-- (b, path) `tag_request_path` of a plain identifier: it exists, is short, and the controller's strict parser
    reads it as the symbol instance (instance-id addressing) or the symbol name (symbolic addressing) -/
theorem ldr_requestPath (cfg : Cfg) (n : Name) (info : TagInfo) (inst : Nat) (hid : PlainIdent n)
    (hinst : info.core.instanceId = some inst) (hi : inst < 2 ^ 32) :
    ∃ path, requestPathOf cfg n info = .ok path ∧ path.length ≤ n.length + 13 ∧
      Denotes path (ldr_segs n inst cfg.useInstanceIds) := by
  have hall := ldr_encAll_first n hid inst hi cfg.useInstanceIds
  obtain ⟨bs, hb, hp⟩ := hall.request (by have := hid.2.1; omega)
  refine ⟨bs, ?_, ldr_encEpath_len hall hb, hp⟩
  unfold requestPathOf
  rw [hinst, ldr_tagRequestPath_plain n hid inst cfg.useInstanceIds, hb]

/-- (b) `_read_build_requests` for one error-free parsed request of one element whose answer fits the connection:
    one sequence number is drawn, the result is one plain Read Tag request -/
theorem ldr_build_single (cfg : Cfg) (d : Cli.Drv) (p : Parsed) (info : TagInfo) (path : Bytes)
    (hp : p.error = none) (hinfo : p.info = some info) (hel : p.elements = 1)
    (hpath : requestPathOf cfg p.plcTag info = .ok path)
    (hsize : tagReturnSize info 1 + (2 + (Cl.readMsg path 1).length) + 2 ≤ d.connectionSize) :
    readBuildRequests cfg d [p] =
      (d.nextSeq.2, .ok [Request.read { seq := d.nextSeq.1, tag := p.plcTag, elements := 1, info := info,
                                        rid := p.requestId, path := path }]) := by
  have hel' : elementsNat p.elements = .ok 1 := by rw [hel]; rfl
  have hnf : ¬ (tagReturnSize info 1 + (2 + (Cl.readMsg path 1).length) + 2 > d.connectionSize) := by omega
  unfold readBuildRequests
  simp only [List.length_cons, List.length_nil, Nat.zero_add, ne_eq, not_true_eq_false, false_and, if_false,
    readBuildLive, hp, hinfo, mkReadReq, hpath, hel', ReadReq.returnSize, ReadReq.messageLen, hnf, decide_false,
    Bool.false_eq_true, Except.map, List.map_cons, List.map_nil]

end Pycomm.Lgx.Drv
