/-
  LogixDriver.read, layer (e) for arrays of elementary types: `parse_read_reply` of the data of a Read Tag reply
  for `n` elements decodes the elements one after the other from the bytes after the type code.
-/
import PycommProofs.LDReadReply
import PycommProofs.LDReadSend
namespace Pycomm.Lgx.Drv
open Pycomm Pycomm.Tgt Pycomm.Path Pycomm.Reply Pycomm.Encap Pycomm.Lgx Pycomm.Lgx.E2E

/-! ### an elementary value is decoded from exactly the bytes of its size -/

theorem ldr2_streamRead_prefix (sz : Nat) (hpos : 0 < sz) (a d r : Bytes) (h : streamRead (sz : Int) a = .ok (d, r))
    (hd : ¬ d.length < sz) : sz ≤ a.length ∧ d = a.take sz ∧ ∀ x, streamRead (sz : Int) (a.take sz ++ x) = .ok (d, x) := by
  unfold streamRead at h
  have hneg : ¬ ((sz : Int) < 0) := by omega
  simp only [hneg, if_false, Int.toNat_natCast] at h
  split at h
  · cases h
  · simp only [Except.ok.injEq, Prod.mk.injEq] at h
    obtain ⟨rfl, rfl⟩ := h
    have hlen : sz ≤ a.length := by
      rw [List.length_take] at hd; omega
    refine ⟨hlen, rfl, ?_⟩
    intro x
    have ht : (a.take sz ++ x).take sz = a.take sz := by
      rw [List.take_append_of_le_length (by rw [List.length_take]; omega), List.take_take, Nat.min_self]
    have hdr : (a.take sz ++ x).drop sz = x := by
      have : (a.take sz).length = sz := by rw [List.length_take]; omega
      conv => lhs; arg 1; rw [← this]
      exact List.drop_left
    unfold streamRead
    simp only [hneg, if_false, Int.toNat_natCast, ht, hdr]
    have hne : (a.take sz).isEmpty = false := by
      cases hh : a.take sz with
      | nil => rw [hh] at hd; simp at hd; omega
      | cons _ _ => rfl
    rw [hne]; rfl

theorem ldr2_decodeIntNat_prefix (k : IntK) (a : Bytes) (n : Nat) (r : Bytes) (h : decodeIntNat k a = .ok (n, r)) :
    k.size ≤ a.length ∧ ∀ x, decodeIntNat k (a.take k.size ++ x) = .ok (n, x) := by
  have hpos : 0 < k.size := by cases k <;> decide
  unfold decodeIntNat at h
  simp only [bind, Except.bind] at h
  split at h
  · cases h
  · rename_i dr hsr
    obtain ⟨d, r'⟩ := dr
    simp only at h
    split at h
    · cases h
    · rename_i hd
      simp only [Except.ok.injEq, Prod.mk.injEq] at h
      obtain ⟨rfl, rfl⟩ := h
      obtain ⟨hlen, _, hx⟩ := ldr2_streamRead_prefix k.size hpos a d r' hsr hd
      refine ⟨hlen, ?_⟩
      intro x
      unfold decodeIntNat
      simp only [bind, Except.bind, hx x, hd, if_false]

/-- the byte size of the codec classes of the elementary types -/
def ldr2_tySize : Ty → Nat
  | .bool => 1
  | .int k => k.size
  | .real => 4
  | .lreal => 8
  | _ => 0

theorem ldr2_decode_prefix (t : Ty) (ht : t = .bool ∨ (∃ k, t = .int k) ∨ t = .real ∨ t = .lreal)
    (a : Bytes) (v : PyVal) (r : Bytes) (h : decode t a = .ok (v, r)) :
    ldr2_tySize t ≤ a.length ∧ ∀ x, decode t (a.take (ldr2_tySize t) ++ x) = .ok (v, x) := by
  rcases ht with rfl | ⟨k, rfl⟩ | rfl | rfl
  · -- BOOL: one byte, a short read is impossible
    simp only [decode, bind, Except.bind] at h
    split at h
    · cases h
    · rename_i dr hsr
      obtain ⟨d, r'⟩ := dr
      simp only [Except.ok.injEq, Prod.mk.injEq] at h
      obtain ⟨rfl, rfl⟩ := h
      have hd : ¬ d.length < 1 := by
        unfold streamRead at hsr
        simp only [Int.reduceLT, if_false] at hsr
        split at hsr
        · cases hsr
        · rename_i hne
          simp only [Except.ok.injEq, Prod.mk.injEq] at hsr
          obtain ⟨rfl, _⟩ := hsr
          intro hl
          apply hne
          simp only [List.isEmpty_iff]
          exact List.eq_nil_of_length_eq_zero (by omega)
      obtain ⟨hlen, _, hx⟩ := ldr2_streamRead_prefix 1 (by omega) a d r' hsr hd
      refine ⟨hlen, ?_⟩
      intro x
      have hx' : streamRead 1 (a.take 1 ++ x) = .ok (d, x) := hx x
      simp only [decode, bind, Except.bind, ldr2_tySize, hx']
  · simp only [decode, decodeIntVal, bind, Except.bind] at h
    split at h
    · cases h
    · rename_i ir hsr
      split at hsr
      · cases hsr
      · rename_i nr hn
        obtain ⟨n, r'⟩ := nr
        simp only [Except.ok.injEq] at hsr
        subst hsr
        simp only [Except.ok.injEq, Prod.mk.injEq] at h
        obtain ⟨rfl, rfl⟩ := h
        obtain ⟨hlen, hx⟩ := ldr2_decodeIntNat_prefix k a n r' hn
        refine ⟨hlen, ?_⟩
        intro x
        simp only [decode, decodeIntVal, bind, Except.bind, ldr2_tySize, hx x]
  · simp only [decode, bind, Except.bind] at h
    split at h
    · cases h
    · rename_i nr hn
      obtain ⟨n, r'⟩ := nr
      simp only [Except.ok.injEq, Prod.mk.injEq] at h
      obtain ⟨rfl, rfl⟩ := h
      obtain ⟨hlen, hx⟩ := ldr2_decodeIntNat_prefix .udint a n r' hn
      have e : IntK.udint.size = 4 := rfl
      rw [e] at hlen hx
      refine ⟨hlen, ?_⟩
      intro x
      simp only [decode, bind, Except.bind, ldr2_tySize, hx x]
  · simp only [decode, bind, Except.bind] at h
    split at h
    · cases h
    · rename_i nr hn
      obtain ⟨n, r'⟩ := nr
      simp only [Except.ok.injEq, Prod.mk.injEq] at h
      obtain ⟨rfl, rfl⟩ := h
      obtain ⟨hlen, hx⟩ := ldr2_decodeIntNat_prefix .ulint a n r' hn
      have e : IntK.ulint.size = 8 := rfl
      rw [e] at hlen hx
      refine ⟨hlen, ?_⟩
      intro x
      simp only [decode, bind, Except.bind, ldr2_tySize, hx x]

/-- the codec class of an elementary type other than DWORD, and its size -/
theorem ldr2_atomic_shape (c sz : Nat) (t : Ty) (ht : Cl.atomicTy c = some t) (hb : t.isBits = none)
    (hsz : atomicSize c = some sz) :
    (t = .bool ∨ (∃ k, t = .int k) ∨ t = .real ∨ t = .lreal) ∧ ldr2_tySize t = sz := by
  refine ⟨ldr_atomicTy_shape c t ht hb, ?_⟩
  rcases ldr_atomicTy_codes c t ht hb with h | h | h | h | h | h | h | h | h | h | h <;> subst h <;>
    (simp only [Cl.atomicTy] at ht; simp only [atomicSize] at hsz; cases ht; cases hsz; rfl)

/-- `n` elements decoded one after the other from `n * sz` bytes of the memory -/
theorem ldr2_decodeN (t : Ty) (ht : t = .bool ∨ (∃ k, t = .int k) ∨ t = .real ∨ t = .lreal) (sz : Nat)
    (hsz : ldr2_tySize t = sz) (mem : Bytes) (n : Nat) :
    ∀ (off : Nat) (vs : List PyVal) (_ : vs.length = n)
      (_ : ∀ k (h : k < vs.length), ∃ rest, decode t (mem.drop (off + k * sz)) = .ok (vs[k], rest)) (x : Bytes),
      decodeN (decode t) n ((mem.drop off).take (n * sz) ++ x) = .ok (vs, x) := by
  induction n with
  | zero =>
    intro off vs hvs _ x
    have : vs = [] := List.eq_nil_of_length_eq_zero hvs
    subst this
    simp [decodeN]
  | succ n ih =>
    intro off vs hvs hdec x
    cases vs with
    | nil => simp at hvs
    | cons v vs =>
      simp only [List.length_cons, Nat.add_right_cancel_iff] at hvs
      obtain ⟨r0, h0⟩ := hdec 0 (by simp)
      simp only [Nat.zero_mul, Nat.add_zero, List.getElem_cons_zero] at h0
      obtain ⟨_, hx⟩ := ldr2_decode_prefix t ht _ v r0 h0
      rw [hsz] at hx
      have hsplit : (mem.drop off).take ((n + 1) * sz) ++ x =
          (mem.drop off).take sz ++ ((mem.drop (off + sz)).take (n * sz) ++ x) := by
        have e : (n + 1) * sz = sz + n * sz := by rw [Nat.add_mul, Nat.one_mul, Nat.add_comm]
        rw [e, List.take_add, List.drop_drop, List.append_assoc]
      have hrest := ih (off + sz) vs hvs (by
        intro k hk
        obtain ⟨r, hr⟩ := hdec (k + 1) (by simp; omega)
        refine ⟨r, ?_⟩
        simp only [List.getElem_cons_succ] at hr
        have e : off + (k + 1) * sz = off + sz + k * sz := by rw [Nat.add_mul, Nat.one_mul]; omega
        rw [← e]; exact hr) x
      rw [hsplit]
      simp only [decodeN, bind, Except.bind, hx, hrest]

/-- the type string of `n` elements -/
def ldr2_typeStr (name : Name) (n : Nat) : Name := if n > 1 then name ++ [91] ++ renderDec (n : Nat) ++ [93] else name

/-- the value of `n` elements: the element itself for one element, else the list -/
def ldr2_value (vs : List PyVal) : PyVal :=
  match vs with
  | [v] => v
  | _ => .list vs

/-- (e) `parse_read_reply` of the data of a Read Tag reply for `n ≥ 1` elements of an array tag of an elementary
    type: the elements are decoded one after the other from `n * sz` bytes of the memory from byte `off`; one
    element is returned as it is, more as a list; the type string is `T` or `T[n]` -/
theorem ldr2_parseReadReply_arr (info : TagInfo) (c sz dim : Nat) (t : Ty) (name : Name) (mem : Bytes) (off n : Nat)
    (vs : List PyVal)
    (hty : info.core.ty = .arr (.fixed dim) t) (hname : info.core.dataTypeName = name) (hnd : name ≠ nm "DWORD")
    (ht : Cl.atomicTy c = some t) (hb : t.isBits = none) (hsz : atomicSize c = some sz) (hn : 1 ≤ n)
    (hvs : vs.length = n)
    (hdec : ∀ k (h : k < vs.length), ∃ rest, decode t (mem.drop (off + k * sz)) = .ok (vs[k], rest)) :
    parseReadReply (le 2 c ++ (mem.drop off).take (n * sz)) info n = .ok (ldr2_value vs, ldr2_typeStr name n) := by
  obtain ⟨hshape, hts⟩ := ldr2_atomic_shape c sz t ht hb hsz
  have hstream : (Cl.splitTyped (le 2 c ++ (mem.drop off).take (n * sz))).2 = (mem.drop off).take (n * sz) :=
    splitTyped_atomic c t ht _
  have hN := ldr2_decodeN t hshape sz hts mem n off vs hvs hdec []
  rw [List.append_nil] at hN
  have hdw : (name == nm "DWORD") = false := by simpa using hnd
  have hn0 : ¬ (n = 0) := by omega
  have harr : decode (.arr (.fixed n) t) ((mem.drop off).take (n * sz)) = .ok (.list vs, []) := by
    simp only [decode, hN, hb, Option.isSome_none, Bool.false_eq_true, if_false]
  unfold parseReadReply
  rw [hty, hname]
  simp only [hn0, if_false, Cl.parseReadReply, hstream, if_true, harr, hb, and_true, hdw, Bool.false_eq_true]
  by_cases h1 : n = 1
  · subst h1
    match vs, hvs with
    | [x], _ => simp [ldr2_value, ldr2_typeStr]
  · have hgt : n > 1 := by omega
    have hv : ldr2_value vs = .list vs := by
      match vs, hvs with
      | [], h => simp at h; omega
      | [x], h => simp at h; omega
      | x :: y :: r, _ => rfl
    simp [h1, hgt, hv, ldr2_typeStr]

end Pycomm.Lgx.Drv
