/-
  LogixDriver.write of TWO elementary scalar tags in one call: the multi-service path
  (`_write_build_multi_requests`, `MultiServiceRequestPacket`, the reference controller's Multiple Service Packet,
  `MultiServiceResponsePacket`).
-/
import PycommProofs.LDWrite2Core
namespace Pycomm.Lgx.Drv
open Pycomm Pycomm.Tgt Pycomm.Path Pycomm.Reply Pycomm.Encap Pycomm.Lgx Pycomm.Lgx.E2E

/-- the parsed write request of a plain tag name at position `rid` with the caller's value -/
def ldw2_parsedAt (rid : Nat) (n : Name) (info : TagInfo) (v : PyVal) : Parsed :=
  { requestId := rid, requestTag := n, userTag := n, plcTag := n, bit := none, elements := 1, info := some info,
    boolElements := none, value := v }

/-- `len(request.message)` of a one-element Write Tag request -/
def ldw2_msgLen (info : TagInfo) (path value : Bytes) : Nat := 2 + (Cl.writeMsg path (packedTypeOf info) 1 value).length

/-! ### (b) building the multi-service request for two live requests -/

/-- (b) `_write_build_multi_requests` for two error-free one-element requests whose values encode and whose messages
    fit one multi-service packet: three sequence numbers are drawn (one per write packet, one for the multi-service
    packet), the result is one multi-service request embedding the two writes in order; the parsed requests are
    unchanged -/
theorem ldw2_build_two (cfg : Cfg) (d : Cli.Drv) (a b : Name) (ia ib : TagInfo) (va vb : PyVal) (pa pb ba bb : Bytes)
    (hmicro : cfg.micro800 = false)
    (hea : encodeValue (ldw2_parsedAt 0 a ia va) ia = (ldw2_parsedAt 0 a ia va, some ba))
    (heb : encodeValue (ldw2_parsedAt 1 b ib vb) ib = (ldw2_parsedAt 1 b ib vb, some bb))
    (hpa : requestPathOf cfg a ia = .ok pa) (hpb : requestPathOf cfg b ib = .ok pb)
    (hsize : K.OVERHEAD + ldw2_msgLen ia pa ba + ldw2_msgLen ib pb bb ≤ d.connectionSize) :
    writeBuildRequests cfg d [ldw2_parsedAt 0 a ia va, ldw2_parsedAt 1 b ib vb] =
      (d.nextSeq.2.nextSeq.2.nextSeq.2,
       .ok ([ldw2_parsedAt 0 a ia va, ldw2_parsedAt 1 b ib vb],
            [Request.multiWrite d.nextSeq.2.nextSeq.2.nextSeq.1
              [{ seq := d.nextSeq.1, tag := a, elements := 1, info := ia, rid := 0, path := pa,
                 typeBytes := packedTypeOf ia, value := ba },
               { seq := d.nextSeq.2.nextSeq.1, tag := b, elements := 1, info := ib, rid := 1, path := pb,
                 typeBytes := packedTypeOf ib, value := bb }]])) := by
  have hel : elementsNat 1 = .ok 1 := rfl
  have hcs1 : d.nextSeq.2.connectionSize = d.connectionSize := by rw [(Cli.lcs_nextSeq d).2]
  have hoh : K.OVERHEAD = 10 := rfl
  unfold ldw2_msgLen at hsize
  have hna : ¬ (2 + (Cl.writeMsg pa (packedTypeOf ia) 1 ba).length + K.OVERHEAD > d.connectionSize) := by omega
  have hnb : ¬ (2 + (Cl.writeMsg pb (packedTypeOf ib) 1 bb).length + K.OVERHEAD > d.connectionSize) := by omega
  have hg1 : ¬ (K.OVERHEAD + (2 + (Cl.writeMsg pa (packedTypeOf ia) 1 ba).length) > d.connectionSize) := by omega
  have hg2 : ¬ (K.OVERHEAD + (2 + (Cl.writeMsg pa (packedTypeOf ia) 1 ba).length) +
      (2 + (Cl.writeMsg pb (packedTypeOf ib) 1 bb).length) > d.connectionSize) := by omega
  have hbwa : (ldw2_parsedAt 0 a ia va).isBitWrite = false := rfl
  have hbwb : (ldw2_parsedAt 1 b ib vb).isBitWrite = false := rfl
  have hpa' : requestPathOf cfg (ldw2_parsedAt 0 a ia va).plcTag ia = .ok pa := hpa
  have hpb' : requestPathOf cfg (ldw2_parsedAt 1 b ib vb).plcTag ib = .ok pb := hpb
  have hela : elementsNat (ldw2_parsedAt 0 a ia va).elements = .ok 1 := rfl
  have helb : elementsNat (ldw2_parsedAt 1 b ib vb).elements = .ok 1 := rfl
  have herra : (ldw2_parsedAt 0 a ia va).error = none := rfl
  have herrb : (ldw2_parsedAt 1 b ib vb).error = none := rfl
  have hinfa : (ldw2_parsedAt 0 a ia va).info = some ia := rfl
  have hinfb : (ldw2_parsedAt 1 b ib vb).info = some ib := rfl
  have hrep1 : replaceParsed [ldw2_parsedAt 0 a ia va, ldw2_parsedAt 1 b ib vb] (ldw2_parsedAt 0 a ia va) =
      [ldw2_parsedAt 0 a ia va, ldw2_parsedAt 1 b ib vb] := by
    simp [replaceParsed, ldw2_parsedAt]
  have hrep2 : replaceParsed [ldw2_parsedAt 0 a ia va, ldw2_parsedAt 1 b ib vb] (ldw2_parsedAt 1 b ib vb) =
      [ldw2_parsedAt 0 a ia va, ldw2_parsedAt 1 b ib vb] := by
    simp [replaceParsed, ldw2_parsedAt]
  unfold writeBuildRequests
  simp only [List.length_cons, List.length_nil, Nat.zero_add, Nat.reduceAdd, ne_eq, Nat.succ_ne_self,
    not_false_eq_true, hmicro, Bool.not_false, and_self, if_true,
    writeBuildLive, herra, herrb, hinfa, hinfb, hbwa, hbwb, Bool.false_eq_true, if_false, hea, heb, hrep1, hrep2,
    mkWriteReq, hpa', hpb', hela, helb, WriteReq.messageLen, hna, hnb, decide_false, List.nil_append, List.cons_append]
  simp only [ldw2_parsedAt, K.plan, List.filter_cons, List.filter_nil, Bool.not_false, if_true, hna, hnb, decide_false,
    Bool.false_eq_true, if_false, List.map_cons, List.map_nil, List.foldl_cons, List.foldl_nil, K.groupStep, hg1, hg2,
    List.reverse_cons, List.reverse_nil, List.nil_append, List.cons_append, ne_eq, not_false_eq_true, decide_true,
    reduceCtorEq, List.filterMap_cons, List.filterMap_nil, List.find?_cons, beq_self_eq_true, drawSeqs,
    List.append_nil]
  rfl

/-! ### (d) the controller's answer to a one-element Write Tag of a whole scalar symbol -/

/-- (d) the reference controller accepts the driver's Write Tag request for a controller-scope elementary scalar
    symbol carrying the type code and exactly the element's bytes; its whole effect is the bytes written at the symbol
    with one logged write -/
theorem ldw2_exchange_scalar (st : LState) (cap : Nat) (s : Symbol) (c sz : Nat) (useIds : Bool) (path bytes : Bytes)
    (hid : PlainIdent s.name) (hs : s ∈ st.proj.controller)
    (hbytes : ∀ s' ∈ st.proj.controller, ∀ ch ∈ s'.name, ch < 256)
    (huniqN : ∀ s' ∈ st.proj.controller, s'.name = s.name → s' = s)
    (huniqI : ∀ s' ∈ st.proj.controller, s'.inst = s.inst → s' = s)
    (hty : elTyOfWord s.symbolType = .atomic c) (hsz : atomicSize c = some sz) (hlen : s.mem.length = sz)
    (hpos : 0 < sz) (hp : Denotes path (ldr_segs s.name s.inst useIds)) (hbl : bytes.length = sz) :
    Cl.exchange st cap (Cl.writeMsg path (le 2 c) 1 bytes) =
      ({ st with proj := ldw_proj st.proj s bytes }, {}) := by
  have hr := ldr_resolve st.proj s c sz useIds hid hs hbytes huniqN huniqI hty hsz
    (by intro h; rw [h, List.length_nil] at hlen; omega)
  have hsym : st.proj.symbolOf (ldr_loc s c) = some s := ldr_find_inst st.proj s hs huniqI
  have hav := ldr_dimsProduct_pos s.dims
  have hex := write_e2e st cap path _ (ldr_loc s c) 1 sz bytes s hp hr (by intro b; simp [ldr_loc])
    ⟨Nat.le_refl 1, hav, by omega⟩ hsym hsz (by omega) (by simp only [ldr_loc]; omega)
  have htb : typeBytes st.proj (ldr_loc s c).ty = le 2 c := rfl
  rw [htb] at hex
  rw [hex, show (ldr_loc s c).offset = 0 from rfl, ldw_written_eq st.proj s c bytes hs huniqI (by omega)]

/-- a symbol with another instance id is still in the controller scope after the write, unchanged -/
theorem ldw2_mem_ctl_other (l : List Symbol) (inst : Nat) (bytes : Bytes) (x : Symbol) (hx : x ∈ l) (hne : x.inst ≠ inst) :
    x ∈ ldw_ctl l inst bytes := by
  unfold ldw_ctl
  refine List.mem_map.2 ⟨x, hx, ?_⟩
  have : (x.inst == inst) = false := by simpa using hne
  simp [this]

theorem ldw2_ctl_uniqN_other (l : List Symbol) (inst : Nat) (bytes : Bytes) (x : Symbol) (hne : x.inst ≠ inst)
    (huniqN : ∀ s' ∈ l, s'.name = x.name → s' = x) :
    ∀ s' ∈ ldw_ctl l inst bytes, s'.name = x.name → s' = x := by
  intro y hy hn
  obtain ⟨z, hz, he, hn', _⟩ := ldw_ctl_inv l inst bytes y hy
  have : z = x := huniqN z hz (by rw [← hn', hn])
  subst this
  have : (z.inst == inst) = false := by simpa using hne
  rw [he]; simp [this]

theorem ldw2_ctl_uniqI_other (l : List Symbol) (inst : Nat) (bytes : Bytes) (x : Symbol) (hne : x.inst ≠ inst)
    (huniqI : ∀ s' ∈ l, s'.inst = x.inst → s' = x) :
    ∀ s' ∈ ldw_ctl l inst bytes, s'.inst = x.inst → s' = x := by
  intro y hy hn
  obtain ⟨z, hz, he, _, hi'⟩ := ldw_ctl_inv l inst bytes y hy
  have : z = x := huniqI z hz (by rw [← hi', hn])
  subst this
  have : (z.inst == inst) = false := by simpa using hne
  rw [he]; simp [this]

/-! ### (e)/(f) the results of a multi-service write -/

theorem ldw2_sendRequest_multi (w w2 : Cli.World Ext) (rs : Results) (seq : Nat) (reqs : List WriteReq) (raw : Option Bytes)
    (h : sendUnit hookAll w seq (Cl.multiMsg (reqs.map fun q => Cl.writeMsg q.path q.typeBytes q.elements q.value)) =
      (w2, .ok raw))
    (hcs : (tagResp raw).p.commandStatus = some 0) :
    sendRequest hookAll w rs (.multiWrite seq reqs) =
      (w2, multiWriteResults rs (reqs.zip (embeddedReplies (tagResp raw).p.data))) := by
  unfold sendRequest
  simp only [h, multiPacketError, hcs, if_true]

/-- (f) the result loop of `write` for an error-free one-element request without bit number, looked up in a results
    table that holds an error-free Tag for it -/
theorem ldw2_writeResult_get (p : Parsed) (info : TagInfo) (t : LTag) (rs : Results)
    (herr : p.error = none) (hinfo : p.info = some info) (hbit : p.bit = none) (hbe : p.boolElements = none)
    (hel : p.elements = 1) (hte : t.error = none) (hget : rs.get? p.requestId = some t) :
    writeResult p rs =
      { tag := p.userTag, value := p.value, type := some info.core.dataTypeName, error := none } := by
  unfold writeResult
  simp only [herr, hinfo, hget, hbit, hbe, hel, hte, Option.isSome_none, Bool.false_and, Bool.false_eq_true, if_false]
  simp

/-! ### the two writes composed -/

/-- `write((a, va), (b, vb))` of two DISTINCT controller-scope elementary scalar tags on a healthy connected driver
    (not a Micro800) whose two requests fit one multi-service packet: ONE frame is written — a Multiple Service
    Packet embedding the two Write Tag requests in order —, three sequence numbers are drawn, the two Tags come back
    in the order of the request, and the controller's project afterwards has both memories replaced, first `a` then
    `b` (`ldw_proj` twice) -/
theorem ldw2_write_two (cfg : Cfg) (w : Cli.World Ext) (sess : Nat) (cidb : Bytes) (conn : Conn) (st : LState)
    (sa sb : Symbol) (ia ib : TagInfo) (ca cb sza szb : Nat) (na nb : Name) (ta tb : Ty) (va vb : PyVal) (ba bb : Bytes)
    (hw : ldr_Healthy w sess cidb conn) (hlogix : w.net.target.ext.logix = some st) (hmicro : cfg.micro800 = false)
    (hbytes : ∀ s' ∈ st.proj.controller, ∀ ch ∈ s'.name, ch < 256)
    (hsa : sa ∈ st.proj.controller) (hsb : sb ∈ st.proj.controller) (hne : sb.inst ≠ sa.inst)
    (huniqNa : ∀ s' ∈ st.proj.controller, s'.name = sa.name → s' = sa)
    (huniqNb : ∀ s' ∈ st.proj.controller, s'.name = sb.name → s' = sb)
    (huniqIa : ∀ s' ∈ st.proj.controller, s'.inst = sa.inst → s' = sa)
    (huniqIb : ∀ s' ∈ st.proj.controller, s'.inst = sb.inst → s' = sb)
    (hida : PlainIdent sa.name) (hidb : PlainIdent sb.name) (hinsta : sa.inst < 2 ^ 32) (hinstb : sb.inst < 2 ^ 32)
    (htya : elTyOfWord sa.symbolType = .atomic ca) (htyb : elTyOfWord sb.symbolType = .atomic cb)
    (hata : atomicOfCode ca = some (na, ta)) (hatb : atomicOfCode cb = some (nb, tb))
    (hba : ta.isBits = none) (hbb : tb.isBits = none)
    (hsza : atomicSize ca = some sza) (hszb : atomicSize cb = some szb)
    (hlena : sa.mem.length = sza) (hlenb : sb.mem.length = szb)
    (hgeta : cfg.tags.get? sa.name = some ia) (hgetb : cfg.tags.get? sb.name = some ib)
    (hinfoa : ldr_InfoOf ia na ta sa.inst) (hinfob : ldr_InfoOf ib nb tb sb.inst)
    (hcanona : Canon ta va) (hcanonb : Canon tb vb)
    (henca : encode ta va = .ok ba) (hencb : encode tb vb = .ok bb)
    (hC : sa.name.length + sb.name.length + 66 ≤ w.drv.connectionSize)
    (hT : sa.name.length + sb.name.length + 66 ≤ conn.size) :
    ∃ w' frm, write hookAll cfg w [(sa.name, va), (sb.name, vb)] =
        (w', .ok [{ tag := sa.name, value := va, type := some na, error := none },
                  { tag := sb.name, value := vb, type := some nb, error := none }]) ∧
      w'.drv = w.drv.nextSeq.2.nextSeq.2.nextSeq.2 ∧ w'.net.sent = w.net.sent ++ [frm] ∧
      w'.net.target.ext =
        { w.net.target.ext with logix := some { st with proj := ldw_proj (ldw_proj st.proj sa ba) sb bb } } ∧
      ldr_Healthy w' sess cidb { conn with lastSeq := some w.drv.nextSeq.2.nextSeq.2.nextSeq.1 } := by
  obtain ⟨hatya, hentrya, hndwa, hposa, hle8a⟩ := ldr_atomic_table ca sza na ta hata hba hsza
  obtain ⟨hatyb, hentryb, hndwb, hposb, hle8b⟩ := ldr_atomic_table cb szb nb tb hatb hbb hszb
  have hshapea := ldr_atomicTy_shape ca ta hatya hba
  have hshapeb := ldr_atomicTy_shape cb tb hatyb hbb
  have hbla : ba.length = sza := ldw_encode_length ca sza ta va ba hatya hba hsza hcanona henca
  have hblb : bb.length = szb := ldw_encode_length cb szb tb vb bb hatyb hbb hszb hcanonb hencb
  -- (a) parsing
  have hnda : isDword ia = false := by
    have : (na == nm "DWORD") = false := by simpa using hndwa
    simp [isDword, hinfoa.typeName, this]
  have hndb : isDword ib = false := by
    have : (nb == nm "DWORD") = false := by simpa using hndwb
    simp [isDword, hinfob.typeName, this]
  have hparsed : ((parseRequestedTags cfg.tags true ([(sa.name, va), (sb.name, vb)].map (·.1))).zip
      ([(sa.name, va), (sb.name, vb)].map (·.2))).map (fun x => ({ x.1 with value := x.2 } : Drv.Parsed)) =
      [ldw2_parsedAt 0 sa.name ia va, ldw2_parsedAt 1 sb.name ib vb] := by
    show ([parseTagRequest cfg.tags true 0 sa.name, parseTagRequest cfg.tags true 1 sb.name].zip [va, vb]).map _ = _
    rw [ldr_parse_plain cfg.tags true 0 sa.name ia hida hgeta hnda, ldr_parse_plain cfg.tags true 1 sb.name ib hidb hgetb hndb]
    rfl
  -- (b) building
  obtain ⟨pa, hpa, hpla, hdena⟩ := ldr_requestPath cfg sa.name ia sa.inst hida hinfoa.instanceId hinsta
  obtain ⟨pb, hpb, hplb, hdenb⟩ := ldr_requestPath cfg sb.name ib sb.inst hidb hinfob.instanceId hinstb
  have hea : encodeValue (ldw2_parsedAt 0 sa.name ia va) ia = (ldw2_parsedAt 0 sa.name ia va, some ba) :=
    ldw_encodeValue _ ia ta ba (ldw_canon_not_bytes ta va hshapea hcanona) (by rw [hinfoa.typeName]; exact hndwa) hinfoa.ty
      hshapea henca
  have heb : encodeValue (ldw2_parsedAt 1 sb.name ib vb) ib = (ldw2_parsedAt 1 sb.name ib vb, some bb) :=
    ldw_encodeValue _ ib tb bb (ldw_canon_not_bytes tb vb hshapeb hcanonb) (by rw [hinfob.typeName]; exact hndwb) hinfob.ty
      hshapeb hencb
  have hpta : packedTypeOf ia = le 2 ca := ldw_packedType ia na ca sza hinfoa.struct hinfoa.typeName hentrya
  have hptb : packedTypeOf ib = le 2 cb := ldw_packedType ib nb cb szb hinfob.struct hinfob.typeName hentryb
  have hmla : (Cl.writeMsg pa (le 2 ca) 1 ba).length = pa.length + 5 + sza := by
    simp only [Cl.writeMsg, List.length_append, List.length_cons, List.length_nil, le_length, hbla]; omega
  have hmlb : (Cl.writeMsg pb (le 2 cb) 1 bb).length = pb.length + 5 + szb := by
    simp only [Cl.writeMsg, List.length_append, List.length_cons, List.length_nil, le_length, hblb]; omega
  have hoh : K.OVERHEAD = 10 := rfl
  have hbuild := ldw2_build_two cfg w.drv sa.name sb.name ia ib va vb pa pb ba bb hmicro hea heb hpa hpb
    (by unfold ldw2_msgLen; rw [hpta, hptb, hmla, hmlb, hoh]; omega)
  rw [hpta, hptb] at hbuild
  -- (c)+(d) sending
  have hw1 : ldr_Healthy ({ w with drv := w.drv.nextSeq.2.nextSeq.2.nextSeq.2 } : Cli.World Ext) sess cidb conn :=
    ldr_Healthy_seq hw _ rfl
  have hmsga : Cl.writeMsg pa (le 2 ca) 1 ba = [0x4D] ++ pa ++ (le 2 ca ++ le 2 1 ++ ba) := by
    simp only [Cl.writeMsg, List.append_assoc]
  have hmsgb : Cl.writeMsg pb (le 2 cb) 1 bb = [0x4D] ++ pb ++ (le 2 cb ++ le 2 1 ++ bb) := by
    simp only [Cl.writeMsg, List.append_assoc]
  have hqa : parseMR (Cl.writeMsg pa (le 2 ca) 1 ba) =
      some { service := 0x4D, path := ldr_segs sa.name sa.inst cfg.useInstanceIds, data := le 2 ca ++ le 2 1 ++ ba } := by
    rw [hmsga]; exact parseMR_msg 0x4D pa _ _ hdena
  have hqb : parseMR (Cl.writeMsg pb (le 2 cb) 1 bb) =
      some { service := 0x4D, path := ldr_segs sb.name sb.inst cfg.useInstanceIds, data := le 2 cb ++ le 2 1 ++ bb } := by
    rw [hmsgb]; exact parseMR_msg 0x4D pb _ _ hdenb
  have hexa := ldw2_exchange_scalar st (conn.size - 2) sa ca sza cfg.useInstanceIds pa ba hida hsa hbytes huniqNa huniqIa htya
    hsza hlena hposa hdena hbla
  have hexb := ldw2_exchange_scalar { st with proj := ldw_proj st.proj sa ba } (conn.size - 2) sb cb szb cfg.useInstanceIds pb bb
    hidb (ldw2_mem_ctl_other st.proj.controller sa.inst ba sb hsb hne)
    (ldw_ctl_bytes st.proj.controller sa.inst ba hbytes)
    (ldw2_ctl_uniqN_other st.proj.controller sa.inst ba sb hne huniqNb)
    (ldw2_ctl_uniqI_other st.proj.controller sa.inst ba sb hne huniqIb) htyb hszb hlenb hposb hdenb hblb
  have hls := ldr2_multi_two st (conn.size - 2) (Cl.writeMsg pa (le 2 ca) 1 ba) (Cl.writeMsg pb (le 2 cb) 1 bb) _ _ hqa hqb
    (by simp) (by simp)
    (by rw [hmla, hmlb]; have := hida.2.1; have := hidb.2.1; omega)
  rw [hexa] at hls
  simp only at hls
  rw [hexb] at hls
  have hst0 : ([encMRReply 0x4D {}, encMRReply 0x4D {}].any (fun r => r.getD 2 0 != 0)) = false := by
    simp [encMRReply]
  simp only [hst0, Bool.false_eq_true, if_false] at hls
  have hml : (Cl.multiMsg [Cl.writeMsg pa (le 2 ca) 1 ba, Cl.writeMsg pb (le 2 cb) 1 bb]).length =
      12 + (pa.length + 5 + sza) + (pb.length + 5 + szb) := by
    unfold Cl.multiMsg
    rw [List.length_append, ldr2_packMulti_two_length, hmla, hmlb]
    simp; omega
  obtain ⟨w2, frm, hsend, hd2, hsent2, hext2, hh2⟩ := ldr2_sendUnit_logix
    ({ w with drv := w.drv.nextSeq.2.nextSeq.2.nextSeq.2 } : Cli.World Ext) sess cidb conn st
    w.drv.nextSeq.2.nextSeq.2.nextSeq.1 (Cl.multiMsg [Cl.writeMsg pa (le 2 ca) 1 ba, Cl.writeMsg pb (le 2 cb) 1 bb])
    { service := 0x0A, path := [.logical 0 2, .logical 4 1],
      data := K.packMulti [Cl.writeMsg pa (le 2 ca) 1 ba, Cl.writeMsg pb (le 2 cb) 1 bb] } _
    hw1 hlogix (parseMR_multi _)
    (Or.inr ⟨2, 1, [], rfl, by decide, by decide, by decide, by decide, by decide⟩) hls
    (ldr_nextSeq_lt _) (by rw [hml]; have := hida.2.1; have := hidb.2.1; omega) (by rw [hml]; omega)
  -- (e) the response
  obtain ⟨_, hdata, _⟩ := ldr_tagResp_ok 0x0A sess conn.toId w.drv.nextSeq.2.nextSeq.2.nextSeq.1
    w.drv.nextSeq.2.nextSeq.2.nextSeq.2.context
    (K.packMulti [encMRReply 0x4D {}, encMRReply 0x4D {}]) hw1.ctx8
  have hrl : (encMRReply 0x4D {}).length = 4 := by simp [encMRReply]
  have hemb : embeddedReplies (some (K.packMulti [encMRReply 0x4D {}, encMRReply 0x4D {}])) =
      [some (List.replicate 46 0 ++ encMRReply 0x4D {}), some (List.replicate 46 0 ++ encMRReply 0x4D {})] := by
    unfold embeddedReplies
    simp only
    rw [if_neg (by rw [ldr2_packMulti_two_length]; omega),
      K.client_unpacks_packed _ (by simp) (by simp only [List.length_cons, List.length_nil, List.map_cons, List.map_nil,
        List.foldl_cons, List.foldl_nil, hrl]; omega)]
    rfl
  have hpad := (ldr2_tagResp_padded 0x4D []).1
  have hpad' : (tagResp (some (List.replicate 46 0 ++ encMRReply 0x4D {}))).valid = true := hpad
  -- the decorator
  have hfo : Cli.ensureForwardOpen hookAll Cli.FUEL w = (w, .ok ()) := ldr_ensureFO_connected hookAll 7 w hw.connected
  refine ⟨w2, frm, ?_, hd2, hsent2, ?_, hh2⟩
  · unfold write
    rw [hfo]
    dsimp only
    rw [hparsed, hbuild]
    dsimp only
    unfold sendRequests
    have hmap : ([{ seq := w.drv.nextSeq.1, tag := sa.name, elements := 1, info := ia, rid := 0, path := pa,
                    typeBytes := le 2 ca, value := ba },
                  { seq := w.drv.nextSeq.2.nextSeq.1, tag := sb.name, elements := 1, info := ib, rid := 1, path := pb,
                    typeBytes := le 2 cb, value := bb }] : List WriteReq).map
        (fun q => Cl.writeMsg q.path q.typeBytes q.elements q.value) =
        [Cl.writeMsg pa (le 2 ca) 1 ba, Cl.writeMsg pb (le 2 cb) 1 bb] := rfl
    rw [← hmap] at hsend
    rw [ldw2_sendRequest_multi ({ w with drv := w.drv.nextSeq.2.nextSeq.2.nextSeq.2 } : Cli.World Ext) w2 []
      w.drv.nextSeq.2.nextSeq.2.nextSeq.1 _ _ hsend (ldr_tagResp_commandStatus _ _ _ _)]
    dsimp only
    rw [hdata, hemb]
    have hmr : multiWriteResults []
        (([{ seq := w.drv.nextSeq.1, tag := sa.name, elements := 1, info := ia, rid := 0, path := pa,
             typeBytes := le 2 ca, value := ba },
           { seq := w.drv.nextSeq.2.nextSeq.1, tag := sb.name, elements := 1, info := ib, rid := 1, path := pb,
             typeBytes := le 2 cb, value := bb }] : List WriteReq).zip
          [some (List.replicate 46 0 ++ encMRReply 0x4D {}), some (List.replicate 46 0 ++ encMRReply 0x4D {})]) =
        .ok [((0 : Nat), { tag := sa.name, value := .bytes ba, type := some ia.core.dataTypeName, error := none }),
             ((1 : Nat), { tag := sb.name, value := .bytes bb, type := some ib.core.dataTypeName, error := none })] := by
      simp only [List.zip_cons_cons, List.zip_nil_right, multiWriteResults, hpad', if_true]
      rfl
    rw [hmr]
    dsimp only
    unfold sendRequests
    dsimp only [fanOutRmw, List.isEmpty_cons, Bool.false_eq_true, if_false, List.map_cons, List.map_nil]
    have hresa := ldw2_writeResult_get (ldw2_parsedAt 0 sa.name ia va) ia
      { tag := sa.name, value := .bytes ba, type := some ia.core.dataTypeName, error := none }
      [((0 : Nat), { tag := sa.name, value := .bytes ba, type := some ia.core.dataTypeName, error := none }),
       ((1 : Nat), { tag := sb.name, value := .bytes bb, type := some ib.core.dataTypeName, error := none })]
      rfl rfl rfl rfl rfl rfl rfl
    have hresb := ldw2_writeResult_get (ldw2_parsedAt 1 sb.name ib vb) ib
      { tag := sb.name, value := .bytes bb, type := some ib.core.dataTypeName, error := none }
      [((0 : Nat), { tag := sa.name, value := .bytes ba, type := some ia.core.dataTypeName, error := none }),
       ((1 : Nat), { tag := sb.name, value := .bytes bb, type := some ib.core.dataTypeName, error := none })]
      rfl rfl rfl rfl rfl rfl rfl
    simp only [Bool.false_eq_true, if_false, List.map_cons, List.map_nil]
    rw [hresa, hresb, hinfoa.typeName, hinfob.typeName]
    rfl
  · rw [hext2]

end Pycomm.Lgx.Drv
