/-
  Helper lemmas for C10: in every reachable state the driver's socket and the TCP connection are up or down
  together, and a target whose TCP connection is down holds no session; fault plan, policy and the positivity
  of the session counter are kept by every call.
-/
import PycommProofs.LCInv
import PycommProofs.LCBasic
namespace Pycomm.Cli
open Pycomm.Tgt Pycomm.Encap Pycomm.Path Pycomm.Reply Pycomm.EN

/-! ### the target keeps its policy and a positive session counter, whatever it is sent -/

/-- policy kept, session counter stays positive -/
def lci_Pol (b b' : Base) : Prop := b'.policy = b.policy ∧ (0 < b.nextSession → 0 < b'.nextSession)

theorem lci_Pol_refl (b : Base) : lci_Pol b b := ⟨rfl, id⟩
theorem lci_Pol_trans {a b c : Base} (h1 : lci_Pol a b) (h2 : lci_Pol b c) : lci_Pol a c :=
  ⟨h2.1.trans h1.1, fun h => h2.2 (h1.2 h)⟩
theorem lci_Pol_event (b : Base) (e : Event) : lci_Pol b (b.event e) := ⟨rfl, id⟩

theorem lci_forwardOpen_pol (b : Base) (s : Nat) (l : Bool) (d : Bytes) : lci_Pol b (Tgt.forwardOpen b s l d).1 := by
  generalize hbr : Tgt.forwardOpen b s l d = br
  unfold Tgt.forwardOpen at hbr
  split at hbr
  · subst hbr; exact lci_Pol_event _ _
  · dsimp only at hbr
    generalize (if l = true then b.policy.largeFoOk else b.policy.stdFoOk) = allowed at hbr
    split at hbr
    · subst hbr; exact lci_Pol_event _ _
    · split at hbr
      · subst hbr; exact lci_Pol_event _ _
      · split at hbr
        · subst hbr; exact lci_Pol_event _ _
        · subst hbr; exact ⟨rfl, id⟩

theorem lci_baseObject_pol (b b' : Base) (req : MRReq) (r : MRReply) (h : baseObject b req = some (b', r)) :
    lci_Pol b b' := by
  unfold baseObject at h
  split at h
  · split at h <;> (cases h; exact lci_Pol_refl _)
  · split at h <;> (cases h; exact lci_Pol_refl _)
  · split at h
    · cases h; exact lci_Pol_refl _
    · split at h
      · simp only [Option.some.injEq] at h
        unfold wallClockSet at h
        split at h <;> (cases h; exact ⟨rfl, id⟩)
      · cases h; exact lci_Pol_refl _
  · cases h

theorem lci_execMR_pol {σ} (hook : ObjHook σ) (hh : lci_HookOk hook) (t : Target σ) (s : Nat) (cs : Option Nat)
    (conn ucs : Bool) (route msg : Bytes) : lci_Pol t.base (execMR hook t s cs conn ucs route msg).1.base := by
  unfold execMR
  split
  · exact lci_Pol_event _ _
  · rename_i req hreq
    have h0 : lci_Pol t.base (t.base.event (.mr conn ucs req route)) := lci_Pol_event _ _
    dsimp only
    split
    · split
      · exact h0
      · split
        · exact lci_Pol_trans h0 (lci_forwardOpen_pol _ _ _ _)
        · split
          · obtain ⟨e1, e2, _⟩ := lc_tgt_forwardClose_same (t.base.event (.mr conn ucs req route)) req.data
            exact lci_Pol_trans h0 ⟨e1, fun h => by rw [e2]; exact h⟩
          · exact h0
    · split
      · rename_i b r hb
        exact lci_Pol_trans h0 (lci_baseObject_pol _ _ _ _ hb)
      · split
        · rename_i t' r ht
          obtain ⟨_, _, e3, e4, _⟩ := hh _ _ _ _ _ ht
          exact lci_Pol_trans h0 ⟨e3, fun h => by rw [e4]; exact h⟩
        · exact h0

theorem lci_handle_pol {σ} (hook : ObjHook σ) (hh : lci_HookOk hook) (t : Target σ) (raw : Bytes) :
    lci_Pol t.base (handle hook t raw).1.base := by
  unfold handle
  cases hp : parseFrame raw with
  | none => exact lci_Pol_event _ _
  | some f =>
    simp only []
    by_cases h1 : f.status ≠ 0 ∨ f.options ≠ 0
    · rw [if_pos h1]; exact lci_Pol_event _ _
    rw [if_neg h1]
    by_cases h2 : f.command = CMD_REGISTER
    · rw [if_pos h2]
      split
      · exact lci_Pol_event _ _
      · split
        · exact lci_Pol_event _ _
        · split
          · exact lci_Pol_event _ _
          · refine ⟨rfl, fun _ => ?_⟩
            show 0 < nextHandle t.base.nextSession
            unfold nextHandle
            split
            · decide
            · omega
    rw [if_neg h2]
    by_cases h3 : f.command = CMD_LIST_IDENTITY
    · rw [if_pos h3]
      split
      · exact lci_Pol_event _ _
      · exact lci_Pol_event _ _
    rw [if_neg h3]
    by_cases h4 : f.command = CMD_UNREGISTER
    · rw [if_pos h4]
      split
      · exact lci_Pol_event _ _
      · split
        · exact lci_Pol_event _ _
        · exact ⟨rfl, id⟩
    rw [if_neg h4]
    by_cases h5 : f.command = CMD_SEND_RR
    · rw [if_pos h5]
      split
      · exact lci_Pol_event _ _
      · split
        · split
          · split
            · exact ⟨rfl, id⟩
            · exact lci_Pol_trans (lci_Pol_event _ _) (lci_execMR_pol hook hh ⟨_, t.ext⟩ _ _ _ _ _ _)
          · exact lci_Pol_trans (lci_Pol_event _ _) (lci_execMR_pol hook hh ⟨_, t.ext⟩ _ _ _ _ _ _)
        · exact lci_Pol_event _ _
    rw [if_neg h5]
    by_cases h6 : f.command = CMD_SEND_UNIT
    · rw [if_pos h6]
      split
      · exact lci_Pol_event _ _
      · split
        · rename_i cid seq msg hcpf
          split
          · exact lci_Pol_event _ _
          · rename_i c hc
            have q : ∀ (b : Base) (p : Prop) [Decidable p] (e : Event), lci_Pol b (if p then b.event e else b) := by
              intro b p _ e; split
              · exact lci_Pol_event _ _
              · exact lci_Pol_refl _
            have q7 : ∀ (t1 : Target σ) (p : Prop) [Decidable p] (e : Event),
                lci_Pol t1.base (if p then { t1 with base := t1.base.event e } else t1).base := by
              intro t1 p _ e; split
              · exact lci_Pol_event _ _
              · exact lci_Pol_refl _
            by_cases hlen : msg.length + 2 > c.size
            · by_cases hseq : (c.lastSeq == some seq) = true
              · simp only [hlen, hseq, if_true]
                exact ⟨rfl, id⟩
              · simp only [hlen, hseq, if_true]
                exact ⟨rfl, id⟩
            · by_cases hseq : (c.lastSeq == some seq) = true
              · simp only [hlen, hseq, if_true, if_false]
                refine lci_Pol_trans (lci_Pol_trans ?_ (lci_execMR_pol hook hh ⟨_, t.ext⟩ f.session (some (c.size - 2)) true false [] msg)) (q7 _ _ _)
                exact ⟨rfl, id⟩
              · simp only [hlen, hseq, if_false]
                refine lci_Pol_trans (lci_Pol_trans ?_ (lci_execMR_pol hook hh ⟨_, t.ext⟩ f.session (some (c.size - 2)) true false [] msg)) (q7 _ _ _)
                exact ⟨rfl, id⟩
        · exact lci_Pol_event _ _
    · rw [if_neg h6]; exact lci_Pol_event _ _

/-! ### what a call that does not open or close the socket keeps -/

/-- a step of the world that leaves the socket as it is -/
def lci_NStep {σ} (w w' : World σ) : Prop :=
  w'.drv.hasSock = w.drv.hasSock ∧ w'.net.faults = w.net.faults ∧ w'.net.tcpOpen = w.net.tcpOpen ∧
  lci_Pol w.net.target.base w'.net.target.base ∧
  (w.drv.hasSock = false → w'.net.target.base.sessions = w.net.target.base.sessions)

theorem lci_NStep_refl {σ} (w : World σ) : lci_NStep w w := ⟨rfl, rfl, rfl, lci_Pol_refl _, fun _ => rfl⟩

theorem lci_NStep_trans {σ} {a b c : World σ} (h1 : lci_NStep a b) (h2 : lci_NStep b c) : lci_NStep a c := by
  obtain ⟨a1, a2, a3, a4, a5⟩ := h1
  obtain ⟨b1, b2, b3, b4, b5⟩ := h2
  exact ⟨b1.trans a1, b2.trans a2, b3.trans a3, lci_Pol_trans a4 b4, fun h => (b5 (a1.trans h)).trans (a5 h)⟩

/-- changing driver attributes other than the socket -/
theorem lci_NStep_drv {σ} (w w' : World σ) (d : Drv) (h : lci_NStep w w') (hd : d.hasSock = w'.drv.hasSock) :
    lci_NStep w { w' with drv := d } := by
  obtain ⟨a1, a2, a3, a4, a5⟩ := h
  exact ⟨hd.trans a1, a2, a3, a4, a5⟩

theorem lci_NStep_sendReq {σ} (hook : ObjHook σ) (hh : lci_HookOk hook) (w : World σ) (r : Req) (nr : Bool) :
    lci_NStep w (sendReq hook w r nr).1 := by
  obtain ⟨hd, hn⟩ := lc_sendReq_world hook w r nr
  rcases hn with hn | ⟨frame, _, hs, h1, h2, h3⟩
  · exact ⟨by rw [hd], by rw [hn], by rw [hn], by rw [hn]; exact lci_Pol_refl _, fun _ => by rw [hn]⟩
  · refine ⟨by rw [hd], h1, h2, ?_, fun h => by rw [hs] at h; cases h⟩
    rcases h3 with h3 | h3
    · rw [h3]; exact lci_Pol_refl _
    · rw [h3]; exact lci_handle_pol hook hh _ _

theorem lci_NStep_register {σ} (hook : ObjHook σ) (hh : lci_HookOk hook) (w : World σ) :
    lci_NStep w (registerSession hook w).1 := by
  have hs := lci_NStep_sendReq hook hh w (.registerSession [1, 0] [0, 0]) false
  unfold registerSession
  split
  · split
    · exact lci_NStep_refl _
    · simp only []
      split
      · exact hs
      · split
        · exact lci_NStep_drv _ _ _ hs rfl
        · exact hs
  · simp only []
    split
    · exact hs
    · split
      · exact lci_NStep_drv _ _ _ hs rfl
      · exact hs

/-- forward open / the decorator / generic_message, by induction on the fuel -/
theorem lci_NStep_mutual {σ} (hook : ObjHook σ) (hh : lci_HookOk hook) (fuel : Nat) :
    (∀ w : World σ, lci_NStep w (forwardOpen hook fuel w).1) ∧
    (∀ w : World σ, lci_NStep w (ensureForwardOpen hook fuel w).1) ∧
    (∀ (w : World σ) (a : GenArgs), lci_NStep w (genericMessage hook fuel w a).1) := by
  induction fuel with
  | zero =>
    refine ⟨fun w => ?_, fun w => ?_, fun w a => ?_⟩
    · unfold forwardOpen; exact lci_NStep_refl _
    · unfold ensureForwardOpen; exact lci_NStep_refl _
    · unfold genericMessage; exact lci_NStep_refl _
  | succ fuel ih =>
    obtain ⟨ihF, ihE, ihG⟩ := ih
    refine ⟨fun w => ?_, fun w => ?_, fun w a => ?_⟩
    · generalize hr : forwardOpen hook (fuel + 1) w = r
      unfold forwardOpen at hr
      split at hr
      · subst hr; exact lci_NStep_refl _
      split at hr
      · subst hr; exact lci_NStep_refl _
      simp only [] at hr
      split at hr
      · generalize hgg : genericMessage hook fuel w _ = g at hr
        have hg : lci_NStep w g.1 := hgg ▸ ihG w _
        clear hgg
        obtain ⟨w1, r1⟩ := g
        cases r1 with
        | error e => simp only [] at hr; subst hr; exact hg
        | ok tag =>
          simp only [] at hr
          split at hr
          · subst hr; exact lci_NStep_drv _ _ _ hg rfl
          · subst hr; exact hg
      · subst hr; exact lci_NStep_refl _
    · generalize hr : ensureForwardOpen hook (fuel + 1) w = r
      unfold ensureForwardOpen at hr
      split at hr
      · subst hr; exact lci_NStep_refl _
      have h1 := ihF w
      generalize forwardOpen hook fuel w = r1 at hr h1
      obtain ⟨w1, o1⟩ := r1
      cases o1 with
      | error e => simp only [] at hr; subst hr; exact h1
      | ok b =>
        cases b with
        | true => simp only [] at hr; subst hr; exact h1
        | false =>
          simp only [] at hr
          split at hr
          · have h2 := ihF ({ w1 with drv := { w1.drv with extendedFo := false, connectionSize := 500 } } : World σ)
            have h12 := lci_NStep_trans (lci_NStep_drv _ _ { w1.drv with extendedFo := false, connectionSize := 500 } h1 rfl) h2
            generalize forwardOpen hook fuel _ = r2 at hr h12
            obtain ⟨w3, o3⟩ := r2
            cases o3 with
            | error e => simp only [] at hr; subst hr; exact h12
            | ok b => cases b <;> (simp only [] at hr; subst hr; exact h12)
          · subst hr; exact h1
    · generalize hr : genericMessage hook (fuel + 1) w a = r
      unfold genericMessage at hr
      have h0 : lci_NStep w (if a.connected = true then ensureForwardOpen hook fuel w else (w, Except.ok ())).1 := by
        split
        · exact ihE w
        · exact lci_NStep_refl _
      generalize (if a.connected = true then ensureForwardOpen hook fuel w else (w, Except.ok ())) = p0 at hr h0
      obtain ⟨w0, pre⟩ := p0
      cases pre with
      | error e => simp only [] at hr; subst hr; exact h0
      | ok u =>
        simp only [] at hr
        split at hr
        · subst hr; exact h0
        rename_i reqPath _
        split at hr
        · have hs := lci_NStep_trans (lci_NStep_drv _ _ w0.drv.nextSeq.2 h0 rfl)
            (lci_NStep_sendReq hook hh ({ w0 with drv := w0.drv.nextSeq.2 } : World σ)
              (.sendUnit w0.drv.nextSeq.1 ([UInt8.ofNat a.service] ++ reqPath ++ a.data)) false)
          split at hr
          · subst hr; exact hs
          · split at hr <;> (subst hr; exact hs)
        · split at hr
          · subst hr; exact h0
          split at hr
          · subst hr; exact h0
          rename_i m _
          have hs := lci_NStep_trans h0 (lci_NStep_sendReq hook hh w0 (.sendRR m) false)
          split at hr
          · subst hr; exact hs
          · split at hr <;> (subst hr; exact hs)

/-! ### the idle invariant -/

/-- socket and TCP connection are up or down together; a target whose TCP connection is down holds no session;
    fault plan `F` and policy `P` are those of the start; the session counter is positive -/
structure lci_Net (F : List Fault) (P : Policy) {σ} (w : World σ) : Prop where
  faults : w.net.faults = F
  pol : w.net.target.base.policy = P
  ns0 : 0 < w.net.target.base.nextSession
  sock : w.drv.hasSock = w.net.tcpOpen
  idle : w.net.tcpOpen = false → w.net.target.base.sessions = []

theorem lci_Net_step {F : List Fault} {P : Policy} {σ} {w w' : World σ} (h : lci_Net F P w) (hs : lci_NStep w w') :
    lci_Net F P w' := by
  obtain ⟨a1, a2, a3, a4, a5⟩ := hs
  refine ⟨a2.trans h.faults, a4.1.trans h.pol, a4.2 h.ns0, by rw [a1, a3]; exact h.sock, ?_⟩
  intro ht
  rw [a3] at ht
  rw [a5 (by rw [h.sock]; exact ht)]
  exact h.idle ht

theorem lci_Net_open {F : List Fault} {P : Policy} {σ} (hook : ObjHook σ) (hh : lci_HookOk hook) (w : World σ)
    (rnd : Bytes) (h : lci_Net F P w) : lci_Net F P (openDrv hook w rnd).1 := by
  unfold openDrv
  split
  · exact h
  · simp only []
    have h1 : lci_Net F P ({ drv := { w.drv with hasSock := true, connectionOpened := true, cid := rnd.take 4, vsn := (rnd.drop 4).take 4 }, net := { w.net with tcpOpen := true, pending := if w.drv.hasSock then w.net.pending else [] } } : World σ) :=
      ⟨h.faults, h.pol, h.ns0, rfl, fun ht => by cases ht⟩
    have h2 := lci_Net_step h1 (lci_NStep_register hook hh _)
    generalize registerSession hook _ = res at h2 ⊢
    obtain ⟨w2, r⟩ := res
    cases r with
    | error e => exact h2
    | ok o => cases o <;> exact h2

theorem lci_Net_close {F : List Fault} {P : Policy} {σ} (hook : ObjHook σ) (w : World σ)
    (hc : w.drv.context.length = 8) (h : lci_Net F P w) : lci_Net F P (closeDrv hook w).1 := by
  obtain ⟨a1, _, _, a4, a5, a6, a7⟩ := lc_closeTry_keep hook w
  obtain ⟨t1, t2, t3⟩ := a7 hc
  rw [lc_closeDrv_eq]
  simp only []
  generalize lcCloseTry hook w = p at a1 a4 a5 a6 t1 t2 t3
  obtain ⟨w1, e1⟩ := p
  simp only [] at a1 a4 a5 a6 t1 t2 t3 ⊢
  by_cases hs : w.drv.hasSock = true
  · have hto : w1.net.tcpOpen = true := by rw [a5, ← h.sock]; exact hs
    simp only [a1, hs, if_true]
    unfold Net.sockClose
    simp only [hto, if_true]
    exact ⟨a4.trans h.faults, t1.trans h.pol, by show 0 < w1.net.target.base.nextSession; rw [t2]; exact h.ns0, rfl, fun _ => rfl⟩
  · have hs : w.drv.hasSock = false := by simpa using hs
    simp only [a1, hs, Bool.false_eq_true, if_false]
    rw [a6 hs]
    exact ⟨h.faults, h.pol, h.ns0, by show false = w.net.tcpOpen; rw [← h.sock]; exact hs.symm, h.idle⟩

end Pycomm.Cli
