/-
  C01 / C03 at the driver level, ANY number of requests of MIXED SHAPES in one call: `LogixDriver.read(t1, …, tn)`
  (n ≥ 2) where every request is, independently, a scalar tag, an array element `a[i]`, a slice `a[i]{k}` / `a{k}`, an
  integer bit `t.b`, a BOOL-array element, a structure member by a dotted path of any depth (elementary or BOOL leaf),
  a string tag, a whole flat structure, a program-scoped scalar `Program:P.t`, or an element beyond an array (refused
  by the controller) — through the whole stack of the model (tag-string parsing, `_read_build_multi_requests` with its
  grouping into Multiple Service Packets, `CIPDriver.send`, encapsulation, the reference target's encapsulation layer /
  message router / Logix services executing the embedded requests in order, reply framing,
  `MultiServiceResponsePacket`, the embedded response classes, value decoding, the results table, result assembly
  with its bit / BOOL-array post-processing).

  Generalises `read_n_items_e2e` / `read_n_tags_isolated_e2e` (LogixDriverReadN: scalar tags and refused elements
  only) to all the shapes the single-request theorems of LogixDriverRead, LogixDriverRead2–4, LogixDriverBoolArr and
  LogixDriverProgram cover, as long as each request alone fits a multi-service packet.

  Layers (lemmas usable on their own):
    LDMix1  `ldmx_Ent` (entry with `plc_tag`, element count, bit number), `ldmx_parse`, `ldmx_buildLive`, `ldmx_groups`,
            `ldmx_build`, facts about the groups (`ldmx_groups_flatten`, `_nonempty`, `_fit`, `_one`)
    LDMix2  `ldmx_EntOk`, `ldmx_mrr_table`, `ldmx_table_get`, `ldmx_results`, composed `ldmx_read_general`
    LDMix3  `ldmx_served_ok` (any resolvable location), `ldmx_refused_ok`, `ldmx_readResult_bit`, `ldmx_readResult_dword`
    LDMix4  `ldmx_ofN` (entries of LDReadN5), `ldmx_Win` (elements / slices), `ldmx_Bit`, `ldmx_BoolEl`
    LDMix5  `ldmx_levels_ok`, `ldmx_Member`, `ldmx_BoolMember`
    LDMix6  `ldmx_StructTag`, `ldmx_Str`, `ldmx_Struct`, `ldmx_Prog`
-/
import PycommProofs.LDMix6
import PycommProofs.LogixDriverReadN
namespace Pycomm.Lgx.Drv
open Pycomm Pycomm.Tgt Pycomm.Path Pycomm.Reply Pycomm.Encap Pycomm.Lgx Pycomm.Lgx.E2E

/-! ### the array-window kinds as written by the caller -/

/-- `name[i]`: one element of a one-dimensional array of an elementary type -/
structure ldmx_El where
  s : Symbol
  info : TagInfo
  c : Nat
  sz : Nat
  dim : Nat
  i : Nat
  name : Name
  t : Ty
  v : PyVal
  rest : Bytes

def ldmx_El.toWin (x : ldmx_El) : ldmx_Win :=
  { s := x.s, info := x.info, c := x.c, sz := x.sz, dim := x.dim, idx := [x.i], i := x.i, cnt := none, name := x.name,
    t := x.t, vs := [x.v] }

/-- the hypotheses of `read_atomic_element_e2e` on one request -/
structure ldmx_ElOk (cfg : Cfg) (st : LState) (x : ldmx_El) : Prop where
  mem : x.s ∈ st.proj.controller
  uniqN : ∀ s' ∈ st.proj.controller, s'.name = x.s.name → s' = x.s
  uniqI : ∀ s' ∈ st.proj.controller, s'.inst = x.s.inst → s' = x.s
  ident : PlainIdent x.s.name
  inst32 : x.s.inst < 2 ^ 32
  ty : elTyOfWord x.s.symbolType = .atomic x.c
  atomic : atomicOfCode x.c = some (x.name, x.t)
  notBits : x.t.isBits = none
  size : atomicSize x.c = some x.sz
  dims : x.s.dims.filter (· != 0) = [x.dim]
  memLen : x.s.mem.length = x.dim * x.sz
  get : cfg.tags.get? x.s.name = some x.info
  infoOf : ldr_InfoOf x.info x.name (.arr (.fixed x.dim) x.t) x.s.inst
  inside : x.i < x.dim
  i32 : x.i < 2 ^ 32
  dec : decode x.t (x.s.mem.drop (x.i * x.sz)) = .ok (x.v, x.rest)

theorem ldmx_el_winOk (cfg : Cfg) (st : LState) (x : ldmx_El) (h : ldmx_ElOk cfg st x) : ldmx_WinOk cfg st x.toWin := by
  have hi := h.inside
  refine ⟨h.mem, h.uniqN, h.uniqI, h.ident, h.inst32, h.ty, h.atomic, h.notBits, h.size, h.dims, h.memLen, h.get, h.infoOf,
    Or.inl rfl, h.i32, Nat.le_refl 1, by show (1 : Nat) ≤ 65535; decide, by show x.i + 1 ≤ x.dim; omega, rfl, ?_⟩
  intro k hk
  have hk0 : k = 0 := by
    have : k < 1 := hk
    omega
  subst hk0
  exact ⟨x.rest, by simpa [ldmx_El.toWin] using h.dec⟩

/-- `name[i]{n}` (`fromStart = false`) or `name{n}` (`fromStart = true`, then `i = 0`): `n` elements of a
    one-dimensional array of an elementary type -/
structure ldmx_Slice where
  s : Symbol
  info : TagInfo
  c : Nat
  sz : Nat
  dim : Nat
  fromStart : Bool
  i : Nat
  n : Nat
  name : Name
  t : Ty
  vs : List PyVal

def ldmx_Slice.toWin (x : ldmx_Slice) : ldmx_Win :=
  { s := x.s, info := x.info, c := x.c, sz := x.sz, dim := x.dim, idx := if x.fromStart then [] else [x.i], i := x.i,
    cnt := some x.n, name := x.name, t := x.t, vs := x.vs }

/-- the hypotheses of `read_atomic_slice_e2e` / `read_atomic_slice0_e2e` on one request -/
structure ldmx_SliceOk (cfg : Cfg) (st : LState) (x : ldmx_Slice) : Prop where
  mem : x.s ∈ st.proj.controller
  uniqN : ∀ s' ∈ st.proj.controller, s'.name = x.s.name → s' = x.s
  uniqI : ∀ s' ∈ st.proj.controller, s'.inst = x.s.inst → s' = x.s
  ident : PlainIdent x.s.name
  inst32 : x.s.inst < 2 ^ 32
  ty : elTyOfWord x.s.symbolType = .atomic x.c
  atomic : atomicOfCode x.c = some (x.name, x.t)
  notBits : x.t.isBits = none
  size : atomicSize x.c = some x.sz
  dims : x.s.dims.filter (· != 0) = [x.dim]
  memLen : x.s.mem.length = x.dim * x.sz
  get : cfg.tags.get? x.s.name = some x.info
  infoOf : ldr_InfoOf x.info x.name (.arr (.fixed x.dim) x.t) x.s.inst
  start0 : x.fromStart = true → x.i = 0
  i32 : x.i < 2 ^ 32
  n1 : 1 ≤ x.n
  n16 : x.n ≤ 65535
  inside : x.i + x.n ≤ x.dim
  vsLen : x.vs.length = x.n
  dec : ∀ k (h : k < x.vs.length), ∃ rest, decode x.t (x.s.mem.drop ((x.i + k) * x.sz)) = .ok (x.vs[k], rest)

theorem ldmx_slice_winOk (cfg : Cfg) (st : LState) (x : ldmx_Slice) (h : ldmx_SliceOk cfg st x) :
    ldmx_WinOk cfg st x.toWin := by
  refine ⟨h.mem, h.uniqN, h.uniqI, h.ident, h.inst32, h.ty, h.atomic, h.notBits, h.size, h.dims, h.memLen, h.get, h.infoOf,
    ?_, h.i32, h.n1, h.n16, h.inside, h.vsLen, h.dec⟩
  show (if x.fromStart then [] else [x.i]) = [x.i] ∨ ((if x.fromStart then [] else [x.i]) = [] ∧ x.i = 0)
  cases hfs : x.fromStart with
  | true => exact Or.inr ⟨rfl, h.start0 hfs⟩
  | false => exact Or.inl rfl

/-! ### estimates and packet messages with element counts -/

/-- the driver's estimate of the reply to the read of `n` elements of `plcTag` (`_tag_return_size(tag_data)` +
    `len(request.message)` + 2), the number the grouping loop of `_read_build_multi_requests` adds up; for `n = 1` it is
    `readEstimate` -/
def readEstimateN (cfg : Cfg) (plcTag : Name) (info : TagInfo) (n : Nat) : Nat :=
  tagReturnSize info n + (2 + (Cl.readMsg (ldrn_pathOf cfg plcTag info) n).length) + 2

theorem readEstimateN_one (cfg : Cfg) (tag : Name) (info : TagInfo) : readEstimateN cfg tag info 1 = readEstimate cfg tag info := rfl

/-- the Multiple Service Packet messages of a call with the given (addressed tag, tag-database entry, element count)
    triples on a connection of size `C`: per packet of `readPackets`, service 0x0A to the message router embedding the
    Read Tag messages of the requests of that packet, in order (`readPacketMsgs` with element counts) -/
def readMixedMsgs (cfg : Cfg) (C : Nat) (reqs : List (Name × TagInfo × Nat)) : List Bytes :=
  (readPackets C (reqs.map fun r => readEstimateN cfg r.1 r.2.1 r.2.2)).map fun g =>
    Cl.multiMsg (g.filterMap fun i => (reqs[i]?).map fun r => Cl.readMsg (ldrn_pathOf cfg r.1 r.2.1) r.2.2)

/-- for one-element requests `readMixedMsgs` is `readPacketMsgs` -/
theorem readMixedMsgs_one (cfg : Cfg) (C : Nat) (reqs : List (Name × TagInfo)) :
    readMixedMsgs cfg C (reqs.map fun r => (r.1, r.2, 1)) = readPacketMsgs cfg C reqs := by
  unfold readMixedMsgs readPacketMsgs
  rw [List.map_map]
  apply List.map_congr_left
  intro g _
  congr 1
  apply ldrn_filterMap_congr
  intro i _
  rw [List.getElem?_map, Option.map_map]
  rfl

theorem ldmx_kitems_range (d : Cli.Drv) (k : Nat) (es : List ldmx_Ent) :
    ldmx_kitems (ldmx_reqs d k es) =
      ((List.range' k es.length).zip (es.map ldmx_estE)).map
        fun p => ({ id := p.1, error := false, size := p.2 } : K.Item) := by
  induction es generalizing d k with
  | nil => rfl
  | cons e es ih =>
    rw [ldmx_reqs, List.length_cons, List.range'_succ, List.map_cons, List.zip_cons_cons, List.map_cons, ← ih]
    rfl

theorem ldmx_groups_count (C : Nat) (d : Cli.Drv) (es : List ldmx_Ent) :
    (ldmx_groups C (ldmx_reqs d 0 es)).length = (readPackets C (es.map ldmx_estE)).length := by
  unfold ldmx_groups readPackets
  rw [List.length_map, ldmx_kitems_range, List.length_map, List.range_eq_range']

theorem ldmx_find_msg (d : Cli.Drv) (k : Nat) (es : List ldmx_Ent) (i : Nat) :
    ((ldmx_reqs d k es).find? (·.rid == k + i)).map ldrn_msg = (es[i]?).map fun e => Cl.readMsg e.path e.els := by
  induction es generalizing d k i with
  | nil => rfl
  | cons e es ih =>
    rw [ldmx_reqs, List.find?_cons]
    cases i with
    | zero => simp [ldrn_msg]
    | succ i =>
      have hne : (k == k + (i + 1)) = false := by simp
      simp only [hne, List.getElem?_cons_succ]
      have := ih d.nextSeq.2 (k + 1) i
      rw [show k + 1 + i = k + (i + 1) by omega] at this
      exact this

theorem ldmx_reqs_msgs (d : Cli.Drv) (k : Nat) (es : List ldmx_Ent) :
    (ldmx_reqs d k es).map ldrn_msg = es.map fun e => Cl.readMsg e.path e.els := by
  induction es generalizing d k with
  | nil => rfl
  | cons e es ih => rw [ldmx_reqs, List.map_cons, ih, List.map_cons]; rfl

-- PROPERTY THEOREMS

/-! ### the item type -/

/-- one request of the call -/
inductive ldmx_Item where
  /-- a controller-scope elementary scalar tag `name` -/
  | scalar (x : ldrn_Scalar)
  /-- an array element `name[i]` -/
  | elem (x : ldmx_El)
  /-- an array slice `name[i]{n}` / `name{n}` that fits one reply -/
  | slice (x : ldmx_Slice)
  /-- a bit `name.b` of an integer tag -/
  | bit (x : ldmx_Bit)
  /-- an element `name[i]` of a BOOL array -/
  | boolElem (x : ldmx_BoolEl)
  /-- a structure member by a dotted path `tag[i].m1[j]. … .leaf`, elementary leaf -/
  | member (x : ldmx_Member)
  /-- … BOOL leaf -/
  | boolMember (x : ldmx_BoolMember)
  /-- a string tag -/
  | string (x : ldmx_Str)
  /-- a whole flat structure tag -/
  | struct (x : ldmx_Struct)
  /-- a program-scoped elementary scalar `Program:P.t` -/
  | prog (x : ldmx_Prog)
  /-- an element `name[i]` beyond the array: refused by the controller -/
  | oob (y : ldrn_Elem)

/-- what the layers compute for it -/
def ldmx_Item.ent (cfg : Cfg) : ldmx_Item → ldmx_Ent
  | .scalar x => ldmx_ofN (ldrn_entScalar cfg x)
  | .elem x => ldmx_entWin cfg x.toWin
  | .slice x => ldmx_entWin cfg x.toWin
  | .bit x => ldmx_entBit cfg x
  | .boolElem x => ldmx_entBoolEl cfg x
  | .member x => ldmx_entMember cfg x
  | .boolMember x => ldmx_entBoolMember cfg x
  | .string x => ldmx_entStructTag cfg x.toTag
  | .struct x => ldmx_entStructTag cfg x.toTag
  | .prog x => ldmx_entProg cfg x
  | .oob y => ldmx_ofN (ldrn_entOob cfg y)

/-- the request string as the caller writes it (spelled out in `read_mixed_request_strings`) -/
def ldmx_Item.request : ldmx_Item → Name
  | .scalar x => x.s.name
  | .elem x => x.toWin.request
  | .slice x => x.toWin.request
  | .bit x => x.request
  | .boolElem x => x.request
  | .member x => x.request
  | .boolMember x => x.request
  | .string x => x.s.name
  | .struct x => x.s.name
  | .prog x => x.request
  | .oob y => y.request

/-- the tag the Read Tag service addresses (`plc_tag`): the request string without element count and bit number; for a
    BOOL-array element the first DWORD `name[0]` -/
def ldmx_Item.plcTag : ldmx_Item → Name
  | .scalar x => x.s.name
  | .elem x => x.toWin.plc
  | .slice x => x.toWin.plc
  | .bit x => x.s.name
  | .boolElem x => renderLevel ⟨x.s.name, [0]⟩
  | .member x => x.request
  | .boolMember x => x.request
  | .string x => x.s.name
  | .struct x => x.s.name
  | .prog x => x.request
  | .oob y => y.request

/-- the element count of the Read Tag service: `n` for a slice, the number of DWORDs up to the one holding the bit for
    a BOOL-array element, 1 otherwise -/
def ldmx_Item.elements : ldmx_Item → Nat
  | .slice x => x.n
  | .boolElem x => x.words
  | _ => 1

/-- the tag-database entry the request is parsed against (for a member path: the entry of the leaf) -/
def ldmx_Item.info : ldmx_Item → TagInfo
  | .scalar x => x.info
  | .elem x => x.info
  | .slice x => x.info
  | .bit x => x.info
  | .boolElem x => x.info
  | .member x => x.leaf
  | .boolMember x => x.leaf
  | .string x => x.info
  | .struct x => x.info
  | .prog x => x.info
  | .oob y => y.info

/-- the Tag `read` returns for it: the name as requested (a slice WITHOUT its `{n}`), the value from the controller's
    memory per the reference interpretation of the single-request theorems, the type name, no error; a falsy Tag
    carrying the controller's status text for an element beyond the array -/
def ldmx_Item.out : ldmx_Item → LTag
  | .scalar x => x.out
  | .elem x => x.toWin.out
  | .slice x => x.toWin.out
  | .bit x => x.out
  | .boolElem x => x.out
  | .member x => x.out
  | .boolMember x => x.out
  | .string x => x.toTag.out
  | .struct x => x.toTag.out
  | .prog x => x.out
  | .oob y => ldx_oobTag y.request

/-- how many Read Tag services the controller completes for it -/
def ldmx_Item.served : ldmx_Item → Nat
  | .oob _ => 0
  | _ => 1

/-- the hypotheses on it: those of the corresponding single-request theorem (without the size conditions) -/
def ldmx_Item.Ok (cfg : Cfg) (st : LState) : ldmx_Item → Prop
  | .scalar x => ldrn_ScalarOk cfg st x
  | .elem x => ldmx_ElOk cfg st x
  | .slice x => ldmx_SliceOk cfg st x
  | .bit x => ldmx_BitOk cfg st x
  | .boolElem x => ldmx_BoolElOk cfg st x
  | .member x => ldmx_MemberOk cfg st x
  | .boolMember x => ldmx_BoolMemberOk cfg st x
  | .string x => ldmx_StrOk cfg st x
  | .struct x => ldmx_StructOk cfg st x
  | .prog x => ldmx_ProgOk cfg st x
  | .oob y => ldrn_ElemOob cfg st y

/-- the driver's estimate for an item -/
def ldmx_Item.estimate (cfg : Cfg) (it : ldmx_Item) : Nat := readEstimateN cfg it.plcTag it.info it.elements

private theorem ldmx_ent_tag (cfg : Cfg) (it : ldmx_Item) : (it.ent cfg).tag = it.request := by cases it <;> rfl

private theorem ldmx_ent_res (cfg : Cfg) (it : ldmx_Item) : (it.ent cfg).res = it.out := by cases it <;> rfl

private theorem ldmx_ent_adv (cfg : Cfg) (it : ldmx_Item) : (it.ent cfg).adv = it.served := by cases it <;> rfl

private theorem ldmx_ent_est (cfg : Cfg) (it : ldmx_Item) : ldmx_estE (it.ent cfg) = it.estimate cfg := by cases it <;> rfl

private theorem ldmx_ent_msg (cfg : Cfg) (it : ldmx_Item) :
    Cl.readMsg (it.ent cfg).path (it.ent cfg).els = Cl.readMsg (ldrn_pathOf cfg it.plcTag it.info) it.elements := by
  cases it <;> rfl

/-- the messages of the groups are `readMixedMsgs` -/
private theorem ldmx_groups_msgs (cfg : Cfg) (C : Nat) (d : Cli.Drv) (its : List ldmx_Item) :
    (ldmx_groups C (ldmx_reqs d 0 (its.map (·.ent cfg)))).map (fun g => Cl.multiMsg (g.map ldrn_msg)) =
      readMixedMsgs cfg C (its.map fun it => (it.plcTag, it.info, it.elements)) := by
  have hests : ((its.map (·.ent cfg)).map ldmx_estE) =
      (its.map fun it => (it.plcTag, it.info, it.elements)).map fun r => readEstimateN cfg r.1 r.2.1 r.2.2 := by
    rw [List.map_map, List.map_map]; apply List.map_congr_left; intro it _
    exact ldmx_ent_est cfg it
  unfold ldmx_groups readMixedMsgs readPackets
  rw [ldmx_kitems_range, List.map_map, List.length_map, hests, List.range_eq_range', List.length_map, List.length_map]
  apply List.map_congr_left
  intro g _
  simp only [Function.comp]
  rw [List.map_filterMap]
  congr 1
  apply ldrn_filterMap_congr
  intro i _
  have := ldmx_find_msg d 0 (its.map (·.ent cfg)) i
  rw [Nat.zero_add] at this
  rw [this, List.getElem?_map, List.getElem?_map, Option.map_map, Option.map_map]
  cases its[i]? with
  | none => rfl
  | some it => exact congrArg some (ldmx_ent_msg cfg it)

/-- every kind of item yields an entry the layers can work with, when its estimate fits the target's connection -/
private theorem ldmx_item_ok (cfg : Cfg) (st : LState) (cap : Nat) (it : ldmx_Item)
    (hbytes : ∀ s' ∈ st.proj.controller, ∀ ch ∈ s'.name, ch < 256)
    (hok : it.Ok cfg st) (hc : it.estimate cfg + 10 ≤ cap + 2) : ldmx_EntOk cfg st cap (it.ent cfg) := by
  rw [← ldmx_ent_est] at hc
  cases it with
  | scalar x =>
    have hx : ldrn_ScalarOk cfg st x := hok
    have h1 := (ldrn_scalar_est cfg st x hx).1
    have h2 := (ldrn_scalar_est cfg st x hx).2.1
    have hc' : readEstimate cfg x.s.name x.info + 10 ≤ cap + 2 := hc
    exact ldmx_ofN_ok cfg st cap _ (ldrn_scalar_ok cfg st cap x hbytes hx (by omega))
  | elem x => exact ldmx_win_ok cfg st cap x.toWin hbytes (ldmx_el_winOk cfg st x hok) hc
  | slice x => exact ldmx_win_ok cfg st cap x.toWin hbytes (ldmx_slice_winOk cfg st x hok) hc
  | bit x => exact ldmx_bit_ok cfg st cap x hbytes hok hc
  | boolElem x => exact ldmx_boolEl_ok cfg st cap x hbytes hok hc
  | member x => exact ldmx_member_ok cfg st cap x hbytes hok hc
  | boolMember x => exact ldmx_boolMember_ok cfg st cap x hbytes hok hc
  | string x => exact ldmx_structTag_ok cfg st cap x.toTag hbytes (ldmx_str_tagOk cfg st x hok) hc
  | struct x => exact ldmx_structTag_ok cfg st cap x.toTag hbytes (ldmx_struct_tagOk cfg st x hok) hc
  | prog x => exact ldmx_prog_ok cfg st cap x hok hc
  | oob y => exact ldmx_ofN_ok cfg st cap _ (ldrn_oob_ok cfg st cap y hbytes hok)

/-- `read` of n ≥ 2 requests of the kinds of `ldmx_Item`, none of which needs the fragmented service; `M` bounds the
    accounted size of every packet -/
private theorem ldmx_read_items (cfg : Cfg) (w : Cli.World Ext) (sess : Nat) (cidb : Bytes) (conn : Conn) (st : LState)
    (its : List ldmx_Item)
    (hw : ldr_Healthy w sess cidb conn) (hlogix : w.net.target.ext.logix = some st) (hmicro : cfg.micro800 = false)
    (hbytes : ∀ s' ∈ st.proj.controller, ∀ ch ∈ s'.name, ch < 256)
    (hn : 2 ≤ its.length) (hok : ∀ it ∈ its, it.Ok cfg st)
    (hf : ∀ it ∈ its, it.estimate cfg + K.OVERHEAD ≤ w.drv.connectionSize)
    (M : Nat)
    (hgM : ∀ g ∈ ldmx_groups w.drv.connectionSize (ldmx_reqs w.drv 0 (its.map (·.ent cfg))),
      K.OVERHEAD + (g.map (·.returnSize)).sum ≤ M)
    (hMT : M ≤ conn.size) (hM64 : M ≤ 65400) :
    ∃ w' frms, read hookAll cfg w (its.map (·.request)) = (w', .ok (its.map (·.out))) ∧
      w'.drv = ldrn_adv (its.length +
        (ldmx_groups w.drv.connectionSize (ldmx_reqs w.drv 0 (its.map (·.ent cfg)))).length) w.drv ∧
      w'.net.sent = w.net.sent ++ frms ∧
      frms.length = (ldmx_groups w.drv.connectionSize (ldmx_reqs w.drv 0 (its.map (·.ent cfg)))).length ∧
      ldrn_FramesOf w.drv.ctx (ldrn_adv its.length w.drv)
        (ldmx_groups w.drv.connectionSize (ldmx_reqs w.drv 0 (its.map (·.ent cfg)))) frms ∧
      w'.net.target.ext = { w.net.target.ext with logix := some { st with ctr := st.ctr + (its.map (·.served)).sum } } ∧
      ldr_Healthy w' sess cidb { conn with
        lastSeq := (ldrn_lastSeq (ldrn_adv its.length w.drv)
          (ldmx_groups w.drv.connectionSize (ldmx_reqs w.drv 0 (its.map (·.ent cfg)))) conn.lastSeq) } := by
  have htag : (its.map (·.ent cfg)).map (·.tag) = its.map (·.request) := by
    rw [List.map_map]; apply List.map_congr_left; intro it _; exact ldmx_ent_tag cfg it
  have hres : (its.map (·.ent cfg)).map (·.res) = its.map (·.out) := by
    rw [List.map_map]; apply List.map_congr_left; intro it _; exact ldmx_ent_res cfg it
  have hadv : (its.map (·.ent cfg)).map (·.adv) = its.map (·.served) := by
    rw [List.map_map]; apply List.map_congr_left; intro it _; exact ldmx_ent_adv cfg it
  have hf' : ∀ e ∈ its.map (·.ent cfg), ldmx_estE e + K.OVERHEAD ≤ w.drv.connectionSize := by
    intro e he
    obtain ⟨it, hit, rfl⟩ := List.mem_map.1 he
    rw [ldmx_ent_est]; exact hf it hit
  have hnd := ldmx_reqs_nodup w.drv 0 (its.map (·.ent cfg))
  have hfq : ∀ q ∈ ldmx_reqs w.drv 0 (its.map (·.ent cfg)), q.returnSize + K.OVERHEAD ≤ w.drv.connectionSize := by
    intro q hq
    have hmem : q.returnSize ∈ (ldmx_reqs w.drv 0 (its.map (·.ent cfg))).map (·.returnSize) := List.mem_map.2 ⟨q, hq, rfl⟩
    rw [ldmx_reqs_est] at hmem
    obtain ⟨e, he, hee⟩ := List.mem_map.1 hmem
    have := hf' e he
    omega
  -- every request is in some packet, so its estimate is within `M`
  have hcap : ∀ it ∈ its, it.estimate cfg + K.OVERHEAD ≤ conn.size := by
    intro it hit
    have hflat := ldmx_groups_flatten w.drv.connectionSize _ hnd hfq
    have hmem : it.estimate cfg ∈ (ldmx_reqs w.drv 0 (its.map (·.ent cfg))).map (·.returnSize) := by
      rw [ldmx_reqs_est, List.map_map]
      exact List.mem_map.2 ⟨it, hit, ldmx_ent_est cfg it⟩
    obtain ⟨q, hq, hqe⟩ := List.mem_map.1 hmem
    rw [← hflat] at hq
    obtain ⟨g, hg, hqg⟩ := List.mem_flatten.1 hq
    have h1 := hgM g hg
    have h2 := ldrn_le_sum (·.returnSize) g q hqg
    have h2' : q.returnSize ≤ (g.map (·.returnSize)).sum := h2
    omega
  have hok' : ∀ e ∈ its.map (·.ent cfg), ldmx_EntOk cfg st (conn.size - 2) e := by
    intro e he
    obtain ⟨it, hit, rfl⟩ := List.mem_map.1 he
    have hc := hcap it hit
    have hoh : K.OVERHEAD = 10 := rfl
    exact ldmx_item_ok cfg st (conn.size - 2) it hbytes (hok it hit) (by omega)
  have h := ldmx_read_general cfg w sess cidb conn st (its.map (·.ent cfg)) hw hlogix hmicro
    (by rw [List.length_map]; exact hn) hok' hf' M hgM hMT hM64
  rw [htag, hres, hadv, List.length_map] at h
  exact h

/-- the one group when everything fits one packet -/
private theorem ldmx_items_one (cfg : Cfg) (d : Cli.Drv) (C : Nat) (its : List ldmx_Item) (hn : 2 ≤ its.length)
    (hone : K.OVERHEAD + (its.map (·.estimate cfg)).sum ≤ C) :
    ldmx_groups C (ldmx_reqs d 0 (its.map (·.ent cfg))) = [ldmx_reqs d 0 (its.map (·.ent cfg))] ∧
    (ldmx_reqs d 0 (its.map (·.ent cfg))).map (·.returnSize) = its.map (·.estimate cfg) := by
  have hest : (ldmx_reqs d 0 (its.map (·.ent cfg))).map (·.returnSize) = its.map (·.estimate cfg) := by
    rw [ldmx_reqs_est, List.map_map]
    apply List.map_congr_left
    intro it _
    exact ldmx_ent_est cfg it
  refine ⟨ldmx_groups_one C _ (ldmx_reqs_nodup d 0 _) ?_ (by rw [hest]; exact hone), hest⟩
  intro h
  have := ldmx_reqs_length d 0 (its.map (·.ent cfg))
  rw [h, List.length_map, List.length_nil] at this
  omega

/-- items of `ldrn_Item` as items of `ldmx_Item` -/
def ldmx_ofItem : ldrn_Item → ldmx_Item
  | .scalar x => .scalar x
  | .oob y => .oob y

/-- replace the items at the marked positions by refused requests -/
def ldmx_refuseAt : List ldmx_Item → List (Option ldrn_Elem) → List ldmx_Item
  | it :: its, some y :: bad => .oob y :: ldmx_refuseAt its bad
  | it :: its, none :: bad => it :: ldmx_refuseAt its bad
  | its, [] => its
  | [], _ => []

private theorem ldmx_refuseAt_length (its : List ldmx_Item) (bad : List (Option ldrn_Elem)) :
    (ldmx_refuseAt its bad).length = its.length := by
  induction its generalizing bad with
  | nil => cases bad <;> rfl
  | cons it its ih =>
    cases bad with
    | nil => rfl
    | cons b bad => cases b <;> simp [ldmx_refuseAt, ih]

private theorem ldmx_refuseAt_get (its : List ldmx_Item) (bad : List (Option ldrn_Elem)) (i : Nat)
    (hkeep : bad[i]?.join = none) : (ldmx_refuseAt its bad)[i]? = its[i]? := by
  induction its generalizing bad i with
  | nil => cases bad <;> rfl
  | cons it its ih =>
    cases bad with
    | nil => rfl
    | cons b bad =>
      cases i with
      | zero =>
        cases b with
        | none => rfl
        | some y => simp at hkeep
      | succ i =>
        have hk : bad[i]?.join = none := by simpa using hkeep
        cases b <;> simpa [ldmx_refuseAt] using ih bad i hk

private theorem ldmx_refuseAt_mem (its : List ldmx_Item) (bad : List (Option ldrn_Elem)) (it : ldmx_Item)
    (h : it ∈ ldmx_refuseAt its bad) : it ∈ its ∨ ∃ y, some y ∈ bad ∧ it = .oob y := by
  induction its generalizing bad with
  | nil => cases bad <;> simp [ldmx_refuseAt] at h
  | cons a its ih =>
    cases bad with
    | nil => exact Or.inl h
    | cons b bad =>
      cases b with
      | none =>
        simp only [ldmx_refuseAt, List.mem_cons] at h
        rcases h with rfl | h
        · exact Or.inl List.mem_cons_self
        · rcases ih bad h with h1 | ⟨y, hy, e⟩
          · exact Or.inl (List.mem_cons_of_mem _ h1)
          · exact Or.inr ⟨y, List.mem_cons_of_mem _ hy, e⟩
      | some y =>
        simp only [ldmx_refuseAt, List.mem_cons] at h
        rcases h with rfl | h
        · exact Or.inr ⟨y, List.mem_cons_self, rfl⟩
        · rcases ih bad h with h1 | ⟨y', hy, e⟩
          · exact Or.inl (List.mem_cons_of_mem _ h1)
          · exact Or.inr ⟨y', List.mem_cons_of_mem _ hy, e⟩

private theorem ldmx_refuseAt_get_bad (its : List ldmx_Item) (bad : List (Option ldrn_Elem)) (i : Nat) (y : ldrn_Elem)
    (hb : bad[i]? = some (some y)) (hi : i < its.length) : (ldmx_refuseAt its bad)[i]? = some (.oob y) := by
  induction its generalizing bad i with
  | nil => simp at hi
  | cons a its ih =>
    cases bad with
    | nil => simp at hb
    | cons b bad =>
      cases i with
      | zero =>
        simp only [List.getElem?_cons_zero, Option.some.injEq] at hb
        subst hb
        rfl
      | succ i =>
        have hb2 : bad[i]? = some (some y) := by simpa using hb
        have hi2 : i < its.length := by simpa using hi
        cases b <;> simpa [ldmx_refuseAt] using ih bad i hb2 hi2

/-- C01 / C03, driver level, n requests of MIXED SHAPES in k packets: `read(t1, …, tn)` (n ≥ 2, any n), every request
    independently one of the kinds of `ldmx_Item` — scalar tag, array element `a[i]`, slice `a[i]{k}` / `a{k}`, integer
    bit `t.b`, BOOL-array element, member path with elementary or BOOL leaf, string tag, flat structure tag,
    program-scoped scalar, or element beyond an array (refused) —, on a healthy connected driver that is not a
    Micro800, each request alone fitting a multi-service packet: no exception; the driver's greedy grouping
    (`readPackets`, i.e. `K.plan` over the estimates `ldmx_Item.estimate`) splits the requests into k Multiple Service
    Packets; exactly k frames are written (`unitFrames`: the j-th frame is the one `CIPDriver.send` builds for the j-th
    message of `readMixedMsgs` — the Multiple Service Packet over the Read Tag messages, with their element counts, of
    the requests of the j-th packet in request order — with the (n + j)-th sequence number); n + k sequence numbers are
    drawn; the result list is exactly the per-request Tags `ldmx_Item.out` in request order: the name as requested
    (a slice without its `{n}`), the value the controller's memory holds per the reference interpretation of the
    corresponding single-request theorem, the type name, no error — and for a refused request a falsy Tag with the
    controller's status text, whatever packet it travels in; the controller's project is unchanged (its schedule
    counter advances by the number of served requests); the resulting world is healthy again, the last sequence count
    seen by the target being the one of the last packet. Requests may repeat.

    Hypotheses: `hw` healthy world; `hlogix` Logix target; `hmicro` not a Micro800; `hbytes` byte-string symbol names;
    `hok`: per request the hypotheses of the corresponding single-request theorem (`ldmx_Item.Ok`; for the two
    structure kinds additionally that the driver's `structure_size` is the size of the controller's definition, which
    holds for a tag database obtained by the upload — otherwise the reply could exceed the driver's estimate);
    `hfit1` every request alone fits a multi-service packet (otherwise the driver sends it with the fragmented service,
    after the packets: LogixDriverRead3 and the `#guard`s of `ExN` in LogixDriverReadN); `hCT` the target registered
    at least the connection size the driver accounts with; `hC64` that size is at most 65400. -/
theorem read_mixed_e2e (cfg : Cfg) (w : Cli.World Ext) (sess : Nat) (cidb : Bytes) (conn : Conn)
    (st : LState) (its : List ldmx_Item)
    (hw : ldr_Healthy w sess cidb conn) (hlogix : w.net.target.ext.logix = some st) (hmicro : cfg.micro800 = false)
    (hbytes : ∀ s' ∈ st.proj.controller, ∀ ch ∈ s'.name, ch < 256)
    (hn : 2 ≤ its.length) (hok : ∀ it ∈ its, it.Ok cfg st)
    (hfit1 : ∀ it ∈ its, it.estimate cfg + K.OVERHEAD ≤ w.drv.connectionSize)
    (hCT : w.drv.connectionSize ≤ conn.size) (hC64 : w.drv.connectionSize ≤ 65400) :
    ∃ w' frms, read hookAll cfg w (its.map (·.request)) = (w', .ok (its.map (·.out))) ∧
      frms.length = (readPackets w.drv.connectionSize (its.map (·.estimate cfg))).length ∧
      1 ≤ frms.length ∧
      w'.drv = ldrn_adv (its.length + frms.length) w.drv ∧ w'.net.sent = w.net.sent ++ frms ∧
      unitFrames w.drv.ctx (ldrn_adv its.length w.drv)
        (readMixedMsgs cfg w.drv.connectionSize (its.map fun it => (it.plcTag, it.info, it.elements))) frms ∧
      w'.net.target.ext = { w.net.target.ext with logix := some { st with ctr := st.ctr + (its.map (·.served)).sum } } ∧
      ldr_Healthy w' sess cidb { conn with lastSeq := some (ldrn_adv (its.length + (frms.length - 1)) w.drv).nextSeq.1 } := by
  have hnd := ldmx_reqs_nodup w.drv 0 (its.map (·.ent cfg))
  obtain ⟨w', frms, hread, hd, hsent, hlen, hfrms, hext, hh⟩ := ldmx_read_items cfg w sess cidb conn st its hw hlogix
    hmicro hbytes hn hok hfit1 w.drv.connectionSize (ldmx_groups_fit _ _ hnd) hCT hC64
  have hframes := ldrn_framesOf_unit _ _ _ _ hfrms
  rw [ldmx_groups_msgs] at hframes
  have hcount := ldmx_groups_count w.drv.connectionSize w.drv (its.map (·.ent cfg))
  have hests : ((its.map (·.ent cfg)).map ldmx_estE) = its.map (·.estimate cfg) := by
    rw [List.map_map]; apply List.map_congr_left; intro it _; exact ldmx_ent_est cfg it
  rw [hests] at hcount
  have hgne : ldmx_groups w.drv.connectionSize (ldmx_reqs w.drv 0 (its.map (·.ent cfg))) ≠ [] := by
    intro h
    have hfq : ∀ q ∈ ldmx_reqs w.drv 0 (its.map (·.ent cfg)), q.returnSize + K.OVERHEAD ≤ w.drv.connectionSize := by
      intro q hq
      have hmem : q.returnSize ∈ (ldmx_reqs w.drv 0 (its.map (·.ent cfg))).map (·.returnSize) :=
        List.mem_map.2 ⟨q, hq, rfl⟩
      rw [ldmx_reqs_est, hests] at hmem
      obtain ⟨it, hit, hee⟩ := List.mem_map.1 hmem
      have := hfit1 it hit
      omega
    have hflat := ldmx_groups_flatten w.drv.connectionSize _ hnd hfq
    rw [h, List.flatten_nil] at hflat
    have := ldmx_reqs_length w.drv 0 (its.map (·.ent cfg))
    rw [← hflat, List.length_nil, List.length_map] at this
    omega
  rw [ldrn_lastSeq_eq _ _ _ hgne, ← ldrn_adv_add, ← hlen] at hh
  rw [← hlen] at hd
  have hpos : 1 ≤ frms.length := by
    rw [hlen]
    exact Nat.succ_le_of_lt (List.length_pos_iff.2 hgne)
  exact ⟨w', frms, hread, by rw [hlen, hcount], hpos, hd, hsent, hframes, hext, hh⟩

/-- C01 / C03, driver level, n requests of mixed shapes with failures isolated, ONE packet: `read(t1, …, tn)` (n ≥ 2),
    every request of one of the kinds of `ldmx_Item`, when all n requests fit ONE Multiple Service Packet by the
    driver's accounting (`hone`): no exception; exactly one frame is written — the frame `CIPDriver.send` builds for the
    Multiple Service Packet embedding the n Read Tag messages (with their element counts) in request order, with the
    (n+1)-th sequence number —; n + 1 sequence numbers are drawn; the result list holds, in request order, for every
    served request exactly its Tag `ldmx_Item.out` (the Tag the corresponding single-request theorem states for it
    alone) and for each refused request a falsy Tag named as requested whose error is the controller's status text
    (`read_n_refused_tag_names_status`) — ANY subset of the requests may be refused, the others are unaffected; the
    controller's project is unchanged (schedule counter + number of served requests); the world is healthy again.

    Hypotheses as in `read_mixed_e2e`; `hone`, `hT`, `h64`: the accounted size of the packet — 10 + Σ estimates — fits
    the driver's connection size, the size the target registered for the connection, and 65400. -/
theorem read_mixed_isolated_e2e (cfg : Cfg) (w : Cli.World Ext) (sess : Nat) (cidb : Bytes) (conn : Conn) (st : LState)
    (its : List ldmx_Item)
    (hw : ldr_Healthy w sess cidb conn) (hlogix : w.net.target.ext.logix = some st) (hmicro : cfg.micro800 = false)
    (hbytes : ∀ s' ∈ st.proj.controller, ∀ ch ∈ s'.name, ch < 256)
    (hn : 2 ≤ its.length) (hok : ∀ it ∈ its, it.Ok cfg st)
    (hone : K.OVERHEAD + (its.map (·.estimate cfg)).sum ≤ w.drv.connectionSize)
    (hT : K.OVERHEAD + (its.map (·.estimate cfg)).sum ≤ conn.size)
    (h64 : K.OVERHEAD + (its.map (·.estimate cfg)).sum ≤ 65400) :
    ∃ w' frm, read hookAll cfg w (its.map (·.request)) = (w', .ok (its.map (·.out))) ∧
      w'.drv = ldrn_adv (its.length + 1) w.drv ∧ w'.net.sent = w.net.sent ++ [frm] ∧
      Encap.buildRequest (.sendUnit (ldrn_adv its.length w.drv).nextSeq.1
        (Cl.multiMsg (its.map fun it => Cl.readMsg (ldrn_pathOf cfg it.plcTag it.info) it.elements))) w.drv.ctx = .ok frm ∧
      w'.net.target.ext = { w.net.target.ext with logix := some { st with ctr := st.ctr + (its.map (·.served)).sum } } ∧
      ldr_Healthy w' sess cidb { conn with lastSeq := some (ldrn_adv its.length w.drv).nextSeq.1 } := by
  obtain ⟨hg, hest⟩ := ldmx_items_one cfg w.drv w.drv.connectionSize its hn hone
  have hf : ∀ it ∈ its, it.estimate cfg + K.OVERHEAD ≤ w.drv.connectionSize := by
    intro it hit
    have := ldrn_le_sum (fun it : ldmx_Item => it.estimate cfg) its it hit
    have h2 : it.estimate cfg ≤ (its.map (·.estimate cfg)).sum := this
    omega
  obtain ⟨w', frms, hread, hd, hsent, hlen, hfrms, hext, hh⟩ := ldmx_read_items cfg w sess cidb conn st its hw hlogix hmicro
    hbytes hn hok hf (K.OVERHEAD + (its.map (·.estimate cfg)).sum)
    (by
      intro g hgm
      rw [hg, List.mem_singleton] at hgm
      rw [hgm, hest]
      exact Nat.le_refl _)
    hT h64
  rw [hg] at hd hlen hh hfrms
  obtain ⟨frm, rfl⟩ := List.length_eq_one_iff.1 hlen
  have hmsgs : (ldmx_reqs w.drv 0 (its.map (·.ent cfg))).map ldrn_msg =
      its.map fun it => Cl.readMsg (ldrn_pathOf cfg it.plcTag it.info) it.elements := by
    rw [ldmx_reqs_msgs, List.map_map]; apply List.map_congr_left; intro it _; exact ldmx_ent_msg cfg it
  have hfrm := hfrms.1
  rw [hmsgs] at hfrm
  exact ⟨w', frm, hread, hd, hsent, hfrm, hext, hh⟩

/-- C03, driver level, replacing ANY subset of the requests by refused ones: take a call `its` as in `read_mixed_e2e`
    and replace the requests at the positions marked in `bad` by elements beyond an array (`ldmx_refuseAt`): the call
    still returns without exception, one Tag per request in request order, and at every position that was NOT
    replaced the Tag is exactly `its[i].out` — the Tag the request yields in the unmodified call and, by the
    single-request theorems, alone —; at every replaced position it is the falsy Tag of the refusal. The controller
    serves exactly the requests that were not refused. Hypotheses as in `read_mixed_e2e`, for the modified call
    (`hokBad`: the replacements are elements beyond their arrays; `hfit1` for the modified list). -/
theorem read_mixed_refused_subset_e2e (cfg : Cfg) (w : Cli.World Ext) (sess : Nat) (cidb : Bytes) (conn : Conn)
    (st : LState) (its : List ldmx_Item) (bad : List (Option ldrn_Elem))
    (hw : ldr_Healthy w sess cidb conn) (hlogix : w.net.target.ext.logix = some st) (hmicro : cfg.micro800 = false)
    (hbytes : ∀ s' ∈ st.proj.controller, ∀ ch ∈ s'.name, ch < 256)
    (hn : 2 ≤ its.length) (hok : ∀ it ∈ its, it.Ok cfg st)
    (hokBad : ∀ y, some y ∈ bad → ldrn_ElemOob cfg st y)
    (hfit1 : ∀ it ∈ ldmx_refuseAt its bad, it.estimate cfg + K.OVERHEAD ≤ w.drv.connectionSize)
    (hCT : w.drv.connectionSize ≤ conn.size) (hC64 : w.drv.connectionSize ≤ 65400) :
    ∃ w' tags, read hookAll cfg w ((ldmx_refuseAt its bad).map (·.request)) = (w', .ok tags) ∧
      tags.length = its.length ∧
      (∀ i : Nat, bad[i]?.join = none → tags[i]? = (its[i]?).map ldmx_Item.out) ∧
      (∀ (i : Nat) (y : ldrn_Elem), bad[i]? = some (some y) → i < its.length → tags[i]? = some (ldx_oobTag y.request)) ∧
      w'.net.target.ext = { w.net.target.ext with
        logix := some { st with ctr := st.ctr + ((ldmx_refuseAt its bad).map (·.served)).sum } } := by
  have hok2 : ∀ it ∈ ldmx_refuseAt its bad, it.Ok cfg st := by
    intro it hit
    rcases ldmx_refuseAt_mem its bad it hit with h1 | ⟨y, hy, rfl⟩
    · exact hok it h1
    · exact hokBad y hy
  obtain ⟨w', frms, hread, _, _, _, _, _, hext, _⟩ := read_mixed_e2e cfg w sess cidb conn st (ldmx_refuseAt its bad) hw hlogix
    hmicro hbytes (by rw [ldmx_refuseAt_length]; exact hn) hok2 hfit1 hCT hC64
  refine ⟨w', _, hread, by rw [List.length_map, ldmx_refuseAt_length], ?_, ?_, hext⟩
  · intro i hkeep
    rw [List.getElem?_map, ldmx_refuseAt_get its bad i hkeep]
  · intro i y hb hi
    rw [List.getElem?_map]
    have : (ldmx_refuseAt its bad)[i]? = some (.oob y) := ldmx_refuseAt_get_bad its bad i y hb hi
    rw [this]
    rfl

/-- the request strings and Tag names of the kinds, spelled out (`decRender` = decimal digits, 91 = `[`, 93 = `]`,
    123 = `{`, 125 = `}`, 46 = `.`): an element is requested and named `name[i]`; a slice is requested `name[i]{n}` and
    named `name[i]` (WITHOUT the count); a bit is requested and named `name.b`; a BOOL-array element `name[i]`; a
    program-scoped tag `Program:P.t` -/
theorem read_mixed_request_strings (xe : ldmx_El) (xs : ldmx_Slice) (xb : ldmx_Bit) (xa : ldmx_BoolEl) (xp : ldmx_Prog)
    (hs : xs.fromStart = false) :
    (ldmx_Item.elem xe).request = xe.s.name ++ [91] ++ decRender xe.i ++ [93] ∧
    (ldmx_Item.elem xe).out.tag = xe.s.name ++ [91] ++ decRender xe.i ++ [93] ∧
    (ldmx_Item.slice xs).request = xs.s.name ++ [91] ++ decRender xs.i ++ [93] ++ [123] ++ decRender xs.n ++ [125] ∧
    (ldmx_Item.slice xs).out.tag = xs.s.name ++ [91] ++ decRender xs.i ++ [93] ∧
    (ldmx_Item.bit xb).request = xb.s.name ++ [46] ++ decRender xb.b ∧
    (ldmx_Item.bit xb).out.tag = xb.s.name ++ [46] ++ decRender xb.b ∧
    (ldmx_Item.boolElem xa).request = xa.s.name ++ [91] ++ decRender xa.i ++ [93] ∧
    (ldmx_Item.boolElem xa).out.tag = xa.s.name ++ [91] ++ decRender xa.i ++ [93] ∧
    (ldmx_Item.prog xp).request = Drv.nm "Program:" ++ xp.P ++ [46] ++ xp.s.name := by
  refine ⟨?_, ?_, ?_, ?_, ?_, ?_, ?_, ?_, rfl⟩
  · exact ldr2_tagStr_elem _ _
  · exact ldr2_renderLevel_elem _ _
  · show ldr2_tagStr ⟨xs.s.name, if xs.fromStart then [] else [xs.i]⟩ none (some xs.n) = _
    rw [hs]; exact ldr2_tagStr_slice _ _ _
  · show renderLevel ⟨xs.s.name, if xs.fromStart then [] else [xs.i]⟩ = _
    rw [hs]; exact ldr2_renderLevel_elem _ _
  · exact ldr2_tagStr_bit _ _
  · exact ldr2_tagStr_bit _ _
  · exact ldr2_renderLevel_elem _ _
  · exact ldr2_renderLevel_elem _ _

/-- `read_n_items_e2e` (LogixDriverReadN) is the special case of `read_mixed_e2e` for scalar tags and refused elements:
    requests, Tags, estimates and packet messages coincide -/
theorem read_mixed_extends_read_n (cfg : Cfg) (C : Nat) (its : List ldrn_Item) :
    (its.map ldmx_ofItem).map (·.request) = its.map (·.request) ∧
    (its.map ldmx_ofItem).map (·.out) = its.map (·.out) ∧
    (its.map ldmx_ofItem).map (·.served) = its.map (·.served) ∧
    (its.map ldmx_ofItem).map (·.estimate cfg) = its.map (fun it => readEstimate cfg it.request it.info) ∧
    readMixedMsgs cfg C ((its.map ldmx_ofItem).map fun it => (it.plcTag, it.info, it.elements)) =
      readPacketMsgs cfg C (its.map fun it => (it.request, it.info)) := by
  refine ⟨?_, ?_, ?_, ?_, ?_⟩
  · rw [List.map_map]; apply List.map_congr_left; intro it _; cases it <;> rfl
  · rw [List.map_map]; apply List.map_congr_left; intro it _; cases it <;> rfl
  · rw [List.map_map]; apply List.map_congr_left; intro it _; cases it <;> rfl
  · rw [List.map_map]; apply List.map_congr_left; intro it _; cases it <;> rfl
  · rw [← readMixedMsgs_one, List.map_map, List.map_map]
    congr 1
    apply List.map_congr_left; intro it _; cases it <;> rfl

/-! ### non-vacuity: all hypotheses instantiated on a concrete project and worlds obtained by running the model -/

namespace ExM
open Ex

/-- template `Rec { ZZZZZZZZZZRec0 : SINT @0 (hidden host); flag : BOOL bit 1 @0; lvl : INT @2; n : DINT @4 }`, 8 bytes:
    a flat UDT with a BOOL member -/
def tRec : Template :=
  { id := 0x230, handle := 0x3333, size := 8, nameField := [82, 101, 99, 59, 110],
    members := [⟨Drv.nm "ZZZZZZZZZZRec0", 0, 0xC2, 0⟩, ⟨Drv.nm "flag", 1, 0xC1, 0⟩, ⟨Drv.nm "lvl", 0, 0xC3, 2⟩,
                ⟨Drv.nm "n", 0, 0xC4, 4⟩] }
/-- `vec : DINT[8]` = [10, 20, …, 80] -/
def symVec : Symbol :=
  { inst := 9, name := Drv.nm "vec", symbolType := 0x20C4, dims := [8, 0, 0], attr3 := 0, attr5 := 0, attr6 := 2 ^ 26,
    access := 0, mem := [10, 0, 0, 0, 20, 0, 0, 0, 30, 0, 0, 0, 40, 0, 0, 0, 50, 0, 0, 0, 60, 0, 0, 0, 70, 0, 0, 0, 80, 0, 0, 0] }
/-- `r1 : Rec` = {flag: true, lvl: -7, n: 123456} -/
def symR1 : Symbol :=
  { inst := 30, name := Drv.nm "r1", symbolType := 0x8230, dims := [0, 0, 0], attr3 := 0, attr5 := 0, attr6 := 2 ^ 26,
    access := 0, mem := [2, 0, 0xF9, 0xFF, 0x40, 0xE2, 0x01, 0] }
/-- the program scope `Program:Main` -/
def symMainM : Symbol :=
  { inst := 40, name := Drv.nm "Program:Main", symbolType := 0x1068, dims := [0, 0, 0], attr3 := 0, attr5 := 0,
    attr6 := 2 ^ 26, access := 0, mem := [] }
/-- `cnt : DINT` = 1234 of the program `Main`, with the instance id of the controller's `abc` -/
def pCnt : Symbol :=
  { inst := 7, name := Drv.nm "cnt", symbolType := 0xC4, dims := [0, 0, 0], attr3 := 0, attr5 := 0, attr6 := 2 ^ 26,
    access := 0, mem := [0xD2, 0x04, 0, 0] }
/-- a DINT `abc`, a DINT[8] `vec`, a flat UDT with a BOOL member `r1 : Rec`, a STRING `s1 : STR8`, and, for the other
    kinds, a flat UDT without BOOLs `p1 : Pt`, a BOOL array `bits : BOOL[64]` and a program `Main` with a DINT `cnt` -/
def projM : Project :=
  { templates := [tRec, Ex3.tmplStr, Ex3.tmplPt],
    controller := [sym, symVec, symR1, Ex3.symS1, Ex3.symP1, symBits, symMainM],
    programs := [(Drv.nm "Program:Main", [pCnt])] }
def stateM : LState := { proj := projM }
/-- a fresh driver with connection size `C` in front of a fresh target holding the project -/
def worldM0 (C : Nat) : Cli.World Ext :=
  { drv := { connectionSize := C }, net := { target := { base := base, ext := { logix := some stateM } } } }
/-- … after `open()` and the Forward Open: the model is run -/
def worldM (C : Nat) : Cli.World Ext :=
  (Cli.ensureForwardOpen hookAll Cli.FUEL (Cli.openDrv hookAll (worldM0 C) [1, 2, 3, 4, 5, 6, 7, 8]).1).1
/-- the driver configuration after the tag upload with `init_program_tags=True` -/
def cfgM : Cfg := { tags := (tagDbOf projM true).getD [] }
/-- the connection the target holds when the driver asked for 60 bytes -/
def connS : Tgt.Conn := { conn with size := 60 }

def infoVec : TagInfo :=
  .mk { tagType := .atomic, dataTypeName := Drv.nm "DINT", ty := .arr (.fixed 8) (.int .dint), dim := 1,
        dimensions := [8, 0, 0], instanceId := some 9 } .nil
def dflt : TagInfo := .mk { tagType := .atomic, dataTypeName := [], ty := .bool } .nil
/-- the entries of the tag database along `r1.lvl` / `r1.flag` and under `Program:Main.cnt` -/
def infoR1 : TagInfo := (cfgM.tags.get? (Drv.nm "r1")).getD dflt
def leafLvl : TagInfo := (infoR1.members.get? (Drv.nm "lvl")).getD dflt
def leafFlag : TagInfo := (infoR1.members.get? (Drv.nm "flag")).getD dflt
def infoCnt : TagInfo := (cfgM.tags.get? (Drv.nm "Program:Main.cnt")).getD dflt

def mLvl : MemberDef := ⟨Drv.nm "lvl", 0, 0xC3, 2⟩
def mFlag : MemberDef := ⟨Drv.nm "flag", 1, 0xC1, 0⟩

/-- `abc` -/
def xAbc : ldrn_Scalar := ⟨sym, info, 0xC4, 4, Drv.nm "DINT", .int .dint, .int 42, []⟩
/-- `vec[2]` -/
def eVec2 : ldmx_El := ⟨symVec, infoVec, 0xC4, 4, 8, 2, Drv.nm "DINT", .int .dint, .int 30, symVec.mem.drop 12⟩
/-- `vec[3]{4}` -/
def sVec34 : ldmx_Slice :=
  ⟨symVec, infoVec, 0xC4, 4, 8, false, 3, 4, Drv.nm "DINT", .int .dint, [.int 40, .int 50, .int 60, .int 70]⟩
/-- `vec{2}` -/
def sVec02 : ldmx_Slice := ⟨symVec, infoVec, 0xC4, 4, 8, true, 0, 2, Drv.nm "DINT", .int .dint, [.int 10, .int 20]⟩
/-- `abc.5` -/
def bAbc5 : ldmx_Bit := ⟨sym, info, 0xC4, 4, Drv.nm "DINT", .dint, 5⟩
/-- `r1.lvl` -/
def mR1Lvl : ldmx_Member :=
  { s := symR1, tid0 := 0x230, tm0 := tRec, idx0 := [], li := 0, hops := [⟨tRec, mLvl, [], 2⟩], info := infoR1,
    leaf := leafLvl, c := 0xC3, sz := 2, name := Drv.nm "INT", t := .int .int, v := .int (-7), rest := symR1.mem.drop 4 }
/-- `r1.flag` -/
def mR1Flag : ldmx_BoolMember :=
  { s := symR1, tid0 := 0x230, tm0 := tRec, idx0 := [], li := 0, hops := [], tidL := 0x230, tmL := tRec, mb := mFlag,
    info := infoR1, leaf := leafFlag }
/-- `s1` -/
def strS1 : ldmx_Str := ⟨Ex3.symS1, 0x202, Ex3.tmplStr, Ex3.infoS1, Ex3.siStr, 8⟩
/-- `p1` -/
def stP1 : ldmx_Struct :=
  { s := Ex3.symP1, tid := 0x201, tm := Ex3.tmplPt, info := Ex3.infoP1, si := Ex3.siPt,
    ms := .cons (Drv.nm "x") (.int .dint) 0 (.cons (Drv.nm "y") (.int .int) 4 .nil), bits := [], priv := [], size := 8,
    kvs := [(Drv.nm "x", .int 7), (Drv.nm "y", .int (-2))], rest := [] }
/-- `bits[33]` -/
def aBits33 : ldmx_BoolEl := ⟨symBits, infoBits, 2, 33⟩
/-- `Program:Main.cnt` -/
def pMainCnt : ldmx_Prog := ⟨Drv.nm "Main", [pCnt], pCnt, infoCnt, 0xC4, 4, Drv.nm "DINT", .int .dint, .int 1234, []⟩
/-- `vec[9]` and `vec[8]`: beyond the eight elements -/
def oVec9 : ldrn_Elem := ⟨symVec, infoVec, 0xC4, 4, 8, 9, Drv.nm "DINT", .int .dint⟩
def oVec8 : ldrn_Elem := ⟨symVec, infoVec, 0xC4, 4, 8, 8, Drv.nm "DINT", .int .dint⟩

/-- a scalar, an element, a slice, a bit, two members (INT and BOOL), the string and an out-of-range element -/
def mixed : List ldmx_Item :=
  [.scalar xAbc, .elem eVec2, .slice sVec34, .bit bAbc5, .member mR1Lvl, .boolMember mR1Flag, .string strS1, .oob oVec9]
/-- … and the other kinds: a slice from the start, a whole flat structure, a BOOL-array element, a program-scoped tag -/
def allKinds : List ldmx_Item := mixed ++ [.slice sVec02, .struct stP1, .boolElem aBits33, .prog pMainCnt]


private theorem healthyM : ldr_Healthy (worldM 4000) 4097 [238, 255, 192, 0] conn :=
  ⟨by decide +kernel, by decide +kernel, by decide +kernel, by decide +kernel, by decide +kernel, by decide,
   by decide +kernel, by decide +kernel, by decide, by decide +kernel, by decide +kernel, by decide +kernel⟩

private theorem healthyS : ldr_Healthy (worldM 60) 4097 [238, 255, 192, 0] connS :=
  ⟨by decide +kernel, by decide +kernel, by decide +kernel, by decide +kernel, by decide +kernel, by decide,
   by decide +kernel, by decide +kernel, by decide, by decide +kernel, by decide +kernel, by decide +kernel⟩

private theorem mem_ctlM (s' : Symbol) (h : s' ∈ projM.controller) :
    s' = sym ∨ s' = symVec ∨ s' = symR1 ∨ s' = Ex3.symS1 ∨ s' = Ex3.symP1 ∨ s' = symBits ∨ s' = symMainM := by
  simpa [projM] using h

private theorem bytesM (s' : Symbol) (h : s' ∈ stateM.proj.controller) : ∀ ch ∈ s'.name, ch < 256 := by
  rcases mem_ctlM s' h with rfl | rfl | rfl | rfl | rfl | rfl | rfl <;> decide

private theorem uniqNM (s : Symbol) (hs : s ∈ stateM.proj.controller) (s' : Symbol) (h : s' ∈ stateM.proj.controller)
    (e : s'.name = s.name) : s' = s := by
  rcases mem_ctlM s hs with rfl | rfl | rfl | rfl | rfl | rfl | rfl <;>
    rcases mem_ctlM s' h with rfl | rfl | rfl | rfl | rfl | rfl | rfl <;>
    first | rfl | (exfalso; revert e; decide)

private theorem uniqIM (s : Symbol) (hs : s ∈ stateM.proj.controller) (s' : Symbol) (h : s' ∈ stateM.proj.controller)
    (e : s'.inst = s.inst) : s' = s := by
  rcases mem_ctlM s hs with rfl | rfl | rfl | rfl | rfl | rfl | rfl <;>
    rcases mem_ctlM s' h with rfl | rfl | rfl | rfl | rfl | rfl | rfl <;>
    first | rfl | (exfalso; revert e; decide)

private theorem hsAbc : sym ∈ stateM.proj.controller := by simp [stateM, projM]
private theorem hsVec : symVec ∈ stateM.proj.controller := by simp [stateM, projM]
private theorem hsR1 : symR1 ∈ stateM.proj.controller := by simp [stateM, projM]
private theorem hsS1 : Ex3.symS1 ∈ stateM.proj.controller := by simp [stateM, projM]
private theorem hsP1 : Ex3.symP1 ∈ stateM.proj.controller := by simp [stateM, projM]
private theorem hsBits : symBits ∈ stateM.proj.controller := by simp [stateM, projM]

private theorem mem_rec (m' : MemberDef) (h : m' ∈ tRec.members) :
    m' = ⟨Drv.nm "ZZZZZZZZZZRec0", 0, 0xC2, 0⟩ ∨ m' = mFlag ∨ m' = mLvl ∨ m' = ⟨Drv.nm "n", 0, 0xC4, 4⟩ := by
  simpa [tRec, mFlag, mLvl] using h

private theorem okAbc : ldrn_ScalarOk cfgM stateM xAbc :=
  ⟨hsAbc, uniqNM sym hsAbc, uniqIM sym hsAbc, ⟨by decide, by decide, by decide⟩, by decide, by decide, rfl, rfl, rfl, rfl,
   by rfl, ⟨rfl, rfl, rfl, rfl, rfl⟩, by rfl⟩

private theorem okVec2 : ldmx_ElOk cfgM stateM eVec2 :=
  { mem := hsVec, uniqN := uniqNM symVec hsVec, uniqI := uniqIM symVec hsVec, ident := ⟨by decide, by decide, by decide⟩,
    inst32 := by decide, ty := by decide, atomic := rfl, notBits := rfl, size := rfl, dims := by decide, memLen := by decide,
    get := by rfl, infoOf := ⟨rfl, rfl, rfl, rfl, rfl⟩, inside := by decide, i32 := by decide, dec := by rfl }

private theorem decVec (i : Nat) (vs : List PyVal) (hvs : vs.length ≤ 4)
    (h : ∀ k, k < 4 → k < vs.length → ∃ rest, decode (.int .dint) (symVec.mem.drop ((i + k) * 4)) = .ok (vs.getD k .none, rest)) :
    ∀ k (hk : k < vs.length), ∃ rest, decode (.int .dint) (symVec.mem.drop ((i + k) * 4)) = .ok (vs[k], rest) := by
  intro k hk
  obtain ⟨r, hr⟩ := h k (by omega) hk
  refine ⟨r, ?_⟩
  rw [hr]
  simp [List.getD_eq_getElem?_getD, hk]

private theorem okVec34 : ldmx_SliceOk cfgM stateM sVec34 :=
  { mem := hsVec, uniqN := uniqNM symVec hsVec, uniqI := uniqIM symVec hsVec, ident := ⟨by decide, by decide, by decide⟩,
    inst32 := by decide, ty := by decide, atomic := rfl, notBits := rfl, size := rfl, dims := by decide, memLen := by decide,
    get := by rfl, infoOf := ⟨rfl, rfl, rfl, rfl, rfl⟩, start0 := (by intro h; cases h), i32 := by decide, n1 := by decide,
    n16 := by decide, inside := by decide, vsLen := rfl,
    dec := decVec 3 _ (by decide) (by
      intro k hk _
      have : k = 0 ∨ k = 1 ∨ k = 2 ∨ k = 3 := by omega
      rcases this with rfl | rfl | rfl | rfl <;> exact ⟨_, by rfl⟩) }

private theorem okVec02 : ldmx_SliceOk cfgM stateM sVec02 :=
  { mem := hsVec, uniqN := uniqNM symVec hsVec, uniqI := uniqIM symVec hsVec, ident := ⟨by decide, by decide, by decide⟩,
    inst32 := by decide, ty := by decide, atomic := rfl, notBits := rfl, size := rfl, dims := by decide, memLen := by decide,
    get := by rfl, infoOf := ⟨rfl, rfl, rfl, rfl, rfl⟩, start0 := fun _ => rfl, i32 := by decide, n1 := by decide,
    n16 := by decide, inside := by decide, vsLen := rfl,
    dec := decVec 0 _ (by decide) (by
      intro k _ hk
      have : k = 0 ∨ k = 1 := by
        have : k < 2 := hk
        omega
      rcases this with rfl | rfl <;> exact ⟨_, by rfl⟩) }

private theorem okAbc5 : ldmx_BitOk cfgM stateM bAbc5 :=
  { mem := hsAbc, uniqN := uniqNM sym hsAbc, uniqI := uniqIM sym hsAbc, ident := ⟨by decide, by decide, by decide⟩,
    inst32 := by decide, ty := by decide, atomic := rfl, size := rfl, memLen := rfl, get := by rfl,
    infoOf := ⟨rfl, rfl, rfl, rfl, rfl⟩, bit := by decide }

private theorem hopLvl : ldr4_HopOk stateM.proj 0x230 ⟨tRec, mLvl, [], 2⟩ :=
  ⟨by rfl, by simp [tRec, mLvl],
   (by intro m' h; rcases mem_rec m' h with rfl | rfl | rfl | rfl <;> decide),
   (by intro m' h e
       rcases mem_rec m' h with rfl | rfl | rfl | rfl
       · exfalso; revert e; decide
       · exfalso; revert e; decide
       · rfl
       · exfalso; revert e; decide),
   by decide, by rfl, Or.inl rfl⟩

private theorem okR1Lvl : ldmx_MemberOk cfgM stateM mR1Lvl :=
  { mem := hsR1, uniqN := uniqNM symR1 hsR1, uniqI := uniqIM symR1 hsR1,
    level0 := ⟨⟨by decide, by decide, by decide⟩, by decide, by decide⟩, ty := by decide, tmpl := by rfl,
    idxOk := Or.inl ⟨rfl, rfl⟩, ne := by simp [mR1Lvl],
    chain := ⟨0x230, rfl, hopLvl, (by show ElTy.atomic 0xC3 = elTyOfWord 0xC3; decide)⟩,
    levels := (by
      intro h hh
      simp only [mR1Lvl, List.mem_cons, List.not_mem_nil, or_false] at hh
      subst hh
      exact ⟨⟨by decide, by decide, by decide⟩, by decide, by decide⟩),
    notNum := (by
      intro h hh
      simp only [mR1Lvl, List.getLast?_singleton, Option.some.injEq] at hh
      subst hh
      decide),
    pathSize := by decide, atomic := rfl, notBits := rfl, size := rfl, inside := by decide, get := by rfl, kind := by rfl,
    infoPath := by rfl, leafOf := ⟨by rfl, by rfl, Or.inl (by rfl), by rfl, by rfl⟩, dec := by rfl }

private theorem okR1Flag : ldmx_BoolMemberOk cfgM stateM mR1Flag :=
  { mem := hsR1, uniqN := uniqNM symR1 hsR1, uniqI := uniqIM symR1 hsR1,
    level0 := ⟨⟨by decide, by decide, by decide⟩, by decide, by decide⟩, ty := by decide, tmpl := by rfl,
    idxOk := Or.inl ⟨rfl, rfl⟩, chain := rfl, tmplL := by rfl,
    levels := (by intro h hh; simp [mR1Flag] at hh),
    mbMem := by simp [mR1Flag, tRec, mFlag],
    mbBytes := (by intro m' h; rcases mem_rec m' h with rfl | rfl | rfl | rfl <;> decide),
    mbUniq := (by
      intro m' h e
      rcases mem_rec m' h with rfl | rfl | rfl | rfl
      · exfalso; revert e; decide
      · rfl
      · exfalso; revert e; decide
      · exfalso; revert e; decide),
    mbIdent := ⟨by decide, by decide, by decide⟩, mbNotNum := by decide, mbTy := by decide, pathSize := by decide,
    inside := by decide, get := by rfl, kind := by rfl, infoPath := by rfl,
    leafOf := ⟨by rfl, by rfl, by rfl, by rfl, by rfl⟩ }

private theorem okS1 : ldmx_StrOk cfgM stateM strS1 :=
  { mem := hsS1, uniqN := uniqNM Ex3.symS1 hsS1, uniqI := uniqIM Ex3.symS1 hsS1, ident := ⟨by decide, by decide, by decide⟩,
    inst32 := by decide, ty := by decide, tmpl := by rfl, memLen := by decide, tmSize := by decide, cap1 := by decide,
    get := by rfl, structOf := ⟨rfl, rfl, rfl, rfl, rfl⟩, notDword := by decide, sizeLe := by decide }

private theorem okP1 : ldmx_StructOk cfgM stateM stP1 :=
  { mem := hsP1, uniqN := uniqNM Ex3.symP1 hsP1, uniqI := uniqIM Ex3.symP1 hsP1, ident := ⟨by decide, by decide, by decide⟩,
    inst32 := by decide, ty := by decide, tmpl := by rfl, memLen := by decide, pos := by decide, get := by rfl,
    structOf := ⟨rfl, rfl, rfl, rfl, rfl⟩, notDword := by decide, sizeLe := by decide, dec := by rfl, keys := by rfl,
    nodup := by decide }

private theorem okBits33 : ldmx_BoolElOk cfgM stateM aBits33 :=
  { mem := hsBits, uniqN := uniqNM symBits hsBits, uniqI := uniqIM symBits hsBits, ident := ⟨by decide, by decide, by decide⟩,
    inst32 := by decide, ty := by decide, dims := by decide, memLen := by decide, get := by rfl,
    infoOf := ⟨rfl, rfl, rfl, rfl, rfl⟩, inside := by decide, words16 := by decide }

private theorem okMainCnt : ldmx_ProgOk cfgM stateM pMainCnt :=
  { progIdent := ⟨by decide, by decide, by decide⟩, progLen := by decide, prog := by simp [stateM, projM, pMainCnt, ldp_prog, Drv.nm],
    progU := (by
      intro pr hpr _
      have : pr = (Drv.nm "Program:Main", [pCnt]) := by simpa [stateM, projM] using hpr
      rw [this]; rfl),
    mem := by simp [pMainCnt], bytes := (by intro s' h; simp [pMainCnt] at h; subst h; decide),
    uniqN := (by intro s' h _; simpa [pMainCnt] using h), uniqI := (by intro s' h _; simpa [pMainCnt] using h),
    ident := ⟨by decide, by decide, by decide⟩, ty := by decide, atomic := rfl, notBits := rfl, size := rfl, memLen := rfl,
    get := by rfl, infoOf := ⟨by rfl, by rfl, by rfl, by rfl⟩, dec := by rfl }

private theorem oobVec9 : ldrn_ElemOob cfgM stateM oVec9 :=
  ⟨hsVec, uniqNM symVec hsVec, uniqIM symVec hsVec, ⟨by decide, by decide, by decide⟩, by decide, by decide, rfl, rfl, rfl,
   by decide, by decide, by rfl, ⟨rfl, rfl, rfl, rfl, rfl⟩, by decide, by decide⟩
private theorem oobVec8 : ldrn_ElemOob cfgM stateM oVec8 :=
  ⟨hsVec, uniqNM symVec hsVec, uniqIM symVec hsVec, ⟨by decide, by decide, by decide⟩, by decide, by decide, rfl, rfl, rfl,
   by decide, by decide, by rfl, ⟨rfl, rfl, rfl, rfl, rfl⟩, by decide, by decide⟩

private theorem okMixed (it : ldmx_Item) (h : it ∈ mixed) : it.Ok cfgM stateM := by
  simp only [mixed, List.mem_cons, List.not_mem_nil, or_false] at h
  rcases h with rfl | rfl | rfl | rfl | rfl | rfl | rfl | rfl
  · exact okAbc
  · exact okVec2
  · exact okVec34
  · exact okAbc5
  · exact okR1Lvl
  · exact okR1Flag
  · exact okS1
  · exact oobVec9

private theorem okAll (it : ldmx_Item) (h : it ∈ allKinds) : it.Ok cfgM stateM := by
  rcases List.mem_append.1 h with h | h
  · exact okMixed it h
  · simp only [List.mem_cons, List.not_mem_nil, or_false] at h
    rcases h with rfl | rfl | rfl | rfl
    · exact okVec02
    · exact okP1
    · exact okBits33
    · exact okMainCnt

def tagEq (a b : LTag) : Bool := a.tag == b.tag && Ex4.pvEq a.value b.value && a.type == b.type && a.error == b.error
def tagsEq : List LTag → List LTag → Bool
  | [], [] => true
  | a :: as, b :: bs => tagEq a b && tagsEq as bs
  | _, _ => false
def okEq (r : Except Exn (List LTag)) (expected : List LTag) : Bool :=
  match r with
  | .ok ts => tagsEq ts expected
  | .error _ => false
def oobErr : Option TagErr :=
  some (.reply (.text (Drv.nm "General Error (see extended status) - Access beyond end of the object  (ff, 2105)")))
/-- the Tags of the call `mixed`, written out -/
def mixedTags : List LTag :=
  [{ tag := Drv.nm "abc", value := .int 42, type := some (Drv.nm "DINT"), error := none },
   { tag := Drv.nm "vec[2]", value := .int 30, type := some (Drv.nm "DINT"), error := none },
   { tag := Drv.nm "vec[3]", value := .list [.int 40, .int 50, .int 60, .int 70], type := some (Drv.nm "DINT[4]"), error := none },
   { tag := Drv.nm "abc.5", value := .bool true, type := some (Drv.nm "BOOL"), error := none },
   { tag := Drv.nm "r1.lvl", value := .int (-7), type := some (Drv.nm "INT"), error := none },
   { tag := Drv.nm "r1.flag", value := .bool true, type := some (Drv.nm "BOOL"), error := none },
   { tag := Drv.nm "s1", value := .str [65, 66, 233], type := some (Drv.nm "STR8"), error := none },
   { tag := Drv.nm "vec[9]", value := .none, type := none, error := oobErr }]
/-- … and of the four more requests of `allKinds` -/
def moreTags : List LTag :=
  [{ tag := Drv.nm "vec", value := .list [.int 10, .int 20], type := some (Drv.nm "DINT[2]"), error := none },
   { tag := Drv.nm "p1", value := .dict [(Drv.nm "x", .int 7), (Drv.nm "y", .int (-2))], type := some (Drv.nm "Pt"), error := none },
   { tag := Drv.nm "bits[33]", value := .bool false, type := some (Drv.nm "BOOL"), error := none },
   { tag := Drv.nm "Program:Main.cnt", value := .int 1234, type := some (Drv.nm "DINT"), error := none }]

-- evaluation checks of the runs (interpreter): the right-hand sides of the theorems against the model
#guard (worldM 4000).drv.targetIsConnected && (worldM 4000).drv.session == some 4097 &&
  (worldM 4000).drv.targetCid == some [238, 255, 192, 0] && (worldM 4000).drv.connectionSize == 4000
#guard (worldM 4000).net.target.base.sessions == [4097] && (worldM 4000).net.target.base.conns == [conn]
#guard (worldM 60).drv.targetIsConnected && (worldM 60).drv.connectionSize == 60 &&
  (worldM 60).net.target.base.conns == [connS]
#guard mixed.map (·.request) == [Drv.nm "abc", Drv.nm "vec[2]", Drv.nm "vec[3]{4}", Drv.nm "abc.5", Drv.nm "r1.lvl",
  Drv.nm "r1.flag", Drv.nm "s1", Drv.nm "vec[9]"]
#guard allKinds.map (·.request) == mixed.map (·.request) ++ [Drv.nm "vec{2}", Drv.nm "p1", Drv.nm "bits[33]", Drv.nm "Program:Main.cnt"]
#guard allKinds.map (·.plcTag) == [Drv.nm "abc", Drv.nm "vec[2]", Drv.nm "vec[3]", Drv.nm "abc", Drv.nm "r1.lvl",
  Drv.nm "r1.flag", Drv.nm "s1", Drv.nm "vec[9]", Drv.nm "vec", Drv.nm "p1", Drv.nm "bits[0]", Drv.nm "Program:Main.cnt"]
#guard allKinds.map (·.elements) == [1, 1, 4, 1, 1, 1, 1, 1, 2, 1, 2, 1]
#guard tagsEq (mixed.map (·.out)) mixedTags && tagsEq (allKinds.map (·.out)) (mixedTags ++ moreTags)
#guard allKinds.map (·.estimate cfgM) == [16, 18, 30, 16, 20, 19, 24, 18, 20, 20, 22, 32]
#guard readPackets 4000 (allKinds.map (·.estimate cfgM)) == [[0, 1, 2, 3, 4, 5, 6, 7, 8, 9, 10, 11]]
#guard readPackets 60 (allKinds.map (·.estimate cfgM)) == [[0, 1], [2, 3], [4, 5], [6, 7], [8, 9], [10], [11]]
#guard readPackets 60 (mixed.map (·.estimate cfgM)) == [[0, 1], [2, 3], [4, 5], [6, 7]]
#guard okEq (read hookAll cfgM (worldM 4000) (mixed.map (·.request))).2 mixedTags
#guard okEq (read hookAll cfgM (worldM 60) (mixed.map (·.request))).2 mixedTags
#guard okEq (read hookAll cfgM (worldM 4000) (allKinds.map (·.request))).2 (mixedTags ++ moreTags)
#guard okEq (read hookAll cfgM (worldM 60) (allKinds.map (·.request))).2 (mixedTags ++ moreTags)
#guard (read hookAll cfgM (worldM 4000) (allKinds.map (·.request))).1.net.sent.length == (worldM 4000).net.sent.length + 1
#guard (read hookAll cfgM (worldM 60) (allKinds.map (·.request))).1.net.sent.length == (worldM 60).net.sent.length + 7
#guard (read hookAll cfgM (worldM 4000) (allKinds.map (·.request))).1.drv.seqVal == (ldrn_adv 13 (worldM 4000).drv).seqVal
#guard (read hookAll cfgM (worldM 60) (allKinds.map (·.request))).1.drv.seqVal == (ldrn_adv 19 (worldM 60).drv).seqVal
-- the frames written are the frames of `readMixedMsgs` (`unitFrames`), computed here with `ExN.framesOf`
#guard (read hookAll cfgM (worldM 4000) (allKinds.map (·.request))).1.net.sent.drop (worldM 4000).net.sent.length ==
  ExN.framesOf (worldM 4000).drv.ctx (ldrn_adv 12 (worldM 4000).drv)
    (readMixedMsgs cfgM 4000 (allKinds.map fun it => (it.plcTag, it.info, it.elements)))
#guard (read hookAll cfgM (worldM 60) (allKinds.map (·.request))).1.net.sent.drop (worldM 60).net.sent.length ==
  ExN.framesOf (worldM 60).drv.ctx (ldrn_adv 12 (worldM 60).drv)
    (readMixedMsgs cfgM 60 (allKinds.map fun it => (it.plcTag, it.info, it.elements)))
-- the controller's memory is what it was
#guard (match (read hookAll cfgM (worldM 60) (allKinds.map (·.request))).1.net.target.ext.logix with
        | some st' => st'.proj.controller.map (·.mem) == projM.controller.map (·.mem) &&
            st'.proj.programs.map (fun p => p.2.map (·.mem)) == [[pCnt.mem]] && st'.ctr == stateM.ctr + 11
        | none => false)
-- the refused-subset form: `vec[2]` and `r1.lvl` replaced by refused requests, the other Tags are the same
#guard okEq (read hookAll cfgM (worldM 4000)
    [Drv.nm "abc", Drv.nm "vec[9]", Drv.nm "vec[3]{4}", Drv.nm "abc.5", Drv.nm "vec[8]", Drv.nm "r1.flag", Drv.nm "s1"]).2
  (mixedTags.take 1 ++ [{ tag := Drv.nm "vec[9]", value := .none, type := none, error := oobErr }] ++
   (mixedTags.drop 2).take 2 ++ [{ tag := Drv.nm "vec[8]", value := .none, type := none, error := oobErr }] ++
   (mixedTags.drop 5).take 2)

private theorem reqMixed : mixed.map (·.request) = [Drv.nm "abc", Drv.nm "vec[2]", Drv.nm "vec[3]{4}", Drv.nm "abc.5",
    Drv.nm "r1.lvl", Drv.nm "r1.flag", Drv.nm "s1", Drv.nm "vec[9]"] := by decide +kernel

private theorem outOob9 : (ldmx_Item.oob oVec9).out =
    { tag := Drv.nm "vec[9]", value := .none, type := none, error := oobErr } := by
  have e := (read_n_refused_tag_names_status oVec9).2.2
  have t : (ldrn_Item.oob oVec9).out.tag = Drv.nm "vec[9]" := by decide +kernel
  unfold oobErr
  rw [← e, ← t]
  rfl

private theorem ltag_ext (a b : LTag) (h1 : a.tag = b.tag) (h2 : a.value = b.value) (h3 : a.type = b.type)
    (h4 : a.error = b.error) : a = b := by
  cases a; cases b; simp only at h1 h2 h3 h4; subst h1 h2 h3 h4; rfl

private theorem outMixed : mixed.map (·.out) = mixedTags := by
  show [xAbc.out, eVec2.toWin.out, sVec34.toWin.out, bAbc5.out, mR1Lvl.out, mR1Flag.out, strS1.toTag.out,
    (ldmx_Item.oob oVec9).out] = _
  rw [outOob9]
  have e1 : xAbc.out = { tag := Drv.nm "abc", value := .int 42, type := some (Drv.nm "DINT"), error := none } := rfl
  have e2 : eVec2.toWin.out = { tag := Drv.nm "vec[2]", value := .int 30, type := some (Drv.nm "DINT"), error := none } :=
    ltag_ext _ _ (by decide +kernel) rfl (by decide +kernel) rfl
  have e3 : sVec34.toWin.out =
      { tag := Drv.nm "vec[3]", value := .list [.int 40, .int 50, .int 60, .int 70], type := some (Drv.nm "DINT[4]"), error := none } :=
    ltag_ext _ _ (by decide +kernel) rfl (by decide +kernel) rfl
  have e4 : bAbc5.out = { tag := Drv.nm "abc.5", value := .bool true, type := some (Drv.nm "BOOL"), error := none } :=
    ltag_ext _ _ (by decide +kernel) (congrArg PyVal.bool (by decide +kernel)) rfl rfl
  have e5 : mR1Lvl.out = { tag := Drv.nm "r1.lvl", value := .int (-7), type := some (Drv.nm "INT"), error := none } :=
    ltag_ext _ _ (by decide +kernel) rfl rfl rfl
  have e6 : mR1Flag.out = { tag := Drv.nm "r1.flag", value := .bool true, type := some (Drv.nm "BOOL"), error := none } :=
    ltag_ext _ _ (by decide +kernel) (congrArg PyVal.bool (by decide +kernel)) rfl rfl
  have e7 : strS1.toTag.out = { tag := Drv.nm "s1", value := .str [65, 66, 233], type := some (Drv.nm "STR8"), error := none } :=
    ltag_ext _ _ rfl (congrArg PyVal.str (by decide +kernel)) rfl rfl
  rw [e1, e2, e3, e4, e5, e6, e7]
  rfl

/-- every hypothesis of `read_mixed_isolated_e2e` holds for the concrete world: `read("abc", "vec[2]", "vec[3]{4}",
    "abc.5", "r1.lvl", "r1.flag", "s1", "vec[9]")` — a scalar, an element, a slice, a bit, an INT member and a BOOL
    member of a UDT, a string and an element beyond the array — returns 42, 30, [40, 50, 60, 70] named `vec[3]`, True,
    -7, True, "ABé" and a falsy Tag, in ONE multi-service exchange; nine sequence numbers are drawn; the controller
    serves seven requests -/
example : ∃ w' frm, read hookAll cfgM (worldM 4000) [Drv.nm "abc", Drv.nm "vec[2]", Drv.nm "vec[3]{4}", Drv.nm "abc.5",
      Drv.nm "r1.lvl", Drv.nm "r1.flag", Drv.nm "s1", Drv.nm "vec[9]"] = (w', .ok mixedTags) ∧
    w'.drv = ldrn_adv 9 (worldM 4000).drv ∧ w'.net.sent = (worldM 4000).net.sent ++ [frm] ∧
    w'.net.target.ext = { (worldM 4000).net.target.ext with logix := some { stateM with ctr := stateM.ctr + 7 } } ∧
    ldr_Healthy w' 4097 [238, 255, 192, 0] { conn with lastSeq := some (ldrn_adv 8 (worldM 4000).drv).nextSeq.1 } := by
  obtain ⟨w', frm, h, h2, h3, _, h5, h6⟩ := read_mixed_isolated_e2e cfgM (worldM 4000) 4097 [238, 255, 192, 0] conn stateM
    mixed healthyM (by rfl) rfl bytesM (by decide) okMixed (by decide +kernel) (by decide +kernel) (by decide +kernel)
  rw [reqMixed, outMixed] at h
  exact ⟨w', frm, h, h2, h3, h5, h6⟩

private theorem fitAll (it : ldmx_Item) (hit : it ∈ allKinds) :
    it.estimate cfgM + K.OVERHEAD ≤ (worldM 60).drv.connectionSize := by
  simp only [allKinds, mixed, List.cons_append, List.nil_append, List.mem_cons, List.not_mem_nil, or_false] at hit
  rcases hit with rfl | rfl | rfl | rfl | rfl | rfl | rfl | rfl | rfl | rfl | rfl | rfl <;> decide +kernel

/-- … of `read_mixed_e2e` on a connection of 60 bytes, with ALL kinds of items in one call (the eight requests above
    and `vec{2}`, the flat structure `p1`, the BOOL-array element `bits[33]`, the program-scoped `Program:Main.cnt`):
    the twelve requests travel in SEVEN multi-service packets (`readPackets` = [[0, 1], [2, 3], [4, 5], [6, 7], [8, 9],
    [10], [11]]), nineteen sequence numbers are drawn, the twelve Tags come back in request order; the controller
    serves eleven requests -/
example : ∃ w' frms, read hookAll cfgM (worldM 60) (allKinds.map (·.request)) = (w', .ok (allKinds.map (·.out))) ∧
    frms.length = 7 ∧ w'.drv = ldrn_adv 19 (worldM 60).drv ∧ w'.net.sent = (worldM 60).net.sent ++ frms ∧
    unitFrames (worldM 60).drv.ctx (ldrn_adv 12 (worldM 60).drv)
      (readMixedMsgs cfgM 60 (allKinds.map fun it => (it.plcTag, it.info, it.elements))) frms ∧
    w'.net.target.ext = { (worldM 60).net.target.ext with logix := some { stateM with ctr := stateM.ctr + 11 } } ∧
    ldr_Healthy w' 4097 [238, 255, 192, 0] { connS with lastSeq := some (ldrn_adv 18 (worldM 60).drv).nextSeq.1 } := by
  obtain ⟨w', frms, h1, h2, _, h4, h5, h6, h7, h8⟩ := read_mixed_e2e cfgM (worldM 60) 4097 [238, 255, 192, 0] connS stateM
    allKinds healthyS (by rfl) rfl bytesM (by decide) okAll fitAll (by decide +kernel) (by decide +kernel)
  have hk : (readPackets (worldM 60).drv.connectionSize (allKinds.map (·.estimate cfgM))).length = 7 := by decide +kernel
  have hc : (worldM 60).drv.connectionSize = 60 := by decide +kernel
  rw [hk] at h2
  rw [h2] at h4 h8
  rw [hc] at h6
  exact ⟨w', frms, h1, h2, h4, h5, h6, h7, h8⟩

/-- … of `read_mixed_refused_subset_e2e`: in the call `read("abc", "vec[2]", "vec[3]{4}", "abc.5", "r1.lvl", "r1.flag",
    "s1")` the second and the fifth request are replaced by `vec[9]` and `vec[8]` (beyond the eight elements): the five
    others keep exactly their Tags, the two replaced ones are falsy; the controller serves five requests -/
example : ∃ w' tags, read hookAll cfgM (worldM 4000)
      ((ldmx_refuseAt (mixed.take 7) [none, some oVec9, none, none, some oVec8]).map (·.request)) = (w', .ok tags) ∧
    tags.length = 7 ∧ tags[0]? = some xAbc.out ∧ tags[1]? = some (ldx_oobTag oVec9.request) ∧
    tags[2]? = some sVec34.toWin.out ∧ tags[3]? = some bAbc5.out ∧ tags[4]? = some (ldx_oobTag oVec8.request) ∧
    tags[5]? = some mR1Flag.out ∧ tags[6]? = some strS1.toTag.out ∧
    w'.net.target.ext = { (worldM 4000).net.target.ext with logix := some { stateM with ctr := stateM.ctr + 5 } } := by
  obtain ⟨w', tags, h1, h2, h3, h4, h5⟩ := read_mixed_refused_subset_e2e cfgM (worldM 4000) 4097 [238, 255, 192, 0] conn stateM
    (mixed.take 7) [none, some oVec9, none, none, some oVec8] healthyM (by rfl) rfl bytesM (by decide)
    (fun it hit => okMixed it (List.mem_of_mem_take hit))
    (by
      intro y hy
      simp only [List.mem_cons, Option.some.injEq, List.not_mem_nil, or_false, reduceCtorEq, false_or] at hy
      rcases hy with rfl | rfl
      · exact oobVec9
      · exact oobVec8)
    (by
      intro it hit
      simp only [mixed, List.take, ldmx_refuseAt, List.mem_cons, List.not_mem_nil, or_false] at hit
      rcases hit with rfl | rfl | rfl | rfl | rfl | rfl | rfl <;> decide +kernel)
    (by decide +kernel) (by decide +kernel)
  exact ⟨w', tags, h1, h2, h3 0 rfl, h4 1 oVec9 rfl (by decide), h3 2 rfl, h3 3 rfl, h4 4 oVec8 rfl (by decide), h3 5 rfl,
    h3 6 rfl, h5⟩

/-- … of `read_mixed_request_strings` (its only hypothesis: the slice is written with an index) -/
example : (ldmx_Item.slice sVec34).request = Drv.nm "vec" ++ [91] ++ decRender 3 ++ [93] ++ [123] ++ decRender 4 ++ [125] ∧
    (ldmx_Item.slice sVec34).out.tag = Drv.nm "vec" ++ [91] ++ decRender 3 ++ [93] :=
  ⟨(read_mixed_request_strings eVec2 sVec34 bAbc5 aBits33 pMainCnt rfl).2.2.1,
   (read_mixed_request_strings eVec2 sVec34 bAbc5 aBits33 pMainCnt rfl).2.2.2.1⟩
-- remark (why `hfit1`): on a connection of 50 bytes the slice `vec{8}` (estimate 45, + 10 > 50) is sent with the Read Tag
-- Fragmented service AFTER the multi-service packet of the two other requests: 2 frames although `readPackets` has 1 packet,
-- and 5 sequence numbers (3 + 1 for the discarded plain packet + 1) instead of n + k = 4; the three Tags are still right
#guard readPackets 50 ([ldmx_Item.scalar xAbc, .slice { sVec02 with n := 8 }, .bit bAbc5].map (·.estimate cfgM)) == [[0, 2]]
#guard (read hookAll cfgM (worldM 50) [Drv.nm "abc", Drv.nm "vec{8}", Drv.nm "abc.5"]).1.net.sent.length ==
  (worldM 50).net.sent.length + 2
#guard (read hookAll cfgM (worldM 50) [Drv.nm "abc", Drv.nm "vec{8}", Drv.nm "abc.5"]).1.drv.seqVal ==
  (ldrn_adv 5 (worldM 50).drv).seqVal
#guard okEq (read hookAll cfgM (worldM 50) [Drv.nm "abc", Drv.nm "vec{8}", Drv.nm "abc.5"]).2
  [{ tag := Drv.nm "abc", value := .int 42, type := some (Drv.nm "DINT"), error := none }, { tag := Drv.nm "vec", value := .list [.int 10, .int 20, .int 30, .int 40, .int 50, .int 60, .int 70, .int 80], type := some (Drv.nm "DINT[8]"), error := none },
   { tag := Drv.nm "abc.5", value := .bool true, type := some (Drv.nm "BOOL"), error := none }]
-- remark (requests may repeat): bit requests of ONE integer are NOT merged on the read path — `read("abc.5", "abc.6",
-- "abc.5")` embeds three Read Tag services of `abc` (the controller serves 3), draws 3 + 1 sequence numbers and returns
-- three Tags (pycomm3 merges bit WRITES of one tag into one read-modify-write request, not bit reads)
#guard (read hookAll cfgM (worldM 4000) [Drv.nm "abc.5", Drv.nm "abc.6", Drv.nm "abc.5"]).1.drv.seqVal ==
  (ldrn_adv 4 (worldM 4000).drv).seqVal
#guard (match (read hookAll cfgM (worldM 4000) [Drv.nm "abc.5", Drv.nm "abc.6", Drv.nm "abc.5"]).1.net.target.ext.logix with
        | some st' => st'.ctr == stateM.ctr + 3
        | none => false)
#guard okEq (read hookAll cfgM (worldM 4000) [Drv.nm "abc.5", Drv.nm "abc.6", Drv.nm "abc.5"]).2
  [{ tag := Drv.nm "abc.5", value := .bool true, type := some (Drv.nm "BOOL"), error := none },
   { tag := Drv.nm "abc.6", value := .bool false, type := some (Drv.nm "BOOL"), error := none },
   { tag := Drv.nm "abc.5", value := .bool true, type := some (Drv.nm "BOOL"), error := none }]


end ExM
end Pycomm.Lgx.Drv
