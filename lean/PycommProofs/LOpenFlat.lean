/-
  LogixDriver.open(), `_create_tag` / `_isolate_user_tags` for a controller whose user tags are elementary or
  structures with elementary members only ("flat" templates): with the template uploads and the two caches threaded
  through, the definitions are those of `Drv.userTags`.
-/
import PycommProofs.LOpenDataType
namespace Pycomm.Lgx.Opn
open Pycomm Pycomm.Tgt Pycomm.Path Pycomm.Reply Pycomm.Encap Pycomm.Lgx Pycomm.EP Pycomm.Lgx.E2E Pycomm.Lgx.Drv

/-- a template the flat upload handles: well-formed, elementary members only, attributes within their reply fields -/
def lo_FlatTemplate (p : Project) (tid : Nat) : Prop :=
  ∃ t tname junk, p.template? tid = some t ∧ Up.WfTemplate t tname junk ∧
    (∀ m ∈ t.members, (Up.atomicOfTyp m.typeWord).isSome = true) ∧
    t.defWords * 4 - 21 < 65536 ∧ t.size < 2 ^ 32 ∧ t.members.length < 65536 ∧ t.handle < 65536

/-- the state between two steps of `_isolate_user_tags`: the connection is healthy (size `size`), the controller runs
    `st` up to its schedule counter, and the caches agree with the project: a cached data type is the one
    `Drv.dataTypeOf` computes, and attributes are only cached together with the data type -/
structure lo_Good (st : LState) (sess : Nat) (cidb : Bytes) (size : Nat) (S : St Ext) : Prop where
  healthy : ∃ conn, ldr_Healthy S.w sess cidb conn ∧ conn.size = size
  logix : ∃ c, S.w.net.target.ext.logix = some { st with ctr := c }
  cacheS : ∀ tid, natGet S.cache.idUdt tid = none → natGet S.cache.idStruct tid = none
  cacheU : ∀ tid dt, natGet S.cache.idUdt tid = some dt →
    dataTypeOf st.proj (st.proj.templates.length + 1) tid = some dt

/-- what a step may change: the sequence counter, frames appended, `_info` / `_data_types` of the driver, the caches -/
structure lo_Step (S S' : St Ext) : Prop where
  drv : lo_SameDrv S.w.drv S'.w.drv
  sent : ∃ frms, S'.w.net.sent = S.w.net.sent ++ frms
  micro : S'.l.micro800 = S.l.micro800
  ids : S'.l.useInstanceIds = S.l.useInstanceIds
  tags : S'.l.tags = S.l.tags
  metas : S'.l.metas = S.l.metas
  left : S'.l.cacheLeft = S.l.cacheLeft

theorem lo_Step.refl (S : St Ext) : lo_Step S S := ⟨lo_SameDrv.refl _, ⟨[], by simp⟩, rfl, rfl, rfl, rfl, rfl⟩

theorem lo_Step.trans {A B C : St Ext} (h1 : lo_Step A B) (h2 : lo_Step B C) : lo_Step A C := by
  obtain ⟨f1, hf1⟩ := h1.sent
  obtain ⟨f2, hf2⟩ := h2.sent
  exact ⟨lo_SameDrv.trans h1.drv h2.drv, ⟨f1 ++ f2, by rw [hf2, hf1, List.append_assoc]⟩, h2.micro.trans h1.micro,
    h2.ids.trans h1.ids, h2.tags.trans h1.tags, h2.metas.trans h1.metas, h2.left.trans h1.left⟩

/-- the fields of a tag definition outside `Drv.TagInfo`, for any symbol -/
def lo_metaAll (wa : Bool) (s : Symbol) : TagMeta :=
  if s.symbolType / 32768 % 2 = 1 then
    { lo_metaOf wa s with templateInstanceId := some (s.symbolType % 4096), bitPosition := none }
  else lo_metaOf wa s

/-- `_create_tag` of a structure symbol whose template is flat: the data type comes from the cache or is uploaded
    (and cached); the definition is the one `Drv.createTag` computes -/
theorem lo_createTag_struct (st : LState) (sess : Nat) (cidb : Bytes) (size : Nat) (S : St Ext) (s : Symbol) (wa : Bool)
    (i : TagInfo) (hg : lo_Good st sess cidb size S) (hsize : 26 ≤ size)
    (hs : s.symbolType / 32768 % 2 = 1) (hflat : lo_FlatTemplate st.proj (s.symbolType % 4096))
    (hc : Drv.createTag st.proj s = some i) :
    ∃ S', createTag hookAll S (Up.recOfSymbol wa s) = (S', .ok (i, lo_metaAll wa s)) ∧
      lo_Good st sess cidb size S' ∧ lo_Step S S' := by
  have h1 : (K.decodeTypeWord s.symbolType).isStruct = true := by simp [K.decodeTypeWord, hs]
  have h2 : (K.decodeTypeWord (Up.recOfSymbol wa s).symbolType).isStruct = true := h1
  -- what `Drv.createTag` did
  obtain ⟨dt, hdt, hi⟩ : ∃ dt : DT, dataTypeOf st.proj (st.proj.templates.length + 1) (s.symbolType % 4096) = some dt ∧
      i = .mk { tagType := .struct, dataTypeName := dt.1.name,
                ty := (if s.symbolType / 8192 % 4 ≠ 0 then
                  .arr (.fixed ((((s.dims ++ [0, 0, 0]).take 3).take (s.symbolType / 8192 % 4)).foldl (· * ·) 1)) dt.2.1
                  else dt.2.1),
                dim := s.symbolType / 8192 % 4, dimensions := (s.dims ++ [0, 0, 0]).take 3,
                instanceId := some s.inst, struct := some dt.1 } dt.2.2 := by
    unfold Drv.createTag at hc
    simp only [h1, if_true] at hc
    simp only [K.decodeTypeWord] at hc
    cases hd : dataTypeOf st.proj (st.proj.templates.length + 1) (s.symbolType % 4096) with
    | none => rw [hd] at hc; cases hc
    | some dt =>
      rw [hd] at hc
      obtain ⟨si, t, ms⟩ := dt
      simp only [Option.some.injEq] at hc
      exact ⟨(si, t, ms), rfl, hc.symm⟩
  have hmeta : lo_metaAll wa s = { lo_metaOf wa s with templateInstanceId := some (s.symbolType % 4096), bitPosition := none } := by
    unfold lo_metaAll; rw [if_pos hs]
  -- the model's `_create_tag` in terms of `getDataType`
  have hct : ∀ (S' : St Ext), getDataType hookAll DT_FUEL S (s.symbolType % 4096) s.symbolType = (S', .ok dt) →
      createTag hookAll S (Up.recOfSymbol wa s) = (S', .ok (i, lo_metaAll wa s)) := by
    intro S' hgd
    unfold createTag
    simp only [h2, if_true]
    simp only [Up.recOfSymbol, lo_dims3, K.decodeTypeWord]
    rw [hgd]
    obtain ⟨si, t, ms⟩ := dt
    dsimp only
    rw [hi, hmeta]
    rfl
  cases hcache : natGet S.cache.idUdt (s.symbolType % 4096) with
  | some dt' =>
    have hdt' := hg.cacheU _ _ hcache
    rw [hdt] at hdt'
    cases hdt'
    refine ⟨S, hct S ?_, hg, lo_Step.refl S⟩
    show getDataType hookAll (63 + 1) S _ _ = _
    rw [getDataType, hcache]
  | none =>
    obtain ⟨t, tname, junk, ht, hwf, hfl, hW, hS, hM, hH⟩ := hflat
    obtain ⟨conn, hw, hcs⟩ := hg.healthy
    obtain ⟨c, hlogix⟩ := hg.logix
    have hlenT : (templateData t).length ≤ TMPL_FUEL := by
      rw [lo_templateData_length]; unfold TMPL_FUEL; omega
    obtain ⟨w', conn', j, hgd, hh', hcs', hsd, hsent, hext⟩ := lo_getDataType_flat S sess cidb conn { st with ctr := c } t
      (s.symbolType % 4096) s.symbolType 63 st.proj.templates.length tname junk dt hw hlogix ht
      (by omega) (by omega) hcache (hg.cacheS _ hcache) hW hS hM hH hwf hlenT hfl (by omega) hdt
    refine ⟨_, hct _ hgd, ⟨⟨conn', hh', by omega⟩, ⟨c + j, by rw [hext]⟩, ?_, ?_⟩,
      ⟨hsd, hsent, rfl, rfl, rfl, rfl, rfl⟩⟩
    · intro tid hn
      show natGet (natSet S.cache.idStruct (s.symbolType % 4096) (lo_attrsOf t)) tid = none
      have hn' : natGet (natSet S.cache.idUdt (s.symbolType % 4096) dt) tid = none := hn
      by_cases hk : tid = s.symbolType % 4096
      · subst hk
        rw [lo_natGet_natSet_same _ _ _ hcache] at hn'
        cases hn'
      · rw [lo_natGet_natSet_other _ _ _ _ hcache hk] at hn'
        rw [lo_natGet_natSet_other _ _ _ _ (hg.cacheS _ hcache) hk]
        exact hg.cacheS _ hn'
    · intro tid d hn
      have hn' : natGet (natSet S.cache.idUdt (s.symbolType % 4096) dt) tid = some d := hn
      by_cases hk : tid = s.symbolType % 4096
      · subst hk
        rw [lo_natGet_natSet_same _ _ _ hcache] at hn'
        cases hn'
        exact hdt
      · rw [lo_natGet_natSet_other _ _ _ _ hcache hk] at hn'
        exact hg.cacheU _ _ hn'

/-- `_isolate_user_tags` (controller scope) on the uploaded records of symbols whose user tags are elementary or of
    flat structure types, when `Drv.userTags` succeeds: the tag definitions are exactly those of `Drv.userTags`, each
    with its `lo_metaAll`; the invariant of the state is kept -/
theorem lo_isolate_flat (st : LState) (sess : Nat) (cidb : Bytes) (size : Nat) (hsize : 26 ≤ size) (wa : Bool) :
    ∀ (syms : List Symbol) (S : St Ext) (ys : List (Name × TagInfo)),
    lo_Good st sess cidb size S →
    (∀ s ∈ syms, K.keepSymbol s.name s.symbolType = true → s.symbolType / 32768 % 2 = 1 →
      lo_FlatTemplate st.proj (s.symbolType % 4096)) →
    Drv.userTags st.proj [] syms = some ys →
    ∃ S' xs, isolateUserTags hookAll none S (syms.map (Up.recOfSymbol wa)) = (S', .ok xs) ∧
      xs.map (fun x => (x.1, x.2.1)) = ys ∧
      xs.map (fun x => (x.1, x.2.2)) =
        (syms.filter fun s => K.keepSymbol s.name s.symbolType).map (fun s => (s.name, lo_metaAll wa s)) ∧
      lo_Good st sess cidb size S' ∧ lo_Step S S' := by
  intro syms
  induction syms with
  | nil =>
    intro S ys hg _ hy
    simp only [Drv.userTags, List.filter_nil, List.mapM_nil, Option.pure_def, Option.some.injEq] at hy
    subst hy
    exact ⟨S, [], rfl, rfl, rfl, hg, lo_Step.refl S⟩
  | cons s syms ih =>
    intro S ys hg hfl hy
    have hfl' : ∀ s' ∈ syms, K.keepSymbol s'.name s'.symbolType = true → s'.symbolType / 32768 % 2 = 1 →
        lo_FlatTemplate st.proj (s'.symbolType % 4096) := fun s' hs' => hfl s' (List.mem_cons_of_mem _ hs')
    rw [List.map_cons]
    unfold isolateUserTags
    have hrn : (Up.recOfSymbol wa s).name = s.name := rfl
    have hrt : (Up.recOfSymbol wa s).symbolType = s.symbolType := rfl
    rw [hrn, hrt]
    -- the `_info` bookkeeping does not touch what the invariant talks about
    have hg0 : lo_Good st sess cidb size { S with l := { S.l with info := noteSymbol none S.l.info (Up.recOfSymbol wa s) } } :=
      ⟨hg.healthy, hg.logix, hg.cacheS, hg.cacheU⟩
    have hs0 : lo_Step S { S with l := { S.l with info := noteSymbol none S.l.info (Up.recOfSymbol wa s) } } :=
      ⟨lo_SameDrv.refl _, ⟨[], by simp⟩, rfl, rfl, rfl, rfl, rfl⟩
    cases hk : K.keepSymbol s.name s.symbolType with
    | false =>
      have hy' : Drv.userTags st.proj [] syms = some ys := by
        unfold Drv.userTags at hy ⊢
        rw [List.filter_cons, hk] at hy
        exact hy
      simp only [Bool.not_false, if_true]
      obtain ⟨S', xs, h1, h2, h3, hg', hs'⟩ := ih _ ys hg0 hfl' hy'
      refine ⟨S', xs, h1, h2, ?_, hg', lo_Step.trans hs0 hs'⟩
      rw [h3, List.filter_cons, hk]
      rfl
    | true =>
      simp only [Bool.not_true, Bool.false_eq_true, if_false]
      unfold Drv.userTags at hy
      rw [List.filter_cons, hk] at hy
      simp only [if_true] at hy
      rw [List.mapM_cons] at hy
      cases hc : Drv.createTag st.proj s with
      | none => rw [hc] at hy; cases hy
      | some i =>
        cases hr : (syms.filter fun s => K.keepSymbol s.name s.symbolType).mapM
            (fun s => (Drv.createTag st.proj s).map fun i => (([] : Name) ++ s.name, i)) with
        | none => rw [hc, hr] at hy; cases hy
        | some bs =>
          rw [hc, hr] at hy
          simp only [Option.map_some, Option.bind_eq_bind, Option.bind_some, Option.pure_def, List.nil_append,
            Option.some.injEq] at hy
          subst hy
          -- `_create_tag`
          obtain ⟨S1, hct, hg1, hs1⟩ : ∃ S1, createTag hookAll
              { S with l := { S.l with info := noteSymbol none S.l.info (Up.recOfSymbol wa s) } } (Up.recOfSymbol wa s) =
                (S1, .ok (i, lo_metaAll wa s)) ∧ lo_Good st sess cidb size S1 ∧
              lo_Step { S with l := { S.l with info := noteSymbol none S.l.info (Up.recOfSymbol wa s) } } S1 := by
            by_cases hst : s.symbolType / 32768 % 2 = 1
            · exact lo_createTag_struct st sess cidb size _ s wa i hg0 hsize hst (hfl s List.mem_cons_self hk hst) hc
            · have hns : s.symbolType / 32768 % 2 = 0 := by omega
              refine ⟨_, ?_, hg0, lo_Step.refl _⟩
              rw [lo_createTag_atomic hookAll _ st.proj s wa hns, hc]
              unfold lo_metaAll
              rw [if_neg hst]
          rw [hct]
          dsimp only
          obtain ⟨S', xs, h1, h2, h3, hg', hs'⟩ := ih S1 bs hg1 hfl' hr
          rw [h1]
          refine ⟨S', (s.name, i, lo_metaAll wa s) :: xs, rfl, ?_, ?_, hg', lo_Step.trans hs0 (lo_Step.trans hs1 hs')⟩
          · rw [List.map_cons, h2]
          · rw [List.map_cons, h3, List.filter_cons, hk]
            rfl

end Pycomm.Lgx.Opn
