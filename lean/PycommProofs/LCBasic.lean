/-
  Helper lemmas for the C10 proofs (connection lifecycle): exception classes of every step of the client model,
  fuel sufficiency of the forward-open / generic-message recursion, and what `close()` / `open()` do to the
  driver, the transport and the target.
-/
import PycommModel.Client
import PycommProofs.EncapProofs
import PycommProofs.GenericProofs
import PycommProofs.ReplyProofs
namespace Pycomm.Cli
open Pycomm.Tgt Pycomm.Encap Pycomm.Path Pycomm.Reply

/-- the library exceptions -/
def LcLib (e : Exn) : Prop := e = .comm ∨ e = .response ∨ e = .data ∨ e = .request ∨ e = .bufferEmpty

theorem lc_lib_comm : LcLib .comm := .inl rfl
theorem lc_lib_response : LcLib .response := .inr (.inl rfl)
theorem lc_lib_data : LcLib .data := .inr (.inr (.inl rfl))
theorem lc_lib_request : LcLib .request := .inr (.inr (.inr (.inl rfl)))
theorem lc_lib_bufferEmpty : LcLib .bufferEmpty := .inr (.inr (.inr (.inr rfl)))

/-! ### exception classes of the helpers -/

theorem lc_encEpath_err (p : Bool) (segs : List Seg) (l pl : Bool) (e : Exn)
    (h : encEpath p segs l pl = .error e) : e = .data := by
  unfold encEpath at h
  split at h
  · cases h; rfl
  · split at h
    · split at h
      · cases h
      · cases h; rfl
    · cases h

theorem lc_requestPath_err (c i a : LVal) (e : Exn) (h : requestPath c i a = .error e) : e = .data :=
  lc_encEpath_err _ _ _ _ _ h

theorem lc_parseCipRouteStr_err (s : Name) (b : Bool) (e : Exn) (h : parseCipRouteStr s b = .error e) :
    e = .request := by
  unfold parseCipRouteStr parseCipRouteList at h
  split at h
  · cases h
  · split at h
    · cases h
    · split at h
      · cases h; rfl
      · cases h

theorem lc_errorCip_err (raw : Option Bytes) (tr : Transport) (p : Parsed) (v : Bool) (e : Exn)
    (h : errorCip raw tr p v = .error e) : e = .bufferEmpty ∨ e = .data := by
  have ext : ∀ (r : Bytes) (s : Int) (e : Exn),
      ((extendedText r tr s).map fun t => some (Err.text t)) = .error e → e = .bufferEmpty ∨ e = .data := by
    intro r s e h
    rcases RP.extendedText_cases r tr s with ⟨t, ht, _⟩ | ⟨e', he, hc⟩
    · rw [ht] at h; cases h
    · rw [he] at h; cases h; exact hc
  unfold errorCip at h
  split at h
  · cases h
  · split at h
    · cases h
    · split at h
      · cases h
      · split at h
        · exact ext _ _ _ h
        · split at h
          · exact ext _ _ _ h
          · cases h

theorem lc_sendReq_err {σ} (hook : ObjHook σ) (w : World σ) (r : Req) (nr : Bool) (e : Exn)
    (h : (sendReq hook w r nr).2 = .error e) : e = .comm ∨ e = .data := by
  unfold sendReq at h
  split at h
  · next e' hb => cases h; exact EN.buildRequest_err _ _ _ hb
  · split at h
    · cases h; exact .inl rfl
    · dsimp only at h
      split at h
      · cases h; exact .inl rfl
      · split at h
        · cases h
        · split at h
          · cases h; exact .inl rfl
          · cases h

theorem lc_sendReq_lib {σ} (hook : ObjHook σ) (w : World σ) (r : Req) (nr : Bool) (e : Exn)
    (h : (sendReq hook w r nr).2 = .error e) : LcLib e := by
  rcases lc_sendReq_err hook w r nr e h with rfl | rfl
  · exact lc_lib_comm
  · exact lc_lib_data

theorem lc_errorCip_lib (raw : Option Bytes) (tr : Transport) (p : Parsed) (v : Bool) (e : Exn)
    (h : errorCip raw tr p v = .error e) : LcLib e := by
  rcases lc_errorCip_err raw tr p v e h with rfl | rfl
  · exact lc_lib_bufferEmpty
  · exact lc_lib_data

/-- one level of `genericMessage` -/
theorem lc_gm_step {σ} (hook : ObjHook σ) (fuel : Nat) (w : World σ) (a : GenArgs) (e : Exn)
    (H : a.connected = true → ∀ w' e', (ensureForwardOpen hook fuel w').2 = .error e' → LcLib e')
    (h : (genericMessage hook (fuel + 1) w a).2 = .error e) : LcLib e := by
  rw [genericMessage] at h
  cases hc : a.connected with
  | false =>
    simp only [hc, Bool.false_eq_true, if_false] at h
    split at h
    · next e' hr => cases h; rw [lc_requestPath_err _ _ _ _ hr]; exact lc_lib_data
    · split at h
      · next e' hr =>
        cases h
        split at hr
        · rw [lc_encEpath_err _ _ _ _ _ hr]; exact lc_lib_data
        · cases hr
        · cases hr
        · split at hr
          · rw [lc_encEpath_err _ _ _ _ _ hr]; exact lc_lib_data
          · next e2 h2 => cases hr; rw [lc_parseCipRouteStr_err _ _ _ h2]; exact lc_lib_request
        · split at hr
          · cases hr
          · rw [lc_encEpath_err _ _ _ _ _ hr]; exact lc_lib_data
      · split at h
        · next e' hr =>
          cases h
          split at hr
          · split at hr
            · cases hr
            · cases hr; exact lc_lib_data
          · cases hr
        · split at h
          · next e' hs => cases h; exact lc_sendReq_lib hook _ _ _ _ hs
          · split at h
            · next e' he => cases h; exact lc_errorCip_lib _ _ _ _ _ he
            · cases h
  | true =>
    simp only [hc, if_true] at h
    rcases hp : ensureForwardOpen hook fuel w with ⟨w0, pre⟩
    rw [hp] at h
    dsimp only at h
    split at h
    · cases h; exact H hc w _ (by rw [hp])
    · split at h
      · next e' hr => cases h; rw [lc_requestPath_err _ _ _ _ hr]; exact lc_lib_data
      · split at h
        · next e' hs => cases h; exact lc_sendReq_lib hook _ _ _ _ hs
        · split at h
          · next e' he => cases h; exact lc_errorCip_lib _ _ _ _ _ he
          · cases h

/-- one level of `forwardOpen` -/
theorem lc_fo_step {σ} (hook : ObjHook σ) (fuel : Nat) (w : World σ) (e : Exn)
    (H : ∀ w' a e', a.connected = false → (genericMessage hook fuel w' a).2 = .error e' → LcLib e')
    (h : (forwardOpen hook (fuel + 1) w).2 = .error e) : LcLib e := by
  rw [forwardOpen] at h
  split at h
  · cases h
  · split at h
    · cases h; exact lc_lib_comm
    · dsimp only at h
      split at h
      · rename_i np route _ _
        rcases hg : genericMessage hook fuel w _ with ⟨w1, r⟩
        rw [hg] at h
        dsimp only at h
        split at h
        · cases h
          exact H _ _ _ rfl (by rw [hg])
        · split at h <;> cases h
      · cases h; exact lc_lib_data

/-- one level of `ensureForwardOpen` -/
theorem lc_efo_step {σ} (hook : ObjHook σ) (fuel : Nat) (w : World σ) (e : Exn)
    (H : ∀ w' e', (forwardOpen hook fuel w').2 = .error e' → LcLib e')
    (h : (ensureForwardOpen hook (fuel + 1) w).2 = .error e) : LcLib e := by
  rw [ensureForwardOpen] at h
  split at h
  · cases h
  · rcases hf : forwardOpen hook fuel w with ⟨w1, r⟩
    rw [hf] at h
    dsimp only at h
    split at h
    · cases h; exact H w _ (by rw [hf])
    · cases h
    · split at h
      · rcases hf2 : forwardOpen hook fuel _ with ⟨w3, r2⟩
        rw [hf2] at h
        dsimp only at h
        split at h
        · cases h; exact H _ _ (by rw [hf2])
        · cases h
        · cases h; exact lc_lib_response
      · cases h; exact lc_lib_response

theorem lc_gm_unconn_lib {σ} (hook : ObjHook σ) (n : Nat) (w : World σ) (a : GenArgs) (e : Exn)
    (hc : a.connected = false) (h : (genericMessage hook (n + 1) w a).2 = .error e) : LcLib e :=
  lc_gm_step hook n w a e (fun h' => by rw [hc] at h'; cases h') h

theorem lc_fo_lib {σ} (hook : ObjHook σ) (n : Nat) (w : World σ) (e : Exn)
    (h : (forwardOpen hook (n + 2) w).2 = .error e) : LcLib e :=
  lc_fo_step hook (n + 1) w e (fun w' a e' hc h' => lc_gm_unconn_lib hook n w' a e' hc h') h

theorem lc_efo_lib {σ} (hook : ObjHook σ) (n : Nat) (w : World σ) (e : Exn)
    (h : (ensureForwardOpen hook (n + 3) w).2 = .error e) : LcLib e :=
  lc_efo_step hook (n + 2) w e (fun w' e' h' => lc_fo_lib hook n w' e' h') h

/-- with four levels of fuel a generic message never runs out of fuel, and every failure is a library exception -/
theorem lc_gm_lib {σ} (hook : ObjHook σ) (n : Nat) (w : World σ) (a : GenArgs) (e : Exn)
    (h : (genericMessage hook (n + 4) w a).2 = .error e) : LcLib e :=
  lc_gm_step hook (n + 3) w a e (fun _ w' e' h' => lc_efo_lib hook n w' e' h') h

/-- the first try-block of `close()`, part 1: forward close when the driver believes it is connected -/
def lcCloseFc {σ} (hook : ObjHook σ) (w : World σ) : World σ × Except Exn Unit :=
  if w.drv.targetIsConnected then
    (match forwardClose hook w with | (w', .error e) => (w', .error e) | (w', .ok _) => (w', .ok ()))
  else (w, .ok ())

/-- part 2: unregister when a session is registered; the flag says whether a step raised -/
def lcCloseUnreg {σ} (hook : ObjHook σ) (p : World σ × Except Exn Unit) : World σ × Bool :=
  match p with
  | (wa, ra) =>
    match ra with
    | .error _ => (wa, true)
    | .ok _ =>
        if wa.drv.session != some 0 then
          let (wb, rb) := sendReq hook wa .unregisterSession true
          match rb with
          | .error _ => (wb, true)
          | .ok _ => ({ wb with drv := { wb.drv with session := none } }, false)
        else (wa, false)

/-- the first try-block of `close()` -/
def lcCloseTry {σ} (hook : ObjHook σ) (w : World σ) : World σ × Bool :=
  lcCloseUnreg hook (lcCloseFc hook w)

def lcClosedDrv (d : Drv) : Drv :=
  { d with hasSock := false, targetIsConnected := false, session := some 0, connectionOpened := false }

theorem lc_closeDrv_eq {σ} (hook : ObjHook σ) (w : World σ) :
    closeDrv hook w =
      ({ drv := lcClosedDrv (lcCloseTry hook w).1.drv,
         net := if (lcCloseTry hook w).1.drv.hasSock then (lcCloseTry hook w).1.net.sockClose
                else (lcCloseTry hook w).1.net },
       if (lcCloseTry hook w).2 then .error .comm else .ok ()) := rfl

theorem lc_closeDrv_err {σ} (hook : ObjHook σ) (w : World σ) (e : Exn)
    (h : (closeDrv hook w).2 = .error e) : e = .comm := by
  rw [lc_closeDrv_eq] at h
  dsimp only at h
  split at h
  · cases h; rfl
  · cases h

theorem lc_openDrv_err {σ} (hook : ObjHook σ) (w : World σ) (rnd : Bytes) (e : Exn)
    (h : (openDrv hook w rnd).2 = .error e) : e = .comm := by
  unfold openDrv at h
  split at h
  · cases h
  · dsimp only at h
    split at h
    · cases h; rfl
    · cases h
    · cases h

/-! ### what one exchange does to the transport -/

/-- one frame written to the socket: the fault plan and the TCP state stay, the target is untouched or has
    handled exactly this frame -/
def LcNetStep {σ} (hook : ObjHook σ) (frame : Bytes) (n n' : Net σ) : Prop :=
  n'.faults = n.faults ∧ n'.tcpOpen = n.tcpOpen ∧
  (n'.target = n.target ∨ n'.target = (handle hook n.target frame).1)

theorem lc_sockSend_step {σ} (hook : ObjHook σ) (n : Net σ) (frame : Bytes) :
    LcNetStep hook frame n (n.sockSend hook frame).1 := by
  unfold Net.sockSend
  dsimp only
  split
  · exact ⟨rfl, rfl, .inl rfl⟩
  · split
    · exact ⟨rfl, rfl, .inl rfl⟩
    · exact ⟨rfl, rfl, .inr rfl⟩

theorem lc_sockReceive_same {σ} (n : Net σ) :
    n.sockReceive.1.faults = n.faults ∧ n.sockReceive.1.tcpOpen = n.tcpOpen ∧ n.sockReceive.1.target = n.target := by
  unfold Net.sockReceive
  dsimp only
  split
  · exact ⟨rfl, rfl, rfl⟩
  · split <;> exact ⟨rfl, rfl, rfl⟩

/-- `send`: the driver attributes are untouched; the transport is untouched, or the request was built, a socket
    exists and the frame went out -/
theorem lc_sendReq_world {σ} (hook : ObjHook σ) (w : World σ) (r : Req) (nr : Bool) :
    (sendReq hook w r nr).1.drv = w.drv ∧
    ((sendReq hook w r nr).1.net = w.net ∨
      ∃ frame, buildRequest r w.drv.ctx = .ok frame ∧ w.drv.hasSock = true ∧
        LcNetStep hook frame w.net (sendReq hook w r nr).1.net) := by
  unfold sendReq
  split
  · exact ⟨rfl, .inl rfl⟩
  · next frame hb =>
    split
    · exact ⟨rfl, .inl rfl⟩
    · next hs =>
      have hs' : w.drv.hasSock = true := by simpa using hs
      have h1 := lc_sockSend_step hook w.net frame
      dsimp only
      split
      · exact ⟨rfl, .inr ⟨frame, hb, hs', h1⟩⟩
      · split
        · exact ⟨rfl, .inr ⟨frame, hb, hs', h1⟩⟩
        · have h2 := lc_sockReceive_same (w.net.sockSend hook frame).1
          have h3 : LcNetStep hook frame w.net ((w.net.sockSend hook frame).1.sockReceive).1 := by
            obtain ⟨a, b, c⟩ := h1
            obtain ⟨a', b', c'⟩ := h2
            exact ⟨a'.trans a, b'.trans b, by rw [c']; exact c⟩
          split
          · exact ⟨rfl, .inr ⟨frame, hb, hs', h3⟩⟩
          · exact ⟨rfl, .inr ⟨frame, hb, hs', h3⟩⟩

/-- an unconnected generic message: the driver attributes are untouched; the transport is untouched or exactly
    one SendRRData frame with the request went out -/
theorem lc_gm_unconn_world {σ} (hook : ObjHook σ) (n : Nat) (w : World σ) (a : GenArgs)
    (hc : a.connected = false) :
    (genericMessage hook (n + 1) w a).1.drv = w.drv ∧
    ((genericMessage hook (n + 1) w a).1.net = w.net ∨
      ∃ reqPath rp m frame, requestPath a.cls a.inst a.attr = .ok reqPath ∧
        (a.unconnectedSend = false → m = [UInt8.ofNat a.service] ++ reqPath ++ a.data ++ rp) ∧
        buildRequest (.sendRR m) w.drv.ctx = .ok frame ∧ w.drv.hasSock = true ∧
        LcNetStep hook frame w.net (genericMessage hook (n + 1) w a).1.net) := by
  rw [genericMessage]
  simp only [hc, Bool.false_eq_true, if_false]
  split
  · exact ⟨rfl, .inl rfl⟩
  · next reqPath hrp =>
    split
    · exact ⟨rfl, .inl rfl⟩
    · next rp _ =>
      split
      · exact ⟨rfl, .inl rfl⟩
      · next m hm =>
        have hm' : a.unconnectedSend = false → m = [UInt8.ofNat a.service] ++ reqPath ++ a.data ++ rp := by
          intro hu
          simp only [hu, Bool.false_eq_true, if_false, Except.ok.injEq] at hm
          exact hm.symm
        obtain ⟨hd, hn⟩ := lc_sendReq_world hook w (.sendRR m) false
        have key : (sendReq hook w (.sendRR m) false).1.drv = w.drv ∧
            ((sendReq hook w (.sendRR m) false).1.net = w.net ∨
              ∃ reqPath rp m' frame, requestPath a.cls a.inst a.attr = .ok reqPath ∧
                (a.unconnectedSend = false → m' = [UInt8.ofNat a.service] ++ reqPath ++ a.data ++ rp) ∧
                buildRequest (.sendRR m') w.drv.ctx = .ok frame ∧ w.drv.hasSock = true ∧
                LcNetStep hook frame w.net (sendReq hook w (.sendRR m) false).1.net) := by
          refine ⟨hd, ?_⟩
          rcases hn with hn | ⟨frame, hb, hs, hstep⟩
          · exact .inl hn
          · exact .inr ⟨reqPath, rp, m, frame, hrp, hm', hb, hs, hstep⟩
        split
        · exact key
        · split <;> exact key

/-! ### the target on the frames `close()` sends -/

/-- the target's policy and session counter are as before, and a target without sessions stays without -/
def LcTgtSame {σ} (t t' : Target σ) : Prop :=
  t'.base.policy = t.base.policy ∧ t'.base.nextSession = t.base.nextSession ∧
  (t.base.sessions = [] → t'.base.sessions = [])

theorem lc_tgtSame_refl {σ} (t : Target σ) : LcTgtSame t t := ⟨rfl, rfl, id⟩

theorem lc_tgtSame_trans {σ} {a b c : Target σ} (h1 : LcTgtSame a b) (h2 : LcTgtSame b c) : LcTgtSame a c :=
  ⟨h2.1.trans h1.1, h2.2.1.trans h1.2.1, fun h => h2.2.2 (h1.2.2 h)⟩

theorem lc_tgt_forwardClose_same (b : Base) (d : Bytes) :
    (Pycomm.Tgt.forwardClose b d).1.policy = b.policy ∧ (Pycomm.Tgt.forwardClose b d).1.nextSession = b.nextSession ∧
    (Pycomm.Tgt.forwardClose b d).1.sessions = b.sessions := by
  unfold Pycomm.Tgt.forwardClose
  split
  · exact ⟨rfl, rfl, rfl⟩
  · dsimp only
    split
    · exact ⟨rfl, rfl, rfl⟩
    · split <;> exact ⟨rfl, rfl, rfl⟩

theorem lc_parseMR_fclose (rest : Bytes) :
    parseMR (0x4E :: 0x02 :: 0x20 :: 0x06 :: 0x24 :: 0x01 :: rest) =
      some { service := 0x4E, path := [PSeg.logical 0 6, PSeg.logical 4 1], data := rest } := by
  have h0 : parseRequestPath [0x02, 0x20, 0x06, 0x24, 0x01] = some ([PSeg.logical 0 6, PSeg.logical 4 1], []) := by
    decide
  have h1 := parseRequestPath_append _ rest _ h0
  simp only [List.cons_append, List.nil_append] at h1
  simp only [parseMR, h1]
  rfl

/-- the message router on a Forward Close request: the connection manager answers, no object hook is consulted -/
theorem lc_execMR_fclose {σ} (hook : ObjHook σ) (t : Target σ) (s : Nat) (cs : Option Nat) (v : Bool) (route rest : Bytes) :
    LcTgtSame t (execMR hook t s cs false v route (0x4E :: 0x02 :: 0x20 :: 0x06 :: 0x24 :: 0x01 :: rest)).1 := by
  unfold execMR
  rw [lc_parseMR_fclose]
  simp only [classInst]
  have h := lc_tgt_forwardClose_same (t.base.event (.mr false v { service := 0x4E, path := [PSeg.logical 0 6, PSeg.logical 4 1], data := rest } route)) rest
  simp (config := { decide := true }) only [if_false, if_true]
  exact ⟨h.1, h.2.1, fun hs => h.2.2.trans hs⟩

/-- a SendRRData frame carrying a Forward Close request -/
theorem lc_handle_fclose {σ} (hook : ObjHook σ) (t : Target σ) (raw : Bytes) (f : Frame) (rest : Bytes)
    (hp : parseFrame raw = some f) (hcmd : f.command = CMD_SEND_RR)
    (hb : parseCpf f.body = some (.unconnected (0x4E :: 0x02 :: 0x20 :: 0x06 :: 0x24 :: 0x01 :: rest))) :
    LcTgtSame t (handle hook t raw).1 := by
  have hucs : isUcs (0x4E :: 0x02 :: 0x20 :: 0x06 :: 0x24 :: 0x01 :: rest) = none := by
    rw [isUcs, lc_parseMR_fclose]
    simp
  unfold handle
  rw [hp]
  dsimp only
  split
  · exact ⟨rfl, rfl, id⟩
  · rw [hcmd]
    simp (config := { decide := true }) only [CMD_SEND_RR, CMD_REGISTER, CMD_LIST_IDENTITY, CMD_UNREGISTER, if_false]
    split
    · exact ⟨rfl, rfl, id⟩
    · rw [hb]
      dsimp only
      rw [hucs]
      dsimp only
      exact lc_execMR_fclose hook _ _ _ _ _ _

/-- an UnRegisterSession frame -/
theorem lc_handle_unreg {σ} (hook : ObjHook σ) (t : Target σ) (raw : Bytes) (f : Frame)
    (hp : parseFrame raw = some f) (hcmd : f.command = CMD_UNREGISTER) :
    LcTgtSame t (handle hook t raw).1 := by
  unfold handle
  rw [hp]
  dsimp only
  split
  · exact ⟨rfl, rfl, id⟩
  · rw [hcmd]
    simp (config := { decide := true }) only [CMD_REGISTER, CMD_LIST_IDENTITY, CMD_UNREGISTER, if_false]
    split
    · exact ⟨rfl, rfl, id⟩
    · split
      · exact ⟨rfl, rfl, id⟩
      · refine ⟨rfl, rfl, fun hs => ?_⟩
        show List.filter _ t.base.sessions = []
        rw [hs]
        rfl

/-! ### `close()` -/

/-- what the steps of `close()` keep: socket flag, sender context, options; fault plan, TCP state; without a
    socket the transport is not touched at all; and (for a well-formed 8-byte sender context) the target's
    policy and session counter -/
def LcCloseKeep {σ} (w w' : World σ) : Prop :=
  w'.drv.hasSock = w.drv.hasSock ∧ w'.drv.context = w.drv.context ∧ w'.drv.option = w.drv.option ∧
  w'.net.faults = w.net.faults ∧ w'.net.tcpOpen = w.net.tcpOpen ∧
  (w.drv.hasSock = false → w'.net = w.net) ∧
  (w.drv.context.length = 8 → LcTgtSame w.net.target w'.net.target)

theorem lc_closeKeep_refl {σ} (w : World σ) : LcCloseKeep w w :=
  ⟨rfl, rfl, rfl, rfl, rfl, fun _ => rfl, fun _ => lc_tgtSame_refl _⟩

theorem lc_closeKeep_trans {σ} {a b c : World σ} (h1 : LcCloseKeep a b) (h2 : LcCloseKeep b c) : LcCloseKeep a c := by
  obtain ⟨a1, a2, a3, a4, a5, a6, a7⟩ := h1
  obtain ⟨b1, b2, b3, b4, b5, b6, b7⟩ := h2
  refine ⟨b1.trans a1, b2.trans a2, b3.trans a3, b4.trans a4, b5.trans a5, ?_, ?_⟩
  · intro h
    rw [b6 (a1.trans h), a6 h]
  · intro h
    exact lc_tgtSame_trans (a7 h) (b7 (by rw [a2]; exact h))

/-- the same with the session cleared / the connected flag dropped (what `close()` does between the exchanges) -/
theorem lc_closeKeep_drv {σ} (w w' : World σ) (d : Drv) (hd1 : d.hasSock = w'.drv.hasSock)
    (hd2 : d.context = w'.drv.context) (hd3 : d.option = w'.drv.option) (h : LcCloseKeep w w') :
    LcCloseKeep w { w' with drv := d } := by
  obtain ⟨a1, a2, a3, a4, a5, a6, a7⟩ := h
  exact ⟨hd1.trans a1, hd2.trans a2, hd3.trans a3, a4, a5, a6, a7⟩

/-- assembling `LcCloseKeep` from the description of one exchange -/
theorem lc_closeKeep_of_step {σ} (hook : ObjHook σ) (w w' : World σ) (hd : w'.drv = w.drv)
    (hn : w'.net = w.net ∨ ∃ frame, w.drv.hasSock = true ∧ LcNetStep hook frame w.net w'.net ∧
            (w.drv.context.length = 8 → LcTgtSame w.net.target (handle hook w.net.target frame).1)) :
    LcCloseKeep w w' := by
  rcases hn with hn | ⟨frame, hs, ⟨h1, h2, h3⟩, ht⟩
  · exact ⟨by rw [hd], by rw [hd], by rw [hd], by rw [hn], by rw [hn], fun _ => hn,
      fun _ => by rw [hn]; exact lc_tgtSame_refl _⟩
  · refine ⟨by rw [hd], by rw [hd], by rw [hd], h1, h2, ?_, ?_⟩
    · intro h; rw [hs] at h; cases h
    · intro hc
      rcases h3 with h3 | h3
      · rw [h3]; exact lc_tgtSame_refl _
      · rw [h3]; exact ht hc

theorem lc_unregister_keep {σ} (hook : ObjHook σ) (w : World σ) :
    LcCloseKeep w (sendReq hook w .unregisterSession true).1 := by
  obtain ⟨hd, hn⟩ := lc_sendReq_world hook w .unregisterSession true
  apply lc_closeKeep_of_step hook w _ hd
  rcases hn with hn | ⟨frame, hb, hs, hstep⟩
  · exact .inl hn
  · refine .inr ⟨frame, hs, hstep, ?_⟩
    intro hc
    obtain ⟨s, common, _, _, _, hp⟩ := parse_built _ _ frame hc hb
    exact lc_handle_unreg hook _ frame _ hp rfl

/-- a generic message that carries a Forward Close to the connection manager -/
theorem lc_gm_fclose_keep {σ} (hook : ObjHook σ) (f n : Nat) (hf : f = n + 1) (w : World σ) (a : GenArgs)
    (hconn : a.connected = false) (hucs : a.unconnectedSend = false)
    (hsvc : a.service = 0x4E) (hcls : a.cls = .bytes [0x06]) (hinst : a.inst = .bytes [0x01])
    (hattr : a.attr = .bytes []) : LcCloseKeep w (genericMessage hook f w a).1 := by
  subst hf
  obtain ⟨hd, hn⟩ := lc_gm_unconn_world hook n w a hconn
  apply lc_closeKeep_of_step hook w _ hd
  rcases hn with hn | ⟨reqPath, rp, m, frame, hrp, hm, hb, hs, hstep⟩
  · exact .inl hn
  · refine .inr ⟨frame, hs, hstep, ?_⟩
    intro hc
    rw [hcls, hinst, hattr, ucs_path] at hrp
    cases hrp
    have hm' := hm hucs
    rw [hsvc] at hm'
    obtain ⟨fr, hp, hcpf⟩ := cpf_rr_wf m _ frame hc hb
    obtain ⟨fr2, hp2, hcmd, _⟩ := frame_wf _ _ frame hc hb
    rw [hp] at hp2; cases hp2
    have hm2 : m = 0x4E :: 0x02 :: 0x20 :: 0x06 :: 0x24 :: 0x01 :: (a.data ++ rp) := by
      rw [hm']; simp
    rw [hm2] at hcpf
    exact lc_handle_fclose hook _ frame fr _ hp hcmd hcpf

/-- (the fuel is a parameter here so that nothing is tempted to evaluate the eight levels of recursion) -/
theorem lc_forwardClose_keep_aux {σ} (hook : ObjHook σ) (w : World σ)
    (f : Nat) (hF : FUEL = f) (hf : f = 7 + 1) : LcCloseKeep w (forwardClose hook w).1 := by
  unfold forwardClose
  rw [hF]
  split
  · exact lc_closeKeep_refl w
  · dsimp only
    split
    · exact lc_closeKeep_refl w
    · next route _ =>
      have hkey := lc_gm_fclose_keep hook f 7 hf w {
          service := 0x4E, cls := .bytes [0x06], inst := .bytes [0x01], connected := false,
          route := .bytes route, data := [0x0a, 0x05] ++ w.drv.csn ++ w.drv.vid ++ w.drv.vsn,
          name := nm "forward_close" } rfl rfl rfl rfl rfl rfl
      split
      · exact hkey
      · split
        · exact lc_closeKeep_drv w _ _ rfl rfl rfl hkey
        · exact hkey

theorem lc_forwardClose_keep {σ} (hook : ObjHook σ) (w : World σ) :
    LcCloseKeep w (forwardClose hook w).1 :=
  lc_forwardClose_keep_aux hook w FUEL rfl rfl

theorem lc_closeFc_keep {σ} (hook : ObjHook σ) (w : World σ) :
    LcCloseKeep w (lcCloseFc hook w).1 := by
  have hfc := lc_forwardClose_keep hook w
  unfold lcCloseFc
  split
  · rcases hf : forwardClose hook w with ⟨w', r⟩
    rw [hf] at hfc
    cases r with
    | error e => exact hfc
    | ok b => exact hfc
  · exact lc_closeKeep_refl w

theorem lc_closeUnreg_keep {σ} (hook : ObjHook σ) (w : World σ) (p : World σ × Except Exn Unit)
    (hp : LcCloseKeep w p.1) : LcCloseKeep w (lcCloseUnreg hook p).1 := by
  obtain ⟨wa, ra⟩ := p
  have hu := lc_closeKeep_trans hp (lc_unregister_keep hook wa)
  unfold lcCloseUnreg
  dsimp only
  split
  · exact hp
  · split
    · split
      · exact hu
      · exact lc_closeKeep_drv w _ _ rfl rfl rfl hu
    · exact hp

theorem lc_closeTry_keep {σ} (hook : ObjHook σ) (w : World σ) :
    LcCloseKeep w (lcCloseTry hook w).1 :=
  lc_closeUnreg_keep hook w _ (lc_closeFc_keep hook w)

/-! ### `close()` as a whole -/

theorem lc_closeDrv_drv {σ} (hook : ObjHook σ) (w : World σ) :
    (closeDrv hook w).1.drv = lcClosedDrv (lcCloseTry hook w).1.drv := by
  rw [lc_closeDrv_eq]

theorem lc_closeDrv_net {σ} (hook : ObjHook σ) (w : World σ) :
    (closeDrv hook w).1.net =
      if (lcCloseTry hook w).1.drv.hasSock then (lcCloseTry hook w).1.net.sockClose else (lcCloseTry hook w).1.net := by
  rw [lc_closeDrv_eq]

/-! ### `open()` on a closed driver -/

theorem lc_build_register (ctx : Ctx) (hs : ctx.session = some 0) (ho : ctx.option = 0) :
    ∃ f, buildRequest (.registerSession [1, 0] [0, 0]) ctx = .ok f := by
  have h1 : u16 ([1, 0] ++ [0, 0] : Bytes).length = .ok [4, 0] := rfl
  have h2 : u32 0 = .ok [0, 0, 0, 0] := rfl
  simp only [buildRequest, bind, Except.bind, pure, Except.pure, buildHeader, hs, ho, h1, h2]
  exact ⟨_, rfl⟩

/-- the target on a well-formed RegisterSession request, when it accepts sessions -/
theorem lc_handle_register {σ} (hook : ObjHook σ) (t : Target σ) (raw c : Bytes)
    (hp : parseFrame raw = some { command := CMD_REGISTER, session := 0, status := 0, context := c, options := 0,
                                  body := [1, 0, 0, 0] })
    (hpol : t.base.policy.sessionOk = true) :
    (handle hook t raw).1.base.sessions = t.base.sessions ++ [t.base.nextSession] ∧
    (handle hook t raw).2 = some (frame CMD_REGISTER t.base.nextSession 0 c [1, 0, 0, 0]) := by
  unfold handle
  rw [hp]
  simp only [hpol]
  rw [if_neg (by simp), if_pos trivial, if_neg (by simp), if_neg (by simp), if_neg (by simp)]
  exact ⟨rfl, rfl⟩

/-- the client's reading of the RegisterSession reply the target frames -/
theorem lc_parseRegister_reply (s : Nat) (c body : Bytes) (hs : s < 2 ^ 32) :
    (parseRegister (some (frame CMD_REGISTER s 0 c body))).valid = true ∧
    (parseRegister (some (frame CMD_REGISTER s 0 c body))).session = some s := by
  have e1 : frame CMD_REGISTER s 0 c body =
      (leBytes 2 CMD_REGISTER ++ leBytes 2 body.length) ++ (leBytes 4 s ++ ([0, 0, 0, 0] ++ (c ++ ([0, 0, 0, 0] ++ body)))) := by
    simp [frame, encHeader, le, leBytes]
  have e2 : frame CMD_REGISTER s 0 c body =
      (leBytes 2 CMD_REGISTER ++ leBytes 2 body.length ++ leBytes 4 s) ++ ([0, 0, 0, 0] ++ (c ++ ([0, 0, 0, 0] ++ body))) := by
    rw [e1]; simp
  have s1 : slice (frame CMD_REGISTER s 0 c body) 4 8 = leBytes 4 s := by
    have h := slice_at (leBytes 2 CMD_REGISTER ++ leBytes 2 body.length)
      (leBytes 4 s ++ ([0, 0, 0, 0] ++ (c ++ ([0, 0, 0, 0] ++ body)))) 4 0 4 (by simp [RT.leBytes_length])
    rw [e1, h]
    simp [slice, RT.leBytes_length]
  have s2 : slice (frame CMD_REGISTER s 0 c body) 8 12 = [0, 0, 0, 0] := by
    have h := slice_at (leBytes 2 CMD_REGISTER ++ leBytes 2 body.length ++ leBytes 4 s)
      ([0, 0, 0, 0] ++ (c ++ ([0, 0, 0, 0] ++ body))) 8 0 4 (by simp [RT.leBytes_length])
    rw [e2, h]
    simp [slice]
  have d1 : decodeIntNat .udint (leBytes 4 s) = .ok (s, []) := by
    have := RT.decodeIntNat_append .udint s [] (by simpa [IntK.size] using hs)
    simpa [IntK.size] using this
  have d2 : decodeIntVal .dint [0, 0, 0, 0] = .ok (0, []) := rfl
  simp only [parseRegister, parseBase, s1, s2, d1, d2, RegReply.valid, validBase]
  exact ⟨by simp, trivial⟩

/-- one exchange on a healthy transport: no fault planned, nothing stale pending, the target answers -/
theorem lc_sendReq_ok {σ} (hook : ObjHook σ) (w : World σ) (r : Req) (frame reply : Bytes)
    (hs : w.drv.hasSock = true) (hf : w.net.faults = []) (hpend : w.net.pending = [])
    (hb : buildRequest r w.drv.ctx = .ok frame) (hh : (handle hook w.net.target frame).2 = some reply) :
    (sendReq hook w r false).2 = .ok (some reply) ∧ (sendReq hook w r false).1.drv = w.drv ∧
    (sendReq hook w r false).1.net.target = (handle hook w.net.target frame).1 := by
  unfold sendReq
  rw [hb]
  simp only [hs, Bool.not_true, Bool.false_eq_true, if_false]
  unfold Net.sockSend Net.sockReceive
  simp only [hf, hpend, List.contains_nil, Bool.false_eq_true, if_false, List.nil_append, hh, dropNones]
  exact ⟨trivial, trivial, trivial⟩

/-- `_register_session` on a healthy transport against a target that accepts sessions -/
theorem lc_register_ok {σ} (hook : ObjHook σ) (w : World σ)
    (h2 : w.drv.session = some 0) (h3 : w.drv.hasSock = true)
    (hc : w.drv.context.length = 8) (ho : w.drv.option = 0) (hf : w.net.faults = []) (hpend : w.net.pending = [])
    (hpol : w.net.target.base.policy.sessionOk = true) (hns : w.net.target.base.nextSession < 2 ^ 32) :
    (registerSession hook w).2 = .ok (some w.net.target.base.nextSession) ∧
    (registerSession hook w).1.drv.session = some w.net.target.base.nextSession ∧
    (registerSession hook w).1.drv.connectionOpened = w.drv.connectionOpened ∧
    (registerSession hook w).1.net.target.base.sessions =
      w.net.target.base.sessions ++ [w.net.target.base.nextSession] := by
  obtain ⟨frame, hb⟩ := lc_build_register w.drv.ctx h2 ho
  obtain ⟨s, common, hs', hco, _, hp⟩ := parse_built _ w.drv.ctx frame hc hb
  have hs0 : s = 0 := by
    have : w.drv.ctx.session = some 0 := h2
    rw [this] at hs'; cases hs'; rfl
  subst hs0
  have hco' : common = [1, 0, 0, 0] := hco
  subst hco'
  have ho' : w.drv.ctx.option = 0 := ho
  rw [ho'] at hp
  obtain ⟨hsess, hrep⟩ := lc_handle_register hook w.net.target frame w.drv.ctx.context hp hpol
  obtain ⟨r1, r2, r3⟩ := lc_sendReq_ok hook w _ frame _ h3 hf hpend hb hrep
  obtain ⟨v1, v2⟩ := lc_parseRegister_reply w.net.target.base.nextSession w.drv.ctx.context [1, 0, 0, 0] hns
  unfold registerSession
  rw [h2]
  simp only [ne_eq, not_true_eq_false, if_false]
  rw [r1]
  simp only [v1, v2, if_true]
  refine ⟨trivial, trivial, ?_, ?_⟩
  · rw [r2]
  · rw [r3, hsess]

/-- `open()` on a closed driver, healthy transport, target accepting sessions -/
theorem lc_open_closed {σ} (hook : ObjHook σ) (w : World σ) (rnd : Bytes)
    (h1 : w.drv.connectionOpened = false) (h2 : w.drv.session = some 0) (h3 : w.drv.hasSock = false)
    (hc : w.drv.context.length = 8) (ho : w.drv.option = 0) (hf : w.net.faults = [])
    (hpol : w.net.target.base.policy.sessionOk = true) (hns : w.net.target.base.nextSession < 2 ^ 32) :
    (openDrv hook w rnd).2 = .ok true ∧
    (openDrv hook w rnd).1.drv.session = some w.net.target.base.nextSession ∧
    (openDrv hook w rnd).1.net.target.base.sessions =
      w.net.target.base.sessions ++ [w.net.target.base.nextSession] ∧
    (openDrv hook w rnd).1.drv.connectionOpened = true := by
  unfold openDrv
  simp only [h1, h3, Bool.false_eq_true, if_false]
  obtain ⟨a1, a2, a3, a4⟩ := lc_register_ok hook
    { drv := { w.drv with hasSock := true, connectionOpened := true, cid := rnd.take 4, vsn := (rnd.drop 4).take 4 },
      net := { w.net with tcpOpen := true, pending := [] } } h2 rfl hc ho hf rfl hpol hns
  rw [a1]
  exact ⟨rfl, a2, a4, a3⟩

theorem lc_sockClose_same {σ} (n : Net σ) :
    n.sockClose.faults = n.faults ∧ n.sockClose.target.base.policy = n.target.base.policy ∧
    n.sockClose.target.base.nextSession = n.target.base.nextSession ∧
    ((n.tcpOpen = true ∨ n.target.base.sessions = []) → n.sockClose.target.base.sessions = []) := by
  unfold Net.sockClose
  split
  · exact ⟨rfl, rfl, rfl, fun _ => rfl⟩
  · next h =>
    refine ⟨rfl, rfl, rfl, fun h' => ?_⟩
    rcases h' with h' | h'
    · exact absurd h' h
    · exact h'

end Pycomm.Cli
