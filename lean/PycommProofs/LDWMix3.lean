/-
  LogixDriver.write of ANY number of requests of MIXED shapes, the controller side (generalises LDWriteN4 from
  whole-symbol writes to writes of any byte range inside a controller-scope symbol): the controller's answers to a
  list of embedded Write Tag requests each of which either writes `n` elements at a location inside a symbol
  (`ldwx_Beh.good inst off bytes`) or is refused by the address resolver — all judged on the project BEFORE the call.
    `ldwx_wr`, `ldwx_apply`   the project after one write / after the behaviours, in order
    `ldwx_Ev_wr`              a write inside a symbol keeps the evolution invariant `ldwn_Ev`
    `ldwx_run`                the answers of the controller, message by message
-/
import PycommProofs.LDWMix2
namespace Pycomm.Lgx.Drv
open Pycomm Pycomm.Tgt Pycomm.Path Pycomm.Reply Pycomm.Encap Pycomm.Lgx Pycomm.Lgx.E2E

/-- the project after a write of `bytes` at byte `off` of the controller-scope symbols with instance id `inst`: the
    bytes spliced in, one write logged -/
def ldwx_wr (p : Project) (inst off : Nat) (bytes : Bytes) : Project :=
  { p with controller := ldw2_ctl p.controller inst off bytes, writeLog := p.writeLog ++ [(inst, off, bytes.length)] }

/-- a write-type effect at a controller-scope location is `ldwx_wr` -/
theorem ldwx_written_eq (p : Project) (loc : Loc) (off : Nat) (bytes : Bytes) (hsc : loc.scope = none) :
    written p loc off bytes = ldwx_wr p loc.symInst off bytes := by
  unfold written logWrite Project.updateSymbol ldwx_wr ldw2_ctl ldw2_sym
  rw [hsc]

theorem ldwx_wr_proj (p : Project) (s : Symbol) (off : Nat) (bytes : Bytes) :
    ldw2_proj p s off bytes = ldwx_wr p s.inst off bytes := rfl

/-- what the controller does with one embedded Write Tag request: `bytes` are written at byte `off` of the symbol with
    instance id `inst`, or the request is refused with status `e` -/
inductive ldwx_Beh where
  | good (inst off : Nat) (bytes : Bytes)
  | refused (e : Nat)

def ldwx_Beh.ans : ldwx_Beh → MRReply
  | .good _ _ _ => {}
  | .refused e => ldx_refusal e

/-- the project after the behaviours, in order -/
def ldwx_apply (p : Project) : List ldwx_Beh → Project
  | [] => p
  | .good inst off bytes :: rest => ldwx_apply (ldwx_wr p inst off bytes) rest
  | .refused _ :: rest => ldwx_apply p rest

/-- the facts, all about the project `p0` before the call, that make the controller behave so on message `msg` -/
def ldwx_BehOk (p0 : Project) (msg : Bytes) : ldwx_Beh → Prop
  | .good inst off bytes =>
      ∃ (path : Bytes) (segs : List PSeg) (loc : Loc) (s : Symbol) (n sz : Nat),
        msg = Cl.writeMsg path (typeBytes p0 loc.ty) n bytes ∧ Denotes path segs ∧ resolve p0 segs = .ok loc ∧
        loc.symInst = inst ∧ loc.scope = none ∧ loc.offset = off ∧ (∀ b, loc.ty ≠ .boolBit b) ∧
        1 ≤ n ∧ n ≤ loc.avail ∧ n < 65536 ∧
        s ∈ p0.controller ∧ s.inst = inst ∧ (∀ x ∈ p0.controller, x.inst = inst → x = s) ∧
        p0.elSize loc.ty = some sz ∧ bytes.length = n * sz ∧ off + n * sz ≤ s.mem.length
  | .refused e =>
      ∃ path segs data, msg = [0x4D] ++ path ++ data ∧ Denotes path segs ∧ resolve p0 segs = .error e ∧
        ldx_TagPath segs ∧ e ≠ 0 ∧ e < 256

theorem ldwx_Beh_ans_ok (p0 : Project) (msg : Bytes) (b : ldwx_Beh) (h : ldwx_BehOk p0 msg b) : ldwn_Ans b.ans := by
  cases b with
  | good inst off bytes => exact Or.inl rfl
  | refused e =>
    obtain ⟨_, _, _, _, _, _, _, he0, he8⟩ := h
    refine Or.inr ⟨he0, he8, ?_, rfl⟩
    simp only [ldwx_Beh.ans, ldx_refusal]
    split <;> simp

/-- a write inside a symbol keeps the evolution invariant -/
theorem ldwx_Ev_wr (p0 p : Project) (h : ldwn_Ev p0 p) (s : Symbol) (off : Nat) (bytes : Bytes)
    (huniqI : ∀ x ∈ p0.controller, x.inst = s.inst → x = s) (hfit : off + bytes.length ≤ s.mem.length) :
    ldwn_Ev p0 (ldwx_wr p s.inst off bytes) := by
  obtain ⟨g, hg, hc, ht, hp⟩ := h
  refine ⟨fun x => if (g x).inst == s.inst then ldw2_sym (g x) off bytes else g x, ?_, ?_, ht, hp⟩
  · intro x hx
    have hs := hg x hx
    by_cases hi : ((g x).inst == s.inst) = true
    · have hxi : x.inst = s.inst := by rw [← hs.inst]; simpa using hi
      have hxs : x = s := huniqI x hx hxi
      simp only [hi, if_true]
      refine ⟨hs.inst, hs.name, hs.symbolType, hs.dims, ?_⟩
      show (splice (g x).mem off bytes).length = x.mem.length
      rw [(splice_frame (g x).mem bytes off (by rw [hs.len, hxs]; exact hfit)).1, hs.len]
    · simp only [hi]
      exact hs
  · show ldw2_ctl p.controller s.inst off bytes = _
    unfold ldw2_ctl
    rw [hc, List.map_map]
    rfl

/-- the symbol a controller-scope location lives in, in an evolved project: found, with the old memory size -/
theorem ldwx_symbolOf_ev (p0 p : Project) (h : ldwn_Ev p0 p) (s : Symbol) (loc : Loc) (hs : s ∈ p0.controller)
    (hi : loc.symInst = s.inst) (hsc : loc.scope = none)
    (huniqI : ∀ x ∈ p0.controller, x.inst = s.inst → x = s) :
    ∃ s', p.symbolOf loc = some s' ∧ s'.mem.length = s.mem.length := by
  obtain ⟨g, hg, hc, _, _⟩ := h
  refine ⟨g s, ?_, (hg s hs).len⟩
  unfold Project.symbolOf Project.findSymbol
  rw [hsc, hi]
  show p.controller.find? (fun x => x.inst == s.inst) = some (g s)
  rw [hc, List.find?_map]
  have hcongr : List.find? ((fun x => x.inst == s.inst) ∘ g) p0.controller = List.find? (fun x => x.inst == s.inst) p0.controller :=
    ldwn_find_congr _ _ _ (fun x hx => by simp only [Function.comp, (hg x hx).inst])
  rw [hcongr, ldr_find_inst p0 s hs huniqI]
  rfl

theorem ldwx_elSize_congr (p p' : Project) (ht : p'.templates = p.templates) (ty : ElTy) : p'.elSize ty = p.elSize ty := by
  have htm : ∀ tid, p'.template? tid = p.template? tid := by intro tid; unfold Project.template?; rw [ht]
  cases ty <;> simp [Project.elSize, htm]

theorem ldwx_typeBytes_congr (p p' : Project) (ht : p'.templates = p.templates) (ty : ElTy) :
    typeBytes p' ty = typeBytes p ty := by
  have htm : ∀ tid, p'.template? tid = p.template? tid := by intro tid; unfold Project.template?; rw [ht]
  cases ty <;> simp [typeBytes, htm]

/-- message by message -/
def ldwx_AllOk (p0 : Project) : List Bytes → List ldwx_Beh → Prop
  | [], [] => True
  | m :: ms, b :: bs => ldwx_BehOk p0 m b ∧ ldwx_AllOk p0 ms bs
  | _, _ => False

/-- (d) the controller's answers to a list of embedded Write Tag requests each of which writes elements inside a
    controller-scope symbol or is refused by the address resolver — judged on the project before the call —,
    executed one after the other: every good request is applied (exactly once, in order), every refused one leaves the
    state as it is and is answered with its status -/
theorem ldwx_run (p0 : Project) (cap : Nat) (msgs : List Bytes) (behs : List ldwx_Beh)
    (h : ldwx_AllOk p0 msgs behs) :
    ∀ st : LState, ldwn_Ev p0 st.proj →
      ldwn_exch cap st msgs = ({ st with proj := ldwx_apply st.proj behs }, behs.map (·.ans)) ∧
      ldwn_Ev p0 (ldwx_apply st.proj behs) := by
  induction msgs generalizing behs with
  | nil =>
    cases behs with
    | nil => intro st hev; exact ⟨rfl, hev⟩
    | cons b bs => exact absurd h (by simp [ldwx_AllOk])
  | cons msg msgs' ih =>
    cases behs with
    | nil => exact absurd h (by simp [ldwx_AllOk])
    | cons b behs' =>
    obtain ⟨hb, hrest⟩ := h
    have ih := ih behs' hrest
    intro st hev
    have htmpl : st.proj.templates = p0.templates := by obtain ⟨g, _, _, ht, _⟩ := hev; exact ht
    cases b with
    | good inst off bytes =>
      obtain ⟨path, segs, loc, s, n, sz, rfl, hden, hres, hinst, hsc, hoff, hnb, hn1, hnav, hn16, hs, hsi, huniqI, hsz,
        hbl, hfit⟩ := hb
      subst hsi
      obtain ⟨s', hsym, hlen'⟩ := ldwx_symbolOf_ev p0 st.proj hev s loc hs hinst hsc huniqI
      have hr : resolve st.proj segs = .ok loc := by rw [ldwn_resolve_ev p0 st.proj hev, hres]
      have hex := write_e2e st cap path segs loc n sz bytes s' hden hr hnb ⟨hn1, hnav, hn16⟩ hsym
        (by rw [ldwx_elSize_congr p0 st.proj htmpl]; exact hsz) hbl (by rw [hoff, hlen']; exact hfit)
      rw [ldwx_typeBytes_congr p0 st.proj htmpl, hoff, ldwx_written_eq st.proj loc off bytes hsc, hinst] at hex
      have hev' := ldwx_Ev_wr p0 st.proj hev s off bytes huniqI (by rw [hbl]; exact hfit)
      obtain ⟨h1, h2⟩ := ih { st with proj := ldwx_wr st.proj s.inst off bytes } hev'
      refine ⟨?_, h2⟩
      rw [ldwn_exch, hex]
      simp only
      rw [h1]
      rfl
    | refused e =>
      obtain ⟨path, segs, data, rfl, hden, hres, htp, _, _⟩ := hb
      have hr : resolve st.proj segs = .error e := by rw [ldwn_resolve_ev p0 st.proj hev, hres]
      have hex := ldx_exchange_refused st cap 0x4D path data segs e hden hr (Or.inr (Or.inr (Or.inl rfl))) htp
      obtain ⟨h1, h2⟩ := ih st hev
      refine ⟨?_, h2⟩
      rw [ldwn_exch, hex]
      simp only
      rw [h1]
      rfl

end Pycomm.Lgx.Drv
