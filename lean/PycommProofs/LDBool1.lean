/-
  LogixDriver.read of BOOL arrays (DWORD array tags), every request shape: `name[i]`, `name[i]{n}`, `name`, `name{n}`.
  The driver always reads from DWORD 0 up to the DWORD holding the last requested bit and cuts the bits
  `[i, i + n)` out of the decoded bit list.
    (a) `ldb_parse_read`       the parsed request (`ldb_parsedRead`)
    (f) `ldb_pySlice`, `ldb_flat_window`, `ldb_readResult_one`, `ldb_readResult_many`
    composed: `ldb_read_request` (the request that is built), `ldb_read_bools`
-/
import PycommProofs.LogixDriverRead2
namespace Pycomm.Lgx.Drv
open Pycomm Pycomm.Tgt Pycomm.Path Pycomm.Reply Pycomm.Encap Pycomm.Lgx Pycomm.Lgx.E2E

/-- BOOL `k` of a BOOL array whose memory is `mem`: bit `k % 32` of the little-endian DWORD `k / 32` -/
def ldb_bit (mem : Bytes) (k : Nat) : Bool := (leVal ((mem.drop (4 * (k / 32))).take 4)).testBit (k % 32)

/-- the number of DWORDs a read of the BOOLs `[i, i + n)` asks for: from DWORD 0 up to the one holding BOOL `i + n - 1` -/
def ldb_words (i n : Nat) : Nat := (i + n + 31) / 32

theorem ldb_words_int (i n : Nat) :
    ((i : Int) + (n : Int)) / 32 + (if ((i : Int) + (n : Int)) % 32 ≠ 0 then 1 else 0) = ((ldb_words i n : Nat) : Int) := by
  unfold ldb_words
  split <;> omega

theorem ldb_words_int0 (n : Nat) :
    ((0 : Int) + (n : Int)) / 32 + (if ((0 : Int) + (n : Int)) % 32 ≠ 0 then 1 else 0) = ((ldb_words 0 n : Nat) : Int) := by
  have := ldb_words_int 0 n
  simpa using this

/-! ### (a) parsing -/

theorem ldb_getArrayIndex_plain (name : Name) (h : 91 ∉ name) : getArrayIndex name = some (name, none) := by
  unfold getArrayIndex
  rw [ldr_contains_false name 91 h]
  simp

theorem ldb_renderLevel_nil (name : Name) : renderLevel ⟨name, []⟩ = name := by simp [renderLevel]

/-- (a) a BOOL array addressed without index (`name`, `name{n}`), read or write side: the request addresses the tag
    itself, there is no bit index, the element count is the number of DWORDs holding the first `elements` BOOLs -/
theorem ldb_tail_dword_plain (db : TagDb) (write : Bool) (rid : Nat) (tag0 tag : Name) (elements : Int) (implicit : Bool)
    (name : Name) (info : TagInfo) (hl : ldr2_Level ⟨name, []⟩) (hget : db.get? name = some info)
    (hd : isDword info = true)
    (hwords : ((0 : Int) + elements) / 32 + (if ((0 : Int) + elements) % 32 ≠ 0 then 1 else 0) ≤ 65535) :
    lds_tail db write rid tag0 tag elements implicit (renderLevel ⟨name, []⟩) none [] (renderLevel ⟨name, []⟩) =
      { requestId := rid, requestTag := tag0, userTag := tag, plcTag := name, bit := none,
        elements := ((0 : Int) + elements) / 32 + (if ((0 : Int) + elements) % 32 ≠ 0 then 1 else 0),
        info := some info, boolElements := if implicit || elements == 1 then none else some elements } := by
  have hnot : ¬ (((0 : Int) + elements) / 32 + (if ((0 : Int) + elements) % 32 ≠ 0 then 1 else 0) > 65535) := by omega
  have h91 : (91 : Nat) ∉ name := ldr_plain_not_mem name hl.1 91 (by omega)
  have hg := ldr2_getTagInfo_level db ⟨name, []⟩ info hl hget
  rw [ldb_renderLevel_nil] at hg ⊢
  unfold lds_tail
  simp only [hg, lds_bitBad, hd, Bool.false_eq_true, if_false, if_true, ldb_getArrayIndex_plain name h91,
    Option.getD_none, hnot]

/-- the parsed READ request for the BOOLs `[i, i + n)` of a BOOL array, `n = cnt.getD 1`, written `name[i]` / `name[i]{n}`
    (`idx = [i]`) or `name` / `name{n}` (`idx = []`, `i = 0`) -/
def ldb_parsedRead (name : Name) (idx : List Nat) (i : Nat) (cnt : Option Nat) (info : TagInfo) : Parsed :=
  { requestId := 0, requestTag := ldr2_tagStr ⟨name, idx⟩ none cnt, userTag := renderLevel ⟨name, idx⟩,
    plcTag := renderLevel ⟨name, idx.map fun _ => 0⟩, bit := idx.head?.map Int.ofNat,
    elements := ((ldb_words i (cnt.getD 1) : Nat) : Int), info := some info,
    boolElements := if cnt.isNone || ((cnt.getD 1 : Nat) : Int) == 1 then none else some ((cnt.getD 1 : Nat) : Int) }

/-- (a) `_parse_tag_request` of a read of a BOOL array -/
theorem ldb_parse_read (db : TagDb) (name : Name) (idx : List Nat) (i : Nat) (cnt : Option Nat) (info : TagInfo)
    (hidx : idx = [i] ∨ (idx = [] ∧ i = 0)) (hid : PlainIdent name) (hi32 : i < 2 ^ 32)
    (hget : db.get? name = some info) (hd : isDword info = true)
    (hn16 : cnt.getD 1 ≤ 65535) (hw16 : ldb_words i (cnt.getD 1) ≤ 65535) :
    parseTagRequest db false 0 (ldr2_tagStr ⟨name, idx⟩ none cnt) = ldb_parsedRead name idx i cnt info := by
  have hl : ldr2_Level ⟨name, idx⟩ := by
    refine ⟨hid, ?_, ?_⟩
    · rcases hidx with h | ⟨h, _⟩ <;> rw [h] <;> simp
    · rcases hidx with h | ⟨h, _⟩ <;> rw [h] <;> simp [hi32]
  have hparse := ldr2_parse_unfold db false 0 ⟨name, idx⟩ none cnt hl
    (by intro n hc; rw [hc] at hn16; simpa using hn16)
  rw [Option.map_none, ldr2_tagStr_plain] at hparse
  rw [hparse]
  rcases hidx with h | ⟨h, h0⟩
  · subst h
    have htail := ldr2_tail_dword db 0 (ldr2_tagStr ⟨name, [i]⟩ none cnt) (renderLevel ⟨name, [i]⟩)
      ((cnt.getD 1 : Nat) : Int) cnt.isNone name i info hl hget hd (by rw [ldb_words_int]; omega)
    rw [ldb_words_int] at htail
    rw [htail, ldr2_zeroIdx]
    rfl
  · subst h; subst h0
    have htail := ldb_tail_dword_plain db false 0 (ldr2_tagStr ⟨name, []⟩ none cnt) (renderLevel ⟨name, []⟩)
      ((cnt.getD 1 : Nat) : Int) cnt.isNone name info hl hget hd (by rw [ldb_words_int0]; omega)
    rw [ldb_words_int0] at htail
    rw [htail]
    simp only [ldb_parsedRead, List.map_nil, List.head?_nil, Option.map_none, ldb_renderLevel_nil]

/-! ### (f) cutting the bits out of the decoded list -/

/-- python `xs[i : i + n]` inside the list -/
theorem ldb_pySlice {α} (xs : List α) (i n : Nat) (h : i + n ≤ xs.length) :
    pySlice xs (i : Int) ((i : Int) + (n : Int)) = (xs.drop i).take n := by
  have h1 : ¬ ((i : Int) < 0) := by omega
  have h2 : ¬ ((i : Int) + (n : Int) < 0) := by omega
  have h3 : ((i : Int) + (n : Int)).toNat = i + n := by omega
  unfold pySlice
  simp only [h1, h2, if_false, Int.toNat_natCast, h3]
  rw [Nat.min_eq_left h, Nat.min_eq_left (by omega), List.drop_take]
  congr 1
  omega

/-- the BOOLs `[i, i + n)` of the bit list of the first `w` DWORDs of a memory image -/
theorem ldb_flat_window (mem : Bytes) (w i n : Nat) (h : i + n ≤ 32 * w) :
    (((ldr2_dwords mem w).flatMap (natToBits 32)).drop i).take n =
      (List.range n).map fun k => PyVal.bool (ldb_bit mem (i + k)) := by
  have hlen : ((ldr2_dwords mem w).flatMap (natToBits 32)).length = 32 * w := by
    rw [ldr2_flat_length]; simp [ldr2_dwords]
  apply List.ext_getElem?
  intro k
  by_cases hk : k < n
  · rw [List.getElem?_take_of_lt hk, List.getElem?_drop,
      ldr2_flat_get (ldr2_dwords mem w) (i + k) (by simp [ldr2_dwords]; omega),
      ldr2_dwords_getD mem w ((i + k) / 32) (by omega)]
    simp [hk, ldb_bit]
  · rw [List.getElem?_eq_none (by rw [List.length_take, List.length_drop]; omega),
      List.getElem?_eq_none (by simp; omega)]

theorem ldb_truthy_list (t : LTag) (xs : List PyVal) (hv : t.value = .list xs) (hte : t.error = none) : t.truthy = true := by
  unfold LTag.truthy
  rw [hte, hv]; rfl

/-- (f) the result loop of `read` for a BOOL-array request WITHOUT bool count (one BOOL): the element at the index -/
theorem ldb_readResult_one (p : Parsed) (info : TagInfo) (t : LTag) (xs : List PyVal) (i : Nat) (v : PyVal)
    (herr : p.error = none) (hinfo : p.info = some info) (hbit : p.bit.getD 0 = (i : Int)) (hbe : p.boolElements = none)
    (hd : info.core.dataTypeName = nm "DWORD") (hv : t.value = .list xs) (hte : t.error = none)
    (hx : xs[i]? = some v) :
    readResult p [((p.requestId : Nat), t)] =
      { tag := p.userTag, value := v, type := some (nm "BOOL"), error := none } := by
  have htr := ldb_truthy_list t xs hv hte
  have hdw : (info.core.dataTypeName != nm "DWORD") = false := by rw [hd]; simp
  have hlt : i < xs.length := by
    by_cases h : i < xs.length
    · exact h
    · rw [List.getElem?_eq_none (by omega)] at hx; cases hx
  have hpi : pyIndex xs (i : Int) = some v := by
    unfold pyIndex
    have h1 : ¬ ((i : Int) < 0) := by omega
    simp only [h1, if_false, Int.toNat_natCast]
    rw [if_pos (by omega), hx]
  unfold readResult
  simp only [herr, hinfo, Results.get?, List.find?_cons, beq_self_eq_true, Option.map_some, htr, if_true, hdw,
    Bool.false_eq_true, if_false, hbit, hv, PyVal.seq?, hbe, hpi, hte]

/-- (f) the result loop of `read` for a BOOL-array request WITH a bool count `n`: the slice `[i, i + n)` of the decoded
    bits, typed `BOOL[n]` -/
theorem ldb_readResult_many (p : Parsed) (info : TagInfo) (t : LTag) (xs : List PyVal) (i n : Nat)
    (herr : p.error = none) (hinfo : p.info = some info) (hbit : p.bit.getD 0 = (i : Int))
    (hbe : p.boolElements = some (n : Int))
    (hd : info.core.dataTypeName = nm "DWORD") (hv : t.value = .list xs) (hte : t.error = none)
    (hx : i + n ≤ xs.length) :
    readResult p [((p.requestId : Nat), t)] =
      { tag := p.userTag, value := .list ((xs.drop i).take n),
        type := some (nm "BOOL[" ++ renderDec (n : Int) ++ [93]), error := none } := by
  have htr := ldb_truthy_list t xs hv hte
  have hdw : (info.core.dataTypeName != nm "DWORD") = false := by rw [hd]; simp
  unfold readResult
  simp only [herr, hinfo, Results.get?, List.find?_cons, beq_self_eq_true, Option.map_some, htr, if_true, hdw,
    Bool.false_eq_true, if_false, hbit, hv, PyVal.seq?, hbe, hte, ldb_pySlice xs i n hx]

theorem ldb_typeStr_many (n : Nat) (h : 2 ≤ n) :
    ldr2_typeStr (nm "BOOL") n = nm "BOOL[" ++ renderDec (n : Int) ++ [93] := by
  rw [ldr2_typeStr_many _ n h]
  rfl

theorem ldb_typeStr_one : ldr2_typeStr (nm "BOOL") 1 = nm "BOOL" := by
  unfold ldr2_typeStr; rw [if_neg (by omega)]

/-! ### the layers composed -/

/-- the request `read` builds for the BOOLs `[i, i + n)` of a BOOL array: ONE plain Read Tag of `ldb_words i n` DWORDs
    addressed at DWORD 0 (`name[0]`, or `name` when no index was written) -/
theorem ldb_read_request (cfg : Cfg) (d : Cli.Drv) (s : Symbol) (info : TagInfo) (dim : Nat)
    (idx : List Nat) (i : Nat) (cnt : Option Nat)
    (hidx : idx = [i] ∨ (idx = [] ∧ i = 0))
    (hid : PlainIdent s.name) (hinst : s.inst < 2 ^ 32)
    (hget : cfg.tags.get? s.name = some info)
    (hinfo : ldr_InfoOf info (nm "DWORD") (.arr (.fixed dim) (.bits .udint)) s.inst)
    (hi32 : i < 2 ^ 32) (hn16 : cnt.getD 1 ≤ 65535) (hw16 : ldb_words i (cnt.getD 1) ≤ 65535)
    (hC : ldb_words i (cnt.getD 1) * 4 + s.name.length + 26 ≤ d.connectionSize) :
    ∃ path, requestPathOf cfg (renderLevel ⟨s.name, idx.map fun _ => 0⟩) info = .ok path ∧
      readBuildRequests cfg d (parseRequestedTags cfg.tags false [ldr2_tagStr ⟨s.name, idx⟩ none cnt]) =
        (d.nextSeq.2, .ok [Request.read { seq := d.nextSeq.1, tag := renderLevel ⟨s.name, idx.map fun _ => 0⟩,
                                          elements := ldb_words i (cnt.getD 1), info := info, rid := 0, path := path }]) := by
  have hdw : isDword info = true := by simp [isDword, hinfo.kind, hinfo.typeName]
  have hentry : typeEntryOfName (nm "DWORD") = some (nm "DWORD", 0xD3, 4) := by decide
  have hparse := ldb_parse_read cfg.tags s.name idx i cnt info hidx hid hi32 hget hdw hn16 hw16
  have hl0 : ldr2_Level ⟨s.name, idx.map fun _ => 0⟩ := by
    refine ⟨hid, ?_, ?_⟩
    · rcases hidx with h | ⟨h, _⟩ <;> rw [h] <;> simp
    · rcases hidx with h | ⟨h, _⟩ <;> rw [h] <;> simp
  have hil : (idx.map fun _ => 0).length ≤ 1 := by rcases hidx with h | ⟨h, _⟩ <;> rw [h] <;> simp
  obtain ⟨path, hpath, hpl, _⟩ := ldr2_requestPath cfg ⟨s.name, idx.map fun _ => 0⟩ info s.inst hl0 hinfo.instanceId hinst
  have hpl' : path.length ≤ s.name.length + 19 := by
    have : path.length ≤ s.name.length + 13 + 6 * (idx.map fun _ => 0).length := hpl
    omega
  have hrs : tagReturnSize info (ldb_words i (cnt.getD 1)) = 4 * ldb_words i (cnt.getD 1) := by
    simp [tagReturnSize, hinfo.struct, hinfo.typeName, hentry]
  have hml : (Cl.readMsg path (ldb_words i (cnt.getD 1))).length = path.length + 3 := by
    simp [Cl.readMsg, le, RT.leBytes_length]
  refine ⟨path, hpath, ?_⟩
  have hparsed : parseRequestedTags cfg.tags false [ldr2_tagStr ⟨s.name, idx⟩ none cnt] =
      [ldb_parsedRead s.name idx i cnt info] := by
    show [parseTagRequest cfg.tags false 0 _] = _
    rw [hparse]
  rw [hparsed]
  exact ldr2_build_single cfg d (ldb_parsedRead s.name idx i cnt info) info path (ldb_words i (cnt.getD 1)) rfl rfl rfl
    hw16 hpath (by rw [hrs, hml]; omega)

/-- `read` of the BOOLs `[i, i + n)` (`n = cnt.getD 1 ≥ 1`) of a controller-scope BOOL array (a one-dimensional DWORD
    array tag of `dim` words), requested as `name[i]`, `name[i]{n}` (`idx = [i]`) or `name`, `name{n}` (`idx = []`, `i = 0`) -/
theorem ldb_read_bools (cfg : Cfg) (w : Cli.World Ext) (sess : Nat) (cidb : Bytes) (conn : Conn)
    (st : LState) (s : Symbol) (info : TagInfo) (dim : Nat) (idx : List Nat) (i : Nat) (cnt : Option Nat)
    (hidx : idx = [i] ∨ (idx = [] ∧ i = 0))
    (hw : ldr_Healthy w sess cidb conn) (hlogix : w.net.target.ext.logix = some st)
    (hs : s ∈ st.proj.controller)
    (hbytes : ∀ s' ∈ st.proj.controller, ∀ ch ∈ s'.name, ch < 256)
    (huniqN : ∀ s' ∈ st.proj.controller, s'.name = s.name → s' = s)
    (huniqI : ∀ s' ∈ st.proj.controller, s'.inst = s.inst → s' = s)
    (hid : PlainIdent s.name) (hinst : s.inst < 2 ^ 32)
    (hty : elTyOfWord s.symbolType = .atomic 0xD3)
    (hdims : s.dims.filter (· != 0) = [dim]) (hlen : s.mem.length = dim * 4)
    (hget : cfg.tags.get? s.name = some info)
    (hinfo : ldr_InfoOf info (nm "DWORD") (.arr (.fixed dim) (.bits .udint)) s.inst)
    (hn : 1 ≤ cnt.getD 1) (hn16 : cnt.getD 1 ≤ 65535) (hin : i + cnt.getD 1 ≤ 32 * dim)
    (hw16 : ldb_words i (cnt.getD 1) ≤ 65535)
    (hC : ldb_words i (cnt.getD 1) * 4 + s.name.length + 26 ≤ w.drv.connectionSize)
    (hT : ldb_words i (cnt.getD 1) * 4 + s.name.length + 26 ≤ conn.size) :
    ∃ w' frm, read hookAll cfg w [ldr2_tagStr ⟨s.name, idx⟩ none cnt] =
        (w', .ok [{ tag := renderLevel ⟨s.name, idx⟩,
                    value := ldr2_value ((List.range (cnt.getD 1)).map fun k => PyVal.bool (ldb_bit s.mem (i + k))),
                    type := some (ldr2_typeStr (nm "BOOL") (cnt.getD 1)), error := none }]) ∧
      w'.drv = w.drv.nextSeq.2 ∧ w'.net.sent = w.net.sent ++ [frm] ∧
      w'.net.target.ext = { w.net.target.ext with logix := some { st with ctr := st.ctr + 1 } } ∧
      ldr_Healthy w' sess cidb { conn with lastSeq := some w.drv.nextSeq.1 } := by
  have hwle : ldb_words i (cnt.getD 1) ≤ dim := by unfold ldb_words; omega
  have hw1 : 1 ≤ ldb_words i (cnt.getD 1) := by unfold ldb_words; omega
  have hcov : i + cnt.getD 1 ≤ 32 * ldb_words i (cnt.getD 1) := by unfold ldb_words; omega
  have hi32 : i < 2 ^ 32 := by omega
  have hl0 : ldr2_Level ⟨s.name, idx.map fun _ => 0⟩ := by
    refine ⟨hid, ?_, ?_⟩
    · rcases hidx with h | ⟨h, _⟩ <;> rw [h] <;> simp
    · rcases hidx with h | ⟨h, _⟩ <;> rw [h] <;> simp
  have hil : (idx.map fun _ => 0).length ≤ 1 := by rcases hidx with h | ⟨h, _⟩ <;> rw [h] <;> simp
  have hsz : atomicSize 0xD3 = some 4 := rfl
  have hentry : typeEntryOfName (nm "DWORD") = some (nm "DWORD", 0xD3, 4) := by decide
  -- (a) parsing
  have hdw : isDword info = true := by simp [isDword, hinfo.kind, hinfo.typeName]
  have hparse := ldb_parse_read cfg.tags s.name idx i cnt info hidx hid hi32 hget hdw hn16 hw16
  -- (b) the path
  obtain ⟨path, hpath, hpl, hden⟩ := ldr2_requestPath cfg ⟨s.name, idx.map fun _ => 0⟩ info s.inst hl0 hinfo.instanceId hinst
  have hpl' : path.length ≤ s.name.length + 19 := by
    have : path.length ≤ s.name.length + 13 + 6 * (idx.map fun _ => 0).length := hpl
    omega
  have hrs : tagReturnSize info (ldb_words i (cnt.getD 1)) = 4 * ldb_words i (cnt.getD 1) := by
    simp [tagReturnSize, hinfo.struct, hinfo.typeName, hentry]
  -- (d) the address
  have hmem : s.mem ≠ [] := by
    intro h
    rw [h, List.length_nil] at hlen
    omega
  have hr : resolve st.proj (ldr_segs s.name s.inst cfg.useInstanceIds ++ (idx.map fun _ => 0).map (PSeg.logical 8)) =
      .ok (ldr2_locAt s 0xD3 4 0 dim) := by
    rcases hidx with h | ⟨h, _⟩
    · rw [h]
      exact ldr2_resolve_elem st.proj s 0xD3 4 cfg.useInstanceIds 0 dim hid hs hbytes huniqN huniqI hty hsz hmem hdims (by omega)
    · rw [h, List.map_nil, List.map_nil, List.append_nil, ← ldr2_loc_zero s 0xD3 4 dim hdims]
      exact ldr_resolve st.proj s 0xD3 4 cfg.useInstanceIds hid hs hbytes huniqN huniqI hty hsz hmem
  have hbts := ldr2_readBytes_elem st.proj s 0xD3 4 0 dim (ldb_words i (cnt.getD 1)) hs huniqI hsz hlen (by omega)
  rw [Nat.zero_mul] at hbts
  -- (e) the reply
  have hreply := ldr2_parseReadReply_dword info dim s.mem (ldb_words i (cnt.getD 1)) hinfo.ty hinfo.typeName hw1 (by omega)
  have hbl : ((s.mem.drop 0).take (ldb_words i (cnt.getD 1) * 4)).length ≤ ldb_words i (cnt.getD 1) * 4 := by
    rw [List.length_take]; exact Nat.min_le_left _ _
  obtain ⟨w', frm, hread, hrest⟩ := ldr2_read_single cfg w sess cidb conn st (ldr2_tagStr ⟨s.name, idx⟩ none cnt) _ info path
    _ (ldr2_locAt s 0xD3 4 0 dim) 0xD3 (ldb_words i (cnt.getD 1)) _ _ _ hw hlogix hparse rfl rfl rfl rfl hpath hden
    (by have := hid.2.1; omega) hr rfl
    ⟨hw1, by simp only [ldr2_locAt]; omega, by omega⟩ hbts hreply
    (by rw [hrs]; omega) (by omega) (by omega)
  refine ⟨w', frm, ?_, hrest⟩
  rw [hread]
  have hflen : ((ldr2_dwords s.mem (ldb_words i (cnt.getD 1))).flatMap (natToBits 32)).length =
      32 * ldb_words i (cnt.getD 1) := by
    rw [ldr2_flat_length]; simp [ldr2_dwords]
  have hbitv : (ldb_parsedRead s.name idx i cnt info).bit.getD 0 = (i : Int) := by
    rcases hidx with h | ⟨h, h0⟩
    · rw [h]; rfl
    · rw [h, h0]; rfl
  have hwin := ldb_flat_window s.mem (ldb_words i (cnt.getD 1)) i (cnt.getD 1) hcov
  by_cases hone : cnt.isNone = true ∨ cnt.getD 1 = 1
  · -- one BOOL
    have hn1 : cnt.getD 1 = 1 := by
      rcases hone with h | h
      · cases cnt with
        | none => rfl
        | some _ => simp at h
      · exact h
    have hbe : (ldb_parsedRead s.name idx i cnt info).boolElements = none := by
      simp only [ldb_parsedRead]
      rw [hn1]
      simp
    have hget2 := ldr2_flat_get (ldr2_dwords s.mem (ldb_words i (cnt.getD 1))) i (by simp [ldr2_dwords]; omega)
    rw [ldr2_dwords_getD s.mem (ldb_words i (cnt.getD 1)) (i / 32) (by omega)] at hget2
    have hresult := ldb_readResult_one (ldb_parsedRead s.name idx i cnt info) info
      { tag := (ldb_parsedRead s.name idx i cnt info).plcTag,
        value := .list ((ldr2_dwords s.mem (ldb_words i (cnt.getD 1))).flatMap (natToBits 32)),
        type := some (nm "BOOL[" ++ renderDec ((ldb_words i (cnt.getD 1) * 32 : Nat) : Int) ++ [93]), error := none }
      _ i _ rfl rfl hbitv hbe hinfo.typeName rfl rfl hget2
    have hrid : (ldb_parsedRead s.name idx i cnt info).requestId = 0 := rfl
    rw [hrid] at hresult
    rw [hresult, hn1, ldb_typeStr_one]
    simp [ldb_parsedRead, ldr2_value, ldb_bit]
  · -- a list of BOOLs
    have hsome : cnt.isNone = false := by
      cases h : cnt.isNone with
      | false => rfl
      | true => exact absurd (Or.inl h) hone
    have hn2 : 2 ≤ cnt.getD 1 := by
      have : cnt.getD 1 ≠ 1 := fun h => hone (Or.inr h)
      omega
    have hbe : (ldb_parsedRead s.name idx i cnt info).boolElements = some ((cnt.getD 1 : Nat) : Int) := by
      have hne : ((((cnt.getD 1 : Nat) : Int)) == 1) = false := by
        have : ¬ (((cnt.getD 1 : Nat) : Int) = 1) := by omega
        simpa using this
      simp only [ldb_parsedRead, hsome, hne, Bool.or_self, Bool.false_eq_true, if_false]
    have hresult := ldb_readResult_many (ldb_parsedRead s.name idx i cnt info) info
      { tag := (ldb_parsedRead s.name idx i cnt info).plcTag,
        value := .list ((ldr2_dwords s.mem (ldb_words i (cnt.getD 1))).flatMap (natToBits 32)),
        type := some (nm "BOOL[" ++ renderDec ((ldb_words i (cnt.getD 1) * 32 : Nat) : Int) ++ [93]), error := none }
      _ i (cnt.getD 1) rfl rfl hbitv hbe hinfo.typeName rfl rfl (by rw [hflen]; exact hcov)
    have hrid : (ldb_parsedRead s.name idx i cnt info).requestId = 0 := rfl
    rw [hrid] at hresult
    rw [hresult, hwin, ldb_typeStr_many _ hn2, ldr2_value_many _ (by simp; exact hn2)]
    rfl

end Pycomm.Lgx.Drv
