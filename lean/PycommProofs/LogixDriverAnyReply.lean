/-
  C13 at the driver level for ARBITRARY reply bytes: `LogixDriver.read`, `LogixDriver.write` and
  `CIPDriver.generic_message` when the next reply the driver reads is ANY byte string `raw` — well-formed, carrying an
  error status, truncated anywhere, or garbage.

  How an arbitrary reply enters the model (no change to it): the transport's queue `w.net.pending` holds `some raw`
  at its head, so `_receive` returns `raw` for the next request (the target's own answer is queued behind it). The
  harness stream `ld-altered` runs the real driver the same way.

  Helpers (lemma prefix `lda_`):
    LDAny1  transport (`lda_sendReq_head`, `lda_sendReq_exact`), non-empty error texts (`lda_ErrText`), the response
            class over arbitrary bytes (`lda_tagResp_cases`), the Tag of one plain request (`lda_readOutcome_cases`,
            `lda_writeOutcome_cases`)
    LDAny2  one iteration of `_send_requests` (`lda_apply`, `lda_sendRequest_head`), `read` / `write` of one request
            (`lda_read_single`, `lda_write_single`), the result loops (`lda_readResult_cases`, `lda_writeResult_cases`)
    LDAny3  a decoded value is never None and has no None among its items (`lda_decode_solid`, `lda_parseReadReply_solid`)
    LDAny4  good table entries ⇒ good Tags (`lda_readResult_good`, `lda_writeResult_good`), the Read-Modify-Write fan-out
    LDAny5  Multiple Service Packets (`lda_apply_multiRead_table`, `lda_apply_multiWrite_table`, `lda_PairOk`),
            `generic_message` (`lda_generic_tag`)

  Findings while proving (none is a `.foreign` / `.hang` outcome or a success over bad status words):
    * a reply cut INSIDE its extended status (e.g. 49 bytes, general status 5) makes `response.error` raise
      BufferEmptyError / DataError out of `read` / `write` / `generic_message` — library exceptions, case (i);
    * writes: `write(tag, None)` on a BOOL / bit yields a falsy Tag WITHOUT error even over a healthy reply (the caller's
      value is echoed) — (iii) for writes carries the exact exclusion `v ≠ None`;
    * multi-service packets: only the packet's ENCAPSULATION status and each embedded reply's own status are looked at —
      the packet's outer general status is not (0x1E "embedded service error" is legitimate), and a truncated packet
      whose embedded replies cannot be paired yields falsy Tags "Invalid tag request - KeyError".
-/
import PycommProofs.LDAny5
import PycommProofs.LogixDriverRead2
namespace Pycomm.Lgx.Drv
open Pycomm Pycomm.Tgt Pycomm.Path Pycomm.Reply Pycomm.Encap Pycomm.Lgx Pycomm.Lgx.E2E

/-- the exceptions `read` / `write` can raise over an arbitrary reply: CommError (the transport), DataError (building
    the frame; rendering the extended status of a truncated reply), BufferEmptyError (the same rendering) -/
def lda_ReplyExn (e : Exn) : Prop := e = .comm ∨ e = .data ∨ e = .bufferEmpty

theorem lda_ReplyExn_library (e : Exn) (h : lda_ReplyExn e) : e.isLibrary = true := by
  rcases h with rfl | rfl | rfl <;> rfl

/-- the message and sequence count a non-fragmented request is sent with -/
def Request.lda_msg : Request → Option (Nat × Bytes)
  | .read req => some (req.seq, Cl.readMsg req.path req.elements)
  | .write req => some (req.seq, Cl.writeMsg req.path req.typeBytes req.elements req.value)
  | .rmw req => match rmwMessage req with | .ok m => some (req.seq, m) | .error _ => none
  | .multiRead seq reqs => some (seq, Cl.multiMsg (reqs.map fun q => Cl.readMsg q.path q.elements))
  | .multiWrite seq reqs => some (seq, Cl.multiMsg (reqs.map fun q => Cl.writeMsg q.path q.typeBytes q.elements q.value))
  | .readFrag _ => none
  | .writeFrag _ => none

/-- with a socket, no scheduled faults and a frame that builds, the iteration of `_send_requests` IS `lda_apply` of the
    waiting reply: the bytes reach the response class unchanged -/
theorem lda_sendRequest_exact {σ} (hook : ObjHook σ) (w : Cli.World σ) (rs : Results) (q : Request) (raw frm : Bytes)
    (rest : List (Option Bytes)) (seq : Nat) (msg : Bytes)
    (hp : w.net.pending = some raw :: rest) (hsock : w.drv.hasSock = true) (hf : w.net.faults = [])
    (hm : q.lda_msg = some (seq, msg)) (hb : buildRequest (.sendUnit seq msg) w.drv.ctx = .ok frm) :
    (sendRequest hook w rs q).2 = lda_apply rs (some raw) q := by
  have hs : (sendUnit hook w seq msg).2 = .ok (some raw) := lda_sendReq_exact hook w _ raw frm rest hp hsock hf hb
  have fin : ∀ (k : Option Bytes → Except Exn Results) (X : Cli.World σ × Except Exn Results),
      X = (match sendUnit hook w seq msg with
            | (w1, r) => match r with
              | .error e => (w1, .error e)
              | .ok raw' => (w1, k raw')) → X.2 = k (some raw) := by
    intro k X hX
    rcases hu : sendUnit hook w seq msg with ⟨w1, r⟩
    rw [hu] at hs hX
    dsimp only at hs
    subst hs
    rw [hX]
  cases q with
  | read req =>
    simp only [Request.lda_msg, Option.some.injEq, Prod.mk.injEq] at hm
    obtain ⟨rfl, rfl⟩ := hm
    exact fin (fun r => lda_apply rs r (.read req)) _ (by unfold sendRequest; rfl)
  | readFrag req => cases hm
  | write req =>
    simp only [Request.lda_msg, Option.some.injEq, Prod.mk.injEq] at hm
    obtain ⟨rfl, rfl⟩ := hm
    exact fin (fun r => lda_apply rs r (.write req)) _ (by unfold sendRequest; rfl)
  | writeFrag req => cases hm
  | rmw req =>
    unfold Request.lda_msg at hm
    dsimp only at hm
    cases hr : rmwMessage req with
    | error e => rw [hr] at hm; cases hm
    | ok m =>
      rw [hr] at hm
      simp only [Option.some.injEq, Prod.mk.injEq] at hm
      obtain ⟨rfl, rfl⟩ := hm
      refine fin (fun r => lda_apply rs r (.rmw req)) _ ?_
      unfold sendRequest
      dsimp only
      rw [hr]
      rfl
  | multiRead s reqs =>
    simp only [Request.lda_msg, Option.some.injEq, Prod.mk.injEq] at hm
    obtain ⟨rfl, rfl⟩ := hm
    refine fin (fun r => lda_apply rs r (.multiRead s reqs)) _ ?_
    unfold sendRequest lda_apply
    dsimp only
    rcases sendUnit hook w s _ with ⟨w1, r⟩
    cases r with
    | error e => rfl
    | ok raw' =>
      dsimp only
      cases multiPacketError (tagResp raw') with
      | error e => rfl
      | ok o => cases o <;> rfl
  | multiWrite s reqs =>
    simp only [Request.lda_msg, Option.some.injEq, Prod.mk.injEq] at hm
    obtain ⟨rfl, rfl⟩ := hm
    refine fin (fun r => lda_apply rs r (.multiWrite s reqs)) _ ?_
    unfold sendRequest lda_apply
    dsimp only
    rcases sendUnit hook w s _ with ⟨w1, r⟩
    cases r with
    | error e => rfl
    | ok raw' =>
      dsimp only
      cases multiPacketError (tagResp raw') with
      | error e => rfl
      | ok o => cases o <;> rfl

/-- the transport the reply of a `generic_message` call is parsed for -/
def lda_transport (a : Cli.GenArgs) : Transport := if a.connected then .connected else .unconnected

/-- the exceptions `generic_message` can raise over an arbitrary reply -/
def lda_GenExn (e : Exn) : Prop := e = .comm ∨ e = .data ∨ e = .bufferEmpty ∨ e = .request

theorem lda_GenExn_library (e : Exn) (h : lda_GenExn e) : e.isLibrary = true := by
  rcases h with rfl | rfl | rfl | rfl <;> rfl

/-! ### evaluation checks for the non-vacuity section: a build result is one packet of the given kind -/

def lda_isSingleRead (x : Cli.Drv × Except Exn (List Request)) : Bool :=
  match x.2 with | .ok [.read _] => true | _ => false

theorem lda_of_isSingleRead (x : Cli.Drv × Except Exn (List Request)) (h : lda_isSingleRead x = true) :
    ∃ d1 req, x = (d1, .ok [.read req]) := by
  obtain ⟨d1, r⟩ := x
  unfold lda_isSingleRead at h
  dsimp only at h
  split at h
  · exact ⟨d1, _, rfl⟩
  · cases h

def lda_isMultiRead (x : Cli.Drv × Except Exn (List Request)) : Bool :=
  match x.2 with | .ok [.multiRead _ _] => true | _ => false

theorem lda_of_isMultiRead (x : Cli.Drv × Except Exn (List Request)) (h : lda_isMultiRead x = true) :
    ∃ d1 seq reqs, x = (d1, .ok [.multiRead seq reqs]) := by
  obtain ⟨d1, r⟩ := x
  unfold lda_isMultiRead at h
  dsimp only at h
  split at h
  · exact ⟨d1, _, _, rfl⟩
  · cases h

def lda_isSingleWrite (x : Cli.Drv × Except Exn (List Drv.Parsed × List Request)) : Bool :=
  match x.2 with | .ok (_, [.write _]) => true | .ok (_, [.rmw _]) => true | _ => false

theorem lda_of_isSingleWrite (x : Cli.Drv × Except Exn (List Drv.Parsed × List Request)) (h : lda_isSingleWrite x = true) :
    ∃ d1 ps' q, x = (d1, .ok (ps', [q])) ∧ ((∃ req, q = .write req) ∨ (∃ req, q = .rmw req)) := by
  obtain ⟨d1, r⟩ := x
  unfold lda_isSingleWrite at h
  dsimp only at h
  split at h
  · exact ⟨d1, _, _, rfl, .inl ⟨_, rfl⟩⟩
  · exact ⟨d1, _, _, rfl, .inr ⟨_, rfl⟩⟩
  · cases h

def lda_isMultiWrite (x : Cli.Drv × Except Exn (List Drv.Parsed × List Request)) : Bool :=
  match x.2 with | .ok (_, [.multiWrite _ _]) => true | _ => false

theorem lda_of_isMultiWrite (x : Cli.Drv × Except Exn (List Drv.Parsed × List Request)) (h : lda_isMultiWrite x = true) :
    ∃ d1 ps' seq reqs, x = (d1, .ok (ps', [.multiWrite seq reqs])) := by
  obtain ⟨d1, r⟩ := x
  unfold lda_isMultiWrite at h
  dsimp only at h
  split at h
  · exact ⟨d1, _, _, _, rfl⟩
  · cases h

def lda_isExactRead (x : Cli.Drv × Except Exn (List Request)) : Bool :=
  match x.2 with
  | .ok [.read req] =>
      x.1.hasSock && (match buildRequest (.sendUnit req.seq (Cl.readMsg req.path req.elements)) x.1.ctx with
                      | .ok _ => true | .error _ => false)
  | _ => false

theorem lda_of_isExactRead (x : Cli.Drv × Except Exn (List Request)) (h : lda_isExactRead x = true) :
    ∃ d1 req frm, x = (d1, .ok [.read req]) ∧ d1.hasSock = true ∧
      buildRequest (.sendUnit req.seq (Cl.readMsg req.path req.elements)) d1.ctx = .ok frm := by
  obtain ⟨d1, r⟩ := x
  unfold lda_isExactRead at h
  dsimp only at h
  split at h
  · rename_i req
    simp only [Bool.and_eq_true] at h
    obtain ⟨h1, h2⟩ := h
    split at h2
    · next frm hf => exact ⟨d1, req, frm, rfl, h1, hf⟩
    · cases h2
  · cases h

-- PROPERTY THEOREMS

/-- C13, driver level, ANY reply to a single read: `read(tag)` on a driver that believes it is connected, when the
    request parses and builds to ONE non-fragmented Read Tag packet (`hbuild`) and the next reply the driver receives
    is the ARBITRARY byte string `raw` (`hpend`: it waits at the head of the transport's queue) — whatever `raw` is:
    (i)   the call returns exactly one Tag, or raises CommError / DataError / BufferEmptyError (library exceptions:
          the transport failed, or `response.error` raised while rendering the extended status of a reply cut inside
          it) — never a foreign exception, never a hang;
    (ii)  the Tag is truthy ONLY IF the status words of `raw` are OK (`StatusWordsOk` of `valid_iff`: at least 49
          bytes, encapsulation status 0, a reply service byte, general status 0 — or 6 for a service that legitimately
          continues): a reply with any other status, or
          too short to contain its status words, is NEVER reported as success — it yields `value = None` and an error;
    (iii) a falsy Tag always carries a non-empty error text.
    No hypothesis on the target, the hook, the session or the rest of the queue is needed. -/
theorem read_single_any_reply {σ} (hook : ObjHook σ) (cfg : Cfg) (w w' : Cli.World σ) (raw : Bytes)
    (rest : List (Option Bytes)) (tag : Name) (d1 : Cli.Drv) (req : ReadReq) (r : Except Exn (List LTag))
    (hconn : w.drv.targetIsConnected = true) (hpend : w.net.pending = some raw :: rest)
    (hbuild : readBuildRequests cfg w.drv (parseRequestedTags cfg.tags false [tag]) = (d1, .ok [.read req]))
    (h : read hook cfg w [tag] = (w', r)) :
    (∃ t, r = .ok [t] ∧
      (t.truthy = true → StatusWordsOk .connected raw) ∧
      (¬ StatusWordsOk .connected raw → t.value = .none ∧ ∃ e, t.error = some e ∧ lda_ErrText e) ∧
      (t.truthy = false → ∃ e, t.error = some e ∧ lda_ErrText e)) ∨
    (∃ e, r = .error e ∧ lda_ReplyExn e ∧ e.isLibrary = true) := by
  have h2 := lda_read_single hook cfg w tag d1 (.read req) hconn hbuild
  rw [h] at h2
  dsimp only at h2
  have hp' : ({ w with drv := d1 } : Cli.World σ).net.pending = some raw :: rest := hpend
  rcases lda_sendRequest_head hook { w with drv := d1 } [] (.read req) raw rest rfl hp' with hs | hs | hs
  · rw [hs] at h2
    rcases lda_readOutcome_cases req (some raw) with ⟨t0, ht0, _, hcase⟩ | he | he
    · have ha : lda_apply [] (some raw) (.read req) = .ok (Results.set [] req.rid t0) := by
        rw [lda_apply_read, ht0]; rfl
      rw [ha] at h2
      dsimp only at h2
      left
      refine ⟨_, h2, ?_⟩
      apply lda_readResult_good _ _ (StatusWordsOk .connected raw)
        (fun e he => lda_ErrText_of_lds e (lds_parse_err _ _ _ _ e he).2)
      intro result hg
      have hres := lda_single_get _ _ _ _ hg
      subst hres
      rcases hcase with ⟨e1, ⟨b, hb, hok⟩, dt, e3⟩ | ⟨e, e1, e2, e3, _⟩
      · cases hb
        exact .inl ⟨e1, hok, lda_parseReadReply_solid _ _ _ _ _ e3⟩
      · exact .inr ⟨e, e1, e2, e3⟩
    · have ha : lda_apply [] (some raw) (.read req) = .error .bufferEmpty := by rw [lda_apply_read, he]; rfl
      rw [ha] at h2
      exact .inr ⟨_, h2, .inr (.inr rfl), rfl⟩
    · have ha : lda_apply [] (some raw) (.read req) = .error .data := by rw [lda_apply_read, he]; rfl
      rw [ha] at h2
      exact .inr ⟨_, h2, .inr (.inl rfl), rfl⟩
  · rw [hs] at h2
    exact .inr ⟨_, h2, .inl rfl, rfl⟩
  · rw [hs] at h2
    exact .inr ⟨_, h2, .inr (.inl rfl), rfl⟩

/-- … and the reply really is what decides: on a driver with a socket, without scheduled transport faults, whose frame
    for the request builds (`hfrm`; session handle, connection id, sequence count and size in range), the result of
    `read(tag)` is a FUNCTION of `raw` alone — the Tag the response class makes of `raw` (`lda_readOutcome`), put
    through the result loop; the transport contributes nothing (no CommError) and the target's own answer is not
    looked at. -/
theorem read_single_any_reply_exact {σ} (hook : ObjHook σ) (cfg : Cfg) (w : Cli.World σ) (raw frm : Bytes)
    (rest : List (Option Bytes)) (tag : Name) (d1 : Cli.Drv) (req : ReadReq)
    (hconn : w.drv.targetIsConnected = true) (hpend : w.net.pending = some raw :: rest)
    (hsock : d1.hasSock = true) (hfaults : w.net.faults = [])
    (hbuild : readBuildRequests cfg w.drv (parseRequestedTags cfg.tags false [tag]) = (d1, .ok [.read req]))
    (hfrm : buildRequest (.sendUnit req.seq (Cl.readMsg req.path req.elements)) d1.ctx = .ok frm) :
    (read hook cfg w [tag]).2 =
      (lda_readOutcome req (some raw)).map fun t =>
        [readResult (parseTagRequest cfg.tags false 0 tag) (Results.set [] req.rid t)] := by
  rw [lda_read_single hook cfg w tag d1 (.read req) hconn hbuild,
    lda_sendRequest_exact hook { w with drv := d1 } [] (.read req) raw frm rest req.seq _ hpend
      hsock hfaults rfl hfrm]
  rw [lda_apply_read]
  cases lda_readOutcome req (some raw) with
  | error e => rfl
  | ok t => rfl

/-- C13, driver level, ANY reply to a single write: `write((tag, v))` on a driver that believes it is connected, when
    the request parses and builds to ONE non-fragmented packet `q` — a Write Tag request, or the Read-Modify-Write
    request of a bit write — and the next reply the driver receives is the ARBITRARY byte string `raw`:
    (i)   the call returns exactly one Tag, or raises CommError / DataError / BufferEmptyError — never a foreign
          exception (in particular the `write_results.pop` of the bit-write fan-out cannot fail), never a hang;
    (ii)  the Tag is WITHOUT ERROR only if the status words of `raw` are OK, hence truthy only then; with any other
          status, or a reply too short to contain its status words, it carries a non-empty error text;
    (iii) a falsy Tag carries a non-empty error text — unless the caller's value `v` itself is `None`
          (`Tag.__bool__` looks at `value is not None`, and `write` echoes the caller's value). -/
theorem write_single_any_reply {σ} (hook : ObjHook σ) (cfg : Cfg) (w w' : Cli.World σ) (raw : Bytes)
    (rest : List (Option Bytes)) (tag : Name) (v : PyVal) (d1 : Cli.Drv) (ps' : List Drv.Parsed) (q : Request)
    (r : Except Exn (List LTag))
    (hconn : w.drv.targetIsConnected = true) (hpend : w.net.pending = some raw :: rest)
    (hbuild : writeBuildRequests cfg w.drv [{ parseTagRequest cfg.tags true 0 tag with value := v }] = (d1, .ok (ps', [q])))
    (hq : (∃ req, q = .write req) ∨ (∃ req, q = .rmw req))
    (h : write hook cfg w [(tag, v)] = (w', r)) :
    (∃ t, r = .ok [t] ∧
      (t.error = none → StatusWordsOk .connected raw) ∧
      (t.truthy = true → StatusWordsOk .connected raw) ∧
      (¬ StatusWordsOk .connected raw → ∃ e, t.error = some e ∧ lda_ErrText e) ∧
      (t.truthy = false → v ≠ .none → ∃ e, t.error = some e ∧ lda_ErrText e)) ∨
    (∃ e, r = .error e ∧ lda_ReplyExn e ∧ e.isLibrary = true) := by
  have h2 := lda_write_single hook cfg w tag v d1 ps' q hconn hbuild
  rw [h] at h2
  dsimp only at h2
  have hp' : ({ w with drv := d1 } : Cli.World σ).net.pending = some raw :: rest := hpend
  have hplain : q.lda_plain = true := by
    rcases hq with ⟨req, rfl⟩ | ⟨req, rfl⟩ <;> rfl
  -- the parsed request after building
  have hpos : lds_IdsPos [({ parseTagRequest cfg.tags true 0 tag with value := v } : Drv.Parsed)] :=
    lds_wparse_idsPos cfg.tags [(tag, v)]
  obtain ⟨⟨hlen, hst⟩, _⟩ := lds_writeBuild_inv cfg w.drv d1 _ ps' [q] hpos hbuild
  obtain ⟨p', rfl⟩ : ∃ p', ps' = [p'] := by
    match ps', hlen with
    | [p'], _ => exact ⟨p', rfl⟩
  have hstab := hst 0 (by simp) (by simp)
  simp only [List.getElem_cons_zero] at hstab
  have hperr : ∀ e, p'.error = some e → lda_ErrText e := by
    intro e he
    rcases hstab.errs e he with h1 | h1
    · exact lda_ErrText_of_lds e (lds_parse_err cfg.tags true 0 tag e h1).2
    · exact lda_ErrText_of_lds e h1
  have hpv : p'.value = v := hstab.value
  -- the iteration
  have houtcome : ∃ (k : Int) (val : PyVal) (dtn : Name) (tg : Name),
      lda_apply [] (some raw) q = (lda_writeOutcome tg val dtn (some raw)).map (fun t => Results.set [] k t) ∧
      ∀ r', q = .rmw r' → r'.rid = k := by
    rcases hq with ⟨req, rfl⟩ | ⟨req, rfl⟩
    · exact ⟨req.rid, _, _, _, lda_apply_write _ _ _, fun r' hr => by cases hr⟩
    · exact ⟨req.rid, _, _, _, lda_apply_rmw _ _ _, fun r' hr => by cases hr; rfl⟩
  obtain ⟨k, val, dtn, tg, hap, hk⟩ := houtcome
  rcases lda_sendRequest_head hook { w with drv := d1 } [] q raw rest hplain hp' with hs | hs | hs
  · rw [hs, hap] at h2
    rcases lda_writeOutcome_cases tg val dtn (some raw) with ⟨t0, ht0, _, hcase⟩ | he | he
    · rw [ht0] at h2
      dsimp only [Except.map] at h2
      obtain ⟨rs', hfan⟩ := lda_fanOut_single k t0 q hk
      rw [hfan] at h2
      dsimp only at h2
      left
      refine ⟨_, h2, ?_⟩
      have hg := lda_writeResult_good p' rs' (StatusWordsOk .connected raw) hperr (by
        intro result hg
        obtain ⟨y, hy, hxy⟩ := lda_fanOut_entries [q] _ rs' hfan _ (lds_get?_mem _ _ _ hg)
        rcases lds_set_mem [] k t0 y hy with h1 | h1
        · cases h1
        · have hres : result = t0 := by rw [h1] at hxy; exact hxy
          subst hres
          rcases hcase with ⟨e1, ⟨b, hb, hok⟩, _⟩ | ⟨e, e1, e2, _, _⟩
          · cases hb; exact .inl ⟨e1, hok⟩
          · exact .inr ⟨e, e1, e2⟩)
      rw [hpv] at hg
      exact hg
    · rw [he] at h2
      exact .inr ⟨_, h2, .inr (.inr rfl), rfl⟩
    · rw [he] at h2
      exact .inr ⟨_, h2, .inr (.inl rfl), rfl⟩
  · rw [hs] at h2
    exact .inr ⟨_, h2, .inl rfl, rfl⟩
  · rw [hs] at h2
    exact .inr ⟨_, h2, .inr (.inl rfl), rfl⟩

/-- C13, driver level, ANY reply to a multi-service READ: `read(*tags)` of n ≥ 1 requests on a driver that believes it
    is connected, when the requests build to ONE Multiple Service Packet of the Read Tag requests `reqs` and the next
    reply the driver receives is the ARBITRARY byte string `raw`:
    (i)   the call returns one Tag per request, or raises CommError / DataError / BufferEmptyError — never a foreign
          exception, never a hang;
    (ii)  the i-th Tag is truthy ONLY IF the encapsulation status of `raw` is 0 (`lda_EncapOk`: the 4 status bytes are
          there and are 0) AND the request with id i was paired with an embedded reply whose OWN status words are OK
          (`lda_PairOk`; the embedded replies are parsed on their own behind 46 zero bytes); otherwise — bad
          encapsulation status, no embedded reply for the request, embedded error status, `raw` too short — the Tag
          has `value = None` and a non-empty error text;
    (iii) a falsy Tag always carries a non-empty error text. -/
theorem multi_read_any_reply {σ} (hook : ObjHook σ) (cfg : Cfg) (w w' : Cli.World σ) (raw : Bytes)
    (rest : List (Option Bytes)) (tags : List Name) (d1 : Cli.Drv) (seq : Nat) (reqs : List ReadReq)
    (r : Except Exn (List LTag))
    (hconn : w.drv.targetIsConnected = true) (hpend : w.net.pending = some raw :: rest) (hne : tags ≠ [])
    (hbuild : readBuildRequests cfg w.drv (parseRequestedTags cfg.tags false tags) = (d1, .ok [.multiRead seq reqs]))
    (h : read hook cfg w tags = (w', r)) :
    (∃ ts, r = .ok ts ∧ ts.length = tags.length ∧ ∀ (i : Nat) (hi : i < ts.length),
      (ts[i].truthy = true → lda_PairOk (fun q : ReadReq => q.rid) raw reqs i) ∧
      (¬ lda_PairOk (fun q : ReadReq => q.rid) raw reqs i →
        ts[i].value = .none ∧ ∃ e, ts[i].error = some e ∧ lda_ErrText e) ∧
      (ts[i].truthy = false → ∃ e, ts[i].error = some e ∧ lda_ErrText e)) ∨
    (∃ e, r = .error e ∧ lda_ReplyExn e ∧ e.isLibrary = true) := by
  have h2 := lda_read_many hook cfg w tags d1 (.multiRead seq reqs) hconn hne hbuild
  rw [h] at h2
  dsimp only at h2
  have hp' : ({ w with drv := d1 } : Cli.World σ).net.pending = some raw :: rest := hpend
  rcases lda_sendRequest_head hook { w with drv := d1 } [] (.multiRead seq reqs) raw rest rfl hp' with hs | hs | hs
  · rw [hs] at h2
    cases ha : lda_apply [] (some raw) (.multiRead seq reqs) with
    | error e =>
      rw [ha] at h2
      right
      refine ⟨e, h2, ?_⟩
      have hcls : lda_ReplyExn e := by
        rcases lda_apply_multi_err [] (some raw) _ e (.inl ⟨seq, reqs, rfl⟩) ha with rfl | rfl
        · exact .inr (.inr rfl)
        · exact .inr (.inl rfl)
      exact ⟨hcls, lda_ReplyExn_library e hcls⟩
    | ok rs =>
      rw [ha] at h2
      dsimp only at h2
      left
      refine ⟨_, h2, by rw [List.length_map, lds_parse_length], ?_⟩
      intro i hi
      have hi' : i < (parseRequestedTags cfg.tags false tags).length := by rwa [List.length_map] at hi
      have hit : i < tags.length := by rwa [lds_parse_length] at hi'
      rw [List.getElem_map]
      have hpi := lds_parse_getElem cfg.tags false tags i hit
      have hrid : ((parseRequestedTags cfg.tags false tags)[i]).requestId = i := lds_parse_idsPos cfg.tags false tags i hi'
      apply lda_readResult_good _ rs (lda_PairOk (fun q : ReadReq => q.rid) raw reqs i)
      · intro e he
        rw [hpi] at he
        exact lda_ErrText_of_lds e (lds_parse_err _ _ _ _ e he).2
      · intro result hg
        rw [hrid] at hg
        rcases lda_apply_multiRead_table [] rs raw seq reqs ha _ (lds_get?_mem _ _ _ hg) with h1 | h1
        · cases h1
        · exact h1
  · rw [hs] at h2
    exact .inr ⟨_, h2, .inl rfl, rfl⟩
  · rw [hs] at h2
    exact .inr ⟨_, h2, .inr (.inl rfl), rfl⟩

/-- C13, driver level, ANY reply to a multi-service WRITE: `write(*tags_values)` of n ≥ 1 pairs on a driver that believes
    it is connected, when the requests build to ONE Multiple Service Packet of the Write Tag requests `reqs`
    (`lds_wparse`: the parsed tags with the caller's values) and the next reply the driver receives is the ARBITRARY
    byte string `raw`:
    (i)   the call returns one Tag per pair, or raises CommError / DataError / BufferEmptyError — never a foreign
          exception, never a hang;
    (ii)  the i-th Tag is WITHOUT ERROR (hence truthy) only if the encapsulation status of `raw` is 0 AND request i was
          paired with an embedded reply whose own status words are OK (`lda_PairOk`); otherwise it carries a non-empty
          error text;
    (iii) a falsy Tag carries a non-empty error text, unless the caller's value itself is `None`. -/
theorem multi_write_any_reply {σ} (hook : ObjHook σ) (cfg : Cfg) (w w' : Cli.World σ) (raw : Bytes)
    (rest : List (Option Bytes)) (tvs : List (Name × PyVal)) (d1 : Cli.Drv) (ps' : List Drv.Parsed) (seq : Nat)
    (reqs : List WriteReq) (r : Except Exn (List LTag))
    (hconn : w.drv.targetIsConnected = true) (hpend : w.net.pending = some raw :: rest) (hne : tvs ≠ [])
    (hbuild : writeBuildRequests cfg w.drv (lds_wparse cfg.tags tvs) = (d1, .ok (ps', [.multiWrite seq reqs])))
    (h : write hook cfg w tvs = (w', r)) :
    (∃ ts, r = .ok ts ∧ ts.length = tvs.length ∧ ∀ (i : Nat) (hi : i < ts.length) (hv : i < tvs.length),
      (ts[i].error = none → lda_PairOk (fun q : WriteReq => q.rid) raw reqs i) ∧
      (ts[i].truthy = true → lda_PairOk (fun q : WriteReq => q.rid) raw reqs i) ∧
      (¬ lda_PairOk (fun q : WriteReq => q.rid) raw reqs i → ∃ e, ts[i].error = some e ∧ lda_ErrText e) ∧
      (ts[i].truthy = false → tvs[i].2 ≠ .none → ∃ e, ts[i].error = some e ∧ lda_ErrText e)) ∨
    (∃ e, r = .error e ∧ lda_ReplyExn e ∧ e.isLibrary = true) := by
  have h2 := lda_write_many hook cfg w tvs d1 ps' (.multiWrite seq reqs) hconn hne hbuild
  rw [h] at h2
  dsimp only at h2
  have hp' : ({ w with drv := d1 } : Cli.World σ).net.pending = some raw :: rest := hpend
  obtain ⟨⟨hlen, hst⟩, _⟩ := lds_writeBuild_inv cfg w.drv d1 _ ps' _ (lds_wparse_idsPos cfg.tags tvs) hbuild
  rw [lds_wparse_length] at hlen
  rcases lda_sendRequest_head hook { w with drv := d1 } [] (.multiWrite seq reqs) raw rest rfl hp' with hs | hs | hs
  · rw [hs] at h2
    cases ha : lda_apply [] (some raw) (.multiWrite seq reqs) with
    | error e =>
      rw [ha] at h2
      right
      refine ⟨e, h2, ?_⟩
      have hcls : lda_ReplyExn e := by
        rcases lda_apply_multi_err [] (some raw) _ e (.inr ⟨seq, reqs, rfl⟩) ha with rfl | rfl
        · exact .inr (.inr rfl)
        · exact .inr (.inl rfl)
      exact ⟨hcls, lda_ReplyExn_library e hcls⟩
    | ok rs =>
      rw [ha] at h2
      have hfan : fanOutRmw rs [.multiWrite seq reqs] = some rs := rfl
      dsimp only at h2
      rw [hfan] at h2
      dsimp only at h2
      left
      refine ⟨_, h2, by rw [List.length_map, hlen], ?_⟩
      intro i hi hv
      have hi' : i < ps'.length := by rwa [List.length_map] at hi
      have hiw : i < (lds_wparse cfg.tags tvs).length := by rw [lds_wparse_length]; exact hv
      rw [List.getElem_map]
      have hstab := hst i hiw hi'
      have hwp := lds_wparse_getElem cfg.tags tvs i hv
      have hrid : ps'[i].requestId = i := by
        rw [hstab.rid, hwp]; exact lds_parse_rid _ _ _ _
      have hval : ps'[i].value = tvs[i].2 := by rw [hstab.value, hwp]
      have hg := lda_writeResult_good ps'[i] rs (lda_PairOk (fun q : WriteReq => q.rid) raw reqs i) (by
        intro e he
        rcases hstab.errs e he with h1 | h1
        · rw [hwp] at h1
          exact lda_ErrText_of_lds e (lds_parse_err cfg.tags true i tvs[i].1 e h1).2
        · exact lda_ErrText_of_lds e h1) (by
        intro result hg
        rw [hrid] at hg
        rcases lda_apply_multiWrite_table [] rs raw seq reqs ha _ (lds_get?_mem _ _ _ hg) with h1 | h1
        · cases h1
        · exact h1)
      rw [hval] at hg
      exact hg
  · rw [hs] at h2
    exact .inr ⟨_, h2, .inl rfl, rfl⟩
  · rw [hs] at h2
    exact .inr ⟨_, h2, .inr (.inl rfl), rfl⟩

/-- C13, `CIPDriver.generic_message` with ANY reply, connected or unconnected, for every amount of fuel ≥ 2 (the model's
    `FUEL` is 8): when the next reply the driver receives is the ARBITRARY byte string `raw` (and, for a connected
    message, the driver believes it is connected, so that no Forward Open consumes the reply):
    (i)   the call returns a Tag named as requested, or raises CommError / DataError / BufferEmptyError / RequestError
          (library exceptions: request or route cannot be encoded, the transport failed, `response.error` raised on a
          reply cut inside its extended status) — never a foreign exception, never a hang;
    (ii)  the Tag is truthy ONLY IF the status words of `raw` are OK at the offsets of the transport (46/48 connected,
          40/42 unconnected; general status 0, or 6 for a connected reply to a service that legitimately continues);
          whenever they are not — any other status, or a reply too short to contain them — the Tag carries a
          non-empty error text;
    (iii) a falsy Tag always carries a non-empty error text. -/
theorem generic_any_reply {σ} (hook : ObjHook σ) (fuel : Nat) (w w' : Cli.World σ) (a : Cli.GenArgs) (raw : Bytes)
    (rest : List (Option Bytes)) (r : Except Exn Cli.Tag)
    (hpend : w.net.pending = some raw :: rest)
    (hconn : a.connected = true → w.drv.targetIsConnected = true)
    (h : Cli.genericMessage hook (fuel + 2) w a = (w', r)) :
    (∃ t, r = .ok t ∧ t.name = a.name ∧
      (t.truthy = true → StatusWordsOk (lda_transport a) raw) ∧
      (¬ StatusWordsOk (lda_transport a) raw → ∃ e, t.error = some e ∧ lda_ErrNonEmpty e) ∧
      (t.truthy = false → ∃ e, t.error = some e ∧ lda_ErrNonEmpty e)) ∨
    (∃ e, r = .error e ∧ lda_GenExn e ∧ e.isLibrary = true) := by
  have lib : ∀ e, lda_GenExn e → r = .error e → (∃ e, r = .error e ∧ lda_GenExn e ∧ e.isLibrary = true) :=
    fun e he hr => ⟨e, hr, he, lda_GenExn_library e he⟩
  -- the common tail: the reply is `raw`
  have tail : ∀ (tr : Transport), lda_transport a = tr → ∀ (w2 : Cli.World σ),
      (match errorCip (some raw) tr (parseGeneric (some raw) tr a.dataType).2.1
            (parseGeneric (some raw) tr a.dataType).2.2 with
        | .error e => ((w2, .error e) : Cli.World σ × Except Exn Cli.Tag)
        | .ok err => (w2, .ok { name := a.name, value := (parseGeneric (some raw) tr a.dataType).1, error := err })) = (w', r) →
      (∃ t, r = .ok t ∧ t.name = a.name ∧
        (t.truthy = true → StatusWordsOk (lda_transport a) raw) ∧
        (¬ StatusWordsOk (lda_transport a) raw → ∃ e, t.error = some e ∧ lda_ErrNonEmpty e) ∧
        (t.truthy = false → ∃ e, t.error = some e ∧ lda_ErrNonEmpty e)) ∨
      (∃ e, r = .error e ∧ lda_GenExn e ∧ e.isLibrary = true) := by
    intro tr htr w2 hm
    rw [htr]
    rcases lda_generic_tag raw tr a.dataType a.name with (he | he) | ⟨err, he, h1, h2, h3⟩
    · rw [he] at hm
      exact .inr (lib _ (.inr (.inr (.inl rfl))) (Prod.mk.inj hm).2.symm)
    · rw [he] at hm
      exact .inr (lib _ (.inr (.inl rfl)) (Prod.mk.inj hm).2.symm)
    · rw [he] at hm
      exact .inl ⟨_, (Prod.mk.inj hm).2.symm, rfl, h1, h2, h3⟩
  rw [Cli.genericMessage] at h
  cases hc : a.connected with
  | true =>
    have htr : lda_transport a = .connected := by unfold lda_transport; rw [hc]; rfl
    simp only [hc, if_true] at h
    rw [ldr_ensureFO_connected hook fuel w (hconn hc)] at h
    dsimp only at h
    split at h
    · next e hr =>
      rw [Cli.lc_requestPath_err _ _ _ _ hr] at h
      exact .inr (lib _ (.inr (.inl rfl)) (Prod.mk.inj h).2.symm)
    · next reqPath hr =>
      have hp1 : ({ w with drv := w.drv.nextSeq.2 } : Cli.World σ).net.pending = some raw :: rest := hpend
      have hsr := lda_sendReq_head hook { w with drv := w.drv.nextSeq.2 }
        (.sendUnit w.drv.nextSeq.1 ([UInt8.ofNat a.service] ++ reqPath ++ a.data)) raw rest hp1
      rcases hsend : Cli.sendReq hook { w with drv := w.drv.nextSeq.2 }
        (.sendUnit w.drv.nextSeq.1 ([UInt8.ofNat a.service] ++ reqPath ++ a.data)) false with ⟨w2, rr⟩
      rw [hsend] at hsr h
      dsimp only at hsr h
      rcases hsr with hsr | hsr | hsr <;> subst hsr
      · exact tail .connected htr w2 h
      · exact .inr (lib _ (.inl rfl) (Prod.mk.inj h).2.symm)
      · exact .inr (lib _ (.inr (.inl rfl)) (Prod.mk.inj h).2.symm)
  | false =>
    have htr : lda_transport a = .unconnected := by unfold lda_transport; rw [hc]; rfl
    simp only [hc, Bool.false_eq_true, if_false] at h
    split at h
    · next e hr =>
      rw [Cli.lc_requestPath_err _ _ _ _ hr] at h
      exact .inr (lib _ (.inr (.inl rfl)) (Prod.mk.inj h).2.symm)
    · next reqPath hr =>
      split at h
      · next e hroute =>
        have hcls : lda_GenExn e := by
          split at hroute
          · rw [Cli.lc_encEpath_err _ _ _ _ _ hroute]; exact .inr (.inl rfl)
          · cases hroute
          · cases hroute
          · split at hroute
            · rw [Cli.lc_encEpath_err _ _ _ _ _ hroute]; exact .inr (.inl rfl)
            · next e2 h2 => cases hroute; rw [Cli.lc_parseCipRouteStr_err _ _ _ h2]; exact .inr (.inr (.inr rfl))
          · split at hroute
            · cases hroute
            · rw [Cli.lc_encEpath_err _ _ _ _ _ hroute]; exact .inr (.inl rfl)
        exact .inr (lib _ hcls (Prod.mk.inj h).2.symm)
      · next rp hroute =>
        split at h
        · next e hmsg =>
          have hcls : e = .data := by
            split at hmsg
            · split at hmsg
              · cases hmsg
              · cases hmsg; rfl
            · cases hmsg
          rw [hcls] at h
          exact .inr (lib _ (.inr (.inl rfl)) (Prod.mk.inj h).2.symm)
        · next m hmsg =>
          have hsr := lda_sendReq_head hook w (.sendRR m) raw rest hpend
          rcases hsend : Cli.sendReq hook w (.sendRR m) false with ⟨w2, rr⟩
          rw [hsend] at hsr h
          dsimp only at hsr h
          rcases hsr with hsr | hsr | hsr <;> subst hsr
          · exact tail .unconnected htr w2 h
          · exact .inr (lib _ (.inl rfl) (Prod.mk.inj h).2.symm)
          · exact .inr (lib _ (.inr (.inl rfl)) (Prod.mk.inj h).2.symm)

/-! ### non-vacuity: the connected world of `LogixDriverRead2` (tags `abc` = DINT 42, `xyz` = INT, `bits` = BOOL array,
    obtained by RUNNING the model: open, register session, Forward Open) with an arbitrary reply waiting in the
    transport's queue. Every hypothesis of every theorem is discharged — for EVERY `raw` — and the model is run on
    (a) a healthy reply, (b) the same with encapsulation status 0x65, (c) cut to 47 bytes, (d) garbage, (e) cut inside
    the extended status. -/

namespace AnyEx

def w0 : Cli.World Ext := Ex.world2
def cfg : Cfg := Ex.cfg2
/-- the connected world with `raw` as the next reply the driver will read -/
def withReply (raw : Bytes) : Cli.World Ext := { w0 with net := { w0.net with pending := [some raw] } }

def abc : Name := Drv.nm "abc"
def xyz : Name := Drv.nm "xyz"

/-- the reply the reference controller itself gives to `read("abc")` (obtained by running the model's `send`) -/
def rawGood : Bytes :=
  match readBuildRequests cfg w0.drv (parseRequestedTags cfg.tags false [abc]) with
  | (d1, .ok [.read r]) =>
      (match (sendUnit hookAll { w0 with drv := d1 } r.seq (Cl.readMsg r.path r.elements)).2 with
       | .ok (some b) => b | _ => [])
  | _ => []
/-- … to `read("abc", "xyz")` (one Multiple Service Packet) -/
def rawGoodM : Bytes :=
  match readBuildRequests cfg w0.drv (parseRequestedTags cfg.tags false [abc, xyz]) with
  | (d1, .ok [.multiRead seq reqs]) =>
      (match (sendUnit hookAll { w0 with drv := d1 } seq (Cl.multiMsg (reqs.map fun q => Cl.readMsg q.path q.elements))).2 with
       | .ok (some b) => b | _ => [])
  | _ => []
/-- the same frame with encapsulation status 0x65 -/
def with65 (raw : Bytes) : Bytes := raw.take 8 ++ [0x65, 0, 0, 0] ++ raw.drop 12
def garbage : Bytes := (List.range 60).map fun i => UInt8.ofNat (i * 37 + 11)
/-- general status 5 and nothing behind it: `response.error` raises while rendering the extended status -/
def rawErrCut : Bytes := rawGood.take 48 ++ [5]
/-- an unconnected (SendRRData) success reply with 3 data bytes -/
def rawU : Bytes :=
  frame CMD_SEND_RR 4097 0 [95, 112, 121, 99, 111, 109, 109, 95]
    (cpfReplyUnconnected (encMRReply 0x0E { status := 0, data := [1, 2, 3] }))

#guard rawGood.length == 56 && rawGoodM.length == 74 && rawU.length == 47

def okVal (r : Except Exn (List LTag)) (chk : List PyVal → Bool) : Bool :=
  match r with
  | .ok ts => ts.all (fun t => t.truthy && t.error.isNone) && chk (ts.map (·.value))
  | .error _ => false
/-- every Tag falsy, without value, with an error -/
def allFailed (r : Except Exn (List LTag)) (n : Nat) : Bool :=
  match r with
  | .ok ts => ts.length == n && ts.all (fun t => !t.truthy && t.error.isSome && (match t.value with | .none => true | _ => false))
  | .error _ => false
def raises (r : Except Exn (List LTag)) (e : Exn) : Bool :=
  match r with | .error e' => e' == e | .ok _ => false
def isInt (v : PyVal) (i : Int) : Bool := match v with | .int x => x == i | _ => false

-- the status words of the five replies (`valid_iff`: `(tagResp (some raw)).valid` decides `StatusWordsOk .connected raw`)
#guard (tagResp (some rawGood)).valid
#guard !(tagResp (some (with65 rawGood))).valid && !(tagResp (some (rawGood.take 47))).valid &&
       !(tagResp (some garbage)).valid && !(tagResp (some rawErrCut)).valid && !(tagResp (some [])).valid

-- read("abc"): (a) 42, (b)–(d) a falsy Tag with an error, (e) BufferEmptyError; the empty reply: falsy
#guard okVal (read hookAll cfg (withReply rawGood) [abc]).2 (fun vs => match vs with | [v] => isInt v 42 | _ => false)
#guard allFailed (read hookAll cfg (withReply (with65 rawGood)) [abc]).2 1
#guard allFailed (read hookAll cfg (withReply (rawGood.take 47)) [abc]).2 1
#guard allFailed (read hookAll cfg (withReply garbage) [abc]).2 1
#guard allFailed (read hookAll cfg (withReply []) [abc]).2 1
#guard raises (read hookAll cfg (withReply rawErrCut) [abc]).2 .bufferEmpty
-- every prefix of the healthy reply: never a foreign exception, truthy only from 49 bytes on (here: only the full reply)
#guard (List.range (rawGood.length + 1)).all fun n =>
  match (read hookAll cfg (withReply (rawGood.take n)) [abc]).2 with
  | .ok [t] => (t.truthy == (n == 56)) && (t.truthy || t.error.isSome)
  | .ok _ => false
  | .error e => e.isLibrary
-- … and the result is the function of `raw` that `read_single_any_reply_exact` states
#guard (List.range (rawGood.length + 1)).all fun n =>
  match readBuildRequests cfg w0.drv (parseRequestedTags cfg.tags false [abc]) with
  | (_, .ok [.read req]) =>
      (match (read hookAll cfg (withReply (rawGood.take n)) [abc]).2,
             ((lda_readOutcome req (some (rawGood.take n))).map fun t =>
                [readResult (parseTagRequest cfg.tags false 0 abc) (Results.set [] req.rid t)]) with
       | .ok [a], .ok [b] => a.tag == b.tag && a.truthy == b.truthy && a.error == b.error && a.type == b.type
       | .error e, .error e' => e == e'
       | _, _ => false)
  | _ => false

-- write("abc", 5) and the bit write write("abc.3", True): success only with OK status words
#guard okVal (write hookAll cfg (withReply rawGood) [(abc, .int 5)]).2 (fun vs => match vs with | [v] => isInt v 5 | _ => false)
#guard (match (write hookAll cfg (withReply (with65 rawGood)) [(abc, .int 5)]).2 with
        | .ok [t] => !t.truthy && t.error.isSome | _ => false)
#guard (match (write hookAll cfg (withReply (rawGood.take 47)) [(abc, .int 5)]).2 with
        | .ok [t] => !t.truthy && t.error.isSome | _ => false)
#guard (match (write hookAll cfg (withReply garbage) [(abc, .int 5)]).2 with
        | .ok [t] => !t.truthy && t.error.isSome | _ => false)
#guard raises (write hookAll cfg (withReply rawErrCut) [(abc, .int 5)]).2 .bufferEmpty
#guard okVal (write hookAll cfg (withReply rawGood) [(Drv.nm "abc.3", .bool true)]).2 (fun _ => true)
#guard (match (write hookAll cfg (withReply (rawGood.take 47)) [(Drv.nm "abc.3", .bool true)]).2 with
        | .ok [t] => !t.truthy && t.error.isSome | _ => false)
-- the corner of (iii) for writes: the caller's value is None — a falsy Tag WITHOUT error, even over a healthy reply
-- (`BOOL.encode(None)` succeeds, `write` echoes the caller's value, `Tag.__bool__` asks `value is not None`)
#guard (match (write hookAll cfg (withReply rawGood) [(Drv.nm "bits[3]", .none)]).2 with
        | .ok [t] => !t.truthy && t.error.isNone | _ => false)

-- read("abc", "xyz") as one Multiple Service Packet: (a) both values, (b) both fail with the packet's error,
-- (c) no embedded reply can be paired: both fail, (d) garbage: both fail; cut after the first embedded reply: one each
#guard okVal (read hookAll cfg (withReply rawGoodM) [abc, xyz]).2
  (fun vs => match vs with | [a, b] => isInt a 42 && isInt b (-32763) | _ => false)
#guard allFailed (read hookAll cfg (withReply (with65 rawGoodM)) [abc, xyz]).2 2
#guard allFailed (read hookAll cfg (withReply (rawGoodM.take 47)) [abc, xyz]).2 2
#guard allFailed (read hookAll cfg (withReply garbage) [abc, xyz]).2 2
#guard (match (read hookAll cfg (withReply (rawGoodM.take 66)) [abc, xyz]).2 with
        | .ok [a, b] => a.truthy && isInt a.value 42 && !b.truthy && b.error.isSome | _ => false)
#guard (List.range (rawGoodM.length + 1)).all fun n =>
  match (read hookAll cfg (withReply (rawGoodM.take n)) [abc, xyz]).2 with
  | .ok ts => ts.length == 2 && ts.all (fun t => t.truthy || t.error.isSome)
  | .error e => e.isLibrary
#guard okVal (write hookAll cfg (withReply rawGoodM) [(abc, .int 1), (xyz, .int 2)]).2 (fun vs => vs.length == 2)
#guard (match (write hookAll cfg (withReply (with65 rawGoodM)) [(abc, .int 1), (xyz, .int 2)]).2 with
        | .ok ts => ts.length == 2 && ts.all (fun t => !t.truthy && t.error.isSome) | _ => false)

-- generic_message, connected and unconnected
def ga : Cli.GenArgs := { service := 0x0E, cls := .bytes [0x01], inst := .int 1, attr := .int 7, name := Drv.nm "g" }
def gu : Cli.GenArgs := { ga with connected := false, route := .off }
def genOk (r : Except Exn Cli.Tag) : Bool := match r with | .ok t => t.truthy | _ => false
def genFailed (r : Except Exn Cli.Tag) : Bool := match r with | .ok t => !t.truthy && t.error.isSome | _ => false
#guard genOk (Cli.genericMessage hookAll Cli.FUEL (withReply rawGood) ga).2
#guard genFailed (Cli.genericMessage hookAll Cli.FUEL (withReply (with65 rawGood)) ga).2
#guard genFailed (Cli.genericMessage hookAll Cli.FUEL (withReply (rawGood.take 47)) ga).2
#guard genFailed (Cli.genericMessage hookAll Cli.FUEL (withReply garbage) ga).2
#guard (match (Cli.genericMessage hookAll Cli.FUEL (withReply rawErrCut) ga).2 with | .error .bufferEmpty => true | _ => false)
#guard genOk (Cli.genericMessage hookAll Cli.FUEL (withReply rawU) gu).2
#guard genFailed (Cli.genericMessage hookAll Cli.FUEL (withReply (with65 rawU)) gu).2
#guard genFailed (Cli.genericMessage hookAll Cli.FUEL (withReply (rawU.take 42)) gu).2
#guard genFailed (Cli.genericMessage hookAll Cli.FUEL (withReply garbage) gu).2
-- a typed generic message: valid status words but a payload that does not decode → falsy with an error
#guard genFailed (Cli.genericMessage hookAll Cli.FUEL (withReply rawU) { gu with dataType := some (.int .dint) }).2

/-! the hypotheses, discharged for EVERY `raw` -/

private theorem hconn (raw : Bytes) : (withReply raw).drv.targetIsConnected = true := Ex.healthy2.connected

/-- `read_single_any_reply` applies to `read("abc")` over ANY reply -/
example (raw : Bytes) (w' : Cli.World Ext) (r : Except Exn (List LTag))
    (h : read hookAll cfg (withReply raw) [abc] = (w', r)) :
    (∃ t, r = .ok [t] ∧
      (t.truthy = true → StatusWordsOk .connected raw) ∧
      (¬ StatusWordsOk .connected raw → t.value = .none ∧ ∃ e, t.error = some e ∧ lda_ErrText e) ∧
      (t.truthy = false → ∃ e, t.error = some e ∧ lda_ErrText e)) ∨
    (∃ e, r = .error e ∧ lda_ReplyExn e ∧ e.isLibrary = true) := by
  obtain ⟨d1, req, hb⟩ := lda_of_isSingleRead
    (readBuildRequests cfg w0.drv (parseRequestedTags cfg.tags false [abc])) (by decide +kernel)
  exact read_single_any_reply hookAll cfg (withReply raw) w' raw [] abc d1 req r (hconn raw) rfl hb h

/-- `read_single_any_reply_exact` applies as well: socket, no faults, the frame builds -/
example (raw : Bytes) : ∃ req, (read hookAll cfg (withReply raw) [abc]).2 =
    (lda_readOutcome req (some raw)).map fun t =>
      [readResult (parseTagRequest cfg.tags false 0 abc) (Results.set [] req.rid t)] := by
  obtain ⟨d1, req, frm, hb, hsock, hfrm⟩ := lda_of_isExactRead
    (readBuildRequests cfg w0.drv (parseRequestedTags cfg.tags false [abc])) (by decide +kernel)
  exact ⟨req, read_single_any_reply_exact hookAll cfg (withReply raw) raw frm [] abc d1 req (hconn raw) rfl hsock
    Ex.healthy2.faults hb hfrm⟩

/-- a reply that is too short is never a success: the concrete consequence for the 47-byte cut -/
example (w' : Cli.World Ext) (r : Except Exn (List LTag))
    (h : read hookAll cfg (withReply (rawGood.take 47)) [abc] = (w', r)) :
    (∃ t, r = .ok [t] ∧ t.value = .none ∧ ∃ e, t.error = some e ∧ lda_ErrText e) ∨
    (∃ e, r = .error e ∧ lda_ReplyExn e ∧ e.isLibrary = true) := by
  obtain ⟨d1, req, hb⟩ := lda_of_isSingleRead
    (readBuildRequests cfg w0.drv (parseRequestedTags cfg.tags false [abc])) (by decide +kernel)
  have hshort : ¬ StatusWordsOk .connected (rawGood.take 47) := by
    intro hok
    have h1 : 49 ≤ (rawGood.take 47).length := hok.1
    rw [List.length_take] at h1
    omega
  rcases read_single_any_reply hookAll cfg (withReply (rawGood.take 47)) w' _ [] abc d1 req r (hconn _) rfl hb h with
    ⟨t, h1, _, h3, _⟩ | h2
  · exact .inl ⟨t, h1, (h3 hshort).1, (h3 hshort).2⟩
  · exact .inr h2

/-- `write_single_any_reply` applies to `write(("abc", 5))` (a Write Tag packet) over ANY reply … -/
example (raw : Bytes) (w' : Cli.World Ext) (r : Except Exn (List LTag))
    (h : write hookAll cfg (withReply raw) [(abc, .int 5)] = (w', r)) :
    (∃ t, r = .ok [t] ∧
      (t.error = none → StatusWordsOk .connected raw) ∧
      (t.truthy = true → StatusWordsOk .connected raw) ∧
      (¬ StatusWordsOk .connected raw → ∃ e, t.error = some e ∧ lda_ErrText e) ∧
      (t.truthy = false → PyVal.int 5 ≠ .none → ∃ e, t.error = some e ∧ lda_ErrText e)) ∨
    (∃ e, r = .error e ∧ lda_ReplyExn e ∧ e.isLibrary = true) := by
  obtain ⟨d1, ps', q, hb, hq⟩ := lda_of_isSingleWrite
    (writeBuildRequests cfg w0.drv [{ parseTagRequest cfg.tags true 0 abc with value := .int 5 }]) (by decide +kernel)
  exact write_single_any_reply hookAll cfg (withReply raw) w' raw [] abc (.int 5) d1 ps' q r (hconn raw) rfl hb hq h

/-- … and to the bit write `write(("abc.3", True))` (a Read-Modify-Write packet) -/
example (raw : Bytes) (w' : Cli.World Ext) (r : Except Exn (List LTag))
    (h : write hookAll cfg (withReply raw) [(Drv.nm "abc.3", .bool true)] = (w', r)) :
    (∃ t, r = .ok [t] ∧
      (t.error = none → StatusWordsOk .connected raw) ∧
      (t.truthy = true → StatusWordsOk .connected raw) ∧
      (¬ StatusWordsOk .connected raw → ∃ e, t.error = some e ∧ lda_ErrText e) ∧
      (t.truthy = false → PyVal.bool true ≠ .none → ∃ e, t.error = some e ∧ lda_ErrText e)) ∨
    (∃ e, r = .error e ∧ lda_ReplyExn e ∧ e.isLibrary = true) := by
  obtain ⟨d1, ps', q, hb, hq⟩ := lda_of_isSingleWrite
    (writeBuildRequests cfg w0.drv [{ parseTagRequest cfg.tags true 0 (Drv.nm "abc.3") with value := .bool true }])
    (by decide +kernel)
  exact write_single_any_reply hookAll cfg (withReply raw) w' raw [] (Drv.nm "abc.3") (.bool true) d1 ps' q r (hconn raw)
    rfl hb hq h

/-- `multi_read_any_reply` applies to `read("abc", "xyz")` over ANY reply -/
example (raw : Bytes) (w' : Cli.World Ext) (r : Except Exn (List LTag))
    (h : read hookAll cfg (withReply raw) [abc, xyz] = (w', r)) :
    ∃ reqs : List ReadReq,
    (∃ ts, r = .ok ts ∧ ts.length = 2 ∧ ∀ (i : Nat) (hi : i < ts.length),
      (ts[i].truthy = true → lda_PairOk (fun q : ReadReq => q.rid) raw reqs i) ∧
      (¬ lda_PairOk (fun q : ReadReq => q.rid) raw reqs i →
        ts[i].value = .none ∧ ∃ e, ts[i].error = some e ∧ lda_ErrText e) ∧
      (ts[i].truthy = false → ∃ e, ts[i].error = some e ∧ lda_ErrText e)) ∨
    (∃ e, r = .error e ∧ lda_ReplyExn e ∧ e.isLibrary = true) := by
  obtain ⟨d1, seq, reqs, hb⟩ := lda_of_isMultiRead
    (readBuildRequests cfg w0.drv (parseRequestedTags cfg.tags false [abc, xyz])) (by decide +kernel)
  exact ⟨reqs, multi_read_any_reply hookAll cfg (withReply raw) w' raw [] [abc, xyz] d1 seq reqs r (hconn raw) rfl
    (by simp) hb h⟩

/-- `multi_write_any_reply` applies to `write(("abc", 1), ("xyz", 2))` over ANY reply -/
example (raw : Bytes) (w' : Cli.World Ext) (r : Except Exn (List LTag))
    (h : write hookAll cfg (withReply raw) [(abc, .int 1), (xyz, .int 2)] = (w', r)) :
    ∃ reqs : List WriteReq,
    (∃ ts, r = .ok ts ∧ ts.length = 2 ∧ ∀ (i : Nat) (hi : i < ts.length) (hv : i < 2),
      (ts[i].error = none → lda_PairOk (fun q : WriteReq => q.rid) raw reqs i) ∧
      (ts[i].truthy = true → lda_PairOk (fun q : WriteReq => q.rid) raw reqs i) ∧
      (¬ lda_PairOk (fun q : WriteReq => q.rid) raw reqs i → ∃ e, ts[i].error = some e ∧ lda_ErrText e) ∧
      (ts[i].truthy = false → [(abc, PyVal.int 1), (xyz, PyVal.int 2)][i].2 ≠ .none →
        ∃ e, ts[i].error = some e ∧ lda_ErrText e)) ∨
    (∃ e, r = .error e ∧ lda_ReplyExn e ∧ e.isLibrary = true) := by
  obtain ⟨d1, ps', seq, reqs, hb⟩ := lda_of_isMultiWrite
    (writeBuildRequests cfg w0.drv (lds_wparse cfg.tags [(abc, .int 1), (xyz, .int 2)])) (by decide +kernel)
  exact ⟨reqs, multi_write_any_reply hookAll cfg (withReply raw) w' raw [] _ d1 ps' seq reqs r (hconn raw) rfl
    (by simp) hb h⟩

/-- `generic_any_reply` applies to a connected and to an unconnected `generic_message` over ANY reply, with the
    model's `FUEL` -/
example (raw : Bytes) (w' : Cli.World Ext) (r : Except Exn Cli.Tag)
    (h : Cli.genericMessage hookAll Cli.FUEL (withReply raw) ga = (w', r)) :
    (∃ t, r = .ok t ∧ t.name = ga.name ∧
      (t.truthy = true → StatusWordsOk .connected raw) ∧
      (¬ StatusWordsOk .connected raw → ∃ e, t.error = some e ∧ lda_ErrNonEmpty e) ∧
      (t.truthy = false → ∃ e, t.error = some e ∧ lda_ErrNonEmpty e)) ∨
    (∃ e, r = .error e ∧ lda_GenExn e ∧ e.isLibrary = true) :=
  generic_any_reply hookAll 6 (withReply raw) w' ga raw [] r rfl (fun _ => hconn raw) h

example (raw : Bytes) (w' : Cli.World Ext) (r : Except Exn Cli.Tag)
    (h : Cli.genericMessage hookAll Cli.FUEL (withReply raw) gu = (w', r)) :
    (∃ t, r = .ok t ∧ t.name = gu.name ∧
      (t.truthy = true → StatusWordsOk .unconnected raw) ∧
      (¬ StatusWordsOk .unconnected raw → ∃ e, t.error = some e ∧ lda_ErrNonEmpty e) ∧
      (t.truthy = false → ∃ e, t.error = some e ∧ lda_ErrNonEmpty e)) ∨
    (∃ e, r = .error e ∧ lda_GenExn e ∧ e.isLibrary = true) :=
  generic_any_reply hookAll 6 (withReply raw) w' gu raw [] r rfl (fun h => by cases h) h

end AnyEx

end Pycomm.Lgx.Drv
