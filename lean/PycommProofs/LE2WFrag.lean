/-
  The fragmented write loop against the reference controller (helpers for LogixE2EWrite.write_frag_e2e).
-/
import PycommProofs.LE2WTag
namespace Pycomm.Lgx.E2E
open Pycomm Pycomm.Tgt Pycomm.Path Pycomm.Lgx Pycomm.Lgx.Cl

theorem take_length_take {α} (X : List α) (k : Nat) : X.take (X.take k).length = X.take k := by
  rw [List.length_take, ← List.take_eq_take_min]

theorem splice_prefix (m value : Bytes) (o off k : Nat) (hoff : off ≤ value.length)
    (hm : o + value.length ≤ m.length) (hpre : (m.drop o).take off = value.take off) :
    ((splice m (o + off) ((value.drop off).take k)).drop o).take (off + ((value.drop off).take k).length) =
      value.take (off + ((value.drop off).take k).length) := by
  have hA : (m.take (o + off)).length = o + off := by rw [List.length_take]; omega
  have hB : (m.take (o + off)).drop o = value.take off := by
    rw [List.drop_take, ← hpre]; congr 1; omega
  have hV : (value.take off).length = off := by rw [List.length_take]; omega
  unfold splice
  rw [List.append_assoc, List.drop_append_of_le_length (by omega), hB, List.take_append, hV,
    List.take_of_length_le (by omega), Nat.add_sub_cancel_left, List.take_left', List.take_add, take_length_take]
  rfl

theorem writeLog_written (p : Project) (loc : Loc) (off : Nat) (d : Bytes) :
    (written p loc off d).writeLog = p.writeLog ++ [(loc.symInst, off, d.length)] := by
  unfold written logWrite Project.updateSymbol
  cases loc.scope <;> rfl

theorem frag_loop (st0 : LState) (cap : Nat) (path : Bytes) (segs : List PSeg) (loc : Loc) (n sz : Nat)
    (value : Bytes) (s : Symbol)
    (hp : Denotes path segs)
    (hty : ∀ b, loc.ty ≠ .boolBit b)
    (hn : 1 ≤ n ∧ n ≤ loc.avail ∧ n < 65536)
    (hsz : st0.proj.elSize loc.ty = some sz)
    (hlen : value.length = n * sz) (hl32 : value.length < 2 ^ 32)
    (hmem : loc.offset + n * sz ≤ s.mem.length) (sg : Nat) (hsg : 1 ≤ sg) :
    ∀ fuel off (st' : LState), off ≤ value.length → value.length - off < fuel →
      resolve st'.proj segs = .ok loc → st'.proj.templates = st0.proj.templates →
      (∃ s', st'.proj.symbolOf loc = some s' ∧ s'.mem.length = s.mem.length ∧
          (s'.mem.drop loc.offset).take off = value.take off) →
      (∀ x ∈ (writeFragSend path (typeBytes st0.proj loc.ty) n cap st' (K.writeSegments sg value fuel off)).2, x = 0) ∧
      (writeFragSend path (typeBytes st0.proj loc.ty) n cap st' (K.writeSegments sg value fuel off)).2.length =
        (K.writeSegments sg value fuel off).length ∧
      (∃ s'', (writeFragSend path (typeBytes st0.proj loc.ty) n cap st' (K.writeSegments sg value fuel off)).1.proj.symbolOf loc = some s'' ∧
          s''.mem.length = s.mem.length ∧ (s''.mem.drop loc.offset).take value.length = value) ∧
      (writeFragSend path (typeBytes st0.proj loc.ty) n cap st' (K.writeSegments sg value fuel off)).1.proj.templates = st0.proj.templates ∧
      (writeFragSend path (typeBytes st0.proj loc.ty) n cap st' (K.writeSegments sg value fuel off)).1.proj.writeLog =
        st'.proj.writeLog ++ (K.writeSegments sg value fuel off).map (fun f => (loc.symInst, loc.offset + f.1, f.2.length)) := by
  intro fuel
  induction fuel with
  | zero => intro off st' _ h; omega
  | succ fuel ih =>
    intro off st' hle hf hr ht hsym
    obtain ⟨s', hs', hl', hpre⟩ := hsym
    unfold K.writeSegments
    by_cases hge : off ≥ value.length
    · have : off = value.length := by omega
      subst this
      simp only [hge, if_true, writeFragSend, List.not_mem_nil, false_imp_iff, implies_true, List.length_nil,
        List.map_nil, List.append_nil, true_and]
      exact ⟨⟨s', hs', hl', by rw [hpre, List.take_length]⟩, ht, trivial⟩
    · simp only [hge, if_false]
      have hsl : ((value.drop off).take sg).length = min sg (value.length - off) := by
        simp [List.length_take, List.length_drop]
      generalize hseg : (value.drop off).take sg = seg at hsl
      have hne : seg ≠ [] := by intro h; rw [h] at hsl; simp at hsl; omega
      have hT : typeBytes st0.proj loc.ty = typeBytes st'.proj loc.ty := (typeBytes_congr _ _ ht _).symm
      have hsz' : st'.proj.elSize loc.ty = some sz := by rw [elSize_congr _ _ ht]; exact hsz
      have hex := exchange_writeFrag st' cap path segs loc n sz off seg s' hp hr hty hn hs' hsz' (by omega) hne
        (by omega) (by omega)
      rw [← hT] at hex
      simp only [writeFragSend, hex]
      have hfr : (splice s'.mem (loc.offset + off) seg).length = s'.mem.length := by
        rw [splice_length]; omega
      obtain ⟨i1, i2, i3, i4, i5⟩ := ih (off + seg.length) { st' with proj := written st'.proj loc (loc.offset + off) seg }
        (by omega) (by omega) (resolve_written _ _ _ _ _ _ hr) (by rw [← ht]; exact templates_written _ _ _ _)
        ⟨_, symbolOf_written _ _ _ _ _ hs', by show (splice _ _ _).length = _; rw [hfr, hl'],
          by
            show ((splice s'.mem (loc.offset + off) seg).drop loc.offset).take (off + seg.length) = _
            have := splice_prefix s'.mem value loc.offset off sg hle (by omega) hpre
            rw [hseg] at this; exact this⟩
      refine ⟨?_, ?_, i3, i4, ?_⟩
      · intro x hx
        rcases List.mem_cons.1 hx with rfl | hx
        · rfl
        · exact i1 x hx
      · simp only [List.length_cons, i2]
      · rw [i5]
        simp only [List.map_cons, writeLog_written, List.append_assoc, List.cons_append, List.nil_append]

end Pycomm.Lgx.E2E
