/-
  Refinement of whole histories of `LogixDriver.read` / `LogixDriver.write` calls by the controller's memory
  (C01 / C02): definitions.
    `lgrf_memAt`, `lgrf_symAt`      the bytes the project holds NOW for the symbol an item addresses
    `lgrf_atR`, `lgrf_atW`          an item of a mixed read / write call, re-based on a project: the symbol's memory and
                                    the values decoded from it are those of the project; names, indexes, types, the
                                    caller's values stay
    `lgrf_Op`, `lgrf_specRead`, `lgrf_specWrite`, `lgrf_specStep`, `lgrf_specRun`    the specification: pure functions
                                    of the project
    `lgrf_call`, `lgrf_driverRun`   the driver model run over a history, keeping the results
    `lgrf_OpOk`, `lgrf_OpsOk`       the domain: the per-item hypotheses against the CURRENT specification state
    `lgrf_Inv`                      the invariant of one step
-/
import PycommProofs.LogixDriverReadMix
import PycommProofs.LogixDriverWriteMix
namespace Pycomm.Lgx.Drv
open Pycomm Pycomm.Tgt Pycomm.Path Pycomm.Reply Pycomm.Encap Pycomm.Lgx Pycomm.Lgx.E2E

/-! ### the current memory of an addressed symbol -/

/-- the bytes the project holds for the controller-scope symbol with the instance id of `s` (those of `s` itself when
    the project has no such symbol) -/
def lgrf_memAt (p : Project) (s : Symbol) : Bytes :=
  match p.controller.find? (fun y => y.inst == s.inst) with
  | some y => y.mem
  | none => s.mem

/-- `s` with the memory the project holds for it: name, instance id, type word, dimensions, attributes are kept -/
def lgrf_symAt (p : Project) (s : Symbol) : Symbol := { s with mem := lgrf_memAt p s }

/-- the codec's reading of bytes, `None` when it fails -/
def lgrf_decAt (t : Ty) (bs : Bytes) : PyVal × Bytes :=
  match decode t bs with
  | .ok r => r
  | .error _ => (.none, [])

theorem lgrf_decAt_ok (t : Ty) (bs : Bytes) (v : PyVal) (r : Bytes) (h : decode t bs = .ok (v, r)) :
    lgrf_decAt t bs = (v, r) := by
  unfold lgrf_decAt; rw [h]

theorem lgrf_decAt_spec (t : Ty) (bs : Bytes) (h : ∃ v r, decode t bs = .ok (v, r)) :
    decode t bs = .ok ((lgrf_decAt t bs).1, (lgrf_decAt t bs).2) := by
  obtain ⟨v, r, e⟩ := h
  rw [lgrf_decAt_ok t bs v r e]; exact e

/-- the dict the codec reads from bytes, empty when it fails or yields something else -/
def lgrf_dictAt (t : Ty) (bs : Bytes) : List (Name × PyVal) × Bytes :=
  match decode t bs with
  | .ok (.dict kvs, r) => (kvs, r)
  | _ => ([], [])

/-! ### items re-based on a project -/

def lgrf_scalarAt (p : Project) (x : ldrn_Scalar) : ldrn_Scalar :=
  { x with s := lgrf_symAt p x.s, v := (lgrf_decAt x.t (lgrf_memAt p x.s)).1, rest := (lgrf_decAt x.t (lgrf_memAt p x.s)).2 }

def lgrf_elAt (p : Project) (x : ldmx_El) : ldmx_El :=
  { x with s := lgrf_symAt p x.s, v := (lgrf_decAt x.t ((lgrf_memAt p x.s).drop (x.i * x.sz))).1,
           rest := (lgrf_decAt x.t ((lgrf_memAt p x.s).drop (x.i * x.sz))).2 }

def lgrf_sliceAt (p : Project) (x : ldmx_Slice) : ldmx_Slice :=
  { x with s := lgrf_symAt p x.s,
           vs := (List.range x.n).map fun k => (lgrf_decAt x.t ((lgrf_memAt p x.s).drop ((x.i + k) * x.sz))).1 }

def lgrf_memberAt (p : Project) (x : ldmx_Member) : ldmx_Member :=
  { x with s := lgrf_symAt p x.s, v := (lgrf_decAt x.t ((lgrf_memAt p x.s).drop x.off)).1,
           rest := (lgrf_decAt x.t ((lgrf_memAt p x.s).drop x.off)).2 }

def lgrf_structAt (p : Project) (x : ldmx_Struct) : ldmx_Struct :=
  { x with s := lgrf_symAt p x.s, kvs := (lgrf_dictAt (.structTag x.ms x.bits x.priv x.size) (lgrf_memAt p x.s)).1,
           rest := (lgrf_dictAt (.structTag x.ms x.bits x.priv x.size) (lgrf_memAt p x.s)).2 }

/-- a request of a read call re-based on the project `p`: it addresses what it addressed, the memory of the symbol is
    the one `p` holds and the value(s) are what the codec decodes from it (the reference interpretation of the
    single-request theorems). A program-scoped request is left as it is (no request of `ldwx_Item` writes into a
    program scope). -/
def lgrf_atR (p : Project) : ldmx_Item → ldmx_Item
  | .scalar x => .scalar (lgrf_scalarAt p x)
  | .elem x => .elem (lgrf_elAt p x)
  | .slice x => .slice (lgrf_sliceAt p x)
  | .bit x => .bit { x with s := lgrf_symAt p x.s }
  | .boolElem x => .boolElem { x with s := lgrf_symAt p x.s }
  | .member x => .member (lgrf_memberAt p x)
  | .boolMember x => .boolMember { x with s := lgrf_symAt p x.s }
  | .string x => .string { x with s := lgrf_symAt p x.s }
  | .struct x => .struct (lgrf_structAt p x)
  | .prog x => .prog x
  | .oob y => .oob { y with s := lgrf_symAt p y.s }

/-- a request of a write call re-based on the project `p`: only the memory of the addressed symbol is replaced -/
def lgrf_atW (p : Project) : ldwx_Item → ldwx_Item
  | .scalar x => .scalar { x with s := lgrf_symAt p x.s }
  | .elem x => .elem { x with s := lgrf_symAt p x.s }
  | .slice x => .slice { x with s := lgrf_symAt p x.s }
  | .member x => .member { x with s := lgrf_symAt p x.s }
  | .str x => .str { x with s := lgrf_symAt p x.s }
  | .struct x => .struct { x with s := lgrf_symAt p x.s }
  | .oob x => .oob { x with s := lgrf_symAt p x.s }

/-! what does not depend on the project -/

theorem lgrf_atR_request (p : Project) (it : ldmx_Item) : (lgrf_atR p it).request = it.request := by cases it <;> rfl
theorem lgrf_atR_plcTag (p : Project) (it : ldmx_Item) : (lgrf_atR p it).plcTag = it.plcTag := by cases it <;> rfl
theorem lgrf_atR_elements (p : Project) (it : ldmx_Item) : (lgrf_atR p it).elements = it.elements := by cases it <;> rfl
theorem lgrf_atR_info (p : Project) (it : ldmx_Item) : (lgrf_atR p it).info = it.info := by cases it <;> rfl
theorem lgrf_atR_served (p : Project) (it : ldmx_Item) : (lgrf_atR p it).served = it.served := by cases it <;> rfl
theorem lgrf_atR_estimate (cfg : Cfg) (p : Project) (it : ldmx_Item) : (lgrf_atR p it).estimate cfg = it.estimate cfg := by
  unfold ldmx_Item.estimate
  rw [lgrf_atR_plcTag, lgrf_atR_info, lgrf_atR_elements]
theorem lgrf_atR_tag (p : Project) (it : ldmx_Item) : (lgrf_atR p it).out.tag = it.out.tag := by cases it <;> rfl
theorem lgrf_atR_error (p : Project) (it : ldmx_Item) : (lgrf_atR p it).out.error = it.out.error := by cases it <;> rfl

theorem lgrf_atW_request (cfg : Cfg) (p : Project) (x : ldwx_Item) : (lgrf_atW p x).request cfg = x.request cfg := by
  cases x <;> rfl
theorem lgrf_atW_out (p : Project) (x : ldwx_Item) : (lgrf_atW p x).out = x.out := by cases x <;> rfl
theorem lgrf_atW_target (p : Project) (x : ldwx_Item) : (lgrf_atW p x).target = x.target := by cases x <;> rfl
theorem lgrf_atW_acct (cfg : Cfg) (p : Project) (x : ldwx_Item) : (lgrf_atW p x).acct cfg = x.acct cfg := by cases x <;> rfl

theorem lgrf_atW_targets (p : Project) (its : List ldwx_Item) : ldwx_targets (its.map (lgrf_atW p)) = ldwx_targets its := by
  unfold ldwx_targets
  rw [List.filterMap_map]
  exact ldrn_filterMap_congr _ _ its (fun x _ => lgrf_atW_target p x)

/-! ### the specification -/

/-- one call of the history -/
inductive lgrf_Op where
  /-- `read(t1, …, tn)` -/
  | read (its : List ldmx_Item)
  /-- `write((t1, v1), …, (tn, vn))` -/
  | write (its : List ldwx_Item)

/-- the Tags a read returns on the memory `p`: for every request the Tag of the request re-based on `p` — the name as
    requested, the value the codec decodes from the bytes `p` holds at the addressed location -/
def lgrf_specRead (p : Project) (its : List ldmx_Item) : List LTag := its.map fun it => (lgrf_atR p it).out

/-- the memory after a write and the Tags it returns: the writes `(instance, offset, bytes)` of the accepted requests
    applied in request order; the caller's values echoed -/
def lgrf_specWrite (p : Project) (its : List ldwx_Item) : Project × List LTag :=
  (ldwx_applyAll p (ldwx_targets its), its.map (·.out))

def lgrf_specStep (p : Project) : lgrf_Op → Project × List LTag
  | .read its => (p, lgrf_specRead p its)
  | .write its => lgrf_specWrite p its

/-- the specification run over a history: the final memory and the Tags of every call -/
def lgrf_specRun (p : Project) : List lgrf_Op → Project × List (List LTag)
  | [] => (p, [])
  | op :: ops => ((lgrf_specRun (lgrf_specStep p op).1 ops).1, (lgrf_specStep p op).2 :: (lgrf_specRun (lgrf_specStep p op).1 ops).2)

/-! ### the driver model over a history -/

/-- one call of the driver model -/
def lgrf_call (cfg : Cfg) (w : Cli.World Ext) : lgrf_Op → Cli.World Ext × Except Exn (List LTag)
  | .read its => read hookAll cfg w (its.map (·.request))
  | .write its => write hookAll cfg w (its.map (·.request cfg))

/-- the driver model run over a history: the final world and the outcome of every call -/
def lgrf_driverRun (cfg : Cfg) (w : Cli.World Ext) : List lgrf_Op → Cli.World Ext × List (Except Exn (List LTag))
  | [] => (w, [])
  | op :: ops => ((lgrf_driverRun cfg (lgrf_call cfg w op).1 ops).1,
                  (lgrf_call cfg w op).2 :: (lgrf_driverRun cfg (lgrf_call cfg w op).1 ops).2)

/-! ### the domain -/

/-- the size hypothesis of the single-request path of `read` for one request on a connection of size `C` (the
    hypotheses `hC` / `hT` of `read_atomic_scalar_e2e`, `read_atomic_element_e2e`, `read_atomic_slice_e2e`,
    `read_member_path_e2e`); a call with one request of another kind is not covered -/
def lgrf_single1R (C : Nat) : ldmx_Item → Prop
  | .scalar x => x.s.name.length + 28 ≤ C
  | .elem x => 1 * x.sz + x.s.name.length + 26 ≤ C
  | .slice x => x.n * x.sz + x.s.name.length + 26 ≤ C
  | .member x => ldr4_pathSize (ldr4_levels x.s.name x.idx0 x.hops) + 18 ≤ C
  | _ => False

/-- … of `write`: the single-request path counts the value twice (`write_atomic_scalar_e2e`, `write_atomic_element_e2e`,
    `write_atomic_slice_e2e` with its 64000-byte bound, `write_member_path_e2e`) -/
def lgrf_single1W (C : Nat) : ldwx_Item → Prop
  | .scalar x => x.s.name.length + 2 * x.sz + 20 ≤ C
  | .elem x => x.s.name.length + 2 * x.sz + 26 ≤ C
  | .slice x => 2 * (x.n * x.sz) + x.s.name.length + 26 ≤ C ∧ x.n * x.sz ≤ 64000
  | .member x => ldr4_pathSize (ldr4_levels x.s.name x.idx0 x.hops) + 2 * x.sz + 8 ≤ C
  | _ => False

theorem lgrf_atR_single1R (C : Nat) (p : Project) (it : ldmx_Item) : lgrf_single1R C (lgrf_atR p it) = lgrf_single1R C it := by
  cases it <;> rfl

theorem lgrf_atW_single1W (C : Nat) (p : Project) (x : ldwx_Item) : lgrf_single1W C (lgrf_atW p x) = lgrf_single1W C x := by
  cases x <;> rfl

/-- the hypotheses on one call against the memory `p` and the driver's connection size `C`: per request the hypotheses
    of the single-request theorem of its kind for the request re-based on `p`; and EITHER at least two requests, every
    request alone fitting a multi-service packet (the multi-request path of the driver), OR exactly one request of the
    kinds scalar / element / slice / member path within the size bound of the single-request path -/
def lgrf_OpOk (cfg : Cfg) (C : Nat) (p : Project) : lgrf_Op → Prop
  | .read its => (∀ it ∈ its, (lgrf_atR p it).Ok cfg { proj := p }) ∧
      ((2 ≤ its.length ∧ ∀ it ∈ its, it.estimate cfg + K.OVERHEAD ≤ C) ∨ ∃ it, its = [it] ∧ lgrf_single1R C it)
  | .write its => (∀ x ∈ its, ldwx_ItemOk cfg p (lgrf_atW p x)) ∧
      ((2 ≤ its.length ∧ ∀ x ∈ its, x.acct cfg + K.OVERHEAD ≤ C) ∨ ∃ x, its = [x] ∧ lgrf_single1W C x)

/-- … on a history: every call against the memory the specification has reached before it -/
def lgrf_OpsOk (cfg : Cfg) (C : Nat) (p : Project) : List lgrf_Op → Prop
  | [] => True
  | op :: ops => lgrf_OpOk cfg C p op ∧ lgrf_OpsOk cfg C (lgrf_specStep p op).1 ops

/-! ### the invariant -/

/-- driver and controller between two calls: a healthy connected world (`ldr_Healthy` for SOME connection record whose
    registered size covers the driver's connection size `C ≤ 65400`) whose controller holds the project `p`, with
    byte-string symbol names -/
structure lgrf_Inv (sess : Nat) (cidb : Bytes) (C : Nat) (w : Cli.World Ext) (p : Project) : Prop where
  healthy : ∃ conn, ldr_Healthy w sess cidb conn ∧ C ≤ conn.size
  logix : ∃ st, w.net.target.ext.logix = some st ∧ st.proj = p
  size : w.drv.connectionSize = C
  max : C ≤ 65400
  names : ∀ s' ∈ p.controller, ∀ ch ∈ s'.name, ch < 256

/-- the per-request hypotheses of a read look at the Logix state only through its project -/
theorem lgrf_ok_congr (cfg : Cfg) (st st' : LState) (h : st.proj = st'.proj) (it : ldmx_Item) (hok : it.Ok cfg st) :
    it.Ok cfg st' := by
  cases st with
  | mk p r c =>
    cases st' with
    | mk p' r' c' =>
      have h' : p = p' := h
      subst h'
      cases it <;> exact (by cases hok; constructor <;> assumption)

end Pycomm.Lgx.Drv
