/-
  Proofs for C18 (SLC addresses select the right file, element and bit; data round-trips).
-/
import PycommModel.Slc
namespace Pycomm.Slc

/-- spec-side decimal rendering -/
def decRevS (n : Nat) : List Nat :=
  if h : n < 10 then [48 + n] else (48 + n % 10) :: decRevS (n / 10)
termination_by n
decreasing_by omega
def dec (n : Nat) : Name := (decRevS n).reverse

/-- the file-type letters with word/bit forms `Xf:e`, in either case -/
def IsLFBN (c : Nat) : Prop := upperC c = 76 ∨ upperC c = 70 ∨ upperC c = 66 ∨ upperC c = 78

/-- bit i of a 16-bit word -/
def wordBit (w : Nat) (i : Nat) : Bool := w.testBit i

def wordAt (d : Bytes) (off : Nat) : Nat := (d.getD off 0).toNat + 256 * (d.getD (off + 1) 0).toNat

open Pycomm.PyStr

/-! ### helper lemmas -/

theorem sub_pow_eq_xor : ∀ b < 16, 65535 - 2 ^ b = 65535 ^^^ 2 ^ b := by decide

theorem decRevS_digit (n : Nat) : ∀ c ∈ decRevS n, isDigitC c = true := by
  induction n using Nat.strongRecOn with
  | _ n ih =>
    intro c hc
    rw [decRevS] at hc
    split at hc
    · simp at hc; subst hc; simp [isDigitC]; omega
    · simp at hc
      rcases hc with hc | hc
      · subst hc; simp [isDigitC]; omega
      · exact ih (n / 10) (by omega) c hc

theorem decRevS_ne (n : Nat) : decRevS n ≠ [] := by
  rw [decRevS]; split <;> simp

theorem decRevS_val (n : Nat) : (decRevS n).foldr (fun c a => a * 10 + (c - 48)) 0 = n := by
  induction n using Nat.strongRecOn with
  | _ n ih =>
    rw [decRevS]
    split
    · simp
    · simp [ih (n / 10) (by omega)]; omega

theorem decRevS_len (k : Nat) : ∀ n, n < 10 ^ (k + 1) → (decRevS n).length ≤ k + 1 := by
  induction k with
  | zero => intro n h; rw [decRevS]; simp at h; simp [h]
  | succ k ih =>
    intro n h
    rw [decRevS]
    split
    · simp
    · have : n / 10 < 10 ^ (k + 1) := by
        rw [Nat.pow_succ] at h; omega
      simp [ih _ this]

theorem dec_digit (n : Nat) : ∀ c ∈ dec n, isDigitC c = true := by
  intro c hc
  exact decRevS_digit n c (by simpa [dec] using hc)

theorem dec_ne (n : Nat) : dec n ≠ [] := by
  simp [dec, decRevS_ne]

theorem dec_val (n : Nat) : decVal (dec n) = n := by
  rw [dec]
  simp only [decVal, List.foldl_reverse]
  exact decRevS_val n

theorem dec_len (k n : Nat) (h : n < 10 ^ (k + 1)) : (dec n).length ≤ k + 1 := by
  simpa [dec] using decRevS_len k n h

/-- a non-empty string of at most `k` decimal digits -/
structure Dig (k : Nat) (d : Name) : Prop where
  dig : ∀ c ∈ d, isDigitC c = true
  ne : d ≠ []
  len : d.length ≤ k

theorem dig_dec (k n : Nat) (h : n < 10 ^ (k + 1)) : Dig (k + 1) (dec n) :=
  ⟨dec_digit n, dec_ne n, dec_len k n h⟩

theorem takeWhile_dig {d rest : Name} (hd : ∀ c ∈ d, isDigitC c = true) (hr : rest.takeWhile isDigitC = []) :
    (d ++ rest).takeWhile isDigitC = d := by
  rw [List.takeWhile_append_of_pos hd, hr, List.append_nil]

theorem digits_dig {k : Nat} {d rest : Name} (hd : Dig k d) (hr : rest.takeWhile isDigitC = []) :
    digits k (d ++ rest) = some (d, rest) := by
  unfold digits
  simp only [takeWhile_dig hd.dig hr, List.take_of_length_le hd.len]
  simp [hd.ne]

theorem parseCT_none (c : Nat) (r : Name) (h1 : upperC c ≠ 67) (h2 : upperC c ≠ 84) : parseCT (c :: r) = none := by
  simp [parseCT, h1, h2]

theorem isLFBN_notCT {c : Nat} (hc : IsLFBN c) : upperC c ≠ 67 ∧ upperC c ≠ 84 := by
  unfold IsLFBN at hc; omega

theorem upperC_ne123 {c : Nat} (h : upperC c < 97) : c ≠ 123 := by
  intro e; subst e; simp [upperC] at h

theorem dig_ne123 {d : Name} (hd : ∀ c ∈ d, isDigitC c = true) : ∀ x ∈ d, x ≠ 123 := by
  intro x hx e
  have := hd x hx
  subst e
  simp [isDigitC] at this

theorem find_none {t : Name} (h : ∀ x ∈ t, x ≠ 123) : find 123 t = none := by
  have : t.takeWhile (· != 123) = t := by
    have := List.takeWhile_append_of_pos (p := (· != 123)) (l₁ := t) (l₂ := [])
      (by intro x hx; simpa using h x hx)
    simpa using this
  simp [find, this]

theorem stripCount_no {t : Name} (h : ∀ x ∈ t, x ≠ 123) : stripCount t = t := by
  simp [stripCount, find_none h]

theorem stripCount_brace {t r : Name} (h : ∀ x ∈ t, x ≠ 123) : stripCount (t ++ 123 :: r) = t := by
  have h1 : (t ++ 123 :: r).takeWhile (· != 123) = t := by
    rw [List.takeWhile_append_of_pos (by intro x hx; simpa using h x hx)]
    simp
  simp [stripCount, find, h1]

/-- general shape of an `Xf:e…` address -/
theorem parseLFBN_shape (c : Nat) (hc : IsLFBN c) (df de r2 r3 : Name) (bit cnt : Option Nat)
    (hdf : Dig 3 df) (hde : Dig 3 de)
    (hr2 : r2.takeWhile isDigitC = []) (hbit : optBit r2 = some (bit, r3)) (hcnt : countToken r3 = some cnt) :
    parseLFBN (c :: (df ++ 58 :: (de ++ r2))) =
      some (if 1 ≤ decVal df ∧ decVal df ≤ 255 ∧ decVal de ≤ 255 ∧ (bit.getD 0) ≤ 15 then
        some { fileType := [upperC c], fileNumber := decVal df, element := decVal de,
               subElement := bit.getD 0, addressField := if bit.isSome then 3 else 2,
               count := cnt.getD 1, tag := stripCount (c :: (df ++ 58 :: (de ++ r2))) }
      else none) := by
  have h1 : digits 3 (df ++ 58 :: (de ++ r2)) = some (df, 58 :: (de ++ r2)) :=
    digits_dig hdf (by simp [isDigitC])
  have h2 : digits 3 (de ++ r2) = some (de, r2) := digits_dig hde hr2
  unfold IsLFBN at hc
  simp only [parseLFBN, hc, h1, h2, hbit, hcnt, if_true]

theorem parseTag_LFBN (c : Nat) (hc : IsLFBN c) (r : Name) (res : Option Addr)
    (h : parseLFBN (c :: r) = some res) : parseTag (c :: r) = res := by
  have := isLFBN_notCT hc
  simp [parseTag, parseCT_none c r this.1 this.2, h]

theorem isLFBN_ne123 {c : Nat} (hc : IsLFBN c) : c ≠ 123 :=
  upperC_ne123 (by unfold IsLFBN at hc; omega)

theorem ne123_word {c f e : Nat} (hc : c ≠ 123) : ∀ x ∈ c :: (dec f ++ 58 :: dec e), x ≠ 123 := by
  intro x hx
  simp only [List.mem_cons, List.mem_append] at hx
  rcases hx with rfl | hx | rfl | hx
  · exact hc
  · exact dig_ne123 (dec_digit f) x hx
  · decide
  · exact dig_ne123 (dec_digit e) x hx

theorem optBit_dig {d rest : Name} (hd : Dig 2 d) (hr : rest.takeWhile isDigitC = []) :
    optBit (47 :: (d ++ rest)) = some (some (decVal d), rest) := by
  simp [optBit, digits_dig hd hr]

theorem countToken_dig {d : Name} (hd : ∀ c ∈ d, isDigitC c = true) (hne : d ≠ []) :
    countToken (123 :: (d ++ [125])) = some (some (decVal d)) := by
  have : List.takeWhile isDigitC (d ++ [125]) = d := takeWhile_dig hd (by simp [isDigitC])
  simp [countToken, this, hne]

theorem parseLFBN_slash (c : Nat) (df r : Name) (hdf : Dig 3 df) : parseLFBN (c :: (df ++ 47 :: r)) = none := by
  have h1 : digits 3 (df ++ 47 :: r) = some (df, 47 :: r) := digits_dig hdf (by simp [isDigitC])
  simp only [parseLFBN, h1]
  split <;> rfl

theorem parseIO_none (c : Nat) (r : Name) (h1 : upperC c ≠ 73) (h2 : upperC c ≠ 79) : parseIO (c :: r) = none := by
  simp [parseIO, h1, h2]

theorem parseS_none (c : Nat) (r : Name) (h1 : upperC c ≠ 83) : parseS (c :: r) = none := by
  unfold parseS
  split
  · rename_i t r1 heq
    injection heq with h _
    subst h
    simp [h1]
  · rfl

theorem parseB_shape (c : Nat) (hc : upperC c = 66) (df dn : Name) (hdf : Dig 3 df) (hdn : Dig 4 dn) :
    parseB (c :: (df ++ 47 :: (dn ++ []))) =
      if 1 ≤ decVal df ∧ decVal df ≤ 255 ∧ decVal dn ≤ 4095 then
        some { fileType := [66], fileNumber := decVal df, element := decVal dn / 16, subElement := decVal dn % 16,
               addressField := 3, count := 1, tag := stripCount (c :: (df ++ 47 :: (dn ++ []))) }
      else none := by
  have h1 : digits 3 (df ++ 47 :: (dn ++ [])) = some (df, 47 :: (dn ++ [])) := digits_dig hdf (by simp [isDigitC])
  have h2 : digits 4 (dn ++ []) = some (dn, []) := digits_dig hdn rfl
  simp only [parseB, hc, h1, h2, countToken, if_true, Option.getD_none]

theorem parseTag_B (c : Nat) (hc : upperC c = 66) (df r : Name) (hdf : Dig 3 df) :
    parseTag (c :: (df ++ 47 :: r)) = parseB (c :: (df ++ 47 :: r)) := by
  simp only [parseTag, parseCT_none c _ (by omega) (by omega), parseLFBN_slash c df r hdf,
    parseIO_none c _ (by omega) (by omega), parseS_none c _ (by omega)]

theorem parseLFBN_none (c : Nat) (r : Name) (h : ¬ IsLFBN c) : parseLFBN (c :: r) = none := by
  unfold IsLFBN at h
  simp only [parseLFBN, h, if_false]

theorem parseB_none (c : Nat) (r : Name) (h : upperC c ≠ 66) : parseB (c :: r) = none := by
  simp only [parseB, h, if_false]

theorem word_full (o : Nat) (d1 d2 : UInt8) :
    let n := (o &&& (65535 - 65535)) ||| ((d1.toNat + 256 * d2.toNat) &&& 65535)
    UInt8.ofNat (n % 256) = d1 ∧ UInt8.ofNat (n / 256) = d2 := by
  have h1 := d1.toNat_lt
  have h2 := d2.toNat_lt
  have e : (65535 : Nat) = 2 ^ 16 - 1 := by decide
  have hn : ((o &&& (65535 - 65535)) ||| ((d1.toNat + 256 * d2.toNat) &&& 65535)) = d1.toNat + 256 * d2.toNat := by
    rw [Nat.sub_self, Nat.and_zero, Nat.zero_or, e, Nat.and_two_pow_sub_one_eq_mod]
    omega
  simp only [hn]
  have a : (d1.toNat + 256 * d2.toNat) % 256 = d1.toNat := by omega
  have b : (d1.toNat + 256 * d2.toNat) / 256 = d2.toNat := by omega
  rw [a, b]
  simp

theorem maskWords_full : ∀ (n : Nat) (old data : Bytes), data.length = 2 * n → old.length = data.length →
    maskWords 65535 old data = data := by
  intro n
  induction n with
  | zero =>
    intro old data h _
    have : data = [] := List.length_eq_zero_iff.mp (by omega)
    subst this
    cases old with
    | nil => simp [maskWords]
    | cons a t => cases t <;> simp [maskWords]
  | succ n ih =>
    intro old data h ho
    match data, old, h, ho with
    | d1 :: d2 :: dat, o1 :: o2 :: old, h, ho =>
      simp only [List.length_cons] at h ho
      have := word_full (o1.toNat + 256 * o2.toNat) d1 d2
      simp only at this
      simp only [maskWords, this.1, this.2, ih old dat (by omega) (by omega)]
    | [], _, h, _ => simp at h
    | [_], _, h, _ => simp at h; omega
    | _ :: _ :: _, [], _, ho => simp at ho
    | _ :: _ :: _, [_], _, ho => simp at ho

theorem find_map_num (tbl : Table) (fnum : Nat) (F : SlcFile → SlcFile) (hF : ∀ g, (F g).num = g.num) :
    (tbl.map F).find? (fun f => f.num == fnum) = (tbl.find? (fun f => f.num == fnum)).map F := by
  rw [List.find?_map]
  have : ((fun f : SlcFile => f.num == fnum) ∘ F) = (fun f => f.num == fnum) := by
    funext g
    simp [hF]
  rw [this]


theorem maskWords_length (mask : Nat) : ∀ (n : Nat) (old data : Bytes), data.length = 2 * n → old.length = data.length →
    (maskWords mask old data).length = data.length := by
  intro n
  induction n with
  | zero => intro old data hd ho; cases data with
            | nil => cases old <;> simp_all [maskWords]
            | cons a t => simp at hd
  | succ n ih =>
    intro old data hd ho
    match old, data, hd, ho with
    | o1 :: o2 :: old, d1 :: d2 :: dat, hd, ho =>
      simp only [List.length_cons] at hd ho
      simp only [maskWords, List.length_cons, ih old dat (by omega) (by omega)]
    | [], _ :: _, _, ho => simp at ho
    | [_], [_], hd, _ => simp at hd; omega
    | [_], _ :: _ :: _, _, ho => simp at ho
    | _ :: _ :: _, [_], hd, _ => simp at hd; omega
    | _ :: _, [], hd, _ => simp at hd
    | [], [], hd, _ => simp at hd

-- PROPERTY THEOREMS

/-- word form `Xf:e` (integer, binary, float, long files; upper or lower case letter): exactly that file
    number and element, whole-word access, one element -/
theorem parse_word (c f e : Nat) (hc : IsLFBN c) (hf : 1 ≤ f ∧ f ≤ 255) (he : e ≤ 255) :
    parseTag ([c] ++ dec f ++ [58] ++ dec e) =
      some { fileType := [upperC c], fileNumber := f, element := e, subElement := 0, addressField := 2, count := 1,
             tag := [c] ++ dec f ++ [58] ++ dec e } := by
  have e1 : [c] ++ dec f ++ [58] ++ dec e = c :: (dec f ++ 58 :: (dec e ++ [])) := by simp
  rw [e1]
  rw [parseTag_LFBN c hc _ _ (parseLFBN_shape c hc (dec f) (dec e) [] [] none none
    (dig_dec 2 f (by omega)) (dig_dec 2 e (by omega)) rfl rfl rfl)]
  simp only [dec_val, List.append_nil, stripCount_no (ne123_word (isLFBN_ne123 hc))]
  simp [hf, he]

/-- bit form `Xf:e/b` -/
theorem parse_bit (c f e b : Nat) (hc : IsLFBN c) (hf : 1 ≤ f ∧ f ≤ 255) (he : e ≤ 255) (hb : b ≤ 15) :
    parseTag ([c] ++ dec f ++ [58] ++ dec e ++ [47] ++ dec b) =
      some { fileType := [upperC c], fileNumber := f, element := e, subElement := b, addressField := 3, count := 1,
             tag := [c] ++ dec f ++ [58] ++ dec e ++ [47] ++ dec b } := by
  have e1 : [c] ++ dec f ++ [58] ++ dec e ++ [47] ++ dec b = c :: (dec f ++ 58 :: (dec e ++ 47 :: (dec b ++ []))) := by simp
  rw [e1]
  rw [parseTag_LFBN c hc _ _ (parseLFBN_shape c hc (dec f) (dec e) _ [] _ none
    (dig_dec 2 f (by omega)) (dig_dec 2 e (by omega)) (by simp [isDigitC])
    (optBit_dig (dig_dec 1 b (by omega)) rfl) rfl)]
  have h123 : ∀ x ∈ c :: (dec f ++ 58 :: (dec e ++ 47 :: (dec b ++ []))), x ≠ 123 := by
    intro x hx
    simp only [List.mem_cons, List.mem_append, List.append_nil] at hx
    rcases hx with rfl | hx | rfl | hx | rfl | hx
    · exact isLFBN_ne123 hc
    · exact dig_ne123 (dec_digit f) x hx
    · decide
    · exact dig_ne123 (dec_digit e) x hx
    · decide
    · exact dig_ne123 (dec_digit b) x hx
  simp only [dec_val, stripCount_no h123]
  simp [hf, he, hb]

/-- `{count}` form covers exactly that many consecutive elements starting at e -/
theorem parse_count (c f e n : Nat) (hc : IsLFBN c) (hf : 1 ≤ f ∧ f ≤ 255) (he : e ≤ 255) :
    parseTag ([c] ++ dec f ++ [58] ++ dec e ++ [123] ++ dec n ++ [125]) =
      some { fileType := [upperC c], fileNumber := f, element := e, subElement := 0, addressField := 2, count := n,
             tag := [c] ++ dec f ++ [58] ++ dec e } := by
  have e1 : [c] ++ dec f ++ [58] ++ dec e ++ [123] ++ dec n ++ [125]
      = c :: (dec f ++ 58 :: (dec e ++ 123 :: (dec n ++ [125]))) := by simp
  rw [e1]
  rw [parseTag_LFBN c hc _ _ (parseLFBN_shape c hc (dec f) (dec e) _ _ none _
    (dig_dec 2 f (by omega)) (dig_dec 2 e (by omega)) (by simp [isDigitC])
    rfl (countToken_dig (dec_digit n) (dec_ne n)))]
  have e2 : c :: (dec f ++ 58 :: (dec e ++ 123 :: (dec n ++ [125])))
      = (c :: (dec f ++ 58 :: dec e)) ++ 123 :: (dec n ++ [125]) := by simp
  rw [e2, stripCount_brace (ne123_word (isLFBN_ne123 hc))]
  simp [dec_val, hf, he]

/-- binary-file bit form `Bf/n`: element n div 16, bit n mod 16 -/
theorem parse_binary_bit (c f n : Nat) (hc : upperC c = 66) (hf : 1 ≤ f ∧ f ≤ 255) (hn : n ≤ 4095) :
    parseTag ([c] ++ dec f ++ [47] ++ dec n) =
      some { fileType := [66], fileNumber := f, element := n / 16, subElement := n % 16, addressField := 3, count := 1,
             tag := [c] ++ dec f ++ [47] ++ dec n } := by
  have e1 : [c] ++ dec f ++ [47] ++ dec n = c :: (dec f ++ 47 :: (dec n ++ [])) := by simp
  rw [e1, parseTag_B c hc _ _ (dig_dec 2 f (by omega)),
    parseB_shape c hc _ _ (dig_dec 2 f (by omega)) (dig_dec 3 n (by omega))]
  have h123 : ∀ x ∈ c :: (dec f ++ 47 :: (dec n ++ [])), x ≠ 123 := by
    intro x hx
    simp only [List.mem_cons, List.mem_append, List.append_nil] at hx
    rcases hx with rfl | hx | rfl | hx
    · exact upperC_ne123 (by omega)
    · exact dig_ne123 (dec_digit f) x hx
    · decide
    · exact dig_ne123 (dec_digit n) x hx
  simp only [dec_val, stripCount_no h123]
  simp [hf, hn]

/-- out-of-range file, element or bit numbers are rejected (parse_tag returns None → RequestError),
    for every number that the pattern's digit count admits -/
theorem reject_out_of_range (c f e : Nat) (hc : IsLFBN c) (hf : f ≤ 999) (he : e ≤ 999)
    (hbad : f = 0 ∨ 256 ≤ f ∨ 256 ≤ e) :
    parseTag ([c] ++ dec f ++ [58] ++ dec e) = none := by
  have e1 : [c] ++ dec f ++ [58] ++ dec e = c :: (dec f ++ 58 :: (dec e ++ [])) := by simp
  rw [e1]
  rw [parseTag_LFBN c hc _ _ (parseLFBN_shape c hc (dec f) (dec e) [] [] none none
    (dig_dec 2 f (by omega)) (dig_dec 2 e (by omega)) rfl rfl rfl)]
  simp only [dec_val]
  rw [if_neg (by omega)]

theorem reject_bit_out_of_range (c f e b : Nat) (hc : IsLFBN c) (hf : 1 ≤ f ∧ f ≤ 255) (he : e ≤ 255) (hb : 16 ≤ b ∧ b ≤ 99) :
    parseTag ([c] ++ dec f ++ [58] ++ dec e ++ [47] ++ dec b) = none := by
  have e1 : [c] ++ dec f ++ [58] ++ dec e ++ [47] ++ dec b = c :: (dec f ++ 58 :: (dec e ++ 47 :: (dec b ++ []))) := by simp
  rw [e1]
  rw [parseTag_LFBN c hc _ _ (parseLFBN_shape c hc (dec f) (dec e) _ [] _ none
    (dig_dec 2 f (by omega)) (dig_dec 2 e (by omega)) (by simp [isDigitC])
    (optBit_dig (dig_dec 1 b (by omega)) rfl) rfl)]
  simp only [dec_val, Option.getD_some]
  rw [if_neg (by omega)]

theorem reject_binary_bit_out_of_range (c f n : Nat) (hc : upperC c = 66) (hf : 1 ≤ f ∧ f ≤ 255) (hn : 4096 ≤ n ∧ n ≤ 9999) :
    parseTag ([c] ++ dec f ++ [47] ++ dec n) = none := by
  have e1 : [c] ++ dec f ++ [47] ++ dec n = c :: (dec f ++ 47 :: (dec n ++ [])) := by simp
  rw [e1, parseTag_B c hc _ _ (dig_dec 2 f (by omega)),
    parseB_shape c hc _ _ (dig_dec 2 f (by omega)) (dig_dec 3 n (by omega))]
  simp only [dec_val]
  rw [if_neg (by omega)]

/-- an unsupported file-type letter is rejected whatever follows -/
theorem reject_unknown_type (c : Nat) (rest : Name)
    (hc : ∀ x ∈ [67, 84, 76, 70, 66, 78, 73, 79, 83], upperC c ≠ x) : parseTag (c :: rest) = none := by
  simp only [List.mem_cons, List.not_mem_nil, or_false, forall_eq_or_imp, forall_eq] at hc
  obtain ⟨h67, h84, h76, h70, h66, h78, h73, h79, h83⟩ := hc
  simp only [parseTag, parseCT_none c _ h67 h84, parseLFBN_none c _ (by unfold IsLFBN; omega),
    parseIO_none c _ h73 h79, parseS_none c _ h83, parseB_none c _ h66]

/-- a bit write sends mask 2^b and data 2^b or 0 (two bytes each), announcing 2 data bytes -/
theorem bit_write_value (a : Addr) (v : PyVal) (hb : a.addressField = 3) (hc : a.count = 1)
    (hs : a.subElement ≤ 15) (hct : a.fileType ≠ [84] ∧ a.fileType ≠ [67]) (ht : (elemTy a.fileType).isSome) :
    writeableValue a v = .ok (leBytes 2 (2 ^ a.subElement) ++ (if v.truthy then leBytes 2 (2 ^ a.subElement) else [0, 0]), 2) := by
  obtain ⟨ty, hty⟩ := Option.isSome_iff_exists.mp ht
  have hp : (2:Nat) ^ a.subElement ≤ 2 ^ 15 := Nat.pow_le_pow_right (by decide) hs
  have hpk : packInt .uint (.int ((2:Nat) ^ a.subElement : Nat)) = .ok (leBytes 2 (2 ^ a.subElement)) := by
    have h1 : (0:Int) ≤ (2:Int) ^ a.subElement := by
      have : (0:Int) ≤ ((2 ^ a.subElement : Nat) : Int) := Int.natCast_nonneg _
      simpa using this
    have h2 : (2:Int) ^ a.subElement ≤ 65535 := by
      have : ((2 ^ a.subElement : Nat) : Int) ≤ 65535 := by omega
      simpa using this
    have h3 : ((2:Int) ^ a.subElement).toNat = 2 ^ a.subElement := by
      have : (((2 ^ a.subElement : Nat) : Int)).toNat = 2 ^ a.subElement := Int.toNat_natCast _
      simpa using this
    simp only [packInt, PyVal.asIndex, IntK.lo, IntK.hi, IntK.signed, IntK.size, ofSigned]
    simp [h1, h2, h3]
  unfold writeableValue
  simp only [hty, hc, hb, hct.1, hct.2]
  simp
  have := hpk
  simp at this
  rw [this]

/-- the masked write of the reference target with mask 2^b changes only bit b of the addressed word -/
theorem mask_word_bit (old dat b i : Nat) (ho : old < 65536) (hd : dat < 65536) (hb : b < 16) (hi : i < 16) :
    (((old &&& (65535 - 2 ^ b)) ||| (dat &&& 2 ^ b)).testBit i) = (if i = b then dat.testBit b else old.testBit i) := by
  have _ := ho; have _ := hd   -- the bounds on the words are not needed
  rw [sub_pow_eq_xor b hb]
  have h65 : (65535 : Nat) = 2 ^ 16 - 1 := by decide
  rw [Nat.testBit_or, Nat.testBit_and, Nat.testBit_and, Nat.testBit_xor, h65, Nat.testBit_two_pow_sub_one,
    Nat.testBit_two_pow]
  by_cases h : i = b
  · subst h; simp [hi]
  · have h' : ¬ b = i := fun e => h e.symm
    simp [h, h', hi]

/-- write then read: a full-mask write of `data` to an existing location is what a read of the same
    location returns, and nothing outside the addressed bytes of that file changes -/
theorem write_then_read (tbl : Table) (size fnum ftype elem sub : Nat) (data : Bytes) (tbl' : Table)
    (hu : (tbl.filter (fun f => f.num == fnum)).length ≤ 1)
    (h : maskedWrite tbl size fnum ftype elem sub 65535 data = .ok tbl') :
    typedRead tbl' size fnum ftype elem sub = .ok data ∧
    ∀ f ∈ tbl, f.num ≠ fnum → f ∈ tbl' := by
  have _ := hu   -- uniqueness of the file number is not needed: `find?` picks the first match in both tables
  unfold maskedWrite at h
  split at h
  · cases h
  · rename_i f hfind
    split at h
    · cases h
    · rename_i hty
      split at h
      · cases h
      · rename_i hsz
        simp only at h
        split at h
        · cases h
        · rename_i hoff
          injection h with h
          generalize hoffv : byteOffset ftype elem sub = off at h hoff
          have hdl : data.length = size := by omega
          have hold : (List.take size (List.drop off f.data)).length = data.length := by
            simp only [List.length_take, List.length_drop]; omega
          have hmw : maskWords 65535 (List.take size (List.drop off f.data)) data = data :=
            maskWords_full (size / 2) _ _ (by omega) hold
          rw [hmw] at h
          have hfn : f.num = fnum := by
            have := List.find?_some hfind
            simpa using this
          subst h
          constructor
          · unfold typedRead
            rw [find_map_num tbl fnum _ (by intro g; split <;> rfl), hfind]
            have hty' : f.ftype = ftype := by simpa using hty
            simp only [Option.map_some, hfn, beq_self_eq_true, if_true, hty', ne_eq, not_true_eq_false, if_false]
            rw [if_neg (by omega), hoffv]
            have hlen : (List.take off f.data).length = off := by
              simp only [List.length_take]; omega
            rw [if_neg (by simp only [List.length_append, hlen, List.length_drop]; omega)]
            congr 1
            rw [List.append_assoc, List.drop_left' hlen, ← hdl, List.take_left]
          · intro g hg hne
            refine List.mem_map.mpr ⟨g, hg, ?_⟩
            simp [hne]

/-- frame (any mask): a masked write keeps every file's number, type and data length, leaves every file with another
    number untouched, and in the addressed file changes nothing outside the addressed bytes -/
theorem write_frame (tbl : Table) (size fnum ftype elem sub mask : Nat) (data : Bytes) (tbl' : Table)
    (h : maskedWrite tbl size fnum ftype elem sub mask data = .ok tbl') :
    tbl'.length = tbl.length ∧
    ∀ (i : Nat) (f : SlcFile), tbl[i]? = some f → ∃ g, tbl'[i]? = some g ∧ g.num = f.num ∧ g.ftype = f.ftype ∧
      (f.num ≠ fnum → g = f) ∧
      (tbl.find? (fun x => x.num == fnum) = some f →
        g.data.length = f.data.length ∧
        ∀ j, (j < byteOffset ftype elem sub ∨ byteOffset ftype elem sub + size ≤ j) → g.data[j]? = f.data[j]?) := by
  unfold maskedWrite at h
  split at h
  · cases h
  · rename_i f0 hfind
    split at h
    · cases h
    · split at h
      · cases h
      · rename_i hsz
        simp only at h
        split at h
        · cases h
        · rename_i hoff
          injection h with h
          generalize byteOffset ftype elem sub = off at h hoff ⊢
          have hdl : data.length = size := by omega
          have hold : (List.take size (List.drop off f0.data)).length = data.length := by
            simp only [List.length_take, List.length_drop]; omega
          have hml := maskWords_length mask (size / 2) _ data (by omega) hold
          subst h
          refine ⟨by simp, ?_⟩
          intro i f hi
          simp only [List.getElem?_map, hi, Option.map_some]
          refine ⟨_, rfl, ?_, ?_, ?_, ?_⟩
          · split <;> rfl
          · split <;> rfl
          · intro hne; simp [hne]
          · intro hf
            rw [hfind] at hf
            injection hf with hf
            subst hf
            have hfn : f0.num = fnum := by
              have := List.find?_some hfind
              simpa using this
            simp only [hfn, beq_self_eq_true, if_true]
            have hlt : (List.take off f0.data).length = off := by simp only [List.length_take]; omega
            refine ⟨by simp only [List.length_append, hlt, hml, List.length_drop]; omega, ?_⟩
            intro j hj
            rcases hj with hj | hj
            · rw [List.append_assoc, List.getElem?_append_left (by omega), List.getElem?_take_of_lt hj]
            · rw [List.getElem?_append_right (by simp only [List.length_append, hlt, hml]; omega)]
              simp only [List.length_append, hlt, hml, List.getElem?_drop]
              congr 1; omega

end Pycomm.Slc
