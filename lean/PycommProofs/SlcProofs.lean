/-
  Proofs for C18 (SLC addresses select the right file, element and bit; data round-trips).
-/
import PycommModel.Slc
namespace Pycomm.Slc

/-- spec-side decimal rendering -/
def decRevS (n : Nat) : List Nat :=
  if h : n < 10 then [48 + n] else (48 + n % 10) :: decRevS (n / 10)
termination_by n
decreasing_by omega
def dec (n : Nat) : Name := (decRevS n).reverse

/-- the file-type letters with word/bit forms `Xf:e`, in either case -/
def IsLFBN (c : Nat) : Prop := upperC c = 76 ∨ upperC c = 70 ∨ upperC c = 66 ∨ upperC c = 78

/-- bit i of a 16-bit word -/
def wordBit (w : Nat) (i : Nat) : Bool := w.testBit i

def wordAt (d : Bytes) (off : Nat) : Nat := (d.getD off 0).toNat + 256 * (d.getD (off + 1) 0).toNat

-- PROPERTY THEOREMS

/-- word form `Xf:e` (integer, binary, float, long files; upper or lower case letter): exactly that file
    number and element, whole-word access, one element -/
theorem parse_word (c f e : Nat) (hc : IsLFBN c) (hf : 1 ≤ f ∧ f ≤ 255) (he : e ≤ 255) :
    parseTag ([c] ++ dec f ++ [58] ++ dec e) =
      some { fileType := [upperC c], fileNumber := f, element := e, subElement := 0, addressField := 2, count := 1,
             tag := [c] ++ dec f ++ [58] ++ dec e } := by
  sorry

/-- bit form `Xf:e/b` -/
theorem parse_bit (c f e b : Nat) (hc : IsLFBN c) (hf : 1 ≤ f ∧ f ≤ 255) (he : e ≤ 255) (hb : b ≤ 15) :
    parseTag ([c] ++ dec f ++ [58] ++ dec e ++ [47] ++ dec b) =
      some { fileType := [upperC c], fileNumber := f, element := e, subElement := b, addressField := 3, count := 1,
             tag := [c] ++ dec f ++ [58] ++ dec e ++ [47] ++ dec b } := by
  sorry

/-- `{count}` form covers exactly that many consecutive elements starting at e -/
theorem parse_count (c f e n : Nat) (hc : IsLFBN c) (hf : 1 ≤ f ∧ f ≤ 255) (he : e ≤ 255) :
    parseTag ([c] ++ dec f ++ [58] ++ dec e ++ [123] ++ dec n ++ [125]) =
      some { fileType := [upperC c], fileNumber := f, element := e, subElement := 0, addressField := 2, count := n,
             tag := [c] ++ dec f ++ [58] ++ dec e } := by
  sorry

/-- binary-file bit form `Bf/n`: element n div 16, bit n mod 16 -/
theorem parse_binary_bit (c f n : Nat) (hc : upperC c = 66) (hf : 1 ≤ f ∧ f ≤ 255) (hn : n ≤ 4095) :
    parseTag ([c] ++ dec f ++ [47] ++ dec n) =
      some { fileType := [66], fileNumber := f, element := n / 16, subElement := n % 16, addressField := 3, count := 1,
             tag := [c] ++ dec f ++ [47] ++ dec n } := by
  sorry

/-- out-of-range file, element or bit numbers are rejected (parse_tag returns None → RequestError),
    for every number that the pattern's digit count admits -/
theorem reject_out_of_range (c f e : Nat) (hc : IsLFBN c) (hf : f ≤ 999) (he : e ≤ 999)
    (hbad : f = 0 ∨ 256 ≤ f ∨ 256 ≤ e) :
    parseTag ([c] ++ dec f ++ [58] ++ dec e) = none := by
  sorry

theorem reject_bit_out_of_range (c f e b : Nat) (hc : IsLFBN c) (hf : 1 ≤ f ∧ f ≤ 255) (he : e ≤ 255) (hb : 16 ≤ b ∧ b ≤ 99) :
    parseTag ([c] ++ dec f ++ [58] ++ dec e ++ [47] ++ dec b) = none := by
  sorry

theorem reject_binary_bit_out_of_range (c f n : Nat) (hc : upperC c = 66) (hf : 1 ≤ f ∧ f ≤ 255) (hn : 4096 ≤ n ∧ n ≤ 9999) :
    parseTag ([c] ++ dec f ++ [47] ++ dec n) = none := by
  sorry

/-- an unsupported file-type letter is rejected whatever follows -/
theorem reject_unknown_type (c : Nat) (rest : Name)
    (hc : ∀ x ∈ [67, 84, 76, 70, 66, 78, 73, 79, 83], upperC c ≠ x) : parseTag (c :: rest) = none := by
  sorry

/-- a bit write sends mask 2^b and data 2^b or 0 (two bytes each), announcing 2 data bytes -/
theorem bit_write_value (a : Addr) (v : PyVal) (hb : a.addressField = 3) (hc : a.count = 1)
    (hs : a.subElement ≤ 15) (hct : a.fileType ≠ [84] ∧ a.fileType ≠ [67]) (ht : (elemTy a.fileType).isSome) :
    writeableValue a v = .ok (leBytes 2 (2 ^ a.subElement) ++ (if v.truthy then leBytes 2 (2 ^ a.subElement) else [0, 0]), 2) := by
  sorry

/-- the masked write of the reference target with mask 2^b changes only bit b of the addressed word -/
theorem mask_word_bit (old dat b i : Nat) (ho : old < 65536) (hd : dat < 65536) (hb : b < 16) (hi : i < 16) :
    (((old &&& (65535 - 2 ^ b)) ||| (dat &&& 2 ^ b)).testBit i) = (if i = b then dat.testBit b else old.testBit i) := by
  sorry

/-- write then read: a full-mask write of `data` to an existing location is what a read of the same
    location returns, and nothing outside the addressed bytes of that file changes -/
theorem write_then_read (tbl : Table) (size fnum ftype elem sub : Nat) (data : Bytes) (tbl' : Table)
    (hu : (tbl.filter (fun f => f.num == fnum)).length ≤ 1)
    (h : maskedWrite tbl size fnum ftype elem sub 65535 data = .ok tbl') :
    typedRead tbl' size fnum ftype elem sub = .ok data ∧
    ∀ f ∈ tbl, f.num ≠ fnum → f ∈ tbl' := by
  sorry

end Pycomm.Slc
