/-
  Proofs for C08 (codec failures are DataError: never foreign, silent or non-terminating).
  Statements are restated in PycommProps/C08.lean.
-/
import PycommProofs.CodecRoundTrip
import PycommProofs.ERRec
import PycommProofs.EREnc
namespace Pycomm

/- no unbounded array / rest-of-buffer placeholder anywhere inside -/
-- STATEMENT CHANGED: added the clause `.arr (.fixed 0) _ => True` (and spelled the remaining array
-- clauses out).  A zero-length array never decodes an element, so its element type is irrelevant;
-- without the clause `canon_tailSafe` is false: `Canon (.arr (.fixed 0) (.arr .all .bool)) (.list [])`
-- holds (no element to constrain) while the old `TailSafe` of that type was `False`.
-- The predicate only became weaker, so `decode_prefix_stable` became stronger.
mutual
def TailSafe : Ty → Prop
  | .nbytes n => 0 ≤ n
  | .arr .all _ => False
  | .arr (.fixed 0) _ => True
  | .arr (.fixed (_ + 1)) t => TailSafe t
  | .arr (.pref _) t => TailSafe t
  | .struct ms => TailSafeMembers ms
  | .structTag ms _ _ _ => TailSafeT ms
  | _ => True
def TailSafeMembers : Members → Prop
  | .nil => True
  | .cons _ t rest => TailSafe t ∧ TailSafeMembers rest
def TailSafeT : TMembers → Prop
  | .nil => True
  | .cons _ t _ rest => TailSafe t ∧ TailSafeT rest
end

/- every array that loops on the buffer (unbounded or counted from the wire) has elements that consume bytes -/
-- STATEMENT CHANGED: added the clause `.arr (.fixed 0) _ => True` for the same reason (`decode_truncated`
-- needs `Canon t v → Terminating t`, false for `.arr (.fixed 0) (.arr .all (.arr .all .bool))`).
-- The predicate only became weaker, so `decode_no_hang` became stronger.
mutual
def Terminating : Ty → Prop
  | .arr .all t => PosWidth t ∧ Terminating t
  | .arr (.pref _) t => PosWidth t ∧ Terminating t
  | .arr (.fixed 0) _ => True
  | .arr (.fixed (_ + 1)) t => Terminating t
  | .struct ms => TerminatingMembers ms
  | .structTag ms _ _ _ => TerminatingT ms
  | _ => True
def TerminatingMembers : Members → Prop
  | .nil => True
  | .cons _ t rest => Terminating t ∧ TerminatingMembers rest
def TerminatingT : TMembers → Prop
  | .nil => True
  | .cons _ t _ rest => Terminating t ∧ TerminatingT rest
end

/- the counted arrays `el[k]` inside a type whose elements are actually decoded (nothing below a
    zero-length array is) -/
mutual
def countedIn : Ty → List (IntK × Ty)
  | .arr .all t => countedIn t
  | .arr (.pref k) t => (k, t) :: countedIn t
  | .arr (.fixed 0) _ => []
  | .arr (.fixed (_ + 1)) t => countedIn t
  | .struct ms => countedInMembers ms
  | .structTag ms _ _ _ => countedInT ms
  | _ => []
def countedInMembers : Members → List (IntK × Ty)
  | .nil => []
  | .cons _ t rest => countedIn t ++ countedInMembers rest
def countedInT : TMembers → List (IntK × Ty)
  | .nil => []
  | .cons _ t _ rest => countedIn t ++ countedInT rest
end

/-- the one situation the model reports as resource exhaustion (the other origin of `Exn.hang`, in the
    counted-array case of `decode`): the count read from `bs` exceeds the bytes left after it by more than
    65536, and nevertheless `left + 1` elements decode from those bytes — so elements come from no bytes
    at all and the real loop would go on to allocate `n` values -/
def HugeCount (k : IntK) (el : Ty) (bs : Bytes) : Prop :=
  ∃ n r0, decodeIntNat k bs = .ok (n, r0) ∧ r0.length + 65536 < n ∧
    ∃ x, decodeN (decode el) (r0.length + 1) r0 = .ok x

/-- every counted array inside the type has elements that consume bytes; unbounded arrays are NOT restricted -/
def CountedPos (t : Ty) : Prop := ∀ p ∈ countedIn t, PosWidth p.2

open ER

/-- whatever the value, a failing encode is a DataError (no other exception class exists in the outcome) -/
theorem encode_error_is_data (t : Ty) (v : PyVal) (e : Exn) (h : encode t v = .error e) : e = .data :=
  ER.encode_ee t v e h

namespace ER

theorem c2_c3 (e : Exn) (h : C2 e) : C3 e := h.elim Or.inl fun h => Or.inr (Or.inl h)

theorem errClass_all :
    (∀ t, ErrIn C3 (decode t)) ∧ (∀ ms acc, ErrIn C3 (fun bs => decodeMembers ms bs acc)) ∧
      (∀ ms raw pos acc e, decodeTMembers ms raw pos acc = .error e → C3 e) := by
  refine Ty.induct3 ?_ ?_ ?_ ?_ ?_ ?_ ?_ ?_
  · intro t h; exact (nonrec_err t h).mono c2_c3
  · intro len t ih; rw [decode_arr_eq]; exact arr_errIn ih c2_c3 (Or.inr (Or.inr rfl)) len
  · intro ms ih; rw [decode_struct_eq]; exact (ih []).bind fun _ => ErrIn.ret
  · intro ms bits priv size ih; rw [decode_tag_eq]; exact tag_errIn (fun raw e h => ih raw 0 [] e h) c2_c3 size
  · intro acc; rw [members_nil]; exact ErrIn.ret
  · intro name t rest iht ihr acc; rw [members_cons]; exact iht.bind fun v => ihr _
  · intro raw pos acc e h; rw [decodeTMembers] at h; cases h
  · intro name t off rest iht ihr raw pos acc e h
    rcases tmembers_cons_err _ _ _ _ _ _ _ _ h with ⟨bs, hb⟩ | ⟨p, a, hr⟩
    · exact iht _ _ hb
    · exact ihr _ _ _ _ hr

theorem suf_all : (∀ t, Suf (decode t)) ∧ (∀ ms acc, Suf (fun bs => decodeMembers ms bs acc)) ∧
    (∀ _ : TMembers, True) := by
  refine Ty.induct3 ?_ ?_ ?_ ?_ ?_ ?_ ?_ ?_
  · intro t h; exact nonrec_suf t h
  · intro len t ih; rw [decode_arr_eq]; exact arr_suf ih len
  · intro ms ih; rw [decode_struct_eq]; exact (ih []).bind fun _ => Suf.ret
  · intro ms bits priv size _; rw [decode_tag_eq]; exact (tag_fixed size).suf
  · intro acc; rw [members_nil]; exact Suf.ret
  · intro name t rest iht ihr acc; rw [members_cons]; exact iht.bind fun v => ihr _
  · trivial
  · intros; trivial

theorem prog_all : (∀ t, PosWidth t → Prog (decode t)) ∧
    (∀ ms, PosWidthMembers ms → ∀ acc, Prog (fun bs => decodeMembers ms bs acc)) ∧ (∀ _ : TMembers, True) := by
  refine Ty.induct3 ?_ ?_ ?_ ?_ ?_ ?_ ?_ ?_
  · intro t h hw; exact nonrec_prog t h hw
  · intro len t ih hw
    rw [decode_arr_eq]
    cases len with
    | all => simp [PosWidth] at hw
    | fixed n =>
      simp only [PosWidth] at hw
      exact arr_prog_fixed (suf_all.1 t) (ih hw.2) n hw.1
    | pref k => exact arr_prog_pref (suf_all.1 t) k
  · intro ms ih hw
    rw [decode_struct_eq]
    simp only [PosWidth] at hw
    exact (ih hw []).bind_left fun _ => Suf.ret
  · intro ms bits priv size _ hw; rw [decode_tag_eq]; exact tag_prog size
  · intro hw; simp [PosWidthMembers] at hw
  · intro name t rest iht ihr hw acc
    rw [members_cons]
    simp only [PosWidthMembers] at hw
    rcases hw with hw | hw
    · exact (iht hw).bind_left fun v => suf_all.2.1 rest _
    · intro bs v r h
      obtain ⟨a, r1, h1, h2⟩ := (bindD_ok ..).1 h
      have := (suf_all.1 t _ _ _ h1).length_le
      have := ihr hw _ _ _ _ h2
      omega
  · trivial
  · intros; trivial

end ER

/-- whatever the bytes, a failing decode is DataError or BufferEmptyError (or the fuel marker) -/
theorem decode_error_class (t : Ty) (bs : Bytes) (e : Exn) (h : decode t bs = .error e) :
    e = .data ∨ e = .bufferEmpty ∨ e = .hang :=
  ER.errClass_all.1 t bs e h

/-- what decode leaves is a suffix of what it was given -/
theorem decode_suffix (t : Ty) (bs : Bytes) (v : PyVal) (r : Bytes) (h : decode t bs = .ok (v, r)) :
    ∃ used, bs = used ++ r := by
  obtain ⟨used, hu⟩ := ER.suf_all.1 t bs v r h
  exact ⟨used, hu.symm⟩

theorem decode_progress (t : Ty) (hw : PosWidth t) (bs : Bytes) (v : PyVal) (r : Bytes)
    (h : decode t bs = .ok (v, r)) : r.length < bs.length :=
  ER.prog_all.1 t hw bs v r h


namespace ER

/-- some counted array inside the type met a huge count -/
def Cause (L : List (IntK × Ty)) : Prop := ∃ k el bs', (k, el) ∈ L ∧ HugeCount k el bs'

theorem Cause.mono {L L' : List (IntK × Ty)} (h : ∀ p ∈ L, p ∈ L') (c : Cause L) : Cause L' := by
  obtain ⟨k, el, bs', hm, hc⟩ := c
  exact ⟨k, el, bs', h _ hm, hc⟩

theorem hangCause_all :
    (∀ t, ErrIn (fun e => e = .hang → Cause (countedIn t)) (decode t)) ∧
    (∀ ms acc, ErrIn (fun e => e = .hang → Cause (countedInMembers ms)) (fun bs => decodeMembers ms bs acc)) ∧
    (∀ ms raw pos acc e, decodeTMembers ms raw pos acc = .error e → e = .hang → Cause (countedInT ms)) := by
  refine Ty.induct3 ?_ ?_ ?_ ?_ ?_ ?_ ?_ ?_
  · intro t h
    exact (nonrec_err t h).mono fun e he hh => absurd hh (c2_ne_hang e he)
  · intro len t ih
    rw [decode_arr_eq]
    have key : (∀ p ∈ countedIn t, p ∈ countedIn (.arr len t)) →
        ErrIn (fun e => e = .hang → Cause (countedIn (.arr len t))) (arrDec (decode t) (post t) len) := by
      intro hsub bs e h he
      rcases arr_err_cases (suf_all.1 t) (ih.mono fun e c he => (c he).mono hsub)
        (fun e hc he => absurd he (c2_ne_hang e hc)) len bs e h with h | ⟨_, k, rfl, hk⟩
      · exact h he
      · exact ⟨k, t, bs, by simp [countedIn], hk⟩
    cases len with
    | all => exact key (by simp [countedIn])
    | pref k => exact key (by intro p hp; simp [countedIn, hp])
    | fixed n =>
      cases n with
      | zero => exact arr_errIn_zero
      | succ n => exact key (by simp [countedIn])
  · intro ms ih
    rw [decode_struct_eq]
    simp only [countedIn]
    exact (ih []).bind fun _ => ErrIn.ret
  · intro ms bits priv size ih
    rw [decode_tag_eq]
    simp only [countedIn]
    exact tag_errIn (fun raw e h => ih raw 0 [] e h) (fun e hc he => absurd he (c2_ne_hang e hc)) size
  · intro acc; rw [members_nil]; exact ErrIn.ret
  · intro name t rest iht ihr acc
    rw [members_cons]
    simp only [countedInMembers]
    exact (iht.mono fun e c he => (c he).mono fun p hp => List.mem_append_left _ hp).bind fun v =>
      (ihr _).mono fun e c he => (c he).mono fun p hp => List.mem_append_right _ hp
  · intro raw pos acc e h; rw [decodeTMembers] at h; cases h
  · intro name t off rest iht ihr raw pos acc e h he
    simp only [countedInT]
    rcases tmembers_cons_err _ _ _ _ _ _ _ _ h with ⟨bs, hb⟩ | ⟨p, a, hr⟩
    · exact (iht _ _ hb he).mono fun p hp => List.mem_append_left _ hp
    · exact (ihr _ _ _ _ hr he).mono fun p hp => List.mem_append_right _ hp

theorem countedPos_all : (∀ t, Terminating t → ∀ p ∈ countedIn t, PosWidth p.2) ∧
    (∀ ms, TerminatingMembers ms → ∀ p ∈ countedInMembers ms, PosWidth p.2) ∧
    (∀ ms, TerminatingT ms → ∀ p ∈ countedInT ms, PosWidth p.2) := by
  refine Ty.induct3 ?_ ?_ ?_ ?_ ?_ ?_ ?_ ?_
  · intro t h _ p hp
    cases t <;> simp only [NonRec] at h <;> simp [countedIn] at hp
  · intro len t ih ht p hp
    cases len with
    | all =>
      simp only [Terminating] at ht
      simp only [countedIn] at hp
      exact ih ht.2 p hp
    | pref k =>
      simp only [Terminating] at ht
      simp only [countedIn, List.mem_cons] at hp
      rcases hp with rfl | hp
      · exact ht.1
      · exact ih ht.2 p hp
    | fixed n =>
      cases n with
      | zero => simp [countedIn] at hp
      | succ n =>
        simp only [Terminating] at ht
        simp only [countedIn] at hp
        exact ih ht p hp
  · intro ms ih ht p hp
    simp only [Terminating] at ht
    simp only [countedIn] at hp
    exact ih ht p hp
  · intro ms bits priv size ih ht p hp
    simp only [Terminating] at ht
    simp only [countedIn] at hp
    exact ih ht p hp
  · intro _ p hp; simp [countedInMembers] at hp
  · intro name t rest iht ihr ht p hp
    simp only [TerminatingMembers] at ht
    simp only [countedInMembers, List.mem_append] at hp
    rcases hp with hp | hp
    · exact iht ht.1 p hp
    · exact ihr ht.2 p hp
  · intro _ p hp; simp [countedInT] at hp
  · intro name t off rest iht ihr ht p hp
    simp only [TerminatingT] at ht
    simp only [countedInT, List.mem_append] at hp
    rcases hp with hp | hp
    · exact iht ht.1 p hp
    · exact ihr ht.2 p hp

theorem fixed_all : (∀ t w, fixedWidth t = some w → Fixed (decode t) w) ∧
    (∀ ms w, fixedWidthMembers ms = some w → ∀ acc, Fixed (fun bs => decodeMembers ms bs acc) w) ∧
    (∀ _ : TMembers, True) := by
  refine Ty.induct3 ?_ ?_ ?_ ?_ ?_ ?_ ?_ ?_
  · intro t h w hw; exact nonrec_fixed t h w hw
  · intro len t ih w hw
    rw [decode_arr_eq]
    cases len with
    | all => simp [fixedWidth] at hw
    | pref k => simp [fixedWidth] at hw
    | fixed n =>
      simp only [fixedWidth, Option.map_eq_some_iff] at hw
      obtain ⟨w', hw', rfl⟩ := hw
      exact arr_fixed (ih w' hw') n
  · intro ms ih w hw
    rw [decode_struct_eq]
    simp only [fixedWidth] at hw
    exact (ih w hw []).bind (w2 := 0) fun _ => Fixed.ret
  · intro ms bits priv size _ w hw
    rw [decode_tag_eq]
    simp only [fixedWidth] at hw
    split at hw
    · cases hw; exact tag_fixed _
    · cases hw
  · intro w hw acc
    simp only [fixedWidthMembers] at hw
    cases hw
    rw [members_nil]; exact Fixed.ret
  · intro name t rest iht ihr w hw acc
    rw [members_cons]
    simp only [fixedWidthMembers, bind, Option.bind_eq_some_iff, pure, Option.some.injEq] at hw
    obtain ⟨a, ha, b, hb, rfl⟩ := hw
    exact (iht a ha).bind fun v => ihr b hb _
  · trivial
  · intros; trivial

theorem stab_all : (∀ t, TailSafe t → Stab (decode t)) ∧
    (∀ ms, TailSafeMembers ms → ∀ acc, Stab (fun bs => decodeMembers ms bs acc)) ∧
    (∀ _ : TMembers, True) := by
  refine Ty.induct3 ?_ ?_ ?_ ?_ ?_ ?_ ?_ ?_
  · intro t h hs
    refine (nonrec_good t h ?_).stab
    intro n hn; subst hn
    simpa only [TailSafe] using hs
  · intro len t ih hs
    rw [decode_arr_eq]
    cases len with
    | all => simp [TailSafe] at hs
    | pref k =>
      simp only [TailSafe] at hs
      exact arr_stab_pref (ih hs) k
    | fixed n =>
      cases n with
      | zero => exact arr_stab_zero
      | succ n =>
        simp only [TailSafe] at hs
        exact arr_stab_fixed (ih hs) _
  · intro ms ih hs
    rw [decode_struct_eq]
    simp only [TailSafe] at hs
    exact (ih hs []).bind fun _ => Stab.ret
  · intro ms bits priv size _ _
    rw [decode_tag_eq]; exact tag_stab size
  · intro _ acc; rw [members_nil]; exact Stab.ret
  · intro name t rest iht ihr hs acc
    rw [members_cons]
    simp only [TailSafeMembers] at hs
    exact (iht hs.1).bind fun v => ihr hs.2 _
  · trivial
  · intros; trivial

end ER

/-- `Array._decode_all` never runs out of fuel: whatever the element decoder `f` does — as long as it does
    not hand back more bytes than it was given and does not itself report `hang` — a loop started with
    more fuel than bytes ends by itself.  Every round that continues has shortened the buffer, and an
    element decoded without consuming anything ends the loop with DataError. -/
theorem decode_all_never_hangs (f : Bytes → R (PyVal × Bytes)) (fuel : Nat) (bs : Bytes)
    (hfuel : bs.length < fuel) (hle : ∀ bs v r, f bs = .ok (v, r) → r.length ≤ bs.length)
    (hf : ∀ bs, f bs ≠ .error .hang) : decodeAll f fuel bs ≠ .error .hang :=
  ER.decodeAll_noHang hle (fun bs _ h he => hf bs (he ▸ h)) fuel bs hfuel

/-- an element that is decoded without the stream position moving makes the unbounded loop raise
    DataError (this used to be the endless loop) -/
theorem decode_all_stalled_is_data (f : Bytes → R (PyVal × Bytes)) (fuel : Nat) (bs : Bytes) (v : PyVal)
    (r : Bytes) (h : f bs = .ok (v, r)) (hr : r.length = bs.length) :
    decodeAll f (fuel + 1) bs = .error .data := by
  rw [decodeAll]; simp only [h, hr, if_true]

/-- an unbounded array adds no way of not terminating: if the element type never reports `hang`,
    neither does `T[...]` — also when `T` decodes from zero bytes -/
theorem decode_unbounded_no_hang (t : Ty) (ht : ∀ bs, decode t bs ≠ .error .hang) (bs : Bytes) :
    decode (.arr .all t) bs ≠ .error .hang := by
  intro h
  rw [ER.decode_arr_eq] at h
  rcases ER.arr_err_cases (Q := (· ≠ .hang)) (ER.suf_all.1 t) (fun bs e h he => ht bs (he ▸ h)) ER.c2_ne_hang
    .all bs _ h with h | ⟨_, k, hk, _⟩
  · exact h rfl
  · cases hk

/-- NO hypothesis on the type: whenever decode reports `hang`, some counted array `el[k]` inside the type
    met a huge count (`HugeCount`: the count exceeds the bytes left by more than 65536 although that many
    + 1 elements decode).  The unbounded-array loop is never the reason. -/
theorem decode_hang_cause (t : Ty) (bs : Bytes) (h : decode t bs = .error .hang) :
    ∃ k el bs', (k, el) ∈ countedIn t ∧ HugeCount k el bs' :=
  ER.hangCause_all.1 t bs _ h rfl

/-- the condition is exact: a counted array whose element type never reports `hang` reports it iff the
    count is huge; and a huge count is always reported so -/
theorem decode_counted_hang_iff (k : IntK) (el : Ty) (hel : ∀ bs, decode el bs ≠ .error .hang) (bs : Bytes) :
    decode (.arr (.pref k) el) bs = .error .hang ↔ HugeCount k el bs := by
  rw [ER.decode_arr_eq]
  constructor
  · intro h
    rcases ER.arr_err_cases (Q := (· ≠ .hang)) (ER.suf_all.1 el) (fun bs e h he => hel bs (he ▸ h))
      ER.c2_ne_hang (.pref k) bs _ h with h | ⟨_, k', hk, hh⟩
    · exact absurd rfl h
    · cases hk; exact hh
  · exact ER.huge_hang k bs

theorem huge_count_hangs (k : IntK) (el : Ty) (bs : Bytes) (h : HugeCount k el bs) :
    decode (.arr (.pref k) el) bs = .error .hang := by
  rw [ER.decode_arr_eq]; exact ER.huge_hang k bs h

/-- elements that consume bytes never meet a huge count -/
theorem posWidth_not_huge (k : IntK) (el : Ty) (hw : PosWidth el) (bs : Bytes) : ¬ HugeCount k el bs := by
  rintro ⟨n, r0, _, _, ⟨vs, r⟩, hx⟩
  have := ER.decodeN_count (ER.suf_all.1 el) (ER.prog_all.1 el hw) _ _ _ _ hx
  omega

/-- termination with the weakest syntactic hypothesis: only counted arrays need elements that consume
    bytes.  Unbounded arrays of zero-width elements (`Struct()[...]`, `X[0][...]`) are covered. -/
theorem decode_no_hang_counted (t : Ty) (ht : CountedPos t) (bs : Bytes) : decode t bs ≠ .error .hang := by
  intro h
  obtain ⟨k, el, bs', hm, hc⟩ := decode_hang_cause t bs h
  exact posWidth_not_huge k el (ht _ hm) bs' hc

theorem terminating_countedPos (t : Ty) (ht : Terminating t) : CountedPos t :=
  ER.countedPos_all.1 t ht

/-- termination: the fuel of the unbounded-array loop is never the reason to stop -/
theorem decode_no_hang (t : Ty) (ht : Terminating t) (bs : Bytes) : decode t bs ≠ .error .hang :=
  decode_no_hang_counted t (terminating_countedPos t ht) bs

/-! the former counterexample of `decode_no_hang` without `Terminating`: zero-width elements in an
    unbounded array -/
example : decode (.arr .all (.struct .nil)) [1, 2, 3] = .error .data := by rfl
example : decode (.arr .all (.arr (.fixed 0) .bool)) [] = .error .data := by rfl
example : decode (.arr .all (.arr .all (.struct .nil))) [7] = .error .data := by rfl
example : ¬ Terminating (.arr .all (.struct .nil)) := by simp [Terminating, PosWidth, PosWidthMembers]
example : CountedPos (.arr .all (.struct .nil)) := by simp [CountedPos, countedIn, countedInMembers]
/-! the remaining origin of `hang`, and that `CountedPos` excludes exactly this shape -/
example : decode (.arr (.pref .udint) (.struct .nil)) [0, 0, 2, 0] = .error .hang := by rfl
example : HugeCount .udint (.struct .nil) [0, 0, 2, 0] := ⟨131072, [], by rfl, by decide, _, by rfl⟩
example : ¬ CountedPos (.arr (.pref .udint) (.struct .nil)) := by
  simp [CountedPos, countedIn, countedInMembers, PosWidth, PosWidthMembers]

/-- no fixed-width value is produced from fewer bytes than its width, and exactly the width is consumed -/
theorem fixed_width_needs_width (t : Ty) (w : Nat) (hw : fixedWidth t = some w) (bs : Bytes) (v : PyVal) (r : Bytes)
    (h : decode t bs = .ok (v, r)) : w ≤ bs.length ∧ r = bs.drop w :=
  ER.fixed_all.1 t w hw bs v r h

/-- for leaf types BufferEmptyError means exactly: no bytes remain where the value should start -/
theorem leaf_bufferEmpty_iff (t : Ty) (hl : IsLeaf t) (bs : Bytes) :
    decode t bs = .error .bufferEmpty ↔ bs = [] := by
  cases t <;> simp only [IsLeaf] at hl
  case bool =>
    rw [decode_bool_eq, bindD_err]
    simp [rd_err, ER.ret]
  case int k =>
    rw [decode_int_eq, decodeIntVal_eq, bindD_err, bindD_err]
    simp [intNat_bufferEmpty, ER.ret]
  case real =>
    rw [decode_real_eq, bindD_err]
    simp [intNat_bufferEmpty, ER.ret]
  case lreal =>
    rw [decode_lreal_eq, bindD_err]
    simp [intNat_bufferEmpty, ER.ret]
  case bits k =>
    rw [decode_bits_eq, decodeBits_eq, bindD_err]
    simp [intNat_bufferEmpty, ER.ret]
  case ipAddr =>
    rw [decode_ip_eq, decodeIp_eq, bindD_err]
    simp [rd_err, ER.ret]

/-- a successful decode of a tail-safe type does not depend on what follows the bytes it consumed -/
theorem decode_prefix_stable (t : Ty) (hs : TailSafe t) (p : Bytes) (v : PyVal) (r : Bytes)
    (h : decode t p = .ok (v, r)) (ext : Bytes) : decode t (p ++ ext) = .ok (v, r ++ ext) :=
  ER.stab_all.1 t hs p v r h ext


namespace ER

theorem canon_all : (∀ t v, Canon t v → TailSafe t ∧ Terminating t) ∧
    (∀ ms kvs, CanonMembers ms kvs → TailSafeMembers ms ∧ TerminatingMembers ms) ∧
    (∀ _ : TMembers, True) := by
  refine Ty.induct3 ?_ ?_ ?_ ?_ ?_ ?_ ?_ ?_
  · intro t h v hc
    cases t <;> simp only [NonRec] at h <;> simp only [TailSafe, Terminating, and_self]
    case nbytes n =>
      simp only [Canon] at hc
      obtain ⟨bs, _, hn, _⟩ := hc
      exact ⟨Int.le_of_lt hn, trivial⟩
  · intro len t ih v hc
    cases len with
    | all => simp [Canon] at hc
    | pref k => simp [Canon] at hc
    | fixed n =>
      cases n with
      | zero => simp only [TailSafe, Terminating, and_self]
      | succ n =>
        simp only [Canon] at hc
        obtain ⟨vs, _, hl, _, hx⟩ := hc
        cases vs with
        | nil => simp at hl
        | cons x xs =>
          simp only [TailSafe, Terminating]
          exact ih x (hx x (List.mem_cons_self ..))
  · intro ms ih v hc
    simp only [Canon] at hc
    obtain ⟨kvs, _, hk⟩ := hc
    simp only [TailSafe, Terminating]
    exact ih kvs hk
  · intro ms bits priv size _ v hc; simp [Canon] at hc
  · intro kvs _; simp only [TailSafeMembers, TerminatingMembers, and_self]
  · intro name t rest iht ihr kvs hc
    cases name with
    | none => simp [CanonMembers] at hc
    | some nm =>
      cases kvs with
      | nil => simp [CanonMembers] at hc
      | cons kv kvs =>
        obtain ⟨k, v⟩ := kv
        simp only [CanonMembers] at hc
        obtain ⟨_, _, _, hv, hr⟩ := hc
        simp only [TailSafeMembers, TerminatingMembers]
        exact ⟨⟨(iht v hv).1, (ihr kvs hr).1⟩, (iht v hv).2, (ihr kvs hr).2⟩
  · trivial
  · intros; trivial

end ER

theorem canon_tailSafe (t : Ty) (v : PyVal) (h : Canon t v) : TailSafe t :=
  (ER.canon_all.1 t v h).1

theorem canon_terminating (t : Ty) (v : PyVal) (h : Canon t v) : Terminating t :=
  (ER.canon_all.1 t v h).2

/-- every strict prefix of a valid encoding is rejected with DataError/BufferEmptyError -/
theorem decode_truncated (t : Ty) (v : PyVal) (h : Canon t v) (bs : Bytes) (he : encode t v = .ok bs)
    (p : Bytes) (hp : p <+: bs) (hne : p ≠ bs) :
    ∃ e, decode t p = .error e ∧ (e = .data ∨ e = .bufferEmpty) := by
  obtain ⟨bs', he', hd⟩ := decode_encode t v h
  rw [he] at he'; cases he'
  obtain ⟨ext, rfl⟩ := hp
  cases hdp : decode t p with
  | error e =>
    refine ⟨e, rfl, ?_⟩
    rcases decode_error_class t p e hdp with h1 | h1 | h1
    · exact Or.inl h1
    · exact Or.inr h1
    · subst h1; exact absurd hdp (decode_no_hang t (canon_terminating t v h) p)
  | ok x =>
    obtain ⟨v', r⟩ := x
    have h1 := decode_prefix_stable t (canon_tailSafe t v h) p v' r hdp ext
    have h2 := hd []
    rw [List.append_nil, h1] at h2
    simp only [Except.ok.injEq, Prod.mk.injEq, List.append_eq_nil_iff] at h2
    exact absurd (by rw [h2.2.2, List.append_nil]) hne

theorem out_of_range_rejected (k : IntK) (i : Int) (h : i < k.lo ∨ k.hi < i) :
    encode (.int k) (.int i) = .error .data := by
  unfold encode
  have : ¬ (k.lo ≤ i ∧ i ≤ k.hi) := by omega
  simp [packInt, PyVal.asIndex, this]

theorem wrong_type_rejected_int (k : IntK) (v : PyVal) (h : v.asIndex = none) :
    encode (.int k) v = .error .data := by
  unfold encode
  simp [packInt, h]

theorem too_few_rejected (n : Nat) (t : Ty) (vs : List PyVal) (h : vs.length < n) :
    encode (.arr (.fixed n) t) (.list vs) = .error .data := by
  unfold encode
  simp [PyVal.len?, h]

theorem wrong_bits_length_rejected (k : IntK) (vs : List PyVal) (h : vs.length ≠ 8 * k.size) :
    encode (.bits k) (.list vs) = .error .data := by
  unfold encode
  simp [encodeBits, PyVal.iter?, PyVal.seq?, h]

theorem unencodable_char_rejected (lenK : IntK) (enc : Enc) (cs : Name) (h : Text.encode enc cs = none) :
    encode (.str lenK enc) (.str cs) = .error .data := by
  unfold encode
  simp only [encodeStr, h]
  cases hp : packInt lenK (.int cs.length) with
  | error e => rw [ER.packInt_ee _ _ e hp]; rfl
  | ok l => rfl

theorem latin1_unencodable (cs : Name) (c : Nat) (hc : c ∈ cs) (h : 256 ≤ c) : Text.encode .latin1 cs = none := by
  induction cs with
  | nil => cases hc
  | cons x xs ih =>
    rw [Text.encode]
    rcases List.mem_cons.1 hc with rfl | hx
    · have : ¬ c < 256 := by omega
      simp [Text.encChar, this]
    · rw [ih hx]
      cases Text.encChar .latin1 x <;> rfl

theorem non_str_rejected (lenK : IntK) (enc : Enc) (v : PyVal) (h : ∀ cs, v ≠ .str cs) :
    encode (.str lenK enc) v = .error .data := by
  unfold encode
  cases v <;> simp only [encodeStr]
  case str cs => exact absurd rfl (h cs)

end Pycomm
