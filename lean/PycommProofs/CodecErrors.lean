/-
  Proofs for C08 (codec failures are DataError: never foreign, silent or non-terminating).
  Statements are restated in PycommProps/C08.lean.
-/
import PycommProofs.CodecRoundTrip
namespace Pycomm

/- no unbounded array / rest-of-buffer placeholder anywhere inside -/
mutual
def TailSafe : Ty → Prop
  | .nbytes n => 0 ≤ n
  | .arr .all _ => False
  | .arr _ t => TailSafe t
  | .struct ms => TailSafeMembers ms
  | .structTag ms _ _ _ => TailSafeT ms
  | _ => True
def TailSafeMembers : Members → Prop
  | .nil => True
  | .cons _ t rest => TailSafe t ∧ TailSafeMembers rest
def TailSafeT : TMembers → Prop
  | .nil => True
  | .cons _ t _ rest => TailSafe t ∧ TailSafeT rest
end

/- every array that loops on the buffer (unbounded or counted from the wire) has elements that consume bytes -/
mutual
def Terminating : Ty → Prop
  | .arr .all t => PosWidth t ∧ Terminating t
  | .arr (.pref _) t => PosWidth t ∧ Terminating t
  | .arr (.fixed _) t => Terminating t
  | .struct ms => TerminatingMembers ms
  | .structTag ms _ _ _ => TerminatingT ms
  | _ => True
def TerminatingMembers : Members → Prop
  | .nil => True
  | .cons _ t rest => Terminating t ∧ TerminatingMembers rest
def TerminatingT : TMembers → Prop
  | .nil => True
  | .cons _ t _ rest => Terminating t ∧ TerminatingT rest
end

/-- whatever the value, a failing encode is a DataError (no other exception class exists in the outcome) -/
theorem encode_error_is_data (t : Ty) (v : PyVal) (e : Exn) (h : encode t v = .error e) : e = .data := by
  sorry

/-- whatever the bytes, a failing decode is DataError or BufferEmptyError (or the fuel marker) -/
theorem decode_error_class (t : Ty) (bs : Bytes) (e : Exn) (h : decode t bs = .error e) :
    e = .data ∨ e = .bufferEmpty ∨ e = .hang := by
  sorry

/-- what decode leaves is a suffix of what it was given -/
theorem decode_suffix (t : Ty) (bs : Bytes) (v : PyVal) (r : Bytes) (h : decode t bs = .ok (v, r)) :
    ∃ used, bs = used ++ r := by
  sorry

theorem decode_progress (t : Ty) (hw : PosWidth t) (bs : Bytes) (v : PyVal) (r : Bytes)
    (h : decode t bs = .ok (v, r)) : r.length < bs.length := by
  sorry

/-- termination: the fuel of the unbounded-array loop is never the reason to stop -/
theorem decode_no_hang (t : Ty) (ht : Terminating t) (bs : Bytes) : decode t bs ≠ .error .hang := by
  sorry

/-- no fixed-width value is produced from fewer bytes than its width, and exactly the width is consumed -/
theorem fixed_width_needs_width (t : Ty) (w : Nat) (hw : fixedWidth t = some w) (bs : Bytes) (v : PyVal) (r : Bytes)
    (h : decode t bs = .ok (v, r)) : w ≤ bs.length ∧ r = bs.drop w := by
  sorry

/-- for leaf types BufferEmptyError means exactly: no bytes remain where the value should start -/
theorem leaf_bufferEmpty_iff (t : Ty) (hl : IsLeaf t) (bs : Bytes) :
    decode t bs = .error .bufferEmpty ↔ bs = [] := by
  sorry

/-- a successful decode of a tail-safe type does not depend on what follows the bytes it consumed -/
theorem decode_prefix_stable (t : Ty) (hs : TailSafe t) (p : Bytes) (v : PyVal) (r : Bytes)
    (h : decode t p = .ok (v, r)) (ext : Bytes) : decode t (p ++ ext) = .ok (v, r ++ ext) := by
  sorry

theorem canon_tailSafe (t : Ty) (v : PyVal) (h : Canon t v) : TailSafe t := by
  sorry

/-- every strict prefix of a valid encoding is rejected with DataError/BufferEmptyError -/
theorem decode_truncated (t : Ty) (v : PyVal) (h : Canon t v) (bs : Bytes) (he : encode t v = .ok bs)
    (p : Bytes) (hp : p <+: bs) (hne : p ≠ bs) :
    ∃ e, decode t p = .error e ∧ (e = .data ∨ e = .bufferEmpty) := by
  sorry

theorem out_of_range_rejected (k : IntK) (i : Int) (h : i < k.lo ∨ k.hi < i) :
    encode (.int k) (.int i) = .error .data := by
  sorry

theorem wrong_type_rejected_int (k : IntK) (v : PyVal) (h : v.asIndex = none) :
    encode (.int k) v = .error .data := by
  sorry

theorem too_few_rejected (n : Nat) (t : Ty) (vs : List PyVal) (h : vs.length < n) :
    encode (.arr (.fixed n) t) (.list vs) = .error .data := by
  sorry

theorem wrong_bits_length_rejected (k : IntK) (vs : List PyVal) (h : vs.length ≠ 8 * k.size) :
    encode (.bits k) (.list vs) = .error .data := by
  sorry

theorem unencodable_char_rejected (lenK : IntK) (enc : Enc) (cs : Name) (h : Text.encode enc cs = none) :
    encode (.str lenK enc) (.str cs) = .error .data := by
  sorry

theorem latin1_unencodable (cs : Name) (c : Nat) (hc : c ∈ cs) (h : 256 ≤ c) : Text.encode .latin1 cs = none := by
  sorry

theorem non_str_rejected (lenK : IntK) (enc : Enc) (v : PyVal) (h : ∀ cs, v ≠ .str cs) :
    encode (.str lenK enc) v = .error .data := by
  sorry

end Pycomm
