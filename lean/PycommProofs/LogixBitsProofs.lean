/-
  Proofs for the Logix bit-level kernels (C01, C02, C03, C05): read-modify-write masks, BOOL-array windows,
  symbol type words, multi-service packing.
-/
import PycommModel.Logix.Kernels
import PycommProofs.LBBasic
import PycommProofs.LBMulti
namespace Pycomm.Lgx.K
open Pycomm.LB

/-- the value the last write to bit i asks for, if any -/
def lastOp (ops : List (Nat × Bool)) (i : Nat) : Option Bool :=
  (ops.reverse.find? (fun o => o.1 == i)).map (·.2)


/-! ### helper lemmas: the mask invariant -/

/-- invariant of the mask construction: below bit 64, the OR mask has exactly the bits last written true and
    the AND mask lacks exactly the bits last written false -/
def Good (ops : List (Nat × Bool)) (m : Masks) : Prop :=
  ∀ i, i < 64 → (m.orM.testBit i = (lastOp ops i == some true)) ∧ (m.andM.testBit i = !(lastOp ops i == some false))

theorem lastOp_snoc (ops : List (Nat × Bool)) (b : Nat) (v : Bool) (i : Nat) :
    lastOp (ops ++ [(b, v)]) i = if b = i then some v else lastOp ops i := by
  unfold lastOp
  by_cases h : b = i <;> simp [List.reverse_append, h]

theorem ones64_testBit (i : Nat) : ones64.testBit i = decide (i < 64) := allOnes_testBit 64 i

theorem good_init : Good [] initMasks := by
  intro i hi
  simp [lastOp, initMasks, ones64_testBit, hi]

theorem setBit_good (ops : List (Nat × Bool)) (m : Masks) (b : Nat) (v : Bool) (h : Good ops m) :
    Good (ops ++ [(b, v)]) (setBit m b v) := by
  intro i hi
  obtain ⟨h1, h2⟩ := h i hi
  rw [lastOp_snoc]
  by_cases hbi : b = i
  · subst hbi
    cases v <;>
      simp only [setBit, Bool.false_eq_true, ↓reduceIte, Nat.testBit_or, Nat.testBit_and, Nat.testBit_xor, ones64_testBit, one_shl_testBit] <;>
      simp [hi]
  · have hib : ¬ i = b := fun e => hbi e.symm
    cases v <;>
      simp only [setBit, Bool.false_eq_true, ↓reduceIte, Nat.testBit_or, Nat.testBit_and, Nat.testBit_xor, ones64_testBit, one_shl_testBit] <;>
      simp [hi, hbi, hib, h1, h2]

theorem foldl_good (ops pre : List (Nat × Bool)) (m : Masks) (h : Good pre m) :
    Good (pre ++ ops) (ops.foldl (fun m o => setBit m o.1 o.2) m) := by
  induction ops generalizing pre m with
  | nil => simpa using h
  | cons o ops ih =>
    have := ih (pre ++ [(o.1, o.2)]) (setBit m o.1 o.2) (setBit_good pre m o.1 o.2 h)
    simpa using this

theorem applyOps_good (ops : List (Nat × Bool)) : Good ops (applyOps ops) := by
  have := foldl_good ops [] initMasks good_init
  simpa [applyOps] using this

theorem rmw_testBit (w old : Nat) (m : Masks) (hw : w ≤ 8) (i : Nat) (hi : i < 8 * w) :
    (rmwResult w old m).testBit i = ((old.testBit i || m.orM.testBit i) && m.andM.testBit i) := by
  simp [rmwResult, leVal_maskBytes _ _ hw, Nat.testBit_and, Nat.testBit_or, Nat.testBit_mod_two_pow, hi]

-- PROPERTY THEOREMS

/-- both masks have exactly the announced size -/
theorem mask_bytes_size (w m : Nat) (hw : w ≤ 8) : (maskBytes w m).length = w := by
  simp [maskBytes, EN.leBytes_length]; omega

/-- Read-modify-write law: for an integer of w ∈ {1,2,4,8} bytes and any list of bit writes inside it, the
    controller's result has, in every bit, the last value written to that bit if any, else the old bit:
    a bit write changes only the addressed bit, several bits of one word merge, the last duplicate wins. -/
theorem rmw_law (w : Nat) (hw : w = 1 ∨ w = 2 ∨ w = 4 ∨ w = 8) (ops : List (Nat × Bool))
    (hb : ∀ o ∈ ops, o.1 < 8 * w) (old : Nat) (ho : old < 2 ^ (8 * w)) (i : Nat) (hi : i < 8 * w) :
    (rmwResult w old (applyOps ops)).testBit i =
      match lastOp ops i with
      | some v => v
      | none => old.testBit i := by
  have _ := hb; have _ := ho
  have hw8 : w ≤ 8 := by omega
  have hg := applyOps_good ops
  obtain ⟨h1, h2⟩ := hg i (by omega)
  rw [rmw_testBit w old _ hw8 i hi, h1, h2]
  cases hl : lastOp ops i with
  | none => simp
  | some v => cases v <;> simp

/-- and nothing above the integer's width is produced -/
theorem rmw_in_range (w : Nat) (hw : w = 1 ∨ w = 2 ∨ w = 4 ∨ w = 8) (ops : List (Nat × Bool)) (old : Nat)
    (ho : old < 2 ^ (8 * w)) : rmwResult w old (applyOps ops) < 2 ^ (8 * w) := by
  have _ := ho
  have hw8 : w ≤ 8 := by omega
  unfold rmwResult
  apply Nat.and_lt_two_pow
  rw [leVal_maskBytes _ _ hw8]
  exact Nat.mod_lt _ (Nat.two_pow_pos _)

/-- BOOL arrays: index arithmetic -/
theorem bool_index (idx : Nat) : idx = 32 * (idx / 32) + idx % 32 ∧ idx % 32 < 32 := by
  omega

/-- a read of bits [idx, idx+n) asks for exactly enough DWORDs from the start of the array to contain the range,
    and not one more -/
theorem bool_read_window (idx n : Nat) (hn : 0 < n) :
    let e := (boolWindow false idx n).2.2
    idx + n ≤ 32 * e ∧ 32 * (e - 1) < idx + n ∧ (boolWindow false idx n).1 = 0 := by
  simp only [boolWindow, Bool.false_eq_true, if_false]
  split <;> refine ⟨?_, ?_, trivial⟩ <;> omega

/-- the requested bits are the slice [idx, idx+n) of the bits of those DWORDs -/
theorem bool_read_slice (ws : List Nat) (idx n : Nat) (h : idx + n ≤ 32 * ws.length) (j : Nat) (hj : j < n) :
    (((dwordBits ws).drop idx).take n).getD j false = (ws.getD ((idx + j) / 32) 0).testBit ((idx + j) % 32) := by
  have _ := h
  rw [List.getD_eq_getElem?_getD, List.getElem?_take, if_pos hj, List.getElem?_drop, dwordBits_getElem?]

/-- an aligned write (idx and n multiples of 32) addresses DWORD idx/32 and writes exactly n/32 DWORDs -/
theorem bool_write_aligned (idx n : Nat) (hi : idx % 32 = 0) (hn : n % 32 = 0) (hpos : 0 < n) :
    (boolWindow true idx n).1 = idx / 32 ∧ writeElements idx n = n / 32 := by
  simp only [writeElements, boolWindow, if_true]
  have : (idx + n) % 32 = 0 := by omega
  rw [if_pos this]
  exact ⟨trivial, by omega⟩

/-- symbol type word: structure flag, dimension count, template id / atomic code and BOOL bit position are
    recovered from a word assembled from them -/
theorem typeword_struct (dims tid : Nat) (hd : dims < 4) (ht : tid < 4096) :
    decodeTypeWord (32768 + 8192 * dims + tid) =
      { isStruct := true, dims := dims, templateId := tid, atomicCode := tid % 256, boolBit := tid / 256 % 8 } := by
  simp only [decodeTypeWord]
  congr 1
  · simp; omega
  · omega
  · omega
  · omega
  · omega

theorem typeword_atomic (dims code bit : Nat) (hd : dims < 4) (hc : code < 256) (hb : bit < 8) :
    let t := decodeTypeWord (8192 * dims + 256 * bit + code)
    t.isStruct = false ∧ t.dims = dims ∧ t.atomicCode = code ∧ t.boolBit = bit := by
  simp only [decodeTypeWord]
  refine ⟨?_, ?_, ?_, ?_⟩
  · simp; omega
  · omega
  · omega
  · omega

theorem alias_flag (sc : Nat) : isAlias sc = true ↔ ¬ (sc / 2 ^ 26 % 2 = 1) := by
  simp only [isAlias, decide_eq_true_eq]
  omega

/-- multi-service: what the client packs is unpacked by the reference target into exactly the embedded
    messages (count, offset table from the count field, messages back to back) -/
theorem target_unpacks_packed (msgs : List Bytes) (hne : msgs ≠ []) (hm : ∀ m ∈ msgs, m ≠ [])
    (hsz : 2 + 2 * msgs.length + (msgs.map (·.length)).foldl (· + ·) 0 < 65536) :
    parseMulti (packMulti msgs) = some msgs := by
  rw [offOf_total] at hsz
  have hn : msgs.length < 65536 := by unfold offOf at hsz; omega
  have hpos : 0 < msgs.length := List.length_pos_iff.mpr hne
  have hlen := packMulti_length msgs
  have hge : 2 + 2 * msgs.length ≤ offOf msgs msgs.length := by unfold offOf; omega
  unfold parseMulti
  simp only [Tgt.leAt, List.drop_zero]
  rw [packMulti_count msgs hn, packMulti_offs msgs hsz, hlen, ends_eq _ _ hpos, List.zip_map']
  rw [if_neg (by omega), if_neg (by omega), if_neg (by omega)]
  have h0 : ((List.range msgs.length).map (offOf msgs)).headD 0 = 2 + 2 * msgs.length := by
    cases hmm : msgs with
    | nil => exact absurd hmm hne
    | cons m ms => simp [List.range_succ_eq_map, offOf, psum]
  rw [if_neg (by rw [h0]; simp)]
  have hany : ((List.range msgs.length).map fun i => (offOf msgs i, offOf msgs (i + 1))).any
      (fun p => decide (p.1 ≥ p.2)) = false := by
    rw [List.any_eq_false]
    intro p hp
    simp only [List.mem_map, List.mem_range] at hp
    obtain ⟨i, hi, rfl⟩ := hp
    have := hm msgs[i] (by simp)
    have : 0 < msgs[i].length := List.length_pos_iff.mpr this
    rw [offOf_succ msgs i hi]
    simp; omega
  rw [hany]
  simp only [Bool.false_eq_true, if_false, List.map_map, Option.some.injEq]
  apply List.ext_getElem
  · simp
  · intro i h1 h2
    simp only [List.getElem_map, List.getElem_range, Function.comp]
    rw [offOf_succ msgs i h2, Nat.add_sub_cancel_left, packMulti_seg msgs i h2]

/-- and the client splits a reply laid out the same way into exactly the per-request replies, the i-th reply
    answering the i-th request -/
theorem client_unpacks_packed (reps : List Bytes) (hne : reps ≠ [])
    (hsz : 2 + 2 * reps.length + (reps.map (·.length)).foldl (· + ·) 0 < 65536) :
    unpackMulti (packMulti reps) = reps := by
  have _ := hne
  rw [offOf_total] at hsz
  have hn : reps.length < 65536 := by unfold offOf at hsz; omega
  unfold unpackMulti
  simp only []
  have hlen := packMulti_length reps
  have hge : 2 + 2 * reps.length ≤ offOf reps reps.length := by unfold offOf; omega
  have htbl : min (2 * leVal ((packMulti reps).take 2)) ((packMulti reps).length - 2) = 2 * reps.length := by
    rw [packMulti_count reps hn, hlen]; omega
  rw [htbl, if_neg (by omega), Nat.mul_div_cancel_left _ (by omega : 0 < 2)]
  rw [packMulti_offs reps hsz]
  apply List.ext_getElem
  · simp
  · intro i h1 h2
    simp only [List.getElem_map, List.getElem_range, List.length_map, List.length_range]
    have ho : ((List.range reps.length).map (offOf reps)).getD i 0 = offOf reps i := by
      simp [List.getD_eq_getElem?_getD, h2]
    rw [ho]
    by_cases hl : i + 1 < reps.length
    · have he : (((List.range reps.length).map (offOf reps)).drop 1)[i]? = some (offOf reps (i + 1)) := by
        simp [hl]
      rw [he]
      simp only []
      rw [List.drop_take, offOf_succ reps i h2, Nat.add_sub_cancel_left, packMulti_seg reps i h2]
    · have he : (((List.range reps.length).map (offOf reps)).drop 1)[i]? = none := by
        simp; omega
      rw [he]
      exact packMulti_last reps i (by omega)

end Pycomm.Lgx.K
