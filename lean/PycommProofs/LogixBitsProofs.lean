/-
  Proofs for the Logix bit-level kernels (C01, C02, C03, C05): read-modify-write masks, BOOL-array windows,
  symbol type words, multi-service packing.
-/
import PycommModel.Logix.Kernels
namespace Pycomm.Lgx.K

/-- the value the last write to bit i asks for, if any -/
def lastOp (ops : List (Nat × Bool)) (i : Nat) : Option Bool :=
  (ops.reverse.find? (fun o => o.1 == i)).map (·.2)

-- PROPERTY THEOREMS

/-- both masks have exactly the announced size -/
theorem mask_bytes_size (w m : Nat) (hw : w ≤ 8) : (maskBytes w m).length = w := by
  sorry

/-- Read-modify-write law: for an integer of w ∈ {1,2,4,8} bytes and any list of bit writes inside it, the
    controller's result has, in every bit, the last value written to that bit if any, else the old bit:
    a bit write changes only the addressed bit, several bits of one word merge, the last duplicate wins. -/
theorem rmw_law (w : Nat) (hw : w = 1 ∨ w = 2 ∨ w = 4 ∨ w = 8) (ops : List (Nat × Bool))
    (hb : ∀ o ∈ ops, o.1 < 8 * w) (old : Nat) (ho : old < 2 ^ (8 * w)) (i : Nat) (hi : i < 8 * w) :
    (rmwResult w old (applyOps ops)).testBit i =
      match lastOp ops i with
      | some v => v
      | none => old.testBit i := by
  sorry

/-- and nothing above the integer's width is produced -/
theorem rmw_in_range (w : Nat) (hw : w = 1 ∨ w = 2 ∨ w = 4 ∨ w = 8) (ops : List (Nat × Bool)) (old : Nat)
    (ho : old < 2 ^ (8 * w)) : rmwResult w old (applyOps ops) < 2 ^ (8 * w) := by
  sorry

/-- BOOL arrays: index arithmetic -/
theorem bool_index (idx : Nat) : idx = 32 * (idx / 32) + idx % 32 ∧ idx % 32 < 32 := by
  sorry

/-- a read of bits [idx, idx+n) asks for exactly enough DWORDs from the start of the array to contain the range,
    and not one more -/
theorem bool_read_window (idx n : Nat) (hn : 0 < n) :
    let e := (boolWindow false idx n).2.2
    idx + n ≤ 32 * e ∧ 32 * (e - 1) < idx + n ∧ (boolWindow false idx n).1 = 0 := by
  sorry

/-- the requested bits are the slice [idx, idx+n) of the bits of those DWORDs -/
theorem bool_read_slice (ws : List Nat) (idx n : Nat) (h : idx + n ≤ 32 * ws.length) (j : Nat) (hj : j < n) :
    (((dwordBits ws).drop idx).take n).getD j false = (ws.getD ((idx + j) / 32) 0).testBit ((idx + j) % 32) := by
  sorry

/-- an aligned write (idx and n multiples of 32) addresses DWORD idx/32 and writes exactly n/32 DWORDs -/
theorem bool_write_aligned (idx n : Nat) (hi : idx % 32 = 0) (hn : n % 32 = 0) (hpos : 0 < n) :
    (boolWindow true idx n).1 = idx / 32 ∧ writeElements idx n = n / 32 := by
  sorry

/-- symbol type word: structure flag, dimension count, template id / atomic code and BOOL bit position are
    recovered from a word assembled from them -/
theorem typeword_struct (dims tid : Nat) (hd : dims < 4) (ht : tid < 4096) :
    decodeTypeWord (32768 + 8192 * dims + tid) =
      { isStruct := true, dims := dims, templateId := tid, atomicCode := tid % 256, boolBit := tid / 256 % 8 } := by
  sorry

theorem typeword_atomic (dims code bit : Nat) (hd : dims < 4) (hc : code < 256) (hb : bit < 8) :
    let t := decodeTypeWord (8192 * dims + 256 * bit + code)
    t.isStruct = false ∧ t.dims = dims ∧ t.atomicCode = code ∧ t.boolBit = bit := by
  sorry

theorem alias_flag (sc : Nat) : isAlias sc = true ↔ ¬ (sc / 2 ^ 26 % 2 = 1) := by
  sorry

/-- multi-service: what the client packs is unpacked by the reference target into exactly the embedded
    messages (count, offset table from the count field, messages back to back) -/
theorem target_unpacks_packed (msgs : List Bytes) (hne : msgs ≠ []) (hm : ∀ m ∈ msgs, m ≠ [])
    (hsz : 2 + 2 * msgs.length + (msgs.map (·.length)).foldl (· + ·) 0 < 65536) :
    parseMulti (packMulti msgs) = some msgs := by
  sorry

/-- and the client splits a reply laid out the same way into exactly the per-request replies, the i-th reply
    answering the i-th request -/
theorem client_unpacks_packed (reps : List Bytes) (hne : reps ≠ [])
    (hsz : 2 + 2 * reps.length + (reps.map (·.length)).foldl (· + ·) 0 < 65536) :
    unpackMulti (packMulti reps) = reps := by
  sorry

end Pycomm.Lgx.K
