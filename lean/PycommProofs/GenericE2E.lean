/-
  C14, end to end at the client-model level: `genericMessage` → encapsulation frame → `handle` → `execMR` → object →
  reply frame → response class → Tag, on the three transports (connected, direct UCMM, Unconnected Send), with and
  without a data type, and set_plc_time / get_plc_time on top.

  Reading guide.
  * `gme_Session w sess` / `gme_Healthy w sess cidb conn` (GMe2eTarget): the driver holds a registered session (and an
    open class-3 connection), no transport faults, nothing pending. `ldr_Healthy` of the Logix proofs is `gme_Healthy`
    at the harness's extension state (`gme_of_ldr_Healthy`).
  * `gme_Id v n`: the class/instance/attribute argument `v` (an int < 2^32, or 1/2/4 little-endian bytes) denotes `n`;
    `gme_AttrId`: the attribute is absent (`b''` or 0) or an id.  `gme_wantPath c i oa` = [class c, instance i(, attribute)].
  * `gme_dispatch hook t session connSize connected req` (GMe2eTarget): the object that answers a parsed request in
    target state `t` — connection manager, base objects, hook, or the configurable generic object; `gme_execMR_eq`:
    `execMR` on any message that parses as `req` logs `.mr connected viaUcs req route` and returns
    `((gme_dispatch …).1, encMRReply req.service (gme_dispatch …).2)`.
  * `gme_connIn` / `gme_rrIn` (GMe2eCore): the target state in which the object is invoked — the transport's
    bookkeeping, then the message-router log entry `.mr …` at the head of the log.
  * `gme_payload r` = extended status words ++ data of a message-router reply; `gme_accepted tr svc st`: status 0, or 6
    on a connected reply to a multi-packet service.
-/
import PycommProofs.GMe2eBridge
import PycommProofs.LogixDriverRead
namespace Pycomm.Cli
open Pycomm.Tgt Pycomm.Encap Pycomm.Path Pycomm.Reply Pycomm.EN Pycomm.EP

-- PROPERTY THEOREMS

/-- (1) `generic_message(connected=True)` without a data type, on a healthy connection, for ANY object (any hook).
    Hypotheses: the world is healthy; the service code is a byte; class/instance/attribute are ids; the request fits
    the connection (`data + 22 ≤ size`: service, ≤ 19 path bytes, sequence count).
    Conclusion: exactly one frame is written — a SendUnitData of the session on the driver's connection with the next
    sequence count whose message the target's strict parser reads as exactly
    `MRReq { service, path := [class, instance(, attribute)], data }`; `execMR` on that message logs
    `.mr true false req []` and answers with `gme_dispatch`'s reply; the returned Tag carries the reply bytes unchanged;
    it has no error and is truthy when the status is accepted, and carries the status text (possibly followed by the
    extended status) and is falsy otherwise. -/
theorem generic_connected_e2e {σ} (hook : ObjHook σ) (w : World σ) (sess : Nat) (cidb : Bytes) (conn : Conn)
    (a : GenArgs) (c i : Nat) (oa : Option Nat)
    (hw : gme_Healthy w sess cidb conn) (hconn : a.connected = true) (hdt : a.dataType = none) (hsvc : a.service < 256)
    (hcls : gme_Id a.cls c) (hinst : gme_Id a.inst i) (hattr : gme_AttrId a.attr oa)
    (hfit : a.data.length + 22 ≤ conn.size) (hbig : a.data.length ≤ 65000) :
    let req : MRReq := { service := a.service, path := gme_wantPath c i oa, data := a.data }
    let seq := w.drv.nextSeq.1
    let tIn := gme_connIn w.net.target sess (leVal cidb) seq conn req
    let out := gme_dispatch hook tIn sess (some (conn.size - 2)) true req
    ∃ w' frm tag,
      genericMessage hook FUEL w a = (w', .ok tag) ∧
      w'.net.sent = w.net.sent ++ [frm] ∧ w'.drv = w.drv.nextSeq.2 ∧
      (∃ f msg, parseFrame frm = some f ∧ f.command = CMD_SEND_UNIT ∧ f.session = sess ∧
        parseCpf f.body = some (.connected (leVal cidb) seq msg) ∧ parseMR msg = some req ∧
        execMR hook { w.net.target with base := ldr_unitBase w.net.target.base sess (leVal cidb) seq conn } sess
          (some (conn.size - 2)) true false [] msg = (out.1, encMRReply a.service out.2)) ∧
      tIn.base.log = .mr true false req [] :: (ldr_unitBase w.net.target.base sess (leVal cidb) seq conn).log ∧
      w'.net.target = ldr_unitAfter out.1 conn (encMRReply a.service out.2) ∧
      tag.name = a.name ∧ tag.value = .bytes (gme_payload out.2) ∧
      (gme_accepted .connected a.service (out.2.status % 256) = true → tag.error = none ∧ tag.truthy = true) ∧
      (gme_accepted .connected a.service (out.2.status % 256) = false →
        (∃ suffix, tag.error = some (.text (serviceStatusTextI ((out.2.status % 256 : Nat) : Int) ++ suffix))) ∧
        tag.truthy = false) := by
  intro req seq tIn out
  obtain ⟨frm, f, rp, value, err, hrp, hf, hcmd, hfs, hcpf, hpm, hgm, htag⟩ :=
    gme_connected_core hook w sess cidb conn a c i oa hw hconn hsvc hcls hinst hattr hfit hbig
  rw [hdt] at htag
  obtain ⟨hv, hok, hbad⟩ := gme_tag_untyped _ _ _ a.name _ _ htag
  refine ⟨_, frm, _, hgm, rfl, rfl, ⟨f, _, hf, hcmd, hfs, hcpf, hpm, ?_⟩, rfl, rfl, rfl, hv, hok, hbad⟩
  exact gme_execMR_eq hook _ sess (some (conn.size - 2)) true false [] _ _ hpm

/-- (1') … for an object that neither the connection manager nor the base target nor the hook implements: the
    configurable generic object `g = base.generic` answers. The request is in the target's log afterwards, the reply
    `g.ext ++ g.data` is the Tag's value, status `g.status` decides error/truthiness, nothing but the log and the
    connection's sequence count changes, and the world is healthy again (so calls can be chained). -/
theorem generic_connected_generic_object_e2e {σ} (hook : ObjHook σ) (w : World σ) (sess : Nat) (cidb : Bytes) (conn : Conn)
    (a : GenArgs) (c i : Nat) (oa : Option Nat)
    (hw : gme_Healthy w sess cidb conn) (hconn : a.connected = true) (hdt : a.dataType = none) (hsvc : a.service < 256)
    (hcls : gme_Id a.cls c) (hinst : gme_Id a.inst i) (hattr : gme_AttrId a.attr oa)
    (hfit : a.data.length + 22 ≤ conn.size) (hbig : a.data.length ≤ 65000)
    (hcm : classInst (gme_wantPath c i oa) ≠ some (0x06, 1, []))
    (hbase : ∀ b, baseObject b { service := a.service, path := gme_wantPath c i oa, data := a.data } = none)
    (hhook : ∀ t cs, hook t cs { service := a.service, path := gme_wantPath c i oa, data := a.data } = none) :
    let req : MRReq := { service := a.service, path := gme_wantPath c i oa, data := a.data }
    let g := w.net.target.base.generic
    ∃ w' frm tag,
      genericMessage hook FUEL w a = (w', .ok tag) ∧
      w'.net.sent = w.net.sent ++ [frm] ∧ w'.drv = w.drv.nextSeq.2 ∧
      Event.mr true false req [] ∈ w'.net.target.base.log ∧
      w'.net.target.ext = w.net.target.ext ∧
      gme_Healthy w' sess cidb { conn with lastSeq := some w.drv.nextSeq.1 } ∧
      tag.name = a.name ∧ tag.value = .bytes ((g.ext.map (le 2)).flatten ++ g.data) ∧
      (gme_accepted .connected a.service (g.status % 256) = true → tag.error = none ∧ tag.truthy = true) ∧
      (gme_accepted .connected a.service (g.status % 256) = false →
        (∃ suffix, tag.error = some (.text (serviceStatusTextI ((g.status % 256 : Nat) : Int) ++ suffix))) ∧
        tag.truthy = false) := by
  intro req g
  obtain ⟨w', frm, tag, hgm, hsent, hdrv, _, hlog, htgt, hname, hval, hok, hbad⟩ :=
    generic_connected_e2e hook w sess cidb conn a c i oa hw hconn hdt hsvc hcls hinst hattr hfit hbig
  have hd := gme_dispatch_generic hook
    (gme_connIn w.net.target sess (leVal cidb) w.drv.nextSeq.1 conn req) sess (some (conn.size - 2)) true req
    hcm (hbase _) (hhook _ _)
  have hg : (gme_connIn w.net.target sess (leVal cidb) w.drv.nextSeq.1 conn req).base.generic = g := by
    show (ldr_unitBase w.net.target.base sess (leVal cidb) w.drv.nextSeq.1 conn).generic = _
    rw [gme_unitBase_generic]
  rw [hg] at hd
  rw [hd] at htgt hval hok hbad
  have hw'eq : w' = gme_after w w.drv.nextSeq.2 frm w'.net.target := by
    have h1 := gme_connected_core hook w sess cidb conn a c i oa hw hconn hsvc hcls hinst hattr hfit hbig
    obtain ⟨frm2, f, rp, value, err, _, _, _, _, _, _, hgm2, _⟩ := h1
    rw [hgm] at hgm2
    have hw2 := congrArg Prod.fst hgm2
    dsimp only at hw2
    have hs2 : w'.net.sent = w.net.sent ++ [frm2] := by rw [hw2]; rfl
    rw [hsent] at hs2
    have hfrm : frm = frm2 := by simpa using hs2
    subst hfrm
    rw [hw2]
    rfl
  refine ⟨w', frm, tag, hgm, hsent, hdrv, ?_, ?_, ?_, hname, hval, hok, hbad⟩
  · rw [htgt]
    apply gme_unitAfter_log
    rw [hlog]
    exact List.mem_cons_self
  · rw [htgt, ldr_unitAfter_ext]
    rfl
  · rw [hw'eq, htgt]
    exact gme_Healthy_after hw frm w.drv.nextSeq.1 req _ _ rfl rfl

/-- (2) `generic_message(connected=False, unconnected_send=False, route_path=False)`, direct UCMM, without a data type,
    on a registered session (no Forward Open needed), for ANY object.
    Extra hypothesis: the request is not itself an Unconnected Send (service 0x52 to class 6 instance 1), which the
    target would unwrap.
    Conclusion: exactly one frame — a SendRRData of the session whose unconnected data item is the request, read by
    the target's strict parser as exactly `MRReq { service, path, data }`; `execMR` logs `.mr false false req []`; the Tag
    carries the reply bytes; error/truthiness by the status (only status 0 is accepted on this transport). -/
theorem generic_unconnected_e2e {σ} (hook : ObjHook σ) (w : World σ) (sess : Nat) (a : GenArgs) (c i : Nat) (oa : Option Nat)
    (hw : gme_Session w sess) (hconn : a.connected = false) (hu : a.unconnectedSend = false) (hroute : a.route = .off)
    (hdt : a.dataType = none) (hsvc : a.service < 256)
    (hcls : gme_Id a.cls c) (hinst : gme_Id a.inst i) (hattr : gme_AttrId a.attr oa)
    (hnot : ¬ (a.service = 0x52 ∧ c = 6 ∧ i = 1 ∧ oa = none)) (hbig : a.data.length ≤ 65000) :
    let req : MRReq := { service := a.service, path := gme_wantPath c i oa, data := a.data }
    let tIn := gme_rrIn w.net.target sess false req []
    let out := gme_dispatch hook tIn sess none false req
    ∃ w' frm tag,
      genericMessage hook FUEL w a = (w', .ok tag) ∧
      w'.net.sent = w.net.sent ++ [frm] ∧ w'.drv = w.drv ∧
      (∃ f msg, parseFrame frm = some f ∧ f.command = CMD_SEND_RR ∧ f.session = sess ∧
        parseCpf f.body = some (.unconnected msg) ∧ parseMR msg = some req ∧
        execMR hook { w.net.target with base := w.net.target.base.event (.encap CMD_SEND_RR sess true) } sess
          none false false [] msg = (out.1, encMRReply a.service out.2)) ∧
      tIn.base.log = .mr false false req [] :: .encap CMD_SEND_RR sess true :: w.net.target.base.log ∧
      w'.net.target = out.1 ∧
      tag.name = a.name ∧ tag.value = .bytes (gme_payload out.2) ∧
      (out.2.status % 256 = 0 → tag.error = none ∧ tag.truthy = true) ∧
      (out.2.status % 256 ≠ 0 →
        (∃ suffix, tag.error = some (.text (serviceStatusTextI ((out.2.status % 256 : Nat) : Int) ++ suffix))) ∧
        tag.truthy = false) := by
  intro req tIn out
  obtain ⟨frm, f, rp, value, err, hrp, hf, hcmd, hfs, hcpf, hpm, hgm, htag⟩ :=
    gme_direct_core hook w sess a c i oa hw hconn hu hroute hsvc hcls hinst hattr hnot hbig
  rw [hdt] at htag
  obtain ⟨hv, hok, hbad⟩ := gme_tag_untyped _ _ _ a.name _ _ htag
  rw [gme_accepted_unconnected] at hok hbad
  refine ⟨_, frm, _, hgm, rfl, rfl, ⟨f, _, hf, hcmd, hfs, hcpf, hpm, ?_⟩, rfl, rfl, rfl, hv, ?_, ?_⟩
  · exact gme_execMR_eq hook _ sess none false false [] _ _ hpm
  · intro h0; exact hok (beq_iff_eq.2 h0)
  · intro h0; exact hbad (beq_eq_false_iff_ne.2 h0)

/-- (3) `generic_message(connected=False, unconnected_send=True)` with the route given as segments (non-empty) or taken
    from the configured path, without a data type, on a registered session, for ANY object.
    `EncAll hops ps n` (EPBasic) says the requested hops encode (padded EPATH) within `n` bytes and the strict parser reads
    the encoding back as `ps`; `gme_hops_enc` gives it for backplane/port hops.
    Conclusion: exactly one frame — a SendRRData whose message is the Unconnected Send wrapper
    `ucsWrap inner ([words, 0] ++ route)` = service 0x52 to the connection manager, timeout bytes, embedded length =
    |inner| (16 bit), `inner`, one pad byte iff |inner| is odd, route size in words, reserved 0, `route`; `route` is the
    CIP encoding of the hops; the target's strict `isUcs`/`unwrapUcs` accept it and return exactly `inner` and `route`;
    `inner` parses as exactly `MRReq { service, path, data }`; `execMR` logs `.mr false true req route`; Tag as in (2). -/
theorem generic_ucs_e2e {σ} (hook : ObjHook σ) (w : World σ) (sess : Nat) (a : GenArgs) (c i : Nat) (oa : Option Nat)
    (hops : List Seg) (ps : List PSeg)
    (hw : gme_Session w sess) (hconn : a.connected = false) (hu : a.unconnectedSend = true)
    (hroute : (a.route = .segs hops ∧ hops ≠ []) ∨ (a.route = .useCfg ∧ w.drv.cipPath = hops))
    (henc : EncAll hops ps 300)
    (hdt : a.dataType = none) (hsvc : a.service < 256)
    (hcls : gme_Id a.cls c) (hinst : gme_Id a.inst i) (hattr : gme_AttrId a.attr oa) (hbig : a.data.length ≤ 65000) :
    let req : MRReq := { service := a.service, path := gme_wantPath c i oa, data := a.data }
    ∃ route, encSegs true hops = .ok route ∧ parsePadded (route.length + 1) route = some ps ∧
      let tIn := gme_rrIn w.net.target sess true req route
      let out := gme_dispatch hook tIn sess none false req
      ∃ w' frm tag,
        genericMessage hook FUEL w a = (w', .ok tag) ∧
        w'.net.sent = w.net.sent ++ [frm] ∧ w'.drv = w.drv ∧
        (∃ f d inner, parseFrame frm = some f ∧ f.command = CMD_SEND_RR ∧ f.session = sess ∧
          parseCpf f.body = some (.unconnected (ucsWrap inner ([UInt8.ofNat (route.length / 2), 0] ++ route))) ∧
          isUcs (ucsWrap inner ([UInt8.ofNat (route.length / 2), 0] ++ route)) = some d ∧
          unwrapUcs d = some (inner, route) ∧ parseMR inner = some req ∧
          execMR hook { w.net.target with base := w.net.target.base.event (.encap CMD_SEND_RR sess true) } sess
            none false true route inner = (out.1, encMRReply a.service out.2)) ∧
        tIn.base.log = .mr false true req route :: .encap CMD_SEND_RR sess true :: w.net.target.base.log ∧
        w'.net.target = out.1 ∧
        tag.name = a.name ∧ tag.value = .bytes (gme_payload out.2) ∧
        (out.2.status % 256 = 0 → tag.error = none ∧ tag.truthy = true) ∧
        (out.2.status % 256 ≠ 0 →
          (∃ suffix, tag.error = some (.text (serviceStatusTextI ((out.2.status % 256 : Nat) : Int) ++ suffix))) ∧
          tag.truthy = false) := by
  intro req
  obtain ⟨route, henc1, hgr, hr2, hrl, hparse⟩ := gme_route_of w a hops ps 300 hroute henc (by omega)
  refine ⟨route, henc1, hparse, ?_⟩
  intro tIn out
  obtain ⟨frm, f, rp, d, value, err, hrp, hf, hcmd, hfs, hcpf, hisu, hunw, hpm, hgm, htag⟩ :=
    gme_ucs_core hook w sess a c i oa route ps hw hconn hu hgr hr2 hrl hparse hsvc hcls hinst hattr hbig
  rw [hdt] at htag
  obtain ⟨hv, hok, hbad⟩ := gme_tag_untyped _ _ _ a.name _ _ htag
  rw [gme_accepted_unconnected] at hok hbad
  refine ⟨_, frm, _, hgm, rfl, rfl, ⟨f, d, _, hf, hcmd, hfs, hcpf, hisu, hunw, hpm, ?_⟩, rfl, rfl, rfl, hv, ?_, ?_⟩
  · exact gme_execMR_eq hook _ sess none false true route _ _ hpm
  · intro h0; exact hok (beq_iff_eq.2 h0)
  · intro h0; exact hbad (beq_eq_false_iff_ne.2 h0)

/-- (3') the route bytes for backplane/port hops `(port, link)` (port 1..14, one-byte link address, at most 150 hops)
    are the port and link bytes of the hops, in order -/
theorem generic_ucs_hops_e2e {σ} (hook : ObjHook σ) (w : World σ) (sess : Nat) (a : GenArgs) (c i : Nat) (oa : Option Nat)
    (hops : List (Nat × Nat))
    (hw : gme_Session w sess) (hconn : a.connected = false) (hu : a.unconnectedSend = true)
    (hroute : a.route = .segs (hops.map fun h => Seg.port (.int h.1) (.int h.2))) (hne : hops ≠ [])
    (hp : ∀ h ∈ hops, 1 ≤ h.1 ∧ h.1 ≤ 14 ∧ h.2 < 256) (hn : hops.length ≤ 150)
    (hdt : a.dataType = none) (hsvc : a.service < 256)
    (hcls : gme_Id a.cls c) (hinst : gme_Id a.inst i) (hattr : gme_AttrId a.attr oa) (hbig : a.data.length ≤ 65000) :
    let req : MRReq := { service := a.service, path := gme_wantPath c i oa, data := a.data }
    let route : Bytes := hops.flatMap fun h => [UInt8.ofNat h.1, UInt8.ofNat h.2]
    let out := gme_dispatch hook (gme_rrIn w.net.target sess true req route) sess none false req
    ∃ w' frm tag,
      genericMessage hook FUEL w a = (w', .ok tag) ∧ w'.net.sent = w.net.sent ++ [frm] ∧
      Event.mr false true req route ∈ (gme_rrIn w.net.target sess true req route).base.log ∧
      w'.net.target = out.1 ∧ tag.value = .bytes (gme_payload out.2) ∧
      (out.2.status % 256 = 0 → tag.error = none ∧ tag.truthy = true) := by
  intro req route out
  obtain ⟨henc, hsegs⟩ := gme_hops_enc hops hp
  obtain ⟨route', h1, _, h3⟩ := generic_ucs_e2e hook w sess a c i oa _ _ hw hconn hu
    (Or.inl ⟨hroute, by cases hops <;> simp_all⟩) (henc.mono (by omega)) hdt hsvc hcls hinst hattr hbig
  rw [hsegs] at h1
  cases h1
  obtain ⟨w', frm, tag, hgm, hsent, _, _, hlog, htgt, _, hval, hok, _⟩ := h3
  exact ⟨w', frm, tag, hgm, hsent, by rw [hlog]; exact List.mem_cons_self, htgt, hval, hok⟩

/-- (5) typed replies: `generic_message(connected=True, data_type=ty)` on a healthy connection, for ANY object; delivery
    exactly as in (1) (same frame, same `MRReq`, same target state). With an accepted status, a reply whose data decodes
    with `ty` gives the decoded value and no error; one whose data does not decode gives value None, the parse-failure
    error and a falsy Tag; a refused request gives None, the status text and a falsy Tag. -/
theorem generic_typed_e2e {σ} (hook : ObjHook σ) (w : World σ) (sess : Nat) (cidb : Bytes) (conn : Conn)
    (a : GenArgs) (c i : Nat) (oa : Option Nat) (ty : Ty)
    (hw : gme_Healthy w sess cidb conn) (hconn : a.connected = true) (hdt : a.dataType = some ty) (hsvc : a.service < 256)
    (hcls : gme_Id a.cls c) (hinst : gme_Id a.inst i) (hattr : gme_AttrId a.attr oa)
    (hfit : a.data.length + 22 ≤ conn.size) (hbig : a.data.length ≤ 65000) :
    let req : MRReq := { service := a.service, path := gme_wantPath c i oa, data := a.data }
    let seq := w.drv.nextSeq.1
    let tIn := gme_connIn w.net.target sess (leVal cidb) seq conn req
    let out := gme_dispatch hook tIn sess (some (conn.size - 2)) true req
    ∃ w' frm tag,
      genericMessage hook FUEL w a = (w', .ok tag) ∧
      w'.net.sent = w.net.sent ++ [frm] ∧ w'.drv = w.drv.nextSeq.2 ∧
      (∃ f msg, parseFrame frm = some f ∧ f.command = CMD_SEND_UNIT ∧ f.session = sess ∧
        parseCpf f.body = some (.connected (leVal cidb) seq msg) ∧ parseMR msg = some req) ∧
      w'.net.target = ldr_unitAfter out.1 conn (encMRReply a.service out.2) ∧
      tag.name = a.name ∧
      (∀ v rest, gme_accepted .connected a.service (out.2.status % 256) = true →
        decode ty (gme_payload out.2) = .ok (v, rest) → tag.value = v ∧ tag.error = none) ∧
      (∀ e, gme_accepted .connected a.service (out.2.status % 256) = true →
        decode ty (gme_payload out.2) = .error e →
        tag.value = .none ∧ tag.error = some .parseFailed ∧ tag.truthy = false) ∧
      (gme_accepted .connected a.service (out.2.status % 256) = false →
        tag.value = .none ∧
        (∃ suffix, tag.error = some (.text (serviceStatusTextI ((out.2.status % 256 : Nat) : Int) ++ suffix))) ∧
        tag.truthy = false) := by
  intro req seq tIn out
  obtain ⟨frm, f, rp, value, err, hrp, hf, hcmd, hfs, hcpf, hpm, hgm, htag⟩ :=
    gme_connected_core hook w sess cidb conn a c i oa hw hconn hsvc hcls hinst hattr hfit hbig
  rw [hdt] at htag
  obtain ⟨h1, h2, h3⟩ := gme_tag_typed _ _ _ _ a.name _ _ htag
  exact ⟨_, frm, _, hgm, rfl, rfl, ⟨f, _, hf, hcmd, hfs, hcpf, hpm⟩, rfl, rfl, h1, h2, h3⟩

/-- (4) set_plc_time then get_plc_time, as the two `generic_message` calls the helpers make (`setPlcTimeOp`,
    `plcTimeOp` of OpsClient: service 4 / 3 to class 0x8B instance 1, connected), on a healthy connection, any hook:
    the set request is accepted (truthy Tag), and the get request that follows returns exactly the written
    microseconds under the key "µs", without error — for every 64-bit value. `set_time_request` (GenericProofs) says the
    request data is what `set_plc_time` encodes. -/
theorem set_then_get_plc_time_e2e {σ} (hook : ObjHook σ) (w : World σ) (sess : Nat) (cidb : Bytes) (conn : Conn) (us : Nat)
    (hw : gme_Healthy w sess cidb conn) (hus : us < 2 ^ 64) (hsize : 34 ≤ conn.size) :
    ∃ w1 w2 tag1,
      genericMessage hook FUEL w
        { service := 0x04, cls := .bytes [0x8b], inst := .bytes [0x01],
          data := leBytes 2 1 ++ leBytes 2 6 ++ leBytes 8 us, name := nm "set_plc_time" } = (w1, .ok tag1) ∧
      tag1.truthy = true ∧ w1.net.target.base.timeUs = us ∧
      genericMessage hook FUEL w1
        { service := 0x03, cls := .bytes [0x8b], inst := .bytes [0x01], data := [1, 0, 0x0B, 0],
          dataType := some gme_timeTy } =
        (w2, .ok { name := [], value := .dict [([0xB5, 115], .int us)], error := none }) ∧
      w2.net.sent.length = w.net.sent.length + 2 ∧
      gme_Healthy w2 sess cidb { conn with lastSeq := some w1.drv.nextSeq.1 } := by
  obtain ⟨w1, frm1, h1, hh1, _, hs1, ht1, _⟩ := gme_set_time hook w sess cidb conn us (nm "set_plc_time") hw hus hsize
  obtain ⟨w2, frm2, h2, hh2, _, hs2, _, _⟩ := gme_get_time hook w1 sess cidb _ [] hh1 (by rw [ht1]; exact hus)
    (by show 26 ≤ conn.size; omega)
  rw [ht1] at h2
  refine ⟨w1, w2, _, h1, rfl, ht1, h2, ?_, hh2⟩
  rw [hs2, hs1]
  simp

/-- (4') the same at the level of the harness operations (OpsClient, extension state `Ext`, hook `hookAll`): on a healthy
    connection `setPlcTimeOp w us` returns the truthy Tag of the accepted request, and `plcTimeOp` on the resulting
    world reports exactly `us` — for every time `datetime` can represent (before year 10000) -/
theorem set_then_get_plc_time_ops (w : W) (sess : Nat) (cidb : Bytes) (conn : Conn) (us : Nat)
    (hw : gme_Healthy w sess cidb conn) (hus : us < 253402300800000000) (hsize : 34 ≤ conn.size) :
    (setPlcTimeOp w us).2 =
      renderTag { name := nm "set_plc_time", value := .bytes [1, 0, 6, 0, 0, 0], error := none } ∧
    (plcTimeOp (setPlcTimeOp w us).1).2 = "(time (i " ++ toString (us : Int) ++ ") none)" := by
  have hus64 : us < 2 ^ 64 := by omega
  obtain ⟨w1, frm1, h1, hh1, _, _, ht1, _⟩ := gme_set_time hookAll w sess cidb conn us (nm "set_plc_time") hw hus64 hsize
  obtain ⟨w2, frm2, h2, _⟩ := gme_get_time hookAll w1 sess cidb _ [] hh1 (by rw [ht1]; exact hus64)
    (by show 26 ≤ conn.size; omega)
  rw [ht1] at h2
  rw [gme_setPlcTimeOp w w1 us _ hus64 h1]
  refine ⟨rfl, ?_⟩
  rw [gme_plcTimeOp w1 w2 us hus h2]


/-! ### the hypotheses can be met: concrete worlds obtained by running the model -/

namespace Ex

/-- no extension objects -/
def hookU : ObjHook Unit := fun _ _ _ => none
def ident : Identity :=
  { vendor := 1, productType := 14, productCode := 1, major := 32, minor := 11, status := 0, serial := 1,
    name := [], state := 3, ip := 0 }
/-- a target whose generic object answers status 0 with three bytes; program name "PLC1" -/
def baseOk : Base := { identity := ident, plcName := [80, 76, 67, 49], generic := { status := 0, data := [0xDE, 0xAD, 0xBE] } }
/-- a target whose generic object refuses (status 0x08, the default) -/
def baseBad : Base := { identity := ident, plcName := [80, 76, 67, 49] }
/-- a fresh driver (configured path: backplane, slot 0) in front of a fresh target -/
def world0 (b : Base) : World Unit :=
  { drv := { cipPath := [Seg.port (.int 1) (.int 0)] }, net := { target := { base := b, ext := () } } }
/-- … after `open()`: a registered session -/
def worldS (b : Base) : World Unit := (openDrv hookU (world0 b) [1, 2, 3, 4, 5, 6, 7, 8]).1
/-- … and after the Forward Open of `with_forward_open`: a class-3 connection -/
def world (b : Base) : World Unit := (ensureForwardOpen hookU FUEL (worldS b)).1
def cidb : Bytes := [238, 255, 192, 0]
def conn : Conn :=
  { cid := 12648430, toId := 67305985, session := 4097, size := 4000, large := true, serial := 1063, vendor := 4105,
    origSerial := 134678021, lastSeq := none, route := [1, 0, 32, 2, 36, 1] }

/-- a 16-bit class given as an int, a two-byte instance, an attribute, two data bytes -/
def args1 : GenArgs :=
  { service := 0x0E, cls := .int 0x300, inst := .bytes [5, 0], attr := .int 7, data := [0xAA, 0xBB], dataType := none }
def req1 : MRReq :=
  { service := 0x0E, path := [.logical 0 0x300, .logical 4 5, .logical 16 7], data := [0xAA, 0xBB] }
def argsName : GenArgs := { service := 1, cls := .bytes [0x64], inst := .int 1, dataType := some (.str .uint .latin1) }

-- evaluation checks of the runs (interpreter)
#guard (world baseOk).drv.targetIsConnected && (world baseOk).drv.session == some 4097 &&
  (world baseOk).drv.targetCid == some cidb && (world baseOk).net.target.base.conns == [conn] &&
  (world baseOk).net.target.base.sessions == [4097]
#guard (match (genericMessage hookU FUEL (world baseOk) args1).2 with
        | .ok t => t.truthy && (match t.value with | .bytes [0xDE, 0xAD, 0xBE] => true | _ => false)
        | _ => false)
#guard (genericMessage hookU FUEL (world baseOk) args1).1.net.target.base.log.head? == some (.mr true false req1 [])
#guard (match (genericMessage hookU FUEL (world baseBad) args1).2 with
        | .ok t => !t.truthy && (match t.error with
            | some (.text s) => s == "Service not supported".toList.map Char.toNat | _ => false)
        | _ => false)
#guard (match (genericMessage hookU FUEL (worldS baseOk) { args1 with connected := false, route := .off }).2 with
        | .ok t => t.truthy && (match t.value with | .bytes [0xDE, 0xAD, 0xBE] => true | _ => false)
        | _ => false)
#guard (genericMessage hookU FUEL (worldS baseOk)
          { args1 with connected := false, unconnectedSend := true,
                       route := .segs [Seg.port (.int 1) (.int 0), Seg.port (.int 2) (.int 3)] }).1.net.target.base.log.head?
        == some (.mr false true req1 [1, 0, 2, 3])
#guard (genericMessage hookU FUEL (worldS baseOk)
          { args1 with connected := false, unconnectedSend := true, route := .useCfg }).1.net.target.base.log.head?
        == some (.mr false true req1 [1, 0])
#guard (match (genericMessage hookU FUEL (world baseOk) argsName).2 with
        | .ok t => t.error.isNone && (match t.value with | .str [80, 76, 67, 49] => true | _ => false)
        | _ => false)
#guard (match (genericMessage hookU FUEL (world baseOk) { args1 with dataType := some (.int .dint) }).2 with
        | .ok t => !t.truthy && t.error == some .parseFailed && (match t.value with | .none => true | _ => false)
        | _ => false)
#guard (plcTimeOp (setPlcTimeOp Lgx.Drv.Ex.world 1700000000000000).1).2 == "(time (i 1700000000000000) none)"

-- STATEMENT CHANGED: "the Tag's value is the object's reply data" is false of the model when the object's reply carries
-- extended status words with status 0: the response class takes everything after the 4-byte reply header as data, so
-- the value is `gme_payload r` = extended status words ++ data (= the data when there are none, as for every object
-- of the reference target). Counterexample (generic object: status 0, one extended word 0x1234, data 01):
def baseExt : Base := { identity := ident, plcName := [], generic := { status := 0, ext := [0x1234], data := [1] } }
#guard (match (genericMessage hookU FUEL (world baseExt) args1).2 with
        | .ok t => (match t.value with | .bytes [0x34, 0x12, 1] => true | _ => false) | _ => false)
-- STATEMENT CHANGED: the general status is one byte on the wire; the theorems speak about `status % 256` (what the
-- target's encoder emits). Counterexample (an object answering status 0x100 is seen as success):
def baseBig : Base := { identity := ident, plcName := [], generic := { status := 0x100, data := [1] } }
#guard (match (genericMessage hookU FUEL (world baseBig) args1).2 with | .ok t => t.truthy | _ => false)
-- STATEMENT CHANGED: direct UCMM delivery needs the side condition `hnot` (the request is not itself service 0x52 to the
-- connection manager): such a request IS an Unconnected Send for the target, which unwraps it. Counterexample:
#guard (genericMessage hookU FUEL (worldS baseOk)
          { service := 0x52, cls := .int 6, inst := .int 1, data := [1, 2, 3], connected := false, route := .off }
        ).1.net.target.base.log.head? == some (.violation "malformed unconnected send")

private theorem sessionOk : gme_Session (worldS baseOk) 4097 :=
  { sock := by decide +kernel, ctx8 := by decide +kernel, opt0 := by decide +kernel, session := by decide +kernel,
    session32 := by decide, sessionReg := by decide +kernel, pend := by decide +kernel, faults := by decide +kernel }

private theorem healthy (b : Base) (hb : b = baseOk ∨ b = baseBad) : gme_Healthy (world b) 4097 cidb conn := by
  rcases hb with rfl | rfl <;>
  exact { sock := by decide +kernel, ctx8 := by decide +kernel, opt0 := by decide +kernel, session := by decide +kernel,
          session32 := by decide, sessionReg := by decide +kernel, pend := by decide +kernel, faults := by decide +kernel,
          connected := by decide +kernel, cid := by decide +kernel, cid4 := by decide, conn := by decide +kernel }

private theorem id_cls : gme_Id args1.cls 0x300 := gme_Id.int 0x300 (by decide)
private theorem id_inst : gme_Id args1.inst 5 := gme_Id.bytes [5, 0] (.inr (.inl rfl))
private theorem id_attr : gme_AttrId args1.attr (some 7) := .some _ _ (gme_Id.int 7 (by decide)) rfl

/-- (1') on the accepting target: every hypothesis holds; the reply bytes come back, the Tag is truthy, the request is logged -/
example : ∃ w' frm tag, genericMessage hookU FUEL (world baseOk) args1 = (w', .ok tag) ∧
    w'.net.sent = (world baseOk).net.sent ++ [frm] ∧ Event.mr true false req1 [] ∈ w'.net.target.base.log ∧
    tag.value = .bytes [0xDE, 0xAD, 0xBE] ∧ tag.error = none ∧ tag.truthy = true := by
  obtain ⟨w', frm, tag, h1, h2, _, h4, _, _, _, h8, h9, _⟩ :=
    generic_connected_generic_object_e2e hookU (world baseOk) 4097 cidb conn args1 0x300 5 (some 7)
      (healthy _ (.inl rfl)) rfl rfl (by decide) id_cls id_inst id_attr (by decide) (by decide) (by decide)
      (fun _ => rfl) (fun _ _ => rfl)
  have hg : (((world baseOk).net.target.base.generic.ext.map (le 2)).flatten ++
      (world baseOk).net.target.base.generic.data) = [0xDE, 0xAD, 0xBE] := by decide +kernel
  rw [hg] at h8
  obtain ⟨h10, h11⟩ := h9 (by decide +kernel)
  exact ⟨w', frm, tag, h1, h2, h4, h8, h10, h11⟩

/-- (1') on the refusing target: a falsy Tag whose error starts with the text of status 0x08 -/
example : ∃ w' tag suffix, genericMessage hookU FUEL (world baseBad) args1 = (w', .ok tag) ∧
    tag.error = some (.text (serviceStatusTextI 8 ++ suffix)) ∧ tag.truthy = false := by
  obtain ⟨w', frm, tag, h1, _, _, _, _, _, _, _, _, h10⟩ :=
    generic_connected_generic_object_e2e hookU (world baseBad) 4097 cidb conn args1 0x300 5 (some 7)
      (healthy _ (.inr rfl)) rfl rfl (by decide) id_cls id_inst id_attr (by decide) (by decide) (by decide)
      (fun _ => rfl) (fun _ _ => rfl)
  obtain ⟨⟨suffix, h11⟩, h12⟩ := h10 (by decide +kernel)
  have hs : (world baseBad).net.target.base.generic.status % 256 = 8 := by decide +kernel
  rw [hs] at h11
  exact ⟨w', tag, suffix, h1, h11, h12⟩

/-- (1) as such (any object): the hypotheses hold on the run world -/
example := generic_connected_e2e hookU (world baseOk) 4097 cidb conn args1 0x300 5 (some 7)
  (healthy _ (.inl rfl)) rfl rfl (by decide) id_cls id_inst id_attr (by decide) (by decide)

/-- (2) direct UCMM on the registered session -/
example := generic_unconnected_e2e hookU (worldS baseOk) 4097 { args1 with connected := false, route := .off } 0x300 5 (some 7)
  sessionOk rfl rfl rfl rfl (by decide) id_cls id_inst id_attr (by decide) (by decide)

/-- (3') Unconnected Send through backplane slot 0, then port 2 address 3: the route bytes are 01 00 02 03 -/
example := generic_ucs_hops_e2e hookU (worldS baseOk) 4097
  { args1 with connected := false, unconnectedSend := true,
               route := .segs [Seg.port (.int 1) (.int 0), Seg.port (.int 2) (.int 3)] } 0x300 5 (some 7)
  [(1, 0), (2, 3)] sessionOk rfl rfl rfl (by decide) (by decide) (by decide) rfl (by decide) id_cls id_inst id_attr (by decide)

/-- (3) Unconnected Send with the configured path (`route_path=True`) -/
example := generic_ucs_e2e hookU (worldS baseOk) 4097
  { args1 with connected := false, unconnectedSend := true, route := .useCfg } 0x300 5 (some 7)
  [Seg.port (.int 1) (.int 0)] [PSeg.port 1 [0]] sessionOk rfl rfl (.inr ⟨rfl, by decide +kernel⟩)
  ((gme_hops_enc [(1, 0)] (by decide)).1.mono (by decide)) rfl (by decide) id_cls id_inst id_attr (by decide)

/-- (4) set then get, on the run world -/
example := set_then_get_plc_time_e2e hookU (world baseOk) 4097 cidb conn 1700000000000000 (healthy _ (.inl rfl))
  (by decide) (by decide)

/-- (4') … and for the harness operations on the world of the Logix proofs -/
example := set_then_get_plc_time_ops Lgx.Drv.Ex.world 4097 [238, 255, 192, 0] Lgx.Drv.Ex.conn 1700000000000000
  (gme_of_ldr_Healthy Lgx.Drv.Ex.healthy) (by decide) (by decide)

/-- (5) get_plc_name's generic message: the program-name object answers, the STRING decodes -/
example : ∃ w' tag, genericMessage hookU FUEL (world baseOk) argsName = (w', .ok tag) ∧
    tag.value = .str [80, 76, 67, 49] ∧ tag.error = none := by
  obtain ⟨w', frm, tag, h1, _, _, _, _, _, hok, _, _⟩ :=
    generic_typed_e2e hookU (world baseOk) 4097 cidb conn argsName 0x64 1 none (.str .uint .latin1)
      (healthy _ (.inl rfl)) rfl rfl (by decide) (gme_Id_byte 0x64) (gme_Id.int 1 (by decide)) .absent (by decide) (by decide)
  obtain ⟨h2, h3⟩ := hok (.str [80, 76, 67, 49]) [] (by decide +kernel) (by
    generalize hX : gme_payload _ = X
    have hx : X = [4, 0, 80, 76, 67, 49] := by rw [← hX]; decide +kernel
    rw [hx]; rfl)
  exact ⟨w', tag, h1, h2, h3⟩

/-- (5) a reply that does not decode (3 bytes for a DINT): None, parse failure, falsy -/
example : ∃ w' tag, genericMessage hookU FUEL (world baseOk) { args1 with dataType := some (.int .dint) } = (w', .ok tag) ∧
    tag.value = .none ∧ tag.error = some .parseFailed ∧ tag.truthy = false := by
  obtain ⟨w', frm, tag, h1, _, _, _, _, _, _, hbad, _⟩ :=
    generic_typed_e2e hookU (world baseOk) 4097 cidb conn { args1 with dataType := some (.int .dint) } 0x300 5 (some 7)
      (.int .dint) (healthy _ (.inl rfl)) rfl rfl (by decide) id_cls id_inst id_attr (by decide) (by decide)
  obtain ⟨h2, h3, h4⟩ := hbad .data (by decide +kernel) (by
    generalize hX : gme_payload _ = X
    have hx : X = [0xDE, 0xAD, 0xBE] := by rw [← hX]; decide +kernel
    rw [hx]; rfl)
  exact ⟨w', tag, h1, h2, h3, h4⟩

end Ex

end Pycomm.Cli
