/-
  LogixDriver.write of one bit of an integer tag (`"tag.5"`): parsing, the Read-Modify-Write request, sending.
-/
import PycommProofs.LDWriteBuild
import PycommProofs.LDWriteSend
namespace Pycomm.Lgx.Drv
open Pycomm Pycomm.Tgt Pycomm.Path Pycomm.Reply Pycomm.Encap Pycomm.Lgx Pycomm.Lgx.E2E

/-- the tag string addressing bit `ds` (decimal digits) of the tag `n` -/
def ldw_bitTag (n ds : Name) : Name := n ++ [46] ++ ds

theorem ldw_digit_facts (ds : Name) (h : PyStr.isDigit ds = true) :
    ds ≠ [] ∧ ∀ c ∈ ds, 48 ≤ c ∧ c ≤ 57 := by
  simp only [PyStr.isDigit, Bool.and_eq_true, Bool.not_eq_true', List.all_eq_true, PyStr.isDigitC,
    decide_eq_true_eq] at h
  refine ⟨?_, h.2⟩
  intro e; rw [e] at h; simp at h

theorem ldw_digits_not_mem (ds : Name) (h : PyStr.isDigit ds = true) (c : Nat) (hc : c < 48 ∨ 57 < c) : c ∉ ds := by
  intro hm
  have := (ldw_digit_facts ds h).2 c hm
  omega

theorem ldw_bitTag_not_mem (n ds : Name) (hid : PlainIdent n) (h : PyStr.isDigit ds = true) (c : Nat)
    (hc : c = 58 ∨ c = 91 ∨ c = 93 ∨ c = 123 ∨ c = 125) : c ∉ ldw_bitTag n ds := by
  unfold ldw_bitTag
  intro hm
  rcases List.mem_append.1 hm with hm | hm
  · rcases List.mem_append.1 hm with hm | hm
    · exact ldr_plain_not_mem n hid c (by omega) hm
    · simp at hm; omega
  · exact ldw_digits_not_mem ds h c (by omega) hm

theorem ldw_split_bitTag (n ds : Name) (hid : PlainIdent n) (h : PyStr.isDigit ds = true) :
    PyStr.split 46 (ldw_bitTag n ds) = [n, ds] := by
  unfold PyStr.split ldw_bitTag
  rw [List.append_assoc, List.singleton_append,
    EP.splitOn_append_sep 46 n ds (ldr_plain_not_mem n hid 46 (by omega)),
    EP.splitOn_no_sep 46 ds (ldw_digits_not_mem ds h 46 (by omega))]

theorem ldw_indexPartOk_digits (ds : Name) (h : PyStr.isDigit ds = true) : indexPartOk ds = true := by
  unfold indexPartOk
  rw [ldr_contains_false ds 91 (ldw_digits_not_mem ds h 91 (by omega)),
    ldr_contains_false ds 93 (ldw_digits_not_mem ds h 93 (by omega))]
  simp

theorem ldw_splitElements_bitTag (n ds : Name) (hid : PlainIdent n) (h : PyStr.isDigit ds = true) :
    splitElements (ldw_bitTag n ds) = .ok (ldw_bitTag n ds, 1, true) := by
  unfold splitElements
  rw [ldr_contains_false _ 123 (ldw_bitTag_not_mem n ds hid h 123 (by omega))]
  simp

/-- (a) `_parse_tag_request` of `tag.bit` for a plain identifier that the tag database knows as an atomic integer tag
    of `wbits` bits, `bit < wbits`: the request addresses the tag itself, carries the bit number, no error -/
theorem ldw_parse_bit (db : TagDb) (write : Bool) (rid : Nat) (n ds : Name) (info : TagInfo) (wbits : Nat)
    (hid : PlainIdent n) (hds : PyStr.isDigit ds = true) (hget : db.get? n = some info) (hnd : isDword info = false)
    (hkind : info.core.tagType = .atomic) (hbits : intBits info.core.dataTypeName = some wbits)
    (hlt : PyStr.decVal ds < wbits) :
    parseTagRequest db write rid (ldw_bitTag n ds) =
      { requestId := rid, requestTag := ldw_bitTag n ds, userTag := ldw_bitTag n ds, plcTag := n,
        bit := some (PyStr.decVal ds : Int), elements := 1, info := some info, boolElements := none } := by
  have hbad : ¬ ((wbits : Int) ≤ (PyStr.decVal ds : Int)) := by omega
  unfold parseTagRequest
  simp only [ldw_splitElements_bitTag n ds hid hds, ldw_split_bitTag n ds hid hds, List.find?_cons, ldr_indexPartOk n hid,
    ldw_indexPartOk_digits ds hds, Bool.not_true, List.find?_nil, ldr_not_program n hid, Bool.false_eq_true, if_false,
    List.getLast?_singleton, hds, if_true, List.dropLast_singleton, List.isEmpty_nil, ldr_getTagInfo db n info hid hget,
    hnd, hkind, hbits, hbad, decide_false]
  simp

/-! ### the integer types -/

/-- the width in bits the driver's tables give an elementary integer type is the controller's element size -/
theorem ldw_intBits (c sz : Nat) (name : Name) (t : Ty) (hat : atomicOfCode c = some (name, t)) (hb : t.isBits = none)
    (hsz : atomicSize c = some sz) (hint : c ≠ 0xCA ∧ c ≠ 0xCB ∧ c ≠ 0xC1) :
    intBits name = some (8 * sz) ∧ (sz = 1 ∨ sz = 2 ∨ sz = 4 ∨ sz = 8) := by
  obtain ⟨haty, _, _, _, _⟩ := ldr_atomic_table c sz name t hat hb hsz
  rcases ldr_atomicTy_codes c t haty hb with h | h | h | h | h | h | h | h | h | h | h <;> subst h
  · exact absurd rfl hint.2.2
  · have e : some (nm "SINT", Ty.int .sint) = some (name, t) := hat
    have f : some 1 = some sz := hsz
    cases e; cases f; exact ⟨by decide, by omega⟩
  · have e : some (nm "INT", Ty.int .int) = some (name, t) := hat
    have f : some 2 = some sz := hsz
    cases e; cases f; exact ⟨by decide, by omega⟩
  · have e : some (nm "DINT", Ty.int .dint) = some (name, t) := hat
    have f : some 4 = some sz := hsz
    cases e; cases f; exact ⟨by decide, by omega⟩
  · have e : some (nm "LINT", Ty.int .lint) = some (name, t) := hat
    have f : some 8 = some sz := hsz
    cases e; cases f; exact ⟨by decide, by omega⟩
  · have e : some (nm "USINT", Ty.int .usint) = some (name, t) := hat
    have f : some 1 = some sz := hsz
    cases e; cases f; exact ⟨by decide, by omega⟩
  · have e : some (nm "UINT", Ty.int .uint) = some (name, t) := hat
    have f : some 2 = some sz := hsz
    cases e; cases f; exact ⟨by decide, by omega⟩
  · have e : some (nm "UDINT", Ty.int .udint) = some (name, t) := hat
    have f : some 4 = some sz := hsz
    cases e; cases f; exact ⟨by decide, by omega⟩
  · have e : some (nm "ULINT", Ty.int .ulint) = some (name, t) := hat
    have f : some 8 = some sz := hsz
    cases e; cases f; exact ⟨by decide, by omega⟩
  · exact absurd rfl hint.1
  · exact absurd rfl hint.2.1

/-! ### (b) the Read-Modify-Write request -/

/-- the masks of one bit write -/
def ldw_masks (b : Nat) (v : Bool) : K.Masks := K.applyOps [(b, v)]

theorem ldw_masks_lt (b : Nat) (v : Bool) (hb : b < 64) :
    (ldw_masks b v).orM < 2 ^ 64 ∧ (ldw_masks b v).andM < 2 ^ 64 := by
  have h1 : (1 <<< b : Nat) < 2 ^ 64 := by
    rw [Nat.one_shiftLeft]; exact Nat.pow_lt_pow_right (by omega) hb
  have h2 : K.ones64 < 2 ^ 64 := by decide
  cases v
  · refine ⟨?_, ?_⟩
    · show 0 &&& _ < _
      rw [Nat.zero_and]; omega
    · show K.ones64 &&& _ < _
      exact Nat.lt_of_le_of_lt Nat.and_le_left h2
  · refine ⟨?_, ?_⟩
    · show 0 ||| (1 <<< b) < _
      rw [Nat.zero_or]; exact h1
    · show K.ones64 ||| (1 <<< b) < _
      exact Nat.or_lt_two_pow h2 h1

/-- the parsed bit-write request (`ldw_parse_bit`) with the caller's value -/
def ldw_parsedBit (n ds : Name) (info : TagInfo) (v : PyVal) : Parsed :=
  { requestId := 0, requestTag := ldw_bitTag n ds, userTag := ldw_bitTag n ds, plcTag := n,
    bit := some (PyStr.decVal ds : Int), elements := 1, info := some info, boolElements := none, value := v }

/-- the Read-Modify-Write packet of one bit request -/
def ldw_rmwReq (seq : Nat) (n : Name) (info : TagInfo) (path : Bytes) (sz b : Nat) (v : Bool) : RmwReq :=
  { seq := seq, tag := n, info := info, rid := -1, path := path, maskSize := sz, masks := ldw_masks b v, requestIds := [0] }

/-- (b) `_write_build_requests` for one bit-write request on a non-DWORD elementary tag: one sequence number is
    drawn, the result is ONE Read-Modify-Write request for the whole integer with the masks of that one bit -/
theorem ldw_build_bit (cfg : Cfg) (d : Cli.Drv) (n ds : Name) (info : TagInfo) (v : PyVal) (path : Bytes)
    (name : Name) (c sz : Nat)
    (hname : info.core.dataTypeName = name) (hnd : name ≠ nm "DWORD")
    (hentry : typeEntryOfName name = some (name, c, sz))
    (hpath : requestPathOf cfg n info = .ok path) :
    writeBuildRequests cfg d [ldw_parsedBit n ds info v] =
      (d.nextSeq.2, .ok ([ldw_parsedBit n ds info v],
        [Request.rmw (ldw_rmwReq d.nextSeq.1 n info path sz (PyStr.decVal ds) v.truthy)])) := by
  have hdw : (name == nm "DWORD") = false := by simpa using hnd
  unfold writeBuildRequests
  simp only [List.length_cons, List.length_nil, Nat.zero_add, ne_eq, not_true_eq_false, false_and, if_false,
    writeBuildSingles, ldw_parsedBit, Parsed.isBitWrite, Option.isSome_some, Option.isNone_none, Bool.and_self, if_true,
    mkRmwReq, hpath, hname, hentry, Except.map, RmwReq.setBit, hdw, Bool.false_eq_true, Option.getD_some,
    Int.toNat_natCast, List.nil_append, ldw_rmwReq, ldw_masks, K.applyOps, List.foldl_cons, List.foldl_nil]
  rfl

/-- the message of that packet -/
theorem ldw_rmwMessage (seq : Nat) (n : Name) (info : TagInfo) (path : Bytes) (sz b : Nat) (v : Bool)
    (hsz : sz ≤ 8) (hb : b < 64) :
    rmwMessage (ldw_rmwReq seq n info path sz b v) = .ok (Cl.rmwMsg path sz (ldw_masks b v)) := by
  obtain ⟨h1, h2⟩ := ldw_masks_lt b v hb
  have hp : packInt .uint (.int sz) = .ok (leBytes 2 (ofSigned 2 (sz : Int))) := by
    have : (0 : Int) ≤ (sz : Int) ∧ (sz : Int) ≤ 65535 := by omega
    simp [packInt, PyVal.asIndex, IntK.lo, IntK.hi, IntK.size, IntK.signed, this]
  unfold rmwMessage
  simp only [ldw_rmwReq, hp]
  rw [if_neg (by omega)]

/-! ### (c)+(d) sending it -/

/-- (c)+(d) the Read-Modify-Write request for a controller-scope elementary integer scalar symbol, sent on the
    healthy connection: one frame is written, the controller accepts it, and its whole effect on the Logix state is
    the integer replaced by `rmwResult` of its old value under the masks, with one logged write -/
theorem ldw_sendUnit_rmw (w : Cli.World Ext) (sess : Nat) (cidb : Bytes) (conn : Conn) (st : LState) (s : Symbol)
    (c sz : Nat) (useIds : Bool) (path : Bytes) (seq : Nat) (m : K.Masks)
    (hw : ldr_Healthy w sess cidb conn) (hlogix : w.net.target.ext.logix = some st)
    (hid : PlainIdent s.name) (hs : s ∈ st.proj.controller)
    (hbytes : ∀ s' ∈ st.proj.controller, ∀ ch ∈ s'.name, ch < 256)
    (huniqN : ∀ s' ∈ st.proj.controller, s'.name = s.name → s' = s)
    (huniqI : ∀ s' ∈ st.proj.controller, s'.inst = s.inst → s' = s)
    (hty : elTyOfWord s.symbolType = .atomic c) (hsz : atomicSize c = some sz) (hlen : s.mem.length = sz)
    (hint : c ≠ 0xCA ∧ c ≠ 0xCB ∧ c ≠ 0xC1)
    (hpos : 0 < sz) (hp : Denotes path (ldr_segs s.name s.inst useIds)) (hpl : path.length ≤ s.name.length + 13)
    (hseq : seq < 65536) (hfit : 2 * sz + s.name.length + 18 ≤ conn.size) :
    ∃ w' frm, sendUnit hookAll w seq (Cl.rmwMsg path sz m) =
        (w', .ok (some (frame CMD_SEND_UNIT sess 0 w.drv.context (cpfReplyConnected conn.toId seq
          (encMRReply 0x4E { status := 0, ext := [], data := [] }))))) ∧
      w'.drv = w.drv ∧ w'.net.sent = w.net.sent ++ [frm] ∧
      w'.net.target.ext =
        { w.net.target.ext with
          logix := some { st with proj := written st.proj (ldr_loc s c) 0 (le sz (K.rmwResult sz (leVal s.mem) m)) } } ∧
      ldr_Healthy w' sess cidb { conn with lastSeq := some seq } := by
  have hnl := hid.2.1
  have h8 := atomicSize_le c sz hsz
  have hmsg : Cl.rmwMsg path sz m = [0x4E] ++ path ++ (le 2 sz ++ K.maskBytes sz m.orM ++ K.maskBytes sz m.andM) := by
    simp only [Cl.rmwMsg, List.append_assoc]
  have hml : ([0x4E] ++ path ++ (le 2 sz ++ K.maskBytes sz m.orM ++ K.maskBytes sz m.andM) : Bytes).length =
      path.length + 3 + 2 * sz := by
    simp only [List.length_append, List.length_cons, List.length_nil, le_length, K.mask_bytes_size _ _ h8]; omega
  have hr := ldr_resolve st.proj s c sz useIds hid hs hbytes huniqN huniqI hty hsz
    (by intro h; rw [h, List.length_nil] at hlen; omega)
  have hsym : st.proj.symbolOf (ldr_loc s c) = some s := ldr_find_inst st.proj s hs huniqI
  have hex := rmw_e2e st (conn.size - 2) path _ (ldr_loc s c) c sz m s hp hr rfl hsz hint hsym
    (by simp only [ldr_loc]; omega)
  have hold : (s.mem.drop (ldr_loc s c).offset).take sz = s.mem := by
    show (s.mem.drop 0).take sz = s.mem
    rw [List.drop_zero, ← hlen, List.take_length]
  rw [hold, hmsg] at hex
  have htag : (∃ nmb, ldr_segs s.name s.inst useIds = [.symbol nmb]) ∨
      (∃ i, ldr_segs s.name s.inst useIds = [.logical 0 0x6B, .logical 4 i]) := by
    unfold ldr_segs
    split
    · exact Or.inr ⟨_, rfl⟩
    · exact Or.inl ⟨_, rfl⟩
  rw [hmsg]
  exact ldw_sendUnit_tag w sess cidb conn st _ 0x4E path _ _ (ldr_loc s c) seq hw hlogix hp hr htag (Or.inr (Or.inr rfl)) hex
    hseq (by rw [hml]; omega) (by rw [hml]; omega)

end Pycomm.Lgx.Drv
