/-
  C15, second part: TCP port texts, colons in the host part, whole path strings from string to route
  bytes, equality of spellings, classification of failures, dangling separators.
-/
import PycommProofs.PSBasic2
namespace Pycomm.Path
open PyStr

/-! ### spec side: the text of a connection path -/

/-- route pieces, each preceded by its separator character -/
def joinSegs (seps : List Nat) (route : List Name) : Name :=
  ((seps.zip route).map fun p => p.1 :: p.2).flatten

/-- `host[:port]` followed by the separated route pieces -/
def pathText (host : Name) (port : Option Name) (seps : List Nat) (route : List Name) : Name :=
  host ++ (match port with | none => [] | some pt => 58 :: pt) ++ joinSegs seps route

/-- the optional port text reads as the optional TCP port: no text - no port; a text without
    separator characters that `int()` reads as a value in the accepted range 1..65534 -/
def PortReads (port : Option Name) (v : Option Int) : Prop :=
  match port, v with
  | none, none => True
  | some pt, some x =>
      (58 ∉ pt ∧ 47 ∉ pt ∧ 92 ∉ pt ∧ 44 ∉ pt) ∧ PyStr.pyInt pt = some x ∧ 1 ≤ x ∧ x ≤ 65534
  | _, _ => False

/-- what the whole pipeline "string -> route bytes" produces (EPATH.encode(route, length=True)) -/
def routeBytesOf (path : Name) (auto : Bool) : Except Exn Bytes :=
  match parseConnectionPath path auto with
  | .error e => .error e
  | .ok (_, _, segs) => encEpath true segs true false

/-! ### helpers -/

/-- the complete behaviour of `host:port…`: one colon in the first piece -/
theorem ps2_parse_with_port (host pt : Name) (route : List Name) (auto : Bool)
    (hh : 58 ∉ host ∧ 47 ∉ host ∧ 92 ∉ host ∧ 44 ∉ host)
    (hpt : 58 ∉ pt ∧ 47 ∉ pt ∧ 92 ∉ pt ∧ 44 ∉ pt)
    (hr : ∀ r ∈ route, 47 ∉ r ∧ 92 ∉ r ∧ 44 ∉ r)
    (seps : List Nat) (hseps : ∀ c ∈ seps, c = 47 ∨ c = 92 ∨ c = 44) (hlen : seps.length = route.length) :
    parseConnectionPath (host ++ [58] ++ pt ++ joinSegs seps route) auto =
      (match PyStr.pyInt pt with
       | none => .error .request
       | some v =>
          if v ≤ 0 ∨ 65535 ≤ v then .error .request
          else (parseCipRouteList route auto).map fun segs => (host, some v, segs)) := by
  have hh' : 47 ∉ host ++ [58] ++ pt ∧ 92 ∉ host ++ [58] ++ pt ∧ 44 ∉ host ++ [58] ++ pt := by
    simp [hh.2.1, hh.2.2.1, hh.2.2.2, hpt.2.1, hpt.2.2.1, hpt.2.2.2]
  have hsp := split_path (host ++ [58] ++ pt) route seps hh' hr hseps hlen
  have hc : (host ++ [58] ++ pt).contains 58 = true := by simp
  have hs2 : PyStr.split 58 (host ++ [58] ++ pt) = [host, pt] := by
    show splitOn 58 _ = _
    rw [List.append_assoc, List.singleton_append, splitOn_append 58 host pt hh.1, splitOn_notin 58 pt hpt.1]
  simp only [parseConnectionPath, joinSegs, hsp, hc, hs2]
  cases hp : PyStr.pyInt pt with
  | none => simp
  | some v =>
    by_cases hv : v ≤ 0 ∨ 65535 ≤ v
    · simp [hv]
    · simp only [hv, if_false]
      cases parseCipRouteList route auto <;> simp [Except.map]

theorem ps2_parse_pathText (host : Name) (port : Option Name) (v : Option Int) (route : List Name) (auto : Bool)
    (hh : 58 ∉ host ∧ 47 ∉ host ∧ 92 ∉ host ∧ 44 ∉ host) (hp : PortReads port v)
    (hr : ∀ r ∈ route, 47 ∉ r ∧ 92 ∉ r ∧ 44 ∉ r)
    (seps : List Nat) (hseps : ∀ c ∈ seps, c = 47 ∨ c = 92 ∨ c = 44) (hlen : seps.length = route.length) :
    parseConnectionPath (pathText host port seps route) auto =
      (parseCipRouteList route auto).map fun segs => (host, v, segs) := by
  cases port with
  | none =>
    cases v with
    | some x => simp [PortReads] at hp
    | none =>
      have := separators_interchangeable host route auto hh hr seps hseps hlen
      have e : pathText host none seps route = host ++ ((seps.zip route).map fun p => p.1 :: p.2).flatten := by
        simp [pathText, joinSegs]
      rw [e, this]
      cases parseCipRouteList route auto <;> rfl
  | some pt =>
    cases v with
    | none => simp [PortReads] at hp
    | some x =>
      obtain ⟨hpt, hval, hlo, hhi⟩ := hp
      have := ps2_parse_with_port host pt route auto hh hpt hr seps hseps hlen
      have hx : ¬ (x ≤ 0 ∨ 65535 ≤ x) := by omega
      simp only [hval, hx, if_false] at this
      have e : pathText host (some pt) seps route = host ++ [58] ++ pt ++ joinSegs seps route := by
        simp [pathText]
      rw [e, this]

/-- with two or more pieces the `auto_slot` flag plays no role -/
theorem ps2_auto_irrelevant (segs : List Name) (auto : Bool) (h : 2 ≤ segs.length) :
    parseCipRouteList segs auto = parseCipRouteList segs false := by
  cases segs with
  | nil => simp at h
  | cons a t =>
    cases t with
    | nil => simp at h
    | cons b t => cases auto <;> simp [parseCipRouteList]

theorem ps2_alias_clean (p : Name) (n : Nat) (h : lookupName p Gen.portSegments = some n) :
    47 ∉ p ∧ 92 ∉ p ∧ 44 ∉ p :=
  (ps2_table_nosep (p, n) (lookupName_mem p n _ h)).2

theorem ps2_wf_lax (h : Hop) (hw : WfHop h) : LaxHop h := by
  obtain ⟨port, link⟩ := h
  obtain ⟨_, h2, hl⟩ := hw
  refine ⟨by simp only at h2 ⊢; omega, ?_⟩
  cases link with
  | slot n => exact hl
  | ip s => exact hl.1

/-- spelled segments never contain a separator character -/
theorem ps2_spellsLax_clean : ∀ (hops : List Hop) (segs : List Name), (∀ h ∈ hops, LaxHop h) →
    SpellsLax hops segs → ∀ r ∈ segs, 47 ∉ r ∧ 92 ∉ r ∧ 44 ∉ r
  | [], [], _, _ => by simp
  | [], _ :: _, _, h => by simp [SpellsLax] at h
  | _ :: _, [], _, h => by simp [SpellsLax] at h
  | _ :: _, [_], _, h => by simp [SpellsLax] at h
  | h :: hs, p :: l :: rest, hw, hsp => by
    simp only [SpellsLax] at hsp
    obtain ⟨hp, hl, hrest⟩ := hsp
    have ih := ps2_spellsLax_clean hs rest (fun x hx => hw x (by simp [hx])) hrest
    have hp' : 47 ∉ p ∧ 92 ∉ p ∧ 44 ∉ p := by
      rcases hp with hp | hp
      · exact (ps2_digits_clean p (ps2_isDigit_all p hp.1).2).2
      · exact ps2_alias_clean p _ hp
    have hl' : 47 ∉ l ∧ 92 ∉ l ∧ 44 ∉ l := by
      have hwf := hw h (by simp)
      obtain ⟨port, link⟩ := h
      cases link with
      | slot n => exact (ps2_digits_clean l (ps2_isDigit_all l hl.1).2).2
      | ip s =>
        obtain ⟨_, o, ho⟩ := hwf
        have e : l = s := hl
        rw [e]; exact (ps2_ipv4_clean s o ho).2
    intro r hr
    simp only [List.mem_cons] at hr
    rcases hr with hr | hr | hr
    · rw [hr]; exact hp'
    · rw [hr]; exact hl'
    · exact ih r hr

theorem ps2_parseCip_request (segs : List Name) (auto : Bool) (e : Exn)
    (h : parseCipRouteList segs auto = .error e) : e = .request := by
  unfold parseCipRouteList at h
  split at h
  · simp at h
  · split at h
    · simp at h
    · split at h
      · simpa using h.symm
      · simp at h

theorem ps2_encEpath_data (padded : Bool) (segs : List Seg) (l pl : Bool) (e : Exn)
    (h : encEpath padded segs l pl = .error e) : e = .data := by
  unfold encEpath at h
  split at h
  · simpa using h.symm
  · split at h
    · split at h
      · simp at h
      · simpa using h.symm
    · simp at h

theorem ps2_parseConn_request (path : Name) (auto : Bool) (e : Exn)
    (h : parseConnectionPath path auto = .error e) : e = .request := by
  unfold parseConnectionPath at h
  simp only at h
  split at h
  · simpa using h.symm
  · rename_i ip route _
    split at h
    · rename_i e' he'
      have : e' = .request := by
        split at he'
        · split at he'
          · split at he'
            · simpa using he'.symm
            · split at he'
              · simpa using he'.symm
              · simp at he'
          · simpa using he'.symm
        · simp at he'
      simp at h
      rw [← h, this]
    · split at h
      · rename_i e2 he2
        simp at h
        rw [← h]
        exact ps2_parseCip_request _ _ _ he2
      · simp at h

/-- a pair whose link text is empty cannot be encoded -/
theorem ps2_empty_link (p : PortVal) : encPort p (.str []) = .error .data :=
  encPort_bad_link p [] (.inr ⟨by decide, by decide⟩)

theorem ps2_pairs_append : ∀ (a b : List Name), a.length % 2 = 0 →
    parseCipRouteList.pairs (a ++ b) = parseCipRouteList.pairs a ++ parseCipRouteList.pairs b
  | [], b, _ => by simp [parseCipRouteList.pairs]
  | [_], _, h => by simp at h
  | p :: l :: rest, b, h => by
    have ih := ps2_pairs_append rest b (by simp at h; omega)
    simp [parseCipRouteList.pairs, ih]

theorem ps2_joinSegs_snoc (seps : List Nat) (route : List Name) (sep : Nat) (hlen : seps.length = route.length) :
    joinSegs (seps ++ [sep]) (route ++ [[]]) = joinSegs seps route ++ [sep] := by
  simp [joinSegs, List.zip_append hlen]

theorem ps2_pathText_snoc (host : Name) (port : Option Name) (seps : List Nat) (route : List Name) (sep : Nat)
    (hlen : seps.length = route.length) :
    pathText host port seps route ++ [sep] = pathText host port (seps ++ [sep]) (route ++ [[]]) := by
  simp [pathText, ps2_joinSegs_snoc seps route sep hlen]

theorem ps2_portText_clean (ws1 ws2 : Name) (sign : Name) (k n : Nat)
    (h1 : ∀ c ∈ ws1, isSpaceC c = true) (h2 : ∀ c ∈ ws2, isSpaceC c = true)
    (hs : sign = [] ∨ sign = [43] ∨ sign = [45]) :
    58 ∉ ws1 ++ (sign ++ List.replicate k 48 ++ decStr n) ++ ws2 ∧
    47 ∉ ws1 ++ (sign ++ List.replicate k 48 ++ decStr n) ++ ws2 ∧
    92 ∉ ws1 ++ (sign ++ List.replicate k 48 ++ decStr n) ++ ws2 ∧
    44 ∉ ws1 ++ (sign ++ List.replicate k 48 ++ decStr n) ++ ws2 := by
  have key : ∀ c ∈ ws1 ++ (sign ++ List.replicate k 48 ++ decStr n) ++ ws2,
      c ≠ 58 ∧ c ≠ 47 ∧ c ≠ 92 ∧ c ≠ 44 := by
    intro c hc
    simp only [List.mem_append, List.mem_replicate] at hc
    rcases hc with (hc | (hc | ⟨_, hc⟩) | hc) | hc
    · exact ps2_space_nosep c (h1 c hc)
    · rcases hs with hs | hs | hs <;> subst hs <;> simp at hc <;> omega
    · omega
    · have := ps2_digit_nosep c (decStr_digits n c hc); omega
    · exact ps2_space_nosep c (h2 c hc)
  exact ⟨fun m => (key _ m).1 rfl, fun m => (key _ m).2.1 rfl, fun m => (key _ m).2.2.1 rfl,
    fun m => (key _ m).2.2.2 rfl⟩

/-- what `parse_connection_path` returns comes from the pieces of the normalised string -/
theorem ps2_parseConn_ok_inv (path : Name) (auto : Bool) (host : Name) (port : Option Int) (segs : List Seg)
    (h : parseConnectionPath path auto = .ok (host, port, segs)) :
    ∃ ip route, PyStr.split 47 (PyStr.replaceC 44 47 (PyStr.replaceC 92 47 path)) = ip :: route ∧
      parseCipRouteList route auto = .ok segs := by
  unfold parseConnectionPath at h
  simp only at h
  split at h
  · simp at h
  · rename_i ip route hsp
    refine ⟨ip, route, hsp, ?_⟩
    split at h
    · simp at h
    · split at h
      · simp at h
      · rename_i segs' hs
        simp at h
        rw [hs, h.2.2]

-- PROPERTY THEOREMS

/-- `joinSegs` is the expression used in `bad_tcp_port_rejected` and `separators_interchangeable` -/
theorem joinSegs_eq (seps : List Nat) (route : List Name) :
    joinSegs seps route = ((seps.zip route).map fun p => p.1 :: p.2).flatten := rfl

/-! #### 1. the TCP port -/

/-- complete behaviour of `host:port` followed by route pieces (any separator mix): the port text is read
    by `int()`; no number, a value ≤ 0 or ≥ 65535 is RequestError; any other value v (1..65534) is
    returned as `some v` together with the parse of the route pieces -/
theorem tcp_port_complete (host pt : Name) (route : List Name) (auto : Bool)
    (hh : 58 ∉ host ∧ 47 ∉ host ∧ 92 ∉ host ∧ 44 ∉ host)
    (hpt : 58 ∉ pt ∧ 47 ∉ pt ∧ 92 ∉ pt ∧ 44 ∉ pt)
    (hr : ∀ r ∈ route, 47 ∉ r ∧ 92 ∉ r ∧ 44 ∉ r)
    (seps : List Nat) (hseps : ∀ c ∈ seps, c = 47 ∨ c = 92 ∨ c = 44) (hlen : seps.length = route.length) :
    parseConnectionPath (host ++ [58] ++ pt ++ joinSegs seps route) auto =
      (match PyStr.pyInt pt with
       | none => .error .request
       | some v =>
          if v ≤ 0 ∨ 65535 ≤ v then .error .request
          else (parseCipRouteList route auto).map fun segs => (host, some v, segs)) :=
  ps2_parse_with_port host pt route auto hh hpt hr seps hseps hlen

/-- a port text that `int()` reads as a value in 1..65534 is accepted and returned; the route pieces are
    parsed exactly as without a port (`separators_interchangeable`).  The accepted range 1..65534 is the
    exact complement of the rejection range of `bad_tcp_port_rejected` (`tcp_port_case_split`).
    Note: 65535, a valid TCP port, is rejected by the library (`port >= 65535`). -/
theorem tcp_port_parsed (host pt : Name) (route : List Name) (auto : Bool)
    (hh : 58 ∉ host ∧ 47 ∉ host ∧ 92 ∉ host ∧ 44 ∉ host)
    (hpt : 58 ∉ pt ∧ 47 ∉ pt ∧ 92 ∉ pt ∧ 44 ∉ pt)
    (hr : ∀ r ∈ route, 47 ∉ r ∧ 92 ∉ r ∧ 44 ∉ r)
    (v : Int) (hv : PyStr.pyInt pt = some v) (hlo : 1 ≤ v) (hhi : v ≤ 65534)
    (seps : List Nat) (hseps : ∀ c ∈ seps, c = 47 ∨ c = 92 ∨ c = 44) (hlen : seps.length = route.length) :
    parseConnectionPath (host ++ [58] ++ pt ++ joinSegs seps route) auto =
      (parseCipRouteList route auto).map fun segs => (host, some v, segs) := by
  have := ps2_parse_with_port host pt route auto hh hpt hr seps hseps hlen
  have hx : ¬ (v ≤ 0 ∨ 65535 ≤ v) := by omega
  simp only [hv, hx, if_false] at this
  exact this

/-- the hypotheses of `tcp_port_parsed` and of `bad_tcp_port_rejected` are exhaustive and exclusive:
    every port text falls under exactly one of the two theorems -/
theorem tcp_port_case_split (pt : Name) :
    (∃ v, PyStr.pyInt pt = some v ∧ 1 ≤ v ∧ v ≤ 65534) ↔
      ¬ (PyStr.pyInt pt = none ∨ ∃ v, PyStr.pyInt pt = some v ∧ (v ≤ 0 ∨ 65535 ≤ v)) := by
  cases h : PyStr.pyInt pt with
  | none => simp
  | some v =>
    simp only [Option.some.injEq, reduceCtorEq, false_or]
    constructor
    · rintro ⟨w, hw, h1, h2⟩ ⟨u, hu, h3⟩
      subst hw; subst hu; omega
    · intro hn
      refine ⟨v, rfl, ?_⟩
      have : ¬ (v ≤ 0 ∨ 65535 ≤ v) := fun hx => hn ⟨v, rfl, hx⟩
      omega

/-- what `int()` makes of a decimal port text: surrounding blanks (space, TAB..CR), one leading `+`
    and any number of leading zeros are all accepted and do not change the value (as in Python:
    `int(" +044818 ") == 44818`) -/
theorem port_text_value (ws1 ws2 : Name) (plus : Bool) (k n : Nat)
    (h1 : ∀ c ∈ ws1, PyStr.isSpaceC c = true) (h2 : ∀ c ∈ ws2, PyStr.isSpaceC c = true) :
    PyStr.pyInt (ws1 ++ ((if plus then [43] else []) ++ List.replicate k 48 ++ decStr n) ++ ws2) =
      some (n : Int) := by
  rw [ps2_pyInt_pad _ _ _ h1 h2]
  have hd := ps2_isDigit_zeros k (decStr n) (decStr_isDigit n)
  have hv : decVal (List.replicate k 48 ++ decStr n) = n := by rw [ps2_decVal_zeros, decStr_val]
  cases plus with
  | true =>
    have := ps2_pyInt_plus _ hd
    rw [hv] at this
    simpa using this
  | false =>
    have := ps2_pyInt_digits _ hd
    rw [hv] at this
    simpa using this

/-- a leading `-` is read as a negative number … -/
theorem port_text_minus (ws1 ws2 : Name) (k n : Nat)
    (h1 : ∀ c ∈ ws1, PyStr.isSpaceC c = true) (h2 : ∀ c ∈ ws2, PyStr.isSpaceC c = true) :
    PyStr.pyInt (ws1 ++ ([45] ++ List.replicate k 48 ++ decStr n) ++ ws2) = some (-(n : Int)) := by
  rw [ps2_pyInt_pad _ _ _ h1 h2]
  have hd := ps2_isDigit_zeros k (decStr n) (decStr_isDigit n)
  have hv : decVal (List.replicate k 48 ++ decStr n) = n := by rw [ps2_decVal_zeros, decStr_val]
  have := ps2_pyInt_minus _ hd
  rw [hv] at this
  simpa using this

/-- every decimal spelling (blanks, `+`, leading zeros) of a port number 1..65534 after `host:` yields
    that port -/
theorem tcp_port_decimal (host : Name) (route : List Name) (auto : Bool)
    (ws1 ws2 : Name) (plus : Bool) (k n : Nat)
    (hh : 58 ∉ host ∧ 47 ∉ host ∧ 92 ∉ host ∧ 44 ∉ host)
    (h1 : ∀ c ∈ ws1, PyStr.isSpaceC c = true) (h2 : ∀ c ∈ ws2, PyStr.isSpaceC c = true)
    (hlo : 1 ≤ n) (hhi : n ≤ 65534)
    (hr : ∀ r ∈ route, 47 ∉ r ∧ 92 ∉ r ∧ 44 ∉ r)
    (seps : List Nat) (hseps : ∀ c ∈ seps, c = 47 ∨ c = 92 ∨ c = 44) (hlen : seps.length = route.length) :
    parseConnectionPath
      (host ++ [58] ++ (ws1 ++ ((if plus then [43] else []) ++ List.replicate k 48 ++ decStr n) ++ ws2) ++
        joinSegs seps route) auto =
      (parseCipRouteList route auto).map fun segs => (host, some (n : Int), segs) := by
  have hclean := ps2_portText_clean ws1 ws2 (if plus then [43] else []) k n h1 h2
    (by cases plus <;> simp)
  exact tcp_port_parsed host _ route auto hh hclean hr (n : Int) (port_text_value ws1 ws2 plus k n h1 h2)
    (by omega) (by omega) seps hseps hlen

/-- … and a negative (or zero) port is rejected with RequestError -/
theorem tcp_port_minus_rejected (host : Name) (route : List Name) (auto : Bool)
    (ws1 ws2 : Name) (k n : Nat)
    (hh : 58 ∉ host ∧ 47 ∉ host ∧ 92 ∉ host ∧ 44 ∉ host)
    (h1 : ∀ c ∈ ws1, PyStr.isSpaceC c = true) (h2 : ∀ c ∈ ws2, PyStr.isSpaceC c = true)
    (hr : ∀ r ∈ route, 47 ∉ r ∧ 92 ∉ r ∧ 44 ∉ r)
    (seps : List Nat) (hseps : ∀ c ∈ seps, c = 47 ∨ c = 92 ∨ c = 44) (hlen : seps.length = route.length) :
    parseConnectionPath
      (host ++ [58] ++ (ws1 ++ ([45] ++ List.replicate k 48 ++ decStr n) ++ ws2) ++ joinSegs seps route) auto =
      .error .request := by
  have hclean := ps2_portText_clean ws1 ws2 [45] k n h1 h2 (by simp)
  exact bad_tcp_port_rejected host _ route auto hh hclean hr
    (.inr ⟨-(n : Int), port_text_minus ws1 ws2 k n h1 h2, .inl (by omega)⟩) seps hseps hlen

/-! #### 2. colons in the host part -/

/-- a first piece with two or more colons is rejected with RequestError ("10.0.0.1::44818",
    "a:b:44818"): the library unpacks `ip.split(':')` into exactly two names -/
theorem host_multi_colon_rejected (ip : Name) (route : List Name) (auto : Bool)
    (hip : 47 ∉ ip ∧ 92 ∉ ip ∧ 44 ∉ ip) (hc : 2 ≤ ip.count 58)
    (hr : ∀ r ∈ route, 47 ∉ r ∧ 92 ∉ r ∧ 44 ∉ r)
    (seps : List Nat) (hseps : ∀ c ∈ seps, c = 47 ∨ c = 92 ∨ c = 44) (hlen : seps.length = route.length) :
    parseConnectionPath (ip ++ joinSegs seps route) auto = .error .request := by
  have hsp := split_path ip route seps hip hr hseps hlen
  have hcont : ip.contains 58 = true := by
    have : 0 < ip.count 58 := by omega
    simpa using List.count_pos_iff.mp this
  have hl := ps2_splitOn_length 58 ip
  rcases hs : splitOn 58 ip with _ | ⟨a, _ | ⟨b, _ | ⟨c, t⟩⟩⟩
  · rw [hs] at hl; simp at hl
  · rw [hs] at hl; simp at hl; omega
  · rw [hs] at hl; simp at hl; omega
  · have hs' : PyStr.split 58 ip = a :: b :: c :: t := hs
    simp only [parseConnectionPath, joinSegs, hsp, hcont, hs', if_true]

/-! #### 3./4. from the string to the route bytes -/

/-- `Spells` (canonical decimals) is a special case of `SpellsLax` (any digit text with that value) -/
theorem spells_lax (hops : List Hop) (segs : List Name) (h : Spells hops segs) : SpellsLax hops segs :=
  ps2_spells_lax hops segs h

/-- `route_of_spelling` for the wider class of spellings: numbers may carry leading zeros ("01/007") -/
theorem route_of_lax_spelling (hops : List Hop) (segs : List Name) (hw : ∀ h ∈ hops, WfHop h)
    (hs : SpellsLax hops segs) (hn : (hops.map refHop).flatten.length / 2 ≤ 255) :
    ∃ route, parseCipRouteList segs false = .ok route ∧ encEpath true route true false = .ok (refRoute hops) := by
  refine ⟨parseCipRouteList.pairs segs, parseCipRouteList_even segs ?_, ?_⟩
  · rw [ps2_spellsLax_length hops segs hs]; omega
  · have hu := usint_ok _ hn
    have hb := ps2_encSegs_lax hops segs hw hs
    simp only [refRoute]
    generalize (hops.map refHop).flatten = body at hu hb ⊢
    have hc : ((body.length : Int) / 2) = ((body.length / 2 : Nat) : Int) := by omega
    simp only [encEpath, hb, if_true, hc, hu]
    simp

-- STATEMENT CHANGED: the hypothesis `ha : auto = false ∨ hops ≠ []` is forced.  With `auto_slot` and no
-- hop the string is the bare-address shortcut: "10.0.0.1" parses to backplane/0 (bytes 01 01 00), not
-- to the empty route `refRoute [] = [0]` (`#guard`s in `Ex2`; `whole_path_shortcuts` covers that case).
-- It excludes no input: every (string, auto_slot) combination falls under this theorem or the shortcuts.
/-- one theorem from the string to the route bytes: a path text `host[:port]` followed by the segment
    texts of a well-formed hop list - any documented alias or any digit spelling per port, any digit
    spelling per slot, any mix of the three separators - is parsed to the host, the port (if given) and a
    route whose encoding is `refRoute hops`.  With `auto_slot` the same holds for every non-empty route. -/
theorem whole_path_of_spelling (host : Name) (port : Option Name) (v : Option Int) (hops : List Hop)
    (segs : List Name) (seps : List Nat) (auto : Bool)
    (hh : 58 ∉ host ∧ 47 ∉ host ∧ 92 ∉ host ∧ 44 ∉ host) (hp : PortReads port v)
    (hw : ∀ h ∈ hops, WfHop h) (hs : SpellsLax hops segs)
    (hn : (hops.map refHop).flatten.length / 2 ≤ 255)
    (hseps : ∀ c ∈ seps, c = 47 ∨ c = 92 ∨ c = 44) (hlen : seps.length = segs.length)
    (ha : auto = false ∨ hops ≠ []) :
    ∃ route, parseConnectionPath (pathText host port seps segs) auto = .ok (host, v, route) ∧
      encEpath true route true false = .ok (refRoute hops) := by
  obtain ⟨route, hr1, hr2⟩ := route_of_lax_spelling hops segs hw hs hn
  have hclean := ps2_spellsLax_clean hops segs (fun h hm => ps2_wf_lax h (hw h hm)) hs
  have hparse := ps2_parse_pathText host port v segs auto hh hp hclean seps hseps hlen
  have hauto : parseCipRouteList segs auto = .ok route := by
    rcases ha with ha | ha
    · rw [ha]; exact hr1
    · rw [ps2_auto_irrelevant segs auto, hr1]
      have := ps2_spellsLax_length hops segs hs
      cases hops with
      | nil => exact absurd rfl ha
      | cons a t => simp at this; omega
  refine ⟨route, ?_, hr2⟩
  rw [hparse, hauto]; rfl

/-- two spellings of the same hops - different aliases or digit spellings, different separators, even
    different hosts and ports - give identical route bytes -/
theorem aliases_equal_bytes (hops : List Hop)
    (host1 host2 : Name) (port1 port2 : Option Name) (v1 v2 : Option Int)
    (segs1 segs2 : List Name) (seps1 seps2 : List Nat) (auto1 auto2 : Bool)
    (hh1 : 58 ∉ host1 ∧ 47 ∉ host1 ∧ 92 ∉ host1 ∧ 44 ∉ host1) (hp1 : PortReads port1 v1)
    (hh2 : 58 ∉ host2 ∧ 47 ∉ host2 ∧ 92 ∉ host2 ∧ 44 ∉ host2) (hp2 : PortReads port2 v2)
    (hw : ∀ h ∈ hops, WfHop h) (hs1 : SpellsLax hops segs1) (hs2 : SpellsLax hops segs2)
    (hn : (hops.map refHop).flatten.length / 2 ≤ 255)
    (hseps1 : ∀ c ∈ seps1, c = 47 ∨ c = 92 ∨ c = 44) (hlen1 : seps1.length = segs1.length)
    (hseps2 : ∀ c ∈ seps2, c = 47 ∨ c = 92 ∨ c = 44) (hlen2 : seps2.length = segs2.length)
    (ha1 : auto1 = false ∨ hops ≠ []) (ha2 : auto2 = false ∨ hops ≠ []) :
    ∃ bs, routeBytesOf (pathText host1 port1 seps1 segs1) auto1 = .ok bs ∧
          routeBytesOf (pathText host2 port2 seps2 segs2) auto2 = .ok bs := by
  obtain ⟨r1, hr1, he1⟩ := whole_path_of_spelling host1 port1 v1 hops segs1 seps1 auto1 hh1 hp1 hw hs1 hn hseps1 hlen1 ha1
  obtain ⟨r2, hr2, he2⟩ := whole_path_of_spelling host2 port2 v2 hops segs2 seps2 auto2 hh2 hp2 hw hs2 hn hseps2 hlen2 ha2
  exact ⟨refRoute hops, by simp [routeBytesOf, hr1, he1], by simp [routeBytesOf, hr2, he2]⟩

/-- the shortcuts of the Logix/SLC drivers (`auto_slot`) from the string: `host[:port]` alone is
    backplane slot 0, `host[:port]<sep>slot` is backplane/slot - same bytes as the spelled-out
    `host/bp/slot` -/
theorem whole_path_shortcuts (host : Name) (port : Option Name) (v : Option Int) (sep n : Nat)
    (hh : 58 ∉ host ∧ 47 ∉ host ∧ 92 ∉ host ∧ 44 ∉ host) (hp : PortReads port v)
    (hsep : sep = 47 ∨ sep = 92 ∨ sep = 44) (hn : n ≤ 255) :
    (∃ route, parseConnectionPath (pathText host port [] []) true = .ok (host, v, route) ∧
        encEpath true route true false = .ok (refRoute [⟨1, .slot 0⟩])) ∧
    (∃ route, parseConnectionPath (pathText host port [sep] [decStr n]) true = .ok (host, v, route) ∧
        encEpath true route true false = .ok (refRoute [⟨1, .slot n⟩])) := by
  constructor
  · have hparse := ps2_parse_pathText host port v [] true hh hp (by simp) [] (by simp) rfl
    refine ⟨_, ?_, shortcut_bare.2⟩
    rw [hparse, shortcut_bare.1]; rfl
  · have hparse := ps2_parse_pathText host port v [decStr n] true hh hp
      (by intro r hr; simp at hr; rw [hr]; exact (ps2_decStr_clean n).2) [sep]
      (by intro c hc; simp at hc; rw [hc]; exact hsep) rfl
    refine ⟨_, ?_, (shortcut_slot n hn).2⟩
    rw [hparse, (shortcut_slot n hn).1]; rfl

/-! #### 5. failures: classification, and no bytes outside the grammar -/

/-- every failure of `parse_connection_path` is a RequestError - for every string -/
theorem parse_failure_is_request (path : Name) (auto : Bool) (e : Exn)
    (h : parseConnectionPath path auto = .error e) : e = .request :=
  ps2_parseConn_request path auto e h

/-- every failure of the route encoding is a DataError - for every segment list -/
theorem encode_failure_is_data (padded : Bool) (segs : List Seg) (length padLen : Bool) (e : Exn)
    (h : encEpath padded segs length padLen = .error e) : e = .data :=
  ps2_encEpath_data padded segs length padLen e h

/-- for every string: route bytes exist exactly when the string parses and its route encodes; a string
    that does not parse gives RequestError and no bytes, a string whose route does not encode gives
    DataError and no bytes; there is no third kind of failure -/
theorem rejected_never_yields_bytes (path : Name) (auto : Bool) :
    (∀ e, parseConnectionPath path auto = .error e →
        e = .request ∧ routeBytesOf path auto = .error .request) ∧
    (∀ host port segs e, parseConnectionPath path auto = .ok (host, port, segs) →
        encEpath true segs true false = .error e →
        e = .data ∧ routeBytesOf path auto = .error .data) ∧
    (∀ bs, routeBytesOf path auto = .ok bs ↔
        ∃ host port segs, parseConnectionPath path auto = .ok (host, port, segs) ∧
          encEpath true segs true false = .ok bs) ∧
    (∀ e, routeBytesOf path auto = .error e → e = .request ∨ e = .data) := by
  refine ⟨?_, ?_, ?_, ?_⟩
  · intro e h
    have := ps2_parseConn_request path auto e h
    subst this
    exact ⟨rfl, by simp [routeBytesOf, h]⟩
  · intro host port segs e h he
    have := ps2_encEpath_data _ _ _ _ e he
    subst this
    exact ⟨rfl, by simp [routeBytesOf, h, he]⟩
  · intro bs
    unfold routeBytesOf
    cases h : parseConnectionPath path auto with
    | error e => simp
    | ok r =>
      obtain ⟨host, port, segs⟩ := r
      simp only [Except.ok.injEq, Prod.mk.injEq]
      constructor
      · intro he; exact ⟨host, port, segs, ⟨rfl, rfl, rfl⟩, he⟩
      · rintro ⟨_, _, _, ⟨rfl, rfl, rfl⟩, he⟩; exact he
  · intro e h
    unfold routeBytesOf at h
    cases hp : parseConnectionPath path auto with
    | error e' =>
      rw [hp] at h
      simp at h
      rw [← h]
      exact .inl (ps2_parseConn_request path auto e' hp)
    | ok r =>
      obtain ⟨host, port, segs⟩ := r
      rw [hp] at h
      exact .inr (ps2_encEpath_data _ _ _ _ e h)

/-- string level, "never yields route bytes": a path text (any host, optional valid port, any separator
    mix, any other pieces) with a pair whose port text is neither a number nor a known name, or whose link
    text is a number above 255 or neither a number nor an IPv4 address, gives DataError - no bytes -/
theorem bad_pair_in_path (host : Name) (port : Option Name) (v : Option Int) (pre post : List Name)
    (p l : Name) (seps : List Nat) (auto : Bool)
    (hh : 58 ∉ host ∧ 47 ∉ host ∧ 92 ∉ host ∧ 44 ∉ host) (hp : PortReads port v)
    (hr : ∀ r ∈ pre ++ p :: l :: post, 47 ∉ r ∧ 92 ∉ r ∧ 44 ∉ r)
    (hseps : ∀ c ∈ seps, c = 47 ∨ c = 92 ∨ c = 44) (hlen : seps.length = (pre ++ p :: l :: post).length)
    (hpre : pre.length % 2 = 0) (hpost : post.length % 2 = 0)
    (hbad : (PyStr.isDigit p = false ∧ lookupName p Gen.portSegments = none) ∨
            (PyStr.isDigit l = true ∧ 255 < PyStr.decVal l) ∨
            (PyStr.isDigit l = false ∧ parseIPv4 l = none)) :
    routeBytesOf (pathText host port seps (pre ++ p :: l :: post)) auto = .error .data := by
  have hparse := ps2_parse_pathText host port v (pre ++ p :: l :: post) auto hh hp hr seps hseps hlen
  have hlen2 : 2 ≤ (pre ++ p :: l :: post).length := by simp; omega
  have heven : (pre ++ p :: l :: post).length % 2 = 0 := by simp; omega
  rw [ps2_auto_irrelevant _ auto hlen2, parseCipRouteList_even _ heven] at hparse
  have hpairs : parseCipRouteList.pairs (pre ++ p :: l :: post) =
      parseCipRouteList.pairs pre ++
        Seg.port (if PyStr.isDigit p then .int (PyStr.decVal p) else .name p) (.str l) ::
          parseCipRouteList.pairs post := by
    rw [ps2_pairs_append pre _ hpre]; rfl
  have henc : encEpath true (parseCipRouteList.pairs (pre ++ p :: l :: post)) true false = .error .data := by
    rw [hpairs]
    rcases hbad with ⟨h1, h2⟩ | hb
    · simp only [h1]
      exact unknown_port_rejected _ _ p _ h2 true false
    · exact bad_link_rejected _ _ _ l hb true false
  simp only [routeBytesOf, hparse, Except.map, henc]

-- STATEMENT CHANGED: the natural converse "bytes only for pieces spelling a WELL-FORMED hop list (`WfHop`,
-- port 1..14)" is false of the model and of the library: "10.0.0.1/16/1" gives 01 10 01, "10.0.0.1/0/1"
-- gives 01 00 01, "10.0.0.1/200/1.2.3.4" gives 05 d8 07 "1.2.3.4" 00 (`#guard`s in `Ex2`, same bytes from
-- the library).  The corrected statement has `LaxHop` (port number 0..255) and gives `refRoute` for 1..14.
/-- the converse of `route_of_lax_spelling`, for arbitrary piece texts: if a list of pieces parses and its
    route encodes, then the pieces spell (`SpellsLax`) a hop list the library accepts (`LaxHop`), and if
    all its port numbers are CIP port numbers 1..14 the bytes are `refRoute` of that hop list.  So no
    list of pieces outside the grammar yields bytes.
    FINDING (kept in the statement as `LaxHop`): a port given by number is only required to fit a byte:
    "10.0.0.1/16/1", "10.0.0.1/0/1", "10.0.0.1/200/1.2.3.4" are encoded, although 0, 15 and every number
    above 15 are not port identifiers of a one-byte port segment (bit 4 is the extended-link flag). -/
theorem bytes_only_from_grammar (route : List Name) (auto : Bool) (segs : List Seg) (bs : Bytes)
    (ha : auto = false ∨ 2 ≤ route.length)
    (hparse : parseCipRouteList route auto = .ok segs)
    (henc : encEpath true segs true false = .ok bs) :
    ∃ hops, SpellsLax hops route ∧ (∀ h ∈ hops, LaxHop h) ∧
      ((∀ h ∈ hops, 1 ≤ h.port ∧ h.port ≤ 14) → bs = refRoute hops) := by
  have hparse' : parseCipRouteList route false = .ok segs := by
    rcases ha with ha | ha
    · rw [← ha]; exact hparse
    · rw [← ps2_auto_irrelevant route auto ha]; exact hparse
  have heven : route.length % 2 = 0 := by
    cases hm : route.length % 2 with
    | zero => rfl
    | succ k =>
      have h1 : route.length % 2 = 1 := by omega
      rw [odd_segments_rejected route false h1 (.inr rfl)] at hparse'
      simp at hparse'
  rw [parseCipRouteList_even route heven] at hparse'
  simp only [Except.ok.injEq] at hparse'
  subst hparse'
  cases hb : encSegs true (parseCipRouteList.pairs route) with
  | error e => simp [encEpath, hb] at henc
  | ok body =>
    obtain ⟨hops, hs, hl⟩ := ps2_pairs_inv route body heven hb
    refine ⟨hops, hs, hl, ?_⟩
    intro hports
    have hw : ∀ h ∈ hops, WfHop h := fun h hm => ps2_lax_wf h (hl h hm) (hports h hm)
    have hb2 := ps2_encSegs_lax hops route hw hs
    rw [hb] at hb2
    simp only [Except.ok.injEq] at hb2
    subst hb2
    generalize hbody : (hops.map refHop).flatten = body at hb
    simp only [encEpath, hb, if_true] at henc
    have hc : ((body.length : Int) / 2) = ((body.length / 2 : Nat) : Int) := by omega
    cases hu : usint ((body.length / 2 : Nat) : Int) with
    | error e => rw [hc, hu] at henc; simp at henc
    | ok lb =>
      obtain ⟨_, hlb⟩ := ps2_usint_ok_le _ lb hu
      rw [hc, hu] at henc
      simp at henc
      rw [← henc, hlb]
      simp [refRoute, hbody]

/-- the same for arbitrary strings (no `auto_slot`): if a string yields route bytes at all, its pieces
    after the host part spell a hop list, and the bytes are the route of that hop list whenever its
    port numbers are 1..14 -/
theorem path_bytes_only_from_grammar (path : Name) (bs : Bytes) (h : routeBytesOf path false = .ok bs) :
    ∃ ip route hops,
      PyStr.split 47 (PyStr.replaceC 44 47 (PyStr.replaceC 92 47 path)) = ip :: route ∧
      SpellsLax hops route ∧ (∀ h ∈ hops, LaxHop h) ∧
      ((∀ h ∈ hops, 1 ≤ h.port ∧ h.port ≤ 14) → bs = refRoute hops) := by
  unfold routeBytesOf at h
  cases hp : parseConnectionPath path false with
  | error e => simp [hp] at h
  | ok r =>
    obtain ⟨host, port, segs⟩ := r
    rw [hp] at h
    obtain ⟨ip, route, hsp, hroute⟩ := ps2_parseConn_ok_inv path false host port segs hp
    obtain ⟨hops, hs, hl, hbs⟩ := bytes_only_from_grammar route false segs bs (.inl rfl) hroute h
    exact ⟨ip, route, hops, hsp, hs, hl, hbs⟩

/-! #### 6. a dangling separator -/

/-- a separator at the very end adds an empty last piece, and an empty piece is never turned into a
    slot number: after `host[:port]` alone the path is rejected with RequestError without `auto_slot`;
    with `auto_slot` it parses to backplane + the EMPTY link text, whose encoding is DataError;
    after an even number of pieces it is RequestError (odd count); after an odd number of pieces the
    last pair has an empty link and the encoding is DataError.  In no case are bytes produced. -/
theorem dangling_separator (host : Name) (port : Option Name) (v : Option Int) (route : List Name)
    (seps : List Nat) (sep : Nat) (auto : Bool)
    (hh : 58 ∉ host ∧ 47 ∉ host ∧ 92 ∉ host ∧ 44 ∉ host) (hp : PortReads port v)
    (hr : ∀ r ∈ route, 47 ∉ r ∧ 92 ∉ r ∧ 44 ∉ r)
    (hseps : ∀ c ∈ seps, c = 47 ∨ c = 92 ∨ c = 44) (hlen : seps.length = route.length)
    (hsep : sep = 47 ∨ sep = 92 ∨ sep = 44) :
    routeBytesOf (pathText host port seps route ++ [sep]) auto =
      (if route.length % 2 = 0 then
         (if route = [] ∧ auto = true then .error .data else .error .request)
       else .error .data) := by
  rw [ps2_pathText_snoc host port seps route sep hlen]
  have hr' : ∀ r ∈ route ++ [[]], 47 ∉ r ∧ 92 ∉ r ∧ 44 ∉ r := by
    intro r hm
    simp only [List.mem_append, List.mem_singleton] at hm
    rcases hm with hm | hm
    · exact hr r hm
    · rw [hm]; simp
  have hseps' : ∀ c ∈ seps ++ [sep], c = 47 ∨ c = 92 ∨ c = 44 := by
    intro c hm
    simp only [List.mem_append, List.mem_singleton] at hm
    rcases hm with hm | hm
    · exact hseps c hm
    · rw [hm]; exact hsep
  have hparse := ps2_parse_pathText host port v (route ++ [[]]) auto hh hp hr' (seps ++ [sep]) hseps'
    (by simp [hlen])
  by_cases hev : route.length % 2 = 0
  · simp only [hev, if_true]
    by_cases hnil : route = []
    · subst hnil
      cases auto with
      | true =>
        have e : parseCipRouteList ([] ++ [[]]) true = .ok [Seg.port (.name (nm "bp")) (.str [])] := rfl
        have henc : encEpath true [Seg.port (.name (nm "bp")) (.str [])] true false = .error .data :=
          bad_link_rejected [] [] _ [] (.inr ⟨by decide, by decide⟩) true false
        simp only [routeBytesOf, hparse, e, Except.map, henc]
        simp
      | false =>
        have e : parseCipRouteList ([] ++ [[]]) false = .error .request := rfl
        simp only [routeBytesOf, hparse, e, Except.map]
        simp
    · have hl2 : 2 ≤ route.length := by
        cases route with
        | nil => exact absurd rfl hnil
        | cons a t =>
          cases t with
          | nil => simp at hev
          | cons b t => simp
      have e : parseCipRouteList (route ++ [[]]) auto = .error .request :=
        odd_segments_rejected _ auto (by simp; omega) (.inl (by simp; omega))
      simp [routeBytesOf, hparse, e, Except.map, hnil]
  · simp only [hev, if_false]
    have hodd : route.length % 2 = 1 := by omega
    have hne : route ≠ [] := by intro h; rw [h] at hodd; simp at hodd
    obtain ⟨pre, p, hpp⟩ : ∃ pre p, route = pre ++ [p] :=
      ⟨route.dropLast, route.getLast hne, (List.dropLast_concat_getLast hne).symm⟩
    subst hpp
    have hpre : pre.length % 2 = 0 := by simp at hodd; omega
    have e1 : pre ++ [p] ++ [[]] = pre ++ p :: [] :: [] := by simp
    rw [e1] at hparse ⊢
    have hl2 : 2 ≤ (pre ++ p :: [] :: []).length := by simp
    have heven : (pre ++ p :: [] :: []).length % 2 = 0 := by simp; omega
    rw [ps2_auto_irrelevant _ auto hl2, parseCipRouteList_even _ heven, ps2_pairs_append pre _ hpre] at hparse
    have henc : encEpath true (parseCipRouteList.pairs pre ++
        parseCipRouteList.pairs (p :: [] :: [])) true false = .error .data :=
      bad_link_rejected _ [] _ [] (.inr ⟨by decide, by decide⟩) true false
    simp only [routeBytesOf, hparse, Except.map, henc]

/-- the two concrete shapes of `dangling_separator` at the level of the parse result: "host/" with
    `auto_slot` parses to backplane with the EMPTY link (not slot 0, not the bare-address shortcut), and
    that route cannot be encoded; without `auto_slot` it does not parse -/
theorem dangling_after_host (host : Name) (port : Option Name) (v : Option Int) (sep : Nat)
    (hh : 58 ∉ host ∧ 47 ∉ host ∧ 92 ∉ host ∧ 44 ∉ host) (hp : PortReads port v)
    (hsep : sep = 47 ∨ sep = 92 ∨ sep = 44) :
    parseConnectionPath (pathText host port [] [] ++ [sep]) false = .error .request ∧
    parseConnectionPath (pathText host port [] [] ++ [sep]) true =
      .ok (host, v, [Seg.port (.name (nm "bp")) (.str [])]) ∧
    encEpath true [Seg.port (.name (nm "bp")) (.str [])] true false = .error .data ∧
    [Seg.port (.name (nm "bp")) (.str [])] ≠ [Seg.port (.name (nm "bp")) (.int 0)] := by
  rw [ps2_pathText_snoc host port [] [] sep rfl]
  have hparse := fun auto => ps2_parse_pathText host port v ([] ++ [[]]) auto hh hp (by simp) ([] ++ [sep])
    (by intro c hc; simp at hc; rw [hc]; exact hsep) rfl
  refine ⟨?_, ?_, ?_, by decide⟩
  · rw [hparse false]; rfl
  · rw [hparse true]; rfl
  · exact bad_link_rejected [] [] _ [] (.inr ⟨by decide, by decide⟩) true false

/-! ### non-vacuity: every hypothesis discharged on concrete strings, and the model RUN on them -/
namespace Ex2

def host1 : Name := nm "10.0.0.1"
def host2 : Name := nm "plc.local"
def ip3 : Name := nm "10.11.12.13"
def sp : Name := [32]

private theorem host1_clean : 58 ∉ host1 ∧ 47 ∉ host1 ∧ 92 ∉ host1 ∧ 44 ∉ host1 := by decide
private theorem host2_clean : 58 ∉ host2 ∧ 47 ∉ host2 ∧ 92 ∉ host2 ∧ 44 ∉ host2 := by decide
private theorem pt_clean : 58 ∉ nm "44818" ∧ 47 ∉ nm "44818" ∧ 92 ∉ nm "44818" ∧ 44 ∉ nm "44818" := by decide
private theorem pt_val : PyStr.pyInt (nm "44818") = some 44818 := by decide
private theorem bp2_clean : ∀ r ∈ [nm "bp", nm "2"], 47 ∉ r ∧ 92 ∉ r ∧ 44 ∉ r := by decide
private theorem seps2 : ∀ c ∈ [47, 47], c = 47 ∨ c = 92 ∨ c = 44 := by decide
private theorem port1 : PortReads (some (nm "44818")) (some 44818) := ⟨pt_clean, pt_val, by decide, by decide⟩
private theorem sp_space : ∀ c ∈ sp, PyStr.isSpaceC c = true := by decide

/-- the strings -/
example : pathText host1 (some (nm "44818")) [47, 47] [nm "bp", nm "2"] = nm "10.0.0.1:44818/bp/2" := by decide
example : host1 ++ [58] ++ nm "44818" ++ joinSegs [47, 47] [nm "bp", nm "2"] = nm "10.0.0.1:44818/bp/2" := by decide
example : pathText host2 none [44, 44, 44, 44, 44, 44]
    [nm "backplane", nm "1", nm "enet", ip3, nm "bp", nm "0"] = nm "plc.local,backplane,1,enet,10.11.12.13,bp,0" := by
  decide

/-! 1. the TCP port -/
example := tcp_port_complete host1 (nm "44818") [nm "bp", nm "2"] false host1_clean pt_clean bp2_clean [47, 47] seps2 rfl
example : parseConnectionPath (nm "10.0.0.1:44818/bp/2") false =
    .ok (host1, some 44818, [Seg.port (.name (nm "bp")) (.str (nm "2"))]) :=
  tcp_port_parsed host1 (nm "44818") [nm "bp", nm "2"] false host1_clean pt_clean bp2_clean 44818 pt_val
    (by decide) (by decide) [47, 47] seps2 rfl
example := (tcp_port_case_split (nm "44818")).mp ⟨44818, pt_val, by decide, by decide⟩
example := port_text_value sp sp true 2 44818 sp_space sp_space
example := port_text_minus sp sp 0 44818 sp_space sp_space
example := tcp_port_decimal host1 [nm "bp", nm "2"] false sp sp true 2 44818 host1_clean sp_space sp_space
  (by decide) (by decide) bp2_clean [47, 47] seps2 rfl
example := tcp_port_minus_rejected host1 [nm "bp", nm "2"] false sp sp 0 44818 host1_clean sp_space sp_space
  bp2_clean [47, 47] seps2 rfl
#guard decStr 44818 == nm "44818"
#guard host1 ++ [58] ++ (sp ++ ((if true then [43] else []) ++ List.replicate 2 48 ++ decStr 44818) ++ sp) ++
  joinSegs [47, 47] [nm "bp", nm "2"] == nm "10.0.0.1: +0044818 /bp/2"
-- the model run on the spellings of the port (each line agrees with CPython 3.11 `int()` and the library)
#guard PyStr.pyInt (nm " 44818 ") == some 44818
#guard PyStr.pyInt (nm "+44818") == some 44818
#guard PyStr.pyInt (nm "0044818") == some 44818
#guard PyStr.pyInt (nm "\t+044_818\n") == some 44818      -- a single underscore between digits is accepted
#guard PyStr.pyInt (nm "+ 44818") == none                   -- no blank between sign and digits
#guard PyStr.pyInt (nm "44__818") == none
#guard PyStr.pyInt (nm "-1") == some (-1)
#guard PyStr.pyInt (nm "") == none
#guard (parseConnectionPath (nm "10.0.0.1: +044_818 /bp/2") false matches .ok (_, some 44818, _))
#guard (parseConnectionPath (nm "10.0.0.1:1") false matches .ok (_, some 1, []))
#guard (parseConnectionPath (nm "10.0.0.1:65534") false matches .ok (_, some 65534, []))
#guard (parseConnectionPath (nm "10.0.0.1:65535") false matches .error .request)   -- a valid TCP port, refused
#guard (parseConnectionPath (nm "10.0.0.1:0") false matches .error .request)
#guard (parseConnectionPath (nm "10.0.0.1:-5") false matches .error .request)
#guard (parseConnectionPath (nm "10.0.0.1:") false matches .error .request)
#guard (parseConnectionPath (nm "10.0.0.1:http") false matches .error .request)

/-! 2. colons -/
example : parseConnectionPath (nm "10.0.0.1::44818") false = .error .request :=
  host_multi_colon_rejected (nm "10.0.0.1::44818") [] false (by decide) (by decide) (by simp) [] (by simp) rfl
example : parseConnectionPath (nm "10.0.0.1:1:44818/bp/2") true = .error .request :=
  host_multi_colon_rejected (nm "10.0.0.1:1:44818") [nm "bp", nm "2"] true (by decide) (by decide) bp2_clean
    [47, 47] seps2 rfl
#guard (parseConnectionPath (nm "10.0.0.1::44818") true matches .error .request)
#guard (parseConnectionPath (nm "a:b:c:d") false matches .error .request)

/-! 3./4. whole paths -/
def hops1 : List Hop := [⟨1, .slot 2⟩]
def hops3 : List Hop := [⟨1, .slot 1⟩, ⟨2, .ip ip3⟩, ⟨1, .slot 0⟩]

private theorem hops1_wf : ∀ h ∈ hops1, WfHop h := by
  intro h hm; simp [hops1] at hm; subst hm; simp [WfHop]
private theorem hops3_wf : ∀ h ∈ hops3, WfHop h := by
  intro h hm
  simp only [hops3, List.mem_cons, List.not_mem_nil, or_false] at hm
  rcases hm with hm | hm | hm <;> subst hm
  · simp [WfHop]
  · exact ⟨by decide, by decide, ⟨[10, 11, 12, 13], by rfl⟩, by decide, by decide, by decide⟩
  · simp [WfHop]
private theorem hops1_size : (hops1.map refHop).flatten.length / 2 ≤ 255 := route_words_le hops1 hops1_wf (by decide)
private theorem hops3_size : (hops3.map refHop).flatten.length / 2 ≤ 255 := route_words_le hops3 hops3_wf (by decide)

private theorem spell1 : SpellsLax hops1 [nm "bp", nm "2"] :=
  ⟨.inr (by rfl), ⟨by decide, by decide⟩, trivial⟩
/-- "backplane,1,enet,10.11.12.13,bp,0" -/
private theorem spell3a : SpellsLax hops3 [nm "backplane", nm "1", nm "enet", ip3, nm "bp", nm "0"] :=
  ⟨.inr (by rfl), ⟨by decide, by decide⟩, .inr (by rfl), rfl, .inr (by rfl), ⟨by decide, by decide⟩, trivial⟩
/-- "1/01/2/10.11.12.13/backplane/000": numbers, leading zeros, the other alias -/
private theorem spell3b : SpellsLax hops3 [nm "1", nm "01", nm "2", ip3, nm "backplane", nm "000"] :=
  ⟨.inl ⟨by decide, by decide⟩, ⟨by decide, by decide⟩, .inl ⟨by decide, by decide⟩, rfl, .inr (by rfl),
    ⟨by decide, by decide⟩, trivial⟩
/-- the canonical spelling of `route_of_spelling` is a special case -/
example : SpellsLax hops1 [nm "backplane", decStr 2] :=
  spells_lax hops1 _ ⟨Or.inr (by rfl), rfl, trivial⟩

example := route_of_lax_spelling hops3 _ hops3_wf spell3b hops3_size
/-- "10.0.0.1:44818/bp/2" -/
example := whole_path_of_spelling host1 (some (nm "44818")) (some 44818) hops1 [nm "bp", nm "2"] [47, 47] false
  host1_clean port1 hops1_wf spell1 hops1_size seps2 rfl (.inl rfl)
/-- "plc.local,backplane,1,enet,10.11.12.13,bp,0" (with `auto_slot`, as the Logix driver calls it) -/
example := whole_path_of_spelling host2 none none hops3 _ [44, 44, 44, 44, 44, 44] true
  host2_clean trivial hops3_wf spell3a hops3_size (by decide) rfl (.inr (by decide))
/-- "plc.local,backplane,1,enet,10.11.12.13,bp,0" and "10.0.0.1:44818/1\01,2/10.11.12.13\backplane/000" -/
example := aliases_equal_bytes hops3 host2 host1 none (some (nm "44818")) none (some 44818) _ _
  [44, 44, 44, 44, 44, 44] [47, 92, 44, 47, 92, 47] true false host2_clean trivial host1_clean port1
  hops3_wf spell3a spell3b hops3_size (by decide) rfl (by decide) rfl (.inr (by decide)) (.inl rfl)
example := whole_path_shortcuts host1 (some (nm "44818")) (some 44818) 47 3 host1_clean port1 (.inl rfl) (by decide)
example := whole_path_shortcuts host1 none none 44 3 host1_clean trivial (.inr (.inr rfl)) (by decide)

-- the model run: bytes as produced by the library (`EPATH.encode(route, length=True)`)
#guard (routeBytesOf (nm "10.0.0.1:44818/bp/2") false matches .ok [1, 1, 2])
#guard (match routeBytesOf (nm "plc.local,backplane,1,enet,10.11.12.13,bp,0") true,
    routeBytesOf (nm "10.0.0.1:44818/1\\01,2/10.11.12.13\\backplane/000") false with
  | .ok a, .ok b => a == b
  | _, _ => false)
#guard (match routeBytesOf (nm "plc.local,backplane,1,enet,10.11.12.13,bp,0") true with
  | .ok bs => bs == refRoute hops3 && bs == [9, 1, 1, 0x12, 11] ++ ip3.map UInt8.ofNat ++ [0, 1, 0]
  | _ => false)
#guard (routeBytesOf (nm "10.0.0.1") true matches .ok [1, 1, 0])
#guard (routeBytesOf (nm "10.0.0.1/3") true matches .ok [1, 1, 3])
#guard (routeBytesOf (nm "10.0.0.1:44818,3") true matches .ok [1, 1, 3])
#guard (routeBytesOf (nm "10.0.0.1/01/007") false matches .ok [1, 1, 7])
-- why `whole_path_of_spelling` needs `auto = false ∨ hops ≠ []`: with `auto_slot` the empty hop list
-- is the bare-address shortcut, whose route is backplane/0 and not the empty route
#guard (routeBytesOf (nm "10.0.0.1") false matches .ok [0])
#guard refRoute [] == [0]

/-! 5. failures -/
example : (Exn.request : Exn) = .request :=
  parse_failure_is_request (nm "10.0.0.1::44818") false .request (by rfl)
example : (Exn.data : Exn) = .data :=
  encode_failure_is_data true [Seg.port (.name (nm "bp")) (.str [])] true false .data (by rfl)
example := (rejected_never_yields_bytes (nm "10.0.0.1/bp") false).1 .request (by rfl)
example := (rejected_never_yields_bytes (nm "10.0.0.1/xx/1") false).2.1 (nm "10.0.0.1") none
  [Seg.port (.name (nm "xx")) (.str (nm "1"))] .data (by rfl) (by rfl)
example := ((rejected_never_yields_bytes (nm "10.0.0.1/bp/2") false).2.2.1 [1, 1, 2]).mp (by rfl)
example := (rejected_never_yields_bytes (nm "10.0.0.1/bp") false).2.2.2 .request (by rfl)
/-- "10.0.0.1:44818/bp/1/foo/2": unknown port name in the second pair -/
example : routeBytesOf (nm "10.0.0.1:44818/bp/1/foo/2") false = .error .data :=
  bad_pair_in_path host1 (some (nm "44818")) (some 44818) [nm "bp", nm "1"] [] (nm "foo") (nm "2")
    [47, 47, 47, 47] false host1_clean port1 (by decide) (by decide) rfl rfl rfl (.inl ⟨by decide, by decide⟩)
/-- "10.0.0.1\bp\256,enet,1.2.3.4": slot out of range in the first pair -/
example := bad_pair_in_path host1 none none [] [nm "enet", nm "1.2.3.4"] (nm "bp") (nm "256")
    [92, 92, 44, 44] true host1_clean trivial (by decide) (by decide) rfl rfl rfl (.inr (.inl ⟨by decide, by decide⟩))
/-- "10.0.0.1/enet/1.2.3": link neither a number nor an IPv4 address -/
example := bad_pair_in_path host1 none none [] [] (nm "enet") (nm "1.2.3")
    [47, 47] false host1_clean trivial (by decide) (by decide) rfl rfl rfl (.inr (.inr ⟨by decide, by decide⟩))
example := bytes_only_from_grammar [nm "bp", nm "2"] false [Seg.port (.name (nm "bp")) (.str (nm "2"))] [1, 1, 2]
  (.inl rfl) (by rfl) (by rfl)
example := path_bytes_only_from_grammar (nm "10.0.0.1:44818/bp/2") [1, 1, 2] (by rfl)

#guard (routeBytesOf (nm "10.0.0.1/bp") false matches .error .request)            -- odd number of segments
#guard (routeBytesOf (nm "10.0.0.1/bp/1/enet") true matches .error .request)
#guard (routeBytesOf (nm "10.0.0.1/foo/1") false matches .error .data)            -- unknown port name
#guard (routeBytesOf (nm "10.0.0.1/bp/256") false matches .error .data)           -- link out of range
#guard (routeBytesOf (nm "10.0.0.1/enet/1.2.3.256") false matches .error .data)
#guard (routeBytesOf (nm "10.0.0.1/256/1") false matches .error .data)            -- port number above a byte
#guard (routeBytesOf (nm "10.0.0.1:70000/bp/1") false matches .error .request)    -- invalid TCP port
-- FINDING (see `bytes_only_from_grammar`): numeric ports are not range-checked beyond "fits a byte";
-- the same bytes come out of the library: b'\x01\x10\x01', b'\x01\x00\x01', b'\x05\xd8\x071.2.3.4\x00'
#guard (routeBytesOf (nm "10.0.0.1/16/1") false matches .ok [1, 16, 1])
#guard (routeBytesOf (nm "10.0.0.1/0/1") false matches .ok [1, 0, 1])
#guard (routeBytesOf (nm "10.0.0.1/200/1.2.3.4") false matches .ok [5, 0xd8, 7, 49, 46, 50, 46, 51, 46, 52, 0])

/-! 6. dangling separators -/
/-- "10.0.0.1/" -/
example : routeBytesOf (nm "10.0.0.1/") false = .error .request :=
  dangling_separator host1 none none [] [] 47 false host1_clean trivial (by simp) (by simp) rfl (.inl rfl)
example : routeBytesOf (nm "10.0.0.1/") true = .error .data :=
  dangling_separator host1 none none [] [] 47 true host1_clean trivial (by simp) (by simp) rfl (.inl rfl)
/-- "10.0.0.1/bp/" -/
example : routeBytesOf (nm "10.0.0.1/bp/") true = .error .data :=
  dangling_separator host1 none none [nm "bp"] [47] 47 true host1_clean trivial (by decide) (by decide) rfl (.inl rfl)
/-- "10.0.0.1:44818/bp/2," -/
example : routeBytesOf (nm "10.0.0.1:44818/bp/2,") true = .error .request :=
  dangling_separator host1 (some (nm "44818")) (some 44818) [nm "bp", nm "2"] [47, 47] 44 true host1_clean port1
    bp2_clean seps2 rfl (.inr (.inr rfl))
example := dangling_after_host host1 none none 47 host1_clean trivial (.inl rfl)
#guard (parseConnectionPath (nm "10.0.0.1/") false matches .error .request)
#guard (parseConnectionPath (nm "10.0.0.1/") true matches .ok (_, none, [Seg.port (.name [98, 112]) (.str [])]))
#guard (routeBytesOf (nm "10.0.0.1/") true matches .error .data)
#guard (routeBytesOf (nm "10.0.0.1/bp/") false matches .error .data)
#guard (routeBytesOf (nm "10.0.0.1/bp/2/") false matches .error .request)
#guard (routeBytesOf (nm "10.0.0.1//") true matches .error .data)        -- two empty pieces: pair ("", "")

end Ex2

end Pycomm.Path
