/-
  C18 over whole histories ("SlcRefine"): any sequence of `SLCDriver.read` / `SLCDriver.write` calls on a healthy
  connected driver behaves like the same sequence of operations on an abstract data table.

  The abstract table (`Spec`) maps a file number to the file's type code and its list of 16-BIT WORDS (not bytes):
  element e of an integer / binary / status / input / output file is word e (an I/O position moves on by whole words),
  of a float / long file the words 2e (low) and 2e+1 (high), of a timer / counter file the words 3e (status bits),
  3e+1 (PRE), 3e+2 (ACC).  `Spec.read` / `Spec.write` are pure functions on that table written from the prose of the
  property; they do not mention the PCCC request, the byte layout or the target's handler.  `abs` reads the bytes of
  the reference target's files as little-endian words.

  Helper layers (spec-independent): SlcRef1 (bytes ↔ words), SlcRef2 (typed read / masked write of the target in the
  word view, every outcome), SlcRef3 (`_parse_read_reply` on words, every address form), SlcRef4 (`writeable_value`
  and the write request on words), SlcRef5 (one call with any number of addresses on a healthy world, the
  connection's counters hidden: `slrf_Healthy`).  Everything that mentions `Spec` comes after the marker; the helper
  theorems there are `private`.

  Covered by the history theorem: every address form `parse_tag` accepts (N B S I O words and bits, `Bf/n`, F and L
  words and bits, `{n}` of all of these, I/O positions, PRE / ACC / status bits of T and C), any number of addresses
  per call, files that are missing, of another type or too short (the specification gives the status).
  NOT covered (outside `OpOk`, nothing is claimed): `{0}` (the target answers 0x10: falsy Tag, `#guard` below);
  requests of more than 255 bytes (`N7:0{128}`, `F8:0{64}`: the size byte does not encode, the call raises);
  values outside the element type's domain as listed at `Spec.elemWords` - among them values the library does accept:
  bools in the place of integers, ints / bools for a float element, a `str` for `{n}` - and `bytes` / `dict` values;
  a `{n}` bit address in a write (RequestError); ST and A files (`parse_tag` of the model has no pattern for them).
-/
import PycommProofs.SlcRef5
namespace Pycomm.Slc.Drv
open Pycomm Pycomm.Tgt Pycomm.Slc

-- PROPERTY THEOREMS

/-! ## 1. the abstract data table -/

/-- one data file: its type code (0x89 N, 0x85 B, 0x84 S, 0x83 I, 0x82 O, 0x8A F, 0x91 L, 0x86 T, 0x87 C) and its
    16-bit words -/
structure SFile where
  ftype : Nat
  words : List Nat
  deriving DecidableEq, Repr

/-- the abstract data table: file number ↦ file (`none`: the controller has no file with that number) -/
abbrev Spec := Nat → Option SFile

/-- the abstraction map: the file a number selects in the reference target's table (the first one with that number),
    its bytes read as little-endian 16-bit words -/
def abs (tbl : Table) : Spec := fun k =>
  (tbl.find? (fun g => g.num == k)).map fun f => { ftype := f.ftype, words := words f.data }

namespace Spec

/-- 16-bit words per element: timers and counters 3 (status bits, PRE, ACC), floats and longs 2 (low word first),
    every other file 1 -/
def wordsPer (ft : Name) : Nat :=
  if ft = nm "T" ∨ ft = nm "C" then 3 else if ft = nm "F" ∨ ft = nm "L" then 2 else 1

/-- the first word an address names: element e starts at word `wordsPer × e`; an I/O position moves on by words -/
def base (a : Addr) : Nat := wordsPer a.fileType * a.element + a.posNumber

/-- n words of file k (type code ty) from word i on; status 0x10: no file k of that type, 0x50: beyond its end -/
def fetch (s : Spec) (k ty i n : Nat) : Except Nat (List Nat) :=
  match s k with
  | none => .error 0x10
  | some f =>
      if f.ftype ≠ ty then .error 0x10
      else if f.words.length < i + n then .error 0x50
      else .ok ((f.words.drop i).take n)

/-- the words of file k (type code ty) from word i on replaced by `new`; same statuses; nothing else changes -/
def store (s : Spec) (k ty i : Nat) (new : List Nat) : Except Nat Spec :=
  match s k with
  | none => .error 0x10
  | some f =>
      if f.ftype ≠ ty then .error 0x10
      else if f.words.length < i + new.length then .error 0x50
      else .ok fun k' =>
        if k' = k then some { f with words := f.words.take i ++ new ++ f.words.drop (i + new.length) } else s k'

/-- word i of file k (0 when there is none) -/
def wordAt (s : Spec) (k i : Nat) : Nat :=
  match s k with
  | some f => f.words.getD i 0
  | none => 0

/-- the value of the element starting at word i of `ws`: F a binary32 (low word first) widened to a Python float,
    L a 32-bit two's complement integer (low word first), every other file a 16-bit two's complement integer -/
def elemVal (ft : Name) (ws : List Nat) (i : Nat) : PyVal :=
  if ft = nm "F" then .float (Flt.widen (ws.getD i 0 + 65536 * ws.getD (i + 1) 0))
  else if ft = nm "L" then .int (int32 (ws.getD i 0 + 65536 * ws.getD (i + 1) 0))
  else .int (int16 (ws.getD i 0))

/-- the value a read of address `a` returns, from the words `ws` it covers (`wordsPer × count` words from `base a`
    on): PRE / ACC of a timer / counter are words 1 / 2 of the element; every other bit address is bit b of the
    element's first word; a word address is the element's value, with `{n}` (n ≥ 2) the list of n consecutive
    elements' values -/
def value (a : Addr) (ws : List Nat) : PyVal :=
  if a.addressField = 3 then
    if (a.fileType = nm "T" ∨ a.fileType = nm "C") ∧ a.subElement = 1 then .int (int16 (ws.getD 1 0))
    else if (a.fileType = nm "T" ∨ a.fileType = nm "C") ∧ a.subElement = 2 then .int (int16 (ws.getD 2 0))
    else .bool ((ws.getD 0 0).testBit a.subElement)
  else if a.count = 1 then elemVal a.fileType ws 0
  else .list ((List.range a.count).map fun j => elemVal a.fileType ws (wordsPer a.fileType * j))

/-- `read(a)`: the `wordsPer × count` words from `base a` on, as a value - or the status -/
def read (s : Spec) (a : Addr) : Except Nat PyVal :=
  (fetch s a.fileNumber (typeCode a.fileType) (base a) (wordsPer a.fileType * a.count)).map (value a)

/-- the words of one element value; `none`: the value is outside the domain of the element type covered here
    (16-bit integers for N B S I O T C, 32-bit integers for L, a Python float that `struct.pack('<f')` accepts for F) -/
def elemWords (ft : Name) (v : PyVal) : Option (List Nat) :=
  match v with
  | .int x =>
      if ft = nm "F" then none
      else if ft = nm "L" then
        if -2147483648 ≤ x ∧ x ≤ 2147483647 then
          some [(x % 4294967296).toNat % 65536, (x % 4294967296).toNat / 65536]
        else none
      else if -32768 ≤ x ∧ x ≤ 32767 then some [(x % 65536).toNat] else none
  | .float b => if ft = nm "F" then (Flt.narrow b).map fun r => [r % 65536, r / 65536] else none
  | _ => none

/-- the words of a sequence of element values, one after the other -/
def seqWords (ft : Name) : List PyVal → Option (List Nat)
  | [] => some []
  | v :: vs =>
      match elemWords ft v, seqWords ft vs with
      | some a, some b => some (a ++ b)
      | _, _ => none

/-- bit b of a 16-bit word set to t -/
def setBit (w b : Nat) (t : Bool) : Nat := if t then w ||| 2 ^ b else w &&& (65535 - 2 ^ b)

/-- `bytes` and `dict` values are handled by `writeable_value` in ways of their own (outside the domain) -/
def isRaw : PyVal → Bool
  | .bytes _ => true
  | .dict _ => true
  | _ => false

/-- what `write(a, v)` stores: the index of the first word and the words (`old` = the word at `base a`, which a bit
    write modifies); `none`: outside the domain.  PRE / ACC: one 16-bit integer into word 1 / 2 of the element.  Any
    other bit address: bit b of the element's first word becomes `bool(v)`, the other bits stay.  A word address: the
    element's words; with `{n}` (n ≥ 2) a list or tuple of at least n values, of which the first n are stored in n
    consecutive elements. -/
def newWords (a : Addr) (v : PyVal) (old : Nat) : Option (Nat × List Nat) :=
  if a.addressField = 3 then
    if a.count ≠ 1 then none
    else if (a.fileType = nm "T" ∨ a.fileType = nm "C") ∧ (a.subElement = 1 ∨ a.subElement = 2) then
      (elemWords a.fileType v).map fun ws => (base a + a.subElement, ws)
    else if isRaw v then none
    else some (base a, [setBit old a.subElement v.truthy])
  else if a.count = 1 then (elemWords a.fileType v).map fun ws => (base a, ws)
  else if 2 ≤ a.count then
    match v with
    | .list vs | .tuple vs =>
        if a.count ≤ vs.length then (seqWords a.fileType (vs.take a.count)).map fun ws => (base a, ws) else none
    | _ => none
  else none

/-- `write(a, v)`: the new table - or the status, with the table unchanged -/
def write (s : Spec) (a : Addr) (v : PyVal) : Except Nat Spec :=
  match newWords a v (wordAt s a.fileNumber (base a)) with
  | none => .ok s
  | some (i, new) => store s a.fileNumber (typeCode a.fileType) i new

/-- the table after `write(a, v)` -/
def after (s : Spec) (a : Addr) (v : PyVal) : Spec :=
  match write s a v with
  | .ok s' => s'
  | .error _ => s

/-- the text of a PCCC status -/
def statusText (e : Nat) : Name := (Status.lookupNat e Gen.pcccErrorCode).getD unknownStatus

/-- the Tag `read(a)` returns: the value, or a falsy Tag carrying the status text -/
def readTag (s : Spec) (a : Addr) : STag :=
  match read s a with
  | .ok v => { tag := a.tag, value := v, type := a.fileType, error := none }
  | .error e => { tag := a.tag, value := .none, type := a.fileType, error := some (statusText e) }

/-- the Tag `write(a, v)` returns: the value handed in is echoed, or a falsy Tag carrying the status text -/
def writeTag (s : Spec) (a : Addr) (v : PyVal) : STag :=
  match write s a v with
  | .ok _ => { tag := a.tag, value := v, type := a.fileType, error := none }
  | .error e => { tag := a.tag, value := .none, type := a.fileType, error := some (statusText e) }

/-- what a read returns for an element whose value was written as `v`: integers come back as they are; a float comes
    back as the binary32 it was rounded to, widened again -/
def echoElem (v : PyVal) : PyVal :=
  match v with
  | .float b => (match Flt.narrow b with | some r => .float (Flt.widen r) | none => v)
  | _ => v

/-- what `read(a)` returns after `write(a, v)`: PRE / ACC the integer; any other bit address `bool(v)`; a word address
    the element value; with `{n}` the list of the first n values -/
def echo (a : Addr) (v : PyVal) : PyVal :=
  if a.addressField = 3 then
    if (a.fileType = nm "T" ∨ a.fileType = nm "C") ∧ (a.subElement = 1 ∨ a.subElement = 2) then v else .bool v.truthy
  else if a.count = 1 then echoElem v
  else
    match v with
    | .list vs | .tuple vs => .list ((vs.take a.count).map echoElem)
    | _ => v

/-- the words a write to address `a` occupies: the first word and how many -/
def writeCells (a : Addr) : Nat × Nat :=
  if a.addressField = 3 then
    if (a.fileType = nm "T" ∨ a.fileType = nm "C") ∧ (a.subElement = 1 ∨ a.subElement = 2) then
      (base a + a.subElement, 1)
    else (base a, 1)
  else (base a, wordsPer a.fileType * a.count)

/-- a write to `a'` stays clear of the words a read of `a` covers: another file, or disjoint word ranges -/
def Apart (a' a : Addr) : Prop :=
  a'.fileNumber ≠ a.fileNumber ∨ (writeCells a').1 + (writeCells a').2 ≤ base a ∨
    base a + wordsPer a.fileType * a.count ≤ (writeCells a').1

instance (a' a : Addr) : Decidable (Apart a' a) := by unfold Apart; infer_instance

/-- the supported domain of a read: at least one element, the byte size of the request fits its size byte
    (`wordsPer × count ≤ 127` words), the I/O position fits its field (every accepted address: at most 999) -/
def ReadOk (a : Addr) : Prop := 1 ≤ a.count ∧ wordsPer a.fileType * a.count ≤ 127 ∧ a.posNumber < 65536

/-- the supported domain of a write: the value is in the domain of the address form, same size limits -/
def WriteOk (a : Addr) (v : PyVal) : Prop :=
  (newWords a v 0).isSome ∧ wordsPer a.fileType * a.count ≤ 127 ∧ a.posNumber < 65536

instance (a : Addr) : Decidable (ReadOk a) := by unfold ReadOk; infer_instance
instance (a : Addr) (v : PyVal) : Decidable (WriteOk a v) := by unfold WriteOk; infer_instance

end Spec

/-- an operation of a history: `read(*addresses)` or `write(*address_values)`, addresses as texts -/
inductive Op where
  | read (addresses : List Name)
  | write (avs : List (Name × PyVal))

/-- the address text is accepted by `parse_tag` and lies in the supported domain -/
def ReadOkT (t : Name) : Prop :=
  match parseTag t with
  | some a => Spec.ReadOk a
  | none => False

def WriteOkT (p : Name × PyVal) : Prop :=
  match parseTag p.1 with
  | some a => Spec.WriteOk a p.2
  | none => False

instance (t : Name) : Decidable (ReadOkT t) := by unfold ReadOkT; split <;> infer_instance
instance (p : Name × PyVal) : Decidable (WriteOkT p) := by unfold WriteOkT; split <;> infer_instance

/-- the domain predicate of the history theorem.  It does not depend on the table: whether the addressed file exists,
    has the right type and is long enough is NOT part of the domain - the specification answers those requests with
    the status the target gives (0x10 / 0x50) and leaves the table unchanged. -/
def OpOk : Op → Prop
  | .read ts => ∀ t ∈ ts, ReadOkT t
  | .write avs => ∀ p ∈ avs, WriteOkT p

instance (op : Op) : Decidable (OpOk op) := by cases op <;> unfold OpOk <;> infer_instance

namespace Spec

/-- `read(*addresses)` on the abstract table: one Tag per address -/
def readAll (s : Spec) (ts : List Name) : List STag := ts.filterMap fun t => (parseTag t).map (readTag s)

/-- `write(*address_values)` on the abstract table: one Tag per pair, each on the table its predecessors left -/
def writeAll (s : Spec) : List (Name × PyVal) → List STag × Spec
  | [] => ([], s)
  | (t, v) :: rest =>
      match parseTag t with
      | some a =>
          let out := writeAll (after s a v) rest
          (writeTag s a v :: out.1, out.2)
      | none => writeAll s rest

/-- one operation: the Tags it returns and the table it leaves -/
def step (s : Spec) : Op → List STag × Spec
  | .read ts => (readAll s ts, s)
  | .write avs => writeAll s avs

/-- a history of operations: what each returns, and the final table -/
def run (s : Spec) : List Op → List (List STag) × Spec
  | [] => ([], s)
  | op :: ops =>
      let r := step s op
      let out := run r.2 ops
      (r.1 :: out.1, out.2)

end Spec

/-- one call of the driver model -/
def opCall (w : Cli.World Ext) : Op → Cli.World Ext × Except Exn (List STag)
  | .read ts => slcRead hookAll w ts
  | .write avs => slcWrite hookAll w avs

/-- a history of calls of the driver model, each on the world the one before left: what each returns (or raises),
    and the final world -/
def runCalls (w : Cli.World Ext) : List Op → List (Except Exn (List STag)) × Cli.World Ext
  | [] => ([], w)
  | op :: ops =>
      let r := opCall w op
      let out := runCalls r.1 ops
      (r.2 :: out.1, out.2)

/-! ### glue: the specification's primitives against the target in the word view -/

private theorem slrf_abs_view (tbl : Table) (k : Nat) :
    abs tbl k = (slrf_view tbl k).map fun p => { ftype := p.1, words := p.2 } := by
  unfold abs slrf_view sd2_file
  cases tbl.find? (fun g => g.num == k) <;> rfl

private theorem slrf_view_of_abs {tbl : Table} {k : Nat} {f : SFile} (h : abs tbl k = some f) :
    slrf_view tbl k = some (f.ftype, f.words) := by
  rw [slrf_abs_view] at h
  cases hv : slrf_view tbl k with
  | none => rw [hv] at h; cases h
  | some p =>
    rw [hv] at h
    simp only [Option.map_some, Option.some.injEq] at h
    subst h
    rfl

private theorem slrf_view_none_of_abs {tbl : Table} {k : Nat} (h : abs tbl k = none) : slrf_view tbl k = none := by
  rw [slrf_abs_view] at h
  cases hv : slrf_view tbl k with
  | none => rfl
  | some p => rw [hv] at h; cases h

private theorem slrf_abs_words_lt {tbl : Table} {k : Nat} {f : SFile} (h : abs tbl k = some f) :
    ∀ w ∈ f.words, w < 65536 := by
  obtain ⟨g, _, _, h3⟩ := slrf_view_some (slrf_view_of_abs h)
  rw [← h3]
  exact slrf_words_lt g.data

/-- the typed read of the target is the specification's `fetch` -/
private theorem slrf_fetch_refines (tbl : Table) (k ty elem sub i n : Nat) (hoff : byteOffset ty elem sub = 2 * i)
    (hn : 0 < n) :
    typedRead tbl (2 * n) k ty elem sub = (Spec.fetch (abs tbl) k ty i n).map slrf_bytes := by
  unfold Spec.fetch
  cases hf : abs tbl k with
  | none => simp only [slrf_typedRead_none tbl _ k ty elem sub (slrf_view_none_of_abs hf)]; rfl
  | some f =>
    have hv := slrf_view_of_abs hf
    simp only
    by_cases hty : f.ftype ≠ ty
    · rw [if_pos hty, slrf_typedRead_type tbl _ k ty elem sub _ _ hv hty]; rfl
    · have hty' : f.ftype = ty := Decidable.not_not.mp hty
      rw [hty'] at hv
      rw [if_neg hty]
      by_cases hr : f.words.length < i + n
      · rw [if_pos hr, slrf_typedRead_range tbl n k ty elem sub i _ hv hoff hn hr]; rfl
      · rw [if_neg hr, slrf_typedRead_ok tbl n k ty elem sub i _ hv hoff hn (by omega)]; rfl

private theorem slrf_fetch_ok {tbl : Table} {k ty i n : Nat} {ws : List Nat}
    (h : Spec.fetch (abs tbl) k ty i n = .ok ws) : ws.length = n ∧ ∀ w ∈ ws, w < 65536 := by
  unfold Spec.fetch at h
  cases hf : abs tbl k with
  | none => rw [hf] at h; cases h
  | some f =>
    rw [hf] at h
    simp only at h
    split at h
    · cases h
    · split at h
      · cases h
      · injection h with h
        subst h
        refine ⟨by simp only [List.length_take, List.length_drop]; omega, fun w hw => ?_⟩
        exact slrf_abs_words_lt hf w (List.mem_of_mem_drop (List.mem_of_mem_take hw))

/-- a write outcome of the target and a write outcome of the specification agree: same status, or tables that
    abstract to each other -/
private def slrf_Agree (r : Except Nat Table) (q : Except Nat Spec) : Prop :=
  match r, q with
  | .ok t, .ok s => abs t = s
  | .error e, .error e' => e = e'
  | _, _ => False

private theorem slrf_store_of_view (tbl tbl' : Table) (k ty i : Nat) (ws new : List Nat)
    (hv : slrf_view tbl k = some (ty, ws)) (hr : i + new.length ≤ ws.length)
    (hv' : slrf_view tbl' k = some (ty, ws.take i ++ new ++ ws.drop (i + new.length)))
    (hoth : ∀ k', k' ≠ k → slrf_view tbl' k' = slrf_view tbl k') :
    Spec.store (abs tbl) k ty i new = .ok (abs tbl') := by
  have hf : abs tbl k = some { ftype := ty, words := ws } := by rw [slrf_abs_view, hv]; rfl
  unfold Spec.store
  simp only [hf]
  rw [if_neg (fun h => h rfl), if_neg (by omega)]
  congr 1
  funext k'
  by_cases hk : k' = k
  · subst hk
    rw [if_pos rfl, slrf_abs_view, hv']
    rfl
  · rw [if_neg hk, slrf_abs_view, slrf_abs_view, hoth k' hk]

/-- a full-mask write of the target is the specification's `store` -/
private theorem slrf_store_refines (tbl : Table) (k ty elem sub i : Nat) (new : List Nat)
    (hoff : byteOffset ty elem sub = 2 * i) (hn : 0 < new.length) (hlt : ∀ w ∈ new, w < 65536) :
    slrf_Agree (maskedWrite tbl (2 * new.length) k ty elem sub 65535 (slrf_bytes new))
      (Spec.store (abs tbl) k ty i new) := by
  have hdl := slrf_bytes_length new
  cases hf : abs tbl k with
  | none =>
    rw [slrf_maskedWrite_none tbl _ k ty elem sub _ _ (slrf_view_none_of_abs hf)]
    simp only [Spec.store, hf, slrf_Agree]
  | some f =>
    have hv := slrf_view_of_abs hf
    by_cases hty : f.ftype ≠ ty
    · rw [slrf_maskedWrite_type tbl _ k ty elem sub _ _ _ _ hv hty]
      simp only [Spec.store, hf, if_pos hty, slrf_Agree]
    · have hty' : f.ftype = ty := Decidable.not_not.mp hty
      rw [hty'] at hv
      by_cases hr : f.words.length < i + new.length
      · rw [slrf_maskedWrite_range tbl _ k ty elem sub _ i _ _ hv hoff hn hdl hr]
        simp only [Spec.store, hf, if_neg hty, if_pos hr, slrf_Agree]
      · obtain ⟨tbl', hmw, hv', hoth, _⟩ := slrf_maskedWrite_ok tbl new.length k ty elem sub 65535 i (slrf_bytes new)
          f.words hv hoff hn hdl (by omega)
        have hold : (slrf_bytes ((f.words.drop i).take new.length)).length = (slrf_bytes new).length := by
          rw [slrf_bytes_length, slrf_bytes_length, List.length_take, List.length_drop]; omega
        rw [slrf_maskWords_full new.length _ _ hdl hold, slrf_words_bytes new hlt] at hv'
        rw [hmw, slrf_store_of_view tbl tbl' k ty i f.words new hv (by omega) hv' hoth]
        simp only [slrf_Agree]

/-- a one-bit masked write of the target is the specification's `store` of the word with that bit set -/
private theorem slrf_store_bit_refines (tbl : Table) (k ty elem sub i b : Nat) (t : Bool)
    (hoff : byteOffset ty elem sub = 2 * i) (hb : b < 16) :
    slrf_Agree (maskedWrite tbl (2 * 1) k ty elem sub (2 ^ b) (leBytes 2 (if t = true then 2 ^ b else 0)))
      (Spec.store (abs tbl) k ty i [Spec.setBit (Spec.wordAt (abs tbl) k i) b t]) := by
  have hdl : (leBytes 2 (if t = true then 2 ^ b else 0)).length = 2 * 1 := rfl
  cases hf : abs tbl k with
  | none =>
    rw [slrf_maskedWrite_none tbl _ k ty elem sub _ _ (slrf_view_none_of_abs hf)]
    simp only [Spec.store, hf, slrf_Agree]
  | some f =>
    have hv := slrf_view_of_abs hf
    by_cases hty : f.ftype ≠ ty
    · rw [slrf_maskedWrite_type tbl _ k ty elem sub _ _ _ _ hv hty]
      simp only [Spec.store, hf, if_pos hty, slrf_Agree]
    · have hty' : f.ftype = ty := Decidable.not_not.mp hty
      rw [hty'] at hv
      by_cases hr : f.words.length < i + 1
      · rw [slrf_maskedWrite_range tbl 1 k ty elem sub _ i _ _ hv hoff (by decide) hdl hr]
        simp only [Spec.store, hf, if_neg hty, List.length_cons, List.length_nil, Nat.zero_add, if_pos hr, slrf_Agree]
      · obtain ⟨tbl', hmw, hv', hoth, _⟩ := slrf_maskedWrite_ok tbl 1 k ty elem sub (2 ^ b) i _ f.words hv hoff
          (by decide) hdl (by omega)
        have hlt : i < f.words.length := by omega
        have hone : (f.words.drop i).take 1 = [f.words.getD i 0] := by
          rw [List.drop_eq_getElem_cons hlt, List.take_succ_cons, List.take_zero]
          simp [List.getD, List.getElem?_eq_getElem hlt]
        have hw : f.words.getD i 0 < 65536 := by
          have : f.words.getD i 0 ∈ f.words := by
            simp only [List.getD, List.getElem?_eq_getElem hlt, Option.getD_some]
            exact List.getElem_mem hlt
          exact slrf_abs_words_lt hf _ this
        have hD : (if t = true then 2 ^ b else 0) < 65536 := by
          split
          · exact Nat.lt_of_le_of_lt (Nat.pow_le_pow_right (by decide) (show b ≤ 15 by omega)) (by decide)
          · decide
        rw [hone, slrf_maskWords_one _ _ _ hw hD, slrf_maskedWord_bit _ b t hw hb] at hv'
        have hwa : Spec.wordAt (abs tbl) k i = f.words.getD i 0 := by simp only [Spec.wordAt, hf]
        rw [hmw, hwa]
        have := slrf_store_of_view tbl tbl' k ty i f.words [Spec.setBit (f.words.getD i 0) b t] hv
          (by simp only [List.length_cons, List.length_nil]; omega) hv' hoth
        rw [this]
        simp only [slrf_Agree]

/-- what agreement of the write outcomes gives for the Tag and the table left behind -/
private theorem slrf_agree_out (tbl : Table) (a : Addr) (v : PyVal) (r : Except Nat Table) (q : Except Nat Spec) :
    slrf_Agree r q →
    sdr_writeTagOf a v r =
        (match q with
          | .ok _ => { tag := a.tag, value := v, type := a.fileType, error := none }
          | .error e => { tag := a.tag, value := .none, type := a.fileType, error := some (Spec.statusText e) }) ∧
      abs (sdr_tbl tbl r) = (match q with | .ok s' => s' | .error _ => abs tbl) := by
  intro h
  cases r with
  | ok t =>
    cases q with
    | ok s => exact ⟨rfl, h⟩
    | error e => exact absurd h id
  | error e =>
    cases q with
    | ok s => exact absurd h id
    | error e' =>
      have : e = e' := h
      subst this
      exact ⟨rfl, rfl⟩

/-! ### glue: the address forms -/

private theorem slrf_nmT : nm "T" = [84] := by decide
private theorem slrf_nmC : nm "C" = [67] := by decide
private theorem slrf_nmF : nm "F" = [70] := by decide
private theorem slrf_nmL : nm "L" = [76] := by decide

private theorem slrf_wordsPer (a : Addr) (hr : InRange a) : Spec.wordsPer a.fileType = slrf_wpe a.fileType := by
  have := hr.ftype
  simp only [List.mem_cons, List.not_mem_nil, or_false] at this
  rcases this with h | h | h | h | h | h | h | h | h <;> rw [h] <;> decide

private theorem slrf_value_eq (a : Addr) (hr : InRange a) (ws : List Nat) : Spec.value a ws = slrf_value a ws := by
  simp only [Spec.value, slrf_value, Spec.elemVal, slrf_elem, slrf_nmT, slrf_nmC, slrf_nmF, slrf_nmL, slrf_wordsPer a hr]

/-- one `_read_tag` against the specification -/
private theorem slrf_read_refines (tbl : Table) (a : Addr) (hr : InRange a) (hok : Spec.ReadOk a) :
    sdr_readTagOf a (readAddr tbl a) = Spec.readTag (abs tbl) a := by
  obtain ⟨hc, hs, hp⟩ := hok
  have hw := slrf_wordsPer a hr
  obtain ⟨h1, _, h3, _⟩ := slrf_ft_facts hr.ftype
  rw [hw] at hs
  have hpos : 0 < slrf_wpe a.fileType * a.count := Nat.mul_pos (by omega) (by omega)
  rw [slrf_readAddr tbl a hr hp (by rw [h1, Nat.mul_assoc]; omega),
    slrf_fetch_refines tbl _ _ _ _ (Spec.base a) _ (by rw [slrf_byteOffset a hr, Spec.base, hw]) hpos]
  simp only [Spec.readTag, Spec.read, hw]
  cases hf : Spec.fetch (abs tbl) a.fileNumber (typeCode a.fileType) (Spec.base a) (slrf_wpe a.fileType * a.count) with
  | error e => rfl
  | ok ws =>
    obtain ⟨hl, hlt⟩ := slrf_fetch_ok hf
    simp only [Except.map, sdr_readTagOf, slrf_reply a hr ws hc hl hlt, slrf_value_eq a hr]

/-! ### glue: values in the domain of the element types -/

private theorem slrf_ft_cases {ft : Name} (h : ft ∈ [[78], [66], [70], [76], [83], [73], [79], [84], [67]]) :
    (ft = [84] ∨ ft = [67]) ∨ ft = [70] ∨ ft = [76] ∨ ft ∈ wordFiles := by
  simp only [List.mem_cons, List.not_mem_nil, or_false] at h
  simp only [wordFiles, List.mem_cons, List.not_mem_nil, or_false]
  rcases h with h | h | h | h | h | h | h | h | h <;> simp [h]

/-- an element value of a file with 16-bit integer elements (N B S I O, and PRE / ACC of T C) -/
private theorem slrf_elemWords_int16 (ft : Name) (hF : ft ≠ [70]) (hL : ft ≠ [76]) (v : PyVal) (ws : List Nat)
    (h : Spec.elemWords ft v = some ws) : ∃ x, v = .int x ∧ (-32768 ≤ x ∧ x ≤ 32767) ∧ ws = [word16 x] := by
  cases v with
  | int x =>
    simp only [Spec.elemWords, slrf_nmF, slrf_nmL, hF, hL, if_false] at h
    split at h
    · injection h with h
      exact ⟨x, rfl, by assumption, h.symm⟩
    · cases h
  | float b => simp only [Spec.elemWords, slrf_nmF, hF, if_false] at h; cases h
  | none | bool _ | str _ | bytes _ | list _ | tuple _ | dict _ => simp only [Spec.elemWords] at h; cases h

private theorem slrf_elemWords_long (v : PyVal) (ws : List Nat) (h : Spec.elemWords [76] v = some ws) :
    ∃ x, v = .int x ∧ (-2147483648 ≤ x ∧ x ≤ 2147483647) ∧ ws = [sd2_dword32 x % 65536, sd2_dword32 x / 65536] := by
  cases v with
  | int x =>
    simp only [Spec.elemWords, slrf_nmF, slrf_nmL, if_true] at h
    rw [if_neg (by decide)] at h
    split at h
    · injection h with h
      exact ⟨x, rfl, by assumption, h.symm⟩
    · cases h
  | float b => simp only [Spec.elemWords, slrf_nmF] at h; rw [if_neg (by decide)] at h; cases h
  | none | bool _ | str _ | bytes _ | list _ | tuple _ | dict _ => simp only [Spec.elemWords] at h; cases h

private theorem slrf_elemWords_float (v : PyVal) (ws : List Nat) (h : Spec.elemWords [70] v = some ws) :
    ∃ b r, v = .float b ∧ Flt.narrow b = some r ∧ ws = [r % 65536, r / 65536] := by
  cases v with
  | int x => simp only [Spec.elemWords, slrf_nmF, if_true] at h; cases h
  | float b =>
    simp only [Spec.elemWords, slrf_nmF, if_true] at h
    cases hn : Flt.narrow b with
    | none => rw [hn] at h; cases h
    | some r =>
      rw [hn] at h
      injection h with h
      exact ⟨b, r, rfl, hn, h.symm⟩
  | none | bool _ | str _ | bytes _ | list _ | tuple _ | dict _ => simp only [Spec.elemWords] at h; cases h

/-- a value in the domain of a file's element type (not a timer / counter file): the element codec encodes it to its
    words, as many as an element has, each below 65536 -/
private theorem slrf_elemWords_enc (ft : Name) (hft : ft ∈ [[78], [66], [70], [76], [83], [73], [79], [84], [67]])
    (h84 : ft ≠ [84]) (h67 : ft ≠ [67]) :
    ∃ ty, elemTy ft = some ty ∧ ∀ v ws, Spec.elemWords ft v = some ws →
      encode ty v = .ok (slrf_bytes ws) ∧ ws.length = slrf_wpe ft ∧ ∀ w ∈ ws, w < 65536 := by
  rcases slrf_ft_cases hft with h | h | h | h
  · rcases h with h | h
    · exact absurd h h84
    · exact absurd h h67
  · subst h
    refine ⟨.real, rfl, fun v ws hw => ?_⟩
    obtain ⟨b, r, rfl, hn, rfl⟩ := slrf_elemWords_float v ws hw
    have hr := sd2_narrow_lt b r hn
    refine ⟨slrf_enc_float b r hn, (by decide : 2 = slrf_wpe [70]), fun w hw => ?_⟩
    simp only [List.mem_cons, List.not_mem_nil, or_false] at hw
    rcases hw with rfl | rfl <;> omega
  · subst h
    refine ⟨.int .dint, rfl, fun v ws hw => ?_⟩
    obtain ⟨x, rfl, hx, rfl⟩ := slrf_elemWords_long v ws hw
    have hr := sd2_dword32_lt x
    refine ⟨slrf_enc_long x hx, (by decide : 2 = slrf_wpe [76]), fun w hw => ?_⟩
    simp only [List.mem_cons, List.not_mem_nil, or_false] at hw
    rcases hw with rfl | rfl <;> omega
  · obtain ⟨hty, _, _, _, _⟩ := slx_wordFiles h
    have hF : ft ≠ [70] := by intro e; rw [e] at h; revert h; decide
    have hL : ft ≠ [76] := by intro e; rw [e] at h; revert h; decide
    refine ⟨.int .int, hty, fun v ws hw => ?_⟩
    obtain ⟨x, rfl, hx, rfl⟩ := slrf_elemWords_int16 ft hF hL v ws hw
    refine ⟨slrf_enc_word x hx, by rw [slrf_wpe_word h]; rfl, fun w hw => ?_⟩
    simp only [List.mem_cons, List.not_mem_nil, or_false] at hw
    rw [hw]
    exact slx_word16_lt x

/-- a sequence in the domain, value by value -/
private theorem slrf_seqWords_pairs (ft : Name) : ∀ (vs : List PyVal) (ws : List Nat), Spec.seqWords ft vs = some ws →
    ∃ ps : List (PyVal × List Nat), ps.map (·.1) = vs ∧ (∀ p ∈ ps, Spec.elemWords ft p.1 = some p.2) ∧
      ps.flatMap (·.2) = ws
  | [], ws, h => by
      simp only [Spec.seqWords] at h
      injection h with h
      exact ⟨[], rfl, (fun p hp => by cases hp), h⟩
  | v :: vs, ws, h => by
      simp only [Spec.seqWords] at h
      cases h1 : Spec.elemWords ft v with
      | none => rw [h1] at h; cases h
      | some a =>
        cases h2 : Spec.seqWords ft vs with
        | none => rw [h1, h2] at h; cases h
        | some b =>
          rw [h1, h2] at h
          injection h with h
          obtain ⟨ps, e1, e2, e3⟩ := slrf_seqWords_pairs ft vs b h2
          refine ⟨(v, a) :: ps, by simp only [List.map_cons, e1], ?_, by simp only [List.flatMap_cons, e3, h]⟩
          intro p hp
          rcases List.mem_cons.mp hp with rfl | hp
          · exact h1
          · exact e2 p hp

private theorem slrf_flatMap_len (k : Nat) : ∀ (ps : List (PyVal × List Nat)), (∀ p ∈ ps, p.2.length = k) →
    (ps.flatMap (·.2)).length = k * ps.length
  | [], _ => by simp
  | p :: ps, h => by
      simp only [List.flatMap_cons, List.length_append, List.length_cons, h p List.mem_cons_self,
        slrf_flatMap_len k ps (fun q hq => h q (List.mem_cons_of_mem _ hq)), Nat.mul_succ]
      omega

private theorem slrf_notRaw {v : PyVal} (h : Spec.isRaw v = false) : (∀ b, v ≠ .bytes b) ∧ ∀ kvs, v ≠ .dict kvs := by
  cases v with
  | bytes _ => simp [Spec.isRaw] at h
  | dict _ => simp [Spec.isRaw] at h
  | none | bool _ | int _ | float _ | str _ | list _ | tuple _ =>
    exact ⟨(by intro b e; cases e), (by intro k e; cases e)⟩

private theorem slrf_getD_append_right (pre rest : List Nat) (m : Nat) :
    (pre ++ rest).getD (pre.length + m) 0 = rest.getD m 0 := by
  simp only [List.getD, List.getElem?_append_right (Nat.le_add_right _ _), Nat.add_sub_cancel_left]

private theorem slrf_elemVal_append (ft : Name) (pre rest : List Nat) (m : Nat) :
    Spec.elemVal ft (pre ++ rest) (pre.length + m) = Spec.elemVal ft rest m := by
  simp only [Spec.elemVal, slrf_getD_append_right, Nat.add_assoc]

/-- the element value of the words of `v` is what a read returns for `v` -/
private theorem slrf_elemVal_echo (ft : Name) (hft : ft ∈ [[78], [66], [70], [76], [83], [73], [79], [84], [67]])
    (v : PyVal) (ws rest : List Nat) (h : Spec.elemWords ft v = some ws) :
    Spec.elemVal ft (ws ++ rest) 0 = Spec.echoElem v := by
  by_cases hF : ft = [70]
  · subst hF
    obtain ⟨b, r, rfl, hn, rfl⟩ := slrf_elemWords_float v ws h
    simp only [Spec.elemVal, slrf_nmF, if_true, Spec.echoElem, hn, List.cons_append, List.getD_cons_zero,
      List.getD_cons_succ, Nat.mod_add_div]
  · by_cases hL : ft = [76]
    · subst hL
      obtain ⟨x, rfl, hx, rfl⟩ := slrf_elemWords_long v ws h
      simp only [Spec.elemVal, slrf_nmF, slrf_nmL, if_true, Spec.echoElem, List.cons_append, List.getD_cons_zero,
        List.getD_cons_succ, Nat.mod_add_div, sd2_int32_dword32 x hx]
      rw [if_neg (by decide)]
    · obtain ⟨x, rfl, hx, rfl⟩ := slrf_elemWords_int16 ft hF hL v ws h
      simp only [Spec.elemVal, slrf_nmF, slrf_nmL, hF, hL, if_false, Spec.echoElem, List.cons_append,
        List.getD_cons_zero, slx_int16_word16 x hx]

/-- the element values of the words of a sequence, element by element -/
private theorem slrf_seq_echo (ft : Name) (hft : ft ∈ [[78], [66], [70], [76], [83], [73], [79], [84], [67]]) (k : Nat) :
    ∀ (ps : List (PyVal × List Nat)), (∀ p ∈ ps, Spec.elemWords ft p.1 = some p.2 ∧ p.2.length = k) →
      (List.range ps.length).map (fun j => Spec.elemVal ft (ps.flatMap (·.2)) (k * j)) =
        ps.map fun p => Spec.echoElem p.1
  | [], _ => rfl
  | p :: ps, h => by
      obtain ⟨h1, h2⟩ := h p List.mem_cons_self
      have ih := slrf_seq_echo ft hft k ps (fun q hq => h q (List.mem_cons_of_mem _ hq))
      simp only [List.length_cons, List.range_succ_eq_map, List.map_cons, List.map_map, List.flatMap_cons,
        Nat.mul_zero, slrf_elemVal_echo ft hft p.1 p.2 _ h1]
      congr 1
      rw [← ih]
      apply List.map_congr_left
      intro j _
      simp only [Function.comp]
      have : k * (j + 1) = p.2.length + k * j := by rw [h2, Nat.mul_succ]; omega
      rw [this, slrf_elemVal_append]

/-- the forms of a write in the domain: what `newWords` is (for every old word), what `writeable_value` builds, and -
    for the word forms - that the words decode to the value a read returns -/
private inductive slrf_Form (a : Addr) (v : PyVal) : Prop
  | words (ws : List Nat) (haf : a.addressField = 2) (hnct : ¬ (a.fileType = [84] ∨ a.fileType = [67]))
      (hc : 1 ≤ a.count) (hnw : ∀ old, Spec.newWords a v old = some (Spec.base a, ws))
      (hlen : ws.length = slrf_wpe a.fileType * a.count) (hlt : ∀ w ∈ ws, w < 65536)
      (hwv : writeableValue a v = .ok ([0xFF, 0xFF] ++ slrf_bytes ws, dataSize a.fileType))
      (hnb : ∀ b, v ≠ .bytes b) (hnd : ∀ kvs, v ≠ .dict kvs) (hecho : Spec.value a ws = Spec.echo a v)
  | preacc (x : Int) (haf : a.addressField = 3) (hc : a.count = 1)
      (hsub : (a.fileType = [84] ∨ a.fileType = [67]) ∧ (a.subElement = 1 ∨ a.subElement = 2))
      (hv : v = .int x) (hx : -32768 ≤ x ∧ x ≤ 32767)
      (hnw : ∀ old, Spec.newWords a v old = some (Spec.base a + a.subElement, [word16 x]))
  | bit (haf : a.addressField = 3) (hc : a.count = 1)
      (hsub : ¬ ((a.fileType = [84] ∨ a.fileType = [67]) ∧ (a.subElement = 1 ∨ a.subElement = 2)))
      (hraw : Spec.isRaw v = false)
      (hnw : ∀ old, Spec.newWords a v old = some (Spec.base a, [Spec.setBit old a.subElement v.truthy]))

private theorem slrf_form (a : Addr) (v : PyVal) (hr : InRange a) (old0 : Nat)
    (hnw : (Spec.newWords a v old0).isSome) : slrf_Form a v := by
  have hw := slrf_wordsPer a hr
  rcases hr.field with haf | haf
  · -- word forms
    have hnct : ¬ (a.fileType = [84] ∨ a.fileType = [67]) := by
      intro h
      have := (hr.ct h).1
      omega
    have h84 : a.fileType ≠ [84] := fun h => hnct (.inl h)
    have h67 : a.fileType ≠ [67] := fun h => hnct (.inr h)
    obtain ⟨ty, hty, henc⟩ := slrf_elemWords_enc a.fileType hr.ftype h84 h67
    by_cases hc1 : a.count = 1
    · -- one element
      simp only [Spec.newWords, haf, hc1, if_true] at hnw
      rw [if_neg (by decide)] at hnw
      cases hew : Spec.elemWords a.fileType v with
      | none => rw [hew] at hnw; cases hnw
      | some ws =>
        obtain ⟨he1, he2, he3⟩ := henc v ws hew
        refine .words ws haf hnct (by omega) ?_ (by rw [he2, hc1, Nat.mul_one]) he3
          (slrf_writeable_single a v ty _ hty haf hc1 he1) ?_ ?_ ?_
        · intro old
          simp only [Spec.newWords, haf, hc1, if_true, hew, Option.map_some]
          rw [if_neg (by decide)]
        · intro b e; subst e; simp only [Spec.elemWords] at hew; cases hew
        · intro b e; subst e; simp only [Spec.elemWords] at hew; cases hew
        · have := slrf_elemVal_echo a.fileType hr.ftype v ws [] hew
          rw [List.append_nil] at this
          simp only [Spec.value, Spec.echo, haf, hc1, if_true, this]
          rw [if_neg (by decide), if_neg (by decide)]
    · -- `{n}` elements
      have hc2 : 2 ≤ a.count := by
        apply Nat.le_of_not_lt
        intro hlt
        simp only [Spec.newWords, haf, hc1, if_false] at hnw
        rw [if_neg (by decide), if_neg (by omega)] at hnw
        cases hnw
      have key : ∀ vs : List PyVal, (v = .list vs ∨ v = .tuple vs) →
          (if a.count ≤ vs.length then (Spec.seqWords a.fileType (vs.take a.count)).map fun ws => (Spec.base a, ws)
            else none).isSome →
          (∀ old, Spec.newWords a v old =
            if a.count ≤ vs.length then (Spec.seqWords a.fileType (vs.take a.count)).map fun ws => (Spec.base a, ws)
            else none) →
          Spec.echo a v = .list ((vs.take a.count).map Spec.echoElem) → slrf_Form a v := by
        intro vs hv hsome hnwe hecho
        by_cases hlen : a.count ≤ vs.length
        · rw [if_pos hlen] at hsome
          cases hsw : Spec.seqWords a.fileType (vs.take a.count) with
          | none => rw [hsw] at hsome; cases hsome
          | some ws =>
            obtain ⟨ps, e1, e2, e3⟩ := slrf_seqWords_pairs a.fileType _ ws hsw
            have hpl : ps.length = a.count := by
              have := congrArg List.length e1
              simp only [List.length_map, List.length_take] at this
              omega
            have hel := slrf_encodeList_flat (encode ty) (Spec.elemWords a.fileType)
              (fun v ws h => (henc v ws h).1) ps e2
            rw [e1, e3] at hel
            have hwl : ws.length = slrf_wpe a.fileType * a.count := by
              rw [← e3, slrf_flatMap_len (slrf_wpe a.fileType) ps (fun p hp => (henc _ _ (e2 p hp)).2.1), hpl]
            have hwlt : ∀ w ∈ ws, w < 65536 := by
              intro w hw'
              rw [← e3] at hw'
              obtain ⟨p, hp, hwp⟩ := List.mem_flatMap.mp hw'
              exact (henc _ _ (e2 p hp)).2.2 w hwp
            refine .words ws haf hnct (by omega) ?_ hwl hwlt
              (slrf_writeable_seq a v vs ty _ hv hty haf hc2 hlen hel)
              (fun b e => by rcases hv with h | h <;> rw [h] at e <;> cases e)
              (fun b e => by rcases hv with h | h <;> rw [h] at e <;> cases e) ?_
            · intro old
              simp only [hnwe, if_pos hlen, hsw, Option.map_some]
            · have hse := slrf_seq_echo a.fileType hr.ftype (slrf_wpe a.fileType) ps
                (fun p hp => ⟨e2 p hp, (henc _ _ (e2 p hp)).2.1⟩)
              rw [hpl, e3] at hse
              rw [hecho, ← e1, List.map_map]
              simp only [Spec.value, haf, hc1, if_false, hw, hse]
              rw [if_neg (by decide)]
              rfl
        · rw [if_neg hlen] at hsome; cases hsome
      cases v with
      | list vs =>
        refine key vs (.inl rfl) ?_ ?_ ?_
        · simp only [Spec.newWords, haf, hc1, hc2, if_true, if_false] at hnw
          rw [if_neg (by decide)] at hnw
          exact hnw
        · intro old
          simp only [Spec.newWords, haf, hc1, hc2, if_true, if_false]
          rw [if_neg (by decide)]
        · simp only [Spec.echo, haf, hc1, if_false]
          rw [if_neg (by decide)]
      | tuple vs =>
        refine key vs (.inr rfl) ?_ ?_ ?_
        · simp only [Spec.newWords, haf, hc1, hc2, if_true, if_false] at hnw
          rw [if_neg (by decide)] at hnw
          exact hnw
        · intro old
          simp only [Spec.newWords, haf, hc1, hc2, if_true, if_false]
          rw [if_neg (by decide)]
        · simp only [Spec.echo, haf, hc1, if_false]
          rw [if_neg (by decide)]
      | none | bool _ | int _ | float _ | str _ | bytes _ | dict _ =>
        simp only [Spec.newWords, haf, hc1, hc2, if_true, if_false] at hnw
        rw [if_neg (by decide)] at hnw
        cases hnw
  · -- bit forms and PRE / ACC
    have hc1 : a.count = 1 := by
      apply Decidable.byContradiction
      intro hc
      simp only [Spec.newWords, haf, if_true, hc, ne_eq, not_false_eq_true] at hnw
      cases hnw
    by_cases hsub : (a.fileType = [84] ∨ a.fileType = [67]) ∧ (a.subElement = 1 ∨ a.subElement = 2)
    · -- PRE / ACC
      have hF : a.fileType ≠ [70] := by rcases hsub.1 with h | h <;> rw [h] <;> decide
      have hL : a.fileType ≠ [76] := by rcases hsub.1 with h | h <;> rw [h] <;> decide
      simp only [Spec.newWords, haf, hc1, if_true, slrf_nmT, slrf_nmC, hsub, and_self, ne_eq, not_true_eq_false,
        if_false] at hnw
      cases hew : Spec.elemWords a.fileType v with
      | none => rw [hew] at hnw; cases hnw
      | some ws =>
        obtain ⟨x, rfl, hx, rfl⟩ := slrf_elemWords_int16 a.fileType hF hL v ws hew
        refine .preacc x haf hc1 hsub rfl hx ?_
        intro old
        simp only [Spec.newWords, haf, hc1, if_true, slrf_nmT, slrf_nmC, hsub, and_self, ne_eq, not_true_eq_false,
          if_false, hew, Option.map_some]
    · -- one bit
      simp only [Spec.newWords, haf, hc1, if_true, slrf_nmT, slrf_nmC, hsub, ne_eq, not_true_eq_false, if_false] at hnw
      have hraw : Spec.isRaw v = false := by
        cases hrv : Spec.isRaw v with
        | false => rfl
        | true => rw [hrv] at hnw; simp at hnw
      refine .bit haf hc1 hsub hraw ?_
      intro old
      simp only [Spec.newWords, haf, hc1, if_true, slrf_nmT, slrf_nmC, hsub, ne_eq, not_true_eq_false, if_false, hraw,
        Bool.false_eq_true]

/-- one `_write_tag` against the specification: the outcomes agree, and the request can be built -/
private theorem slrf_write_refines (tbl : Table) (a : Addr) (v : PyVal) (hr : InRange a) (hok : Spec.WriteOk a v) :
    slrf_Agree (writeAddr tbl a v) (Spec.write (abs tbl) a v) ∧ (∀ b, v ≠ .bytes b) ∧ (∀ kvs, v ≠ .dict kvs) ∧
      ∃ val sz, writeableValue a v = .ok (val, sz) ∧ sz * a.count ≤ 255 := by
  obtain ⟨hnw, hs, hp⟩ := hok
  have hw := slrf_wordsPer a hr
  obtain ⟨h1, _, h3, _⟩ := slrf_ft_facts hr.ftype
  rw [hw] at hs
  have hds : dataSize a.fileType * a.count ≤ 255 := by rw [h1, Nat.mul_assoc]; omega
  cases slrf_form a v hr 0 hnw with
  | words ws haf hnct hc hnwe hlen hlt hwv hnb hnd _ =>
    refine ⟨?_, hnb, hnd, _, _, hwv, hds⟩
    rw [slrf_writeAddr_full tbl a v ws hr haf hp hds hwv]
    have hsw : Spec.write (abs tbl) a v =
        Spec.store (abs tbl) a.fileNumber (typeCode a.fileType) (Spec.base a) ws := by
      simp only [Spec.write, hnwe]
    rw [hsw, ← hlen]
    exact slrf_store_refines tbl _ _ _ _ _ ws (by rw [slrf_byteOffset a hr, Spec.base, hw])
      (by rw [hlen]; exact Nat.mul_pos (by omega) (by omega)) hlt
  | preacc x haf hc1 hsub hv hx hnwe =>
    subst hv
    refine ⟨?_, (fun b e => by cases e), (fun b e => by cases e), _, _,
      slrf_writeable_ct a x hx hsub.1 haf hc1 hsub.2, by rw [hc1]; decide⟩
    rw [slrf_writeAddr_ct tbl a x hx hr hsub.1 hsub.2]
    have hpos : a.posNumber = 0 := hr.pos (by rcases hsub.1 with h | h <;> rw [h] <;> decide)
      (by rcases hsub.1 with h | h <;> rw [h] <;> decide)
    have hsw : Spec.write (abs tbl) a (.int x) =
        Spec.store (abs tbl) a.fileNumber (typeCode a.fileType) (Spec.base a + a.subElement) [word16 x] := by
      simp only [Spec.write, hnwe]
    rw [hsw]
    exact slrf_store_refines tbl _ _ _ _ _ [word16 x]
      (by rw [slrf_byteOffset a hr, Spec.base, hw, hpos]; omega) (Nat.succ_pos 0)
      (fun w hw' => by
        simp only [List.mem_cons, List.not_mem_nil, or_false] at hw'
        rw [hw']
        exact slx_word16_lt x)
  | bit haf hc1 hsub hraw hnwe =>
    obtain ⟨hnb, hnd⟩ := slrf_notRaw hraw
    obtain ⟨val, hval⟩ := slrf_writeable_bit a v hr haf hc1 hsub
    refine ⟨?_, hnb, hnd, val, 2, hval, by rw [hc1]; decide⟩
    rw [slrf_writeAddr_bit tbl a v hr haf hc1 hp hsub]
    have hsw : Spec.write (abs tbl) a v =
        Spec.store (abs tbl) a.fileNumber (typeCode a.fileType) (Spec.base a)
          [Spec.setBit (Spec.wordAt (abs tbl) a.fileNumber (Spec.base a)) a.subElement v.truthy] := by
      simp only [Spec.write, hnwe]
    rw [hsw]
    exact slrf_store_bit_refines tbl _ _ _ _ _ _ _ (by rw [slrf_byteOffset a hr, Spec.base, hw])
      (by have := hr.sub; omega)

/-! ### glue: calls with several addresses -/

private theorem slrf_readOkT {t : Name} (h : ReadOkT t) : ∃ a, parseTag t = some a ∧ Spec.ReadOk a := by
  unfold ReadOkT at h
  split at h
  · exact ⟨_, by assumption, h⟩
  · exact h.elim

private theorem slrf_writeOkT {p : Name × PyVal} (h : WriteOkT p) : ∃ a, parseTag p.1 = some a ∧ Spec.WriteOk a p.2 := by
  unfold WriteOkT at h
  split at h
  · exact ⟨_, by assumption, h⟩
  · exact h.elim

private theorem slrf_readReq {t : Name} {a : Addr} (hparse : parseTag t = some a) (hok : Spec.ReadOk a) :
    slrf_ReadReq t := by
  have hr := parse_accepts_in_range t a hparse
  obtain ⟨_, hs, hp⟩ := hok
  obtain ⟨h1, _, _, _⟩ := slrf_ft_facts hr.ftype
  rw [slrf_wordsPer a hr] at hs
  exact ⟨a, hparse, by rw [h1, Nat.mul_assoc]; omega, hp⟩

private theorem slrf_readAll_refines (tbl : Table) : ∀ (ts : List Name), (∀ t ∈ ts, ReadOkT t) →
    ts.map (slrf_readOut tbl) = Spec.readAll (abs tbl) ts ∧ ∀ t ∈ ts, slrf_ReadReq t
  | [], _ => ⟨rfl, fun t ht => by cases ht⟩
  | t :: ts, h => by
      obtain ⟨a, hparse, hok⟩ := slrf_readOkT (h t List.mem_cons_self)
      obtain ⟨ih1, ih2⟩ := slrf_readAll_refines tbl ts (fun q hq => h q (List.mem_cons_of_mem _ hq))
      have hr := parse_accepts_in_range t a hparse
      refine ⟨?_, ?_⟩
      · have hf : (parseTag t).map (Spec.readTag (abs tbl)) = some (Spec.readTag (abs tbl) a) := by rw [hparse]; rfl
        simp only [Spec.readAll] at ih1 ⊢
        rw [List.filterMap_cons, hf, List.map_cons, ih1]
        simp only [slrf_readOut, hparse, slrf_read_refines tbl a hr hok]
      · intro q hq
        rcases List.mem_cons.mp hq with rfl | hq
        · exact slrf_readReq hparse hok
        · exact ih2 q hq

private theorem slrf_writeAll_refines : ∀ (avs : List (Name × PyVal)) (tbl : Table), (∀ p ∈ avs, WriteOkT p) →
    (slrf_writeRun tbl avs).1 = (Spec.writeAll (abs tbl) avs).1 ∧
      abs (slrf_writeRun tbl avs).2 = (Spec.writeAll (abs tbl) avs).2 ∧ ∀ p ∈ avs, slrf_WriteReq p.1 p.2
  | [], tbl, _ => ⟨rfl, rfl, fun p hp => by cases hp⟩
  | (t, v) :: rest, tbl, h => by
      obtain ⟨a, hparse, hok⟩ := slrf_writeOkT (h (t, v) List.mem_cons_self)
      have hr := parse_accepts_in_range t a hparse
      obtain ⟨hag, hnb, hnd, val, sz, hwv, hsz⟩ := slrf_write_refines tbl a v hr hok
      obtain ⟨ho1, ho2⟩ := slrf_agree_out tbl a v _ _ hag
      have hafter : abs (sdr_tbl tbl (writeAddr tbl a v)) = Spec.after (abs tbl) a v := ho2
      have htag : sdr_writeTagOf a v (writeAddr tbl a v) = Spec.writeTag (abs tbl) a v := ho1
      obtain ⟨ih1, ih2, ih3⟩ := slrf_writeAll_refines rest (sdr_tbl tbl (writeAddr tbl a v))
        (fun q hq => h q (List.mem_cons_of_mem _ hq))
      rw [hafter] at ih1 ih2
      refine ⟨?_, ?_, ?_⟩
      · simp only [slrf_writeRun, Spec.writeAll, hparse, htag, ih1]
      · simp only [slrf_writeRun, Spec.writeAll, hparse, ih2]
      · intro q hq
        rcases List.mem_cons.mp hq with rfl | hq
        · exact ⟨a, hparse, hnb, hnd, hok.2.2, val, sz, hwv, hsz⟩
        · exact ih3 q hq

private theorem slrf_fetch_codes {s : Spec} {k ty i n e : Nat} (h : Spec.fetch s k ty i n = .error e) :
    e = 0x10 ∨ e = 0x50 := by
  unfold Spec.fetch at h
  split at h
  · injection h with h; exact .inl h.symm
  · split at h
    · injection h with h; exact .inl h.symm
    · split at h
      · injection h with h; exact .inr h.symm
      · cases h

private theorem slrf_store_codes {s : Spec} {k ty i e : Nat} {new : List Nat} (h : Spec.store s k ty i new = .error e) :
    e = 0x10 ∨ e = 0x50 := by
  unfold Spec.store at h
  split at h
  · injection h with h; exact .inl h.symm
  · split at h
    · injection h with h; exact .inl h.symm
    · split at h
      · injection h with h; exact .inr h.symm
      · cases h

/-! ## 2. one call refines one operation -/

/-- C18, refinement of one read: on a healthy connected world whose data table abstracts to `abs tbl`, `read(address)`
    of an accepted address in the supported domain returns exactly the Tag the specification gives for the parsed
    address and leaves a healthy world with the same table (so the same abstraction). -/
theorem slc_read_refines (w : Cli.World Ext) (tbl : Table) (t : Name) (a : Addr) (hH : slrf_Healthy w tbl)
    (hparse : parseTag t = some a) (hok : Spec.ReadOk a) :
    ∃ w', slcRead hookAll w [t] = (w', .ok [Spec.readTag (abs tbl) a]) ∧ slrf_Healthy w' tbl := by
  obtain ⟨h1, h2⟩ := slrf_readAll_refines tbl [t] (fun q hq => by
    rw [List.mem_singleton.mp hq]; simp only [ReadOkT, hparse]; exact hok)
  obtain ⟨w', hrun, hH'⟩ := slrf_slcRead_run tbl [t] w hH h2
  refine ⟨w', ?_, hH'⟩
  rw [hrun, h1]
  simp only [Spec.readAll, List.filterMap_cons, hparse, Option.map_some, List.filterMap_nil]

/-- … inside the file: when the specification's read yields the value v (the file exists, has the address's type and
    holds the `wordsPer × count` words from `base a` on), the Tag is the error-free Tag with value v. -/
theorem slc_read_in_range (w : Cli.World Ext) (tbl : Table) (t : Name) (a : Addr) (v : PyVal)
    (hH : slrf_Healthy w tbl) (hparse : parseTag t = some a) (hok : Spec.ReadOk a)
    (hv : Spec.read (abs tbl) a = .ok v) :
    ∃ w', slcRead hookAll w [t] = (w', .ok [{ tag := a.tag, value := v, type := a.fileType, error := none }]) ∧
      slrf_Healthy w' tbl := by
  obtain ⟨w', h, hH'⟩ := slc_read_refines w tbl t a hH hparse hok
  refine ⟨w', ?_, hH'⟩
  rw [h]
  simp only [Spec.readTag, hv]

/-- … outside: when the file is missing or of another type (status 0x10) or ends before the last word of the request
    (0x50), the Tag is falsy - value None, error the text of that status -; no exception, same table. -/
theorem slc_read_out_of_range (w : Cli.World Ext) (tbl : Table) (t : Name) (a : Addr) (e : Nat)
    (hH : slrf_Healthy w tbl) (hparse : parseTag t = some a) (hok : Spec.ReadOk a)
    (he : Spec.read (abs tbl) a = .error e) :
    ∃ w', slcRead hookAll w [t] =
        (w', .ok [{ tag := a.tag, value := .none, type := a.fileType, error := some (Spec.statusText e) }]) ∧
      (e = 0x10 ∨ e = 0x50) ∧ slrf_Healthy w' tbl := by
  obtain ⟨w', h, hH'⟩ := slc_read_refines w tbl t a hH hparse hok
  refine ⟨w', ?_, ?_, hH'⟩
  · rw [h]
    simp only [Spec.readTag, he]
  · unfold Spec.read at he
    cases hf : Spec.fetch (abs tbl) a.fileNumber (typeCode a.fileType) (Spec.base a)
        (Spec.wordsPer a.fileType * a.count) with
    | ok ws => rw [hf] at he; cases he
    | error e' =>
      rw [hf] at he
      injection he with he
      subst he
      exact slrf_fetch_codes hf

/-- C18, refinement of one write: `write((address, value))` of an accepted address with a value in the domain of the
    address form returns exactly the Tag the specification gives and leaves a healthy world whose data table
    abstracts to the specification's table after the write. -/
theorem slc_write_refines (w : Cli.World Ext) (tbl : Table) (t : Name) (a : Addr) (v : PyVal) (hH : slrf_Healthy w tbl)
    (hparse : parseTag t = some a) (hok : Spec.WriteOk a v) :
    ∃ w' tbl', slcWrite hookAll w [(t, v)] = (w', .ok [Spec.writeTag (abs tbl) a v]) ∧ slrf_Healthy w' tbl' ∧
      abs tbl' = Spec.after (abs tbl) a v := by
  obtain ⟨h1, h2, h3⟩ := slrf_writeAll_refines [(t, v)] tbl (fun q hq => by
    rw [List.mem_singleton.mp hq]; simp only [WriteOkT, hparse]; exact hok)
  obtain ⟨w', hrun, hH'⟩ := slrf_slcWrite_run tbl [(t, v)] w hH h3
  refine ⟨w', _, ?_, hH', h2.trans ?_⟩
  · rw [hrun, h1]
    simp only [Spec.writeAll, hparse]
  · simp only [Spec.writeAll, hparse]

-- STATEMENT CHANGED: "a successful write returns a truthy Tag" holds for every value but None.  The Tag echoes the
-- value handed in, and `Tag.__bool__` is `value is not None and error is None`: `write(("N7:0/1", None))` - None is
-- falsy, the bit is cleared, the request succeeds - returns `Tag("N7:0/1", None, "N", None)`, which is falsy although
-- nothing failed (`#guard` in the non-vacuity section).  The statement gives the Tag itself; it is truthy iff v ≠ None.
/-- … inside the file: when the specification's write yields the table s', the Tag is the error-free Tag echoing the
    value handed in (truthy unless that value is None) and the new data table abstracts to s'. -/
theorem slc_write_in_range (w : Cli.World Ext) (tbl : Table) (t : Name) (a : Addr) (v : PyVal) (s' : Spec)
    (hH : slrf_Healthy w tbl) (hparse : parseTag t = some a) (hok : Spec.WriteOk a v)
    (hs : Spec.write (abs tbl) a v = .ok s') :
    ∃ w' tbl', slcWrite hookAll w [(t, v)] =
        (w', .ok [{ tag := a.tag, value := v, type := a.fileType, error := none }]) ∧
      (v ≠ .none → STag.truthy { tag := a.tag, value := v, type := a.fileType, error := none } = true) ∧
      slrf_Healthy w' tbl' ∧ abs tbl' = s' := by
  obtain ⟨w', tbl', h, hH', hab⟩ := slc_write_refines w tbl t a v hH hparse hok
  refine ⟨w', tbl', ?_, ?_, hH', ?_⟩
  · rw [h]
    simp only [Spec.writeTag, hs]
  · intro hv
    cases v <;> first | rfl | exact absurd rfl hv
  · rw [hab]
    simp only [Spec.after, hs]

/-- … outside: when the file is missing or of another type (status 0x10) or ends before the last word to be written
    (0x50), the Tag is falsy - value None, error the text of that status -, no exception, and the data table left
    behind has the abstraction it had. -/
theorem slc_write_out_of_range (w : Cli.World Ext) (tbl : Table) (t : Name) (a : Addr) (v : PyVal) (e : Nat)
    (hH : slrf_Healthy w tbl) (hparse : parseTag t = some a) (hok : Spec.WriteOk a v)
    (he : Spec.write (abs tbl) a v = .error e) :
    ∃ w' tbl', slcWrite hookAll w [(t, v)] =
        (w', .ok [{ tag := a.tag, value := .none, type := a.fileType, error := some (Spec.statusText e) }]) ∧
      (e = 0x10 ∨ e = 0x50) ∧ slrf_Healthy w' tbl' ∧ abs tbl' = abs tbl := by
  obtain ⟨w', tbl', h, hH', hab⟩ := slc_write_refines w tbl t a v hH hparse hok
  refine ⟨w', tbl', ?_, ?_, hH', ?_⟩
  · rw [h]
    simp only [Spec.writeTag, he]
  · unfold Spec.write at he
    split at he
    · cases he
    · exact slrf_store_codes he
  · rw [hab]
    simp only [Spec.after, he]

/-! ## 3. histories -/

/-- one operation of a history - a call with any number of addresses / pairs - refines the specification's step -/
theorem slc_op_refines (w : Cli.World Ext) (tbl : Table) (op : Op) (hH : slrf_Healthy w tbl) (hok : OpOk op) :
    ∃ w' tbl', opCall w op = (w', .ok (Spec.step (abs tbl) op).1) ∧ slrf_Healthy w' tbl' ∧
      abs tbl' = (Spec.step (abs tbl) op).2 := by
  cases op with
  | read ts =>
    obtain ⟨h1, h2⟩ := slrf_readAll_refines tbl ts hok
    obtain ⟨w', hrun, hH'⟩ := slrf_slcRead_run tbl ts w hH h2
    exact ⟨w', tbl, by simp only [opCall, hrun, h1, Spec.step], hH', rfl⟩
  | write avs =>
    obtain ⟨h1, h2, h3⟩ := slrf_writeAll_refines avs tbl hok
    obtain ⟨w', hrun, hH'⟩ := slrf_slcWrite_run tbl avs w hH h3
    exact ⟨w', _, by simp only [opCall, hrun, h1, Spec.step], hH', h2⟩

/-- C18 over histories: for ANY list of read / write calls in the supported domain (`OpOk`: accepted addresses, values
    in the domain of the address form, request sizes that fit - no condition on the table, no bound on the length),
    run one after the other with the driver model from a healthy connected world whose data table is `tbl`: no call
    raises, the Tags the calls return are, call by call, exactly the Tags the same operations return on the
    abstract table starting from `abs tbl`; and the final world is healthy again with a data table that abstracts
    to the specification's final table. -/
theorem slc_history_refines_table (w : Cli.World Ext) (tbl : Table) (ops : List Op) (hH : slrf_Healthy w tbl)
    (hok : ∀ op ∈ ops, OpOk op) :
    (runCalls w ops).1 = (Spec.run (abs tbl) ops).1.map .ok ∧
      ∃ tbl', slrf_Healthy (runCalls w ops).2 tbl' ∧ abs tbl' = (Spec.run (abs tbl) ops).2 := by
  induction ops generalizing w tbl with
  | nil => exact ⟨rfl, tbl, hH, rfl⟩
  | cons op ops ih =>
    obtain ⟨w', tbl', h1, hH', hab⟩ := slc_op_refines w tbl op hH (hok op List.mem_cons_self)
    obtain ⟨ih1, tblF, ihH, ihab⟩ := ih w' tbl' hH' (fun q hq => hok q (List.mem_cons_of_mem _ hq))
    rw [hab] at ih1 ihab
    refine ⟨?_, tblF, ?_, ?_⟩
    · simp only [runCalls, Spec.run, h1, ih1, List.map_cons]
    · simp only [runCalls, h1]; exact ihH
    · simp only [Spec.run]; exact ihab

/-! ## 4. the property's sentences as corollaries -/

/-- a write pair stays clear of the words a read of `a` covers -/
def ApartT (a : Addr) (p : Name × PyVal) : Prop :=
  match parseTag p.1 with
  | some a' => Spec.Apart a' a
  | none => True

instance (a : Addr) (p : Name × PyVal) : Decidable (ApartT a p) := by unfold ApartT; split <;> infer_instance

/-- an operation that does not touch the words a read of `a` covers: any read, or a write all of whose pairs stay
    clear of them -/
def Untouched (a : Addr) : Op → Prop
  | .read _ => True
  | .write avs => ∀ p ∈ avs, ApartT a p

instance (a : Addr) (op : Op) : Decidable (Untouched a op) := by cases op <;> unfold Untouched <;> infer_instance

/-! ### glue: `store` and `fetch` -/

private theorem slrf_store_ok {s s' : Spec} {k ty i : Nat} {new : List Nat} (h : Spec.store s k ty i new = .ok s') :
    ∃ f, s k = some f ∧ f.ftype = ty ∧ i + new.length ≤ f.words.length ∧
      s' = fun k' => if k' = k then
        some { f with words := f.words.take i ++ new ++ f.words.drop (i + new.length) } else s k' := by
  unfold Spec.store at h
  cases hf : s k with
  | none => rw [hf] at h; cases h
  | some f =>
    rw [hf] at h
    simp only at h
    split at h
    · cases h
    · rename_i hty
      split at h
      · cases h
      · rename_i hr
        injection h with h
        exact ⟨f, rfl, Decidable.not_not.mp hty, by omega, h.symm⟩

private theorem slrf_fetch_ok' {s : Spec} {k ty i n : Nat} {ws : List Nat} (h : Spec.fetch s k ty i n = .ok ws) :
    ∃ f, s k = some f ∧ f.ftype = ty ∧ i + n ≤ f.words.length ∧ ws = (f.words.drop i).take n := by
  unfold Spec.fetch at h
  cases hf : s k with
  | none => rw [hf] at h; cases h
  | some f =>
    rw [hf] at h
    simp only at h
    split at h
    · cases h
    · rename_i hty
      split at h
      · cases h
      · injection h with h
        exact ⟨f, rfl, Decidable.not_not.mp hty, by omega, h.symm⟩

private theorem slrf_store_of_file {s : Spec} {k ty i : Nat} {new : List Nat} {f : SFile} (hf : s k = some f)
    (hty : f.ftype = ty) (hin : i + new.length ≤ f.words.length) :
    Spec.store s k ty i new = .ok fun k' => if k' = k then
      some { f with words := f.words.take i ++ new ++ f.words.drop (i + new.length) } else s k' := by
  unfold Spec.store
  simp only [hf]
  rw [if_neg (fun h => h hty), if_neg (by omega)]

/-- a fetch that avoids the stored words sees what it saw before -/
private theorem slrf_fetch_store_frame {s s' : Spec} {k ty i : Nat} {new : List Nat}
    (h : Spec.store s k ty i new = .ok s') (k2 ty2 j n : Nat) (hd : k2 ≠ k ∨ i + new.length ≤ j ∨ j + n ≤ i) :
    Spec.fetch s' k2 ty2 j n = Spec.fetch s k2 ty2 j n := by
  obtain ⟨f, hf, hty, hin, rfl⟩ := slrf_store_ok h
  by_cases hk : k2 = k
  · subst hk
    have hd' : i + new.length ≤ j ∨ j + n ≤ i := by
      rcases hd with hd | hd
      · exact absurd rfl hd
      · exact hd
    simp only [Spec.fetch, if_true, hf, slrf_splice_len f.words new i hin,
      slrf_slice_splice_out f.words new i j n hin hd']
  · simp only [Spec.fetch, if_neg hk]

/-- a fetch that contains the stored words sees them at their place -/
private theorem slrf_fetch_store_within {s s' : Spec} {k ty i : Nat} {new : List Nat}
    (h : Spec.store s k ty i new = .ok s') (j n : Nat) (hj : j ≤ i) (hn : i + new.length ≤ j + n)
    (ws0 : List Nat) (hf0 : Spec.fetch s k ty j n = .ok ws0) :
    ∃ ws', Spec.fetch s' k ty j n = .ok ws' ∧ (∀ m, m < new.length → ws'.getD (i - j + m) 0 = new.getD m 0) ∧
      (i = j → new.length = n → ws' = new) := by
  obtain ⟨f, hf, hty, hin, rfl⟩ := slrf_store_ok h
  obtain ⟨f', hf', _, hin0, _⟩ := slrf_fetch_ok' hf0
  rw [hf] at hf'
  injection hf' with hf'
  subst hf'
  refine ⟨((f.words.take i ++ new ++ f.words.drop (i + new.length)).drop j).take n, ?_, ?_, ?_⟩
  · simp only [Spec.fetch, if_true, slrf_splice_len f.words new i hin]
    rw [if_neg (fun h => h hty), if_neg (by omega)]
  · intro m hm
    rw [slrf_getD_of_get?, slrf_getD_of_get?, slrf_slice_get _ j n (i - j + m) (by omega),
      show j + (i - j + m) = i + m by omega, slrf_splice_in f.words new i m hin hm]
  · intro e1 e2
    subst e1
    rw [← e2]
    exact slrf_slice_splice_same f.words new i hin

/-- a fetch that succeeds shows that a store inside its words succeeds -/
private theorem slrf_store_of_fetch {s : Spec} {k ty j n : Nat} {ws0 : List Nat}
    (hf0 : Spec.fetch s k ty j n = .ok ws0) (i : Nat) (new : List Nat) (hn : i + new.length ≤ j + n) :
    ∃ s', Spec.store s k ty i new = .ok s' := by
  obtain ⟨f, hf, hty, hin0, _⟩ := slrf_fetch_ok' hf0
  exact ⟨_, slrf_store_of_file hf hty (by omega)⟩

/-! ### glue: frame and read-back of one write -/

private theorem slrf_cells (a : Addr) (v : PyVal) (hr : InRange a) (hform : slrf_Form a v) :
    ∃ new : Nat → List Nat, (∀ old, Spec.newWords a v old = some ((Spec.writeCells a).1, new old)) ∧
      ∀ old, (new old).length = (Spec.writeCells a).2 := by
  have hw := slrf_wordsPer a hr
  cases hform with
  | words ws haf hnct hc hnwe hlen hlt hwv hnb hnd _ =>
    refine ⟨fun _ => ws, ?_, ?_⟩
    · intro old
      simp only [hnwe, Spec.writeCells, haf]
      rw [if_neg (by decide)]
    · intro old
      simp only [Spec.writeCells, haf, hlen, hw]
      rw [if_neg (by decide)]
  | preacc x haf hc1 hsub hv hx hnwe =>
    refine ⟨fun _ => [word16 x], ?_, ?_⟩
    · intro old
      simp only [hnwe, Spec.writeCells, haf, if_true, slrf_nmT, slrf_nmC, hsub, and_self]
    · intro old
      simp only [Spec.writeCells, haf, if_true, slrf_nmT, slrf_nmC, hsub, and_self, List.length_cons, List.length_nil]
  | bit haf hc1 hsub hraw hnwe =>
    refine ⟨fun old => [Spec.setBit old a.subElement v.truthy], ?_, ?_⟩
    · intro old
      simp only [hnwe, Spec.writeCells, haf, if_true, slrf_nmT, slrf_nmC, hsub, if_false]
    · intro old
      simp only [Spec.writeCells, haf, if_true, slrf_nmT, slrf_nmC, hsub, if_false, List.length_cons, List.length_nil]

/-- a write that stays clear of the words of `a` does not change what a read of `a` returns -/
private theorem slrf_read_frame (s : Spec) (a' a : Addr) (v' : PyVal) (hr : InRange a') (hok : Spec.WriteOk a' v')
    (hap : Spec.Apart a' a) : Spec.read (Spec.after s a' v') a = Spec.read s a := by
  obtain ⟨new, hnw, hlen⟩ := slrf_cells a' v' hr (slrf_form a' v' hr 0 hok.1)
  unfold Spec.after
  cases hwr : Spec.write s a' v' with
  | error e => rfl
  | ok s' =>
    simp only [Spec.write, hnw] at hwr
    simp only [Spec.read]
    rw [slrf_fetch_store_frame hwr a.fileNumber (typeCode a.fileType) (Spec.base a)
      (Spec.wordsPer a.fileType * a.count) ?_]
    rw [hlen]
    rcases hap with h | h | h
    · exact .inl (fun e => h e.symm)
    · exact .inr (.inl h)
    · exact .inr (.inr h)

/-- write, then read the same address (the words the read covers lie inside the file): the value comes back -/
private theorem slrf_read_back (s : Spec) (a : Addr) (v : PyVal) (hr : InRange a) (hok : Spec.WriteOk a v)
    (v0 : PyVal) (hin : Spec.read s a = .ok v0) :
    Spec.read (Spec.after s a v) a = .ok (Spec.echo a v) ∧ ∃ s', Spec.write s a v = .ok s' := by
  have hw := slrf_wordsPer a hr
  obtain ⟨_, _, h3, _⟩ := slrf_ft_facts hr.ftype
  unfold Spec.read at hin
  cases hf0 : Spec.fetch s a.fileNumber (typeCode a.fileType) (Spec.base a) (Spec.wordsPer a.fileType * a.count) with
  | error e => rw [hf0] at hin; cases hin
  | ok ws0 =>
    cases slrf_form a v hr 0 hok.1 with
    | words ws haf hnct hc hnwe hlen hlt hwv hnb hnd hecho =>
      obtain ⟨s', hst⟩ := slrf_store_of_fetch hf0 (Spec.base a) ws (by rw [hlen, hw]; omega)
      have hwr : Spec.write s a v = .ok s' := by simp only [Spec.write, hnwe, hst]
      refine ⟨?_, s', hwr⟩
      obtain ⟨ws', h1, _, h2⟩ := slrf_fetch_store_within hst (Spec.base a) (Spec.wordsPer a.fileType * a.count)
        (Nat.le_refl _) (by rw [hlen, hw]; omega) ws0 hf0
      simp only [Spec.after, hwr, Spec.read, h1, Except.map, h2 rfl (by rw [hlen, hw]), hecho]
    | preacc x haf hc1 hsub hv hx hnwe =>
      subst hv
      have hwp : Spec.wordsPer a.fileType = 3 := by rcases hsub.1 with h | h <;> rw [h] <;> decide
      have hs2 : a.subElement < 3 := by rcases hsub.2 with h | h <;> omega
      obtain ⟨s', hst⟩ := slrf_store_of_fetch hf0 (Spec.base a + a.subElement) [word16 x]
        (by simp only [List.length_cons, List.length_nil, hwp, hc1]; omega)
      have hwr : Spec.write s a (.int x) = .ok s' := by simp only [Spec.write, hnwe, hst]
      refine ⟨?_, s', hwr⟩
      obtain ⟨ws', h1, h2, _⟩ := slrf_fetch_store_within hst (Spec.base a) (Spec.wordsPer a.fileType * a.count)
        (by omega) (by simp only [List.length_cons, List.length_nil, hwp, hc1]; omega) ws0 hf0
      have h2' := h2 0 (by simp)
      rw [show Spec.base a + a.subElement - Spec.base a + 0 = a.subElement by omega] at h2'
      simp only [List.getD_cons_zero] at h2'
      simp only [Spec.after, hwr, Spec.read, h1, Except.map, Spec.value, Spec.echo, haf, if_true, slrf_nmT, slrf_nmC,
        hsub, and_self]
      rcases hsub.2 with h | h
      · rw [h] at h2'
        simp only [h, true_and, if_true, h2', slx_int16_word16 x hx]
      · rw [h] at h2'
        simp only [h, true_and, if_true, h2', slx_int16_word16 x hx]
        rw [if_neg (by decide)]
    | bit haf hc1 hsub hraw hnwe =>
      have hb : a.subElement < 16 := by have := hr.sub; omega
      obtain ⟨s', hst⟩ := slrf_store_of_fetch hf0 (Spec.base a)
        [Spec.setBit (Spec.wordAt s a.fileNumber (Spec.base a)) a.subElement v.truthy]
        (by simp only [List.length_cons, List.length_nil, hc1, hw]; omega)
      have hwr : Spec.write s a v = .ok s' := by simp only [Spec.write, hnwe, hst]
      refine ⟨?_, s', hwr⟩
      obtain ⟨ws', h1, h2, _⟩ := slrf_fetch_store_within hst (Spec.base a) (Spec.wordsPer a.fileType * a.count)
        (Nat.le_refl _) (by simp only [List.length_cons, List.length_nil, hc1, hw]; omega) ws0 hf0
      have h2' := h2 0 (by simp)
      rw [show Spec.base a - Spec.base a + 0 = 0 by omega] at h2'
      simp only [List.getD_cons_zero] at h2'
      have hs1 : ¬ ((a.fileType = [84] ∨ a.fileType = [67]) ∧ a.subElement = 1) := fun h => hsub ⟨h.1, .inl h.2⟩
      have hs2 : ¬ ((a.fileType = [84] ∨ a.fileType = [67]) ∧ a.subElement = 2) := fun h => hsub ⟨h.1, .inr h.2⟩
      simp only [Spec.after, hwr, Spec.read, h1, Except.map, Spec.value, Spec.echo, haf, if_true, slrf_nmT, slrf_nmC,
        hsub, hs1, hs2, if_false, h2', Spec.setBit, slrf_setBit_testBit _ _ _ _ hb hb]

/-! ### glue: histories on the specification -/

private theorem slrf_run_append (xs ys : List Op) : ∀ s : Spec,
    Spec.run s (xs ++ ys) = ((Spec.run s xs).1 ++ (Spec.run (Spec.run s xs).2 ys).1, (Spec.run (Spec.run s xs).2 ys).2) := by
  induction xs with
  | nil => intro s; rfl
  | cons x xs ih => intro s; simp only [List.cons_append, Spec.run, ih, List.cons_append]

private theorem slrf_run_length (ops : List Op) : ∀ s : Spec, (Spec.run s ops).1.length = ops.length := by
  induction ops with
  | nil => intro s; rfl
  | cons x xs ih => intro s; simp only [Spec.run, List.length_cons, ih]

private theorem slrf_writeAll_frame (a : Addr) : ∀ (avs : List (Name × PyVal)) (s : Spec), (∀ p ∈ avs, WriteOkT p) →
    (∀ p ∈ avs, ApartT a p) → Spec.read (Spec.writeAll s avs).2 a = Spec.read s a
  | [], _, _, _ => rfl
  | (t, v) :: rest, s, hok, hap => by
      obtain ⟨a', hparse, hwok⟩ := slrf_writeOkT (hok (t, v) List.mem_cons_self)
      have hr := parse_accepts_in_range t a' hparse
      have h1 : Spec.Apart a' a := by
        have := hap (t, v) List.mem_cons_self
        simpa only [ApartT, hparse] using this
      simp only [Spec.writeAll, hparse]
      rw [slrf_writeAll_frame a rest _ (fun q hq => hok q (List.mem_cons_of_mem _ hq))
        (fun q hq => hap q (List.mem_cons_of_mem _ hq)), slrf_read_frame s a' a v hr hwok h1]

private theorem slrf_run_frame (a : Addr) : ∀ (ops : List Op) (s : Spec), (∀ op ∈ ops, OpOk op) →
    (∀ op ∈ ops, Untouched a op) → Spec.read (Spec.run s ops).2 a = Spec.read s a
  | [], _, _, _ => rfl
  | op :: ops, s, hok, hun => by
      simp only [Spec.run]
      rw [slrf_run_frame a ops _ (fun q hq => hok q (List.mem_cons_of_mem _ hq))
        (fun q hq => hun q (List.mem_cons_of_mem _ hq))]
      cases op with
      | read ts => rfl
      | write avs => exact slrf_writeAll_frame a avs s (hok _ List.mem_cons_self) (hun _ List.mem_cons_self)

-- STATEMENT CHANGED: "then a read of a returns v" is stated with `Spec.echo a v` in the place of v.  It is v itself for
-- an integer written to a word address (without `{n}`) or to PRE / ACC (`read_after_write_value` below); for a bit
-- address it is `bool(v)`; with `{n}` it is the list of the first n values (a tuple comes back as a list, values
-- behind the n-th are dropped); and a float comes back as the binary32 it was rounded to (the known finding of
-- `slc_write_then_read_float_e2e`: `write(("F8:0", 0.1))`, `read("F8:0")` gives 0.10000000149011612; `#guard` in the
-- non-vacuity section).
/-- C18, "a write followed by a read returns the written value", over histories: after ANY history `pre` in the
    supported domain, a write of v to the address a (in the domain, the words a read of a covers inside the file at
    that moment), followed by ANY number of operations `mid` in the supported domain that do not touch those words
    (reads of anything; writes - successful or refused - whose words lie in other files or outside that range),
    and then a read of a: the write returns the error-free Tag echoing v, and the final read returns the error-free
    Tag carrying v as a read presents it (`Spec.echo a v`).  The results of the whole history are those of `pre`,
    the write's Tag, those of `mid`, the read's Tag. -/
theorem read_after_write_history (w : Cli.World Ext) (tbl : Table) (pre mid : List Op) (t : Name) (a : Addr) (v v0 : PyVal)
    (hH : slrf_Healthy w tbl) (hpre : ∀ op ∈ pre, OpOk op) (hmid : ∀ op ∈ mid, OpOk op)
    (hparse : parseTag t = some a) (hwok : Spec.WriteOk a v) (hrok : Spec.ReadOk a)
    (hin : Spec.read (Spec.run (abs tbl) pre).2 a = .ok v0) (hun : ∀ op ∈ mid, Untouched a op) :
    ∃ front middle, front.length = pre.length ∧ middle.length = mid.length ∧
      (runCalls w (pre ++ [.write [(t, v)]] ++ mid ++ [.read [t]])).1 =
        front ++ [.ok [{ tag := a.tag, value := v, type := a.fileType, error := none }]] ++ middle ++
          [.ok [{ tag := a.tag, value := Spec.echo a v, type := a.fileType, error := none }]] := by
  have hr := parse_accepts_in_range t a hparse
  have hW : OpOk (.write [(t, v)]) := by
    intro p hp
    rw [List.mem_singleton.mp hp]
    simp only [WriteOkT, hparse]
    exact hwok
  have hR : OpOk (.read [t]) := by
    intro p hp
    rw [List.mem_singleton.mp hp]
    simp only [ReadOkT, hparse]
    exact hrok
  have hall : ∀ op ∈ pre ++ [.write [(t, v)]] ++ mid ++ [.read [t]], OpOk op := by
    intro op hop
    simp only [List.mem_append, List.mem_singleton] at hop
    rcases hop with ((h | h) | h) | h
    · exact hpre op h
    · rw [h]; exact hW
    · exact hmid op h
    · rw [h]; exact hR
  obtain ⟨h1, _⟩ := slc_history_refines_table w tbl _ hH hall
  obtain ⟨hback, s', hwr⟩ := slrf_read_back (Spec.run (abs tbl) pre).2 a v hr hwok v0 hin
  refine ⟨(Spec.run (abs tbl) pre).1.map .ok,
    (Spec.run (Spec.after (Spec.run (abs tbl) pre).2 a v) mid).1.map .ok, ?_, ?_, ?_⟩
  · rw [List.length_map, slrf_run_length]
  · rw [List.length_map, slrf_run_length]
  · rw [h1, slrf_run_append, slrf_run_append, slrf_run_append]
    have hstepW : ∀ s : Spec, Spec.run s [.write [(t, v)]] = ([[Spec.writeTag s a v]], Spec.after s a v) := by
      intro s
      simp only [Spec.run, Spec.step, Spec.writeAll, hparse]
    have hstepR : ∀ s : Spec, Spec.run s [.read [t]] = ([[Spec.readTag s a]], s) := by
      intro s
      simp only [Spec.run, Spec.step, Spec.readAll, List.filterMap_cons, hparse, Option.map_some, List.filterMap_nil]
    simp only [hstepW, hstepR, List.map_append, List.map_cons, List.map_nil]
    have hfr := slrf_run_frame a mid (Spec.after (Spec.run (abs tbl) pre).2 a v) hmid hun
    simp only [Spec.readTag, hfr, hback, Spec.writeTag, hwr]

/-- … and what comes back is the value written itself for an integer written to a word address without `{n}` or to
    PRE / ACC of a timer / counter (the domain makes it a 16-bit integer, 32-bit for an L file); for any other bit
    address it is `bool(v)`. -/
theorem read_after_write_value (a : Addr) (v : PyVal) (x : Int) :
    (a.addressField = 2 → a.count = 1 → Spec.echo a (.int x) = .int x) ∧
    (a.addressField = 3 → (a.fileType = nm "T" ∨ a.fileType = nm "C") ∧ (a.subElement = 1 ∨ a.subElement = 2) →
      Spec.echo a v = v) ∧
    (a.addressField = 3 → ¬ ((a.fileType = nm "T" ∨ a.fileType = nm "C") ∧ (a.subElement = 1 ∨ a.subElement = 2)) →
      Spec.echo a v = .bool v.truthy) := by
  refine ⟨fun h1 h2 => ?_, fun h1 h2 => ?_, fun h1 h2 => ?_⟩
  · simp only [Spec.echo, h1, h2, if_true, Spec.echoElem]
    rw [if_neg (by decide)]
  · simp only [Spec.echo, h1, h2, and_self, if_true]
  · simp only [Spec.echo, h1, h2, if_true, if_false]

/-- C18, "a bit write changes only the addressed bit": `write((address, v))` of a bit address (any file, the status
    bits of timers / counters included; not PRE / ACC) whose word lies inside the file returns the error-free Tag
    echoing v and leaves a healthy world whose table differs from the old one in that one word only - every other
    file is what it was, the file keeps its type and length, every other word of the file keeps its value - and of
    that word exactly bit b is `bool(v)` while each of the other 15 bits keeps its value. -/
theorem bit_write_changes_only_that_bit (w : Cli.World Ext) (tbl : Table) (t : Name) (a : Addr) (v : PyVal) (f : SFile)
    (hH : slrf_Healthy w tbl) (hparse : parseTag t = some a) (hok : Spec.WriteOk a v) (haf : a.addressField = 3)
    (hnsub : ¬ ((a.fileType = nm "T" ∨ a.fileType = nm "C") ∧ (a.subElement = 1 ∨ a.subElement = 2)))
    (hf : abs tbl a.fileNumber = some f) (hty : f.ftype = typeCode a.fileType) (hin : Spec.base a < f.words.length) :
    ∃ w' tbl' f', slcWrite hookAll w [(t, v)] =
        (w', .ok [{ tag := a.tag, value := v, type := a.fileType, error := none }]) ∧
      slrf_Healthy w' tbl' ∧ abs tbl' a.fileNumber = some f' ∧ f'.ftype = f.ftype ∧
      f'.words.length = f.words.length ∧ (∀ k, k ≠ a.fileNumber → abs tbl' k = abs tbl k) ∧
      (∀ j, j ≠ Spec.base a → f'.words.getD j 0 = f.words.getD j 0) ∧
      ∀ k, k < 16 → (f'.words.getD (Spec.base a) 0).testBit k =
        if k = a.subElement then v.truthy else (f.words.getD (Spec.base a) 0).testBit k := by
  have hr := parse_accepts_in_range t a hparse
  have hb : a.subElement < 16 := by have := hr.sub; omega
  rw [slrf_nmT, slrf_nmC] at hnsub
  cases slrf_form a v hr 0 hok.1 with
  | words ws haf' _ _ _ _ _ _ _ _ _ => rw [haf] at haf'; cases haf'
  | preacc x _ _ hsub _ _ _ => exact absurd hsub hnsub
  | bit _ hc1 hsub hraw hnwe =>
    have hwa : Spec.wordAt (abs tbl) a.fileNumber (Spec.base a) = f.words.getD (Spec.base a) 0 := by
      simp only [Spec.wordAt, hf]
    obtain ⟨nw, hnw⟩ : ∃ nw, nw = Spec.setBit (f.words.getD (Spec.base a) 0) a.subElement v.truthy := ⟨_, rfl⟩
    have hbits : ∀ k, k < 16 → nw.testBit k =
        if k = a.subElement then v.truthy else (f.words.getD (Spec.base a) 0).testBit k := by
      intro k hk
      rw [hnw]
      simp only [Spec.setBit]
      exact slrf_setBit_testBit _ _ _ _ hb hk
    have hin' : Spec.base a + [nw].length ≤ f.words.length := by
      simp only [List.length_cons, List.length_nil]; omega
    have hst := slrf_store_of_file (s := abs tbl) (i := Spec.base a) (new := [nw]) hf hty hin'
    have hwr0 : Spec.write (abs tbl) a v =
        Spec.store (abs tbl) a.fileNumber (typeCode a.fileType) (Spec.base a) [nw] := by
      simp only [Spec.write, hnwe, hwa, ← hnw]
    have hwr := hwr0.trans hst
    obtain ⟨w', tbl', h1, _, hH', hab⟩ := slc_write_in_range w tbl t a v _ hH hparse hok hwr
    refine ⟨w', tbl',
      SFile.mk f.ftype (f.words.take (Spec.base a) ++ [nw] ++ f.words.drop (Spec.base a + [nw].length)),
      h1, hH', by rw [hab]; exact if_pos rfl, rfl, ?_, ?_, ?_, ?_⟩
    · exact slrf_splice_len _ _ _ hin'
    · intro k hk
      rw [hab]
      exact if_neg hk
    · intro j hj
      simp only [slrf_getD_of_get?]
      rw [slrf_splice_out _ _ _ j hin' (by simp only [List.length_cons, List.length_nil]; omega)]
    · intro k hk
      have := slrf_splice_in f.words [nw] (Spec.base a) 0 hin' (by simp)
      rw [Nat.add_zero] at this
      simp only [slrf_getD_of_get?, this, List.getElem?_cons_zero, Option.getD_some]
      exact hbits k hk

private theorem slrf_elemVal_slice (ft : Name) (ws : List Nat) (b m i : Nat) (hi : i + 1 < m) :
    Spec.elemVal ft ((ws.drop b).take m) i = Spec.elemVal ft ws (b + i) := by
  simp only [Spec.elemVal, slrf_getD_of_get?, slrf_slice_get ws b m i (by omega),
    slrf_slice_get ws b m (i + 1) hi, Nat.add_assoc]

private theorem slrf_elemVal_slice1 (ft : Name) (hF : ft ≠ [70]) (hL : ft ≠ [76]) (ws : List Nat) (b m i : Nat)
    (hi : i < m) : Spec.elemVal ft ((ws.drop b).take m) i = Spec.elemVal ft ws (b + i) := by
  simp only [Spec.elemVal, slrf_nmF, slrf_nmL, hF, hL, if_false, slrf_getD_of_get?, slrf_slice_get ws b m i hi]

/-- C18, "a {count} request covers exactly that many consecutive elements" (`N7:e{n}`, `F8:e{n}`, `I:e.s{n}` …,
    n ≥ 2, the n elements inside the file).  READ: the Tag carries the list of exactly n values, the j-th being the
    value of the element that starts `wordsPer × j` words after the addressed one - element e+j.  WRITE of a list
    (or tuple) of at least n values in the domain: the error-free Tag echoing the value handed in; in the table left
    behind exactly the `wordsPer × n` words of the elements e … e+n-1 are replaced by the words of the FIRST n
    values, every word in front of and behind them and every other file is what it was (a longer list is
    truncated: element e+n is not written). -/
theorem count_covers_exactly_n (w : Cli.World Ext) (tbl : Table) (t : Name) (a : Addr) (f : SFile) (vs : List PyVal)
    (ws : List Nat) (hH : slrf_Healthy w tbl) (hparse : parseTag t = some a) (haf : a.addressField = 2)
    (hn : 2 ≤ a.count) (hrok : Spec.ReadOk a) (hf : abs tbl a.fileNumber = some f)
    (hty : f.ftype = typeCode a.fileType)
    (hin : Spec.base a + Spec.wordsPer a.fileType * a.count ≤ f.words.length)
    (hlen : a.count ≤ vs.length) (hseq : Spec.seqWords a.fileType (vs.take a.count) = some ws) :
    (∃ w1, slcRead hookAll w [t] =
        (w1, .ok [{ tag := a.tag,
                    value := .list ((List.range a.count).map fun j =>
                      Spec.elemVal a.fileType f.words (Spec.base a + Spec.wordsPer a.fileType * j)),
                    type := a.fileType, error := none }]) ∧ slrf_Healthy w1 tbl) ∧
    ∃ w2 tbl' f', slcWrite hookAll w [(t, .list vs)] =
        (w2, .ok [{ tag := a.tag, value := .list vs, type := a.fileType, error := none }]) ∧
      slrf_Healthy w2 tbl' ∧ abs tbl' a.fileNumber = some f' ∧ f'.ftype = f.ftype ∧
      ws.length = Spec.wordsPer a.fileType * a.count ∧
      f'.words = f.words.take (Spec.base a) ++ ws ++
        f.words.drop (Spec.base a + Spec.wordsPer a.fileType * a.count) ∧
      ∀ k, k ≠ a.fileNumber → abs tbl' k = abs tbl k := by
  have hr := parse_accepts_in_range t a hparse
  have hw := slrf_wordsPer a hr
  have hc1 : a.count ≠ 1 := by omega
  constructor
  · -- read
    have hfe : Spec.fetch (abs tbl) a.fileNumber (typeCode a.fileType) (Spec.base a)
        (Spec.wordsPer a.fileType * a.count) =
        .ok ((f.words.drop (Spec.base a)).take (Spec.wordsPer a.fileType * a.count)) := by
      simp only [Spec.fetch, hf]
      rw [if_neg (fun h => h hty), if_neg (by omega)]
    have hrd : Spec.read (abs tbl) a = .ok (.list ((List.range a.count).map fun j =>
        Spec.elemVal a.fileType f.words (Spec.base a + Spec.wordsPer a.fileType * j))) := by
      simp only [Spec.read, hfe, Except.map, Spec.value, haf, hc1, if_false]
      rw [if_neg (by decide)]
      congr 2
      apply List.map_congr_left
      intro j hj
      have hj' : j < a.count := List.mem_range.mp hj
      rcases slrf_ft_cases hr.ftype with h | h | h | h
      · have := (hr.ct h).1; omega
      · have h2 : Spec.wordsPer a.fileType = 2 := by rw [h]; decide
        rw [h2]
        exact slrf_elemVal_slice _ _ _ _ _ (by omega)
      · have h2 : Spec.wordsPer a.fileType = 2 := by rw [h]; decide
        rw [h2]
        exact slrf_elemVal_slice _ _ _ _ _ (by omega)
      · have h1 : Spec.wordsPer a.fileType = 1 := by rw [hw]; exact slrf_wpe_word h
        have hF : a.fileType ≠ [70] := by intro e; rw [e] at h; revert h; decide
        have hL : a.fileType ≠ [76] := by intro e; rw [e] at h; revert h; decide
        rw [h1]
        exact slrf_elemVal_slice1 _ hF hL _ _ _ _ (by omega)
    exact slc_read_in_range w tbl t a _ hH hparse hrok hrd
  · -- write
    have hnwo : ∀ old, Spec.newWords a (.list vs) old = some (Spec.base a, ws) := by
      intro old
      simp only [Spec.newWords, haf, hc1, hn, if_true, if_false, hlen, hseq, Option.map_some]
      rw [if_neg (by decide)]
    have hwok : Spec.WriteOk a (.list vs) := ⟨by rw [hnwo]; rfl, hrok.2.1, hrok.2.2⟩
    have hwl : ws.length = Spec.wordsPer a.fileType * a.count := by
      cases slrf_form a (.list vs) hr 0 hwok.1 with
      | words ws' _ _ _ hnwe hl _ _ _ _ _ =>
        have := (hnwe 0).symm.trans (hnwo 0)
        injection this with this
        injection this with _ this
        rw [← this, hl, hw]
      | preacc x haf' _ _ _ _ _ => rw [haf] at haf'; cases haf'
      | bit haf' _ _ _ _ => rw [haf] at haf'; cases haf'
    have hst := slrf_store_of_file (s := abs tbl) (i := Spec.base a) (new := ws) hf hty (by rw [hwl]; exact hin)
    have hwr0 : Spec.write (abs tbl) a (.list vs) =
        Spec.store (abs tbl) a.fileNumber (typeCode a.fileType) (Spec.base a) ws := by
      simp only [Spec.write, hnwo]
    have hwr := hwr0.trans hst
    obtain ⟨w2, tbl', h1, _, hH', hab⟩ := slc_write_in_range w tbl t a (.list vs) _ hH hparse hwok hwr
    refine ⟨w2, tbl',
      SFile.mk f.ftype (f.words.take (Spec.base a) ++ ws ++ f.words.drop (Spec.base a + ws.length)),
      h1, hH', by rw [hab]; exact if_pos rfl, rfl, hwl, by rw [hwl], ?_⟩
    intro k hk
    rw [hab]
    exact if_neg hk

/-! ## 5. non-vacuity: a concrete world obtained by running the model, a history, the driver against the specification -/

namespace RefEx

/-- the world of SlcDriverProofs: a fresh driver in front of a target holding `exTable` (N7, T4, S2, I1, F8, L9),
    after `open()` and the Forward Open - obtained by running the model -/
def world : Cli.World Ext := Ex.world

private theorem healthy0 : Lgx.Drv.ldr_Healthy world 4097 [238, 255, 192, 0] Ex.conn :=
  ⟨by decide +kernel, by decide +kernel, by decide +kernel, by decide +kernel, by decide +kernel, by decide,
   by decide +kernel, by decide +kernel, by decide, by decide +kernel, by decide +kernel, by decide +kernel⟩

/-- the world is healthy in front of `exTable` -/
private theorem healthy : slrf_Healthy world exTable :=
  ⟨4097, [238, 255, 192, 0], Ex.conn, healthy0, by decide, by decide +kernel, by decide +kernel, by decide +kernel⟩

/-- a history of 12 calls: word, bit, `{n}`, float, long, timer (PRE / ACC / status bits), status and I/O forms,
    several addresses per call, reads of a missing file (N12) and beyond the end of a file (N7:3), a refused write -/
def hist : List Op :=
  [.read [nm "N7:0", nm "N7:1"],
   .write [(nm "N7:1", .int 5)],
   .write [(nm "N7:2/2", .bool true)],
   .read [nm "N7:0{3}"],
   .write [(nm "F8:0", .float 0x3FB999999999999A)],
   .read [nm "F8:0", nm "F8:0/3"],
   .write [(nm "T4:1.PRE", .int 77), (nm "T4:0.DN", .int 1)],
   .read [nm "T4:1.PRE", nm "T4:1.ACC", nm "T4:0.DN", nm "T4:0.EN"],
   .write [(nm "N7:1{2}", .list [.int (-3), .int 9, .int 100])],
   .read [nm "N7:0{3}", nm "N7:3", nm "N12:0"],
   .write [(nm "N7:3", .int 1), (nm "L9:0", .int (-70000))],
   .read [nm "L9:0", nm "L9:0/0", nm "S:1", nm "I:3/7", nm "I:2.1/7"]]

/-- the domain predicate is decidable and holds of every call of the history -/
private theorem histOk : ∀ op ∈ hist, OpOk op := by decide

/-- `slc_history_refines_table` for the concrete world and history -/
example : (runCalls world hist).1 = (Spec.run (abs exTable) hist).1.map .ok ∧
    ∃ tbl', slrf_Healthy (runCalls world hist).2 tbl' ∧ abs tbl' = (Spec.run (abs exTable) hist).2 :=
  slc_history_refines_table world exTable hist healthy histOk

/-- Tags compared through their printed form (`PyVal` has no decidable equality) -/
def tagStr (t : STag) : String := toString (repr t)
def sameTags (a : Except Exn (List STag)) (b : List STag) : Bool :=
  match a with
  | .ok ts => ts.map tagStr == b.map tagStr
  | .error _ => false
def sameAll : List (Except Exn (List STag)) → List (List STag) → Bool
  | [], [] => true
  | a :: as, b :: bs => sameTags a b && sameAll as bs
  | _, _ => false

-- the driver model, run, returns call by call the Tags the specification returns …
#guard sameAll (runCalls world hist).1 (Spec.run (abs exTable) hist).1
#guard (runCalls world hist).1.length == 12
-- … and the final data table abstracts to the specification's final table (compared at every file number in use)
#guard (match (runCalls world hist).2.net.target.ext.slc with
        | some tbl' => [1, 2, 3, 4, 7, 8, 9, 12].all fun k => abs tbl' k == (Spec.run (abs exTable) hist).2 k
        | none => false)
-- some of the values: N7:1 is -1 at first, 5 after the write; `N7:0{3}` after the bit write is [0x1234, 5, 12]
#guard (match (Spec.run (abs exTable) hist).1 with
        | [[_, t1], [t2], _, [t4], _, [t5, t6], _, [t7, t8, t9, t10], _, [_, t12, t13], [t14, _], _] =>
            (match t1.value, t2.value, t4.value, t5.value, t6.value with
             | .int (-1), .int 5, .list [.int 0x1234, .int 5, .int 12], .float 0x3FB99999A0000000, .bool true => true
             | _, _, _, _, _ => false) &&
            (match t7.value, t8.value, t9.value, t10.value with
             | .int 77, .int 300, .bool true, .bool true => true
             | _, _, _, _ => false) &&
            t12.error == some (Spec.statusText 0x50) && t13.error == some (Spec.statusText 0x10) &&
            t14.error == some (Spec.statusText 0x50) && !t12.truthy && !t14.truthy
        | _ => false)

-- outside the domain: `read("N7:0{0}")` does not raise, the target refuses the zero-size request with status 0x10
#guard (match (slcRead hookAll world [nm "N7:0{0}"]).2 with
        | .ok [t] => !t.truthy && t.error == some (Spec.statusText 0x10)
        | _ => false)
#guard !decide (OpOk (.read [nm "N7:0{0}"])) && !decide (OpOk (.read [nm "N7:0{128}"])) &&
  !decide (OpOk (.write [(nm "N7:0", .bool true)])) && !decide (OpOk (.write [(nm "N7:0/1{2}", .bool true)])) &&
  decide (OpOk (.read [nm "N7:0/1{2}", nm "N7:0{127}", nm "F8:0{63}", nm "I:2.999/15"]))
-- the quirk behind STATEMENT CHANGED of `slc_write_in_range`: a successful write of None to a bit address returns a
-- falsy Tag (value None, error None); the bit is cleared
#guard (match (slcWrite hookAll world [(nm "N7:1/0", .none)]) with
        | (w', .ok [t]) => !t.truthy && t.error.isNone &&
            sameTags (slcRead hookAll w' [nm "N7:1"]).2
              [{ tag := nm "N7:1", value := .int (-2), type := nm "N", error := none }]
        | _ => false)
-- the float of STATEMENT CHANGED of `read_after_write_history`: 0.1 comes back as 0.10000000149011612
#guard (match Spec.echo { fileType := nm "F", fileNumber := 8, element := 0, addressField := 2, tag := nm "F8:0" }
          (.float 0x3FB999999999999A) with
        | .float 0x3FB99999A0000000 => true
        | _ => false)

def aN71 : Addr :=
  { fileType := nm "N", fileNumber := 7, element := 1, subElement := 0, addressField := 2, count := 1, tag := nm "N7:1" }
def aN73 : Addr :=
  { fileType := nm "N", fileNumber := 7, element := 3, subElement := 0, addressField := 2, count := 1, tag := nm "N7:3" }
def aN722 : Addr :=
  { fileType := nm "N", fileNumber := 7, element := 2, subElement := 2, addressField := 3, count := 1, tag := nm "N7:2/2" }
def aN703 : Addr :=
  { fileType := nm "N", fileNumber := 7, element := 0, subElement := 0, addressField := 2, count := 3, tag := nm "N7:0" }
def aT41pre : Addr :=
  { fileType := nm "T", fileNumber := 4, element := 1, subElement := 1, addressField := 3, count := 1, tag := nm "T4:1.PRE" }
def fN7 : SFile := { ftype := 0x89, words := [0x1234, 0xFFFF, 8] }

/-- `slc_read_refines` / `slc_read_in_range`: `read("N7:1")` returns -1 -/
example : ∃ w', slcRead hookAll world [nm "N7:1"] =
      (w', .ok [{ tag := nm "N7:1", value := .int (-1), type := nm "N", error := none }]) ∧ slrf_Healthy w' exTable :=
  slc_read_in_range world exTable (nm "N7:1") aN71 (.int (-1)) healthy (by decide) (by decide) rfl

/-- `slc_read_out_of_range`: `read("N7:3")` - N7 has 3 words - returns the falsy Tag of status 0x50 -/
example : ∃ w', slcRead hookAll world [nm "N7:3"] =
      (w', .ok [{ tag := nm "N7:3", value := .none, type := nm "N", error := some (Spec.statusText 0x50) }]) ∧
    ((0x50 : Nat) = 0x10 ∨ (0x50 : Nat) = 0x50) ∧ slrf_Healthy w' exTable :=
  slc_read_out_of_range world exTable (nm "N7:3") aN73 0x50 healthy (by decide) (by decide) rfl

/-- `slc_write_refines`: `write(("T4:1.PRE", 77))` -/
example : ∃ w' tbl', slcWrite hookAll world [(nm "T4:1.PRE", .int 77)] =
      (w', .ok [Spec.writeTag (abs exTable) aT41pre (.int 77)]) ∧ slrf_Healthy w' tbl' ∧
    abs tbl' = Spec.after (abs exTable) aT41pre (.int 77) :=
  slc_write_refines world exTable (nm "T4:1.PRE") aT41pre (.int 77) healthy (by decide) (by decide)

/-- `slc_write_out_of_range`: `write(("N7:3", 1))` is refused with status 0x50, the table keeps its abstraction -/
example : ∃ w' tbl', slcWrite hookAll world [(nm "N7:3", .int 1)] =
      (w', .ok [{ tag := nm "N7:3", value := .none, type := nm "N", error := some (Spec.statusText 0x50) }]) ∧
    ((0x50 : Nat) = 0x10 ∨ (0x50 : Nat) = 0x50) ∧ slrf_Healthy w' tbl' ∧ abs tbl' = abs exTable :=
  slc_write_out_of_range world exTable (nm "N7:3") aN73 (.int 1) 0x50 healthy (by decide) (by decide) rfl

def pre : List Op := [.read [nm "N7:0{3}"], .write [(nm "N7:1", .int 1)]]
def mid : List Op :=
  [.write [(nm "N7:2/2", .bool true)], .read [nm "N7:1", nm "F8:0"],
   .write [(nm "F8:0", .float 0x3FB999999999999A), (nm "T4:1.PRE", .int 77)], .write [(nm "N7:3", .int 1)]]

/-- `read_after_write_history`: after two calls, `write(("N7:1", 5))`, then four calls that do not touch N7:1 (a bit
    write to N7:2, a float write, a timer write, a refused write to N7:3, reads), then `read("N7:1")` returns 5 -/
example : ∃ front middle, front.length = 2 ∧ middle.length = 4 ∧
    (runCalls world (pre ++ [.write [(nm "N7:1", .int 5)]] ++ mid ++ [.read [nm "N7:1"]])).1 =
      front ++ [.ok [{ tag := nm "N7:1", value := .int 5, type := nm "N", error := none }]] ++ middle ++
        [.ok [{ tag := nm "N7:1", value := .int 5, type := nm "N", error := none }]] :=
  read_after_write_history world exTable pre mid (nm "N7:1") aN71 (.int 5) (.int 1) healthy (by decide) (by decide)
    (by decide) (by decide) (by decide) rfl (by decide)

#guard sameAll (runCalls world (pre ++ [.write [(nm "N7:1", .int 5)]] ++ mid ++ [.read [nm "N7:1"]])).1
  (Spec.run (abs exTable) (pre ++ [.write [(nm "N7:1", .int 5)]] ++ mid ++ [.read [nm "N7:1"]])).1

/-- `bit_write_changes_only_that_bit`: `write(("N7:2/2", True))` -/
example : ∃ w' tbl' f', slcWrite hookAll world [(nm "N7:2/2", .bool true)] =
      (w', .ok [{ tag := nm "N7:2/2", value := .bool true, type := nm "N", error := none }]) ∧
    slrf_Healthy w' tbl' ∧ abs tbl' 7 = some f' ∧ f'.ftype = 0x89 ∧ f'.words.length = 3 ∧
    (∀ k, k ≠ 7 → abs tbl' k = abs exTable k) ∧
    (∀ j, j ≠ 2 → f'.words.getD j 0 = fN7.words.getD j 0) ∧
    ∀ k, k < 16 → (f'.words.getD 2 0).testBit k = if k = 2 then true else (8 : Nat).testBit k :=
  bit_write_changes_only_that_bit world exTable (nm "N7:2/2") aN722 (.bool true) fN7 healthy (by decide) (by decide)
    rfl (by decide) (by decide) rfl (by decide)

/-- `count_covers_exactly_n`: `read("N7:0{3}")` and `write(("N7:0{3}", [1, 2, 3, 4]))` (the 4 is not written) -/
example : (∃ w1, slcRead hookAll world [nm "N7:0{3}"] =
      (w1, .ok [{ tag := nm "N7:0",
                  value := .list ((List.range 3).map fun j => Spec.elemVal (nm "N") fN7.words (0 + 1 * j)),
                  type := nm "N", error := none }]) ∧ slrf_Healthy w1 exTable) ∧
    ∃ w2 tbl' f', slcWrite hookAll world [(nm "N7:0{3}", .list [.int 1, .int 2, .int 3, .int 4])] =
        (w2, .ok [{ tag := nm "N7:0", value := .list [.int 1, .int 2, .int 3, .int 4], type := nm "N", error := none }]) ∧
      slrf_Healthy w2 tbl' ∧ abs tbl' 7 = some f' ∧ f'.ftype = 0x89 ∧ [1, 2, 3].length = 1 * 3 ∧
      f'.words = fN7.words.take 0 ++ [1, 2, 3] ++ fN7.words.drop (0 + 1 * 3) ∧
      ∀ k, k ≠ 7 → abs tbl' k = abs exTable k :=
  count_covers_exactly_n world exTable (nm "N7:0{3}") aN703 fN7 [.int 1, .int 2, .int 3, .int 4] [1, 2, 3] healthy
    (by decide) rfl (by decide) (by decide) (by decide) rfl (by decide) (by decide) (by decide)

end RefEx

end Pycomm.Slc.Drv
