/-
  LogixDriver.write of an ALIGNED BOOL-array range whose BOOL count is no multiple of 32 (`name[i]{n}`, `i % 32 = 0`,
  `n % 32 ≠ 0`): the driver builds and sends a Write Tag that declares `⌈n / 32⌉` DWORDs and carries `⌊n / 32⌋`; the
  reference controller refuses it with status 0x13, nothing is written.
    `ldb_writeTag_short`        the controller's Write Tag service on too few data bytes
    `ldb_sendUnit_write_short`  the exchange on the healthy connection
    `ldb_write_partial`         the layers composed
-/
import PycommProofs.LDBool2
import PycommProofs.LDFailWrite
namespace Pycomm.Lgx.Drv
open Pycomm Pycomm.Tgt Pycomm.Path Pycomm.Reply Pycomm.Encap Pycomm.Lgx Pycomm.Lgx.E2E

/-- (d) the Write Tag service of the reference controller on a request that declares `n` elements of an elementary
    type but carries fewer bytes: status 0x13 ("Insufficient command data"), the state is untouched -/
theorem ldb_writeTag_short (st : LState) (loc : Loc) (c n sz : Nat) (value : Bytes) (s : Symbol)
    (hty : loc.ty = .atomic c) (hn : 1 ≤ n ∧ n ≤ loc.avail ∧ n < 65536)
    (hs : st.proj.symbolOf loc = some s) (hsz : st.proj.elSize loc.ty = some sz)
    (hlen : value.length < n * sz) :
    Lgx.writeTag st loc (le 2 c ++ le 2 n ++ value) false = (st, { status := 0x13 }) := by
  have hT : typeBytes st.proj loc.ty = le 2 c := by rw [hty]; rfl
  have hTl : (le 2 c).length = 2 := le_length _ _
  have hd : (le 2 c ++ le 2 n ++ value).length = 2 + 2 + value.length := by
    simp only [List.length_append, le_length]
  have h1 : (le 2 c ++ le 2 n ++ value).take 2 = le 2 c := by
    rw [List.append_assoc, ← hTl, List.take_left']; rfl
  have h2 : leAt (le 2 c ++ le 2 n ++ value) 2 2 = n := leAt_mid (le 2 c) value 2 n _ hTl (by omega)
  have h3 : (le 2 c ++ le 2 n ++ value).drop (2 + 2 + 0) = value := by
    rw [RT.drop_append_len]; simp [le_length]
  unfold Lgx.writeTag
  simp only [hs, hty] at hT ⊢
  simp only [Bool.false_eq_true, if_false, h1, h2, h3, hd, hT]
  rw [if_neg (by omega), if_neg (by simp), if_neg (by omega), if_neg (by omega)]
  have hne : value.length ≠ n * sz := by omega
  have hsz' : st.proj.elSize (.atomic c) = some sz := by rw [← hty]; exact hsz
  simp [hsz', hne, hlen]

/-- (c)+(d) a Write Tag message declaring `n` elements but carrying too few bytes, sent on the healthy connection: one
    frame is written, the reply is the framed status 0x13, the Logix state of the target is the one it was -/
theorem ldb_sendUnit_write_short (w : Cli.World Ext) (sess : Nat) (cidb : Bytes) (conn : Conn) (st : LState)
    (path : Bytes) (segs : List PSeg) (loc : Loc) (s : Symbol) (c sz n : Nat) (bytes : Bytes) (seq : Nat)
    (hw : ldr_Healthy w sess cidb conn) (hlogix : w.net.target.ext.logix = some st)
    (hp : Denotes path segs) (hr : resolve st.proj segs = .ok loc) (hty : loc.ty = .atomic c)
    (hn : 1 ≤ n ∧ n ≤ loc.avail ∧ n < 65536)
    (hs : st.proj.symbolOf loc = some s) (hsz : atomicSize c = some sz)
    (hbl : bytes.length < n * sz)
    (hseq : seq < 65536) (hm : path.length + 5 + bytes.length ≤ 65400) (hfit : path.length + 7 + bytes.length ≤ conn.size) :
    ∃ w' frm, sendUnit hookAll w seq (Cl.writeMsg path (le 2 c) n bytes) =
        (w', .ok (some (frame CMD_SEND_UNIT sess 0 w.drv.context (cpfReplyConnected conn.toId seq
          (encMRReply 0x4D (ldx_refusal 0x13)))))) ∧
      w'.drv = w.drv ∧ w'.net.sent = w.net.sent ++ [frm] ∧
      w'.net.target.ext = w.net.target.ext ∧
      ldr_Healthy w' sess cidb { conn with lastSeq := some seq } := by
  have hmsg : Cl.writeMsg path (le 2 c) n bytes = [0x4D] ++ path ++ (le 2 c ++ le 2 n ++ bytes) := by
    simp only [Cl.writeMsg, List.append_assoc]
  have hml : ([0x4D] ++ path ++ (le 2 c ++ le 2 n ++ bytes) : Bytes).length = path.length + 5 + bytes.length := by
    simp only [List.length_append, List.length_cons, List.length_nil, le_length]; omega
  have hpm : parseMR ([0x4D] ++ path ++ (le 2 c ++ le 2 n ++ bytes)) = some (ldw_req 0x4D segs (le 2 c ++ le 2 n ++ bytes)) :=
    parseMR_msg 0x4D path _ segs hp
  have hsv : (ldw_req 0x4D segs (le 2 c ++ le 2 n ++ bytes)).service = 0x4D ∨
      (ldw_req 0x4D segs (le 2 c ++ le 2 n ++ bytes)).service = 0x53 ∨
      (ldw_req 0x4D segs (le 2 c ++ le 2 n ++ bytes)).service = 0x4E := Or.inl rfl
  have hwt := ldb_writeTag_short st loc c n sz bytes s hty hn hs (by rw [hty]; exact hsz) hbl
  have hls : logixService st (ldw_req 0x4D segs (le 2 c ++ le 2 n ++ bytes)) (some (conn.size - 2)) =
      some (st, ldx_refusal 0x13) := by
    simp only [logixService, Option.getD_some]
    rw [if_neg (by rcases hsv with h | h | h <;> rw [h] <;> simp), w_single_of_resolve st _ _ loc hr hsv,
      w_tagService_of_resolve st _ _ loc hr hsv]
    have h4d : (ldw_req 0x4D segs (le 2 c ++ le 2 n ++ bytes)).service = 0x4D := rfl
    rw [if_pos h4d]
    show some (Lgx.writeTag st loc (le 2 c ++ le 2 n ++ bytes) false) = _
    rw [hwt]
    rfl
  rw [hmsg]
  obtain ⟨w', frm, h1, h2, h3, h4, h5⟩ := ldr2_sendUnit_logix w sess cidb conn st seq _ _ (st, ldx_refusal 0x13) hw hlogix hpm
    (ldr2_logixPath_of_resolve _ _ _ hr) hls hseq (by rw [hml]; omega) (by rw [hml]; omega)
  refine ⟨w', frm, h1, h2, h3, ?_, h5⟩
  rw [h4]
  cases hx : w.net.target.ext with
  | mk lg sl => rw [hx] at hlogix; simp only at hlogix; rw [hlogix]

theorem ldb_insufficient_text : ldx_errText (ldx_refusal 0x13) = nm "Insufficient command data" := by decide

/-- `write` of `n` BOOLs (`n ≥ 2`, `n % 32 ≠ 0`) from an aligned element `i` of a controller-scope BOOL array, requested
    as `name[i]{n}` with a list of exactly `n` bools: the request is NOT refused locally; one Write Tag declaring
    `(n + 31) / 32` DWORDs with `n / 32` DWORDs of data is sent, the controller answers "Insufficient command data" -/
theorem ldb_write_partial (cfg : Cfg) (w : Cli.World Ext) (sess : Nat) (cidb : Bytes) (conn : Conn)
    (st : LState) (s : Symbol) (info : TagInfo) (dim i n : Nat) (bools : List Bool)
    (hw : ldr_Healthy w sess cidb conn) (hlogix : w.net.target.ext.logix = some st)
    (hs : s ∈ st.proj.controller)
    (hbytes : ∀ s' ∈ st.proj.controller, ∀ ch ∈ s'.name, ch < 256)
    (huniqN : ∀ s' ∈ st.proj.controller, s'.name = s.name → s' = s)
    (huniqI : ∀ s' ∈ st.proj.controller, s'.inst = s.inst → s' = s)
    (hid : PlainIdent s.name) (hinst : s.inst < 2 ^ 32)
    (hty : elTyOfWord s.symbolType = .atomic 0xD3)
    (hdims : s.dims.filter (· != 0) = [dim]) (hlen : s.mem.length = dim * 4)
    (hget : cfg.tags.get? s.name = some info)
    (hinfo : ldr_InfoOf info (nm "DWORD") (.arr (.fixed dim) (.bits .udint)) s.inst)
    (hi : i % 32 = 0) (hn : 2 ≤ n) (hn32 : n % 32 ≠ 0) (hn16 : n ≤ 65535) (hin : i + n ≤ 32 * dim)
    (hw16 : ldb_words i n ≤ 65535) (hl : bools.length = n)
    (hC : 2 * (n / 32 * 4) + s.name.length + 26 ≤ w.drv.connectionSize)
    (hT : n / 32 * 4 + s.name.length + 26 ≤ conn.size) :
    ∃ w' frm, write hookAll cfg w [(ldr2_tagStr ⟨s.name, [i]⟩ none (some n), .list (bools.map PyVal.bool))] =
        (w', .ok [{ tag := renderLevel ⟨s.name, [i]⟩, value := .list (bools.map PyVal.bool),
                    type := some (nm "BOOL[" ++ renderDec (n : Int) ++ [93]),
                    error := some (.reply (.text (nm "Insufficient command data"))) }]) ∧
      w'.drv = w.drv.nextSeq.2 ∧ w'.net.sent = w.net.sent ++ [frm] ∧
      w'.net.target.ext = w.net.target.ext ∧
      ldr_Healthy w' sess cidb { conn with lastSeq := some w.drv.nextSeq.1 } := by
  have hwds : i / 32 + (n + 31) / 32 ≤ dim := by omega
  have hw16' : (i + n + 31) / 32 ≤ 65535 := hw16
  have hnl := hid.2.1
  have hi32 : i / 32 < 2 ^ 32 := by omega
  have hlk : ldr2_Level ⟨s.name, [i / 32]⟩ := ⟨hid, by simp, by simp; omega⟩
  have hsz : atomicSize 0xD3 = some 4 := rfl
  have hentry : typeEntryOfName (nm "DWORD") = some (nm "DWORD", 0xD3, 4) := by decide
  have hdw : isDword info = true := by simp [isDword, hinfo.kind, hinfo.typeName]
  -- (a) parsing, (b) encode_value
  have hparse := ldb_parse_write cfg.tags s.name i n info hid hget hdw hn hn16 hw16
  obtain ⟨bytes, hencv, hbl⟩ := ldb_encodeValue_partial s.name i n info dim bools hi hn hinfo.typeName hinfo.ty hl
  have hparsed : ((parseRequestedTags cfg.tags true ([(ldr2_tagStr ⟨s.name, [i]⟩ none (some n), PyVal.list (bools.map PyVal.bool))].map (·.1))).zip
      ([(ldr2_tagStr ⟨s.name, [i]⟩ none (some n), PyVal.list (bools.map PyVal.bool))].map (·.2))).map
      (fun x => ({ x.1 with value := x.2 } : Drv.Parsed)) = [ldb_parsedWrite s.name i n info (.list (bools.map PyVal.bool))] := by
    show ([parseTagRequest cfg.tags true 0 _].zip [_]).map _ = _
    rw [hparse]; rfl
  obtain ⟨path, hpath, hpl, hden⟩ := ldr2_requestPath cfg ⟨s.name, [i / 32]⟩ info s.inst hlk hinfo.instanceId hinst
  have hpl' : path.length ≤ s.name.length + 19 := by
    have : path.length ≤ s.name.length + 13 + 6 * 1 := hpl
    omega
  have hpt : packedTypeOf info = le 2 0xD3 := ldw_packedType info (nm "DWORD") 0xD3 4 hinfo.struct hinfo.typeName hentry
  have hml : (Cl.writeMsg path (packedTypeOf info) ((n + 31) / 32) bytes).length = path.length + 5 + bytes.length := by
    rw [hpt]
    simp only [Cl.writeMsg, List.length_append, List.length_cons, List.length_nil, le_length]; omega
  have hbuild := ldw2_build_single cfg w.drv (ldb_parsedWrite s.name i n info (.list (bools.map PyVal.bool)))
    { ldb_parsedWrite s.name i n info (.list (bools.map PyVal.bool)) with elements := (((n + 31) / 32 : Nat) : Int) }
    info path bytes ((n + 31) / 32) rfl rfl rfl hencv rfl rfl (by omega) hpath (by rw [hml]; omega)
  -- (d) the address
  have hmem : s.mem ≠ [] := by
    intro h
    rw [h, List.length_nil] at hlen
    omega
  have hr := ldr2_resolve_elem st.proj s 0xD3 4 cfg.useInstanceIds (i / 32) dim hid hs hbytes huniqN huniqI hty hsz hmem hdims
    (by omega)
  have hsym : st.proj.symbolOf (ldr2_locAt s 0xD3 4 (i / 32) dim) = some s := ldr_find_inst st.proj s hs huniqI
  have hw1 : ldr_Healthy ({ w with drv := w.drv.nextSeq.2 } : Cli.World Ext) sess cidb conn :=
    ldr_Healthy_seq hw _ (by rw [(Cli.lcs_nextSeq w.drv).2])
  obtain ⟨w2, frm, hsend, hd2, hsent2, hext2, hh2⟩ := ldb_sendUnit_write_short ({ w with drv := w.drv.nextSeq.2 } : Cli.World Ext)
    sess cidb conn st path _ (ldr2_locAt s 0xD3 4 (i / 32) dim) s 0xD3 4 ((n + 31) / 32) bytes w.drv.nextSeq.1 hw1 hlogix hden hr
    rfl ⟨by omega, by simp only [ldr2_locAt]; omega, by omega⟩ hsym hsz (by omega) (ldr_nextSeq_lt w.drv) (by omega) (by omega)
  rw [← hpt] at hsend
  obtain ⟨f1, f2, f3⟩ := ldx_refusal_facts 0x13 (by decide) (by decide)
  have hresp := ldx_writeTag_refused (renderLevel ⟨s.name, [i / 32]⟩) (.bytes bytes) info.core.dataTypeName 0x4D sess conn.toId
    w.drv.nextSeq.1 w.drv.nextSeq.2.context (ldx_refusal 0x13) hw1.ctx8 f1 f2 f3 (Or.inr (Or.inr (Or.inl rfl)))
  rw [ldb_insufficient_text] at hresp
  have hfo : Cli.ensureForwardOpen hookAll Cli.FUEL w = (w, .ok ()) := ldr_ensureFO_connected hookAll 7 w hw.connected
  refine ⟨w2, frm, ?_, hd2, hsent2, hext2, hh2⟩
  unfold write
  rw [hfo]
  dsimp only
  rw [hparsed, hbuild]
  dsimp only
  unfold sendRequests sendRequest
  dsimp only
  have hplc : (ldb_parsedWrite s.name i n info (PyVal.list (bools.map PyVal.bool))).plcTag = renderLevel ⟨s.name, [i / 32]⟩ := rfl
  rw [hplc, hsend]
  dsimp only
  rw [hresp]
  dsimp only [Except.map]
  unfold sendRequests
  dsimp only [ldw_fanOut_write, List.isEmpty_cons, Bool.false_eq_true, if_false, List.map_cons, List.map_nil,
    Results.set, List.any_nil, List.nil_append]
  have h0 : ¬ (((n : Nat) : Int) = 0) := by omega
  simp only [Bool.false_eq_true, if_false, List.map_cons, List.map_nil, writeResult, ldb_parsedWrite, Results.get?,
    List.find?_cons, beq_self_eq_true, Option.map_some, Option.isSome_some, Option.isNone_some, Bool.and_false, ne_eq, h0,
    not_false_eq_true, if_true]

end Pycomm.Lgx.Drv
