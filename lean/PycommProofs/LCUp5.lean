/-
  Helper lemmas for C10 over histories with the uploads of the LogixDriver.  Part 5: which exceptions escape
  `get_tag_list` and `LogixDriver.open()`: library exceptions (everything inside the `try … except Exception: raise
  ResponseError` wrappers), and three corner cases — the fuel marker `.hang`, the marker `unmodelled` of the model
  and RuntimeError (the `_info["programs"]` dict changed size during the iteration over the programs).
-/
import PycommProofs.LCUp2
import PycommProofs.LCBasic
import PycommProofs.RPBasic
namespace Pycomm.Lgx.Opn
open Pycomm.Tgt Pycomm.Encap Pycomm.Path Pycomm.Reply Pycomm.Lgx

/-- library exception, fuel marker or the model's marker for controller data outside its universe of types -/
def lcu_Soft (e : Exn) : Prop := Cli.LcLib e ∨ e = .hang ∨ e = unmodelled

/-- every error of the result satisfies `P` -/
def lcu_ErrIn {α} (P : Exn → Prop) (r : Except Exn α) : Prop := ∀ e, r = .error e → P e

theorem lcu_ErrIn_ok {α} (P : Exn → Prop) (x : α) : lcu_ErrIn P (.ok x : Except Exn α) := fun _ h => nomatch h

theorem lcu_ErrIn_err {α} (P : Exn → Prop) (e : Exn) (h : P e) : lcu_ErrIn P (.error e : Except Exn α) :=
  fun _ h' => by cases h'; exact h

theorem lcu_ErrIn_map {α β} (P : Exn → Prop) (r : Except Exn α) (f : α → β) (h : lcu_ErrIn P r) :
    lcu_ErrIn P (r.map f) := by
  cases r with
  | error e => exact fun e' he' => h e' (by cases he'; rfl)
  | ok x => exact fun _ h' => nomatch h'

theorem lcu_ErrIn_mono {α} {P Q : Exn → Prop} (r : Except Exn α) (h : lcu_ErrIn P r) (hpq : ∀ e, P e → Q e) :
    lcu_ErrIn Q r := fun e he => hpq e (h e he)

theorem lcu_soft_response : lcu_Soft .response := .inl Cli.lc_lib_response
theorem lcu_soft_hang : lcu_Soft .hang := .inr (.inl rfl)
theorem lcu_soft_unmodelled : lcu_Soft unmodelled := .inr (.inr rfl)

/-- `except Exception as err: raise ResponseError(…) from err` leaves ResponseError and the two markers -/
theorem lcu_wrap_cases (e : Exn) :
    wrapResponse e = .response ∨ (e = .hang ∧ wrapResponse e = .hang) ∨ (e = unmodelled ∧ wrapResponse e = unmodelled) := by
  unfold wrapResponse
  split
  · rename_i h
    simp only [Bool.or_eq_true, beq_iff_eq] at h
    rcases h with h | h
    · exact .inr (.inl ⟨h, h⟩)
    · exact .inr (.inr ⟨h, h⟩)
  · exact .inl rfl

theorem lcu_wrap_soft (e : Exn) : lcu_Soft (wrapResponse e) := by
  rcases lcu_wrap_cases e with h | ⟨_, h⟩ | ⟨_, h⟩ <;> rw [h]
  · exact lcu_soft_response
  · exact lcu_soft_hang
  · exact lcu_soft_unmodelled

theorem lcu_lib_ne_hang (e : Exn) (h : Cli.LcLib e) : e ≠ .hang := by
  rcases h with rfl | rfl | rfl | rfl | rfl <;> exact fun h' => nomatch h'

theorem lcu_lib_ne_unmodelled (e : Exn) (h : Cli.LcLib e) : e ≠ unmodelled := by
  rcases h with rfl | rfl | rfl | rfl | rfl <;> exact fun h' => nomatch h'

/-- a library exception becomes ResponseError -/
theorem lcu_wrap_lib (e : Exn) (h : Cli.LcLib e) : wrapResponse e = .response := by
  rcases lcu_wrap_cases e with h1 | ⟨h1, _⟩ | ⟨h1, _⟩
  · exact h1
  · exact absurd h1 (lcu_lib_ne_hang e h)
  · exact absurd h1 (lcu_lib_ne_unmodelled e h)

/-! ### the calls of `_initialize_driver` before `get_tag_list`: library exceptions only -/

theorem lcu_listIdentity_err {σ} (hook : ObjHook σ) (w : Cli.World σ) : lcu_ErrIn Cli.LcLib (listIdentity hook w).2 := by
  unfold listIdentity
  have h1 : lcu_ErrIn Cli.LcLib (Cli.sendReq hook w .listIdentity false).2 :=
    fun e he => Cli.lc_sendReq_lib hook w _ _ e he
  generalize Cli.sendReq hook w .listIdentity false = r at h1 ⊢
  obtain ⟨w1, r⟩ := r
  dsimp only at h1 ⊢
  cases r with
  | error e => exact lcu_ErrIn_err _ _ (h1 e rfl)
  | ok o =>
    cases o with
    | none => exact lcu_ErrIn_ok _ _
    | some raw =>
      dsimp only
      split <;> exact lcu_ErrIn_ok _ _

theorem lcu_getPlcInfo_err {σ} (hook : ObjHook σ) (w : Cli.World σ) (m : Bool) :
    lcu_ErrIn (fun e => e = .response) (getPlcInfo hook w m).2 := by
  unfold getPlcInfo
  have h1 : lcu_ErrIn Cli.LcLib (Cli.genericMessage hook Cli.FUEL w { service := 0x01, cls := .bytes [0x01], inst := .bytes [0x01], connected := false, unconnectedSend := !m, name := nm "get_plc_info" }).2 :=
    fun e he => Cli.lc_gm_lib hook 4 w _ e he
  generalize Cli.genericMessage hook Cli.FUEL w _ = r at h1 ⊢
  obtain ⟨w1, r⟩ := r
  dsimp only at h1 ⊢
  cases r with
  | error e => exact lcu_ErrIn_err _ _ (lcu_wrap_lib e (h1 e rfl))
  | ok tag =>
    dsimp only
    split
    · exact lcu_ErrIn_err _ _ rfl
    · split
      · split
        · split
          · exact lcu_ErrIn_ok _ _
          · exact lcu_ErrIn_err _ _ rfl
        · exact lcu_ErrIn_err _ _ rfl
      · exact lcu_ErrIn_err _ _ rfl

theorem lcu_getPlcName_err {σ} (hook : ObjHook σ) (w : Cli.World σ) : lcu_ErrIn Cli.LcLib (getPlcName hook w).2 := by
  unfold getPlcName
  have h0 : lcu_ErrIn Cli.LcLib (Cli.ensureForwardOpen hook Cli.FUEL w).2 := fun e he => Cli.lc_efo_lib hook 5 w e he
  generalize Cli.ensureForwardOpen hook Cli.FUEL w = r0 at h0 ⊢
  obtain ⟨w0, pre⟩ := r0
  dsimp only at h0 ⊢
  cases pre with
  | error e => exact lcu_ErrIn_err _ _ (h0 e rfl)
  | ok u =>
    dsimp only
    have h1 : lcu_ErrIn Cli.LcLib (Cli.genericMessage hook Cli.FUEL w0 { service := 0x01, cls := .bytes [0x64], inst := .int 1, dataType := some (.str .uint .latin1), name := nm "get_plc_name" }).2 :=
      fun e he => Cli.lc_gm_lib hook 4 w0 _ e he
    generalize Cli.genericMessage hook Cli.FUEL w0 _ = r at h1 ⊢
    obtain ⟨w1, r⟩ := r
    dsimp only at h1 ⊢
    cases r with
    | error e => exact lcu_ErrIn_err _ _ (by rw [lcu_wrap_lib e (h1 e rfl)]; exact Cli.lc_lib_response)
    | ok tag =>
      dsimp only
      split
      · exact lcu_ErrIn_err _ _ Cli.lc_lib_response
      · split
        · exact lcu_ErrIn_ok _ _
        · exact lcu_ErrIn_err _ _ Cli.lc_lib_response

/-! ### `get_tag_list`: the classes -/

theorem lcu_gial_soft {σ} (hook : ObjHook σ) (program : Option Name) (wa : Bool) (fuel : Nat) :
    ∀ (w : Cli.World σ) (last : Nat) (acc : List Up.Rec),
      lcu_ErrIn lcu_Soft (getInstanceAttributeList hook program wa fuel w last acc).2 := by
  induction fuel with
  | zero => intro w last acc; exact lcu_ErrIn_err _ _ lcu_soft_hang
  | succ n ih =>
    intro w last acc
    rw [getInstanceAttributeList]
    cases symbolListPath program last with
    | error e => exact lcu_ErrIn_err _ _ lcu_soft_response
    | ok path =>
      dsimp only
      generalize Cli.sendReq hook _ _ false = r
      obtain ⟨w2, r⟩ := r
      dsimp only
      cases r with
      | error e => exact lcu_ErrIn_err _ _ (lcu_wrap_soft e)
      | ok raw =>
        dsimp only
        split
        · exact lcu_ErrIn_err _ _ lcu_soft_response
        · split
          · exact lcu_ErrIn_err _ _ (lcu_wrap_soft _)
          · split
            · exact lcu_ErrIn_ok _ _
            · exact ih _ _ _

theorem lcu_getStructureMakeup_err {σ} (hook : ObjHook σ) (st : St σ) (tid : Nat) :
    lcu_ErrIn Cli.LcLib (getStructureMakeup hook st tid).2 := by
  unfold getStructureMakeup
  split
  · exact lcu_ErrIn_ok _ _
  · have h1 : lcu_ErrIn Cli.LcLib (Cli.genericMessage hook Cli.FUEL st.w { service := 0x03, cls := .bytes [0x6c], inst := .int tid, connected := true, data := [0x04, 0x00, 0x04, 0x00, 0x05, 0x00, 0x02, 0x00, 0x01, 0x00], dataType := some (.struct Gen.templateAttributesMembers), name := nm "_get_structure_makeup" }).2 :=
      fun e he => Cli.lc_gm_lib hook 4 st.w _ e he
    generalize Cli.genericMessage hook Cli.FUEL st.w _ = r at h1 ⊢
    obtain ⟨w1, r⟩ := r
    dsimp only at h1 ⊢
    cases r with
    | error e => exact lcu_ErrIn_err _ _ (h1 e rfl)
    | ok tag =>
      dsimp only
      split
      · exact lcu_ErrIn_err _ _ Cli.lc_lib_response
      · split
        · exact lcu_ErrIn_ok _ _
        · exact lcu_ErrIn_err _ _ Cli.lc_lib_response

theorem lcu_genericConnectedRaw_err {σ} (hook : ObjHook σ) (w : Cli.World σ) (service : Nat) (cls inst : LVal)
    (data : Bytes) : lcu_ErrIn Cli.LcLib (genericConnectedRaw hook w service cls inst data).2 := by
  unfold genericConnectedRaw
  have h0 : lcu_ErrIn Cli.LcLib (Cli.ensureForwardOpen hook Cli.FUEL w).2 := fun e he => Cli.lc_efo_lib hook 5 w e he
  generalize Cli.ensureForwardOpen hook Cli.FUEL w = r0 at h0 ⊢
  obtain ⟨w0, pre⟩ := r0
  dsimp only at h0 ⊢
  cases pre with
  | error e => exact lcu_ErrIn_err _ _ (h0 e rfl)
  | ok u =>
    dsimp only
    cases hp : requestPath cls inst (.bytes []) with
    | error e => exact lcu_ErrIn_err _ _ (by rw [Cli.lc_requestPath_err _ _ _ e hp]; exact Cli.lc_lib_data)
    | ok path =>
      dsimp only
      have h1 : lcu_ErrIn Cli.LcLib (Cli.sendReq hook { w0 with drv := w0.drv.nextSeq.2 }
          (.sendUnit w0.drv.nextSeq.1 ([UInt8.ofNat service] ++ path ++ data)) false).2 :=
        fun e he => Cli.lc_sendReq_lib hook _ _ _ e he
      generalize Cli.sendReq hook _ _ false = r at h1 ⊢
      obtain ⟨w2, r⟩ := r
      dsimp only at h1 ⊢
      cases r with
      | error e => exact lcu_ErrIn_err _ _ (h1 e rfl)
      | ok reply =>
        dsimp only
        split
        · rename_i e he
          exact lcu_ErrIn_err _ _ (Cli.lc_errorCip_lib _ _ _ _ e he)
        · exact lcu_ErrIn_ok _ _

theorem lcu_readTemplate_soft {σ} (hook : ObjHook σ) (tid ods : Nat) (fuel : Nat) :
    ∀ (w : Cli.World σ) (offset : Nat) (acc : Bytes), lcu_ErrIn lcu_Soft (readTemplate hook tid ods fuel w offset acc).2 := by
  induction fuel with
  | zero => intro w offset acc; exact lcu_ErrIn_err _ _ lcu_soft_hang
  | succ n ih =>
    intro w offset acc
    rw [readTemplate]
    split
    · generalize genericConnectedRaw hook w 0x4C (.bytes [0x6c]) (.int tid) _ = r
      obtain ⟨w1, r⟩ := r
      dsimp only
      cases r with
      | error e => exact lcu_ErrIn_err _ _ (lcu_wrap_soft e)
      | ok reply =>
        dsimp only
        split
        · split
          · exact lcu_ErrIn_ok _ _
          · split
            · exact ih _ _ _
            · exact lcu_ErrIn_err _ _ lcu_soft_response
        · exact lcu_ErrIn_err _ _ lcu_soft_response
    · exact lcu_ErrIn_err _ _ lcu_soft_response

/-- `_get_data_type`: the whole body is wrapped -/
theorem lcu_getDataType_soft {σ} (hook : ObjHook σ) (fuel : Nat) (st : St σ) (tid symbolType : Nat) :
    lcu_ErrIn lcu_Soft (getDataType hook fuel st tid symbolType).2 := by
  cases fuel with
  | zero => exact lcu_ErrIn_err _ _ lcu_soft_hang
  | succ n =>
    rw [getDataType]
    split
    · exact lcu_ErrIn_ok _ _
    · generalize getStructureMakeup hook st tid = r
      obtain ⟨st1, r⟩ := r
      dsimp only
      cases r with
      | error e => exact lcu_ErrIn_err _ _ (lcu_wrap_soft e)
      | ok a =>
        dsimp only
        generalize readTemplate hook tid a.objectDefinitionSize TMPL_FUEL st1.w 0 [] = r2
        obtain ⟨w2, r2⟩ := r2
        dsimp only
        cases r2 with
        | error e => exact lcu_ErrIn_err _ _ (lcu_wrap_soft e)
        | ok data =>
          dsimp only
          generalize resolveMembers (getDataType hook n) _ _ = r3
          obtain ⟨st3, r3⟩ := r3
          dsimp only
          cases r3 with
          | error e => exact lcu_ErrIn_err _ _ (lcu_wrap_soft e)
          | ok nested =>
            dsimp only
            split
            · exact lcu_ErrIn_err _ _ (lcu_wrap_soft _)
            · exact lcu_ErrIn_ok _ _

theorem lcu_createTag_soft {σ} (hook : ObjHook σ) (st : St σ) (r : Up.Rec) : lcu_ErrIn lcu_Soft (createTag hook st r).2 := by
  unfold createTag
  dsimp only
  split
  · have h1 := lcu_getDataType_soft hook DT_FUEL st (K.decodeTypeWord r.symbolType).templateId r.symbolType
    generalize getDataType hook DT_FUEL st (K.decodeTypeWord r.symbolType).templateId r.symbolType = res at h1 ⊢
    obtain ⟨st1, d⟩ := res
    dsimp only at h1 ⊢
    cases d with
    | error e => exact lcu_ErrIn_err _ _ (h1 e rfl)
    | ok x => obtain ⟨si, t, ms⟩ := x; exact lcu_ErrIn_ok _ _
  · split
    · exact lcu_ErrIn_err _ _ lcu_soft_unmodelled
    · exact lcu_ErrIn_ok _ _

theorem lcu_isolateUserTags_soft {σ} (hook : ObjHook σ) (program : Option Name) (recs : List Up.Rec) :
    ∀ st : St σ, lcu_ErrIn lcu_Soft (isolateUserTags hook program st recs).2 := by
  induction recs with
  | nil => intro st; exact lcu_ErrIn_ok _ _
  | cons r rest ih =>
    intro st
    unfold isolateUserTags
    dsimp only
    split
    · exact ih _
    · generalize createTag hook _ r = res
      obtain ⟨st1, t⟩ := res
      dsimp only
      cases t with
      | error e => exact lcu_ErrIn_err _ _ (lcu_wrap_soft e)
      | ok x =>
        obtain ⟨info, tagMeta⟩ := x
        dsimp only
        have h2 := ih st1
        generalize isolateUserTags hook program st1 rest = r2 at h2 ⊢
        obtain ⟨st2, more⟩ := r2
        exact lcu_ErrIn_map _ _ _ h2

theorem lcu_getTagListScope_soft {σ} (hook : ObjHook σ) (st : St σ) (program : Option Name) :
    lcu_ErrIn lcu_Soft (getTagListScope hook st program).2 := by
  unfold getTagListScope
  dsimp only
  have h1 := lcu_gial_soft hook program (decide (revisionMajor st.l.info ≥ Gen.MIN_VER_EXTERNAL_ACCESS)) PAGE_FUEL st.w 0 []
  generalize getInstanceAttributeList hook program _ PAGE_FUEL st.w 0 [] = r at h1 ⊢
  obtain ⟨w1, r⟩ := r
  dsimp only at h1 ⊢
  cases r with
  | error e => exact lcu_ErrIn_err _ _ (h1 e rfl)
  | ok recs => exact lcu_isolateUserTags_soft hook program recs _

/-- library exception, one of the two markers, or RuntimeError -/
def lcu_Cls (e : Exn) : Prop := lcu_Soft e ∨ e = .foreign "RuntimeError"

theorem lcu_programScopes_cls {σ} (hook : ObjHook σ) (size : Nat) (progs : List Name) :
    ∀ st : St σ, lcu_ErrIn lcu_Cls (programScopes hook size st progs).2 := by
  induction progs with
  | nil =>
    intro st
    unfold programScopes
    split
    · exact lcu_ErrIn_err _ _ (.inr rfl)
    · exact lcu_ErrIn_ok _ _
  | cons p rest ih =>
    intro st
    unfold programScopes
    split
    · exact lcu_ErrIn_err _ _ (.inr rfl)
    · dsimp only
      have h1 := lcu_getTagListScope_soft hook st (some p)
      generalize getTagListScope hook st (some p) = r at h1 ⊢
      obtain ⟨st1, r⟩ := r
      dsimp only at h1 ⊢
      cases r with
      | error e => exact lcu_ErrIn_err _ _ (.inl (h1 e rfl))
      | ok tags =>
        dsimp only
        have h2 := ih st1
        generalize programScopes hook size st1 rest = r2 at h2 ⊢
        obtain ⟨st2, more⟩ := r2
        exact lcu_ErrIn_map _ _ _ h2

theorem lcu_getTagList_cls {σ} (hook : ObjHook σ) (w : Cli.World σ) (l : LDrv) (allPrograms : Bool) :
    lcu_ErrIn (fun e => lcu_Soft e ∨ (e = .foreign "RuntimeError" ∧ allPrograms = true))
      (getTagList hook w l allPrograms).2.2 := by
  unfold getTagList
  have h0 : lcu_ErrIn Cli.LcLib (Cli.ensureForwardOpen hook Cli.FUEL w).2 := fun e he => Cli.lc_efo_lib hook 5 w e he
  generalize Cli.ensureForwardOpen hook Cli.FUEL w = r0 at h0 ⊢
  obtain ⟨w0, pre⟩ := r0
  dsimp only at h0 ⊢
  cases pre with
  | error e => exact lcu_ErrIn_err _ _ (.inl (.inl (h0 e rfl)))
  | ok u =>
    dsimp only
    generalize hl0 : ({ l with cacheLeft := true, info := { l.info with programs := some [], tasks := some [], modules := some [] } } : LDrv) = l0
    have h1 := lcu_getTagListScope_soft hook ({ w := w0, l := l0 } : St σ) none
    generalize getTagListScope hook ({ w := w0, l := l0 } : St σ) none = r at h1 ⊢
    obtain ⟨st1, r⟩ := r
    dsimp only at h1 ⊢
    cases r with
    | error e => exact lcu_ErrIn_err _ _ (.inl (h1 e rfl))
    | ok ctl =>
      dsimp only
      cases allPrograms with
      | false =>
        simp only [Bool.false_eq_true, if_false]
        exact lcu_ErrIn_ok _ _
      | true =>
        simp only [if_true]
        have h2 := lcu_programScopes_cls hook ((st1.l.info.programs.getD []).map (·.1)).length
          ((st1.l.info.programs.getD []).map (·.1)) st1
        generalize programScopes hook ((st1.l.info.programs.getD []).map (·.1)).length st1
          ((st1.l.info.programs.getD []).map (·.1)) = r2 at h2 ⊢
        obtain ⟨st2, r2⟩ := r2
        dsimp only at h2 ⊢
        cases r2 with
        | error e => exact lcu_ErrIn_err _ _ ((h2 e rfl).elim .inl (fun h' => .inr ⟨h', by simp⟩))
        | ok ptags => exact lcu_ErrIn_ok _ _

/-- `_initialize_driver` with the calls as parameters (`lcu_initF`): the error classes -/
theorem lcu_initF_err {σ} {P : Exn → Prop} (cfg : Config) f1 f2 f3 f4 f5 f6 f7 f8
    (a1 : ∀ w : Cli.World σ, lcu_ErrIn P (f1 w).2) (a2 : ∀ w m, lcu_ErrIn P (f2 w m).2) (a3 : ∀ w, lcu_ErrIn P (f3 w).2)
    (a4 : ∀ w l b, cfg.initTags = true → b = cfg.initProgramTags → lcu_ErrIn P (f4 w l b).2.2)
    (w : Cli.World σ) (l : LDrv) :
    lcu_ErrIn P (lcu_initF f1 f2 f3 f4 f5 f6 f7 f8 cfg w l).2.2 := by
  unfold lcu_initF
  have h1 := a1 w
  generalize f1 w = r1 at h1 ⊢
  obtain ⟨w1, idn⟩ := r1
  dsimp only at h1 ⊢
  cases idn with
  | error e => exact lcu_ErrIn_err _ _ (h1 e rfl)
  | ok identity =>
    dsimp only
    have h2 := a2 w1 (f6 identity)
    generalize f2 w1 (f6 identity) = r2 at h2 ⊢
    obtain ⟨w2, inf⟩ := r2
    dsimp only at h2 ⊢
    cases inf with
    | error e => exact lcu_ErrIn_err _ _ (h2 e rfl)
    | ok plc =>
      dsimp only
      generalize htr : (if f6 identity = true then (_ : Cli.World σ × LDrv × Except Exn Unit) else _) = trip
      have h3 : lcu_ErrIn P trip.2.2 := by
        rw [← htr]
        split
        · exact lcu_ErrIn_ok _ _
        · have h3 := a3 w2
          generalize f3 w2 = r3 at h3 ⊢
          obtain ⟨w3, nmr⟩ := r3
          cases nmr with
          | error e => exact lcu_ErrIn_err _ _ (h3 e rfl)
          | ok n => exact lcu_ErrIn_ok _ _
      clear htr
      obtain ⟨w3, l4, named⟩ := trip
      dsimp only at h3 ⊢
      cases named with
      | error e => exact lcu_ErrIn_err _ _ (h3 e rfl)
      | ok u =>
        dsimp only
        split
        · rename_i hit
          exact a4 _ l4 _ hit rfl
        · exact lcu_ErrIn_ok _ _

theorem lcu_initializeDriver_cls {σ} (hook : ObjHook σ) (cfg : Config) (w : Cli.World σ) (l : LDrv) :
    lcu_ErrIn (fun e => lcu_Soft e ∨ (e = .foreign "RuntimeError" ∧ cfg.initTags = true ∧ cfg.initProgramTags = true))
      (initializeDriver hook cfg w l).2.2 := by
  rw [lcu_initF_eq]
  refine lcu_initF_err cfg _ _ _ _ _ _ _ _ ?_ ?_ ?_ ?_ w l
  · exact fun w => lcu_ErrIn_mono _ (lcu_listIdentity_err hook w) (fun _ h => .inl (.inl h))
  · exact fun w m => lcu_ErrIn_mono _ (lcu_getPlcInfo_err hook w m) (fun _ h => .inl (h ▸ lcu_soft_response))
  · exact fun w => lcu_ErrIn_mono _ (lcu_getPlcName_err hook w) (fun _ h => .inl (.inl h))
  · intro w l b hit hb
    refine lcu_ErrIn_mono _ (lcu_getTagList_cls hook w l b) ?_
    intro e h
    rcases h with h | ⟨h1, h2⟩
    · exact .inl h
    · exact .inr ⟨h1, hit, hb ▸ h2⟩

theorem lcu_openLogixSt_cls {σ} (hook : ObjHook σ) (cfg : Config) (w : Cli.World σ) (l : LDrv) (rnd : Bytes) :
    lcu_ErrIn (fun e => lcu_Soft e ∨ (e = .foreign "RuntimeError" ∧ cfg.initTags = true ∧ cfg.initProgramTags = true))
      (openLogixSt hook cfg w l rnd).2.2 := by
  unfold openLogixSt
  have h1 : lcu_ErrIn (fun e => e = .comm) (Cli.openDrv hook w rnd).2 := fun e he => Cli.lc_openDrv_err hook w rnd e he
  generalize Cli.openDrv hook w rnd = r1 at h1 ⊢
  obtain ⟨w1, r⟩ := r1
  dsimp only at h1 ⊢
  cases r with
  | error e => exact lcu_ErrIn_err _ _ (.inl (.inl (h1 e rfl ▸ Cli.lc_lib_comm)))
  | ok b =>
    cases b with
    | false => exact lcu_ErrIn_ok _ _
    | true =>
      dsimp only
      have h2 := lcu_initializeDriver_cls hook cfg w1 l
      generalize initializeDriver hook cfg w1 l = r2 at h2 ⊢
      obtain ⟨w2, l2, r2⟩ := r2
      exact lcu_ErrIn_map _ _ _ h2

end Pycomm.Lgx.Opn
